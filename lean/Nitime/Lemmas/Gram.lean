/-
Gram kernels: `gramK c T u i j = c · Σ_{t<T} u i t · conj (u j t)` for per-channel vectors `u i`.
Every cross-spectral matrix of the spectral model is of this form (C06 `…_is_gram`), hence
Hermitian, positive semidefinite (Mathlib `Matrix.PosSemidef`) and real on the diagonal.
-/
import Mathlib.LinearAlgebra.Matrix.PosDef
import Mathlib.Analysis.Complex.Order
import Mathlib.Analysis.RCLike.Basic
import Mathlib.Analysis.Complex.Basic
import Mathlib.Data.Complex.BigOperators
import Mathlib.Analysis.Real.Sqrt

namespace Nitime.Gram
open Finset
open scoped ComplexOrder

noncomputable def gramK (c : ℝ) (T : ℕ) (u : ℕ → ℕ → ℂ) (i j : ℕ) : ℂ :=
  (c : ℂ) * ∑ t ∈ range T, u i t * (starRingEnd ℂ) (u j t)

theorem gramK_hermitian (c : ℝ) (T : ℕ) (u : ℕ → ℕ → ℂ) (i j : ℕ) :
    gramK c T u j i = (starRingEnd ℂ) (gramK c T u i j) := by
  unfold gramK
  rw [map_mul, Complex.conj_ofReal, map_sum]
  congr 1
  refine sum_congr rfl fun t _ => ?_
  rw [map_mul, Complex.conj_conj, mul_comm]

theorem gramK_diag (c : ℝ) (T : ℕ) (u : ℕ → ℕ → ℂ) (i : ℕ) :
    gramK c T u i i = ((c * ∑ t ∈ range T, Complex.normSq (u i t) : ℝ) : ℂ) := by
  unfold gramK
  push_cast
  congr 1
  refine sum_congr rfl fun t _ => ?_
  rw [Complex.mul_conj]

/-- the entry `(i, j)` only looks at `u i` and `u j` -/
theorem gramK_congr (c : ℝ) (T : ℕ) {u v : ℕ → ℕ → ℂ} {i j i' j' : ℕ}
    (hi : ∀ t < T, u i t = v i' t) (hj : ∀ t < T, u j t = v j' t) :
    gramK c T u i j = gramK c T v i' j' := by
  unfold gramK
  congr 1
  refine sum_congr rfl fun t ht => ?_
  rw [hi t (mem_range.1 ht), hj t (mem_range.1 ht)]

/-- scaling every vector by `a` scales the kernel by `|a|²` -/
theorem gramK_smul (c : ℝ) (T : ℕ) (a : ℂ) (u : ℕ → ℕ → ℂ) (i j : ℕ) :
    gramK c T (fun i t => a * u i t) i j = (Complex.normSq a : ℂ) * gramK c T u i j := by
  unfold gramK
  rw [Finset.mul_sum, Finset.mul_sum, Finset.mul_sum]
  refine sum_congr rfl fun t _ => ?_
  rw [map_mul, Complex.normSq_eq_conj_mul_self]
  ring

/-- any finite section of a Gram kernel with `c ≥ 0` is positive semidefinite -/
theorem gramK_posSemidef {c : ℝ} (hc : 0 ≤ c) (T : ℕ) (u : ℕ → ℕ → ℂ) (M : ℕ) :
    (Matrix.of fun (i j : Fin M) => gramK c T u i j).PosSemidef := by
  let A : Matrix (Fin M) (Fin T) ℂ := Matrix.of fun i t => ((Real.sqrt c : ℝ) : ℂ) * u i t
  have h : (Matrix.of fun (i j : Fin M) => gramK c T u i j) = A * A.conjTranspose := by
    ext i j
    simp only [Matrix.of_apply, Matrix.mul_apply, Matrix.conjTranspose_apply, A, gramK]
    rw [Fin.sum_univ_eq_sum_range (fun t => ((Real.sqrt c : ℝ) : ℂ) * u i t * star (((Real.sqrt c : ℝ) : ℂ) * u j t)) T,
      Finset.mul_sum]
    refine sum_congr rfl fun t _ => ?_
    have hs : ((Real.sqrt c : ℝ) : ℂ) * ((Real.sqrt c : ℝ) : ℂ) = (c : ℂ) := by
      rw [← Complex.ofReal_mul, Real.mul_self_sqrt hc]
    simp only [star_mul', Complex.star_def, Complex.conj_ofReal, ← hs]
    ring
  rw [h]
  exact Matrix.posSemidef_self_mul_conjTranspose A

end Nitime.Gram
