/-
`scipy.signal.filtfilt` (model: `Model/FiltFilt.lean`) is a LINEAR map of the data, for fixed coefficients,
initial-condition vector and padding — over any commutative ring.
-/
import Nitime.Model.FiltFilt
import Mathlib.Algebra.Ring.Basic
import Mathlib.Tactic.Ring
import Mathlib.Data.List.Basic

set_option linter.unusedSectionVars false
namespace Nitime.FiltFilt
variable {K : Type} [CommRing K]

/-- `c·u + v`, entry by entry -/
def lin (c : K) (u v : List K) : List K := List.zipWith (fun p q => c * p + q) u v

@[simp] theorem lin_length (c : K) (u v : List K) (h : u.length = v.length) : (lin c u v).length = u.length := by
  simp [lin, h]

theorem g_lin (c : K) (u v : List K) (h : u.length = v.length) (i : ℕ) :
    g (lin c u v) i = c * g u i + g v i := by
  unfold g lin
  by_cases hi : i < u.length
  · have hv : i < v.length := h ▸ hi
    simp [List.getD_eq_getElem?_getD, List.getElem?_zipWith, List.getElem?_eq_getElem hi, List.getElem?_eq_getElem hv]
  · have hv : ¬ i < v.length := h ▸ hi
    simp [List.getD_eq_getElem?_getD, List.getElem?_zipWith, List.getElem?_eq_none (Nat.le_of_not_lt hi),
      List.getElem?_eq_none (Nat.le_of_not_lt hv)]

theorem lin_nil (c : K) : lin c ([] : List K) [] = [] := rfl

theorem lin_cons (c p q : K) (u v : List K) : lin c (p :: u) (q :: v) = (c * p + q) :: lin c u v := rfl

theorem lin_append (c : K) (u u' v v' : List K) (h : u.length = v.length) :
    lin c (u ++ u') (v ++ v') = lin c u v ++ lin c u' v' := by
  unfold lin; exact List.zipWith_append h

theorem lin_reverse (c : K) (u v : List K) (h : u.length = v.length) :
    (lin c u v).reverse = lin c u.reverse v.reverse := by
  unfold lin; exact (List.reverse_zipWith h).symm ▸ rfl

theorem lin_drop (c : K) (u v : List K) (n : ℕ) : (lin c u v).drop n = lin c (u.drop n) (v.drop n) := by
  unfold lin; exact List.drop_zipWith

theorem lin_take (c : K) (u v : List K) (n : ℕ) : (lin c u v).take n = lin c (u.take n) (v.take n) := by
  unfold lin; exact List.take_zipWith

theorem lin_map_range (c : K) (n : ℕ) (f f' : ℕ → K) :
    lin c ((List.range n).map f) ((List.range n).map f') = (List.range n).map fun i => c * f i + f' i := by
  unfold lin
  rw [List.zipWith_map, List.zipWith_self]

theorem lin_map (c : K) (zi : List K) (s t : K) :
    lin c (zi.map (· * s)) (zi.map (· * t)) = zi.map (· * (c * s + t)) := by
  unfold lin
  rw [List.zipWith_map, List.zipWith_self]
  refine List.map_congr_left fun z _ => ?_
  ring

/-! ### the recursion -/

theorem dfStep_snd_length (b a z : List K) (x : K) : (dfStep b a z x).2.length = z.length := by
  simp [dfStep]

theorem dfStep_lin (b a : List K) (c : K) (z z' : List K) (h : z.length = z'.length) (x x' : K) :
    dfStep b a (lin c z z') (c * x + x') =
      (c * (dfStep b a z x).1 + (dfStep b a z' x').1, lin c (dfStep b a z x).2 (dfStep b a z' x').2) := by
  unfold dfStep
  simp only [lin_length c z z' h, g_lin c z z' h]
  refine Prod.ext (by ring) ?_
  simp only
  rw [← h, lin_map_range]
  refine List.map_congr_left fun i _ => ?_
  ring

theorem lfilterZ_length (b a : List K) (xs z : List K) : (lfilterZ b a z xs).length = xs.length := by
  induction xs generalizing z with
  | nil => rfl
  | cons x xs ih => simp [lfilterZ, ih]

theorem lfilterZ_lin (b a : List K) (c : K) (xs xs' : List K) (hx : xs.length = xs'.length)
    (z z' : List K) (hz : z.length = z'.length) :
    lfilterZ b a (lin c z z') (lin c xs xs') = lin c (lfilterZ b a z xs) (lfilterZ b a z' xs') := by
  induction xs generalizing xs' z z' with
  | nil =>
    cases xs' with
    | nil => rfl
    | cons _ _ => simp at hx
  | cons x xs ih =>
    cases xs' with
    | nil => simp at hx
    | cons x' xs' =>
      have hx' : xs.length = xs'.length := by simpa using hx
      rw [lin_cons]
      simp only [lfilterZ]
      rw [dfStep_lin b a c z z' hz, lin_cons]
      congr 1
      exact ih xs' hx' _ _ (by rw [dfStep_snd_length, dfStep_snd_length, hz])

theorem oddExt_length (x : List K) (n : ℕ) : (oddExt x n).length = n + x.length + n := by
  simp [oddExt]; omega

theorem oddExt_lin (c : K) (x x' : List K) (h : x.length = x'.length) (n : ℕ) :
    oddExt (lin c x x') n = lin c (oddExt x n) (oddExt x' n) := by
  unfold oddExt
  rw [lin_append _ _ _ _ _ (by simp [h]), lin_append _ _ _ _ _ (by simp), lin_map_range, lin_map_range,
    lin_length c x x' h, ← h]
  congr 1
  · congr 1
    refine List.map_congr_left fun i _ => ?_
    simp only [g_lin c x x' h]; ring
  · refine List.map_congr_left fun i _ => ?_
    simp only [g_lin c x x' h]; ring

/-- **`scipy.signal.filtfilt` is linear in the data** (fixed `b`, `a`, `zi`, padding): for signals of
equal length, `filtfilt (c·x + x') = c·filtfilt x + filtfilt x'`. -/
theorem filtfilt_lin (b a zi : List K) (p : ℕ) (c : K) (x x' : List K) (h : x.length = x'.length) :
    filtfilt b a zi p (lin c x x') = lin c (filtfilt b a zi p x) (filtfilt b a zi p x') := by
  unfold filtfilt
  simp only
  have he : (oddExt x p).length = (oddExt x' p).length := by rw [oddExt_length, oddExt_length, h]
  rw [oddExt_lin c x x' h, g_lin c _ _ he, ← lin_map,
    lfilterZ_lin b a c _ _ he _ _ (by simp)]
  have h1 : (lfilterZ b a (zi.map (· * g (oddExt x p) 0)) (oddExt x p)).length
      = (lfilterZ b a (zi.map (· * g (oddExt x' p) 0)) (oddExt x' p)).length := by
    rw [lfilterZ_length, lfilterZ_length, he]
  rw [lin_reverse _ _ _ h1]
  have h2 : (lfilterZ b a (zi.map (· * g (oddExt x p) 0)) (oddExt x p)).reverse.length
      = (lfilterZ b a (zi.map (· * g (oddExt x' p) 0)) (oddExt x' p)).reverse.length := by
    simp [h1]
  rw [g_lin c _ _ h2, ← lin_map, lfilterZ_lin b a c _ _ h2 _ _ (by simp)]
  have h3 : ∀ (u u' : List K), u.length = u'.length → ∀ (z z' : List K),
      (lfilterZ b a z u).length = (lfilterZ b a z' u').length := by
    intro u u' hu z z'; rw [lfilterZ_length, lfilterZ_length, hu]
  rw [lin_reverse _ _ _ (h3 _ _ h2 _ _), lin_drop, lin_take, lin_length c x x' h, ← h]

end Nitime.FiltFilt
