/-
C19: the model's Gaussian elimination `elimSolve` (Model/C19.lean) is sound (a returned vector
satisfies every row equation) and total on square systems with trivial kernel.
-/
import Mathlib.Tactic.FieldSimp
import Nitime.Lemmas.C19Lin

namespace Nitime.C19
open Finset

theorem pickPivot_none {rows : List (List ℚ)} (h : pickPivot rows = none) :
    ∀ row ∈ rows, row.getD 0 0 = 0 := by
  induction rows with
  | nil => simp
  | cons r rs ih =>
    unfold pickPivot at h
    split_ifs at h with h0
    split at h
    · rename_i hn
      intro row hrow
      rcases List.mem_cons.mp hrow with rfl | hm
      · exact not_not.mp h0
      · exact ih hn row hm
    · cases h

theorem pickPivot_some {rows : List (List ℚ)} {piv : List ℚ} {rest : List (List ℚ)}
    (h : pickPivot rows = some (piv, rest)) :
    piv.getD 0 0 ≠ 0 ∧ rest.length + 1 = rows.length ∧ (∀ row, row ∈ rows ↔ row = piv ∨ row ∈ rest) := by
  induction rows generalizing piv rest with
  | nil => simp [pickPivot] at h
  | cons r rs ih =>
    unfold pickPivot at h
    split_ifs at h with h0
    · injection h with h; injection h with h1 h2; subst h1; subst h2
      exact ⟨h0, rfl, fun row => by simp⟩
    · split at h
      · cases h
      · rename_i q rest' hq
        injection h with h; injection h with h1 h2; subst h1; subst h2
        obtain ⟨a, b, c⟩ := ih hq
        refine ⟨a, by simp [← b], fun row => ?_⟩
        simp only [List.mem_cons, c]; tauto

theorem getD_reduceRow (m : ℕ) (piv row : List ℚ) (c : ℕ) (hc : c < m) :
    (reduceRow m piv row).getD c 0
      = row.getD (c + 1) 0 - (row.getD 0 0 / piv.getD 0 0) * piv.getD (c + 1) 0 := by
  unfold reduceRow
  simp [List.getD_eq_getElem?_getD, hc]

/-- the elimination step, abstractly: extend `v'` by `v0 := -(Σ q(c+1) v' c)/q 0` -/
theorem ext_piv (m : ℕ) (q v' : ℕ → ℚ) (h : q 0 ≠ 0) :
    q 0 * (-(∑ c ∈ range m, q (c + 1) * v' c) / q 0) + ∑ c ∈ range m, q (c + 1) * v' c = 0 := by
  field_simp; ring

theorem ext_row (m : ℕ) (r q v' : ℕ → ℚ) (h : q 0 ≠ 0) :
    r 0 * (-(∑ c ∈ range m, q (c + 1) * v' c) / q 0) + ∑ c ∈ range m, r (c + 1) * v' c
      = ∑ c ∈ range m, (r (c + 1) - r 0 / q 0 * q (c + 1)) * v' c := by
  simp only [sub_mul, Finset.sum_sub_distrib, mul_assoc, ← Finset.mul_sum]
  field_simp; ring

theorem sum_cons_getD (p : ℕ) (r : ℕ → ℚ) (x0 : ℚ) (xs : List ℚ) :
    ∑ c ∈ range (p + 1), r c * (x0 :: xs).getD c 0 = r 0 * x0 + ∑ c ∈ range p, r (c + 1) * xs.getD c 0 := by
  rw [Finset.sum_range_succ', add_comm]
  simp

theorem elimSolve_sound : ∀ (p : ℕ) (rows : List (List ℚ)) (xs : List ℚ), rows.length = p →
    elimSolve p rows = some xs →
    ∀ row ∈ rows, ∑ c ∈ range p, row.getD c 0 * xs.getD c 0 = row.getD p 0 := by
  intro p
  induction p with
  | zero =>
    intro rows xs hl _ row hrow
    rw [List.length_eq_zero_iff.mp hl] at hrow
    cases hrow
  | succ p ih =>
    intro rows xs hl h row hrow
    unfold elimSolve at h
    split at h
    · cases h
    · rename_i piv rest hpp
      obtain ⟨hq0, hlen, hmem⟩ := pickPivot_some hpp
      split at h
      · cases h
      · rename_i xs' hrec
        injection h with h
        subst h
        have hl' : (rest.map (reduceRow (p + 1) piv)).length = p := by
          rw [List.length_map]; omega
        have IH := ih _ xs' hl' hrec
        rw [sum_cons_getD p (fun c => row.getD c 0), sumRange_eq]
        set Sq := ∑ c ∈ range p, piv.getD (c + 1) 0 * xs'.getD c 0 with hSq
        rcases (hmem row).mp hrow with rfl | hr
        · rw [mul_div_cancel₀ _ hq0]; ring
        · have hI := IH _ (List.mem_map_of_mem (f := reduceRow (p + 1) piv) hr)
          rw [getD_reduceRow _ _ _ _ (Nat.lt_succ_self p)] at hI
          have hI' : ∑ c ∈ range p, row.getD (c + 1) 0 * xs'.getD c 0
              - row.getD 0 0 / piv.getD 0 0 * Sq
              = row.getD (p + 1) 0 - row.getD 0 0 / piv.getD 0 0 * piv.getD (p + 1) 0 := by
            rw [← hI, hSq, Finset.mul_sum, ← Finset.sum_sub_distrib]
            apply Finset.sum_congr rfl
            intro c hc
            rw [getD_reduceRow _ _ _ _ (by have := Finset.mem_range.mp hc; omega)]
            ring
          have e : row.getD 0 0 * ((piv.getD (p + 1) 0 - Sq) / piv.getD 0 0)
              = row.getD 0 0 / piv.getD 0 0 * (piv.getD (p + 1) 0 - Sq) := by ring
          rw [e]
          linarith

theorem sum_ext_v (p : ℕ) (r v' : ℕ → ℚ) (v0 : ℚ) :
    ∑ c ∈ range (p + 1), r c * (if c = 0 then v0 else v' (c - 1)) = r 0 * v0 + ∑ c ∈ range p, r (c + 1) * v' c := by
  rw [Finset.sum_range_succ', add_comm]
  simp

/-- the square system has only the trivial kernel ⇒ the elimination finds a pivot in every column -/
theorem elimSolve_total : ∀ (p : ℕ) (rows : List (List ℚ)), rows.length = p →
    (∀ v : ℕ → ℚ, (∀ row ∈ rows, ∑ c ∈ range p, row.getD c 0 * v c = 0) → ∀ c < p, v c = 0) →
    (elimSolve p rows).isSome := by
  intro p
  induction p with
  | zero => intro rows _ _; simp [elimSolve]
  | succ p ih =>
    intro rows hl hns
    unfold elimSolve
    cases hpp : pickPivot rows with
    | none =>
      exfalso
      have h0 := pickPivot_none hpp
      have := hns (fun c => if c = 0 then 1 else 0) (by
        intro row hrow
        have := sum_ext_v p (fun c => row.getD c 0) (fun _ => 0) 1
        rw [this, h0 row hrow]; simp) 0 (Nat.succ_pos p)
      simp at this
    | some pr =>
      obtain ⟨piv, rest⟩ := pr
      obtain ⟨hq0, hlen, hmem⟩ := pickPivot_some hpp
      have hl' : (rest.map (reduceRow (p + 1) piv)).length = p := by
        rw [List.length_map]; omega
      have hsome := ih (rest.map (reduceRow (p + 1) piv)) hl' (by
        intro v' hv' c hc
        set v0 : ℚ := -(∑ c ∈ range p, piv.getD (c + 1) 0 * v' c) / piv.getD 0 0 with hv0
        have key := hns (fun c => if c = 0 then v0 else v' (c - 1)) (by
          intro row hrow
          rw [sum_ext_v p (fun c => row.getD c 0) v' v0]
          rcases (hmem row).mp hrow with rfl | hr
          · exact ext_piv p (fun c => row.getD c 0) v' hq0
          · rw [hv0, ext_row p (fun c => row.getD c 0) (fun c => piv.getD c 0) v' hq0]
            refine Eq.trans (Finset.sum_congr rfl ?_) (hv' _ (List.mem_map_of_mem (f := reduceRow (p + 1) piv) hr))
            intro c hc
            rw [getD_reduceRow _ _ _ _ (by have := Finset.mem_range.mp hc; omega)]) (c + 1) (by omega)
        simpa using key)
      simp only []
      cases hrec : elimSolve p (rest.map (reduceRow (p + 1) piv)) with
      | none => rw [hrec] at hsome; cases hsome
      | some xs => simp

end Nitime.C19
