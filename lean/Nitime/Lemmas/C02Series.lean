/-
C02 — lemmas for the series' own attributes (`mkSeries`) and for intervals given as time objects
(binary64 chain `x = fl(fl(ps)/F)`, `rate = fl(fl(1/x)·fl(10¹²/F))`).
-/
import Nitime.Model.C02
import Nitime.Lemmas.C02

namespace Nitime.C02
open Nitime Nitime.F64 Nitime.C02F
open Nitime.C01 (Num toPs)

/-- the series' own attributes are the ones the shared derivation block yields -/
theorem mkSeries_attrs {v : Variant} {n : Nat} {t0 iv : Option TArg} {rate : Option RArg}
    {dur : Option TArg} {u : UArg} {sr : Series} (h : mkSeries v n t0 iv rate dur u = .ok sr) :
    ∃ uo ivr hz, checkUnit u = .ok uo ∧ sr.unit = inferUnit uo dur iv ∧
      deriveIntervalRate v sr.unit (some n) iv rate dur = .ok (ivr, hz) ∧
      sr.dt = targPs sr.unit ivr ∧ sr.rate = hz ∧ sr.t0 = targPs sr.unit (t0.getD (.num (.int 0))) := by
  unfold mkSeries at h
  simp only [bind, Except.bind, pure, Except.pure] at h
  split at h
  · simp [throw, throwThe, MonadExceptOf.throw] at h
  · split at h
    · cases h
    · rename_i uo huo
      split at h
      · cases h
      · rename_i p hp
        obtain ⟨ivr, hz⟩ := p
        split at h
        · cases h
        · simp only [Except.ok.injEq] at h
          subst h
          exact ⟨uo, ivr, hz, huo, rfl, hp, rfl, rfl, rfl⟩

/-- an interval held as a whole number `ps` of picoseconds, read back as a binary64 number of the
unit with factor `F` (`x = fl(fl(ps)/F)`): `x·F` is `ps` up to binary64 resolution -/
theorem tobj_core (ps : Int) (F : Rat) (hps : 0 < ps) (hF : 0 < F) :
    0 < rne (rne (ps : Rat) / F) ∧
    |rne (rne (ps : Rat) / F) * F - (ps : Rat)| ≤ (ps : Rat) * (5 / 2 * (1 / 2 ^ 53)) := by
  have q1pos : (0 : Rat) < (ps : Rat) := by exact_mod_cast hps
  generalize (ps : Rat) = q1 at *
  have h1 := rne_err q1
  rw [abs_of_pos q1pos, abs_le] at h1
  have apos : 0 < rne q1 := by
    have : q1 / 2 ^ 53 ≤ q1 / 2 := by
      apply div_le_div_of_nonneg_left q1pos.le (by norm_num) (by norm_num)
    linarith
  have q2pos : 0 < rne q1 / F := div_pos apos hF
  have h2 := rne_err (rne q1 / F)
  rw [abs_of_pos q2pos, abs_le] at h2
  have xpos : 0 < rne (rne q1 / F) := by
    have : rne q1 / F / 2 ^ 53 ≤ rne q1 / F / 2 := by
      apply div_le_div_of_nonneg_left q2pos.le (by norm_num) (by norm_num)
    linarith
  refine ⟨xpos, ?_⟩
  have e : rne (rne q1 / F) * F - q1 = (rne (rne q1 / F) - rne q1 / F) * F + (rne q1 - q1) := by
    field_simp
    ring
  have hF' : rne q1 / F / 2 ^ 53 * F = rne q1 / 2 ^ 53 := by field_simp
  have b1 : (rne (rne q1 / F) - rne q1 / F) * F ≤ rne q1 / 2 ^ 53 := by
    rw [← hF']; exact mul_le_mul_of_nonneg_right h2.2 hF.le
  have b2 : -(rne q1 / 2 ^ 53) ≤ (rne (rne q1 / F) - rne q1 / F) * F := by
    rw [← hF', ← neg_mul]; exact mul_le_mul_of_nonneg_right h2.1 hF.le
  have b3 : rne q1 / 2 ^ 53 ≤ q1 * (1 + 1 / 2 ^ 53) / 2 ^ 53 := by
    apply div_le_div_of_nonneg_right _ (by positivity)
    have : q1 * (1 + 1 / 2 ^ 53) = q1 + q1 / 2 ^ 53 := by ring
    rw [this]; linarith
  have b4 : q1 * (1 + 1 / 2 ^ 53) / 2 ^ 53 + q1 / 2 ^ 53 ≤ q1 * (5 / 2 * (1 / 2 ^ 53)) := by
    have : q1 * (5 / 2 * (1 / 2 ^ 53)) - (q1 * (1 + 1 / 2 ^ 53) / 2 ^ 53 + q1 / 2 ^ 53)
        = q1 * ((1 / 2 - 1 / 2 ^ 53) / 2 ^ 53) := by ring
    have h0 : 0 ≤ q1 * ((1 / 2 - 1 / 2 ^ 53) / 2 ^ 53) := by
      apply mul_nonneg q1pos.le; norm_num
    linarith
  rw [e, abs_le]
  constructor <;> linarith

/-- the rate stored for an interval given as a time object of `ps` picoseconds with display unit
`iu` describes that interval up to binary64 resolution, whatever `iu` is -/
theorem tobj_rate_close (iu : TimeUnit) (ps : Int) (hps : 0 < ps) :
    F64.fdiv (F64.ofInt ps) (cf iu) ≠ 0 ∧
    0 < frequency (F64.fdiv 1 (F64.fdiv (F64.ofInt ps) (cf iu))) iu ∧
    |(ps : Rat) - 10 ^ 12 / frequency (F64.fdiv 1 (F64.fdiv (F64.ofInt ps) (cf iu))) iu|
      ≤ ((5 / 2) * (ps : Rat)
          + (7 / 2) * (10 ^ 12 / frequency (F64.fdiv 1 (F64.fdiv (F64.ofInt ps) (cf iu))) iu)) / 2 ^ 53 := by
  have hs : cf .s = 10 ^ 12 := by rw [cf_exact]; norm_num [Generated.factor]
  obtain ⟨xpos, hx⟩ := tobj_core ps (Generated.factor iu : Rat) hps (factor_pos iu)
  have hxdef : F64.fdiv (F64.ofInt ps) (cf iu) = rne (rne (ps : Rat) / (Generated.factor iu : Rat)) := by
    simp only [F64.fdiv, F64.ofInt, cf_exact]
  rw [hxdef]
  generalize rne (rne (ps : Rat) / (Generated.factor iu : Rat)) = x at *
  have hr : frequency (fdiv 1 x) iu = rne (rne (1 / x) * rne (10 ^ 12 / (Generated.factor iu : Rat))) := by
    simp only [frequency, fmul, fdiv, hs, cf_exact]
  rw [hr]
  obtain ⟨rpos, hc⟩ := hz_core x (Generated.factor iu : Rat) xpos (factor_pos iu)
  refine ⟨xpos.ne', rpos, ?_⟩
  generalize (10 : Rat) ^ 12 / rne (rne (1 / x) * rne (10 ^ 12 / (Generated.factor iu : Rat))) = P at *
  have e : (ps : Rat) - P = -(x * (Generated.factor iu : Rat) - (ps : Rat)) + (x * (Generated.factor iu : Rat) - P) := by ring
  rw [e]
  have := abs_add_le (-(x * (Generated.factor iu : Rat) - (ps : Rat))) (x * (Generated.factor iu : Rat) - P)
  rw [abs_neg] at this
  have e2 : (5 / 2 * (ps : Rat) + 7 / 2 * P) / 2 ^ 53 = (ps : Rat) * (5 / 2 * (1 / 2 ^ 53)) + P * (7 / 2 * (1 / 2 ^ 53)) := by ring
  rw [e2]
  linarith

end Nitime.C02
