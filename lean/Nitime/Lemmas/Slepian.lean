/-
Slepian's commutation theorem for the tridiagonal matrix that `dpss_windows` builds, and its
consequences:

* `slepian_commute` — the symmetric tridiagonal operator with main diagonal
  `((N-1-2n)/2)² · cos c` and off-diagonal `(n+1)(N-1-n)/2` commutes with EVERY Toeplitz kernel
  `s : ℤ → K` that satisfies `k · s k = σ k` with `σ (k-1) + σ (k+1) = 2 cos c · σ k`
  (for the sinc kernel `s k = sin (c k)/(π k)`, `s 0 = c/π`: `σ k = sin (c k)/π`).
* `tri_eigvec_unique` — a symmetric tridiagonal operator whose off-diagonal entries are non-zero has
  one-dimensional eigenspaces (an eigenvector is fixed by its first entry).
* `tri_eigvec_is_kernel_eigvec` — hence every eigenvector of the tridiagonal operator is an
  eigenvector of the kernel operator.
* `tri_eigvec_orthogonal` — eigenvectors for different eigenvalues are orthogonal.

Everything is over an arbitrary field (`cos c` is a parameter `cw`); the real sinc instance is in
`Lemmas/SlepianReal.lean`.
-/
import Nitime.Lemmas.Dpss
import Mathlib.Tactic.LinearCombination
import Mathlib.Tactic.FieldSimp
import Mathlib.Algebra.Order.Ring.Cast

set_option linter.unusedSectionVars false
namespace Nitime.C07
open Finset

section commute
variable {K : Type} [Field K] [CharZero K]

/-- `b x = x (N - x)/2`: the off-diagonal entry between rows `x-1` and `x`; vanishes at `0` and `N` -/
def slepB (N : ℕ) (x : K) : K := x * ((N : K) - x) / 2

/-- main diagonal of the tridiagonal matrix built by `dpss_windows` (`cw = cos (2πW)`) -/
def slepD (N : ℕ) (cw : K) (n : ℕ) : K := (((N : K) - 1 - 2 * (n : K)) / 2) ^ 2 * cw

/-- first off-diagonal: `off_diag[n] = nidx[n+1] * (N - nidx[n+1]) / 2` -/
def slepE (N : ℕ) (n : ℕ) : K := ((n : K) + 1) * ((N : K) - ((n : K) + 1)) / 2

/-- the Toeplitz kernel operator `(S v) z = Σ_{n<N} s (z - n) · v n`, row index in `ℤ` -/
def kerOpZ (s : ℤ → K) (N : ℕ) (v : ℕ → K) (z : ℤ) : K := ∑ n ∈ range N, s (z - n) * v n

/-- … and with a natural row index -/
def kerOp (s : ℤ → K) (N : ℕ) (v : ℕ → K) (m : ℕ) : K := kerOpZ s N v (m : ℤ)

theorem slepE_eq_B (N n : ℕ) : (slepE N n : K) = slepB N ((n : K) + 1) := rfl

theorem slepB_zero (N : ℕ) : slepB N (0 : K) = 0 := by simp [slepB]
theorem slepB_top (N : ℕ) : slepB N (N : K) = 0 := by simp [slepB]

/-- the three-term row of the tridiagonal operator, written with `slepB` and no guards -/
theorem triOp_slep (N : ℕ) (cw : K) (w : ℕ → K) (wz : ℤ → K) (hw : ∀ n : ℕ, wz n = w n)
    (m : ℕ) (hm : m < N) :
    triOp (slepD N cw) (slepE N) N w m
      = slepB N (m : K) * wz ((m : ℤ) - 1) + slepD N cw m * wz m + slepB N ((m : K) + 1) * wz ((m : ℤ) + 1) := by
  unfold triOp
  have h1 : (if 0 < m then slepE N (m - 1) * w (m - 1) else 0) = slepB N (m : K) * wz ((m : ℤ) - 1) := by
    by_cases h : 0 < m
    · rw [if_pos h]
      obtain ⟨j, rfl⟩ : ∃ j, m = j + 1 := ⟨m - 1, by omega⟩
      have : ((j + 1 : ℕ) : ℤ) - 1 = (j : ℤ) := by push_cast; ring
      rw [this, hw, slepE_eq_B]; simp
    · have : m = 0 := by omega
      subst this; simp [slepB_zero]
  have h2 : (if m + 1 < N then slepE N m * w (m + 1) else 0) = slepB N ((m : K) + 1) * wz ((m : ℤ) + 1) := by
    by_cases h : m + 1 < N
    · rw [if_pos h]
      have : (m : ℤ) + 1 = ((m + 1 : ℕ) : ℤ) := by push_cast; ring
      rw [this, hw, slepE_eq_B]
    · have : m + 1 = N := by omega
      have hN : (m : K) + 1 = (N : K) := by rw [← this]; push_cast; ring
      rw [if_neg h, hN, slepB_top]; simp
  rw [h1, h2, hw]

/-- shifting the lower neighbour into place: `Σ_n s(z-n)·[0<n]·E(n-1)·v(n-1) = Σ_j s(z-j-1)·b(j+1)·v j` -/
theorem kerOp_lower (s : ℤ → K) (N : ℕ) (v : ℕ → K) (z : ℤ) :
    ∑ n ∈ range N, s (z - n) * (if 0 < n then slepE N (n - 1) * v (n - 1) else 0)
      = ∑ j ∈ range N, s (z - j - 1) * (slepB N ((j : K) + 1) * v j) := by
  rcases Nat.eq_zero_or_pos N with h | h
  · subst h; simp
  obtain ⟨M, rfl⟩ : ∃ M, N = M + 1 := ⟨N - 1, by omega⟩
  rw [Finset.sum_range_succ', Finset.sum_range_succ]
  have htop : slepB (M + 1) ((M : K) + 1) = 0 := by
    have := slepB_top (K := K) (M + 1); push_cast at this; exact this
  simp only [Nat.lt_irrefl, if_false, mul_zero, add_zero, htop, zero_mul]
  refine Finset.sum_congr rfl fun j _ => ?_
  have e : s (z - ((j + 1 : ℕ) : ℤ)) = s (z - j - 1) := by congr 1; push_cast; ring
  rw [e]; simp [slepE_eq_B]

/-- shifting the upper neighbour into place -/
theorem kerOp_upper (s : ℤ → K) (N : ℕ) (v : ℕ → K) (z : ℤ) :
    ∑ n ∈ range N, s (z - n) * (if n + 1 < N then slepE N n * v (n + 1) else 0)
      = ∑ j ∈ range N, s (z - j + 1) * (slepB N (j : K) * v j) := by
  rcases Nat.eq_zero_or_pos N with h | h
  · subst h; simp
  obtain ⟨M, rfl⟩ : ∃ M, N = M + 1 := ⟨N - 1, by omega⟩
  rw [Finset.sum_range_succ, Finset.sum_range_succ']
  simp only [Nat.lt_irrefl, if_false, mul_zero, add_zero, Nat.cast_zero, slepB_zero, zero_mul]
  refine Finset.sum_congr rfl fun j hj => ?_
  have hj' : j + 1 < M + 1 := by have := mem_range.1 hj; omega
  have : (z - ((j + 1 : ℕ) : ℤ) + 1) = z - j := by push_cast; ring
  rw [if_pos hj', this, slepE_eq_B]; push_cast; ring

/-- **Slepian's commutation theorem** for the matrix `dpss_windows` builds: for every kernel `s` with
`k·s k = σ k`, `σ (k-1) + σ (k+1) = 2·cw·σ k`, every vector `v` and every row `m < N`,
`T (S v) m = S (T v) m`. -/
theorem slepian_commute (N : ℕ) (cw : K) (s σ : ℤ → K)
    (hs : ∀ k : ℤ, (k : K) * s k = σ k) (hσ : ∀ k : ℤ, σ (k - 1) + σ (k + 1) = 2 * cw * σ k)
    (v : ℕ → K) (m : ℕ) (hm : m < N) :
    triOp (slepD N cw) (slepE N) N (kerOp s N v) m = kerOp s N (triOp (slepD N cw) (slepE N) N v) m := by
  -- left side: three kernel rows
  rw [triOp_slep N cw (kerOp s N v) (kerOpZ s N v) (fun n => rfl) m hm]
  -- right side: distribute and shift
  have hR : kerOp s N (triOp (slepD N cw) (slepE N) N v) m
      = ∑ j ∈ range N, (s ((m : ℤ) - j - 1) * slepB N ((j : K) + 1) + s ((m : ℤ) - j) * slepD N cw j
          + s ((m : ℤ) - j + 1) * slepB N (j : K)) * v j := by
    unfold kerOp kerOpZ triOp
    simp only [mul_add, Finset.sum_add_distrib]
    rw [kerOp_lower, kerOp_upper, ← Finset.sum_add_distrib, ← Finset.sum_add_distrib]
    refine Finset.sum_congr rfl fun j _ => by ring
  rw [hR]
  unfold kerOpZ
  simp only [Finset.mul_sum]
  rw [← Finset.sum_add_distrib, ← Finset.sum_add_distrib]
  refine Finset.sum_congr rfl fun j _ => ?_
  -- per-entry identity
  have e1 : ((m : ℤ) - 1 - j) = ((m : ℤ) - j) - 1 := by ring
  have e2 : ((m : ℤ) + 1 - j) = ((m : ℤ) - j) + 1 := by ring
  have e3 : ((m : ℤ) - j - 1) = ((m : ℤ) - j) - 1 := by ring
  rw [e1, e2, e3]
  set k : ℤ := (m : ℤ) - j with hk
  have hkK : (k : K) = (m : K) - (j : K) := by rw [hk]; push_cast; ring
  have a1 := hs (k - 1)
  have a0 := hs k
  have a2 := hs (k + 1)
  have tr := hσ k
  push_cast at a1 a2
  have hmK : (m : K) = (j : K) + (k : K) := by rw [hkK]; ring
  unfold slepB slepD
  rw [hmK]
  set L : K := (N : K) - 2 * (j : K) - (k : K) - 1 with hL
  have key : ((k : K) - 1) * (L / 2) * s (k - 1) + ((k : K) + 1) * (L / 2) * s (k + 1)
      - (k : K) * cw * L * s k = 0 := by
    linear_combination (L / 2) * a1 + (L / 2) * a2 - (cw * L) * a0 + (L / 2) * tr
  have hv : (((j : K) + (k : K)) * ((N : K) - ((j : K) + (k : K))) / 2 * s (k - 1)
      + (((N : K) - 1 - 2 * ((j : K) + (k : K))) / 2) ^ 2 * cw * s k
      + (((j : K) + (k : K)) + 1) * ((N : K) - (((j : K) + (k : K)) + 1)) / 2 * s (k + 1))
      - (s (k - 1) * (((j : K) + 1) * ((N : K) - ((j : K) + 1)) / 2)
          + s k * ((((N : K) - 1 - 2 * (j : K)) / 2) ^ 2 * cw)
          + s (k + 1) * ((j : K) * ((N : K) - (j : K)) / 2)) = 0 := by
    rw [hL] at key
    linear_combination key
  have := sub_eq_zero.1 hv
  linear_combination (v j) * this

end commute

section simple
variable {K : Type} [Field K]

/-- an eigenvector of a symmetric tridiagonal operator with non-zero off-diagonal entries that
vanishes in the first coordinate vanishes everywhere -/
theorem tri_eigvec_zero_of_first (D E : ℕ → K) (N : ℕ) (hE : ∀ j, j + 1 < N → E j ≠ 0) (lam : K)
    (w : ℕ → K) (heig : ∀ m, m < N → triOp D E N w m = lam * w m) (h0 : w 0 = 0) :
    ∀ m, m < N → w m = 0 := by
  have key : ∀ m, (m < N → w m = 0) ∧ (m + 1 < N → w (m + 1) = 0) := by
    intro m
    induction m with
    | zero =>
      refine ⟨fun _ => h0, fun h1 => ?_⟩
      have := heig 0 (by omega)
      unfold triOp at this
      simp only [Nat.lt_irrefl, if_false, h0, mul_zero, zero_add, h1, if_true] at this
      rcases mul_eq_zero.1 this with h | h
      · exact absurd h (hE 0 h1)
      · exact h
    | succ m ih =>
      refine ⟨ih.2, fun h2 => ?_⟩
      have hm1 : w (m + 1) = 0 := ih.2 (by omega)
      have hm0 : w m = 0 := ih.1 (by omega)
      have := heig (m + 1) (by omega)
      unfold triOp at this
      simp only [Nat.succ_pos, if_true, Nat.add_sub_cancel, hm0, hm1, mul_zero, zero_add, h2] at this
      rcases mul_eq_zero.1 this with h | h
      · exact absurd h (hE (m + 1) h2)
      · exact h
  exact fun m hm => (key m).1 hm

/-- the operator is linear (pointwise) -/
theorem triOp_sub_smul (D E : ℕ → K) (N : ℕ) (c : K) (w u : ℕ → K) (m : ℕ) :
    triOp D E N (fun i => w i - c * u i) m = triOp D E N w m - c * triOp D E N u m := by
  unfold triOp
  split_ifs <;> ring

/-- **eigenspaces are one-dimensional**: two eigenvectors for the same eigenvalue are proportional -/
theorem tri_eigvec_unique (D E : ℕ → K) (N : ℕ) (hE : ∀ j, j + 1 < N → E j ≠ 0) (lam : K)
    (u w : ℕ → K) (hu : ∀ m, m < N → triOp D E N u m = lam * u m)
    (hw : ∀ m, m < N → triOp D E N w m = lam * w m) (hu0 : u 0 ≠ 0) :
    ∀ m, m < N → w m = (w 0 / u 0) * u m := by
  intro m hm
  have hz := tri_eigvec_zero_of_first D E N hE lam (fun i => w i - (w 0 / u 0) * u i)
    (fun m hm => by rw [triOp_sub_smul, hu m hm, hw m hm]; ring)
    (by field_simp; ring) m hm
  exact sub_eq_zero.1 hz

/-- a non-zero eigenvector has a non-zero first entry -/
theorem tri_eigvec_first_ne (D E : ℕ → K) (N : ℕ) (hE : ∀ j, j + 1 < N → E j ≠ 0) (lam : K)
    (u : ℕ → K) (hu : ∀ m, m < N → triOp D E N u m = lam * u m) (hne : ∃ m, m < N ∧ u m ≠ 0) :
    u 0 ≠ 0 := by
  intro h0
  obtain ⟨m, hm, hne⟩ := hne
  exact hne (tri_eigvec_zero_of_first D E N hE lam u hu h0 m hm)

/-- **eigenvectors for different eigenvalues are orthogonal** (symmetry of the operator) -/
theorem tri_eigvec_orthogonal (D E : ℕ → K) (N : ℕ) (lam mu : K) (u w : ℕ → K)
    (hu : ∀ m, m < N → triOp D E N u m = lam * u m)
    (hw : ∀ m, m < N → triOp D E N w m = mu * w m) (hne : lam ≠ mu) :
    ∑ m ∈ range N, u m * w m = 0 := by
  have hs := triOp_symm D E N u w
  have h1 : ∑ m ∈ range N, triOp D E N u m * w m = lam * ∑ m ∈ range N, u m * w m := by
    rw [Finset.mul_sum]; refine Finset.sum_congr rfl fun m hm => ?_
    rw [hu m (mem_range.1 hm)]; ring
  have h2 : ∑ m ∈ range N, u m * triOp D E N w m = mu * ∑ m ∈ range N, u m * w m := by
    rw [Finset.mul_sum]; refine Finset.sum_congr rfl fun m hm => ?_
    rw [hw m (mem_range.1 hm)]; ring
  rw [h1, h2] at hs
  have : (lam - mu) * ∑ m ∈ range N, u m * w m = 0 := by linear_combination hs
  rcases mul_eq_zero.1 this with h | h
  · exact absurd (sub_eq_zero.1 h) hne
  · exact h

end simple

section main
variable {K : Type} [Field K]

/-- the off-diagonal of the `dpss_windows` matrix never vanishes inside the matrix
(characteristic zero: stated for fields in which naturals embed injectively) -/
theorem slepE_ne_zero [CharZero K] (N j : ℕ) (hj : j + 1 < N) : (slepE N j : K) ≠ 0 := by
  unfold slepE
  have h1 : ((j : K) + 1) ≠ 0 := by exact_mod_cast Nat.succ_ne_zero j
  have h2 : ((N : K) - ((j : K) + 1)) ≠ 0 := by
    have : ((N - (j + 1) : ℕ) : K) ≠ 0 := by exact_mod_cast (by omega : N - (j + 1) ≠ 0)
    rw [Nat.cast_sub (by omega)] at this
    push_cast at this; exact this
  have h3 : (2 : K) ≠ 0 := by exact_mod_cast (Nat.cast_ne_zero (R := K)).2 (by decide : (2 : ℕ) ≠ 0)
  exact div_ne_zero (mul_ne_zero h1 h2) h3

/-- **every eigenvector of the tridiagonal matrix is an eigenvector of the kernel operator**:
the clause "taper k is an eigenvector of the band-limiting operator" follows from "taper k is an
eigenvector of the tridiagonal matrix the code builds" — for every `N`, every kernel of sinc type. -/
theorem tri_eigvec_is_kernel_eigvec [CharZero K] (N : ℕ) (cw : K) (s σ : ℤ → K)
    (hs : ∀ k : ℤ, (k : K) * s k = σ k) (hσ : ∀ k : ℤ, σ (k - 1) + σ (k + 1) = 2 * cw * σ k)
    (lam : K) (u : ℕ → K)
    (hu : ∀ m, m < N → triOp (slepD N cw) (slepE N) N u m = lam * u m)
    (hne : ∃ m, m < N ∧ u m ≠ 0) :
    ∃ mu : K, ∀ m, m < N → kerOp s N u m = mu * u m := by
  have hE : ∀ j, j + 1 < N → (slepE N j : K) ≠ 0 := fun j hj => slepE_ne_zero N j hj
  have hu0 := tri_eigvec_first_ne _ _ N hE lam u hu hne
  -- S u is again an eigenvector of T for the same eigenvalue
  have hSu : ∀ m, m < N → triOp (slepD N cw) (slepE N) N (kerOp s N u) m = lam * kerOp s N u m := by
    intro m hm
    rw [slepian_commute N cw s σ hs hσ u m hm]
    unfold kerOp kerOpZ
    rw [Finset.mul_sum]
    refine Finset.sum_congr rfl fun n hn => ?_
    rw [hu n (mem_range.1 hn)]; ring
  exact ⟨kerOp s N u 0 / u 0, tri_eigvec_unique _ _ N hE lam u (kerOp s N u) hu hSu hu0⟩

end main
end Nitime.C07
