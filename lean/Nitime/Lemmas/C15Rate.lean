/- Relative-error calculus for the binary64 model, used for `rateOfInterval ≈ rateHz` (C15). -/
import Nitime.Model.C15
import Nitime.Lemmas.F64Bound
import Nitime.Lemmas.C02
import Mathlib.Tactic.Ring
import Mathlib.Tactic.Linarith
import Mathlib.Tactic.NormNum
import Mathlib.Tactic.FieldSimp
import Mathlib.Tactic.Positivity
import Mathlib.Algebra.Order.AbsoluteValue.Basic
import Mathlib.Algebra.Order.Field.Basic

namespace Nitime.C15.Lemmas
open Nitime Nitime.F64

/-- `x` approximates `y` with relative error `δ` -/
def Rel (x y δ : Rat) : Prop := |x - y| ≤ δ * |y|

/-- unit round-off of binary64 -/
def eps : Rat := 1 / 2 ^ 53

theorem pow2_neg53 : pow2 (-53) = eps := by
  rw [pow2_eq_zpow]; simp only [eps]; norm_num

theorem Rel.mono {x y δ δ' : Rat} (h : Rel x y δ) (hd : δ ≤ δ') : Rel x y δ' :=
  le_trans h (mul_le_mul_of_nonneg_right hd (abs_nonneg y))

theorem Rel.refl (x : Rat) : Rel x x 0 := by simp [Rel]

theorem Rel.abs_le {x y δ : Rat} (h : Rel x y δ) : |x| ≤ (1 + δ) * |y| := by
  have : |x| ≤ |x - y| + |y| := by
    have := abs_add_le (x - y) y; simpa using this
  unfold Rel at h; nlinarith

theorem Rel.abs_ge {x y δ : Rat} (h : Rel x y δ) : (1 - δ) * |y| ≤ |x| := by
  have : |y| ≤ |y - x| + |x| := by
    have := abs_add_le (y - x) x; simpa using this
  rw [abs_sub_comm] at this
  unfold Rel at h; nlinarith

/-- one rounding adds `eps (1 + δ)` -/
theorem Rel.rne {x y δ : Rat} (h : Rel x y δ) (hδ : 0 ≤ δ) : Rel (F64.rne x) y (δ + eps * (1 + δ)) := by
  have h1 := rne_near x
  rw [pow2_neg53] at h1
  have h2 := h.abs_le
  have he : (0 : Rat) ≤ eps := by simp [eps]
  have : |F64.rne x - y| ≤ |F64.rne x - x| + |x - y| := by
    have := abs_add_le (F64.rne x - x) (x - y); simpa using this
  unfold Rel at h ⊢
  have h3 : |x| * eps ≤ (1 + δ) * |y| * eps := mul_le_mul_of_nonneg_right h2 he
  nlinarith

theorem Rel.div_const {x y δ : Rat} (h : Rel x y δ) (f : Rat) : Rel (x / f) (y / f) δ := by
  unfold Rel at h ⊢
  rw [← sub_div, abs_div, abs_div]
  rcases eq_or_lt_of_le (abs_nonneg f) with hf | hf
  · rw [← hf]; simp
  · rw [← mul_div_assoc]; exact div_le_div_of_nonneg_right h hf.le

theorem Rel.inv {x y δ : Rat} (h : Rel x y δ) (hδ : 0 ≤ δ) (hδ1 : δ < 1) (hy : y ≠ 0) :
    Rel (1 / x) (1 / y) (δ / (1 - δ)) := by
  have hy' : 0 < |y| := abs_pos.mpr hy
  have hx' : 0 < |x| := lt_of_lt_of_le (mul_pos (by linarith) hy') h.abs_ge
  have hx : x ≠ 0 := abs_pos.mp hx'
  have hd : 0 < 1 - δ := by linarith
  unfold Rel
  have e1 : 1 / x - 1 / y = (y - x) / (x * y) := by field_simp
  rw [e1, abs_div, abs_mul, abs_sub_comm, abs_div, abs_one]
  rw [div_le_iff₀ (mul_pos hx' hy')]
  have hge := h.abs_ge
  unfold Rel at h
  have : δ / (1 - δ) * (1 / |y|) * (|x| * |y|) = δ / (1 - δ) * |x| := by field_simp
  rw [this]
  have : δ * |y| ≤ δ / (1 - δ) * |x| := by
    rw [div_mul_eq_mul_div, le_div_iff₀ hd]; nlinarith
  linarith

theorem Rel.mul {a A α b B β : Rat} (ha : Rel a A α) (hb : Rel b B β) (hα : 0 ≤ α) (hβ : 0 ≤ β) :
    Rel (a * b) (A * B) (α + β + α * β) := by
  unfold Rel at *
  have e : a * b - A * B = (a - A) * B + A * (b - B) + (a - A) * (b - B) := by ring
  rw [e, abs_mul A B]
  have t1 : |(a - A) * B| ≤ α * |A| * |B| := by
    rw [abs_mul]; exact mul_le_mul_of_nonneg_right ha (abs_nonneg B)
  have t2 : |A * (b - B)| ≤ |A| * (β * |B|) := by
    rw [abs_mul]; exact mul_le_mul_of_nonneg_left hb (abs_nonneg A)
  have t3 : |(a - A) * (b - B)| ≤ (α * |A|) * (β * |B|) := by
    rw [abs_mul]; exact mul_le_mul ha hb (abs_nonneg _) (mul_nonneg hα (abs_nonneg A))
  have := abs_add_le ((a - A) * B + A * (b - B)) ((a - A) * (b - B))
  have := abs_add_le ((a - A) * B) (A * (b - B))
  nlinarith

/-- the binary64 rate the constructor stores is within 12 unit round-offs (< 2⁻⁴⁹ relative) of the
exact rate 10¹²/Δ_ps, for every positive interval and every unit whose factor `f` is exactly
representable -/
theorem rate_near (f : Rat) (hf : 0 < f) (ps : Int) (hps : 0 < ps) :
    Rel (fmul (fdiv 1 (fdiv (ofInt ps) f)) (fdiv (ofInt (10 ^ 12)) f)) ((10 ^ 12 : Rat) / (ps : Rat)) (12 * eps) := by
  have hpsq : (0 : Rat) < (ps : Rat) := by exact_mod_cast hps
  have he : (0 : Rat) ≤ eps := by simp [eps]
  -- a = rne ps
  have ha : Rel (ofInt ps) (ps : Rat) eps :=
    ((Rel.refl (ps : Rat)).rne le_rfl).mono (by simp only [eps]; norm_num)
  -- b = rne (a / f)
  have hb : Rel (fdiv (ofInt ps) f) ((ps : Rat) / f) (3 * eps) :=
    ((ha.div_const f).rne he).mono (by simp only [eps]; norm_num)
  -- 1 / b
  have hbi : Rel (1 / fdiv (ofInt ps) f) (1 / ((ps : Rat) / f)) (4 * eps) :=
    (hb.inv (by simp only [eps]; norm_num) (by simp only [eps]; norm_num) (by positivity)).mono
      (by simp only [eps]; norm_num)
  have hc : Rel (fdiv 1 (fdiv (ofInt ps) f)) (1 / ((ps : Rat) / f)) (6 * eps) :=
    (hbi.rne (by simp only [eps]; norm_num)).mono (by simp only [eps]; norm_num)
  -- d = rne (rne 1e12 / f)
  have h12 : Rel (ofInt (10 ^ 12)) (10 ^ 12 : Rat) eps := by
    have := (Rel.refl ((10 ^ 12 : Int) : Rat)).rne le_rfl
    simp only [zero_add, add_zero, mul_one] at this
    rw [show (10 ^ 12 : Rat) = ((10 ^ 12 : Int) : Rat) by norm_num]
    exact this
  have hd : Rel (fdiv (ofInt (10 ^ 12)) f) ((10 ^ 12 : Rat) / f) (3 * eps) :=
    ((h12.div_const f).rne he).mono (by simp only [eps]; norm_num)
  have hm := hc.mul hd (by simp only [eps]; norm_num) (by simp only [eps]; norm_num)
  have hfin := (hm.rne (by simp only [eps]; norm_num)).mono (δ' := 12 * eps) (by simp only [eps]; norm_num)
  have e : 1 / ((ps : Rat) / f) * ((10 ^ 12 : Rat) / f) = (10 ^ 12 : Rat) / (ps : Rat) := by
    field_simp
  rw [e] at hfin
  exact hfin

/-! ### rate → interval round trip (bridge over C02's float-chain lemmas `hz_core`, `period_core`, `rne_chain3`) -/

/-- the float chain of `quantise u (rateOfInterval u k)` with unit factor `F`, written out -/
def rtX (F : Rat) (k : Int) : Rat := F64.rne (F64.rne (k : Rat) / F)
def rtR (F : Rat) (k : Int) : Rat := F64.rne (F64.rne (1 / rtX F k) * F64.rne (10 ^ 12 / F))
def roundTrip (F : Rat) (k : Int) : Int :=
  rint (F64.rne (F64.rne (F64.rne ((rint (F64.rne (F64.rne (1 / rtR F k) * 10 ^ 12)) : Int) : Rat) / F) * F))

/-- for every whole interval `0 < k < 2⁴⁹` ps and every positive unit factor the chain gives `k` back.
Unlike C02's `same_sampling_core` the interval enters as a TIME OBJECT, i.e. through the rounded quotient
`x = fl(k/F)` (so `x·F` is only near `k`); the extra `k·2⁻⁵³` fits in the same budget. -/
theorem roundTrip_eq (F : Rat) (k : Int) (hF : 0 < F) (hk0 : 0 < k) (hlt : k < 2 ^ 49) : roundTrip F k = k := by
  unfold roundTrip rtR rtX
  obtain ⟨ε, hε⟩ : ∃ ε : Rat, ε = 1 / 2 ^ 53 := ⟨_, rfl⟩
  have εpos : 0 < ε := by rw [hε]; positivity
  have εsmall : ε ≤ 1 / 1000 := by rw [hε]; norm_num
  have hkpos : (0 : Rat) < k := by exact_mod_cast hk0
  have hkR : (k : Rat) < 2 ^ 49 := by exact_mod_cast hlt
  obtain ⟨kn, hkn⟩ := Int.eq_ofNat_of_zero_le hk0.le
  have hknlt : kn < 2 ^ 53 := by
    have : (kn : Int) < 2 ^ 49 := by rw [← hkn]; exact hlt
    have : kn < 2 ^ 49 := by exact_mod_cast this
    omega
  have hrnek : F64.rne (k : Rat) = k := by
    rw [hkn]; exact_mod_cast Nitime.C02F.rne_natCast kn hknlt
  rw [hrnek]
  -- x = fl(k/F) = (k/F)·ρ, |ρ − 1| ≤ ε
  have hq : (k : Rat) / F ≠ 0 := by positivity
  have hρ := Nitime.C02F.rne_ratio ((k : Rat) / F) hq
  rw [← hε] at hρ
  have hxpos : 0 < F64.rne ((k : Rat) / F) := by
    have h1 := (abs_le.mp hρ).1
    have hqpos : (0 : Rat) < (k : Rat) / F := by positivity
    have : 0 < F64.rne ((k : Rat) / F) / ((k : Rat) / F) := by linarith
    exact (div_pos_iff_of_pos_right hqpos).mp this
  have hxk : |F64.rne ((k : Rat) / F) * F - k| ≤ k * ε := by
    have e : F64.rne ((k : Rat) / F) * F - k = k * (F64.rne ((k : Rat) / F) / ((k : Rat) / F) - 1) := by
      field_simp
    rw [e, abs_mul, abs_of_pos hkpos]
    exact mul_le_mul_of_nonneg_left hρ hkpos.le
  generalize F64.rne ((k : Rat) / F) = x at *
  obtain ⟨hzpos, hX⟩ := Nitime.C02.hz_core x F hxpos hF
  rw [← hε] at hX
  have hp := Nitime.C02.period_core _ hzpos
  rw [← hε] at hp
  generalize F64.rne (F64.rne (1 / x) * F64.rne (10 ^ 12 / F)) = hz at *
  have Ppos : (0 : Rat) < 10 ^ 12 / hz := by positivity
  generalize (10 : Rat) ^ 12 / hz = P at *
  have hxF_le : x * F ≤ k * (1 + ε) := by
    have := (abs_le.mp hxk).2; linarith
  have hPle : P ≤ k * (1 + 5 * ε) := by
    have h1 := (abs_le.mp hX).1
    nlinarith [mul_pos Ppos εpos, mul_pos hkpos εpos, mul_pos (mul_pos hkpos εpos) εpos]
  have εval : ε * 2 ^ 49 = 1 / 16 := by rw [hε]; norm_num
  have hkε : (k : Rat) * ε < 1 / 16 := by
    calc (k : Rat) * ε < 2 ^ 49 * ε := mul_lt_mul_of_pos_right hkR εpos
      _ = 1 / 16 := by rw [mul_comm]; exact εval
  have hPε : P * ε < 1 / 15 := by nlinarith [mul_pos hkpos εpos]
  have hv : |F64.rne (F64.rne (1 / hz) * 10 ^ 12) - (k : Rat)| < 1 / 2 := by
    have e : F64.rne (F64.rne (1 / hz) * 10 ^ 12) - (k : Rat)
        = (F64.rne (F64.rne (1 / hz) * 10 ^ 12) - P) + ((P - x * F) + (x * F - k)) := by ring
    rw [e]
    have h2 : |P - x * F| ≤ P * (7 / 2 * ε) := by rw [abs_sub_comm]; exact hX
    have h3 := abs_add_le (P - x * F) (x * F - k)
    exact lt_of_le_of_lt (abs_add_le _ _) (by nlinarith)
  have hpk : rint (F64.rne (F64.rne (1 / hz) * 10 ^ 12)) = k := Nitime.C02F.rint_eq_of_near _ k hv
  rw [hpk, hrnek]
  have hw := Nitime.C02F.rne_chain3 (k : Rat) F hF
  rw [← hε, abs_of_pos hkpos, hrnek] at hw
  apply Nitime.C02F.rint_eq_of_near
  calc |F64.rne (F64.rne ((k : Rat) / F) * F) - (k : Rat)| ≤ (k : Rat) * (7 / 2 * ε) := hw
    _ < 1 / 2 := by nlinarith

theorem cf_pos (u : TimeUnit) : 0 < cf u := by cases u <;> decide +kernel

theorem ofInt_1e12 : F64.ofInt (10 ^ 12) = 10 ^ 12 := by decide +kernel

/-- the model's `quantise u (rateOfInterval u k)` is that chain with `F = cf u` -/
theorem quantise_rateOfInterval (u : TimeUnit) (k : Int) :
    quantise u (rateOfInterval u k) = roundTrip (cf u) k := by
  simp only [quantise, rateOfInterval, freqOfPeriod, psOfFloat, toPeriod, roundTrip, rtR, rtX, fmul, fdiv, ofInt_1e12]
  rfl

end Nitime.C15.Lemmas
