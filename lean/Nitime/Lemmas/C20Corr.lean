/-
C20 — lemmas on the covariance family at the ℂ instance of the model text
(`Nitime.C20.convFull`, `crosscovCore`, `autocov1`, `correlateFull`, `xcorrFill`).
-/
import Nitime.Model.C20
import Nitime.Lemmas.EvInst

namespace Nitime.C20
open Finset Nitime.Ev
open scoped ComplexConjugate

/-- the double-sum normal form: `Σ_{j<N} Σ_{i<N} [j + (N-1) = m + i] a_j · conj v_i`
(entry `m` ↔ lag `k = m - (N-1)`, pairs with `j - i = k`) -/
noncomputable def D (N : ℕ) (a v : ℕ → ℂ) (m : ℕ) : ℂ :=
  ∑ j ∈ range N, ∑ i ∈ range N, if j + (N - 1) = m + i then a j * conj (v i) else 0

theorem length_convFull (a b : List ℂ) : (convFull a b).length = a.length + b.length - 1 := by
  simp [convFull]

/-- entry `m` of `convFull a (conj (reverse v))` in the normal form -/
theorem nth_corr (a v : List ℂ) (h : a.length = v.length) {m : ℕ} (hm : m < 2 * a.length - 1) :
    nth (convFull a (v.reverse.map Scalar.conj)) m = D a.length (nth a) (nth v) m := by
  have hlen : (v.reverse.map (Scalar.conj : ℂ → ℂ)).length = a.length := by simp [h]
  unfold convFull
  rw [nth_tabulate _ (by rw [hlen]; omega), sumRange_eq_c, D]
  refine sum_congr rfl fun j hj => ?_
  have hj' : j < a.length := mem_range.mp hj
  rw [hlen]
  by_cases hc : j ≤ m ∧ m - j < a.length
  · rw [if_pos hc]
    have hi0 : m - j < v.reverse.length := by simp; omega
    rw [nth_map _ hi0, nth_reverse (by omega)]
    have : ∀ i ∈ range a.length, (if j + (a.length - 1) = m + i then nth a j * conj (nth v i) else 0)
        = if (v.length - 1 - (m - j)) = i then nth a j * conj (nth v i) else 0 := by
      intro i hi
      have := mem_range.mp hi
      refine if_congr ?_ rfl rfl
      omega
    rw [sum_congr rfl this,
      sum_ite_eq (range a.length) (v.length - 1 - (m - j)) (fun i => nth a j * conj (nth v i)),
      if_pos (by rw [mem_range]; omega)]
    simp
  · rw [if_neg hc, c_zero]
    symm
    apply sum_eq_zero
    intro i hi
    have := mem_range.mp hi
    rw [if_neg]
    omega

/-- lag reversal in the normal form -/
theorem D_reverse (N : ℕ) (a v : ℕ → ℂ) {m : ℕ} (hm : m < 2 * N - 1) :
    D N v a (2 * N - 2 - m) = conj (D N a v m) := by
  unfold D
  rw [map_sum, sum_comm]
  refine sum_congr rfl fun j hj => ?_
  rw [map_sum]
  refine sum_congr rfl fun i hi => ?_
  have h1 := mem_range.mp hj
  have h2 := mem_range.mp hi
  rw [apply_ite conj, map_zero, map_mul, Complex.conj_conj]
  refine if_congr ?_ (mul_comm _ _) rfl
  omega

/-- the definition `C[k] = Σ_n x[n+k]·conj y[n]`, written for the entry `m = k + (N-1)` -/
theorem D_lagged (N : ℕ) (a v : ℕ → ℂ) (m : ℕ) :
    D N a v m = ∑ n ∈ range N,
      if N - 1 ≤ n + m ∧ n + m - (N - 1) < N then a (n + m - (N - 1)) * conj (v n) else 0 := by
  unfold D
  rw [sum_comm]
  refine sum_congr rfl fun n hn => ?_
  have hn' := mem_range.mp hn
  by_cases hc : N - 1 ≤ n + m ∧ n + m - (N - 1) < N
  · rw [if_pos hc]
    have : ∀ j ∈ range N, (if j + (N - 1) = m + n then a j * conj (v n) else 0)
        = if (n + m - (N - 1)) = j then a j * conj (v n) else 0 := by
      intro j hj
      have := mem_range.mp hj
      refine if_congr ?_ rfl rfl
      omega
    rw [sum_congr rfl this,
      sum_ite_eq (range N) (n + m - (N - 1)) (fun j => a j * conj (v n)),
      if_pos (by rw [mem_range]; omega)]
  · rw [if_neg hc]
    refine sum_eq_zero fun j hj => ?_
    have := mem_range.mp hj
    rw [if_neg]; omega

/-- zero lag (entry `N-1`): the plain inner product -/
theorem D_zero_lag (N : ℕ) (a v : ℕ → ℂ) :
    D N a v (N - 1) = ∑ n ∈ range N, a n * conj (v n) := by
  rw [D_lagged]
  refine sum_congr rfl fun n hn => ?_
  have := mem_range.mp hn
  have h1 : n + (N - 1) - (N - 1) = n := by omega
  rw [if_pos (by omega), h1]

/-- the (optionally debiased) input of `crosscovCore` -/
noncomputable def pre (db : Bool) (x : List ℂ) : List ℂ := if db then removeBias x else x

@[simp] theorem length_pre (db : Bool) (x : List ℂ) : (pre db x).length = x.length := by
  cases db <;> simp [pre]

/-- the normalisation factor applied by `crosscovCore` -/
noncomputable def nrm (nm : Bool) (N : ℕ) (z : ℂ) : ℂ := if nm then z / (N : ℂ) else z

theorem conj_nrm (nm : Bool) (N : ℕ) (z : ℂ) : conj (nrm nm N z) = nrm nm N (conj z) := by
  cases nm <;> simp [nrm]

/-- every entry of `crosscov(x, y, all_lags=True, debias, normalize)` in the normal form -/
theorem nth_crosscov_all (x y : List ℂ) (h : x.length = y.length) (db nm : Bool) {m : ℕ}
    (hm : m < 2 * x.length - 1) :
    nth (crosscovCore x y true db nm) m
      = nrm nm x.length (D x.length (nth (pre db x)) (nth (pre db y)) m) := by
  have hx : (if db = true then removeBias x else x) = pre db x := rfl
  have hy : (if db = true then removeBias y else y) = pre db y := rfl
  have hl : (pre db x).length = (pre db y).length := by simp [h]
  have hm' : m < 2 * (pre db x).length - 1 := by simpa using hm
  unfold crosscovCore
  simp only [hx, hy, if_true]
  cases nm
  · simp only [nrm, Bool.false_eq_true, if_false]
    rw [nth_corr _ _ hl hm']; simp
  · simp only [nrm, if_true]
    rw [nth_map _ (by rw [length_convFull]; simp [← h]; omega), nth_corr _ _ hl hm']; simp

/-- without `all_lags` the result is the slice `[N-1, 2N-1)`: entry `k` is lag `k ≥ 0` -/
theorem nth_crosscov_clip (x y : List ℂ) (db nm : Bool) {k : ℕ}
    (hk : k < x.length) :
    nth (crosscovCore x y false db nm) k = nth (crosscovCore x y true db nm) (x.length - 1 + k) := by
  unfold crosscovCore
  simp only [Bool.false_eq_true, if_false, if_true]
  simp only [nth, List.getD_eq_getElem?_getD, List.getElem?_take, hk, if_true, List.getElem?_drop]

theorem length_crosscov_all (x y : List ℂ) (h : x.length = y.length) (db nm : Bool) :
    (crosscovCore x y true db nm).length = 2 * x.length - 1 := by
  unfold crosscovCore
  cases nm <;> cases db <;> simp [length_convFull, ← h] <;> omega

theorem length_crosscov_clip (x y : List ℂ) (h : x.length = y.length) (db nm : Bool) :
    (crosscovCore x y false db nm).length = x.length := by
  unfold crosscovCore
  cases nm <;> cases db <;> simp [length_convFull, ← h] <;> omega

theorem nth_eq_getElem (l : List ℂ) {m : ℕ} (h : m < l.length) : nth l m = l[m] := by
  simp [nth, List.getD_eq_getElem?_getD, h]

theorem ext_nth {l1 l2 : List ℂ} (hl : l1.length = l2.length)
    (h : ∀ m, m < l1.length → nth l1 m = nth l2 m) : l1 = l2 := by
  apply List.ext_getElem hl
  intro i h1 h2
  rw [← nth_eq_getElem l1 h1, ← nth_eq_getElem l2 h2]
  exact h i h1

theorem length_correlateFull (a v : List ℂ) : (correlateFull a v).length = a.length + v.length - 1 := by
  simp [correlateFull, length_convFull]

/-- `np.correlate(v, a)` is the conjugated, lag-reversed `np.correlate(a, v)` -/
theorem correlate_reverse (a v : List ℂ) (h : a.length = v.length) :
    (correlateFull a v).reverse.map Scalar.conj = correlateFull v a := by
  apply ext_nth
  · simp [length_correlateFull, h]
  · intro m hm
    have hm' : m < 2 * a.length - 1 := by
      simp [length_correlateFull, ← h] at hm; omega
    have hr : m < (correlateFull a v).reverse.length := by simpa using hm
    rw [nth_map _ hr, nth_reverse (by simpa using hr), length_correlateFull, ← h]
    unfold correlateFull
    rw [nth_corr v a h.symm (by rw [← h]; exact hm'), nth_corr a v h (by omega), ← h, c_conj]
    have := D_reverse a.length (nth a) (nth v) (m := a.length + a.length - 1 - 1 - m) (by omega)
    rw [← this]
    congr 1
    omega

end Nitime.C20
