/-
Stability of the Levinson–Durbin model (Schur–Cohn / step-down argument, no Rouché needed).

With `P_p(z) = z^p − Σ a_i z^{p−i}` (characteristic polynomial of the order-p coefficients of
`LD.ld`) and its reversed conjugate `Q_p(z) = 1 − Σ conj(a_i) z^i`, the recursion step gives
`P_{p+1} = z·P_p − κ·Q_p`, `Q_{p+1} = Q_p − conj κ·z·P_p`, and the invariant
"for |z| ≥ 1: P_p(z) ≠ 0 and |Q_p(z)| ≤ |P_p(z)|" is preserved whenever |κ| < 1, because
`|zP − κQ|² − |Q − κ̄zP|² = (1 − |κ|²)(|zP|² − |Q|²)`.
-/
import Nitime.Lemmas.LevinsonDurbin
import Mathlib.Tactic.Positivity
import Mathlib.Tactic.NormNum

open Finset ComplexConjugate

noncomputable section
namespace LD

variable (r : ℕ → ℂ)

/-- characteristic polynomial of the order-`p` coefficients -/
def Pf (p : ℕ) (z : ℂ) : ℂ := z ^ p - ∑ i ∈ Icc 1 p, (ld r p).a i * z ^ (p - i)
/-- its reversed conjugate -/
def Qf (p : ℕ) (z : ℂ) : ℂ := 1 - ∑ i ∈ Icc 1 p, conj ((ld r p).a i) * z ^ i

/-- the reflection coefficient of order `p + 1` -/
def kap (p : ℕ) : ℂ := kappa r (p + 1) (ld r p)

variable {r}

lemma ld_succ_a_lt (p i : ℕ) (h1 : 1 ≤ i) (h2 : i ≤ p) :
    (ld r (p + 1)).a i = (ld r p).a i - kap r p * conj ((ld r p).a (p + 1 - i)) := by
  have := step_a_lt (r := r) (p := p + 1) (ld r p) (i := i) h1 (by omega) (by omega)
  simpa [ld, kap] using this

lemma ld_succ_a_top (p : ℕ) : (ld r (p + 1)).a (p + 1) = kap r p := by
  simp [ld, kap, step_a_top]

lemma reflect_Icc (p : ℕ) (f : ℕ → ℂ) : ∑ i ∈ Icc 1 p, f (p + 1 - i) = ∑ i ∈ Icc 1 p, f i := by
  have := sum_Icc_reflect (p + 1) f
  simpa using this

theorem Pf_succ (p : ℕ) (z : ℂ) : Pf r (p + 1) z = z * Pf r p z - kap r p * Qf r p z := by
  unfold Pf Qf
  rw [sum_split_top (by omega : 1 ≤ p + 1), ld_succ_a_top]
  simp only [Nat.add_sub_cancel, Nat.sub_self, pow_zero, mul_one]
  have h1 : ∑ i ∈ Icc 1 p, (ld r (p + 1)).a i * z ^ (p + 1 - i)
      = ∑ i ∈ Icc 1 p, (ld r p).a i * z ^ (p + 1 - i)
        - kap r p * ∑ i ∈ Icc 1 p, conj ((ld r p).a (p + 1 - i)) * z ^ (p + 1 - i) := by
    rw [mul_sum, ← sum_sub_distrib]
    refine sum_congr rfl fun i hi => ?_
    simp only [mem_Icc] at hi
    rw [ld_succ_a_lt p i hi.1 hi.2]; ring
  have h2 : ∑ i ∈ Icc 1 p, conj ((ld r p).a (p + 1 - i)) * z ^ (p + 1 - i)
      = ∑ i ∈ Icc 1 p, conj ((ld r p).a i) * z ^ i :=
    reflect_Icc p (fun i => conj ((ld r p).a i) * z ^ i)
  have h3 : ∑ i ∈ Icc 1 p, (ld r p).a i * z ^ (p + 1 - i) = z * ∑ i ∈ Icc 1 p, (ld r p).a i * z ^ (p - i) := by
    rw [mul_sum]
    refine sum_congr rfl fun i hi => ?_
    simp only [mem_Icc] at hi
    have : p + 1 - i = (p - i) + 1 := by omega
    rw [this, pow_succ]; ring
  rw [h1, h2, h3, pow_succ]; ring

theorem Qf_succ (p : ℕ) (z : ℂ) : Qf r (p + 1) z = Qf r p z - conj (kap r p) * (z * Pf r p z) := by
  unfold Pf Qf
  rw [sum_split_top (by omega : 1 ≤ p + 1), ld_succ_a_top]
  simp only [Nat.add_sub_cancel]
  have h1 : ∑ i ∈ Icc 1 p, conj ((ld r (p + 1)).a i) * z ^ i
      = ∑ i ∈ Icc 1 p, conj ((ld r p).a i) * z ^ i
        - conj (kap r p) * ∑ i ∈ Icc 1 p, (ld r p).a (p + 1 - i) * z ^ i := by
    rw [mul_sum, ← sum_sub_distrib]
    refine sum_congr rfl fun i hi => ?_
    simp only [mem_Icc] at hi
    rw [ld_succ_a_lt p i hi.1 hi.2, map_sub, map_mul, Complex.conj_conj]; ring
  have h2 : ∑ i ∈ Icc 1 p, (ld r p).a (p + 1 - i) * z ^ i
      = ∑ i ∈ Icc 1 p, (ld r p).a i * z ^ (p + 1 - i) := by
    rw [← reflect_Icc p (fun i => (ld r p).a i * z ^ (p + 1 - i))]
    refine sum_congr rfl fun i hi => ?_
    simp only [mem_Icc] at hi
    have : p + 1 - (p + 1 - i) = i := by omega
    rw [this]
  have h3 : ∑ i ∈ Icc 1 p, (ld r p).a i * z ^ (p + 1 - i) = z * ∑ i ∈ Icc 1 p, (ld r p).a i * z ^ (p - i) := by
    rw [mul_sum]
    refine sum_congr rfl fun i hi => ?_
    simp only [mem_Icc] at hi
    have : p + 1 - i = (p - i) + 1 := by omega
    rw [this, pow_succ]; ring
  rw [h1, h2, h3, pow_succ]; ring

/-- the algebraic heart: `|u − κw|² − |w − κ̄u|² = (1 − |κ|²)(|u|² − |w|²)` -/
lemma normSq_step (u w κ : ℂ) :
    Complex.normSq (u - κ * w) - Complex.normSq (w - conj κ * u)
      = (1 - Complex.normSq κ) * (Complex.normSq u - Complex.normSq w) := by
  simp only [Complex.normSq_apply, Complex.sub_re, Complex.sub_im, Complex.mul_re, Complex.mul_im,
    Complex.conj_re, Complex.conj_im]
  ring

/-- one step keeps "no zero on |z| ≥ 1 and |Q| ≤ |P|" -/
lemma step_invariant {P Q z κ : ℂ} (hκ : Complex.normSq κ < 1) (hz : 1 ≤ Complex.normSq z)
    (hP : P ≠ 0) (hQ : Complex.normSq Q ≤ Complex.normSq P) :
    z * P - κ * Q ≠ 0 ∧ Complex.normSq (Q - conj κ * (z * P)) ≤ Complex.normSq (z * P - κ * Q) := by
  have hPpos : 0 < Complex.normSq P := Complex.normSq_pos.mpr hP
  have hu : Complex.normSq P ≤ Complex.normSq (z * P) := by
    rw [Complex.normSq_mul]; nlinarith [Complex.normSq_nonneg P]
  have hid := normSq_step (z * P) Q κ
  have hge : 0 ≤ (1 - Complex.normSq κ) * (Complex.normSq (z * P) - Complex.normSq Q) :=
    mul_nonneg (by linarith) (by linarith)
  refine ⟨?_, by linarith⟩
  intro h0
  have e : z * P = κ * Q := sub_eq_zero.mp h0
  have : Complex.normSq (z * P) = Complex.normSq κ * Complex.normSq Q := by rw [e, Complex.normSq_mul]
  have hQn := Complex.normSq_nonneg Q
  nlinarith [Complex.normSq_nonneg κ]

/-- **Schur–Cohn.** If all reflection coefficients up to order `p` have modulus < 1, the
characteristic polynomial of the order-`p` model has no zero with `|z| ≥ 1`. -/
theorem stable_of_kappa_lt_one (p : ℕ) (hκ : ∀ j, j < p → Complex.normSq (kap r j) < 1) :
    ∀ z : ℂ, 1 ≤ Complex.normSq z →
      Pf r p z ≠ 0 ∧ Complex.normSq (Qf r p z) ≤ Complex.normSq (Pf r p z) := by
  induction p with
  | zero =>
    intro z _
    simp [Pf, Qf]
  | succ p ih =>
    intro z hz
    obtain ⟨hP, hQ⟩ := ih (fun j hj => hκ j (by omega)) z hz
    rw [Pf_succ, Qf_succ]
    exact step_invariant (hκ p (by omega)) hz hP hQ

end LD
