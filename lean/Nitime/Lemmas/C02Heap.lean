/-
C02 — lemmas about the object store of `Nitime.C02` (`Heap`, `exec`, `runH`): which entries a
command can change (frame), and that constructors allocate.
-/
import Nitime.Model.C02
import Nitime.Lemmas.C02
import Mathlib.Tactic.Ring
import Mathlib.Tactic.Linarith

namespace Nitime.C02
open Nitime

/-! ### lists -/

theorem getElem?_append_single_lt {α} (l : List α) (a : α) {j : Nat} (hj : j < l.length) :
    (l ++ [a])[j]? = l[j]? := List.getElem?_append_left hj

theorem getElem?_append_single_self {α} (l : List α) (a : α) :
    (l ++ [a])[l.length]? = some a := by simp

/-! ### `readTime` -/

theorem readTime_spec {h h' : Heap} {sid : Nat} {p : Nat} (hr : readTime h sid = .ok (h', p)) :
    ∃ s, h.series[sid]? = some s ∧
      ((s.time = some p ∧ h' = h) ∨
       (s.time = none ∧ p = h.axes.length ∧ ∃ a, seriesAxis s = .ok a ∧
          h'.axes = h.axes ++ [a] ∧ h'.series = h.series.set sid { s with time := some p })) := by
  unfold readTime at hr
  split at hr
  · cases hr
  · rename_i s hs
    refine ⟨s, hs, ?_⟩
    split at hr
    · rename_i q hq
      simp only [Except.ok.injEq, Prod.mk.injEq] at hr
      obtain ⟨rfl, rfl⟩ := hr
      exact .inl ⟨hq, rfl⟩
    · rename_i hq
      split at hr
      · cases hr
      · rename_i a ha
        simp only [Heap.allocAxis, Except.ok.injEq, Prod.mk.injEq] at hr
        obtain ⟨rfl, rfl⟩ := hr
        exact .inr ⟨hq, rfl, a, ha, rfl, rfl⟩

theorem newSeries_spec {cfg : HCfg} {h h' : Heap} {src : Nat} {ax : Axis} {m : Nat} {u : UArg} {r : Res}
    (hn : newSeries cfg h src ax m u = .ok (h', r)) :
    h'.axes = h.axes ∧ r = .series h.series.length ∧
    ∃ sr s, mkSeriesFromTime .intended ax m none u = .ok sr ∧ h'.series = h.series ++ [s] ∧
      s.t0 = sr.t0 ∧ s.dt = sr.dt ∧ s.rate = sr.rate ∧ s.unit = sr.unit ∧ s.n = m ∧
      (cfg = hIntended → s.time = none) := by
  unfold newSeries at hn
  split at hn
  · cases hn
  · rename_i sr hsr
    simp only [Except.ok.injEq, Prod.mk.injEq] at hn
    obtain ⟨rfl, rfl⟩ := hn
    refine ⟨rfl, rfl, sr, _, hsr, rfl, rfl, rfl, rfl, rfl, rfl, ?_⟩
    intro hc; subst hc; simp [hIntended]

/-! ### frame: which axis entries a command can change -/

/-- a command that succeeds never shortens the store and changes no existing axis entry other
than the one an in-place operator is applied to (any configuration) -/
theorem exec_axes {cfg : HCfg} {h h' : Heap} {c : Cmd} {r : Res} (he : exec cfg h c = .ok (h', r)) :
    h.axes.length ≤ h'.axes.length ∧
    ∀ j, j < h.axes.length → c.target ≠ some j → h'.axes[j]? = h.axes[j]? := by
  cases c with
  | rebuild src unit length =>
    simp only [exec] at he
    split at he
    · cases he
    · split at he
      · cases he
      · split at he
        · simp only [Except.ok.injEq, Prod.mk.injEq] at he
          obtain ⟨rfl, _⟩ := he
          exact ⟨le_refl _, fun _ _ _ => rfl⟩
        · simp only [Heap.allocAxis, Except.ok.injEq, Prod.mk.injEq] at he
          obtain ⟨rfl, _⟩ := he
          exact ⟨by simp, fun j hj _ => getElem?_append_single_lt _ _ hj⟩
  | copy src =>
    simp only [exec] at he
    split at he
    · cases he
    · simp only [Heap.allocAxis, Except.ok.injEq, Prod.mk.injEq] at he
      obtain ⟨rfl, _⟩ := he
      exact ⟨by simp, fun j hj _ => getElem?_append_single_lt _ _ hj⟩
  | series src m unit =>
    simp only [exec] at he
    split at he
    · cases he
    · obtain ⟨ha, _⟩ := newSeries_spec he
      rw [ha]
      exact ⟨le_refl _, fun _ _ _ => rfl⟩
  | time sid =>
    simp only [exec] at he
    split at he
    · cases he
    · rename_i h1 p hr
      simp only [Except.ok.injEq, Prod.mk.injEq] at he
      obtain ⟨rfl, _⟩ := he
      obtain ⟨s, _, hcase⟩ := readTime_spec hr
      rcases hcase with ⟨_, rfl⟩ | ⟨_, _, a, _, hax, _⟩
      · exact ⟨le_refl _, fun _ _ _ => rfl⟩
      · rw [hax]
        exact ⟨by simp, fun j hj _ => getElem?_append_single_lt _ _ hj⟩
  | seriesCopy sid =>
    simp only [exec] at he
    split at he
    · cases he
    · rename_i h1 p hr
      split at he
      · rename_i d s _ _
        obtain ⟨ha, _⟩ := newSeries_spec he
        rw [ha]
        obtain ⟨s, _, hcase⟩ := readTime_spec hr
        rcases hcase with ⟨_, rfl⟩ | ⟨_, _, a, _, hax, _⟩
        · exact ⟨le_refl _, fun _ _ _ => rfl⟩
        · rw [hax]
          exact ⟨by simp, fun j hj _ => getElem?_append_single_lt _ _ hj⟩
      · cases he
  | inplace id op =>
    simp only [exec] at he
    split at he
    · cases he
    · split at he
      · cases he
      · simp only [Except.ok.injEq, Prod.mk.injEq] at he
        obtain ⟨rfl, _⟩ := he
        refine ⟨by simp, fun j _ hne => ?_⟩
        have : id ≠ j := fun e => hne (by simp [Cmd.target, e])
        simp [List.getElem?_set_ne this]

theorem stepH_axes (cfg : HCfg) (h : Heap) (c : Cmd) :
    h.axes.length ≤ (stepH cfg h c).axes.length ∧
    ∀ j, j < h.axes.length → c.target ≠ some j → (stepH cfg h c).axes[j]? = h.axes[j]? := by
  unfold stepH
  split
  · rename_i h' r he
    exact exec_axes he
  · exact ⟨le_refl _, fun _ _ _ => rfl⟩

/-- a whole program: an object no operator of the program is applied to is, at the end, what it
was at the start -/
theorem runH_axes (cfg : HCfg) (cs : List Cmd) (h : Heap) (j : Nat) (hj : j < h.axes.length)
    (hc : ∀ c ∈ cs, c.target ≠ some j) : (runH cfg h cs).axes[j]? = h.axes[j]? := by
  induction cs generalizing h with
  | nil => rfl
  | cons c cs ih =>
    have hs := stepH_axes cfg h c
    have h1 : (stepH cfg h c).axes[j]? = h.axes[j]? := hs.2 j hj (hc c (by simp))
    have := ih (stepH cfg h c) (lt_of_lt_of_le hj hs.1) (fun c' hc' => hc c' (by simp [hc']))
    simpa [runH, List.foldl_cons, h1] using this

theorem runH_length (cfg : HCfg) (cs : List Cmd) (h : Heap) :
    h.axes.length ≤ (runH cfg h cs).axes.length := by
  induction cs generalizing h with
  | nil => exact le_refl _
  | cons c cs ih =>
    exact le_trans (stepH_axes cfg h c).1 (by simpa [runH, List.foldl_cons] using ih (stepH cfg h c))

/-! ### frame: series entries -/

/-- the attributes of a series are never changed by any command; its `time` cache goes from
empty to the id allocated at its first read and stays -/
theorem exec_series {cfg : HCfg} {h h' : Heap} {c : Cmd} {r : Res} (he : exec cfg h c = .ok (h', r))
    {sid : Nat} {s : SeriesObj} (hs : h.series[sid]? = some s) :
    h'.series[sid]? = some s ∨
    ((c = .time sid ∨ c = .seriesCopy sid) ∧ s.time = none ∧
      h'.series[sid]? = some { s with time := some h.axes.length } ∧
      h'.axes[h.axes.length]? = (seriesAxis s).toOption) := by
  have hlt : sid < h.series.length := by
    by_contra hge
    rw [List.getElem?_eq_none (by omega)] at hs
    cases hs
  have keepAppend : ∀ (x : SeriesObj), (h.series ++ [x])[sid]? = some s := fun x => by
    rw [List.getElem?_append_left hlt]; exact hs
  cases c with
  | rebuild src unit length =>
    simp only [exec] at he
    split at he
    · cases he
    · split at he
      · cases he
      · split at he <;>
          (simp only [Heap.allocAxis, Except.ok.injEq, Prod.mk.injEq] at he
           obtain ⟨rfl, _⟩ := he
           exact .inl hs)
  | copy src =>
    simp only [exec] at he
    split at he
    · cases he
    · simp only [Heap.allocAxis, Except.ok.injEq, Prod.mk.injEq] at he
      obtain ⟨rfl, _⟩ := he
      exact .inl hs
  | series src m unit =>
    simp only [exec] at he
    split at he
    · cases he
    · obtain ⟨_, _, sr, x, _, hser, _⟩ := newSeries_spec he
      rw [hser]
      exact .inl (keepAppend x)
  | time sid' =>
    simp only [exec] at he
    split at he
    · cases he
    · rename_i h1 p hr
      simp only [Except.ok.injEq, Prod.mk.injEq] at he
      obtain ⟨rfl, _⟩ := he
      obtain ⟨s', hs', hcase⟩ := readTime_spec hr
      rcases hcase with ⟨_, rfl⟩ | ⟨hnone, rfl, a, ha, hax, hser⟩
      · exact .inl hs
      · by_cases hsid : sid' = sid
        · subst hsid
          rw [hs] at hs'
          cases hs'
          refine .inr ⟨.inl rfl, hnone, ?_, ?_⟩
          · rw [hser]; simp [hlt]
          · rw [hax, ha]; simp [Except.toOption]
        · left
          rw [hser, List.getElem?_set_ne hsid]
          exact hs
  | seriesCopy sid' =>
    simp only [exec] at he
    split at he
    · cases he
    · rename_i h1 p hr
      split at he
      · rename_i d s1 hd hs1
        obtain ⟨hax2, _, sr, x, _, hser2, _⟩ := newSeries_spec he
        obtain ⟨s', hs', hcase⟩ := readTime_spec hr
        rcases hcase with ⟨_, rfl⟩ | ⟨hnone, rfl, a, ha, hax, hser⟩
        · left
          rw [hser2]
          exact keepAppend x
        · by_cases hsid : sid' = sid
          · subst hsid
            rw [hs] at hs'
            cases hs'
            refine .inr ⟨.inr rfl, hnone, ?_, ?_⟩
            · rw [hser2, hser]
              rw [List.getElem?_append_left (by simp [hlt])]
              simp [hlt]
            · rw [hax2, hax, ha]; simp [Except.toOption]
          · left
            rw [hser2, hser]
            rw [List.getElem?_append_left (by simp [hlt]), List.getElem?_set_ne hsid]
            exact hs
      · cases he
  | inplace id op =>
    simp only [exec] at he
    split at he
    · cases he
    · split at he
      · cases he
      · simp only [Except.ok.injEq, Prod.mk.injEq] at he
        obtain ⟨rfl, _⟩ := he
        exact .inl hs

/-- once read, the `time` of a series stays the same object under every command -/
theorem exec_series_cached {cfg : HCfg} {h h' : Heap} {c : Cmd} {r : Res}
    (he : exec cfg h c = .ok (h', r)) {sid : Nat} {s : SeriesObj} {p : Nat}
    (hs : h.series[sid]? = some s) (hp : s.time = some p) : h'.series[sid]? = some s := by
  rcases exec_series he hs with h1 | ⟨_, hnone, _⟩
  · exact h1
  · rw [hp] at hnone; cases hnone

theorem runH_series_cached (cfg : HCfg) (cs : List Cmd) (h : Heap) {sid : Nat} {s : SeriesObj} {p : Nat}
    (hs : h.series[sid]? = some s) (hp : s.time = some p) : (runH cfg h cs).series[sid]? = some s := by
  induction cs generalizing h with
  | nil => exact hs
  | cons c cs ih =>
    have h1 : (stepH cfg h c).series[sid]? = some s := by
      unfold stepH
      split
      · rename_i h' r he
        exact exec_series_cached he hs hp
      · exact hs
    simpa [runH, List.foldl_cons] using ih (stepH cfg h c) h1

/-- as long as a series' `time` is not read (nor the series copied), nothing changes the series -/
theorem runH_series_unread (cfg : HCfg) (cs : List Cmd) (h : Heap) {sid : Nat} {s : SeriesObj}
    (hs : h.series[sid]? = some s) (hc : ∀ c ∈ cs, c ≠ .time sid ∧ c ≠ .seriesCopy sid) :
    (runH cfg h cs).series[sid]? = some s := by
  induction cs generalizing h with
  | nil => exact hs
  | cons c cs ih =>
    have h1 : (stepH cfg h c).series[sid]? = some s := by
      unfold stepH
      split
      · rename_i h' r he
        rcases exec_series he hs with h1 | ⟨hor, _⟩
        · exact h1
        · have := hc c (by simp)
          rcases hor with e | e
          · exact absurd e this.1
          · exact absurd e this.2
      · exact hs
    simpa [runH, List.foldl_cons] using
      ih (stepH cfg h c) h1 (fun c' hc' => hc c' (by simp [hc']))

/-! ### the series' axis is the one its attributes describe -/

theorem mkSeriesFromTime_time {ax : Axis} {n : Nat} {u : UArg} {sr : Series}
    (h : mkSeriesFromTime .intended ax n none u = .ok sr) :
    mkUniform .intended { length := some n, t0 := some (.tobj sr.t0 sr.unit),
                          interval := some (.tobj sr.dt sr.unit), unit := .ok sr.unit } = .ok sr.time ∧
    sr.t0 = ax.t0 ∧ sr.dt = ax.dt := by
  unfold mkSeriesFromTime at h
  simp only [bind, Except.bind, pure, Except.pure] at h
  split at h
  · cases h
  · split at h
    · simp [throw, throwThe, MonadExceptOf.throw] at h
    · split at h
      · cases h
      · rename_i time htime
        simp only [Except.ok.injEq] at h
        subst h
        exact ⟨htime, rfl, rfl⟩

end Nitime.C02
