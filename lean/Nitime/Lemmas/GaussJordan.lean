/-
Correctness of the model's Gauss–Jordan inverse (`Nitime.AR.GMat.inv?`, ℂ instance):
whenever it returns `X`, `X·A = I` — and hence `A·(X·y) = y` for `GMat.solve`.

Invariant of the elimination on the augmented array `[L | E]` (n × 2n, started at `[A | I]`):
every row satisfies `L_i = E_i · A`.  It is linear in the row, so scaling the pivot row and
subtracting a multiple of it from another row (after any row exchange) preserve it.  When the left
block has become the identity, `E·A = I`.
-/
import Nitime.Lemmas.ARInst
import Mathlib.LinearAlgebra.Matrix.NonsingularInverse
import Mathlib.Algebra.BigOperators.Field

open Finset
open Nitime.AR Nitime.AR.GMat

namespace Nitime.AR.GMat

lemma entry_ofFn {n m : ℕ} (f : ℕ → ℕ → ℂ) {i j : ℕ} (hi : i < n) (hj : j < m) :
    entry (ofFn n m f) i j = f i j := by
  simp [entry, ofFn, List.getD_eq_getElem?_getD, hi, hj]

lemma entry_ofFn_row_out {n m : ℕ} (f : ℕ → ℕ → ℂ) {i : ℕ} (hi : n ≤ i) (j : ℕ) :
    entry (ofFn n m f) i j = 0 := by
  have : ¬ i < n := by omega
  simp [entry, ofFn, List.getD_eq_getElem?_getD, this]

/-- row `i` of an `n × 2n` state satisfies `L_i = E_i·A` -/
def RowOK (n : ℕ) (a rows : List (List ℂ)) (i : ℕ) : Prop :=
  ∀ j, j < n → entry rows i j = ∑ k ∈ range n, entry rows i (n + k) * entry a k j

lemma rowOK_of_out {n : ℕ} (a : List (List ℂ)) (f : ℕ → ℕ → ℂ) {i : ℕ} (hi : n ≤ i) :
    RowOK n a (ofFn n (2 * n) f) i := by
  intro j _
  rw [entry_ofFn_row_out f hi]
  symm
  apply sum_eq_zero
  intro k _
  rw [entry_ofFn_row_out f hi]; simp

theorem augment_ok (n : ℕ) (a : List (List ℂ)) : ∀ i, RowOK n a (augment n a) i := by
  intro i
  by_cases hi : i < n
  · intro j hj
    unfold augment
    rw [entry_ofFn _ hi (by omega)]
    have : ∀ k ∈ range n, entry (ofFn n (2 * n) fun i j => if j < n then entry a i j else
          if j - n = i then (Scalar.one : ℂ) else Scalar.zero) i (n + k) * entry a k j
        = if k = i then entry a i j else 0 := by
      intro k hk
      simp only [mem_range] at hk
      rw [entry_ofFn _ hi (by omega)]
      have h1 : ¬ n + k < n := by omega
      have h2 : n + k - n = k := by omega
      simp only [h1, if_false, h2, sc_one, sc_zero]
      by_cases h : k = i
      · subst h; simp
      · simp [h]
    rw [sum_congr rfl this, if_pos hj]
    simp [hi]
  · exact rowOK_of_out a _ (by omega)

theorem gjStep_ok (n : ℕ) (a rows : List (List ℂ)) (c : ℕ) (h : ∀ i, RowOK n a rows i) :
    ∀ i, RowOK n a (gjStep n (2 * n) rows c) i := by
  intro i
  by_cases hi : i < n
  · intro j hj
    unfold gjStep
    simp only []
    rw [entry_ofFn _ hi (by omega)]
    have hk : ∀ k ∈ range n, n + k < 2 * n := fun k hk => by simp only [mem_range] at hk; omega
    rw [sum_congr rfl fun k hk' => by rw [entry_ofFn _ hi (hk k hk')]]
    set best := pivotRow n rows c
    have hb := h best j hj
    have hi2 := h (if i = best then c else i) j hj
    by_cases hic : i = c
    · simp only [hic, ↓reduceIte, sc_div]
      rw [hb, Finset.sum_div]
      refine sum_congr rfl fun k _ => ?_
      ring
    · simp only [hic, ↓reduceIte, sc_div, sc_sub, sc_mul]
      rw [hi2, hb, Finset.sum_div, Finset.mul_sum, ← Finset.sum_sub_distrib]
      refine sum_congr rfl fun k _ => ?_
      ring
  · exact rowOK_of_out a _ (by omega)

theorem gjReduce_ok (n : ℕ) (a : List (List ℂ)) :
    ∀ i, RowOK n a (gjReduce n (2 * n) (augment n a)) i := by
  unfold gjReduce
  have : ∀ (cs : List ℕ) (rows : List (List ℂ)), (∀ i, RowOK n a rows i) →
      ∀ i, RowOK n a (cs.foldl (gjStep n (2 * n)) rows) i := by
    intro cs
    induction cs with
    | nil => intro rows h; simpa using h
    | cons c cs ih => intro rows h; exact ih _ (gjStep_ok n a rows c h)
  exact this _ _ (augment_ok n a)

lemma isIdentLeft_spec {n : ℕ} {rows : List (List ℂ)} (h : isIdentLeft n rows = true) {i j : ℕ}
    (hi : i < n) (hj : j < n) : entry rows i j = if i = j then 1 else 0 := by
  unfold isIdentLeft at h
  rw [List.all_eq_true] at h
  have h1 := h i (List.mem_range.mpr hi)
  rw [List.all_eq_true] at h1
  have h2 := h1 j (List.mem_range.mpr hj)
  rw [sc_beq] at h2
  rw [h2]; simp

/-- the matrix of the first `n × n` entries -/
noncomputable def toMatrix (n : ℕ) (a : List (List ℂ)) : Matrix (Fin n) (Fin n) ℂ := Matrix.of fun i j => entry a i j

/-- **contract of `inv`.** Whenever the Gauss–Jordan model returns `X`, `X·A = I`
(so `X` is the inverse: also `A·X = I`). -/
theorem inv?_left_inverse (n : ℕ) (a x : List (List ℂ)) (h : inv? n a = some x) :
    toMatrix n x * toMatrix n a = 1 ∧ toMatrix n a * toMatrix n x = 1 := by
  unfold inv? at h
  simp only [] at h
  split_ifs at h with hid
  have hx : x = ofFn n n fun i j => entry (gjReduce n (2 * n) (augment n a)) i (n + j) := by
    simpa using h.symm
  have hok := gjReduce_ok n a
  have hleft : toMatrix n x * toMatrix n a = 1 := by
    ext i j
    simp only [Matrix.mul_apply, toMatrix, Matrix.of_apply, Matrix.one_apply]
    have := hok i j j.2
    rw [isIdentLeft_spec hid i.2 j.2] at this
    rw [Fin.sum_univ_eq_sum_range (fun k => entry x i k * entry a k j) n, hx]
    rw [sum_congr rfl fun k hk => by rw [entry_ofFn _ i.2 (mem_range.mp hk)]]
    rw [← this]
    simp [Fin.ext_iff]
  exact ⟨hleft, mul_eq_one_comm.mp hleft⟩

end Nitime.AR.GMat
