/-
Lists of rows ARE matrices: the driver's square-matrix operations (`Model/SqMatK.lean`, `GSq K n`,
instantiated here at `K = ℂ`) correspond to the `Matrix (Fin n) (Fin n) ℂ` operations under
`toMatrix n a = (entry a i j)_{i,j<n}` for well-shaped inputs (`WF n a`: `n` rows of `n` entries),
one lemma per operation, and every operation returns a well-shaped list.  On well-shaped lists
`toMatrix` is a bijection (`ofMatrix_toMatrix`, `toMatrix_ofMatrix`), so the Gauss–Jordan `minv`
is a function of the matrix (`invM`), with the left-inverse contract of `Lemmas/GaussJordan.lean`.

This closes the gap "lists of rows of a fixed size form the star ring the theorems are stated
over" of C11: see `Props/C11.lean`, `lwr_solves_concrete`.
-/
import Nitime.Lemmas.GaussJordan
import Nitime.Model.SqMatK
import Mathlib.LinearAlgebra.Matrix.ConjTranspose

open Finset
open Nitime.AR

namespace Nitime.AR.GMat

/-- `n` rows of `n` entries -/
def WF (n : ℕ) (a : List (List ℂ)) : Prop := a.length = n ∧ ∀ r ∈ a, r.length = n

lemma wf_row {n : ℕ} {a : List (List ℂ)} (ha : WF n a) {i : ℕ} (hi : i < n) :
    ∃ r, a[i]? = some r ∧ r.length = n := by
  have hlt : i < a.length := by rw [ha.1]; exact hi
  exact ⟨a[i], List.getElem?_eq_getElem hlt, ha.2 _ (List.getElem_mem hlt)⟩

lemma row_get {n : ℕ} {r : List ℂ} (hr : r.length = n) {j : ℕ} (hj : j < n) : ∃ x, r[j]? = some x :=
  ⟨r[j]'(by omega), List.getElem?_eq_getElem (by omega)⟩

lemma entry_of_rows {a : List (List ℂ)} {i j : ℕ} {r : List ℂ} {x : ℂ} (h1 : a[i]? = some r)
    (h2 : r[j]? = some x) : entry a i j = x := by
  simp [entry, List.getD_eq_getElem?_getD, h1, h2]

lemma wf_ofFn (n : ℕ) (f : ℕ → ℕ → ℂ) : WF n (ofFn n n f) := by
  refine ⟨by simp [ofFn], ?_⟩
  intro r hr
  simp only [ofFn, List.mem_map, List.mem_range] at hr
  obtain ⟨i, _, rfl⟩ := hr
  simp

/-- a well-shaped list is determined by its entries -/
lemma wf_ext {n : ℕ} {a b : List (List ℂ)} (ha : WF n a) (hb : WF n b)
    (h : ∀ i j, i < n → j < n → entry a i j = entry b i j) : a = b := by
  apply List.ext_getElem?
  intro i
  by_cases hi : i < n
  · obtain ⟨ra, hra, hla⟩ := wf_row ha hi
    obtain ⟨rb, hrb, hlb⟩ := wf_row hb hi
    rw [hra, hrb]
    congr 1
    apply List.ext_getElem?
    intro j
    by_cases hj : j < n
    · obtain ⟨x, hx⟩ := row_get hla hj
      obtain ⟨y, hy⟩ := row_get hlb hj
      have := h i j hi hj
      rw [entry_of_rows hra hx, entry_of_rows hrb hy] at this
      rw [hx, hy, this]
    · rw [List.getElem?_eq_none (by omega), List.getElem?_eq_none (by omega)]
  · rw [List.getElem?_eq_none (by rw [ha.1]; omega), List.getElem?_eq_none (by rw [hb.1]; omega)]

/-! ### entrywise operations -/

lemma wf_zipW {n : ℕ} (f : ℂ → ℂ → ℂ) {a b : List (List ℂ)} (ha : WF n a) (hb : WF n b) :
    WF n (zipW f a b) := by
  refine ⟨by simp [zipW, ha.1, hb.1], ?_⟩
  intro r hr
  unfold zipW at hr
  obtain ⟨i, hi, rfl⟩ := List.mem_iff_getElem.mp hr
  rw [List.getElem_zipWith, List.length_zipWith]
  rw [List.length_zipWith] at hi
  rw [ha.2 _ (List.getElem_mem _), hb.2 _ (List.getElem_mem _)]
  simp

lemma entry_zipW {n : ℕ} (f : ℂ → ℂ → ℂ) {a b : List (List ℂ)} (ha : WF n a) (hb : WF n b) {i j : ℕ}
    (hi : i < n) (hj : j < n) : entry (zipW f a b) i j = f (entry a i j) (entry b i j) := by
  obtain ⟨ra, hra, hla⟩ := wf_row ha hi
  obtain ⟨rb, hrb, hlb⟩ := wf_row hb hi
  obtain ⟨x, hx⟩ := row_get hla hj
  obtain ⟨y, hy⟩ := row_get hlb hj
  rw [entry_of_rows hra hx, entry_of_rows hrb hy]
  apply entry_of_rows (r := List.zipWith f ra rb)
  · simp [zipW, List.getElem?_zipWith, hra, hrb]
  · simp [List.getElem?_zipWith, hx, hy]

theorem toMatrix_madd {n : ℕ} {a b : List (List ℂ)} (ha : WF n a) (hb : WF n b) :
    toMatrix n (madd a b) = toMatrix n a + toMatrix n b := by
  ext i j
  simp [toMatrix, madd, entry_zipW _ ha hb i.2 j.2]

theorem toMatrix_msub {n : ℕ} {a b : List (List ℂ)} (ha : WF n a) (hb : WF n b) :
    toMatrix n (msub a b) = toMatrix n a - toMatrix n b := by
  ext i j
  simp [toMatrix, msub, entry_zipW _ ha hb i.2 j.2]

lemma wf_mneg {n : ℕ} {a : List (List ℂ)} (ha : WF n a) : WF n (mneg a) := by
  refine ⟨by simp [mneg, ha.1], ?_⟩
  intro r hr
  simp only [mneg, List.mem_map] at hr
  obtain ⟨r0, hr0, rfl⟩ := hr
  simp [ha.2 r0 hr0]

theorem toMatrix_mneg {n : ℕ} {a : List (List ℂ)} (ha : WF n a) :
    toMatrix n (mneg a) = -toMatrix n a := by
  ext i j
  obtain ⟨ra, hra, hla⟩ := wf_row ha i.2
  obtain ⟨x, hx⟩ := row_get hla j.2
  simp only [toMatrix, Matrix.of_apply, Matrix.neg_apply]
  rw [entry_of_rows hra hx]
  apply entry_of_rows (r := ra.map Scalar.neg)
  · simp [mneg, hra]
  · simp [hx]

/-! ### product, conjugate transpose, identity, zero (no shape hypothesis needed: `ofFn`) -/

theorem toMatrix_mmul (n : ℕ) (a b : List (List ℂ)) :
    toMatrix n (mmul n a b) = toMatrix n a * toMatrix n b := by
  ext i j
  simp only [toMatrix, Matrix.of_apply, Matrix.mul_apply, mmul]
  rw [entry_ofFn _ i.2 j.2, sumRange_eq, Fin.sum_univ_eq_sum_range (fun k => entry a i k * entry b k j) n]
  rfl

theorem toMatrix_ctrans (n : ℕ) (a : List (List ℂ)) :
    toMatrix n (ctrans n a) = (toMatrix n a).conjTranspose := by
  ext i j
  simp only [toMatrix, Matrix.of_apply, Matrix.conjTranspose_apply, ctrans]
  rw [entry_ofFn _ i.2 j.2]
  rfl

theorem toMatrix_ident (n : ℕ) : toMatrix n (ident n) = 1 := by
  ext i j
  simp only [toMatrix, Matrix.of_apply, ident, Matrix.one_apply]
  rw [entry_ofFn _ i.2 j.2]
  simp [Fin.ext_iff]

theorem toMatrix_zeros (n : ℕ) : toMatrix n (zeros n) = 0 := by
  ext i j
  simp only [toMatrix, Matrix.of_apply, zeros, Matrix.zero_apply]
  rw [entry_ofFn _ i.2 j.2]
  rfl

/-! ### the bijection on well-shaped lists, and `inv` -/

/-- the list of rows of a matrix -/
noncomputable def ofMatrix (n : ℕ) (X : Matrix (Fin n) (Fin n) ℂ) : List (List ℂ) :=
  ofFn n n fun i j => if h : i < n ∧ j < n then X ⟨i, h.1⟩ ⟨j, h.2⟩ else 0

theorem toMatrix_ofMatrix (n : ℕ) (X : Matrix (Fin n) (Fin n) ℂ) : toMatrix n (ofMatrix n X) = X := by
  ext i j
  simp only [toMatrix, Matrix.of_apply, ofMatrix]
  rw [entry_ofFn _ i.2 j.2]
  simp

theorem ofMatrix_toMatrix {n : ℕ} {a : List (List ℂ)} (ha : WF n a) : ofMatrix n (toMatrix n a) = a := by
  apply wf_ext (wf_ofFn n _) ha
  intro i j hi hj
  rw [entry_ofFn _ hi hj, dif_pos ⟨hi, hj⟩]
  rfl

lemma wf_minv (n : ℕ) (a : List (List ℂ)) : WF n (minv n a) := by
  unfold minv inv?
  simp only []
  split_ifs
  · exact wf_ofFn n _
  · exact wf_ofFn n _

/-- the driver's `inv` as a function on matrices -/
noncomputable def invM (n : ℕ) (X : Matrix (Fin n) (Fin n) ℂ) : Matrix (Fin n) (Fin n) ℂ :=
  toMatrix n (minv n (ofMatrix n X))

theorem toMatrix_minv {n : ℕ} {a : List (List ℂ)} (ha : WF n a) :
    toMatrix n (minv n a) = invM n (toMatrix n a) := by
  unfold invM
  rw [ofMatrix_toMatrix ha]

/-- whenever the elimination succeeds, the driver's `inv` is a left inverse -/
theorem minv_left_inverse (n : ℕ) (a : List (List ℂ)) (h : (inv? n a).isSome) :
    toMatrix n (minv n a) * toMatrix n a = 1 := by
  obtain ⟨x, hx⟩ := Option.isSome_iff_exists.mp h
  have := (inv?_left_inverse n a x hx).1
  unfold minv
  rw [hx]
  exact this

end Nitime.AR.GMat
