/-
C09 — the channel bookkeeping of the FFT cache (`Model/C09Keys.lean`): the theorems.  Core Lean only.

* `lookup_fill_same`        a dict keyed and filled along ONE ordering holds under key `c` the value of channel `c`, for every
                            ordering whatsoever (with repeats, unsorted, …): `lookup c = if c ∈ chs then some (f c) else none`;
* `fill_order_irrelevant`   hence two orderings with the same members give the same finite map (order of insertion irrelevant);
* `mem_channels`, `mem_order`  every ordering (`sorted`, first-seen, the set's iteration — any list with the members of the pair
                            list's channels) names exactly the channels of the pair list;
* `keyed_lookup`            the dict of a function whose KEYS and VALUES follow one ordering: value under `c` = `f c`, for every pair list;
* `cacheThenQuery_lookup`   `cache_fft` then `cache_to_psd` / `cache_to_phase`: value under `c` = `post (slices (row c))`;
* `sorted_keys_set_order_values_counterexample`  the discipline of seeded change C09-13 (keys from `sorted(set)`, values stacked in
                            the set's iteration order) on `ij = [(1, 8)]`, iteration 8, 1: the value under key 1 is channel 8's.
-/
import Nitime.Model.C09Keys

namespace Nitime.C09.Keys

theorem lookup_fill_same {V} (f : Nat → V) (c : Nat) : ∀ chs : List Nat,
    (fill chs chs f).lookup c = if c ∈ chs then some (f c) else none := by
  intro chs
  induction chs with
  | nil => simp [fill]
  | cons a r ih =>
    unfold fill at ih ⊢
    simp only [List.map_cons, List.zip_cons_cons, List.lookup_cons]
    by_cases h : c = a
    · subst h; simp
    · have h' : (c == a) = false := by simpa using h
      rw [h', ih]
      simp [h]

/-- **order of insertion is irrelevant**: orderings with the same members give the same finite map -/
theorem fill_order_irrelevant {V} (f : Nat → V) (o₁ o₂ : List Nat) (h : ∀ c, c ∈ o₁ ↔ c ∈ o₂) (c : Nat) :
    (fill o₁ o₁ f).lookup c = (fill o₂ o₂ f).lookup c := by
  rw [lookup_fill_same, lookup_fill_same]
  by_cases hc : c ∈ o₁
  · simp [hc, (h c).mp hc]
  · have : c ∉ o₂ := fun h2 => hc ((h c).mpr h2)
    simp [hc, this]

theorem mem_dedup (c : Nat) : ∀ l : List Nat, c ∈ dedup l ↔ c ∈ l := by
  intro l
  induction l with
  | nil => simp [dedup]
  | cons a r ih =>
    simp only [dedup, List.mem_cons, List.mem_filter, ih]
    constructor
    · rintro (h | ⟨h, _⟩)
      · exact Or.inl h
      · exact Or.inr h
    · rintro (h | h)
      · exact Or.inl h
      · by_cases hca : c = a
        · exact Or.inl hca
        · exact Or.inr ⟨h, by simpa using hca⟩

/-- the channels of a pair list are the members of its pairs -/
theorem mem_channels (ij : List (Nat × Nat)) (c : Nat) : c ∈ channels ij ↔ ∃ p ∈ ij, c = p.1 ∨ c = p.2 := by
  unfold channels
  rw [mem_dedup]
  simp [List.mem_flatMap]

theorem mem_insertNat (a c : Nat) : ∀ l : List Nat, c ∈ insertNat a l ↔ c = a ∨ c ∈ l := by
  intro l
  induction l with
  | nil => simp [insertNat]
  | cons b r ih =>
    unfold insertNat
    split
    · simp
    · simp only [List.mem_cons, ih]
      constructor
      · rintro (h | h | h)
        · exact Or.inr (Or.inl h)
        · exact Or.inl h
        · exact Or.inr (Or.inr h)
      · rintro (h | h | h)
        · exact Or.inr (Or.inl h)
        · exact Or.inl h
        · exact Or.inr (Or.inr h)

theorem mem_sortNat (l : List Nat) (c : Nat) : c ∈ sortNat l ↔ c ∈ l := by
  unfold sortNat
  induction l with
  | nil => simp
  | cons a r ih => simp only [List.foldr_cons, mem_insertNat, ih, List.mem_cons]

/-- every ordering names exactly the requested channels, as long as the set's iteration does -/
theorem mem_order (iter : List Nat) (ij : List (Nat × Nat)) (hiter : ∀ c, c ∈ iter ↔ c ∈ channels ij) (o : Ord) (c : Nat) :
    c ∈ order iter ij o ↔ c ∈ channels ij := by
  cases o with
  | setIter => exact hiter c
  | sorted => exact mem_sortNat _ c
  | firstSeen => exact Iff.rfl
  | unknown => exact Iff.rfl

/-- a function that takes keys and values from ONE ordering: under key `c` lies the value of channel `c` -/
theorem keyed_lookup {V} (s : KeySpec) (hs : s.keyOrd = s.valOrd) (iter : List Nat) (ij : List (Nat × Nat))
    (hiter : ∀ c, c ∈ iter ↔ c ∈ channels ij) (f : Nat → V) (c : Nat) (hc : c ∈ channels ij) :
    (keyed s iter ij f).lookup c = some (f c) := by
  unfold keyed
  rw [hs, lookup_fill_same]
  simp [(mem_order iter ij hiter s.valOrd c).mpr hc]

theorem keyed_lookup_none {V} (s : KeySpec) (hs : s.keyOrd = s.valOrd) (iter : List Nat) (ij : List (Nat × Nat))
    (hiter : ∀ c, c ∈ iter ↔ c ∈ channels ij) (f : Nat → V) (c : Nat) (hc : c ∉ channels ij) :
    (keyed s iter ij f).lookup c = none := by
  unfold keyed
  rw [hs, lookup_fill_same]
  have : c ∉ order iter ij s.valOrd := fun h => hc ((mem_order iter ij hiter s.valOrd c).mp h)
  simp [this]

/-- `cache_fft` then a per-channel query, each keyed and filled along one ordering of its own (the two orderings, and the two
iterations of the two sets, may differ): under key `c` lies `post (slices (row c))` -/
theorem cacheThenQuery_lookup {R S P} (sf sq : KeySpec) (hf : sf.keyOrd = sf.valOrd) (hq : sq.keyOrd = sq.valOrd)
    (iterF iterQ : List Nat) (ij : List (Nat × Nat))
    (hF : ∀ c, c ∈ iterF ↔ c ∈ channels ij) (hQ : ∀ c, c ∈ iterQ ↔ c ∈ channels ij)
    (rows : Nat → R) (slices : R → S) (post : S → P) (dflt : S) (c : Nat) (hc : c ∈ channels ij) :
    (cacheThenQuery sf sq iterF iterQ ij rows slices post dflt).lookup c = some (post (slices (rows c))) := by
  unfold cacheThenQuery
  simp only []
  rw [keyed_lookup sq hq iterQ ij hQ _ c hc, keyed_lookup sf hf iterF ij hF _ c hc]
  rfl

/-- seeded change C09-13: keys from `sorted(all_channels)`, values stacked while iterating the set.  `ij = [(1, 8)]`; CPython
iterates `{1, 8}` as 8, 1: the spectrum under key 1 is channel 8's, the one under key 8 is channel 1's — genuine spectra of
requested channels, attributed to the wrong channel.  (On up to 8 channels the set iterates in increasing order and the two
orderings coincide: `sorted_keys_agree_when_iteration_sorted`.) -/
theorem sorted_keys_set_order_values_counterexample {V} (f : Nat → V) :
    (keyed ⟨.sorted, .setIter⟩ [8, 1] [(1, 8)] f).lookup 1 = some (f 8) ∧
    (keyed ⟨.sorted, .setIter⟩ [8, 1] [(1, 8)] f).lookup 8 = some (f 1) := by
  have h : order [8, 1] [(1, 8)] .sorted = [1, 8] := by decide
  unfold keyed fill
  simp only [h]
  simp [order, List.lookup]

/-- why dense channel sets never show it: when the set happens to iterate in increasing order the two disciplines agree -/
theorem sorted_keys_agree_when_iteration_sorted {V} (iter : List Nat) (ij : List (Nat × Nat))
    (h : iter = sortNat (channels ij)) (f : Nat → V) :
    keyed ⟨.sorted, .setIter⟩ iter ij f = keyed ⟨.setIter, .setIter⟩ iter ij f := by
  unfold keyed order
  simp [h]

end Nitime.C09.Keys
