import Mathlib.Algebra.Field.Basic
import Mathlib.Tactic.Ring
import Mathlib.Tactic.FieldSimp
import Mathlib.Tactic.LinearCombination

/-!
Symmetric tridiagonal solve as in `tridisolve` (Golub & Van Loan): d main diagonal,
e off-diagonal (e k = A[k,k+1] = A[k+1,k]).
Forward sweep:   δ 0 = d 0,  l k = e k / δ k,  δ (k+1) = d (k+1) - e k * l k
                 y 0 = b 0,  y (k+1) = b (k+1) - l k * y k
Back substitution: x (N-1) = y (N-1) / δ (N-1),  x k = y k / δ k - l k * x (k+1)
-/
namespace Tridi

variable {K : Type*} [Field K]

structure Sweep (N : ℕ) (d e b δ l y x : ℕ → K) : Prop where
  δ0 : δ 0 = d 0
  lk : ∀ k, k + 1 < N → l k = e k / δ k
  δs : ∀ k, k + 1 < N → δ (k + 1) = d (k + 1) - e k * l k
  y0 : y 0 = b 0
  ys : ∀ k, k + 1 < N → y (k + 1) = b (k + 1) - l k * y k
  xl : x (N - 1) = y (N - 1) / δ (N - 1)
  xs : ∀ k, k + 1 < N → x k = y k / δ k - l k * x (k + 1)
  piv : ∀ k, k < N → δ k ≠ 0

variable {N : ℕ} {d e b δ l y x : ℕ → K}

/-- D·Lᵀ·x = y, row by row -/
lemma back_eq (h : Sweep N d e b δ l y x) {k : ℕ} (hk : k + 1 < N) :
    δ k * x k + e k * x (k + 1) = y k := by
  have hp := h.piv k (by omega)
  rw [h.xs k hk, h.lk k hk]; field_simp; ring

lemma back_last (h : Sweep N d e b δ l y x) (hN : 1 ≤ N) : δ (N - 1) * x (N - 1) = y (N - 1) := by
  have hp := h.piv (N - 1) (by omega)
  rw [h.xl]; field_simp

/-- first row of A·x = b -/
theorem row_first (h : Sweep N d e b δ l y x) (hN : 2 ≤ N) :
    d 0 * x 0 + e 0 * x 1 = b 0 := by
  have := back_eq h (k := 0) (by omega)
  rw [h.δ0, h.y0] at this; simpa using this

/-- interior rows -/
theorem row_mid (h : Sweep N d e b δ l y x) {k : ℕ} (hk : k + 2 < N) :
    e k * x k + d (k + 1) * x (k + 1) + e (k + 1) * x (k + 2) = b (k + 1) := by
  have h1 := back_eq h (k := k) (by omega)
  have h2 := back_eq h (k := k + 1) (by omega)
  have hδ := h.δs k (by omega)
  have hy := h.ys k (by omega)
  have hl := h.lk k (by omega)
  have hp := h.piv k (by omega)
  have hel : e k = l k * δ k := by rw [hl]; field_simp
  -- d(k+1) = δ(k+1) + e k * l k
  linear_combination h2 + hy + (l k) * h1 + (x (k + 1)) * (- hδ) + (x k - l k * x (k+1) + l k * x (k + 1)) * hel
    - (l k * x (k+1)) * hel + (l k * x (k + 1)) * hel

/-- last row -/
theorem row_last (h : Sweep N d e b δ l y x) {k : ℕ} (hk : k + 2 = N) :
    e k * x k + d (k + 1) * x (k + 1) = b (k + 1) := by
  have h1 := back_eq h (k := k) (by omega)
  have h2 := back_last h (by omega)
  have e1 : N - 1 = k + 1 := by omega
  rw [e1] at h2
  have hδ := h.δs k (by omega)
  have hy := h.ys k (by omega)
  have hl := h.lk k (by omega)
  have hp := h.piv k (by omega)
  have hel : e k = l k * δ k := by rw [hl]; field_simp
  linear_combination h2 + hy + (l k) * h1 + (x (k + 1)) * (- hδ) + (x k) * hel

/-- N = 1 -/
theorem row_single (h : Sweep 1 d e b δ l y x) : d 0 * x 0 = b 0 := by
  have := back_last h le_rfl
  simpa [h.δ0, h.y0] using this

#print axioms row_mid
end Tridi
