/-
ℝ / ℂ instances of the `Scalar` classes of `Nitime.Model.EvBase` (noncomputable, proof side only)
and the bridge lemmas from the model's folds to `Finset` sums.
-/
import Nitime.Model.EvBase
import Mathlib.Data.Complex.BigOperators
import Mathlib.Analysis.SpecialFunctions.Log.Base
import Mathlib.Analysis.SpecialFunctions.Sqrt

namespace Nitime.Ev
open Finset

noncomputable instance instScalarComplex : Scalar ℂ :=
  ⟨(· + ·), (· - ·), (· * ·), (· / ·), starRingEnd ℂ, fun n => (n : ℂ)⟩
noncomputable instance instScalarReal : Scalar ℝ :=
  ⟨(· + ·), (· - ·), (· * ·), (· / ·), id, fun n => (n : ℝ)⟩
noncomputable instance instRScalarReal : RScalar ℝ :=
  { sqrt := Real.sqrt, log2 := fun x => Real.logb 2 x }

section complex
@[simp] theorem c_add (a b : ℂ) : Scalar.add a b = a + b := rfl
@[simp] theorem c_sub (a b : ℂ) : Scalar.sub a b = a - b := rfl
@[simp] theorem c_mul (a b : ℂ) : Scalar.mul a b = a * b := rfl
@[simp] theorem c_div (a b : ℂ) : Scalar.div a b = a / b := rfl
@[simp] theorem c_conj (a : ℂ) : Scalar.conj a = starRingEnd ℂ a := rfl
@[simp] theorem c_ofNat (n : ℕ) : (Scalar.ofNat n : ℂ) = (n : ℂ) := rfl
@[simp] theorem c_zero : (zero : ℂ) = 0 := by simp [zero]
end complex

section real
@[simp] theorem r_add (a b : ℝ) : Scalar.add a b = a + b := rfl
@[simp] theorem r_sub (a b : ℝ) : Scalar.sub a b = a - b := rfl
@[simp] theorem r_mul (a b : ℝ) : Scalar.mul a b = a * b := rfl
@[simp] theorem r_div (a b : ℝ) : Scalar.div a b = a / b := rfl
@[simp] theorem r_conj (a : ℝ) : Scalar.conj a = a := rfl
@[simp] theorem r_ofNat (n : ℕ) : (Scalar.ofNat n : ℝ) = (n : ℝ) := rfl
@[simp] theorem r_zero : (zero : ℝ) = 0 := by simp [zero]
@[simp] theorem r_sqrt (a : ℝ) : RScalar.sqrt a = Real.sqrt a := rfl
@[simp] theorem r_log2 (a : ℝ) : RScalar.log2 a = Real.logb 2 a := rfl
end real

theorem sumRange_eq_c (n : ℕ) (f : ℕ → ℂ) : sumRange n f = ∑ i ∈ range n, f i := by
  unfold sumRange
  induction n with
  | zero => simp
  | succ n ih => rw [List.range_succ, List.foldl_append, ih, Finset.sum_range_succ]; simp

theorem sumRange_eq_r (n : ℕ) (f : ℕ → ℝ) : sumRange n f = ∑ i ∈ range n, f i := by
  unfold sumRange
  induction n with
  | zero => simp
  | succ n ih => rw [List.range_succ, List.foldl_append, ih, Finset.sum_range_succ]; simp

theorem sumList_eq_r (l : List ℝ) : sumList l = l.sum := by
  unfold sumList
  have : ∀ (a : ℝ), l.foldl Scalar.add a = a + l.sum := by
    induction l with
    | nil => intro a; simp
    | cons b l ih => intro a; simp [ih, add_assoc]
  rw [this]; simp

section generic
variable {K : Type} [Scalar K]

@[simp] theorem length_tabulate (n : ℕ) (f : ℕ → K) : (tabulate n f).length = n := by
  simp [tabulate]

theorem nth_tabulate {n m : ℕ} (f : ℕ → K) (h : m < n) : nth (tabulate n f) m = f m := by
  simp [nth, tabulate, List.getD_eq_getElem?_getD, h]

theorem nth_map {x : List K} (g : K → K) {i : ℕ} (h : i < x.length) :
    nth (x.map g) i = g (nth x i) := by
  simp [nth, List.getD_eq_getElem?_getD, h]

theorem nth_reverse {x : List K} {i : ℕ} (h : i < x.length) :
    nth x.reverse i = nth x (x.length - 1 - i) := by
  have h2 : x.length - 1 - i < x.length := by omega
  simp [nth, List.getD_eq_getElem?_getD, h, h2, List.getElem?_reverse]

@[simp] theorem length_removeBias (x : List K) : (removeBias x).length = x.length := by
  simp [removeBias]
end generic

end Nitime.Ev
