/-
C20 — the entropy model at the ℝ instance, connected to the finite information inequalities.
-/
import Nitime.Lemmas.C20Count
import Nitime.Lemmas.C20Info
import Nitime.Lemmas.EvInst
import Mathlib.Algebra.BigOperators.Group.Finset.Basic

namespace Nitime.C20
-- the model counts with `instBEqOfDecidableEq`; make statements about products elaborate the same way
attribute [-instance] instBEqProd
open Finset Nitime.Ev Real
set_option linter.unusedSectionVars false
variable {σ τ : Type} [DecidableEq σ] [DecidableEq τ]

/-- empirical probability `c/n` -/
noncomputable def pr (c n : ℕ) : ℝ := (c : ℝ) / (n : ℝ)

theorem plogp_eq (c n : ℕ) : (plogp c n : ℝ) = -(pr c n * logb 2 (pr c n)) := by
  unfold plogp pr
  by_cases h : c = 0
  · simp [h]
  · simp [h]

theorem log_two_pos : (0 : ℝ) < log 2 := log_pos (by norm_num)

/-- in nats: `plogp · log 2 = −p log p` -/
theorem plogp_mul_log2 (c n : ℕ) : (plogp c n : ℝ) * log 2 = -(pr c n * log (pr c n)) := by
  rw [plogp_eq, logb]
  have := log_two_pos.ne'
  field_simp

theorem plogp_nonneg {c n : ℕ} (h : c ≤ n) : 0 ≤ (plogp c n : ℝ) := by
  rw [plogp_eq]
  by_cases hc : c = 0
  · simp [hc, pr]
  · have hn : 0 < n := by omega
    have hp0 : 0 ≤ pr c n := by unfold pr; positivity
    have hp1 : pr c n ≤ 1 := by
      unfold pr; rw [div_le_one (by exact_mod_cast hn)]; exact_mod_cast h
    have := logb_nonpos (b := 2) (by norm_num) hp0 hp1
    nlinarith [mul_nonneg hp0 (neg_nonneg.mpr this)]

theorem entropyG_eq (A S : List σ) :
    (entropyG A S : ℝ) = (A.map fun c => (plogp (S.count c) S.length : ℝ)).sum := by
  simp [entropyG, entropyOfCounts, jointCounts, sumList_eq_r, List.map_map, Function.comp_def]

theorem entropyG_finset (A S : List σ) (hA : A.Nodup) :
    (entropyG A S : ℝ) = ∑ c ∈ A.toFinset, (plogp (S.count c) S.length : ℝ) := by
  rw [entropyG_eq, List.sum_toFinset _ hA]

theorem entropyG_nonneg (A S : List σ) : 0 ≤ (entropyG A S : ℝ) := by
  rw [entropyG_eq]
  apply List.sum_nonneg
  intro v hv
  obtain ⟨c, _, rfl⟩ := List.mem_map.mp hv
  exact plogp_nonneg List.count_le_length

theorem sum_pr_eq_one (A S : List σ) (hA : A.Nodup) (hS : ∀ s ∈ S, s ∈ A) (hne : S ≠ []) :
    ∑ c ∈ A.toFinset, pr (S.count c) S.length = 1 := by
  have hn : (S.length : ℝ) ≠ 0 := by
    have : S.length ≠ 0 := fun h => hne (List.length_eq_zero_iff.mp h)
    exact_mod_cast this
  unfold pr
  rw [← sum_div, ← Nat.cast_sum, List.sum_toFinset _ hA, sum_count_eq_length A S hA hS]
  exact div_self hn

/-- `H ≤ log2 (number of cells)` -/
theorem entropyG_le_logb_card (A S : List σ) (hA : A.Nodup) (hS : ∀ s ∈ S, s ∈ A) (hne : S ≠ []) :
    (entropyG A S : ℝ) ≤ logb 2 A.length := by
  have h := neg_sum_mul_log_le_log_card A.toFinset (fun c => pr (S.count c) S.length)
    (fun _ _ => by unfold pr; positivity) (sum_pr_eq_one A S hA hS hne)
  rw [List.toFinset_card_of_nodup hA] at h
  have h2 : (entropyG A S : ℝ) * log 2 = -(∑ c ∈ A.toFinset, pr (S.count c) S.length * log (pr (S.count c) S.length)) := by
    rw [entropyG_finset A S hA, sum_mul, ← sum_neg_distrib]
    exact sum_congr rfl fun c _ => plogp_mul_log2 _ _
  rw [logb, le_div_iff₀ log_two_pos, h2]
  exact h

/-! two variables -/

/-- joint empirical probability -/
noncomputable def P2 (x : List σ) (y : List τ) (a : σ) (b : τ) : ℝ :=
  pr ((x.zip y).count (a, b)) x.length

theorem P2_nonneg (x : List σ) (y : List τ) (a : σ) (b : τ) : 0 ≤ P2 x y a b := by
  unfold P2 pr; positivity

theorem P2_marg_right (x : List σ) (y : List τ) (hl : x.length = y.length) (a : σ) :
    ∑ b ∈ (uniq y).toFinset, P2 x y a b = pr (x.count a) x.length := by
  unfold P2 pr
  rw [← sum_div, ← Nat.cast_sum, List.sum_toFinset _ (nodup_uniq y),
    sum_count_zip_right (uniq y) (nodup_uniq y) a x y hl (fun t ht => mem_uniq.mpr ht)]

theorem P2_marg_left (x : List σ) (y : List τ) (hl : x.length = y.length) (b : τ) :
    ∑ a ∈ (uniq x).toFinset, P2 x y a b = pr (y.count b) x.length := by
  unfold P2 pr
  rw [← sum_div, ← Nat.cast_sum, List.sum_toFinset _ (nodup_uniq x),
    sum_count_zip_left (uniq x) (nodup_uniq x) b x y hl (fun t ht => mem_uniq.mpr ht)]

theorem entropy1_mul_log2 (x : List σ) :
    (entropy1 x : ℝ) * log 2
      = -(∑ a ∈ (uniq x).toFinset, pr (x.count a) x.length * log (pr (x.count a) x.length)) := by
  rw [entropy1, entropyG_finset _ _ (nodup_uniq x), sum_mul, ← sum_neg_distrib]
  exact sum_congr rfl fun c _ => plogp_mul_log2 _ _

theorem entropy2_eq (x : List σ) (y : List τ) (hl : x.length = y.length) :
    (entropyG (pairs (uniq x) (uniq y)) (x.zip y) : ℝ)
      = ∑ a ∈ (uniq x).toFinset, ∑ b ∈ (uniq y).toFinset,
          (plogp ((x.zip y).count (a, b)) x.length : ℝ) := by
  have hz : (x.zip y).length = x.length := by simp [hl]
  rw [entropyG_eq, sum_pairs, hz, List.sum_toFinset _ (nodup_uniq x)]
  congr 1
  apply List.map_congr_left
  intro a _
  rw [List.sum_toFinset _ (nodup_uniq y)]

theorem entropy2_mul_log2 (x : List σ) (y : List τ) (hl : x.length = y.length) :
    (entropyG (pairs (uniq x) (uniq y)) (x.zip y) : ℝ) * log 2
      = -(∑ a ∈ (uniq x).toFinset, ∑ b ∈ (uniq y).toFinset, P2 x y a b * log (P2 x y a b)) := by
  rw [entropy2_eq x y hl, sum_mul, ← sum_neg_distrib]
  refine sum_congr rfl fun a _ => ?_
  rw [sum_mul, ← sum_neg_distrib]
  exact sum_congr rfl fun b _ => plogp_mul_log2 _ _

theorem sum_P2_eq_one (x : List σ) (y : List τ) (hl : x.length = y.length) (hne : x ≠ []) :
    ∑ a ∈ (uniq x).toFinset, ∑ b ∈ (uniq y).toFinset, P2 x y a b = 1 := by
  rw [sum_congr rfl fun a _ => P2_marg_right x y hl a]
  exact sum_pr_eq_one (uniq x) x (nodup_uniq x) (fun s hs => mem_uniq.mpr hs) hne

/-- `(H(X) + H(Y) − H(X,Y))·ln 2` is the Kullback–Leibler sum -/
theorem mi_kl (x : List σ) (y : List τ) (hl : x.length = y.length) :
    ((entropyG (uniq x) x : ℝ) + entropyG (uniq y) y - entropyG (pairs (uniq x) (uniq y)) (x.zip y)) * log 2
      = ∑ a ∈ (uniq x).toFinset, ∑ b ∈ (uniq y).toFinset,
          P2 x y a b * log (P2 x y a b / (pr (x.count a) x.length * pr (y.count b) y.length)) := by
  have hkl := kl_decomp (uniq x).toFinset (uniq y).toFinset (P2 x y) (P2_nonneg x y)
  simp only [P2_marg_right x y hl, P2_marg_left x y hl] at hkl
  have hx := entropy1_mul_log2 x
  have hy := entropy1_mul_log2 y
  unfold entropy1 at hx hy
  rw [← hl] at hy ⊢
  rw [hkl, sub_mul, add_mul, hx, hy, entropy2_mul_log2 x y hl]
  ring

theorem mi_nonneg_real (x : List σ) (y : List τ) (hl : x.length = y.length) :
    0 ≤ (entropyG (uniq x) x : ℝ) + entropyG (uniq y) y - entropyG (pairs (uniq x) (uniq y)) (x.zip y) := by
  by_cases hne : x = []
  · subst hne
    have : y = [] := List.length_eq_zero_iff.mp hl.symm
    subst this
    simp [entropyG_eq, uniq, pairs]
  · have hkl := kl_nonneg (uniq x).toFinset (uniq y).toFinset (P2 x y) (P2_nonneg x y)
      (sum_P2_eq_one x y hl hne)
    simp only [P2_marg_right x y hl, P2_marg_left x y hl] at hkl
    have h := mi_kl x y hl
    rw [← hl] at h
    rw [← h] at hkl
    exact nonneg_of_mul_nonneg_left hkl log_two_pos

/-- joint entropy is symmetric in its arguments -/
theorem entropy2_symm (x : List σ) (y : List τ) (hl : x.length = y.length) :
    (entropyG (pairs (uniq x) (uniq y)) (x.zip y) : ℝ) = entropyG (pairs (uniq y) (uniq x)) (y.zip x) := by
  rw [entropy2_eq x y hl, entropy2_eq y x hl.symm, sum_comm]
  refine sum_congr rfl fun b _ => sum_congr rfl fun a _ => ?_
  rw [count_zip_swap, hl]

/-! relabelling and permutation -/

theorem uniq_map_of_injective {f : σ → τ} (hf : Function.Injective f) (l : List σ) :
    uniq (l.map f) = (uniq l).map f := by
  induction l with
  | nil => simp [uniq]
  | cons a l ih =>
    simp only [List.map_cons, uniq, ih]
    have : f a ∈ (uniq l).map f ↔ a ∈ uniq l := by
      rw [List.mem_map]
      constructor
      · rintro ⟨b, hb, hab⟩; rwa [← hf hab]
      · intro h; exact ⟨a, h, rfl⟩
    by_cases h : a ∈ uniq l
    · simp [h, this.mpr h]
    · have h' : ¬ f a ∈ (uniq l).map f := fun hh => h (this.mp hh)
      simp [h, h']

/-- the exact histogram does not see an injective renaming of the symbols (any scalar instance) -/
theorem jointCounts_map {f : σ → τ} (hf : Function.Injective f) (A S : List σ) :
    jointCounts (A.map f) (S.map f) = jointCounts A S := by
  simp [jointCounts, List.map_map, Function.comp_def, List.count_map_of_injective _ _ hf]

theorem entropyG_map {K : Type} [RScalar K] {f : σ → τ} (hf : Function.Injective f) (A S : List σ) :
    (entropyG (A.map f) (S.map f) : K) = entropyG A S := by
  simp [entropyG, jointCounts_map hf]

theorem pairs_map {σ' τ' : Type} (f : σ → σ') (g : τ → τ') (A : List σ) (B : List τ) :
    pairs (A.map f) (B.map g) = (pairs A B).map (Prod.map f g) := by
  simp [pairs, List.flatMap_map, List.map_flatMap, List.map_map, Function.comp_def]

theorem uniq_perm {x x' : List σ} (h : x.Perm x') : (uniq x).Perm (uniq x') :=
  (List.perm_ext_iff_of_nodup (nodup_uniq x) (nodup_uniq x')).mpr
    (fun a => by rw [mem_uniq, mem_uniq, h.mem_iff])

theorem pairs_perm {A A' : List σ} {B B' : List τ} (hA : A.Nodup) (hB : B.Nodup)
    (ha : A.Perm A') (hb : B.Perm B') : (pairs A B).Perm (pairs A' B') :=
  (List.perm_ext_iff_of_nodup (nodup_pairs hA hB)
      (nodup_pairs (ha.nodup_iff.mp hA) (hb.nodup_iff.mp hB))).mpr
    (fun p => by rw [mem_pairs, mem_pairs, ha.mem_iff, hb.mem_iff])

/-- the value depends neither on the order of the cells nor on the order of the samples -/
theorem entropyG_perm {A A' S S' : List σ} (hA : A.Perm A') (hS : S.Perm S') :
    (entropyG A' S' : ℝ) = entropyG A S := by
  rw [entropyG_eq, entropyG_eq, ← hS.length_eq]
  have : (fun c => (plogp (S'.count c) S.length : ℝ)) = fun c => plogp (S.count c) S.length := by
    funext c; rw [hS.count_eq]
  rw [this]
  exact ((hA.map _).sum_eq).symm

end Nitime.C20
