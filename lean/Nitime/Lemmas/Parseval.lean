import Mathlib.RingTheory.RootsOfUnity.Complex
import Mathlib.Algebra.Field.GeomSum
import Mathlib.Data.Complex.BigOperators

open Finset Complex ComplexConjugate

/-- orthogonality of the powers of a primitive root -/
theorem root_orth {N : ℕ} (hN : 0 < N) {ζ : ℂ} (hζ : IsPrimitiveRoot ζ N)
    {j j' : ℕ} (hj : j < N) (hj' : j' < N) :
    ∑ k ∈ range N, ζ ^ (j * k) * (ζ⁻¹) ^ (j' * k) = if j = j' then (N : ℂ) else 0 := by
  have hζ0 : ζ ≠ 0 := hζ.ne_zero hN.ne'
  have hpow : ∀ k, ζ ^ (j * k) * (ζ⁻¹) ^ (j' * k) = (ζ ^ j * (ζ⁻¹) ^ j') ^ k := by
    intro k; rw [mul_pow, ← pow_mul, ← pow_mul]
  simp_rw [hpow]
  split_ifs with h
  · subst h
    have : ζ ^ j * ζ⁻¹ ^ j = 1 := by
      rw [← mul_pow, mul_inv_cancel₀ hζ0, one_pow]
    rw [sum_congr rfl (fun k _ => by rw [this, one_pow])]
    simp
  · set η := ζ ^ j * ζ⁻¹ ^ j' with hη
    have hηN : η ^ N = 1 := by
      rw [hη, mul_pow, ← pow_mul, ← pow_mul, mul_comm j, mul_comm j', pow_mul, pow_mul,
        inv_pow, hζ.pow_eq_one]; simp
    have hη1 : η ≠ 1 := by
      intro h1
      rcases Nat.lt_or_gt_of_ne h with hlt | hgt
      · -- j < j'
        have : ζ ^ (j' - j) = 1 := by
          have : ζ ^ j' = ζ ^ j := by
            have := h1
            rw [hη, inv_pow, ← div_eq_mul_inv, div_eq_one_iff_eq (pow_ne_zero _ hζ0)] at this
            exact this.symm
          have h2 : ζ ^ (j' - j) * ζ ^ j = ζ ^ j := by
            rw [← pow_add, Nat.sub_add_cancel hlt.le, this]
          exact mul_right_cancel₀ (pow_ne_zero _ hζ0) (by rw [h2, one_mul])
        exact hζ.pow_ne_one_of_pos_of_lt (by omega) (by omega) this
      · have : ζ ^ (j - j') = 1 := by
          have : ζ ^ j = ζ ^ j' := by
            have := h1
            rw [hη, inv_pow, ← div_eq_mul_inv, div_eq_one_iff_eq (pow_ne_zero _ hζ0)] at this
            exact this
          have h2 : ζ ^ (j - j') * ζ ^ j' = ζ ^ j' := by
            rw [← pow_add, Nat.sub_add_cancel hgt.le, this]
          exact mul_right_cancel₀ (pow_ne_zero _ hζ0) (by rw [h2, one_mul])
        exact hζ.pow_ne_one_of_pos_of_lt (by omega) (by omega) this
    rw [geom_sum_eq hη1, hηN, sub_self, zero_div]

/-- Parseval for the length-N DFT written with `Finset.range`. -/
theorem parseval {N : ℕ} (hN : 0 < N) {ζ : ℂ} (hζ : IsPrimitiveRoot ζ N) (hc : conj ζ = ζ⁻¹)
    (x : ℕ → ℂ) :
    ∑ k ∈ range N, (normSq (∑ j ∈ range N, x j * ζ ^ (j * k)) : ℂ)
      = N * ∑ j ∈ range N, (normSq (x j) : ℂ) := by
  have hconj : ∀ k, conj (∑ j ∈ range N, x j * ζ ^ (j * k))
      = ∑ j ∈ range N, conj (x j) * (ζ⁻¹) ^ (j * k) := by
    intro k; rw [map_sum]; refine sum_congr rfl fun j _ => ?_
    rw [map_mul, map_pow, hc]
  simp_rw [← mul_conj, hconj, sum_mul_sum]
  rw [sum_comm]
  have : ∀ j ∈ range N, ∑ k ∈ range N, ∑ j' ∈ range N,
        x j * ζ ^ (j * k) * (conj (x j') * ζ⁻¹ ^ (j' * k))
      = (N : ℂ) * (x j * conj (x j)) := by
    intro j hj
    rw [sum_comm]
    have : ∀ j' ∈ range N, ∑ k ∈ range N, x j * ζ ^ (j * k) * (conj (x j') * ζ⁻¹ ^ (j' * k))
        = x j * conj (x j') * (if j = j' then (N : ℂ) else 0) := by
      intro j' hj'
      rw [← root_orth hN hζ (mem_range.1 hj) (mem_range.1 hj'), mul_sum]
      refine sum_congr rfl fun k _ => by ring
    rw [sum_congr rfl this]
    simp [mul_ite, sum_ite_eq, hj]; ring
  rw [sum_congr rfl this, mul_sum]

#print axioms parseval
