/-
C04 — SpectralAnalyzer sessions (`Model/C04Sess.lean`): along EVERY session of `set_input`, `reset` and reads in any order,
every getter that takes its rate from the held input (or refreshes the method dict's entry from it before use) answers at the
rate of the series ACTUALLY HELD.  Core Lean only.
-/
import Nitime.Model.C04Sess

namespace Nitime.C04.Sess

/-- memoised results were computed for the series held -/
def Inv (s : St) : Prop := ∀ g v, s.memo g = some v → v = (s.held.rate, s.held.id)

theorem rate_of_usesHeld (sp : GetterSpec) (h : usesHeld sp = true) (s : St) :
    rateOf sp.src (if sp.writesMethodFs then { s with methodFs := some s.held.rate } else s) = s.held.rate := by
  obtain ⟨src, w⟩ := sp
  cases src <;> cases w <;> simp_all [usesHeld, rateOf]

theorem held_after_write (sp : GetterSpec) (s : St) :
    (if sp.writesMethodFs then ({ s with methodFs := some s.held.rate } : St) else s).held = s.held := by
  cases sp.writesMethodFs <;> rfl

theorem read_spec (table : Getter → GetterSpec) (hT : ∀ g, usesHeld (table g) = true) (g : Getter) (s : St) (hI : Inv s) :
    (read table g s).2 = (s.held.rate, s.held.id) ∧ Inv (read table g s).1 ∧ (read table g s).1.held = s.held := by
  unfold read
  cases hm : s.memo g with
  | some v => exact ⟨hI g v hm, hI, rfl⟩
  | none =>
    have hr := rate_of_usesHeld (table g) (hT g) s
    have hh := held_after_write (table g) s
    refine ⟨?_, ?_, ?_⟩
    · simp only [hr, hh]
    · intro g' v hv
      simp only [setMemo] at hv
      by_cases hg : g' = g
      · simp only [hg, if_true, Option.some.injEq] at hv
        rw [← hv, hr, hh]
      · simp only [hg, if_false] at hv
        have : s.memo g' = some v := by
          cases hw : (table g).writesMethodFs <;> simp_all
        simpa [hh] using hI g' v this
    · simpa using hh

/-- **every read of every session answers at the rate of the series held** -/
theorem session_reads (table : Getter → GetterSpec) (hT : ∀ g, usesHeld (table g) = true) :
    ∀ (evs : List Ev) (s : St), Inv s → run table s evs = spec s.held evs := by
  intro evs
  induction evs with
  | nil => intros; rfl
  | cons e es ih =>
    intro s hI
    cases e with
    | setInput new =>
      simp only [run, spec]
      exact ih _ (by intro g v hv; simp at hv)
    | reset =>
      simp only [run, spec]
      exact ih _ (by intro g v hv; simp at hv)
    | read g =>
      obtain ⟨h1, h2, h3⟩ := read_spec table hT g s hI
      simp only [run, spec, h1]
      rw [ih _ h2, h3]

theorem inv_init (c : CtorFs) (inp : Inp) (u : Option (Option Rat)) : Inv (init c inp u) := by
  intro g v hv; simp [init] at hv

theorem init_held (c : CtorFs) (inp : Inp) (u : Option (Option Rat)) : (init c inp u).held = inp := rfl

end Nitime.C04.Sess
