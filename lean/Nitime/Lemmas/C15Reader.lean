/- C15 — lemmas about the heap model of read histories (`Model/C15Reader.lean`). -/
import Nitime.Model.C15Reader
import Mathlib.Data.List.Basic
import Mathlib.Data.List.Nodup
import Mathlib.Tactic.Linarith

namespace Nitime.C15.Reader
variable {α : Type}

theorem getD_app_left {β} (l m : List β) (i : Nat) (d : β) (h : i < l.length) : (l ++ m).getD i d = l.getD i d := by
  simp [List.getD_eq_getElem?_getD, List.getElem?_append_left h]

theorem getD_app_len {β} (l : List β) (x : β) (m : List β) (d : β) : (l ++ x :: m).getD l.length d = x := by
  simp [List.getD_eq_getElem?_getD]

/-- what one `piece` does with `freshLoad`: the heap grows, nothing else changes, and the buffer handed out is a
new one holding the file's data at the coordinates -/
theorem piece_fresh (st : St α) (f : Nat) (c : Option Coords) :
    ∃ more, (piece .freshLoad st f c).1.heap = st.heap ++ more ∧
      (piece .freshLoad st f c).1.disk = st.disk ∧
      (piece .freshLoad st f c).1.results = st.results ∧
      st.heap.length ≤ (piece .freshLoad st f c).2 ∧
      (piece .freshLoad st f c).2 < (piece .freshLoad st f c).1.heap.length ∧
      (piece .freshLoad st f c).1.heap.getD (piece .freshLoad st f c).2 [] = filePiece (fileAt st.disk f) c := by
  cases c with
  | none =>
    refine ⟨[(fileAt st.disk f).rows], rfl, rfl, rfl, ?_, ?_, ?_⟩
    · exact Nat.le_refl _
    · simp [piece, fdata, alloc]
    · simp only [piece, fdata, alloc, filePiece]
      exact getD_app_len _ _ [] _
  | some c =>
    refine ⟨[(fileAt st.disk f).rows, sel (fileAt st.disk f).Y (fileAt st.disk f).Z (fileAt st.disk f).rows c],
      ?_, rfl, rfl, ?_, ?_, ?_⟩
    · simp only [piece, fdata, alloc]
      rw [getD_app_len _ _ [] _]
      simp
    · simp [piece, fdata, alloc]
    · simp [piece, fdata, alloc]
    · simp only [piece, fdata, alloc, filePiece]
      rw [getD_app_len _ _ [] _, getD_app_len _ _ [] _]

theorem pieces_fresh (fs : List Nat) (c : Option Coords) : ∀ st : St α,
    ∃ more, (pieces .freshLoad st fs c).1.heap = st.heap ++ more ∧
      (pieces .freshLoad st fs c).1.disk = st.disk ∧
      (pieces .freshLoad st fs c).1.results = st.results ∧
      (∀ id ∈ (pieces .freshLoad st fs c).2, id < (pieces .freshLoad st fs c).1.heap.length) ∧
      (pieces .freshLoad st fs c).2.map (fun id => (pieces .freshLoad st fs c).1.heap.getD id [])
        = fs.map (fun f => filePiece (fileAt st.disk f) c) := by
  induction fs with
  | nil => intro st; exact ⟨[], by simp [pieces], rfl, rfl, by simp [pieces], by simp [pieces]⟩
  | cons f fs ih =>
    intro st
    obtain ⟨m1, h1, d1, r1, _, lt1, v1⟩ := piece_fresh st f c
    obtain ⟨m2, h2, d2, r2, lt2, v2⟩ := ih (piece .freshLoad st f c).1
    refine ⟨m1 ++ m2, ?_, ?_, ?_, ?_, ?_⟩
    · simp only [pieces]; rw [h2, h1, List.append_assoc]
    · simp only [pieces]; rw [d2, d1]
    · simp only [pieces]; rw [r2, r1]
    · intro id hid
      simp only [pieces, List.mem_cons] at hid ⊢
      rcases hid with rfl | hid
      · rw [h2]; simp only [List.length_append]; omega
      · exact lt2 id hid
    · simp only [pieces, List.map_cons]
      congr 1
      · rw [h2, getD_app_left _ _ _ _ lt1]; exact v1
      · rw [v2, d1]

/-- **a read returns the disk**: whatever the state (any heap contents, any earlier results, after any writes) -/
theorem read_faithful (st : St α) (fs : List Nat) (single : Bool) (c : Option Coords) :
    lastData (read .freshLoad st fs single c) = expected st.disk fs single c := by
  cases single with
  | true =>
    obtain ⟨m1, h1, d1, r1, _, lt1, v1⟩ := piece_fresh st (fs.headD 0) c
    simp only [read, lastData, dataOf, expected, if_true]
    simp only [List.length_append, List.length_singleton, Nat.add_sub_cancel]
    have : ((piece ImgSrc.freshLoad st (fs.headD 0) c).1.results ++ [(piece ImgSrc.freshLoad st (fs.headD 0) c).2]).getD
        (piece ImgSrc.freshLoad st (fs.headD 0) c).1.results.length
        (piece ImgSrc.freshLoad st (fs.headD 0) c).1.heap.length = (piece ImgSrc.freshLoad st (fs.headD 0) c).2 :=
      getD_app_len _ _ [] _
    rw [this]; exact v1
  | false =>
    obtain ⟨m2, h2, d2, r2, lt2, v2⟩ := pieces_fresh fs c st
    simp only [read, lastData, dataOf, expected, alloc, Bool.false_eq_true, if_false]
    simp only [List.length_append, List.length_singleton, Nat.add_sub_cancel]
    rw [getD_app_len _ _ [] _, getD_app_len _ _ [] _, v2]

/-- a read leaves every existing buffer and the earlier results alone, and hands out a NEW buffer -/
theorem read_fresh (st : St α) (fs : List Nat) (single : Bool) (c : Option Coords) :
    ∃ more id, (read .freshLoad st fs single c).heap = st.heap ++ more ∧
      (read .freshLoad st fs single c).results = st.results ++ [id] ∧
      (read .freshLoad st fs single c).disk = st.disk ∧
      st.heap.length ≤ id ∧ id < (read .freshLoad st fs single c).heap.length := by
  cases single with
  | true =>
    obtain ⟨m1, h1, d1, r1, ge1, lt1, _⟩ := piece_fresh st (fs.headD 0) c
    exact ⟨m1, (piece .freshLoad st (fs.headD 0) c).2, h1, by show _ ++ [_] = _; rw [r1], d1, ge1, lt1⟩
  | false =>
    obtain ⟨m2, h2, d2, r2, _, _⟩ := pieces_fresh fs c st
    refine ⟨m2 ++ [catT ((pieces .freshLoad st fs c).2.map fun id => (pieces .freshLoad st fs c).1.heap.getD id [])],
      (pieces .freshLoad st fs c).1.heap.length, ?_, ?_, ?_, ?_, ?_⟩
    · simp [read, alloc, h2]
    · simp [read, alloc, r2]
    · simp [read, alloc, d2]
    · rw [h2]; simp
    · simp [read, alloc]

/-- no operation writes the disk -/
theorem step_disk (st : St α) (op : Op α) : (step .freshLoad st op).disk = st.disk := by
  cases op with
  | read fs single c => obtain ⟨_, _, _, _, d, _⟩ := read_fresh st fs single c; exact d
  | write r b => simp only [step, write]; split <;> rfl

theorem run_disk (ops : List (Op α)) : ∀ st : St α, (run .freshLoad st ops).disk = st.disk := by
  induction ops with
  | nil => intro st; rfl
  | cons op ops ih => intro st; simp only [run, List.foldl_cons] at ih ⊢; rw [ih, step_disk]

/-- well-formed: every result lives in an existing buffer, and no two results in the same one -/
def WF (st : St α) : Prop := (∀ id ∈ st.results, id < st.heap.length) ∧ st.results.Nodup

theorem wf_init (disk : List (File α)) : WF (init disk) := by simp [WF, init]

theorem wf_step (st : St α) (h : WF st) (op : Op α) : WF (step .freshLoad st op) := by
  cases op with
  | read fs single c =>
    obtain ⟨more, id, hh, hr, _, ge, lt⟩ := read_fresh st fs single c
    simp only [step]
    refine ⟨?_, ?_⟩
    · intro j hj
      rw [hr, List.mem_append, List.mem_singleton] at hj
      rcases hj with hj | rfl
      · have := h.1 j hj; rw [hh]; simp only [List.length_append]; omega
      · exact lt
    · rw [hr]
      refine List.Nodup.append h.2 (List.nodup_singleton _) ?_
      intro a ha hb
      rw [List.mem_singleton] at hb
      have := h.1 a ha; omega
  | write r b =>
    simp only [step, write]
    split
    · exact h
    · exact ⟨by simpa using h.1, h.2⟩

theorem wf_run (ops : List (Op α)) : ∀ st : St α, WF st → WF (run .freshLoad st ops) := by
  induction ops with
  | nil => intro st h; exact h
  | cons op ops ih => intro st h; simp only [run, List.foldl_cons] at ih ⊢; exact ih _ (wf_step st h op)

/-- a series handed out earlier changes only through a write to itself -/
theorem live_stable (st : St α) (h : WF st) (op : Op α) (j : Nat) (hj : j < st.results.length)
    (hop : ∀ r b, op = .write r b → r ≠ j) : dataOf (step .freshLoad st op) j = dataOf st j := by
  have hidj : st.results.getD j st.heap.length = st.results[j] := by
    simp [List.getD_eq_getElem?_getD, List.getElem?_eq_getElem hj]
  have hlt : st.results[j] < st.heap.length := h.1 _ (List.getElem_mem hj)
  cases op with
  | read fs single c =>
    obtain ⟨more, id, hh, hr, _, _, _⟩ := read_fresh st fs single c
    simp only [step, dataOf]
    rw [hr, hh, getD_app_left _ _ _ _ hj]
    have e1 : st.results.getD j (st.heap ++ more).length = st.results[j] := by
      simp [List.getD_eq_getElem?_getD, List.getElem?_eq_getElem hj]
    rw [e1, hidj, getD_app_left _ _ _ _ hlt]
  | write r b =>
    have hne := hop r b rfl
    simp only [step, write, dataOf]
    cases hr : st.results[r]? with
    | none => rfl
    | some id =>
      simp only [List.length_set]
      rw [hidj]
      have hrl : r < st.results.length := by
        by_contra hc
        rw [List.getElem?_eq_none (by omega)] at hr; exact absurd hr (by simp)
      have hid : st.results[r] = id := by
        rw [List.getElem?_eq_getElem hrl] at hr; exact Option.some.inj hr
      have hdiff : id ≠ st.results[j] := by
        intro e
        apply hne
        exact (List.Nodup.getElem_inj_iff h.2).mp (hid.trans e)
      simp only [List.getD_eq_getElem?_getD]
      rw [List.getElem?_set_ne hdiff]

/-- a write through a result replaces that result's data -/
theorem write_own (st : St α) (h : WF st) (j : Nat) (hj : j < st.results.length) (b : Buf α) :
    dataOf (write st j b) j = b := by
  have hlt : st.results[j] < st.heap.length := h.1 _ (List.getElem_mem hj)
  simp only [write, dataOf, List.getElem?_eq_getElem hj]
  simp [List.getD_eq_getElem?_getD, List.getElem?_eq_getElem hj, hlt]

end Nitime.C15.Reader
