/-
C16 — routines that keep a module-level memo of what they computed, as a class (process histories, L2 / L6).

NOT a model of code that exists in the repository today (no routine of the registry keeps such a memo; the
generated table `Generated.C16Alias` proves that no routine hands out a module-level object:
`Props.C16.no_global_handed_out`).  This file states, for the CLASS of optimisation "remember the result for a key
(N, NW, Kmax …) and answer later calls from the memo", when such an implementation is indistinguishable from
recomputing — along EVERY history of calls and of in-place changes the caller makes to what it was handed:

* `memo_copy_out_refines`: if the memo hands out a COPY of its buffer, every call in every history returns the
  recomputed value (invariant: every remembered buffer still holds `f key` and was never handed out);
* `memo_hands_out_buffer_counterexample`: if it hands out its own buffer, `call k; caller overwrites; call k`
  answers with the overwritten values.
The harness's sandwich (all entry points; the caller overwrites every result; all entry points again on equal
arguments ⇒ equal results; results of different calls share no memory) tests exactly this on the real code.
Core Lean only.
-/
namespace Nitime.C16.Memo

/-- buffers by id -/
abbrev Heap := List (List Int)

def rd (h : Heap) (i : Nat) : List Int := (h[i]?).getD []

structure St where
  heap : Heap
  /-- key ↦ id of the remembered buffer -/
  memo : List (Nat × Nat)
  /-- ids the caller holds (it may overwrite these, and only these) -/
  out : List Nat

inductive Step where
  /-- the routine is called with a key -/
  | call (k : Nat)
  /-- the caller overwrites, in place, a buffer it was handed -/
  | scribble (id : Nat) (v : List Int)

def lookup (memo : List (Nat × Nat)) (k : Nat) : Option Nat := (memo.find? fun p => p.1 == k).map (·.2)

/-- one call: (new state, id handed to the caller).  `copyOut`: hand out a copy of the remembered buffer -/
def call (f : Nat → List Int) (copyOut : Bool) (s : St) (k : Nat) : St × Nat :=
  match lookup s.memo k with
  | some m =>
    if copyOut then (⟨s.heap ++ [rd s.heap m], s.memo, s.heap.length :: s.out⟩, s.heap.length)
    else (⟨s.heap, s.memo, m :: s.out⟩, m)
  | none =>
    if copyOut then
      (⟨s.heap ++ [f k] ++ [f k], (k, s.heap.length) :: s.memo, (s.heap.length + 1) :: s.out⟩, s.heap.length + 1)
    else (⟨s.heap ++ [f k], (k, s.heap.length) :: s.memo, s.heap.length :: s.out⟩, s.heap.length)

def scribble (s : St) (i : Nat) (v : List Int) : St :=
  if s.out.contains i then ⟨s.heap.set i v, s.memo, s.out⟩ else s

/-- what the caller sees at every call of a history -/
def run (f : Nat → List Int) (copyOut : Bool) : St → List Step → List (List Int)
  | _, [] => []
  | s, .call k :: h => rd (call f copyOut s k).1.heap (call f copyOut s k).2 :: run f copyOut (call f copyOut s k).1 h
  | s, .scribble i v :: h => run f copyOut (scribble s i v) h

/-- recomputing at every call -/
def spec (f : Nat → List Int) : List Step → List (List Int)
  | [] => []
  | .call k :: h => f k :: spec f h
  | .scribble _ _ :: h => spec f h

/-- every remembered buffer exists, holds the value of its key and is not in the caller's hands; the caller's ids exist -/
def Inv (f : Nat → List Int) (s : St) : Prop :=
  (∀ p ∈ s.memo, p.2 < s.heap.length ∧ rd s.heap p.2 = f p.1 ∧ p.2 ∉ s.out) ∧ (∀ i ∈ s.out, i < s.heap.length)

theorem rd_append_left (h t : Heap) (i : Nat) (hi : i < h.length) : rd (h ++ t) i = rd h i := by
  simp [rd, List.getElem?_append_left hi]

theorem rd_append_length (h : Heap) (x : List Int) : rd (h ++ [x]) h.length = x := by
  simp [rd]

theorem rd_set_ne (h : Heap) (i j : Nat) (v : List Int) (hij : i ≠ j) : rd (h.set i v) j = rd h j := by
  simp [rd, List.getElem?_set_ne hij]

theorem lookup_some {memo : List (Nat × Nat)} {k m : Nat} (h : lookup memo k = some m) : (k, m) ∈ memo := by
  unfold lookup at h
  cases hf : memo.find? (fun p => p.1 == k) with
  | none => simp [hf] at h
  | some p =>
    simp [hf] at h
    have h1 := List.find?_some hf
    have h2 := List.mem_of_find?_eq_some hf
    have : p = (k, m) := by
      cases p with
      | mk a b =>
        simp at h1 h
        simp [h1, h]
    exact this ▸ h2

theorem inv_call (f : Nat → List Int) (s : St) (k : Nat) (hI : Inv f s) :
    Inv f (call f true s k).1 ∧ rd (call f true s k).1.heap (call f true s k).2 = f k := by
  obtain ⟨hm, ho⟩ := hI
  unfold call
  cases hl : lookup s.memo k with
  | some m =>
    have hmem := lookup_some hl
    obtain ⟨hlt, hval, _⟩ := hm (k, m) hmem
    simp only [if_true]
    refine ⟨⟨?_, ?_⟩, ?_⟩
    · intro p hp
      obtain ⟨h1, h2, h3⟩ := hm p hp
      refine ⟨by simp; omega, by rw [rd_append_left _ _ _ h1]; exact h2, ?_⟩
      intro hc
      rcases List.mem_cons.mp hc with h | h
      · omega
      · exact h3 h
    · intro i hi
      rcases List.mem_cons.mp hi with h | h
      · simp [h]
      · have := ho i h
        simp; omega
    · show rd (s.heap ++ [rd s.heap m]) s.heap.length = f k
      rw [rd_append_length]; exact hval
  | none =>
    simp only [if_true]
    refine ⟨⟨?_, ?_⟩, ?_⟩
    · intro p hp
      rcases List.mem_cons.mp hp with h | h
      · subst h
        refine ⟨by simp, ?_, ?_⟩
        · show rd (s.heap ++ [f k] ++ [f k]) s.heap.length = f k
          rw [rd_append_left _ _ _ (by simp), rd_append_length]
        · intro hc
          rcases List.mem_cons.mp hc with h | h
          · simp at h
          · have := ho _ h
            simp at this
      · obtain ⟨h1, h2, h3⟩ := hm p h
        refine ⟨by simp; omega, ?_, ?_⟩
        · rw [List.append_assoc, rd_append_left _ _ _ h1]; exact h2
        · intro hc
          rcases List.mem_cons.mp hc with h | h
          · omega
          · exact h3 h
    · intro i hi
      rcases List.mem_cons.mp hi with h | h
      · simp [h]
      · have := ho i h
        simp; omega
    · show rd (s.heap ++ [f k] ++ [f k]) (s.heap.length + 1) = f k
      have : (s.heap ++ [f k]).length = s.heap.length + 1 := by simp
      rw [← this, rd_append_length]

theorem inv_scribble (f : Nat → List Int) (s : St) (i : Nat) (v : List Int) (hI : Inv f s) : Inv f (scribble s i v) := by
  obtain ⟨hm, ho⟩ := hI
  unfold scribble
  by_cases hc : s.out.contains i = true
  · simp only [hc, if_true]
    have hin : i ∈ s.out := by simpa using hc
    refine ⟨?_, ?_⟩
    · intro p hp
      obtain ⟨h1, h2, h3⟩ := hm p hp
      have hne : i ≠ p.2 := fun h => h3 (h ▸ hin)
      exact ⟨by simpa using h1, by rw [rd_set_ne _ _ _ _ hne]; exact h2, h3⟩
    · intro j hj
      simpa using ho j hj
  · simp only [hc]
    exact ⟨hm, ho⟩

/-- **a memo that hands out copies is indistinguishable from recomputing**, along every history of calls and of
in-place changes the caller makes to the buffers it was handed -/
theorem memo_copy_out_refines (f : Nat → List Int) (s : St) (hI : Inv f s) (h : List Step) :
    run f true s h = spec f h := by
  induction h generalizing s with
  | nil => rfl
  | cons st h ih =>
    cases st with
    | call k =>
      simp only [run, spec]
      rw [(inv_call f s k hI).2, ih _ (inv_call f s k hI).1]
    | scribble i v =>
      simp only [run, spec]
      exact ih _ (inv_scribble f s i v hI)

theorem inv_empty (f : Nat → List Int) : Inv f ⟨[], [], []⟩ := by
  constructor <;> intro _ h <;> cases h

/-- from the empty memo: every call of every history returns the recomputed value -/
theorem memo_copy_out_from_start (f : Nat → List Int) (h : List Step) : run f true ⟨[], [], []⟩ h = spec f h :=
  memo_copy_out_refines f _ (inv_empty f) h

/-- a memo that hands out its own buffer: the caller's overwrite reaches the memo, the next call answers with it -/
theorem memo_hands_out_buffer_counterexample :
    run (fun k => [Int.ofNat k, 1]) false ⟨[], [], []⟩ [.call 3, .scribble 0 [9, 9], .call 3] = [[3, 1], [9, 9]] ∧
    spec (fun k => [Int.ofNat k, 1]) [.call 3, .scribble 0 [9, 9], .call 3] = [[3, 1], [3, 1]] ∧
    run (fun k => [Int.ofNat k, 1]) true ⟨[], [], []⟩ [.call 3, .scribble 1 [9, 9], .call 3] = [[3, 1], [3, 1]] := by
  decide

end Nitime.C16.Memo
