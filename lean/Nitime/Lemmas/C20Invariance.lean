/-
C20 (round 4, class L10) — the Pearson coefficient of the model (`seedCorrcoef1` ↔
`algorithms.seed_corrcoef`, `corrcoef1` ↔ `np.corrcoef`) and the z-score are invariant under
additive baselines and positive gains, over ℝ; and the ONE-PASS (raw-moment) formula

    xy = Σ t·(s − mean s),  xx = Σ t² − n·(mean t)²,  yy = Σ (s − mean s)²

is THE SAME REAL FUNCTION as the model's two-pass text (`pearson_one_pass_eq_two_pass`).  Consequence for the
check: a rewrite of `seed_corrcoef` into the one-pass form (seeded change C20-15) cannot be seen by
any theorem over ℝ — the two texts differ only in binary64, where `Σ t² − n·mean²` cancels
catastrophically for data on a large baseline (relative error of `xx` ≈ eps·(mean/σ)²).  Only the
correspondence (implementation vs the `Float` run of the two-pass text) and the oracle (exact
rational arithmetic) can see it; both are run on baselines 2^10 … 2^30 with ±1 … ±3 fluctuations.
-/
import Nitime.Lemmas.C20Real

namespace Nitime.C20
open Finset Nitime.Ev

/-- `nth` commutes with a map that fixes 0 (also outside the list) -/
theorem nth_map_zero (x : List ℝ) (g : ℝ → ℝ) (hg : g 0 = 0) (i : ℕ) :
    nth (x.map g) i = g (nth x i) := by
  by_cases h : i < x.length
  · exact nth_map g h
  · have h' : x.length ≤ i := Nat.le_of_not_lt h
    simp [nth, List.getD_eq_getElem?_getD, h', hg]

theorem length_ne_zero_of_ne_nil {x : List ℝ} (h : x ≠ []) : (x.length : ℝ) ≠ 0 := by
  have : x.length ≠ 0 := fun h0 => h (List.length_eq_zero_iff.mp h0)
  exact_mod_cast this

theorem mean_shift (x : List ℝ) (c : ℝ) (h : x ≠ []) : mean (x.map (· + c)) = mean x + c := by
  have hl := length_ne_zero_of_ne_nil h
  have hs : ∀ l : List ℝ, (l.map (· + c)).sum = l.sum + l.length * c := by
    intro l
    induction l with
    | nil => simp
    | cons a l ih => simp [ih]; ring
  rw [mean_eq, mean_eq, hs, List.length_map]
  field_simp

theorem mean_scale (x : List ℝ) (a : ℝ) : mean (x.map (a * ·)) = a * mean x := by
  have hs : ∀ l : List ℝ, (l.map (a * ·)).sum = a * l.sum := by
    intro l
    induction l with
    | nil => simp
    | cons b l ih => simp [ih]; ring
  rw [mean_eq, mean_eq, hs, List.length_map]
  ring

/-- the deviations from the mean do not see an additive baseline -/
theorem removeBias_shift (x : List ℝ) (c : ℝ) : removeBias (x.map (· + c)) = removeBias x := by
  by_cases h : x = []
  · subst h; simp [removeBias]
  · rw [removeBias_eq, removeBias_eq, mean_shift x c h, List.map_map]
    apply List.map_congr_left
    intro v _
    simp

/-- the deviations from the mean scale with the data -/
theorem removeBias_scale (x : List ℝ) (a : ℝ) :
    removeBias (x.map (a * ·)) = (removeBias x).map (a * ·) := by
  rw [removeBias_eq, removeBias_eq, mean_scale, List.map_map, List.map_map]
  apply List.map_congr_left
  intro v _
  simp only [Function.comp]
  ring

theorem dot_scale (x y : List ℝ) (a b : ℝ) :
    dot (x.map (a * ·)) (y.map (b * ·)) = a * b * dot x y := by
  simp only [dot, sumRange_eq_r, r_mul, List.length_map, Finset.mul_sum]
  apply Finset.sum_congr rfl
  intro i _
  rw [nth_map_zero x (a * ·) (by simp), nth_map_zero y (b * ·) (by simp)]
  ring

/-- **Shift invariance of the Pearson coefficient** (the model of `seed_corrcoef`): additive
baselines on the seed and on the target do not change it -/
theorem seedCorrcoef1_shift (seed target : List ℝ) (c d : ℝ) :
    seedCorrcoef1 (seed.map (· + c)) (target.map (· + d)) = seedCorrcoef1 seed target := by
  simp only [seedCorrcoef1, removeBias_shift]

/-- **Scale invariance**: positive gains on the seed and on the target do not change it -/
theorem seedCorrcoef1_scale (seed target : List ℝ) {a b : ℝ} (ha : 0 < a) (hb : 0 < b) :
    seedCorrcoef1 (seed.map (a * ·)) (target.map (b * ·)) = seedCorrcoef1 seed target := by
  simp only [seedCorrcoef1, removeBias_scale, dot_scale, r_div, r_mul, r_sqrt]
  rw [Real.sqrt_mul (mul_self_nonneg b), Real.sqrt_mul_self hb.le,
    Real.sqrt_mul (mul_self_nonneg a), Real.sqrt_mul_self ha.le]
  have hab : b * a ≠ 0 := mul_ne_zero hb.ne' ha.ne'
  rw [show b * Real.sqrt (dot (removeBias target) (removeBias target))
        * (a * Real.sqrt (dot (removeBias seed) (removeBias seed)))
      = b * a * (Real.sqrt (dot (removeBias target) (removeBias target))
        * Real.sqrt (dot (removeBias seed) (removeBias seed))) by ring]
  exact mul_div_mul_left _ _ hab

/-- a gain of opposite sign on one argument flips the sign -/
theorem seedCorrcoef1_neg (seed target : List ℝ) :
    seedCorrcoef1 seed (target.map (fun v => (-1) * v)) = - seedCorrcoef1 seed target := by
  have h1 : (removeBias seed) = (removeBias seed).map ((1 : ℝ) * ·) := by simp
  simp only [seedCorrcoef1, removeBias_scale, r_div, r_mul, r_sqrt]
  rw [show dot (List.map (fun x => -1 * x) (removeBias target)) (removeBias seed)
        = dot (List.map ((-1 : ℝ) * ·) (removeBias target)) ((removeBias seed).map ((1 : ℝ) * ·)) by
      rw [← h1], dot_scale, dot_scale]
  simp only [mul_one, mul_neg, neg_mul, neg_neg, one_mul]
  rw [neg_div]

/-! ### z-score -/

theorem variance_shift (x : List ℝ) (c : ℝ) : variance (x.map (· + c)) = variance x := by
  simp only [variance, removeBias_shift]

/-- the z-score does not see an additive baseline -/
theorem zscore1_shift (x : List ℝ) (c : ℝ) : zscore1 (x.map (· + c)) = zscore1 x := by
  simp only [zscore1, removeBias_shift, variance_shift]

/-! ### the one-pass (raw-moment) text -/

/-- the raw-moment rewrite of `seed_corrcoef` (NOT the code; the text of seeded change C20-15):
the target is never demeaned -/
noncomputable def seedCorrcoefOnePass1 (seed target : List ℝ) : ℝ :=
  let y := removeBias seed
  let yy := dot y y
  let xy := dot target y
  let xx := dot target target - (target.length : ℝ) * mean target * mean target
  xy / (Real.sqrt xx * Real.sqrt yy)

theorem sum_nth_removeBias (y : List ℝ) : ∑ i ∈ range y.length, nth (removeBias y) i = 0 := by
  have := sum_nth_eq (removeBias y)
  rw [length_removeBias] at this
  rw [this, sum_removeBias]

theorem nth_removeBias {x : List ℝ} {i : ℕ} (h : i < x.length) :
    nth (removeBias x) i = nth x i - mean x := by
  rw [removeBias_eq]; exact nth_map _ h

/-- the target mean drops out of the cross product because the demeaned seed sums to zero -/
theorem dot_removeBias_left (seed target : List ℝ) (h : seed.length = target.length) :
    dot (removeBias target) (removeBias seed) = dot target (removeBias seed) := by
  simp only [dot, sumRange_eq_r, r_mul, length_removeBias]
  have h0 := sum_nth_removeBias seed
  rw [h] at h0
  have : ∑ i ∈ range target.length, nth (removeBias target) i * nth (removeBias seed) i
      = ∑ i ∈ range target.length, nth target i * nth (removeBias seed) i
        - mean target * ∑ i ∈ range target.length, nth (removeBias seed) i := by
    rw [Finset.mul_sum, ← Finset.sum_sub_distrib]
    apply Finset.sum_congr rfl
    intro i hi
    rw [nth_removeBias (mem_range.mp hi)]
    ring
  rw [this, h0]; ring

/-- the centred sum of squares equals the raw sum of squares less `n·mean²` -/
theorem dot_removeBias_self (t : List ℝ) :
    dot (removeBias t) (removeBias t) = dot t t - (t.length : ℝ) * mean t * mean t := by
  by_cases hnil : t = []
  · subst hnil; simp [dot, removeBias, sumRange_eq_r]
  have hl := length_ne_zero_of_ne_nil hnil
  simp only [dot, sumRange_eq_r, r_mul, length_removeBias]
  have hsum : ∑ i ∈ range t.length, nth t i = (t.length : ℝ) * mean t := by
    rw [sum_nth_eq, mean_eq]; field_simp
  have : ∑ i ∈ range t.length, nth (removeBias t) i * nth (removeBias t) i
      = ∑ i ∈ range t.length, nth t i * nth t i
        - 2 * mean t * ∑ i ∈ range t.length, nth t i
        + (t.length : ℝ) * (mean t * mean t) := by
    rw [Finset.mul_sum, ← Finset.sum_sub_distrib]
    have hc : (t.length : ℝ) * (mean t * mean t) = ∑ _i ∈ range t.length, mean t * mean t := by
      simp
    rw [hc, ← Finset.sum_add_distrib]
    apply Finset.sum_congr rfl
    intro i hi
    rw [nth_removeBias (mem_range.mp hi)]
    ring
  rw [this, hsum]; ring

/-- **The one-pass formula is the same real function as the model's two-pass text.** -/
theorem seedCorrcoefOnePass1_eq (seed target : List ℝ) (h : seed.length = target.length) :
    seedCorrcoefOnePass1 seed target = seedCorrcoef1 seed target := by
  simp only [seedCorrcoefOnePass1, seedCorrcoef1, r_div, r_mul, r_sqrt]
  rw [dot_removeBias_left seed target h, dot_removeBias_self target]

end Nitime.C20
