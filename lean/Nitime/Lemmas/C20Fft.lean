/-
C20 — the convolution theorem for the model of `utils.fftconvolve`
(`Nitime.C20.fftconvolveL` / `fftconvolve` / `crosscovFftCore`, ℂ instance of the model text):
with a primitive `L`-th root of unity as twiddle factor and any FFT length
`L ≥ len(a) + len(b) - 1`, `ifft(fft(a, L)·fft(b, L))[:size]` is the direct linear convolution
`convFull a b`.  Proof: the product of the two DFTs is the DFT of the Cauchy product (no
wrap-around because the padded length is large enough), then DFT inversion from the
orthogonality of the powers of a primitive root (`Lemmas/Parseval.lean`, `root_orth`).
-/
import Nitime.Model.C20
import Nitime.Lemmas.EvInst
import Nitime.Lemmas.Parseval
import Nitime.Lemmas.C20Corr
import Nitime.Lemmas.C20Spectrum

namespace Nitime.C20
open Finset Complex ComplexConjugate Nitime.Ev

/-- DFT inversion: `Σ_k (Σ_j c_j ζ^{jk}) ζ^{-tk} = L·c_t` -/
theorem idft_dft {L : ℕ} (hL : 0 < L) {ζ : ℂ} (hζ : IsPrimitiveRoot ζ L) (c : ℕ → ℂ) {t : ℕ}
    (ht : t < L) :
    ∑ k ∈ range L, (∑ j ∈ range L, c j * ζ ^ (j * k)) * ζ⁻¹ ^ (t * k) = L * c t := by
  simp_rw [sum_mul]
  rw [sum_comm]
  have : ∀ j ∈ range L, ∑ k ∈ range L, c j * ζ ^ (j * k) * ζ⁻¹ ^ (t * k)
      = c j * (if j = t then (L : ℂ) else 0) := by
    intro j hj
    rw [← root_orth hL hζ (mem_range.1 hj) ht, mul_sum]
    refine sum_congr rfl fun k _ => by ring
  rw [sum_congr rfl this]
  simp only [mul_ite, mul_zero, sum_ite_eq', mem_range, ht, if_true]
  ring

/-- product of two length-`L` "polynomial evaluations" = evaluation of the Cauchy product, when no
pair of non-zero coefficients reaches degree `L` -/
theorem dft_mul_dft {L : ℕ} (α β : ℕ → ℂ)
    (H : ∀ i j, i < L → j < L → L ≤ i + j → α i * β j = 0) (x : ℂ) :
    (∑ i ∈ range L, α i * x ^ i) * (∑ j ∈ range L, β j * x ^ j)
      = ∑ t ∈ range L, (∑ i ∈ range (t + 1), α i * β (t - i)) * x ^ t := by
  rw [sum_mul_sum]
  have hR : ∀ t ∈ range L, (∑ i ∈ range (t + 1), α i * β (t - i)) * x ^ t
      = ∑ i ∈ range (t + 1), (fun i j => α i * β j * x ^ (i + j)) i (t - i) := by
    intro t _
    rw [sum_mul]
    refine sum_congr rfl fun i hi => ?_
    have := mem_range.mp hi
    simp only
    rw [Nat.add_sub_cancel' (by omega)]
  rw [sum_congr rfl hR, sum_range_diag_flip L (fun i j => α i * β j * x ^ (i + j))]
  refine sum_congr rfl fun i hi => ?_
  have hi' := mem_range.mp hi
  have h1 : ∑ j ∈ range (L - i), α i * β j * x ^ (i + j)
      = ∑ j ∈ range L, α i * β j * x ^ (i + j) := by
    apply sum_subset (range_mono (Nat.sub_le L i))
    intro j hj hnj
    have hj' := mem_range.mp hj
    have : L ≤ i + j := by
      simp only [mem_range, not_lt] at hnj
      omega
    rw [H i j hi' hj' this, zero_mul]
  rw [h1]
  refine sum_congr rfl fun j _ => by rw [pow_add]; ring

theorem nth_beyond (l : List ℂ) {i : ℕ} (h : l.length ≤ i) : nth l i = 0 := by
  simp [nth, List.getD_eq_getElem?_getD, List.getElem?_eq_none h]

/-- entry `t` of the direct linear convolution as a Cauchy product -/
theorem nth_convFull (a b : List ℂ) {t : ℕ} (ht : t < a.length + b.length - 1) :
    nth (convFull a b) t = ∑ i ∈ range (t + 1), nth a i * nth b (t - i) := by
  unfold convFull
  rw [nth_tabulate _ ht, sumRange_eq_c]
  have h1 : ∀ j ∈ range a.length,
      (if j ≤ t ∧ t - j < b.length then Scalar.mul (nth a j) (nth b (t - j)) else (zero : ℂ))
        = if j ≤ t then nth a j * nth b (t - j) else 0 := by
    intro j _
    by_cases h : j ≤ t
    · by_cases h2 : t - j < b.length
      · simp [h, h2]
      · simp [h, h2, nth_beyond b (i := t - j) (by omega)]
    · simp [h]
  rw [sum_congr rfl h1, ← sum_filter]
  have h2 : ∀ i ∈ range (t + 1), nth a i * nth b (t - i)
      = if i < a.length then nth a i * nth b (t - i) else 0 := by
    intro i _
    by_cases h : i < a.length
    · simp [h]
    · simp [h, nth_beyond a (i := i) (by omega)]
  rw [sum_congr rfl h2, ← sum_filter]
  congr 1
  ext j
  simp only [mem_filter, mem_range]
  omega

theorem nth_padTo (L : ℕ) (a : List ℂ) {j : ℕ} (hj : j < L) : nth (padTo L a) j = nth a j :=
  nth_tabulate _ hj

/-- the model's `fft(a, L)` with the twiddle table `m ↦ ζ^m` -/
theorem nth_dftL {L : ℕ} {ζ : ℂ} (hζ1 : ζ ^ L = 1) (a : List ℂ) {k : ℕ} (hk : k < L) :
    nth (dftL (fun m => ζ ^ m) L a) k = ∑ j ∈ range L, nth a j * (ζ ^ k) ^ j := by
  unfold dftL
  simp only
  rw [nth_tabulate _ hk, sumRange_eq_c]
  refine sum_congr rfl fun j hj => ?_
  rw [nth_padTo L a (mem_range.mp hj), c_mul, pow_mod_of_pow_eq_one hζ1, mul_comm j k, pow_mul]

/-- `ifft(fft(a, L) * fft(b, L))` entry `t` is the Cauchy product -/
theorem nth_idft_prod {L : ℕ} (hL : 0 < L) {ζ : ℂ} (hζ : IsPrimitiveRoot ζ L) (hc : conj ζ = ζ⁻¹)
    (a b : List ℂ) (hS : a.length + b.length - 1 ≤ L) {t : ℕ} (ht : t < L) :
    nth (idftL (fun m => ζ ^ m) L (tabulate L fun k =>
        Scalar.mul (nth (dftL (fun m => ζ ^ m) L a) k) (nth (dftL (fun m => ζ ^ m) L b) k))) t
      = ∑ i ∈ range (t + 1), nth a i * nth b (t - i) := by
  have hζ1 := hζ.pow_eq_one
  have H : ∀ i j, i < L → j < L → L ≤ i + j → nth a i * nth b j = 0 := by
    intro i j _ _ hij
    by_cases hi : i < a.length
    · have : b.length ≤ j := by omega
      rw [nth_beyond b this, mul_zero]
    · rw [nth_beyond a (by omega), zero_mul]
  unfold idftL
  rw [nth_tabulate _ ht, c_div, sumRange_eq_c]
  have hterm : ∀ k ∈ range L,
      Scalar.mul (nth (tabulate L fun k =>
          Scalar.mul (nth (dftL (fun m => ζ ^ m) L a) k) (nth (dftL (fun m => ζ ^ m) L b) k)) k)
        (Scalar.conj (ζ ^ ((t * k) % L)))
      = (∑ s ∈ range L, (∑ i ∈ range (s + 1), nth a i * nth b (s - i)) * ζ ^ (s * k))
          * ζ⁻¹ ^ (t * k) := by
    intro k hk
    have hk' := mem_range.mp hk
    rw [nth_tabulate _ hk', c_mul, c_mul, nth_dftL hζ1 a hk', nth_dftL hζ1 b hk',
      dft_mul_dft _ _ H (ζ ^ k), c_conj, pow_mod_of_pow_eq_one hζ1, map_pow, hc]
    congr 1
    refine sum_congr rfl fun s _ => by rw [← pow_mul, mul_comm k s]
  rw [sum_congr rfl hterm, idft_dft hL hζ _ ht, c_ofNat]
  have : (L : ℂ) ≠ 0 := by exact_mod_cast hL.ne'
  field_simp

theorem nth_take (l : List ℂ) {n t : ℕ} (ht : t < n) : nth (l.take n) t = nth l t := by
  simp [nth, List.getD_eq_getElem?_getD, ht]

/-- entries of `nth` of a list of real (self-conjugate) numbers are real -/
theorem conj_nth {l : List ℂ} (h : ∀ v ∈ l, conj v = v) (i : ℕ) : conj (nth l i) = nth l i := by
  by_cases hi : i < l.length
  · rw [nth_eq_getElem l hi]; exact h _ (List.getElem_mem hi)
  · rw [nth_beyond l (by omega), map_zero]

/-- the linear convolution of two real sequences is real -/
theorem conj_convFull {a b : List ℂ} (ha : ∀ v ∈ a, conj v = v) (hb : ∀ v ∈ b, conj v = v) :
    ∀ v ∈ convFull a b, conj v = v := by
  intro v hv
  unfold convFull tabulate at hv
  obtain ⟨t, _, rfl⟩ := List.mem_map.mp hv
  rw [sumRange_eq_c, map_sum]
  refine sum_congr rfl fun j _ => ?_
  split_ifs
  · rw [c_mul, map_mul, conj_nth ha, conj_nth hb]
  · simp

theorem realPart_of_real {v : ℂ} (h : conj v = v) : realPart v = v := by
  unfold realPart
  rw [c_div, c_add, c_conj, h, c_ofNat]
  push_cast
  ring

/-- **convolution theorem** for the model of `utils.fftconvolve`: any FFT length
`L ≥ len(a)+len(b)-1`, any primitive `L`-th root with `conj ζ = ζ⁻¹` as twiddle factor; the real
part is taken only when both inputs are real -/
theorem fftconvolveL_eq_convFull {L : ℕ} (hL : 0 < L) {ζ : ℂ} (hζ : IsPrimitiveRoot ζ L)
    (hc : conj ζ = ζ⁻¹) (cr : Bool) (a b : List ℂ) (hS : a.length + b.length - 1 ≤ L)
    (hreal : cr = false → (∀ v ∈ a, conj v = v) ∧ (∀ v ∈ b, conj v = v)) :
    fftconvolveL (fun m => ζ ^ m) L cr a b = convFull a b := by
  have hret : (idftL (fun m => ζ ^ m) L (tabulate L fun k =>
        Scalar.mul (nth (dftL (fun m => ζ ^ m) L a) k) (nth (dftL (fun m => ζ ^ m) L b) k))).take
        (a.length + b.length - 1) = convFull a b := by
    apply ext_nth
    · rw [length_convFull, List.length_take, idftL, length_tabulate]; omega
    · intro t ht
      have ht' : t < a.length + b.length - 1 := by
        rw [List.length_take, idftL, length_tabulate] at ht; omega
      rw [nth_take _ ht', nth_idft_prod hL hζ hc a b hS (by omega), nth_convFull a b ht']
  unfold fftconvolveL
  simp only [hret]
  cases cr
  · obtain ⟨ha, hb⟩ := hreal rfl
    simp only [Bool.false_eq_true, if_false]
    conv_rhs => rw [← List.map_id (convFull a b)]
    exact List.map_congr_left fun v hv => realPart_of_real (conj_convFull ha hb v hv)
  · simp

theorem le_fftSize (s : ℕ) : s ≤ fftSize s := by
  unfold fftSize
  split_ifs with h
  · exact h
  · have := Nat.lt_log2_self (n := s - 1)
    omega

theorem fftSize_pos (s : ℕ) : 0 < fftSize s := by
  unfold fftSize
  split_ifs
  · exact Nat.one_pos
  · exact Nat.two_pow_pos _

/-- the twiddle table of the code's FFT: `tw L m = e^{-2πi m/L}` -/
noncomputable def twTable (L m : ℕ) : ℂ := twiddle L ^ m

/-- `utils.fftconvolve(a, b, mode='full')` (power-of-two FFT length chosen by the code) is the
direct linear convolution -/
theorem fftconvolve_eq_convFull (cr : Bool) (a b : List ℂ)
    (hreal : cr = false → (∀ v ∈ a, conj v = v) ∧ (∀ v ∈ b, conj v = v)) :
    fftconvolve twTable cr a b = convFull a b := by
  unfold fftconvolve
  have hpos := fftSize_pos (a.length + b.length - 1)
  exact fftconvolveL_eq_convFull hpos (twiddle_primitive hpos.ne') (twiddle_conj hpos.ne') cr a b
    (le_fftSize _) hreal

/-! ### the covariance family through the FFT path -/

theorem conj_mean {x : List ℂ} (h : ∀ v ∈ x, conj v = v) : conj (mean x) = mean x := by
  unfold mean
  rw [c_div, sumRange_eq_c, c_ofNat, map_div₀, map_sum, map_natCast]
  congr 1
  exact sum_congr rfl fun i _ => conj_nth h i

theorem real_removeBias {x : List ℂ} (h : ∀ v ∈ x, conj v = v) :
    ∀ v ∈ removeBias x, conj v = v := by
  intro v hv
  unfold removeBias at hv
  obtain ⟨w, hw, rfl⟩ := List.mem_map.mp hv
  rw [c_sub, map_sub, h w hw, conj_mean h]

theorem real_pre {x : List ℂ} (h : ∀ v ∈ x, conj v = v) (db : Bool) :
    ∀ v ∈ (if db = true then removeBias x else x), conj v = v := by
  cases db
  · simpa using h
  · simpa using real_removeBias h

theorem real_reverse_conj {y : List ℂ} (h : ∀ v ∈ y, conj v = v) :
    ∀ v ∈ y.reverse.map (Scalar.conj : ℂ → ℂ), conj v = v := by
  intro v hv
  obtain ⟨w, hw, rfl⟩ := List.mem_map.mp hv
  rw [c_conj, Complex.conj_conj]
  exact (h w (List.mem_reverse.mp hw)).symm

/-- `crosscov` through `fftconvolve` = `crosscov` with the direct linear convolution -/
theorem crosscovFft_eq (cr : Bool) (x y : List ℂ) (al db nm : Bool)
    (hreal : cr = false → (∀ v ∈ x, conj v = v) ∧ (∀ v ∈ y, conj v = v)) :
    crosscovFftCore twTable cr x y al db nm = crosscovCore x y al db nm := by
  have h := fftconvolve_eq_convFull cr (if db = true then removeBias x else x)
    ((if db = true then removeBias y else y).reverse.map Scalar.conj) (fun hcr =>
      ⟨real_pre (hreal hcr).1 db, real_reverse_conj (real_pre (hreal hcr).2 db)⟩)
  unfold crosscovFftCore crosscovCore
  simp only [h]

theorem autocovFft_eq (cr : Bool) (x : List ℂ) (al db nm : Bool)
    (hreal : cr = false → ∀ v ∈ x, conj v = v) :
    autocovFft1 twTable cr x al db nm = autocov1 x al db nm := by
  unfold autocovFft1 autocov1
  exact crosscovFft_eq cr _ _ al false nm fun hcr =>
    ⟨real_pre (hreal hcr) db, real_pre (hreal hcr) db⟩

end Nitime.C20
