/-
C20 — the analyzer object model (`AState`): every read returns what a fresh analyzer computes
from the input, whatever was read before, and never changes the input.
-/
import Nitime.Model.C20

namespace Nitime.C20
open Nitime.Ev
variable {K : Type} [RScalar K]

/-- every cache is empty or holds the value computed from the input -/
def AState.Inv (var : Variant) (s : AState K) : Prop :=
  (s.raw = none ∨ s.raw = some (xcorrFill var s.data)) ∧
  (s.norm = none ∨ s.norm = some (xcorrNormFill var s.data)) ∧
  (s.cc = none ∨ s.cc = some (corrcoefMatrix s.data))

theorem AState.inv_fresh (var : Variant) (data : List (List K)) : (AState.fresh data).Inv var :=
  ⟨Or.inl rfl, Or.inl rfl, Or.inl rfl⟩

theorem AState.readCc_spec (var : Variant) (s : AState K) (h : s.Inv var) :
    s.readCc.1 = corrcoefMatrix s.data ∧ s.readCc.2.Inv var ∧ s.readCc.2.data = s.data := by
  obtain ⟨h1, h2, h3⟩ := h
  unfold AState.readCc
  rcases h3 with h3 | h3
  · rw [h3]; exact ⟨rfl, ⟨h1, h2, Or.inr rfl⟩, rfl⟩
  · rw [h3]; exact ⟨rfl, ⟨h1, h2, Or.inr h3⟩, rfl⟩

theorem AState.read_spec (var : Variant) (s : AState K) (h : s.Inv var) (o : Out) :
    (s.read var o).1 = compute var s.data o ∧ (s.read var o).2.Inv var ∧
    (s.read var o).2.data = s.data := by
  cases o with
  | cc =>
    obtain ⟨a, b, c⟩ := AState.readCc_spec var s h
    simp only [AState.read, compute]
    exact ⟨by rw [a], b, c⟩
  | raw =>
    obtain ⟨h1, h2, h3⟩ := h
    simp only [AState.read, compute]
    rcases h1 with h1 | h1
    · rw [h1]; exact ⟨rfl, ⟨Or.inr rfl, h2, h3⟩, rfl⟩
    · rw [h1]; exact ⟨rfl, ⟨Or.inr h1, h2, h3⟩, rfl⟩
  | norm =>
    obtain ⟨a, b, c⟩ := AState.readCc_spec var s h
    have h' := h
    obtain ⟨h1, h2, h3⟩ := h
    simp only [AState.read, compute]
    rcases h2 with h2 | h2
    · rw [h2]
      obtain ⟨b1, b2, b3⟩ := b
      refine ⟨by simp only [c], ⟨?_, Or.inr rfl, ?_⟩, c⟩
      · simpa using b1
      · simpa using b3
    · rw [h2]; exact ⟨rfl, h', rfl⟩

theorem AState.reads_spec (var : Variant) (os : List Out) :
    ∀ (s : AState K), s.Inv var →
      (s.reads var os).1 = os.map (compute var s.data) ∧ (s.reads var os).2.Inv var ∧
      (s.reads var os).2.data = s.data := by
  induction os with
  | nil => intro s h; exact ⟨rfl, h, rfl⟩
  | cons o os ih =>
    intro s h
    obtain ⟨a, b, c⟩ := AState.read_spec var s h o
    obtain ⟨a', b', c'⟩ := ih (s.read var o).2 b
    simp only [AState.reads, List.map_cons]
    refine ⟨?_, b', c'.trans c⟩
    rw [a', a, c]

end Nitime.C20
