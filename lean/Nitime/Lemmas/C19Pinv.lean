/-
C19 helper lemmas at the level of `Matrix` over an ordered field (instantiated at ℚ — the instance the
driver runs — and at ℝ — where numpy/LAPACK's `pinv` lives):

`algorithms.fir` computes `pinv(XᵀX) · Xᵀ · y`.  A Moore–Penrose pseudo-inverse is characterised by the
four Penrose equations (`IsPenrose`).  If `X` has full column rank (`X.mulVec` injective) then `XᵀX` is
invertible, EVERY matrix satisfying the first Penrose equation alone is the ordinary inverse, and
`pinv(XᵀX) Xᵀ y` is THE solution of the normal equations; in particular it returns `h` for `y = X h`, it
is additive and homogeneous in `y` (for every factor `a`, however small: no amplitude threshold).
-/
import Mathlib.LinearAlgebra.Matrix.NonsingularInverse
import Mathlib.LinearAlgebra.Matrix.DotProduct
import Mathlib.Data.Real.Basic
import Mathlib.Algebra.Order.Field.Rat

set_option linter.unusedSectionVars false

namespace Nitime.C19.Pinv
open Matrix

variable {m n : Type*} [Fintype m] [Fintype n] [DecidableEq n]
variable {K : Type*} [Field K] [LinearOrder K] [IsStrictOrderedRing K]

/-- the four Penrose equations (real-symmetric form): `P` is a Moore–Penrose pseudo-inverse of `A` -/
structure IsPenrose {m n : Type*} [Fintype m] [Fintype n] (A : Matrix m n K) (P : Matrix n m K) : Prop where
  apa : A * P * A = A
  pap : P * A * P = P
  ap_symm : (A * P)ᵀ = A * P
  pa_symm : (P * A)ᵀ = P * A

/-- `XᵀX v = 0 ⇒ X v = 0` (‖Xv‖² = vᵀXᵀXv), so full column rank of `X` makes `XᵀX` injective -/
theorem gram_mulVec_injective (X : Matrix m n K) (hX : Function.Injective X.mulVec) :
    Function.Injective (Xᵀ * X).mulVec := by
  intro v w hvw
  apply hX
  have h0 : (Xᵀ * X) *ᵥ (v - w) = 0 := by rw [mulVec_sub, hvw, sub_self]
  have h1 : X *ᵥ (v - w) = 0 := by
    have h := congr_arg (dotProduct (v - w)) h0
    rwa [← mulVec_mulVec, dotProduct_mulVec, dotProduct_zero, vecMul_transpose,
      dotProduct_self_eq_zero] at h
  rw [mulVec_sub] at h1
  exact sub_eq_zero.mp h1

/-- full column rank ⇒ the Gram matrix `XᵀX` is invertible -/
theorem gram_isUnit_det (X : Matrix m n K) (hX : Function.Injective X.mulVec) :
    IsUnit (Xᵀ * X).det :=
  (isUnit_iff_isUnit_det _).mp (mulVec_injective_iff_isUnit.mp (gram_mulVec_injective X hX))

/-- on an invertible matrix the first Penrose equation alone forces the ordinary inverse -/
theorem eq_inv_of_apa {A P : Matrix n n K} (hA : IsUnit A.det) (h : A * P * A = A) : P = A⁻¹ := by
  have e : A⁻¹ * (A * P * A) * A⁻¹ = P := by
    rw [Matrix.mul_assoc A P A, ← Matrix.mul_assoc A⁻¹ A (P * A), nonsing_inv_mul _ hA, Matrix.one_mul,
      Matrix.mul_assoc, mul_nonsing_inv _ hA, Matrix.mul_one]
  rw [← e, h, nonsing_inv_mul _ hA, Matrix.one_mul]

/-- non-vacuity: the ordinary inverse IS a Moore–Penrose pseudo-inverse (so `pinv` of an invertible
matrix exists and, by `eq_inv_of_apa`, is unique) -/
theorem isPenrose_inv {A : Matrix n n K} (hA : IsUnit A.det) : IsPenrose A A⁻¹ where
  apa := by rw [mul_nonsing_inv _ hA, Matrix.one_mul]
  pap := by rw [nonsing_inv_mul _ hA, Matrix.one_mul]
  ap_symm := by rw [mul_nonsing_inv _ hA, transpose_one]
  pa_symm := by rw [nonsing_inv_mul _ hA, transpose_one]

/-- `pinv(XᵀX)·Xᵀ·y` is THE solution of the normal equations `XᵀX v = Xᵀ y` on a full-column-rank design
(`P` only needs the first Penrose equation) -/
theorem pinv_fir_eq_of_normal (X : Matrix m n K) (P : Matrix n n K)
    (hX : Function.Injective X.mulVec) (hP : (Xᵀ * X) * P * (Xᵀ * X) = Xᵀ * X)
    (y : m → K) (v : n → K) (hv : (Xᵀ * X) *ᵥ v = Xᵀ *ᵥ y) :
    (P * Xᵀ) *ᵥ y = v := by
  have hG := gram_isUnit_det X hX
  rw [eq_inv_of_apa hG hP, ← mulVec_mulVec, ← hv, mulVec_mulVec, nonsing_inv_mul _ hG, one_mulVec]

/-- **exact recovery through the pseudo-inverse**: y = X·h, full column rank ⇒ pinv(XᵀX)·Xᵀ·y = h
(any number of columns = event types × response length; overlapping responses allowed) -/
theorem pinv_fir_recovers (X : Matrix m n K) (P : Matrix n n K)
    (hX : Function.Injective X.mulVec) (hP : IsPenrose (Xᵀ * X) P) (h : n → K) :
    (P * Xᵀ) *ᵥ (X *ᵥ h) = h :=
  pinv_fir_eq_of_normal X P hX hP.apa (X *ᵥ h) h (by rw [mulVec_mulVec])

/-- the estimate is the only solution of the normal equations -/
theorem normal_unique (X : Matrix m n K) (hX : Function.Injective X.mulVec) (y : m → K) (v w : n → K)
    (hv : (Xᵀ * X) *ᵥ v = Xᵀ *ᵥ y) (hw : (Xᵀ * X) *ᵥ w = Xᵀ *ᵥ y) : v = w :=
  gram_mulVec_injective X hX (hv.trans hw.symm)

/-- **fir_smul, matrix form**: the estimator is homogeneous in the data for EVERY factor `a` (no rank
hypothesis, any matrix `P`): `fir(X, a·y) = a·fir(X, y)` -/
theorem pinv_fir_smul (X : Matrix m n K) (P : Matrix n n K) (a : K) (y : m → K) :
    (P * Xᵀ) *ᵥ (a • y) = a • ((P * Xᵀ) *ᵥ y) :=
  mulVec_smul _ _ _

theorem pinv_fir_add (X : Matrix m n K) (P : Matrix n n K) (y z : m → K) :
    (P * Xᵀ) *ᵥ (y + z) = (P * Xᵀ) *ᵥ y + (P * Xᵀ) *ᵥ z :=
  mulVec_add _ _ _

/-- a flat-channel shortcut is never right on a planted channel: if some response sample is non-zero and
`a ≠ 0`, the estimate of the recording scaled by `a` is not the zero vector -/
theorem pinv_fir_scaled_ne_zero (X : Matrix m n K) (P : Matrix n n K)
    (hX : Function.Injective X.mulVec) (hP : IsPenrose (Xᵀ * X) P) (h : n → K) (a : K)
    (ha : a ≠ 0) (hh : h ≠ 0) : (P * Xᵀ) *ᵥ (a • (X *ᵥ h)) ≠ 0 := by
  rw [pinv_fir_smul, pinv_fir_recovers X P hX hP]
  exact smul_ne_zero ha hh

/-! ### the statement over ℝ (numpy / LAPACK's field) -/

/-- over ℝ: (XᵀX) invertible ⇐ full column rank, and pinv(XᵀX)·Xᵀ·(X·h) = h for every Moore–Penrose
pseudo-inverse of XᵀX -/
theorem pinv_fir_recovers_real {m n : ℕ} (X : Matrix (Fin m) (Fin n) ℝ) (P : Matrix (Fin n) (Fin n) ℝ)
    (hX : Function.Injective X.mulVec) (hP : IsPenrose (Xᵀ * X) P) (h : Fin n → ℝ) :
    IsUnit (Xᵀ * X).det ∧ P = (Xᵀ * X)⁻¹ ∧ (P * Xᵀ) *ᵥ (X *ᵥ h) = h :=
  ⟨gram_isUnit_det X hX, eq_inv_of_apa (gram_isUnit_det X hX) hP.apa, pinv_fir_recovers X P hX hP h⟩

/-- base change ℚ → ℝ keeps the Gram matrix invertible -/
theorem gram_isUnit_det_map {m n : ℕ} (X : Matrix (Fin m) (Fin n) ℚ) (hX : Function.Injective X.mulVec) :
    IsUnit ((X.map (Rat.castHom ℝ))ᵀ * X.map (Rat.castHom ℝ)).det := by
  have e : (X.map (Rat.castHom ℝ))ᵀ * X.map (Rat.castHom ℝ) = (Xᵀ * X).map (Rat.castHom ℝ) := by
    rw [Matrix.map_mul, transpose_map]
  rw [e, ← RingHom.mapMatrix_apply, ← RingHom.map_det]
  exact (gram_isUnit_det X hX).map _

/-- a rational solution of the normal equations, read in ℝ, is what the REAL `pinv(XᵀX)·Xᵀ·y` gives -/
theorem pinv_fir_real_of_rat_normal {m n : ℕ} (X : Matrix (Fin m) (Fin n) ℚ)
    (hX : Function.Injective X.mulVec) (P : Matrix (Fin n) (Fin n) ℝ)
    (hP : ((X.map (Rat.castHom ℝ))ᵀ * X.map (Rat.castHom ℝ)) * P * ((X.map (Rat.castHom ℝ))ᵀ * X.map (Rat.castHom ℝ))
            = (X.map (Rat.castHom ℝ))ᵀ * X.map (Rat.castHom ℝ))
    (y : Fin m → ℚ) (v : Fin n → ℚ) (hv : (Xᵀ * X) *ᵥ v = Xᵀ *ᵥ y) :
    (P * (X.map (Rat.castHom ℝ))ᵀ) *ᵥ (fun r => (y r : ℝ)) = fun c => (v c : ℝ) := by
  set Xr := X.map (Rat.castHom ℝ) with hXr
  have hG := gram_isUnit_det_map X hX
  have hvr : (Xrᵀ * Xr) *ᵥ (fun c => (v c : ℝ)) = Xrᵀ *ᵥ (fun r => (y r : ℝ)) := by
    have e : Xrᵀ * Xr = (Xᵀ * X).map (Rat.castHom ℝ) := by
      rw [hXr, Matrix.map_mul, transpose_map]
    have e2 : Xrᵀ = (Xᵀ).map (Rat.castHom ℝ) := by rw [hXr, transpose_map]
    have c1 := (Rat.castHom ℝ).map_mulVec (Xᵀ * X) v
    have c2 := (Rat.castHom ℝ).map_mulVec (Xᵀ) y
    rw [e, e2]
    funext i
    have := congr_arg (Rat.castHom ℝ) (congr_fun hv i)
    rw [c1 i, c2 i] at this
    exact this
  rw [eq_inv_of_apa hG hP, ← mulVec_mulVec, ← hvr, mulVec_mulVec, nonsing_inv_mul _ hG, one_mulVec]

end Nitime.C19.Pinv
