/- Helper lemmas for C02: inversion of the constructor pipeline, the integer sample count, and
exactness of the binary64 model on integers below 2^53. -/
import Nitime.Model.C02
import Nitime.Lemmas.F64
import Nitime.Lemmas.F64Bound
import Mathlib.Tactic.Ring
import Mathlib.Tactic.Linarith
import Mathlib.Tactic.NormNum
import Mathlib.Tactic.Positivity
import Mathlib.Tactic.FieldSimp
import Mathlib.Algebra.Order.Field.Basic
import Mathlib.Data.Rat.Floor

/- C02's float lemmas; `pow2_eq_zpow`, `pow2_pos`, `pow2_ilog2_le`, `rne_near` are C01's (`Lemmas/F64Bound.lean`, namespace `Nitime.F64`) -/
namespace Nitime.C02F
open Nitime.F64

theorem ilog2_lt_of_lt (a : Rat) (ha : 0 < a) (n : Nat) (h : a < 2 ^ n) : ilog2 a < n := by
  have h1 := pow2_ilog2_le ha
  rw [pow2_eq_zpow] at h1
  have : (2 : Rat) ^ (ilog2 a) < (2 : Rat) ^ (n : Int) := by
    rw [zpow_natCast]; exact lt_of_le_of_lt h1 h
  exact (zpow_lt_zpow_iff_right₀ (by norm_num : (1 : Rat) < 2)).mp this

/-- natural numbers below 2^53 are binary64 values: rounding leaves them alone -/
theorem rne_natCast (k : Nat) (hk : k < 2 ^ 53) : rne (k : Rat) = k := by
  unfold rne
  by_cases h0 : (k : Rat) = 0
  · simp [h0]
  · have hpos : (0 : Rat) < k := by
      have : (0 : Rat) ≤ k := Nat.cast_nonneg k
      exact lt_of_le_of_ne this (Ne.symm h0)
    have hnn : ¬ ((k : Rat) < 0) := not_lt.mpr hpos.le
    simp only [h0, if_false, hnn]
    have he : ilog2 (k : Rat) < 53 := by
      have := ilog2_lt_of_lt (k : Rat) hpos 53 (by exact_mod_cast hk)
      exact_mod_cast this
    obtain ⟨j, hj⟩ := Int.eq_ofNat_of_zero_le (show 0 ≤ 52 - ilog2 (k : Rat) by omega)
    have hulp : pow2 (ilog2 (k : Rat) - 52) = 1 / (2 : Rat) ^ j := by
      rw [pow2_eq_zpow, show ilog2 (k : Rat) - 52 = -(j : Int) by omega, zpow_neg, zpow_natCast, one_div]
    rw [hulp]
    have hq : (k : Rat) / (1 / (2 : Rat) ^ j) = (((k * 2 ^ j : Nat) : Int) : Rat) := by
      push_cast; field_simp
    rw [hq, rint_intCast]
    push_cast; field_simp

theorem ofInt_natCast (k : Nat) (hk : k < 2 ^ 53) : ofInt (k : Int) = (k : Rat) := by
  unfold ofInt; exact_mod_cast rne_natCast k hk

theorem ceil_natCast (k : Nat) : ceil (k : Rat) = k := by
  unfold ceil
  have : (-(k : Rat)) = (((-(k : Int)) : Int) : Rat) := by push_cast; rfl
  rw [this, Rat.floor_intCast]; omega

/-- relative accuracy of rounding to binary64: `|rne q − q| ≤ |q|·2⁻⁵³` (C01's `F64.rne_near`, with the
power written out) -/
theorem rne_err (q : Rat) : |rne q - q| ≤ |q| / 2 ^ 53 := by
  have h := rne_near q
  have e : pow2 (-53) = 1 / 2 ^ 53 := by
    rw [pow2_eq_zpow, show (-53 : Int) = -((53 : Nat) : Int) by norm_num, zpow_neg, zpow_natCast, one_div]
  rw [e] at h
  calc |rne q - q| ≤ |q| * (1 / 2 ^ 53) := h
    _ = |q| / 2 ^ 53 := by ring

/-- rounding as a relative perturbation: `rne t = t·ρ` with `|ρ − 1| ≤ 2⁻⁵³` -/
theorem rne_ratio (t : Rat) (ht : t ≠ 0) : |rne t / t - 1| ≤ 1 / 2 ^ 53 := by
  have h := rne_err t
  have e : rne t / t - 1 = (rne t - t) / t := by field_simp
  rw [e, abs_div, div_le_iff₀ (abs_pos.mpr ht)]
  calc |rne t - t| ≤ |t| / 2 ^ 53 := h
    _ = 1 / 2 ^ 53 * |t| := by ring

theorem mul_near_one {a b α β : Rat} (ha : |a - 1| ≤ α) (hb : |b - 1| ≤ β) :
    |a * b - 1| ≤ α + β + α * β := by
  have hα : 0 ≤ α := le_trans (abs_nonneg _) ha
  have e : a * b - 1 = (a - 1) * (b - 1) + (a - 1) + (b - 1) := by ring
  rw [e]
  calc |(a - 1) * (b - 1) + (a - 1) + (b - 1)|
      ≤ |(a - 1) * (b - 1)| + |a - 1| + |b - 1| := abs_add_three _ _ _
    _ ≤ α * β + α + β := by
        rw [abs_mul]
        have := mul_le_mul ha hb (abs_nonneg _) hα
        linarith
    _ = α + β + α * β := by ring

theorem rint_eq_of_near (y : Rat) (k : Int) (h : |y - k| < 1 / 2) : rint y = k := by
  have h1 := rint_near y
  have h2 : |((rint y : Int) : Rat) - k| < 1 := by
    have e : ((rint y : Int) : Rat) - k = ((rint y : Int) - y) + (y - k) := by ring
    rw [e]
    exact lt_of_le_of_lt (abs_add_le _ _) (by linarith)
  have h3 : |rint y - k| < 1 := by exact_mod_cast h2
  have := Int.abs_lt_one_iff.mp h3
  omega

theorem rne_zero : rne 0 = 0 := by simp [rne]

theorem rne_ne_zero {t : Rat} (ht : t ≠ 0) : rne t ≠ 0 := by
  intro h
  have := rne_ratio t ht
  rw [h, zero_div] at this
  norm_num at this

/-- three roundings around a division and multiplication by the same factor -/
theorem rne_chain3 (t F : Rat) (hF : 0 < F) :
    |rne (rne (rne t / F) * F) - t| ≤ |t| * (7 / 2 * (1 / 2 ^ 53)) := by
  by_cases ht : t = 0
  · subst ht; simp [rne_zero]
  · obtain ⟨ε, hε⟩ : ∃ ε : Rat, ε = 1 / 2 ^ 53 := ⟨_, rfl⟩
    have εpos : 0 < ε := by rw [hε]; positivity
    have εsmall : ε ≤ 1 / 1000 := by rw [hε]; norm_num
    rw [← hε]
    have hz : rne t ≠ 0 := rne_ne_zero ht
    have ra : |rne t / t - 1| ≤ ε := by rw [hε]; exact rne_ratio t ht
    generalize rne t = z at *
    have hzF : z / F ≠ 0 := div_ne_zero hz hF.ne'
    have hy : rne (z / F) ≠ 0 := rne_ne_zero hzF
    have rb : |rne (z / F) / (z / F) - 1| ≤ ε := by rw [hε]; exact rne_ratio _ hzF
    generalize rne (z / F) = y at *
    have hyF : y * F ≠ 0 := mul_ne_zero hy hF.ne'
    have rc : |rne (y * F) / (y * F) - 1| ≤ ε := by rw [hε]; exact rne_ratio _ hyF
    generalize rne (y * F) = w at *
    have h12 := mul_near_one ra rb
    have h123 := mul_near_one h12 rc
    have hQ : z / t * (y / (z / F)) * (w / (y * F)) = w / t := by field_simp
    rw [hQ] at h123
    have κle : (ε + ε + ε * ε) + ε + (ε + ε + ε * ε) * ε ≤ 7 / 2 * ε := by nlinarith
    have h4 : |w / t - 1| ≤ 7 / 2 * ε := le_trans h123 κle
    have e : w - t = t * (w / t - 1) := by field_simp
    rw [e, abs_mul]
    exact mul_le_mul_of_nonneg_left h4 (abs_nonneg _)

end Nitime.C02F

namespace Nitime.C02
open Nitime

/-! ### inversion -/

theorem mkUniform_inv {v : Variant} {s : Spec} {a : Axis} (h : mkUniform v s = .ok a) :
    checkTspec s = .ok () ∧ ∃ r, resolve v s = .ok r ∧ build v s.length r = .ok a := by
  unfold mkUniform at h
  cases hc : checkTspec s with
  | error e => rw [hc] at h; simp [bind, Except.bind] at h
  | ok u =>
    cases hr : resolve v s with
    | error e => rw [hc, hr] at h; simp [bind, Except.bind] at h
    | ok r =>
      rw [hc, hr] at h
      simp only [bind, Except.bind] at h
      exact ⟨rfl, r, rfl, h⟩

theorem build_intended {length : Option Nat} {r : Resolved} {a : Axis}
    (h : build .intended length r = .ok a) :
    0 < r.dt ∧ a.t0 = r.t0 ∧ a.dt = r.dt ∧ a.rate = r.rate ∧ a.unit = r.unit ∧
    a.dur = (a.n : Int) * a.dt ∧
    a.n = (match length with | some l => l | none => countBefore r.durReq r.dt) := by
  unfold build at h
  split at h
  · cases h
  · rename_i hpos
    cases length <;>
      (simp only [Except.ok.injEq] at h; subst h; exact ⟨by omega, rfl, rfl, rfl, rfl, rfl, rfl⟩)

/-- `i < ⌈dur/dt⌉` (clipped at 0) iff the `i`-th multiple of `dt` lies before `dur` -/
theorem countBefore_spec (dur dt : Int) (hdt : 0 < dt) (i : Nat) :
    i < countBefore dur dt ↔ (i : Int) * dt < dur := by
  unfold countBefore
  rw [Int.lt_toNat]
  constructor
  · intro h
    have h1 : ¬ (-(i : Int) ≤ (-dur) / dt) := by omega
    rw [Int.le_ediv_iff_mul_le hdt] at h1
    linarith
  · intro h
    have h1 : ¬ (-(i : Int) ≤ (-dur) / dt) := by
      rw [Int.le_ediv_iff_mul_le hdt]; linarith
    omega

/-- exactly `n` multiples of `dt` lie before `n·dt` -/
theorem countBefore_mul (n : Nat) (dt : Int) (hdt : 0 < dt) : countBefore ((n : Int) * dt) dt = n := by
  apply Nat.le_antisymm
  · by_contra h
    have h' : n < countBefore ((n : Int) * dt) dt := by omega
    have := (countBefore_spec _ dt hdt n).mp h'
    exact lt_irrefl _ this
  · by_contra h
    have h' : countBefore ((n : Int) * dt) dt < n := by omega
    have hlt : ((countBefore ((n : Int) * dt) dt : Nat) : Int) * dt < (n : Int) * dt :=
      mul_lt_mul_of_pos_right (by exact_mod_cast h') hdt
    have := (countBefore_spec _ dt hdt _).mpr hlt
    exact lt_irrefl _ this

/-- resolution of the specification that `TimeSeries.time` passes on: time objects are stored
as they are -/
theorem resolve_tobj {v : Variant} {n : Nat} {t0ps dt : Int} {u : TimeUnit} {r : Resolved}
    (h : resolve v { length := some n, t0 := some (.tobj t0ps u), interval := some (.tobj dt u),
                     unit := .ok u } = .ok r) :
    r.t0 = t0ps ∧ r.dt = dt ∧ r.unit = u := by
  by_cases hx : F64.fdiv (F64.ofInt dt) (cf u) = 0
  · simp [resolve, inherit, checkUnit, inferUnit, deriveIntervalRate, bind, Except.bind, hx] at h
  · simp [resolve, inherit, checkUnit, inferUnit, deriveIntervalRate, durationPs, targPs, bind,
      Except.bind, pure, Except.pure, hx] at h
    subst h; exact ⟨rfl, rfl, rfl⟩

theorem build_common {v : Variant} {length : Option Nat} {r : Resolved} {a : Axis}
    (h : build v length r = .ok a) : a.t0 = r.t0 ∧ a.dt = r.dt ∧ a.unit = r.unit ∧ a.rate = r.rate := by
  unfold build at h
  split at h
  · cases h
  · cases v <;> (simp only [Except.ok.injEq] at h; subst h; exact ⟨rfl, rfl, rfl, rfl⟩)

/-- the axis `TimeSeries.time` builds from time objects starts and steps as told -/
theorem mkUniform_tobj {v : Variant} {n : Nat} {t0ps dt : Int} {u : TimeUnit} {ax : Axis}
    (h : mkUniform v { length := some n, t0 := some (.tobj t0ps u), interval := some (.tobj dt u),
                       unit := .ok u } = .ok ax) :
    ax.t0 = t0ps ∧ ax.dt = dt ∧ ax.unit = u := by
  obtain ⟨_, r, hr, hb⟩ := mkUniform_inv h
  obtain ⟨h1, h2, h3⟩ := resolve_tobj hr
  obtain ⟨b1, b2, b3, _⟩ := build_common hb
  exact ⟨b1.trans h1, b2.trans h2, b3.trans h3⟩

theorem mkSeries_inv {v : Variant} {n : Nat} {t0 iv : Option TArg} {rate : Option RArg}
    {dur : Option TArg} {u : UArg} {sr : Series} (h : mkSeries v n t0 iv rate dur u = .ok sr) :
    ∃ ax, (mkUniform v { length := some n, t0 := some (.tobj sr.t0 sr.unit),
                         interval := some (.tobj sr.dt sr.unit), unit := .ok sr.unit } = .ok ax ∧
           ax = sr.time) ∧ ax.t0 = sr.t0 ∧ ax.dt = sr.dt ∧ ax.unit = sr.unit := by
  unfold mkSeries at h
  simp only [bind, Except.bind, pure, Except.pure] at h
  split at h
  · simp [throw, throwThe, MonadExceptOf.throw] at h
  · split at h
    · cases h
    · split at h
      · cases h
      · split at h
        · cases h
        · rename_i ax hax
          simp only [Except.ok.injEq] at h
          subst h
          exact ⟨ax, ⟨hax, rfl⟩, mkUniform_tobj hax⟩

theorem mkSeriesFromTime_inv {ax : Axis} {n : Nat} {t0 : Option TArg} {u : UArg} {sr : Series}
    (h : mkSeriesFromTime .intended ax n t0 u = .ok sr) :
    sr.time.n = n ∧ sr.time.dt = ax.dt ∧ sr.dt = ax.dt ∧ sr.rate = ax.rate ∧
    (t0 = none → sr.time.t0 = ax.t0) := by
  unfold mkSeriesFromTime at h
  simp only [bind, Except.bind, pure, Except.pure] at h
  split at h
  · cases h
  · split at h
    · simp [throw, throwThe, MonadExceptOf.throw] at h
    · split at h
      · cases h
      · rename_i time htime
        simp only [Except.ok.injEq] at h
        subst h
        obtain ⟨h1, h2, _⟩ := mkUniform_tobj htime
        obtain ⟨_, r, _, hb⟩ := mkUniform_inv htime
        refine ⟨(build_intended hb).2.2.2.2.2.2, h2, rfl, rfl, ?_⟩
        intro ht; subst ht; exact h1

/-- numpy's `arange` length is exact when the extent is an exact multiple below 2^53 -/
theorem arangeLen_exact (l : Nat) (dt : Int) (hdt : 0 < dt) (hl : 0 < l)
    (hfit : (l : Int) * dt < 2 ^ 53) : arangeLen ((l : Int) * dt) dt = l := by
  obtain ⟨d, rfl⟩ := Int.eq_ofNat_of_zero_le hdt.le
  have hd0 : 0 < d := by exact_mod_cast hdt
  unfold arangeLen
  have h1 : ((l : Int) * (d : Int)) = ((l * d : Nat) : Int) := by push_cast; ring
  have hld : l * d < 2 ^ 53 := by
    rw [h1] at hfit; exact_mod_cast hfit
  have hd : d < 2 ^ 53 := lt_of_le_of_lt (Nat.le_mul_of_pos_left d hl) hld
  have hl' : l < 2 ^ 53 := lt_of_le_of_lt (Nat.le_mul_of_pos_right l hd0) hld
  rw [h1, C02F.ofInt_natCast _ hld, C02F.ofInt_natCast d hd]
  unfold F64.fdiv
  have hq : ((l * d : Nat) : Rat) / (d : Rat) = (l : Rat) := by
    have : (d : Rat) ≠ 0 := by exact_mod_cast hd0.ne'
    push_cast; field_simp
  rw [hq, C02F.rne_natCast l hl', C02F.ceil_natCast]
  simp

/-- what `resolve` does after the inheritance step -/
theorem resolve_after_inherit {v : Variant} {s s' : Spec} {r : Resolved}
    (hi : inherit v s = .ok s') (h : resolve v s = .ok r) :
    ∃ uo, checkUnit s'.unit = .ok uo ∧ r.unit = inferUnit uo s'.duration s'.interval ∧
      r.t0 = targPs r.unit (s'.t0.getD (.num (.int 0))) ∧
      ∃ iv hz, deriveIntervalRate v r.unit s'.length s'.interval s'.rate s'.duration = .ok (iv, hz) ∧
        durationPs r.unit s'.length iv s'.duration = .ok r.durReq ∧ r.dt = targPs r.unit iv ∧ r.rate = hz := by
  simp only [resolve, hi, bind, Except.bind, pure, Except.pure] at h
  cases hu : checkUnit s'.unit with
  | error e => rw [hu] at h; cases h
  | ok uo =>
    rw [hu] at h
    simp only at h
    split at h
    · cases h
    · rename_i p hp
      split at h
      · cases h
      · rename_i dur hdur
        simp only [Except.ok.injEq] at h
        subst h
        exact ⟨uo, rfl, rfl, rfl, p.1, p.2, hp, hdur, rfl, rfl⟩

theorem inherit_none {v : Variant} {s : Spec} (hd : s.data = none) : inherit v s = .ok s := by
  unfold inherit; rw [hd]

theorem inherit_intended_fields {s s' : Spec} {d : Axis} (hd : s.data = some d)
    (h : inherit .intended s = .ok s') :
    s'.unit = (match s.unit with | .none => .ok d.unit | u => u) ∧
    s'.t0 = (match s.t0 with | none => some (.tobj d.t0 d.unit) | t => t) := by
  unfold inherit at h
  rw [hd] at h
  simp only at h
  split_ifs at h <;>
    (simp only [Except.ok.injEq] at h; subst h; exact ⟨rfl, by cases hst : s.t0 <;> simp [hst]⟩)

/-- with an existing axis and neither length nor duration given, the duration is the source's -/
theorem inherit_intended_duration {s s' : Spec} {d : Axis} (hd : s.data = some d)
    (hl : s.length = none) (hdur : s.duration = none) (hc : checkTspec s = .ok ())
    (h : inherit .intended s = .ok s') :
    s'.duration = some (.tobj d.dur d.unit) ∧ s'.length = none := by
  have w0 : wd 0 = [false, false, false, false] := by decide
  have w1 : wd 1 = [true, false, false, false] := by decide
  have w2 : wd 2 = [false, true, false, false] := by decide
  have w3 : wd 3 = [false, false, true, false] := by decide
  have w4 : wd 4 = [false, false, false, true] := by decide
  unfold inherit at h
  rw [hd] at h
  simp only [w0, w1, w2, w3, w4] at h
  unfold checkTspec at hc
  rw [hd] at hc
  rcases hi : s.interval with _ | iv <;> rcases hr : s.rate with _ | rt <;>
    simp [tspecOf, hl, hdur, hi, hr] at h hc <;>
    first
    | (subst h; exact ⟨rfl, rfl⟩)
    | (exfalso; revert hc; decide)

section floatchain
open Nitime.F64 Nitime.C02F
open Nitime.C01 (toPs)
theorem cf_exact (u : TimeUnit) : cf u = (Generated.factor u : Rat) := by
  unfold cf; cases u <;> decide +kernel

theorem factor_pos (u : TimeUnit) : (0 : Rat) < (Generated.factor u : Rat) := by
  cases u <;> norm_num [Generated.factor]

/-- the float chain `Δ = rint(fl(x·F))`, `rate = fl(fl(1/x)·fl(10¹²/F))` -/
theorem close_core (x F : Rat) (hx : 0 < x) (hF : 0 < F) :
    0 < rne (rne (1 / x) * rne (10 ^ 12 / F)) ∧
    |((rint (rne (x * F)) : Int) : Rat) - 10 ^ 12 / rne (rne (1 / x) * rne (10 ^ 12 / F))|
      ≤ 1 / 2 + 5 * (10 ^ 12 / rne (rne (1 / x) * rne (10 ^ 12 / F))) / 2 ^ 53 := by
  obtain ⟨ε, hε⟩ : ∃ ε : Rat, ε = 1 / 2 ^ 53 := ⟨_, rfl⟩
  have εpos : 0 < ε := by rw [hε]; positivity
  have εsmall : ε ≤ 1 / 1000 := by rw [hε]; norm_num
  have r1 : |rne (1 / x) / (1 / x) - 1| ≤ ε := by rw [hε]; exact rne_ratio _ (by positivity)
  have r2 : |rne (10 ^ 12 / F) / (10 ^ 12 / F) - 1| ≤ ε := by rw [hε]; exact rne_ratio _ (by positivity)
  generalize rne (1 / x) = y1 at *
  generalize rne (10 ^ 12 / F) = y2 at *
  have e1 : y1 / (1 / x) = y1 * x := by field_simp
  have e2 : y2 / (10 ^ 12 / F) = y2 * F / 10 ^ 12 := by field_simp
  rw [e1] at r1; rw [e2] at r2
  have a1pos : 0 < y1 * x := by have := (abs_le.mp r1).1; linarith
  have a2pos : 0 < y2 * F / 10 ^ 12 := by have := (abs_le.mp r2).1; linarith
  have y1pos : 0 < y1 := (mul_pos_iff_of_pos_right hx).mp a1pos
  have y2pos : 0 < y2 := by
    have h : 0 < y2 * F := by
      have := mul_pos a2pos (by positivity : (0 : Rat) < 10 ^ 12)
      rwa [div_mul_cancel₀ _ (by positivity : (10 : Rat) ^ 12 ≠ 0)] at this
    exact (mul_pos_iff_of_pos_right hF).mp h
  have hne : y1 * y2 ≠ 0 := (mul_pos y1pos y2pos).ne'
  have r3 : |rne (y1 * y2) / (y1 * y2) - 1| ≤ ε := by rw [hε]; exact rne_ratio _ hne
  generalize rne (y1 * y2) = r at *
  have h12 := mul_near_one r1 r2
  have h123 := mul_near_one h12 r3
  have hQ : (y1 * x) * (y2 * F / 10 ^ 12) * (r / (y1 * y2)) = r * (x * F) / 10 ^ 12 := by
    field_simp
  rw [hQ] at h123
  have κle : (ε + ε + ε * ε) + ε + (ε + ε + ε * ε) * ε ≤ 7 / 2 * ε := by nlinarith
  have hQ1 : |r * (x * F) / 10 ^ 12 - 1| ≤ 7 / 2 * ε := le_trans h123 κle
  have XFpos : 0 < x * F := mul_pos hx hF
  have Qpos : 0 < r * (x * F) / 10 ^ 12 := by have := (abs_le.mp hQ1).1; linarith
  have rpos : 0 < r := by
    have h : 0 < r * (x * F) := by
      have := mul_pos Qpos (by positivity : (0 : Rat) < 10 ^ 12)
      rwa [div_mul_cancel₀ _ (by positivity : (10 : Rat) ^ 12 ≠ 0)] at this
    exact (mul_pos_iff_of_pos_right XFpos).mp h
  refine ⟨rpos, ?_⟩
  have hX : x * F = (10 ^ 12 / r) * (r * (x * F) / 10 ^ 12) := by field_simp
  have Ppos : (0 : Rat) < 10 ^ 12 / r := by positivity
  generalize (10 : Rat) ^ 12 / r = P at *
  generalize r * (x * F) / 10 ^ 12 = Q at *
  have d1 := rint_near (rne (x * F))
  have d2 := rne_err (x * F)
  rw [abs_of_pos XFpos] at d2
  have d2' : |rne (x * F) - x * F| ≤ (x * F) * ε := by rw [hε]; linarith
  generalize rne (x * F) = rx at *
  generalize ((rint rx : Int) : Rat) = dt at *
  have tri : |dt - P| ≤ |dt - rx| + |rx - x * F| + |x * F - P| := by
    have : dt - P = (dt - rx) + (rx - x * F) + (x * F - P) := by ring
    rw [this]; exact abs_add_three _ _ _
  have d3 : |x * F - P| ≤ P * (7 / 2 * ε) := by
    rw [hX, show P * Q - P = P * (Q - 1) by ring, abs_mul, abs_of_pos Ppos]
    exact mul_le_mul_of_nonneg_left hQ1 Ppos.le
  have hQle : Q ≤ 1 + 7 / 2 * ε := by have := (abs_le.mp hQ1).2; linarith
  have hXle : x * F ≤ P * (1 + 7 / 2 * ε) := by rw [hX]; exact mul_le_mul_of_nonneg_left hQle Ppos.le
  have fin : (x * F) * ε + P * (7 / 2 * ε) ≤ 5 * P * ε := by nlinarith [mul_pos Ppos εpos]
  have : 5 * P / 2 ^ 53 = 5 * P * ε := by rw [hε]; ring
  rw [this]
  linarith

/-- interval path: the stored interval and the reported rate describe the same sampling:
`|Δ − 10¹²/rate| ≤ 1/2 + 5·(10¹²/rate)·2⁻⁵³` for every positive binary64 interval `x`, every unit -/
theorem interval_rate_close (u : TimeUnit) (x : Rat) (hx : 0 < x) :
    0 < frequency (fdiv 1 x) u ∧
    |((toPs u (.flt x) : Int) : Rat) - 10 ^ 12 / frequency (fdiv 1 x) u|
      ≤ 1 / 2 + 5 * (10 ^ 12 / frequency (fdiv 1 x) u) / 2 ^ 53 := by
  have hs : cf .s = 10 ^ 12 := by rw [cf_exact]; norm_num [Generated.factor]
  have hdt : ((toPs u (.flt x) : Int) : Rat) = (rint (rne (x * (Generated.factor u : Rat))) : Int) := by
    simp only [toPs, C01.toPsF, fmul]
    rw [show ofInt (Generated.factor u : Int) = (Generated.factor u : Rat) from cf_exact u]
  have hr : frequency (fdiv 1 x) u = rne (rne (1 / x) * rne (10 ^ 12 / (Generated.factor u : Rat))) := by
    simp only [frequency, fmul, fdiv, hs, cf_exact]
  rw [hdt, hr]
  exact close_core x _ hx (factor_pos u)


/-- the rate reported for an interval `x` (unit factor `F`): `X = x·F` and `P = 10¹²/rate` agree
to float resolution: `|X − P| ≤ P·(7/2)·2⁻⁵³` -/
theorem hz_core (x F : Rat) (hx : 0 < x) (hF : 0 < F) :
    0 < rne (rne (1 / x) * rne (10 ^ 12 / F)) ∧
    |x * F - 10 ^ 12 / rne (rne (1 / x) * rne (10 ^ 12 / F))|
      ≤ 10 ^ 12 / rne (rne (1 / x) * rne (10 ^ 12 / F)) * (7 / 2 * (1 / 2 ^ 53)) := by
  obtain ⟨ε, hε⟩ : ∃ ε : Rat, ε = 1 / 2 ^ 53 := ⟨_, rfl⟩
  have εpos : 0 < ε := by rw [hε]; positivity
  have εsmall : ε ≤ 1 / 1000 := by rw [hε]; norm_num
  rw [← hε]
  have r1 : |rne (1 / x) / (1 / x) - 1| ≤ ε := by rw [hε]; exact rne_ratio _ (by positivity)
  have r2 : |rne (10 ^ 12 / F) / (10 ^ 12 / F) - 1| ≤ ε := by rw [hε]; exact rne_ratio _ (by positivity)
  generalize rne (1 / x) = y1 at *
  generalize rne (10 ^ 12 / F) = y2 at *
  have e1 : y1 / (1 / x) = y1 * x := by field_simp
  have e2 : y2 / (10 ^ 12 / F) = y2 * F / 10 ^ 12 := by field_simp
  rw [e1] at r1; rw [e2] at r2
  have a1pos : 0 < y1 * x := by have := (abs_le.mp r1).1; linarith
  have a2pos : 0 < y2 * F / 10 ^ 12 := by have := (abs_le.mp r2).1; linarith
  have y1pos : 0 < y1 := (mul_pos_iff_of_pos_right hx).mp a1pos
  have y2pos : 0 < y2 := by
    have h : 0 < y2 * F := by
      have := mul_pos a2pos (by positivity : (0 : Rat) < 10 ^ 12)
      rwa [div_mul_cancel₀ _ (by positivity : (10 : Rat) ^ 12 ≠ 0)] at this
    exact (mul_pos_iff_of_pos_right hF).mp h
  have hne : y1 * y2 ≠ 0 := (mul_pos y1pos y2pos).ne'
  have r3 : |rne (y1 * y2) / (y1 * y2) - 1| ≤ ε := by rw [hε]; exact rne_ratio _ hne
  generalize rne (y1 * y2) = r at *
  have h12 := mul_near_one r1 r2
  have h123 := mul_near_one h12 r3
  have hQ : (y1 * x) * (y2 * F / 10 ^ 12) * (r / (y1 * y2)) = r * (x * F) / 10 ^ 12 := by
    field_simp
  rw [hQ] at h123
  have κle : (ε + ε + ε * ε) + ε + (ε + ε + ε * ε) * ε ≤ 7 / 2 * ε := by nlinarith
  have hQ1 : |r * (x * F) / 10 ^ 12 - 1| ≤ 7 / 2 * ε := le_trans h123 κle
  have XFpos : 0 < x * F := mul_pos hx hF
  have Qpos : 0 < r * (x * F) / 10 ^ 12 := by have := (abs_le.mp hQ1).1; linarith
  have rpos : 0 < r := by
    have h : 0 < r * (x * F) := by
      have := mul_pos Qpos (by positivity : (0 : Rat) < 10 ^ 12)
      rwa [div_mul_cancel₀ _ (by positivity : (10 : Rat) ^ 12 ≠ 0)] at this
    exact (mul_pos_iff_of_pos_right XFpos).mp h
  refine ⟨rpos, ?_⟩
  have hX : x * F = (10 ^ 12 / r) * (r * (x * F) / 10 ^ 12) := by field_simp
  have Ppos : (0 : Rat) < 10 ^ 12 / r := by positivity
  generalize (10 : Rat) ^ 12 / r = P at *
  generalize r * (x * F) / 10 ^ 12 = Q at *
  rw [hX, show P * Q - P = P * (Q - 1) by ring, abs_mul, abs_of_pos Ppos]
  exact mul_le_mul_of_nonneg_left hQ1 Ppos.le

/-- the period of a rate, before rounding to whole picoseconds: `|fl(fl(1/hz)·10¹²) − 10¹²/hz|
≤ (10¹²/hz)·(5/2)·2⁻⁵³` -/
theorem period_core (hz : Rat) (hhz : 0 < hz) :
    |rne (rne (1 / hz) * 10 ^ 12) - 10 ^ 12 / hz| ≤ 10 ^ 12 / hz * (5 / 2 * (1 / 2 ^ 53)) := by
  obtain ⟨ε, hε⟩ : ∃ ε : Rat, ε = 1 / 2 ^ 53 := ⟨_, rfl⟩
  have εpos : 0 < ε := by rw [hε]; positivity
  have εsmall : ε ≤ 1 / 1000 := by rw [hε]; norm_num
  rw [← hε]
  have t1 : (1 / hz) ≠ 0 := by positivity
  have r1 : |rne (1 / hz) / (1 / hz) - 1| ≤ ε := by rw [hε]; exact rne_ratio _ t1
  have hy : rne (1 / hz) ≠ 0 := rne_ne_zero t1
  generalize rne (1 / hz) = y at *
  have t2 : y * 10 ^ 12 ≠ 0 := mul_ne_zero hy (by positivity)
  have r2 : |rne (y * 10 ^ 12) / (y * 10 ^ 12) - 1| ≤ ε := by rw [hε]; exact rne_ratio _ t2
  generalize rne (y * 10 ^ 12) = v at *
  have h12 := mul_near_one r1 r2
  have hQ : y / (1 / hz) * (v / (y * 10 ^ 12)) = v / (10 ^ 12 / hz) := by field_simp
  rw [hQ] at h12
  have κle : ε + ε + ε * ε ≤ 5 / 2 * ε := by nlinarith
  have h4 : |v / (10 ^ 12 / hz) - 1| ≤ 5 / 2 * ε := le_trans h12 κle
  have Ppos : (0 : Rat) < 10 ^ 12 / hz := by positivity
  have e : v - 10 ^ 12 / hz = (10 ^ 12 / hz) * (v / (10 ^ 12 / hz) - 1) := by field_simp
  rw [e, abs_mul, abs_of_pos Ppos]
  exact mul_le_mul_of_nonneg_left h4 Ppos.le

/-- rate path: the stored interval is within one picosecond (plus binary64 resolution) of the
period of the rate: `|Δ − 10¹²/hz| ≤ 1 + 7·(10¹²/hz + 1)·2⁻⁵³` -/
theorem rate_core (hz F : Rat) (hhz : 0 < hz) (hF : 0 < F) :
    |((rint (rne (rne (rne ((rint (rne (rne (1 / hz) * 10 ^ 12)) : Int) : Rat) / F) * F)) : Int) : Rat)
        - 10 ^ 12 / hz| ≤ 1 + 7 * (10 ^ 12 / hz + 1) / 2 ^ 53 := by
  obtain ⟨ε, hε⟩ : ∃ ε : Rat, ε = 1 / 2 ^ 53 := ⟨_, rfl⟩
  have εpos : 0 < ε := by rw [hε]; positivity
  have εsmall : ε ≤ 1 / 1000 := by rw [hε]; norm_num
  have hp := period_core hz hhz
  have Ppos : (0 : Rat) < 10 ^ 12 / hz := by positivity
  rw [← hε] at hp
  generalize (10 : Rat) ^ 12 / hz = P at *
  have d1 := rint_near (rne (rne (1 / hz) * 10 ^ 12))
  generalize rne (rne (1 / hz) * 10 ^ 12) = v at *
  have d2 := rne_chain3 ((rint v : Int) : Rat) F hF
  rw [← hε] at d2
  generalize ((rint v : Int) : Rat) = p at *
  have d3 := rint_near (rne (rne (rne p / F) * F))
  generalize rne (rne (rne p / F) * F) = w at *
  generalize ((rint w : Int) : Rat) = dt at *
  have hpabs : |p| ≤ P + 1 / 2 + P * (5 / 2 * ε) := by
    have e : p = (p - v) + (v - P) + P := by ring
    calc |p| = |(p - v) + (v - P) + P| := by rw [← e]
      _ ≤ |p - v| + |v - P| + |P| := abs_add_three _ _ _
      _ ≤ 1 / 2 + P * (5 / 2 * ε) + P := by rw [abs_of_pos Ppos]; linarith
      _ = P + 1 / 2 + P * (5 / 2 * ε) := by ring
  have tri : |dt - P| ≤ |dt - w| + |w - p| + |p - v| + |v - P| := by
    have e : dt - P = ((dt - w) + (w - p) + (p - v)) + (v - P) := by ring
    rw [e]
    exact le_trans (abs_add_le _ _) (by linarith [abs_add_three (dt - w) (w - p) (p - v)])
  have hw : |w - p| ≤ (P + 1 / 2 + P * (5 / 2 * ε)) * (7 / 2 * ε) :=
    le_trans d2 (mul_le_mul_of_nonneg_right hpabs (by positivity))
  have : 7 * (P + 1) / 2 ^ 53 = 7 * (P + 1) * ε := by rw [hε]; ring
  rw [this]
  nlinarith [mul_pos Ppos εpos]

/-- `same_sampling`: an interval `x` whose value is a whole number `k < 2⁴⁹` of picoseconds and the
rate reported for it give back the same stored interval -/
theorem same_sampling_core (x F : Rat) (k : Int) (hx : 0 < x) (hF : 0 < F) (hk : x * F = k)
    (hlt : k < 2 ^ 49) :
    rint (rne (x * F)) = k ∧
    rint (rne (rne (rne ((rint (rne (rne (1 / rne (rne (1 / x) * rne (10 ^ 12 / F))) * 10 ^ 12)) : Int) : Rat) / F) * F)) = k := by
  obtain ⟨ε, hε⟩ : ∃ ε : Rat, ε = 1 / 2 ^ 53 := ⟨_, rfl⟩
  have εpos : 0 < ε := by rw [hε]; positivity
  have hkpos : (0 : Rat) < k := by rw [← hk]; exact mul_pos hx hF
  have hkR : (k : Rat) < 2 ^ 49 := by exact_mod_cast hlt
  have hk0 : 0 < k := by exact_mod_cast hkpos
  obtain ⟨kn, hkn⟩ := Int.eq_ofNat_of_zero_le hk0.le
  have hknlt : kn < 2 ^ 53 := by
    have : (kn : Int) < 2 ^ 49 := by rw [← hkn]; exact hlt
    have : kn < 2 ^ 49 := by exact_mod_cast this
    omega
  have hrnek : rne (k : Rat) = k := by
    rw [hkn]; exact_mod_cast rne_natCast kn hknlt
  constructor
  · rw [hk, hrnek]; exact rint_intCast k
  · obtain ⟨hzpos, hX⟩ := hz_core x F hx hF
    rw [← hε, hk] at hX
    have hp := period_core _ hzpos
    rw [← hε] at hp
    generalize rne (rne (1 / x) * rne (10 ^ 12 / F)) = hz at *
    have Ppos : (0 : Rat) < 10 ^ 12 / hz := by positivity
    generalize (10 : Rat) ^ 12 / hz = P at *
    -- P ≤ k (1 + 4ε)
    have hPle : P ≤ k * (1 + 4 * ε) := by
      have h1 := (abs_le.mp hX).1
      have εsmall : ε ≤ 1 / 1000 := by rw [hε]; norm_num
      nlinarith [mul_pos Ppos εpos, mul_pos hkpos εpos]
    have εval : ε * 2 ^ 49 = 1 / 16 := by rw [hε]; norm_num
    have hkε : (k : Rat) * ε < 1 / 16 := by
      calc (k : Rat) * ε < 2 ^ 49 * ε := mul_lt_mul_of_pos_right hkR εpos
        _ = 1 / 16 := by rw [mul_comm]; exact εval
    have εsmall : ε ≤ 1 / 1000 := by rw [hε]; norm_num
    have hPε : P * ε < 1 / 15 := by nlinarith [mul_pos hkpos εpos]
    have hv : |rne (rne (1 / hz) * 10 ^ 12) - (k : Rat)| < 1 / 2 := by
      have e : rne (rne (1 / hz) * 10 ^ 12) - (k : Rat)
          = (rne (rne (1 / hz) * 10 ^ 12) - P) + (P - k) := by ring
      rw [e]
      have h2 : |P - (k : Rat)| ≤ P * (7 / 2 * ε) := by rw [abs_sub_comm]; exact hX
      exact lt_of_le_of_lt (abs_add_le _ _) (by nlinarith)
    have hpk : rint (rne (rne (1 / hz) * 10 ^ 12)) = k := rint_eq_of_near _ k hv
    rw [hpk]
    have hw := rne_chain3 (k : Rat) F hF
    rw [← hε, abs_of_pos hkpos] at hw
    apply rint_eq_of_near
    calc |rne (rne (rne (k : Rat) / F) * F) - (k : Rat)| ≤ (k : Rat) * (7 / 2 * ε) := hw
      _ < 1 / 2 := by nlinarith


/-- a specification with a bare binary64 interval and an explicit unit resolves to the interval
cast by the `TimeArray` rule and to the rate `Frequency(1.0/x, unit)` -/
theorem resolve_interval_flt {v : Variant} {s : Spec} {r : Resolved} {x : Rat} {u : TimeUnit}
    (h : resolve v s = .ok r) (hd : s.data = none) (hi : s.interval = some (.num (.flt x)))
    (hr : s.rate = none) (hu : s.unit = .ok u) :
    x ≠ 0 ∧ r.dt = toPs u (.flt x) ∧ r.rate = frequency (F64.fdiv 1 x) u ∧ r.unit = u ∧
    r.t0 = targPs u (s.t0.getD (.num (.int 0))) := by
  obtain ⟨data, length, duration, rate, interval, t0, unit⟩ := s
  simp only at hd hi hr hu
  subst hd hi hr hu
  by_cases hx : x = 0
  · simp [resolve, inherit, checkUnit, inferUnit, deriveIntervalRate, numToF, bind, Except.bind, hx] at h
  · simp only [resolve, inherit, checkUnit, inferUnit, deriveIntervalRate, numToF, bind, Except.bind, hx,
      pure, Except.pure, if_false] at h
    split at h
    · cases h
    · simp only [Except.ok.injEq] at h
      subst h
      exact ⟨hx, rfl, rfl, rfl, rfl⟩

/-- a specification with a `Frequency` object as rate and an explicit unit resolves to the
interval derived from that rate, and reports that rate -/
theorem resolve_rate_freq {v : Variant} {s : Spec} {r : Resolved} {hz : Rat} {u : TimeUnit}
    (h : resolve v s = .ok r) (hd : s.data = none) (hi : s.interval = none)
    (hr : s.rate = some (.freq hz)) (hu : s.unit = .ok u) :
    ∃ x, intervalOfRate v u hz = .ok x ∧ r.dt = toPs u (.flt x) ∧ r.rate = hz ∧ r.unit = u ∧
    r.t0 = targPs u (s.t0.getD (.num (.int 0))) := by
  obtain ⟨data, length, duration, rate, interval, t0, unit⟩ := s
  simp only at hd hi hr hu
  subst hd hi hr hu
  simp only [resolve, inherit, checkUnit, inferUnit, deriveIntervalRate, bind, Except.bind,
    pure, Except.pure] at h
  cases hx : intervalOfRate v u hz with
  | error e => rw [hx] at h; cases h
  | ok x =>
    rw [hx] at h
    simp only at h
    split at h
    · cases h
    · simp only [Except.ok.injEq] at h
      subst h
      exact ⟨x, rfl, rfl, rfl, rfl, rfl⟩

/-- rate path on the model functions -/
theorem rate_interval_close (u : TimeUnit) (hz : Rat) (hhz : 0 < hz) :
    ∃ x, intervalOfRate .intended u hz = .ok x ∧
      |((toPs u (.flt x) : Int) : Rat) - 10 ^ 12 / hz| ≤ 1 + 7 * (10 ^ 12 / hz + 1) / 2 ^ 53 := by
  have hs : cf .s = 10 ^ 12 := by rw [cf_exact]; norm_num [Generated.factor]
  have hps : cf .ps = 1 := by rw [cf_exact]; norm_num [Generated.factor]
  have h1 : rne ((10 : Rat) ^ 12 / 1) = 10 ^ 12 := by
    have := rne_natCast (10 ^ 12) (by norm_num)
    rw [div_one]; exact_mod_cast this
  refine ⟨fdiv (ofInt (rint (periodF hz))) (cf u), ?_, ?_⟩
  · simp only [intervalOfRate, toPeriod, hhz.ne', if_false]
  · simp only [toPs, C01.toPsF, fmul, fdiv, periodF, hs, hps, h1, ofInt]
    rw [show rne ((Generated.factor u : Int) : Rat) = (Generated.factor u : Rat) from cf_exact u]
    have := rate_core hz (Generated.factor u : Rat) hhz (factor_pos u)
    simpa [cf_exact] using this

/-- an interval that is a whole number `k < 2⁴⁹` of picoseconds, and the rate reported for it,
resolve to the same stored interval `k` -/
theorem same_sampling_interval_rate (u : TimeUnit) (x : Rat) (k : Int) (hx : 0 < x)
    (hk : x * (Generated.factor u : Rat) = k) (hlt : k < 2 ^ 49) :
    toPs u (.flt x) = k ∧
    ∃ x', intervalOfRate .intended u (frequency (fdiv 1 x) u) = .ok x' ∧ toPs u (.flt x') = k := by
  have hs : cf .s = 10 ^ 12 := by rw [cf_exact]; norm_num [Generated.factor]
  have hps : cf .ps = 1 := by rw [cf_exact]; norm_num [Generated.factor]
  have h1 : rne ((10 : Rat) ^ 12 / 1) = 10 ^ 12 := by
    have := rne_natCast (10 ^ 12) (by norm_num)
    rw [div_one]; exact_mod_cast this
  obtain ⟨c1, c2⟩ := same_sampling_core x (Generated.factor u : Rat) k hx (factor_pos u) hk hlt
  have hfac : rne ((Generated.factor u : Int) : Rat) = (Generated.factor u : Rat) := cf_exact u
  have hzpos := (hz_core x (Generated.factor u : Rat) hx (factor_pos u)).1
  have hfreq : frequency (fdiv 1 x) u = rne (rne (1 / x) * rne (10 ^ 12 / (Generated.factor u : Rat))) := by
    simp only [frequency, fmul, fdiv, hs, cf_exact]
  constructor
  · simp only [toPs, C01.toPsF, fmul, ofInt, hfac]; exact c1
  · refine ⟨fdiv (ofInt (rint (periodF (frequency (fdiv 1 x) u)))) (cf u), ?_, ?_⟩
    · simp only [intervalOfRate, toPeriod]
      rw [if_neg (by rw [hfreq]; exact hzpos.ne')]
    · rw [hfreq]
      simp only [toPs, C01.toPsF, fmul, fdiv, periodF, hs, hps, h1, ofInt, hfac, cf_exact]
      exact c2

theorem rne_one : rne 1 = 1 := by
  have := rne_natCast 1 (by norm_num); simpa using this

/-- `Frequency(hz, 's')` of a binary64 number is that number -/
theorem frequency_s_of_repr (hz : Rat) (h : rne hz = hz) : frequency hz .s = hz := by
  have hs : cf .s = 10 ^ 12 := by rw [cf_exact]; norm_num [Generated.factor]
  simp only [frequency, fmul, fdiv, hs]
  rw [div_self (by positivity), rne_one, mul_one, h]

/-- a specification with a bare number as rate (Hz) and an explicit unit -/
theorem resolve_rate_num {v : Variant} {s : Spec} {r : Resolved} {q : C01.Num} {u : TimeUnit}
    (h : resolve v s = .ok r) (hd : s.data = none) (hi : s.interval = none)
    (hr : s.rate = some (.num q)) (hu : s.unit = .ok u) :
    ∃ x, intervalOfRate v u (frequency (numToF q) .s) = .ok x ∧ r.dt = toPs u (.flt x) ∧
      r.rate = frequency (numToF q) .s ∧ r.unit = u ∧ r.t0 = targPs u (s.t0.getD (.num (.int 0))) := by
  obtain ⟨data, length, duration, rate, interval, t0, unit⟩ := s
  simp only at hd hi hr hu
  subst hd hi hr hu
  simp only [resolve, inherit, checkUnit, inferUnit, deriveIntervalRate, bind, Except.bind,
    pure, Except.pure] at h
  cases hx : intervalOfRate v u (frequency (numToF q) .s) with
  | error e => rw [hx] at h; cases h
  | ok x =>
    rw [hx] at h
    simp only at h
    split at h
    · cases h
    · simp only [Except.ok.injEq] at h
      subst h
      exact ⟨x, rfl, rfl, rfl, rfl, rfl⟩

end floatchain

end Nitime.C02
