/-
C09 — band-index selection on the FLOAT frequency grids.

`cache_fft` selects its band with `utils.get_bounds` on the vector `utils.get_freqs(Fs, NFFT)`, a binary64 computation
`fl(fl(k · fl(1/N)) · Fs)`; the dense path's vector is mlab's `fl(k · fl(1 / fl(N · fl(1/Fs))))`.  The property talks
about the bins whose frequency lies in `[lb, ub]`.  Here the float computations are modelled with an ABSTRACT rounding
function `r : ℚ → ℚ` of which only monotonicity and `r 0 = 0` are used (true of round-to-nearest-even and of every
IEEE rounding mode; binary64 values are rationals), so the statements hold for the real binary64 arithmetic:

* both float grids are ascending (`getFreqsR_sorted`, `mlabFreqsR_sorted`) — so `np.searchsorted` is meaningful and
  `get_bounds` keeps exactly the bins whose FLOAT frequency lies in the band (`float_band_kept_bins`);
* if no band edge separates a float frequency from its exact value `k·Fs/N`, the float selection is the exact selection
  (`float_band_eq_exact_band`); with relative rounding error `u` per operation the float frequency is within
  `((1+u)³ − 1)·k·Fs/N` of the exact one (`getFreqsR_error`), so an edge farther than that from every bin qualifies
  (`float_band_eq_exact_band_of_offgrid`);
* where the float grid is exact (N a power of two, Fs with a short mantissa) the two selections coincide for EVERY
  band, edges on a bin or one ulp beside it included (`float_band_eq_exact_band_of_exact_grid`).
-/
import Nitime.Lemmas.CohBounds

namespace Nitime.Coh

/-- a floating-point rounding, as far as it is used here -/
structure Rounding where
  r : ℚ → ℚ
  mono : Monotone r
  zero : r 0 = 0

theorem Rounding.nonneg (R : Rounding) {x : ℚ} (hx : 0 ≤ x) : 0 ≤ R.r x := by
  have := R.mono hx
  rwa [R.zero] at this

/-- `utils.get_freqs(Fs, N)` = `np.fft.rfftfreq(N) * Fs` in rounded arithmetic: `fl(fl(k · fl(1/N)) · Fs)`
(the text of `CohBase.getFreqs`) -/
def getFreqsR (R : Rounding) (Fs : ℚ) (N : ℕ) : List ℚ :=
  (List.range (N / 2 + 1)).map fun (k : ℕ) => R.r (R.r ((k : ℚ) * R.r (1 / (N : ℚ))) * Fs)

/-- mlab's `np.fft.fftfreq(N, 1/Fs)[:N//2+1]` in rounded arithmetic: `fl(k · fl(1 / fl(N · fl(1/Fs))))`
(the text of `C09.mlabFreqs`) -/
def mlabFreqsR (R : Rounding) (Fs : ℚ) (N : ℕ) : List ℚ :=
  (List.range (N / 2 + 1)).map fun (k : ℕ) => R.r ((k : ℚ) * R.r (1 / R.r ((N : ℚ) * R.r (1 / Fs))))

theorem getFreqsR_sorted (R : Rounding) {Fs : ℚ} (hFs : 0 ≤ Fs) (N : ℕ) :
    (getFreqsR R Fs N).Pairwise (· ≤ ·) := by
  unfold getFreqsR
  rw [List.pairwise_map]
  refine List.Pairwise.imp ?_ List.pairwise_lt_range
  intro a b hab
  have h1 : (a : ℚ) ≤ (b : ℚ) := by exact_mod_cast hab.le
  have hc : 0 ≤ R.r (1 / (N : ℚ)) := R.nonneg (by positivity)
  exact R.mono (mul_le_mul_of_nonneg_right (R.mono (mul_le_mul_of_nonneg_right h1 hc)) hFs)

theorem mlabFreqsR_sorted (R : Rounding) {Fs : ℚ} (hFs : 0 ≤ Fs) (N : ℕ) :
    (mlabFreqsR R Fs N).Pairwise (· ≤ ·) := by
  unfold mlabFreqsR
  rw [List.pairwise_map]
  refine List.Pairwise.imp ?_ List.pairwise_lt_range
  intro a b hab
  have h1 : (a : ℚ) ≤ (b : ℚ) := by exact_mod_cast hab.le
  have h2 : 0 ≤ R.r (1 / Fs) := R.nonneg (by positivity)
  have h3 : 0 ≤ R.r ((N : ℚ) * R.r (1 / Fs)) := R.nonneg (by positivity)
  have hc : 0 ≤ R.r (1 / R.r ((N : ℚ) * R.r (1 / Fs))) := R.nonneg (by positivity)
  exact R.mono (mul_le_mul_of_nonneg_right h1 hc)

theorem getFreqsR_length (R : Rounding) (Fs : ℚ) (N : ℕ) : (getFreqsR R Fs N).length = N / 2 + 1 := by
  simp [getFreqsR]

abbrev gb (f : List ℚ) (lb : ℚ) (ub : Option ℚ) : ℕ × ℕ :=
  getBoundsBy (fun a b => decide (a < b)) (fun a b => decide (a ≤ b)) f lb ub

/-- **float band selection keeps the bins whose float frequency lies in the band** -/
theorem float_band_kept_bins (R : Rounding) {Fs : ℚ} (hFs : 0 ≤ Fs) (N : ℕ) (lb ub : ℚ) (k : ℕ)
    (hk : k < (getFreqsR R Fs N).length) :
    ((gb (getFreqsR R Fs N) lb (some ub)).1 ≤ k ∧ k < (gb (getFreqsR R Fs N) lb (some ub)).2)
      ↔ (lb ≤ (getFreqsR R Fs N)[k] ∧ (getFreqsR R Fs N)[k] ≤ ub) :=
  getBounds_kept_bins _ (getFreqsR_sorted R hFs N) lb ub k hk

theorem float_band_kept_bins_none (R : Rounding) {Fs : ℚ} (hFs : 0 ≤ Fs) (N : ℕ) (lb : ℚ) (k : ℕ)
    (hk : k < (getFreqsR R Fs N).length) :
    ((gb (getFreqsR R Fs N) lb none).1 ≤ k ∧ k < (gb (getFreqsR R Fs N) lb none).2)
      ↔ lb ≤ (getFreqsR R Fs N)[k] :=
  getBounds_kept_bins_none _ (getFreqsR_sorted R hFs N) lb k hk

/-- counting the entries of a mapped range below / up to a value only depends on the truth values entry by entry -/
theorem count_map_range_congr (n : ℕ) (f g : ℕ → ℚ) (p q : ℚ → Bool)
    (h : ∀ k < n, p (f k) = q (g k)) :
    (((List.range n).map f).filter p).length = (((List.range n).map g).filter q).length := by
  rw [List.filter_map, List.filter_map, List.length_map, List.length_map]
  congr 1
  apply List.filter_congr
  intro k hk
  exact h k (List.mem_range.mp hk)

/-- **float selection = exact selection** when no band edge falls between a float frequency and its exact value:
the indices `get_bounds` computes on the float vector are those it would compute on `k·Fs/N` -/
theorem float_band_eq_exact_band (R : Rounding) {Fs : ℚ} (hFs : 0 ≤ Fs) (N : ℕ) (lb ub : ℚ)
    (hlb : ∀ k < N / 2 + 1, (R.r (R.r ((k : ℚ) * R.r (1 / (N : ℚ))) * Fs) < lb ↔ (k : ℚ) * Fs / (N : ℚ) < lb))
    (hub : ∀ k < N / 2 + 1, (R.r (R.r ((k : ℚ) * R.r (1 / (N : ℚ))) * Fs) ≤ ub ↔ (k : ℚ) * Fs / (N : ℚ) ≤ ub)) :
    gb (getFreqsR R Fs N) lb (some ub) = gb (Nitime.C05.trueOneSided Fs N) lb (some ub) := by
  unfold gb getBoundsBy
  simp only [searchLeftBy_eq _ (getFreqsR_sorted R hFs N), searchRightBy_eq _ (getFreqsR_sorted R hFs N),
    searchLeftBy_eq _ (Nitime.C05.trueOneSided_sorted Fs hFs N), searchRightBy_eq _ (Nitime.C05.trueOneSided_sorted Fs hFs N)]
  unfold Nitime.C05.searchLeft Nitime.C05.searchRight getFreqsR Nitime.C05.trueOneSided
  congr 1
  · exact count_map_range_congr _ _ _ _ _ (fun k hk => by simp only [decide_eq_decide]; exact hlb k hk)
  · exact count_map_range_congr _ _ _ _ _ (fun k hk => by simp only [decide_eq_decide]; exact hub k hk)

/-- where the float grid is exact, EVERY band (edges on a bin or one ulp beside it included) selects the same bins
on the float vector as on the exact grid -/
theorem float_band_eq_exact_band_of_exact_grid (R : Rounding) (Fs : ℚ) (N : ℕ) (lb : ℚ) (ub : Option ℚ)
    (hex : getFreqsR R Fs N = Nitime.C05.trueOneSided Fs N) :
    gb (getFreqsR R Fs N) lb ub = gb (Nitime.C05.trueOneSided Fs N) lb ub := by rw [hex]

/-- the cache's and the dense path's float vectors select the same bins whenever they are the same vector (what the
`grid` correspondence op compares on every run) -/
theorem cache_and_dense_float_bands_agree (R : Rounding) (Fs : ℚ) (N : ℕ) (lb : ℚ) (ub : Option ℚ)
    (h : getFreqsR R Fs N = mlabFreqsR R Fs N) :
    gb (getFreqsR R Fs N) lb ub = gb (mlabFreqsR R Fs N) lb ub := by rw [h]

/-! ### how far a float frequency can be from `k·Fs/N` -/

/-- relative error `u` per operation: `|r x − x| ≤ u·|x|` -/
def Rounding.relErr (R : Rounding) (u : ℚ) : Prop := ∀ x, |R.r x - x| ≤ u * |x|

theorem relErr_bounds {R : Rounding} {u : ℚ} (h : R.relErr u) {x : ℚ} (hx : 0 ≤ x) :
    (1 - u) * x ≤ R.r x ∧ R.r x ≤ (1 + u) * x := by
  have := h x
  rw [abs_of_nonneg hx, abs_le] at this
  constructor <;> nlinarith [this.1, this.2]

/-- three roundings: the float frequency of bin `k` lies in `[(1−u)³, (1+u)³] · k·Fs/N` -/
theorem getFreqsR_error (R : Rounding) {u : ℚ} (hu0 : 0 ≤ u) (hu1 : u ≤ 1) (h : R.relErr u) {Fs : ℚ} (hFs : 0 ≤ Fs)
    (N k : ℕ) :
    (1 - u) ^ 3 * ((k : ℚ) * Fs / (N : ℚ)) ≤ R.r (R.r ((k : ℚ) * R.r (1 / (N : ℚ))) * Fs)
      ∧ R.r (R.r ((k : ℚ) * R.r (1 / (N : ℚ))) * Fs) ≤ (1 + u) ^ 3 * ((k : ℚ) * Fs / (N : ℚ)) := by
  have hk : (0 : ℚ) ≤ (k : ℚ) := by positivity
  have hi : (0 : ℚ) ≤ 1 / (N : ℚ) := by positivity
  have h1 := relErr_bounds h hi
  have hc : 0 ≤ R.r (1 / (N : ℚ)) := R.nonneg hi
  have h2 := relErr_bounds h (mul_nonneg hk hc)
  have hd : 0 ≤ R.r ((k : ℚ) * R.r (1 / (N : ℚ))) := R.nonneg (mul_nonneg hk hc)
  have h3 := relErr_bounds h (mul_nonneg hd hFs)
  have e : (k : ℚ) * Fs / (N : ℚ) = (k : ℚ) * (1 / (N : ℚ)) * Fs := by ring
  have hu : 0 ≤ 1 - u := by linarith
  have hup : 0 ≤ 1 + u := by linarith
  rw [e]
  constructor
  · calc (1 - u) ^ 3 * ((k : ℚ) * (1 / (N : ℚ)) * Fs)
        = (1 - u) * ((1 - u) * ((k : ℚ) * ((1 - u) * (1 / (N : ℚ)))) * Fs) := by ring
      _ ≤ (1 - u) * ((1 - u) * ((k : ℚ) * R.r (1 / (N : ℚ))) * Fs) := by
          apply mul_le_mul_of_nonneg_left _ hu
          apply mul_le_mul_of_nonneg_right _ hFs
          apply mul_le_mul_of_nonneg_left _ hu
          exact mul_le_mul_of_nonneg_left h1.1 hk
      _ ≤ (1 - u) * (R.r ((k : ℚ) * R.r (1 / (N : ℚ))) * Fs) := by
          apply mul_le_mul_of_nonneg_left _ hu
          exact mul_le_mul_of_nonneg_right h2.1 hFs
      _ ≤ _ := h3.1
  · calc R.r (R.r ((k : ℚ) * R.r (1 / (N : ℚ))) * Fs)
        ≤ (1 + u) * (R.r ((k : ℚ) * R.r (1 / (N : ℚ))) * Fs) := h3.2
      _ ≤ (1 + u) * ((1 + u) * ((k : ℚ) * R.r (1 / (N : ℚ))) * Fs) := by
          apply mul_le_mul_of_nonneg_left _ hup
          exact mul_le_mul_of_nonneg_right h2.2 hFs
      _ ≤ (1 + u) * ((1 + u) * ((k : ℚ) * ((1 + u) * (1 / (N : ℚ)))) * Fs) := by
          apply mul_le_mul_of_nonneg_left _ hup
          apply mul_le_mul_of_nonneg_right _ hFs
          apply mul_le_mul_of_nonneg_left _ hup
          exact mul_le_mul_of_nonneg_left h1.2 hk
      _ = (1 + u) ^ 3 * ((k : ℚ) * (1 / (N : ℚ)) * Fs) := by ring

/-- **off-grid band edges**: if every band edge is outside the error interval `[(1−u)³, (1+u)³]·k·Fs/N` of every bin
(the harness generates its ordinary band edges half a bin away from the grid), the float selection is the exact one -/
theorem float_band_eq_exact_band_of_offgrid (R : Rounding) {u : ℚ} (hu0 : 0 ≤ u) (hu1 : u ≤ 1) (h : R.relErr u)
    {Fs : ℚ} (hFs : 0 ≤ Fs) (N : ℕ) (lb ub : ℚ)
    (hlb : ∀ k < N / 2 + 1, lb < (1 - u) ^ 3 * ((k : ℚ) * Fs / (N : ℚ)) ∨ (1 + u) ^ 3 * ((k : ℚ) * Fs / (N : ℚ)) < lb)
    (hub : ∀ k < N / 2 + 1, ub < (1 - u) ^ 3 * ((k : ℚ) * Fs / (N : ℚ)) ∨ (1 + u) ^ 3 * ((k : ℚ) * Fs / (N : ℚ)) < ub) :
    gb (getFreqsR R Fs N) lb (some ub) = gb (Nitime.C05.trueOneSided Fs N) lb (some ub) := by
  have hx : ∀ k : ℕ, 0 ≤ (k : ℚ) * Fs / (N : ℚ) := fun k => by positivity
  have lo : ∀ k : ℕ, (1 - u) ^ 3 * ((k : ℚ) * Fs / (N : ℚ)) ≤ (k : ℚ) * Fs / (N : ℚ) := fun k => by
    have : (1 - u) ^ 3 ≤ 1 := pow_le_one₀ (by linarith) (by linarith)
    nlinarith [hx k]
  have hi : ∀ k : ℕ, (k : ℚ) * Fs / (N : ℚ) ≤ (1 + u) ^ 3 * ((k : ℚ) * Fs / (N : ℚ)) := fun k => by
    have : 1 ≤ (1 + u) ^ 3 := one_le_pow₀ (by linarith)
    nlinarith [hx k]
  apply float_band_eq_exact_band R hFs N lb ub
  · intro k hk
    have e := getFreqsR_error R hu0 hu1 h hFs N k
    rcases hlb k hk with h1 | h1
    · exact ⟨fun h2 => absurd (lt_of_lt_of_le h1 e.1) (not_lt.mpr h2.le), fun h2 => absurd (lt_of_lt_of_le h1 (lo k)) (not_lt.mpr h2.le)⟩
    · exact ⟨fun _ => lt_of_le_of_lt (hi k) h1, fun _ => lt_of_le_of_lt e.2 h1⟩
  · intro k hk
    have e := getFreqsR_error R hu0 hu1 h hFs N k
    rcases hub k hk with h1 | h1
    · exact ⟨fun h2 => absurd (lt_of_lt_of_le h1 e.1) (not_lt.mpr h2), fun h2 => absurd (lt_of_lt_of_le h1 (lo k)) (not_lt.mpr h2)⟩
    · exact ⟨fun _ => (lt_of_le_of_lt (hi k) h1).le, fun _ => (lt_of_le_of_lt e.2 h1).le⟩

-- non-vacuity: the identity rounding (exact arithmetic) is a rounding with relative error 0
def exactRounding : Rounding := ⟨id, monotone_id, rfl⟩
example : exactRounding.relErr 0 := fun x => by simp [exactRounding]
example : getFreqsR exactRounding 10 5 = [0, 2, 4] := by
  simp [getFreqsR, exactRounding, List.range_succ]; norm_num

end Nitime.Coh
