/- Relative-error bound of the exact binary64 model: |rne q − q| ≤ |q|·2⁻⁵³. -/
import Nitime.Model.F64
import Nitime.Lemmas.F64
import Mathlib.Algebra.Order.Field.Power
import Mathlib.Algebra.Order.Floor.Ring
import Mathlib.Data.Rat.Floor
import Mathlib.Tactic.Linarith
import Mathlib.Tactic.Ring
import Mathlib.Tactic.FieldSimp
import Mathlib.Tactic.Positivity

namespace Nitime.F64

theorem pow2_eq_zpow (e : Int) : pow2 e = (2 : Rat) ^ e := by
  unfold pow2
  split_ifs with h
  · lift e to Nat using h
    simp
  · have h' : 0 ≤ -e := by omega
    obtain ⟨n, hn⟩ := Int.eq_ofNat_of_zero_le h'
    have : e = -(n : Int) := by omega
    subst this
    simp

theorem pow2_pos (e : Int) : 0 < pow2 e := by
  rw [pow2_eq_zpow]; positivity

theorem pow2_add (a b : Int) : pow2 (a + b) = pow2 a * pow2 b := by
  simp only [pow2_eq_zpow]; exact zpow_add₀ (by norm_num) a b

/-- the exponent chosen by `ilog2` never overshoots: 2^(ilog2 a) ≤ a for a > 0 -/
theorem pow2_ilog2_le {a : Rat} (ha : 0 < a) : pow2 (ilog2 a) ≤ a := by
  unfold ilog2
  simp only
  split_ifs with h1 h2
  · exact h2
  · exact h1
  · -- 2^(log2 n − log2 d − 1) ≤ n/d from 2^log2 n ≤ n and d < 2^(log2 d + 1)
    have hn : 0 < a.num := Rat.num_pos.mpr ha
    have hn' : a.num.toNat ≠ 0 := by omega
    have hd : a.den ≠ 0 := a.den_nz
    have h2n : (2 : Rat) ^ (Nat.log2 a.num.toNat) ≤ (a.num.toNat : Rat) := by
      exact_mod_cast Nat.log2_self_le hn'
    have h2d : (a.den : Rat) < (2 : Rat) ^ (Nat.log2 a.den + 1) := by
      exact_mod_cast (Nat.lt_log2_self (n := a.den))
    have hnum : (a.num.toNat : Rat) = (a.num : Rat) := by
      have : ((a.num.toNat : Int)) = a.num := Int.toNat_of_nonneg hn.le
      exact_mod_cast this
    have hdpos : (0 : Rat) < a.den := by exact_mod_cast Nat.pos_of_ne_zero hd
    have ha' : (a.num : Rat) / (a.den : Rat) = a := Rat.num_div_den a
    rw [pow2_eq_zpow]
    have e1 : ((Nat.log2 a.num.toNat : Int) - (Nat.log2 a.den : Int) - 1)
        = (Nat.log2 a.num.toNat : Int) - ((Nat.log2 a.den + 1 : Nat) : Int) := by push_cast; ring
    rw [e1, zpow_sub₀ (by norm_num : (2 : Rat) ≠ 0), zpow_natCast, zpow_natCast]
    have hgoal : (2 : Rat) ^ Nat.log2 a.num.toNat / (2 : Rat) ^ (Nat.log2 a.den + 1)
        ≤ (a.num : Rat) / (a.den : Rat) := by
      rw [div_le_div_iff₀ (by positivity) hdpos, ← hnum]
      calc (2 : Rat) ^ Nat.log2 a.num.toNat * (a.den : Rat)
          ≤ (a.num.toNat : Rat) * (a.den : Rat) := by gcongr
        _ ≤ (a.num.toNat : Rat) * (2 : Rat) ^ (Nat.log2 a.den + 1) := by
            have : (0 : Rat) ≤ (a.num.toNat : Rat) := by positivity
            gcongr
    calc _ ≤ (a.num : Rat) / (a.den : Rat) := hgoal
      _ = a := ha'

/-- the positive core of `rne` -/
theorem rne_core_near {a : Rat} (hapos : 0 < a) :
    |((rint (a / pow2 (ilog2 a - 52)) : Int) : Rat) * pow2 (ilog2 a - 52) - a| ≤ a * pow2 (-53) := by
  set e := ilog2 a
  set ulp := pow2 (e - 52) with hulp
  have hulpos : 0 < ulp := pow2_pos _
  have hr := rint_near (a / ulp)
  have key : |((rint (a / ulp) : Int) : Rat) * ulp - a| ≤ ulp / 2 := by
    have : ((rint (a / ulp) : Int) : Rat) * ulp - a = (((rint (a / ulp) : Int) : Rat) - a / ulp) * ulp := by
      field_simp
    rw [this, abs_mul, abs_of_pos hulpos]
    calc |((rint (a / ulp) : Int) : Rat) - a / ulp| * ulp ≤ (1 / 2) * ulp := by gcongr
      _ = ulp / 2 := by ring
  have hle : ulp / 2 ≤ a * pow2 (-53) := by
    have h1 : ulp / 2 = pow2 e * pow2 (-53) := by
      rw [hulp, show e - 52 = e + (-52) by ring, pow2_add]
      simp only [pow2_eq_zpow]
      rw [show (-53 : Int) = -52 + (-1) by norm_num, zpow_add₀ (by norm_num : (2 : Rat) ≠ 0)]
      norm_num; ring
    rw [h1]
    have := pow2_ilog2_le hapos
    have hp : 0 < pow2 (-53) := pow2_pos _
    gcongr
  exact key.trans hle

/-- rounding to nearest-even double: relative error at most 2⁻⁵³ -/
theorem rne_near (q : Rat) : |rne q - q| ≤ |q| * pow2 (-53) := by
  rcases lt_trichotomy q 0 with h | h | h
  · have h0 : q ≠ 0 := ne_of_lt h
    have := rne_core_near (a := -q) (by linarith)
    simp only [rne, h0, h, if_true, if_false]
    rw [abs_of_neg h]
    have e : -(((rint (-q / pow2 (ilog2 (-q) - 52)) : Int) : Rat) * pow2 (ilog2 (-q) - 52)) - q
        = -((((rint (-q / pow2 (ilog2 (-q) - 52)) : Int) : Rat) * pow2 (ilog2 (-q) - 52)) - -q) := by ring
    rw [e, abs_neg]; exact this
  · subst h; simp [rne]
  · have h0 : q ≠ 0 := ne_of_gt h
    have hn : ¬ q < 0 := not_lt.mpr h.le
    have := rne_core_near (a := q) h
    simp only [rne, h0, hn, if_false]
    rw [abs_of_pos h]; exact this

end Nitime.F64
