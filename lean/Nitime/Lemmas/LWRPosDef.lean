/-
Positive-definiteness side of the block Levinson (LWR) recursion: under the invariant `LWR.Inv`
the two error covariances are the "quadratic forms" `Σ_{i,k} A_i·R(k−i)·A_kᴴ` and
`Σ_{j,k} B_j·R(j−k)·B_kᴴ` of the coefficient rows in the block-Toeplitz matrix, hence self-adjoint
(and positive definite when that matrix is — used in `Props/C11.lean`).
-/
import Nitime.Lemmas.BlockLevinson

open Finset

namespace LWR
section generic
variable {M : Type*} [Ring M] [StarRing M] {R : ℤ → M}

/-- the forward error covariance is the "quadratic form" of the coefficient row in the block
Toeplitz matrix `T_{ik} = R(k − i)` -/
theorem sf_quadratic {p : ℕ} {s : St M} (h : Inv R p s) :
    s.sf = ∑ k ∈ range (p + 1), ∑ i ∈ range (p + 1), s.A i * R ((k : ℤ) - i) * star (s.A k) := by
  have inner : ∀ k ∈ range (p + 1), ∑ i ∈ range (p + 1), s.A i * R ((k : ℤ) - i) * star (s.A k)
      = (if k = 0 then s.sf else 0) * star (s.A k) := by
    intro k hk
    simp only [mem_range] at hk
    rw [← sum_mul]
    by_cases h0 : k = 0
    · subst h0
      rw [if_pos rfl, h.SF]
      congr 1
      refine sum_congr rfl fun i _ => ?_
      simp
    · rw [if_neg h0, h.F k (by omega) (by omega)]
  rw [sum_congr rfl inner, sum_eq_single 0]
  · simp [h.A0]
  · intro k _ hk; simp [hk]
  · intro h0; simp at h0

theorem sb_quadratic {p : ℕ} {s : St M} (h : Inv R p s) :
    s.sb = ∑ k ∈ range (p + 1), ∑ j ∈ range (p + 1), s.B j * R ((j : ℤ) - k) * star (s.B k) := by
  have inner : ∀ k ∈ range (p + 1), ∑ j ∈ range (p + 1), s.B j * R ((j : ℤ) - k) * star (s.B k)
      = (if k = 0 then s.sb else 0) * star (s.B k) := by
    intro k hk
    simp only [mem_range] at hk
    rw [← sum_mul]
    by_cases h0 : k = 0
    · subst h0
      rw [if_pos rfl, h.SB]
      simp
    · rw [if_neg h0, h.Bk k (by omega) (by omega)]
  rw [sum_congr rfl inner, sum_eq_single 0]
  · simp [h.B0]
  · intro k _ hk; simp [hk]
  · intro h0; simp at h0

theorem sf_selfadjoint (hR : ∀ m, star (R m) = R (-m)) {p : ℕ} {s : St M} (h : Inv R p s) :
    star s.sf = s.sf := by
  rw [sf_quadratic h, star_sum]
  simp only [star_sum, star_mul, star_star, hR, neg_sub, mul_assoc]
  rw [sum_comm]

theorem sb_selfadjoint (hR : ∀ m, star (R m) = R (-m)) {p : ℕ} {s : St M} (h : Inv R p s) :
    star s.sb = s.sb := by
  rw [sb_quadratic h, star_sum]
  simp only [star_sum, star_mul, star_star, hR, neg_sub, mul_assoc]
  rw [sum_comm]

end generic
end LWR
