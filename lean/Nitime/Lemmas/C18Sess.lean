/-
Lemmas about the FilterAnalyzer session model (Model/C18Sess.lean).  Core Lean only.  Everything holds for every
`Sem` (uninterpreted getter bodies) and EVERY history (list of parameter assignments, resets, reads, input changes).

* `run_inv` / `read_clean_eq_fresh` — under the discipline "reset drops every stored attribute; a read computes purely
  from (input, params) and stores" (that IS `step`), and getter bodies whose parameter writes do not change any
  getter's value (`TouchInv`: `ub None ↦ Fs/2`), after ANY history in which a reset() followed the last assignment,
  a read returns what a newly constructed analyzer with the current input and parameters returns.
* `cached_inplace_counterexample` — a transform kept across reset() and nulled in place (`cstep`) violates it: a widening
  band returns zeros in band.  `cstepCopy_eq_fresh`: the same memo masked on a copy is fine as long as the input is the same.
-/
import Nitime.Model.C18Sess

namespace Nitime.C18.Sess

variable {I P V C : Type}

/-- parameter writes of a getter body never change the value of any getter -/
def TouchInv (S : Sem I P V) : Prop := ∀ m m' i p, S.compute m i (S.touch m' i p) = S.compute m i p

/-- every stored attribute is what its getter computes from the CURRENT input and parameters -/
def Valid (S : Sem I P V) (s : St I P V) : Prop := ∀ m v, s.cache m = some v → v = S.compute m s.input s.params

theorem valid_fresh (S : Sem I P V) (i : I) (p : P) : Valid S (fresh i p) := by
  intro m v h; cases h

theorem step_read_hit (S : Sem I P V) (s : St I P V) (m : Meth) (v : V) (h : s.cache m = some v) :
    step S s (.read m) = (s, some v) := by
  simp [step, h]

theorem step_read_miss (S : Sem I P V) (s : St I P V) (m : Meth) (h : s.cache m = none) :
    step S s (.read m) =
      ({ s with params := S.touch m s.input s.params,
                cache := fun m' => if m' = m then some (S.compute m s.input s.params) else s.cache m' },
        some (S.compute m s.input s.params)) := by
  simp [step, h]

theorem step_inv (S : Sem I P V) (hT : TouchInv S) (s : St I P V) (d : Bool) (o : Op I P)
    (h : d = false → Valid S s) :
    dirtyAfter d [o] = false → Valid S (step S s o).1 := by
  cases o with
  | setParam u => intro hd; cases hd
  | setInput i => intro hd; cases hd
  | reset => intro _ m v hv; cases hv
  | refused => intro hd; exact h hd
  | read m =>
    intro hd
    have hv := h hd
    cases hc : s.cache m with
    | some v => rw [step_read_hit S s m v hc]; exact hv
    | none =>
      rw [step_read_miss S s m hc]
      intro m' v' hv'
      by_cases e : m' = m
      · subst e
        simp at hv'
        subst hv'
        exact (hT _ _ _ _).symm
      · simp [e] at hv'
        rw [hv m' v' hv']
        exact (hT _ _ _ _).symm

theorem dirtyAfter_cons (d : Bool) (o : Op I P) (os : List (Op I P)) :
    dirtyAfter d (o :: os) = dirtyAfter (dirtyAfter d [o]) os := by
  cases o <;> rfl

theorem run_cons (S : Sem I P V) (s : St I P V) (o : Op I P) (os : List (Op I P)) :
    (run S s (o :: os)).1 = (run S (step S s o).1 os).1 := rfl

/-- INVARIANT for every history: whenever no assignment is pending (a reset() followed the last one), every stored
attribute equals its getter on the current input and parameters -/
theorem run_inv (S : Sem I P V) (hT : TouchInv S) (h : List (Op I P)) :
    ∀ (s : St I P V) (d : Bool), (d = false → Valid S s) → dirtyAfter d h = false → Valid S (run S s h).1 := by
  induction h with
  | nil => intro s d hv hd; exact hv hd
  | cons o os ih =>
    intro s d hv hd
    rw [run_cons]
    rw [dirtyAfter_cons] at hd
    exact ih (step S s o).1 (dirtyAfter d [o]) (step_inv S hT s d o hv) hd

/-- a read in a valid state returns the getter's value on the current input and parameters -/
theorem read_valid (S : Sem I P V) (s : St I P V) (hv : Valid S s) (m : Meth) :
    (step S s (.read m)).2 = some (S.compute m s.input s.params) := by
  cases hc : s.cache m with
  | some v => rw [step_read_hit S s m v hc, hv m v hc]
  | none => rw [step_read_miss S s m hc]

theorem read_fresh (S : Sem I P V) (i : I) (p : P) (m : Meth) :
    (step S (fresh i p) (.read m)).2 = some (S.compute m i p) := rfl

/-- MAIN: for EVERY history `h` on a newly constructed analyzer in which a reset() followed the last assignment,
reading `m` afterwards returns what a NEW analyzer built on the current input with the current parameters returns -/
theorem read_clean_eq_fresh (S : Sem I P V) (hT : TouchInv S) (i0 : I) (p0 : P) (h : List (Op I P))
    (hd : dirtyAfter false h = false) (m : Meth) :
    let s := (run S (fresh i0 p0) h).1
    (step S s (.read m)).2 = (step S (fresh s.input s.params) (.read m)).2 := by
  intro s
  rw [read_fresh]
  exact read_valid S s (run_inv S hT h _ false (fun _ => valid_fresh S i0 p0) hd) m

/-- the explicit shape: any history, then reset(), then any further reads, then the read -/
theorem dirtyAfter_reset_reads (d : Bool) (pre reads : List (Op I P))
    (hr : ∀ o ∈ reads, ∃ m, o = .read m) : dirtyAfter d (pre ++ .reset :: reads) = false := by
  have h2 : ∀ (rs : List (Op I P)), (∀ o ∈ rs, ∃ m, o = Op.read m) → dirtyAfter false rs = false := by
    intro rs
    induction rs with
    | nil => intro _; rfl
    | cons o os ih =>
      intro h
      obtain ⟨m, rfl⟩ := h o (List.mem_cons_self)
      exact ih fun o' ho' => h o' (List.mem_cons_of_mem _ ho')
  induction pre generalizing d with
  | nil => exact h2 reads hr
  | cons o os ih =>
    rw [List.cons_append, dirtyAfter_cons]
    exact ih _

/-- L7: a refused call leaves the analyzer exactly as it was (and hands out nothing) -/
theorem refused_leaves_state (S : Sem I P V) (s : St I P V) : step S s .refused = (s, none) := rfl

/-! ### the transform kept across reset() -/

/-- COUNTEREXAMPLE (hypothesis "reset drops everything the reads store" is necessary): bins [5,1,2,3], band 1..1 read,
band WIDENED to 1..3, reset(), read: the kept array lost bins 2 and 3 — zeros in band; a new analyzer returns them -/
theorem cached_inplace_counterexample :
    let h : List (Op (List Int) (Nat × Nat)) := [.read .fourier, .setParam (fun _ => (1, 3)), .reset, .read .fourier]
    (crunWith (cstep binSem) (cfresh [5, 1, 2, 3] (1, 1)) h).2 = [[5, 1, 0, 0], [5, 1, 0, 0]]
    ∧ specCompute binSem [5, 1, 2, 3] (1, 3) = [5, 1, 2, 3]
    ∧ dirtyAfter false h = false := by
  decide

/-- narrowing inside the earlier band is NOT affected (why one read per analyzer, or nested bands, see nothing) -/
theorem cached_inplace_narrowing_fine :
    let h : List (Op (List Int) (Nat × Nat)) := [.read .fourier, .setParam (fun _ => (2, 2)), .reset, .read .fourier]
    (crunWith (cstep binSem) (cfresh [5, 1, 2, 3] (1, 3)) h).2 = [[5, 1, 2, 3], specCompute binSem [5, 1, 2, 3] (2, 2)] := by
  decide

/-- the kept array, if any, is the transform of the current input -/
def SpecOK (F : SpecSem I P C V) (s : CSt I P C V) : Prop :=
  (∀ sp, s.spectrum = some sp → sp = F.transform s.input) ∧ (∀ v, s.cache = some v → v = specCompute F s.input s.params)

/-- masking a COPY: with the input unchanged, a read after reset equals the fresh analyzer's (one step of the invariant) -/
theorem cstepCopy_read_eq_fresh (F : SpecSem I P C V) (s : CSt I P C V)
    (hs : ∀ sp, s.spectrum = some sp → sp = F.transform s.input) (m : Meth) :
    (cstepCopy F { s with cache := none } (.read m)).2 = some (specCompute F s.input s.params)
    ∧ ∀ sp, (cstepCopy F { s with cache := none } (.read m)).1.spectrum = some sp → sp = F.transform s.input := by
  cases hsp : s.spectrum with
  | none => simp [cstepCopy, specCompute]
  | some sp =>
    have e := hs sp hsp
    subst e
    simp [cstepCopy, specCompute]

end Nitime.C18.Sess
