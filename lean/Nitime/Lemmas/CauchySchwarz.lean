import Mathlib.Analysis.InnerProductSpace.PiL2

open Finset ComplexConjugate

/-- |Σ a_k conj b_k|² ≤ (Σ|a_k|²)(Σ|b_k|²): coherence ≤ 1 for Welch (k = segments) and
multitaper (k = tapers) cross-spectra. -/
theorem coherence_le_one {n : ℕ} (a b : Fin n → ℂ) :
    Complex.normSq (∑ k, a k * conj (b k)) ≤ (∑ k, Complex.normSq (a k)) * (∑ k, Complex.normSq (b k)) := by
  let x : EuclideanSpace ℂ (Fin n) := (WithLp.equiv 2 _).symm b
  let y : EuclideanSpace ℂ (Fin n) := (WithLp.equiv 2 _).symm a
  have hin : inner ℂ x y = ∑ k, a k * conj (b k) := by
    simp [x, y, PiLp.inner_apply, mul_comm]
  have hcs := norm_inner_le_norm (𝕜 := ℂ) x y
  have hx : ‖x‖ ^ 2 = ∑ k, Complex.normSq (b k) := by
    rw [EuclideanSpace.norm_eq, Real.sq_sqrt (sum_nonneg fun _ _ => sq_nonneg _)]
    simp [x, Complex.normSq_eq_norm_sq]
  have hy : ‖y‖ ^ 2 = ∑ k, Complex.normSq (a k) := by
    rw [EuclideanSpace.norm_eq, Real.sq_sqrt (sum_nonneg fun _ _ => sq_nonneg _)]
    simp [y, Complex.normSq_eq_norm_sq]
  rw [← hin, Complex.normSq_eq_norm_sq, ← hx, ← hy, ← mul_pow, mul_comm ‖y‖]
  exact pow_le_pow_left₀ (norm_nonneg _) hcs 2

#print axioms coherence_le_one
