/-
Lemmas for the `dpss_windows` post-processing model (`Nitime.C07`): bridges from the
executable left folds to `Finset.sum` / `List.sum`, the autocorrelation ↔ quadratic-form
reindexing, and sign-flip invariances.
-/
import Nitime.Model.C07
import Mathlib.Algebra.BigOperators.Intervals
import Mathlib.Algebra.BigOperators.Ring.Finset
import Mathlib.Algebra.Order.Field.Basic
import Mathlib.Algebra.Order.BigOperators.Ring.Finset
import Mathlib.Tactic.Ring
import Mathlib.Tactic.Linarith

set_option linter.unusedSectionVars false
namespace Nitime.C07
open Nitime.Tridi Finset

section bridge
variable {K : Type} [Field K]

theorem sumFrom_eq (f : ℕ → K) (k i : ℕ) (acc : K) :
    sumFrom f k i acc = acc + ∑ j ∈ range k, f (i + j) := by
  induction k generalizing i acc with
  | zero => simp [sumFrom]
  | succ k ih =>
    rw [sumFrom, ih, Finset.sum_range_succ', add_assoc]
    congr 1
    rw [add_comm (∑ j ∈ range k, f (i + (j + 1)))]
    congr 1
    exact Finset.sum_congr rfl fun j _ => by rw [Nat.add_assoc, Nat.add_comm 1 j]

theorem sumN_eq (n : ℕ) (f : ℕ → K) : sumN n f = ∑ i ∈ range n, f i := by
  unfold sumN; rw [sumFrom_eq]; simp

theorem foldl_add (l : List K) (a : K) : l.foldl (fun acc x => acc + x) a = a + l.sum := by
  induction l generalizing a with
  | nil => simp
  | cons x t ih => simp [ih, add_assoc]

theorem sumList_eq (l : List K) : sumList l = l.sum := by
  unfold sumList; rw [foldl_add]; simp

/-- **autocorrelation ↔ quadratic form.**  With `r 0 = s 0` and `r k = 2·s k` (k ≥ 1),
`Σ_k (Σ_{n<N-k} v[n+k]·v[n])·r[k] = Σ_m Σ_n v[m]·v[n]·s(|m−n|)`. -/
theorem quad_reindex (v r s : ℕ → K) (h0 : r 0 = s 0) (hk : ∀ k, 1 ≤ k → r k = 2 * s k) (N : ℕ) :
    ∑ k ∈ range N, (∑ n ∈ range (N - k), v (n + k) * v n) * r k
      = ∑ m ∈ range N, ∑ n ∈ range N, v m * v n * s (m - n + (n - m)) := by
  induction N with
  | zero => simp
  | succ N ih =>
    -- right-hand side
    have hB : ∑ m ∈ range (N + 1), ∑ n ∈ range (N + 1), v m * v n * s (m - n + (n - m))
        = (∑ m ∈ range N, ∑ n ∈ range N, v m * v n * s (m - n + (n - m)))
          + 2 * ∑ n ∈ range N, v N * v n * s (N - n) + v N * v N * s 0 := by
      rw [Finset.sum_range_succ]
      have h1 : ∀ m ∈ range N, ∑ n ∈ range (N + 1), v m * v n * s (m - n + (n - m))
          = (∑ n ∈ range N, v m * v n * s (m - n + (n - m))) + v N * v m * s (N - m) := by
        intro m hm
        rw [Finset.sum_range_succ]
        have : m - N + (N - m) = N - m := by have := mem_range.1 hm; omega
        rw [this]; ring
      rw [Finset.sum_congr rfl h1, Finset.sum_add_distrib, Finset.sum_range_succ]
      have h2 : ∀ n ∈ range N, v N * v n * s (N - n + (n - N)) = v N * v n * s (N - n) := by
        intro n hn
        have : N - n + (n - N) = N - n := by have := mem_range.1 hn; omega
        rw [this]
      rw [Finset.sum_congr rfl h2]
      simp only [Nat.sub_self, Nat.add_zero]
      ring
    -- left-hand side
    have hA : ∑ k ∈ range (N + 1), (∑ n ∈ range (N + 1 - k), v (n + k) * v n) * r k
        = (∑ k ∈ range N, (∑ n ∈ range (N - k), v (n + k) * v n) * r k)
          + ∑ k ∈ range (N + 1), v N * v (N - k) * r k := by
      have h1 : ∀ k ∈ range (N + 1), (∑ n ∈ range (N + 1 - k), v (n + k) * v n) * r k
          = (∑ n ∈ range (N - k), v (n + k) * v n) * r k + v N * v (N - k) * r k := by
        intro k hk'
        have hk'' : k ≤ N := by have := mem_range.1 hk'; omega
        have : N + 1 - k = (N - k) + 1 := by omega
        rw [this, Finset.sum_range_succ, Nat.sub_add_cancel hk'']; ring
      rw [Finset.sum_congr rfl h1, Finset.sum_add_distrib, Finset.sum_range_succ]
      simp
    have hC : ∑ k ∈ range (N + 1), v N * v (N - k) * r k
        = v N * v N * s 0 + 2 * ∑ n ∈ range N, v N * v n * s (N - n) := by
      rw [Finset.sum_range_succ']
      simp only [Nat.sub_zero, h0]
      rw [add_comm]
      congr 1
      rw [← Finset.sum_range_reflect, Finset.mul_sum]
      apply Finset.sum_congr rfl
      intro j hj
      have hj' := mem_range.1 hj
      rw [hk (N - 1 - j + 1) (by omega)]
      have e1 : N - (N - 1 - j + 1) = j := by omega
      have e2 : N - 1 - j + 1 = N - j := by omega
      rw [e1, e2]; ring
    rw [hA, hB, hC, ih]; ring

end bridge

section order
variable {K : Type} [Field K] [LinearOrder K] [IsStrictOrderedRing K]

theorem absK_neg (x : K) : absK (-x) = absK x := by
  unfold absK
  rcases lt_trichotomy x 0 with h | h | h
  · have : ¬ (-x < 0) := by simp; exact h.le
    simp [h, this]
  · subst h; simp
  · have h1 : -x < 0 := by simpa using h
    have h2 : ¬ x < 0 := not_lt.2 h.le
    simp [h1, h2]

theorem sumList_negRow (r : List K) : sumList (negRow r) = - sumList r := by
  rw [sumList_eq, sumList_eq]; unfold negRow
  induction r with
  | nil => simp
  | cons a t ih => simp [ih]; ring

theorem take_negRow (p : ℕ) (r : List K) : (negRow r).take p = negRow (r.take p) := by
  unfold negRow; rw [List.map_take]

theorem peak_negRow (N : ℕ) (r : List K) : peak N (negRow r) = peak N r := by
  unfold peak
  rw [take_negRow]; unfold negRow
  rw [List.map_map]
  congr 1
  apply List.map_congr_left
  intro a _; simp [absK_neg]

theorem negRow_negRow (r : List K) : negRow (negRow r) = r := by
  unfold negRow; rw [List.map_map]; simp

theorem sumSq_negRow (r : List K) : sumSq (negRow r) = sumSq r := by
  unfold sumSq negRow; rw [List.map_map]; congr 1
  apply List.map_congr_left; intro a _; simp

end order
end Nitime.C07
