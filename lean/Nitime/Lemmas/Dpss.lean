/-
Lemmas for the `dpss_windows` post-processing model (`Nitime.C07`): bridges from the
executable left folds to `Finset.sum` / `List.sum`, the autocorrelation ↔ quadratic-form
reindexing, and sign-flip invariances.
-/
import Nitime.Model.C07
import Mathlib.Algebra.BigOperators.Intervals
import Mathlib.Algebra.BigOperators.Ring.Finset
import Mathlib.Algebra.Order.Field.Basic
import Mathlib.Algebra.Order.BigOperators.Ring.Finset
import Mathlib.Tactic.Ring
import Mathlib.Tactic.Linarith

set_option linter.unusedSectionVars false
namespace Nitime.C07
open Nitime.Tridi Finset

section bridge
variable {K : Type} [Field K]

theorem sumFrom_eq (f : ℕ → K) (k i : ℕ) (acc : K) :
    sumFrom f k i acc = acc + ∑ j ∈ range k, f (i + j) := by
  induction k generalizing i acc with
  | zero => simp [sumFrom]
  | succ k ih =>
    rw [sumFrom, ih, Finset.sum_range_succ', add_assoc]
    congr 1
    rw [add_comm (∑ j ∈ range k, f (i + (j + 1)))]
    congr 1
    exact Finset.sum_congr rfl fun j _ => by rw [Nat.add_assoc, Nat.add_comm 1 j]

theorem sumN_eq (n : ℕ) (f : ℕ → K) : sumN n f = ∑ i ∈ range n, f i := by
  unfold sumN; rw [sumFrom_eq]; simp

theorem foldl_add (l : List K) (a : K) : l.foldl (fun acc x => acc + x) a = a + l.sum := by
  induction l generalizing a with
  | nil => simp
  | cons x t ih => simp [ih, add_assoc]

theorem sumList_eq (l : List K) : sumList l = l.sum := by
  unfold sumList; rw [foldl_add]; simp

/-- **autocorrelation ↔ quadratic form.**  With `r 0 = s 0` and `r k = 2·s k` (k ≥ 1),
`Σ_k (Σ_{n<N-k} v[n+k]·v[n])·r[k] = Σ_m Σ_n v[m]·v[n]·s(|m−n|)`. -/
theorem quad_reindex (v r s : ℕ → K) (h0 : r 0 = s 0) (hk : ∀ k, 1 ≤ k → r k = 2 * s k) (N : ℕ) :
    ∑ k ∈ range N, (∑ n ∈ range (N - k), v (n + k) * v n) * r k
      = ∑ m ∈ range N, ∑ n ∈ range N, v m * v n * s (m - n + (n - m)) := by
  induction N with
  | zero => simp
  | succ N ih =>
    -- right-hand side
    have hB : ∑ m ∈ range (N + 1), ∑ n ∈ range (N + 1), v m * v n * s (m - n + (n - m))
        = (∑ m ∈ range N, ∑ n ∈ range N, v m * v n * s (m - n + (n - m)))
          + 2 * ∑ n ∈ range N, v N * v n * s (N - n) + v N * v N * s 0 := by
      rw [Finset.sum_range_succ]
      have h1 : ∀ m ∈ range N, ∑ n ∈ range (N + 1), v m * v n * s (m - n + (n - m))
          = (∑ n ∈ range N, v m * v n * s (m - n + (n - m))) + v N * v m * s (N - m) := by
        intro m hm
        rw [Finset.sum_range_succ]
        have : m - N + (N - m) = N - m := by have := mem_range.1 hm; omega
        rw [this]; ring
      rw [Finset.sum_congr rfl h1, Finset.sum_add_distrib, Finset.sum_range_succ]
      have h2 : ∀ n ∈ range N, v N * v n * s (N - n + (n - N)) = v N * v n * s (N - n) := by
        intro n hn
        have : N - n + (n - N) = N - n := by have := mem_range.1 hn; omega
        rw [this]
      rw [Finset.sum_congr rfl h2]
      simp only [Nat.sub_self, Nat.add_zero]
      ring
    -- left-hand side
    have hA : ∑ k ∈ range (N + 1), (∑ n ∈ range (N + 1 - k), v (n + k) * v n) * r k
        = (∑ k ∈ range N, (∑ n ∈ range (N - k), v (n + k) * v n) * r k)
          + ∑ k ∈ range (N + 1), v N * v (N - k) * r k := by
      have h1 : ∀ k ∈ range (N + 1), (∑ n ∈ range (N + 1 - k), v (n + k) * v n) * r k
          = (∑ n ∈ range (N - k), v (n + k) * v n) * r k + v N * v (N - k) * r k := by
        intro k hk'
        have hk'' : k ≤ N := by have := mem_range.1 hk'; omega
        have : N + 1 - k = (N - k) + 1 := by omega
        rw [this, Finset.sum_range_succ, Nat.sub_add_cancel hk'']; ring
      rw [Finset.sum_congr rfl h1, Finset.sum_add_distrib, Finset.sum_range_succ]
      simp
    have hC : ∑ k ∈ range (N + 1), v N * v (N - k) * r k
        = v N * v N * s 0 + 2 * ∑ n ∈ range N, v N * v n * s (N - n) := by
      rw [Finset.sum_range_succ']
      simp only [Nat.sub_zero, h0]
      rw [add_comm]
      congr 1
      rw [← Finset.sum_range_reflect, Finset.mul_sum]
      apply Finset.sum_congr rfl
      intro j hj
      have hj' := mem_range.1 hj
      rw [hk (N - 1 - j + 1) (by omega)]
      have e1 : N - (N - 1 - j + 1) = j := by omega
      have e2 : N - 1 - j + 1 = N - j := by omega
      rw [e1, e2]; ring
    rw [hA, hB, hC, ih]; ring

end bridge

section order
variable {K : Type} [Field K] [LinearOrder K] [IsStrictOrderedRing K]

theorem absK_neg (x : K) : absK (-x) = absK x := by
  unfold absK
  rcases lt_trichotomy x 0 with h | h | h
  · have : ¬ (-x < 0) := by simp; exact h.le
    simp [h, this]
  · subst h; simp
  · have h1 : -x < 0 := by simpa using h
    have h2 : ¬ x < 0 := not_lt.2 h.le
    simp [h1, h2]

theorem sumList_negRow (r : List K) : sumList (negRow r) = - sumList r := by
  rw [sumList_eq, sumList_eq]; unfold negRow
  induction r with
  | nil => simp
  | cons a t ih => simp [ih]; ring

theorem take_negRow (p : ℕ) (r : List K) : (negRow r).take p = negRow (r.take p) := by
  unfold negRow; rw [List.map_take]

theorem peak_negRow (N : ℕ) (r : List K) : peak N (negRow r) = peak N r := by
  unfold peak
  rw [take_negRow]; unfold negRow
  rw [List.map_map]
  congr 1
  apply List.map_congr_left
  intro a _; simp [absK_neg]

theorem negRow_negRow (r : List K) : negRow (negRow r) = r := by
  unfold negRow; rw [List.map_map]; simp

theorem sumSq_negRow (r : List K) : sumSq (negRow r) = sumSq r := by
  unfold sumSq negRow; rw [List.map_map]; congr 1
  apply List.map_congr_left; intro a _; simp

end order
end Nitime.C07

namespace Nitime.C07
open Nitime.Tridi Finset

/-! ### sign flips leave Gram entries and eigen-residuals unchanged up to one global sign -/
section flips
variable {K : Type} [Field K]

/-- a row as a total function (0 outside) -/
def fnL (l : List K) (i : ℕ) : K := l.getD i 0

theorem fnL_negRow (l : List K) (i : ℕ) : fnL (negRow l) i = - fnL l i := by
  unfold fnL negRow
  induction l generalizing i with
  | nil => simp
  | cons a t ih => cases i with
    | zero => simp
    | succ i => simpa using ih i

/-- kernel residual `(Σ_n s(|m−n|)·v n) − λ·v m` -/
def kernelResidual (N : ℕ) (s : ℕ → K) (lam : K) (v : ℕ → K) (m : ℕ) : K :=
  (∑ n ∈ range N, s (m - n + (n - m)) * v n) - lam * v m

theorem dot_eq (N : ℕ) (u v : ℕ → K) : dot N u v = ∑ n ∈ range N, u n * v n := by
  unfold dot; rw [sumN_eq]

theorem dot_neg_left (N : ℕ) (u v : ℕ → K) : dot N (fun i => - u i) v = - dot N u v := by
  simp [dot_eq, Finset.sum_neg_distrib]

theorem dot_neg_right (N : ℕ) (u v : ℕ → K) : dot N u (fun i => - v i) = - dot N u v := by
  simp [dot_eq, Finset.sum_neg_distrib]

theorem kernelResidual_neg (N : ℕ) (s : ℕ → K) (lam : K) (v : ℕ → K) (m : ℕ) :
    kernelResidual N s lam (fun i => - v i) m = - kernelResidual N s lam v m := by
  simp [kernelResidual, Finset.sum_neg_distrib]; ring

end flips

/-! ### one step of inverse iteration in an orthonormal eigenbasis -/
section invit
variable {K : Type} [Field K]

/-- If `(A − μ)·y = x` on the first `N` coordinates, `A` is symmetric against `u` for the pairing
`⟨a,b⟩ = Σ_{m<N} a m·b m`, and `A·u = λ·u`, then the coefficient of `y` along `u` is that of `x`
divided by `λ − μ`: `(λ − μ)·⟨y,u⟩ = ⟨x,u⟩`. -/
theorem invit_coeff (N : ℕ) (A : (ℕ → K) → ℕ → K) (mu lam : K) (x y u : ℕ → K)
    (hsolve : ∀ m, m < N → A y m - mu * y m = x m)
    (hsym : ∑ m ∈ range N, A y m * u m = ∑ m ∈ range N, y m * A u m)
    (heig : ∀ m, m < N → A u m = lam * u m) :
    (lam - mu) * ∑ m ∈ range N, y m * u m = ∑ m ∈ range N, x m * u m := by
  have h1 : ∑ m ∈ range N, x m * u m = ∑ m ∈ range N, A y m * u m - mu * ∑ m ∈ range N, y m * u m := by
    rw [Finset.mul_sum, ← Finset.sum_sub_distrib]
    refine Finset.sum_congr rfl fun m hm => ?_
    rw [← hsolve m (mem_range.1 hm)]; ring
  have h2 : ∑ m ∈ range N, y m * A u m = lam * ∑ m ∈ range N, y m * u m := by
    rw [Finset.mul_sum]
    refine Finset.sum_congr rfl fun m hm => ?_
    rw [heig m (mem_range.1 hm)]; ring
  rw [h1, hsym, h2]; ring

end invit
end Nitime.C07

namespace Nitime.C07
open Nitime.Tridi Finset
section triop
variable {K : Type} [Field K]

/-- the symmetric tridiagonal operator on index functions -/
def triOp (D E : ℕ → K) (N : ℕ) (v : ℕ → K) (m : ℕ) : K :=
  (if 0 < m then E (m - 1) * v (m - 1) else 0) + D m * v m + (if m + 1 < N then E m * v (m + 1) else 0)

theorem mulRow_eq_triOp [Inhabited K] (d e x : Array K) (N i : ℕ) (hi : i < N) :
    mulRow d e x N i = triOp (get d) (get e) N (get x) i := by
  unfold mulRow triOp
  by_cases h1 : N = 1
  · have : i = 0 := by omega
    subst this; simp [h1]
  · rw [if_neg h1]
    by_cases h0 : i = 0
    · subst h0
      have : 0 + 1 < N := by omega
      simp [this]
    · rw [if_neg h0]
      have hpos : 0 < i := by omega
      by_cases hl : i + 1 = N
      · have : ¬ i + 1 < N := by omega
        simp [hl, hpos]
      · have : i + 1 < N := by omega
        simp [hl, hpos, this]

theorem triOp_symm (D E : ℕ → K) (N : ℕ) (v u : ℕ → K) :
    ∑ m ∈ range N, triOp D E N v m * u m = ∑ m ∈ range N, v m * triOp D E N u m := by
  rcases Nat.eq_zero_or_pos N with h | h
  · subst h; simp
  obtain ⟨M, rfl⟩ : ∃ M, N = M + 1 := ⟨N - 1, by omega⟩
  have lower : ∀ a b : ℕ → K, ∑ m ∈ range (M + 1), (if 0 < m then E (m - 1) * a (m - 1) else 0) * b m
      = ∑ k ∈ range M, E k * a k * b (k + 1) := by
    intro a b
    rw [Finset.sum_range_succ']
    simp
  have upper : ∀ a b : ℕ → K, ∑ m ∈ range (M + 1), (if m + 1 < M + 1 then E m * a (m + 1) else 0) * b m
      = ∑ k ∈ range M, E k * a (k + 1) * b k := by
    intro a b
    rw [Finset.sum_range_succ]
    simp only [Nat.lt_irrefl, if_false, zero_mul, add_zero]
    refine Finset.sum_congr rfl fun k hk => ?_
    have : k + 1 < M + 1 := by have := mem_range.1 hk; omega
    rw [if_pos this]
  have hL : ∑ m ∈ range (M + 1), triOp D E (M + 1) v m * u m
      = ∑ k ∈ range M, E k * v k * u (k + 1) + ∑ m ∈ range (M + 1), D m * v m * u m
        + ∑ k ∈ range M, E k * v (k + 1) * u k := by
    rw [← lower v u, ← upper v u, ← Finset.sum_add_distrib, ← Finset.sum_add_distrib]
    refine Finset.sum_congr rfl fun m _ => ?_
    unfold triOp; ring
  have hR : ∑ m ∈ range (M + 1), v m * triOp D E (M + 1) u m
      = ∑ k ∈ range M, E k * u k * v (k + 1) + ∑ m ∈ range (M + 1), D m * u m * v m
        + ∑ k ∈ range M, E k * u (k + 1) * v k := by
    rw [← lower u v, ← upper u v, ← Finset.sum_add_distrib, ← Finset.sum_add_distrib]
    refine Finset.sum_congr rfl fun m _ => ?_
    unfold triOp; ring
  rw [hL, hR]
  have e1 : ∑ k ∈ range M, E k * v k * u (k + 1) = ∑ k ∈ range M, E k * u (k + 1) * v k :=
    Finset.sum_congr rfl fun k _ => by ring
  have e2 : ∑ k ∈ range M, E k * v (k + 1) * u k = ∑ k ∈ range M, E k * u k * v (k + 1) :=
    Finset.sum_congr rfl fun k _ => by ring
  have e3 : ∑ m ∈ range (M + 1), D m * v m * u m = ∑ m ∈ range (M + 1), D m * u m * v m :=
    Finset.sum_congr rfl fun k _ => by ring
  rw [e1, e2, e3]; ring

theorem triOp_shift (D E : ℕ → K) (N : ℕ) (mu : K) (v : ℕ → K) (m : ℕ) :
    triOp (fun i => D i - mu) E N v m = triOp D E N v m - mu * v m := by
  unfold triOp; ring
end triop
end Nitime.C07
