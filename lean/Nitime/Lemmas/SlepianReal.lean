/-
The real sinc kernel of the spectral-concentration problem:

* `sincK W k = sin (2πWk)/(πk)`, `sincK W 0 = 2W` — what `dpss_windows` encodes as
  `r[0] = 2W`, `r[k] = 4W·sinc(2Wk) = 2·sincK W k`;
* it is of "sinc type" (`k·s k = σ k`, `σ (k-1) + σ (k+1) = 2 cos(2πW) σ k`), so Slepian's commutation
  theorem (`Lemmas/Slepian.lean`) applies;
* it is the Fourier integral `∫_{-W}^{W} cos (2πkf) df`, hence for `0 ≤ W ≤ 1/2` its quadratic form
  lies between `0` and the identity's:  `0 ≤ vᵀ S_W v ≤ vᵀ v`  (energy in the band ≤ total energy).
-/
import Nitime.Lemmas.Slepian
import Mathlib.Analysis.SpecialFunctions.Integrals.Basic

set_option linter.unusedSectionVars false
namespace Nitime.C07
open Finset Real intervalIntegral

/-- the sinc kernel with half-bandwidth `W` (cycles per sample) -/
noncomputable def sincK (W : ℝ) (k : ℤ) : ℝ :=
  if k = 0 then 2 * W else Real.sin (2 * π * W * k) / (π * k)

/-- `σ k = sin (2πWk)/π` -/
noncomputable def sincSigma (W : ℝ) (k : ℤ) : ℝ := Real.sin (2 * π * W * k) / π

theorem sincK_mul (W : ℝ) (k : ℤ) : (k : ℝ) * sincK W k = sincSigma W k := by
  unfold sincK sincSigma
  by_cases h : k = 0
  · subst h; simp
  · rw [if_neg h]
    have hk : (k : ℝ) ≠ 0 := by exact_mod_cast h
    field_simp

theorem sincSigma_rec (W : ℝ) (k : ℤ) :
    sincSigma W (k - 1) + sincSigma W (k + 1) = 2 * Real.cos (2 * π * W) * sincSigma W k := by
  unfold sincSigma
  push_cast
  have e1 : 2 * π * W * ((k : ℝ) - 1) = 2 * π * W * k - 2 * π * W := by ring
  have e2 : 2 * π * W * ((k : ℝ) + 1) = 2 * π * W * k + 2 * π * W := by ring
  rw [e1, e2, Real.sin_sub, Real.sin_add]
  field_simp
  ring

theorem sincK_even (W : ℝ) (k : ℤ) : sincK W (-k) = sincK W k := by
  unfold sincK
  by_cases h : k = 0
  · subst h; simp
  · have h' : -k ≠ 0 := by simpa using h
    rw [if_neg h, if_neg h']
    push_cast
    have : 2 * π * W * (-(k : ℝ)) = -(2 * π * W * k) := by ring
    rw [this, Real.sin_neg]
    have hk : (k : ℝ) ≠ 0 := by exact_mod_cast h
    field_simp

/-- **Slepian commutation for the matrix `dpss_windows` builds and the real sinc kernel** -/
theorem slepian_commute_real (N : ℕ) (W : ℝ) (v : ℕ → ℝ) (m : ℕ) (hm : m < N) :
    triOp (slepD N (Real.cos (2 * π * W))) (slepE N) N (kerOp (sincK W) N v) m
      = kerOp (sincK W) N (triOp (slepD N (Real.cos (2 * π * W))) (slepE N) N v) m :=
  slepian_commute N _ (sincK W) (sincSigma W) (sincK_mul W) (sincSigma_rec W) v m hm

/-- **every eigenvector of the tridiagonal matrix is an eigenvector of the band-limiting operator** -/
theorem tri_eigvec_is_sinc_eigvec (N : ℕ) (W lam : ℝ) (u : ℕ → ℝ)
    (hu : ∀ m, m < N → triOp (slepD N (Real.cos (2 * π * W))) (slepE N) N u m = lam * u m)
    (hne : ∃ m, m < N ∧ u m ≠ 0) :
    ∃ mu : ℝ, ∀ m, m < N → kerOp (sincK W) N u m = mu * u m :=
  tri_eigvec_is_kernel_eigvec N _ (sincK W) (sincSigma W) (sincK_mul W) (sincSigma_rec W) lam u hu hne

/-! ### the kernel as a Fourier integral -/

theorem integral_cos_two_pi (k : ℤ) (a b : ℝ) :
    ∫ f in a..b, Real.cos (2 * π * k * f)
      = if k = 0 then b - a else (Real.sin (2 * π * k * b) - Real.sin (2 * π * k * a)) / (2 * π * k) := by
  by_cases h : k = 0
  · subst h; simp
  · rw [if_neg h]
    have hk : (2 * π * (k : ℝ)) ≠ 0 := by
      have : (k : ℝ) ≠ 0 := by exact_mod_cast h
      have := Real.pi_ne_zero
      positivity
    rw [intervalIntegral.integral_comp_mul_left (fun x => Real.cos x) hk, integral_cos]
    simp [div_eq_inv_mul]

theorem sincK_eq_integral (W : ℝ) (k : ℤ) :
    sincK W k = ∫ f in (-W)..W, Real.cos (2 * π * k * f) := by
  rw [integral_cos_two_pi]
  unfold sincK
  by_cases h : k = 0
  · simp [h]; ring
  · rw [if_neg h, if_neg h]
    have e : 2 * π * (k : ℝ) * -W = -(2 * π * k * W) := by ring
    rw [e, Real.sin_neg]
    have hk : (k : ℝ) ≠ 0 := by exact_mod_cast h
    have e2 : 2 * π * (k : ℝ) * W = 2 * π * W * k := by ring
    rw [e2]
    field_simp
    ring

/-- the spectrum's squared magnitude `|Σ v_n e^{-2πifn}|²` written as a double cosine sum -/
noncomputable def specPow (N : ℕ) (v : ℕ → ℝ) (f : ℝ) : ℝ :=
  ∑ m ∈ range N, ∑ n ∈ range N, v m * v n * Real.cos (2 * π * (((m : ℤ) - (n : ℤ) : ℤ) : ℝ) * f)

theorem specPow_eq_sq (N : ℕ) (v : ℕ → ℝ) (f : ℝ) :
    specPow N v f = (∑ n ∈ range N, v n * Real.cos (2 * π * n * f)) ^ 2
      + (∑ n ∈ range N, v n * Real.sin (2 * π * n * f)) ^ 2 := by
  unfold specPow
  rw [sq, sq, Finset.sum_mul_sum, Finset.sum_mul_sum, ← Finset.sum_add_distrib]
  refine Finset.sum_congr rfl fun m _ => ?_
  rw [← Finset.sum_add_distrib]
  refine Finset.sum_congr rfl fun n _ => ?_
  push_cast
  have : 2 * π * ((m : ℝ) - (n : ℝ)) * f = 2 * π * m * f - 2 * π * n * f := by ring
  rw [this, Real.cos_sub]; ring

theorem specPow_nonneg (N : ℕ) (v : ℕ → ℝ) (f : ℝ) : 0 ≤ specPow N v f := by
  rw [specPow_eq_sq]; positivity

theorem specPow_continuous (N : ℕ) (v : ℕ → ℝ) : Continuous (specPow N v) := by
  unfold specPow
  fun_prop

/-- the quadratic form of the sinc kernel -/
noncomputable def sincQuad (W : ℝ) (N : ℕ) (v : ℕ → ℝ) : ℝ :=
  ∑ m ∈ range N, ∑ n ∈ range N, v m * v n * sincK W ((m : ℤ) - (n : ℤ))

theorem sincQuad_eq_integral (W : ℝ) (N : ℕ) (v : ℕ → ℝ) :
    sincQuad W N v = ∫ f in (-W)..W, specPow N v f := by
  unfold sincQuad specPow
  rw [intervalIntegral.integral_finset_sum]
  · refine Finset.sum_congr rfl fun m _ => ?_
    rw [intervalIntegral.integral_finset_sum]
    · refine Finset.sum_congr rfl fun n _ => ?_
      rw [intervalIntegral.integral_const_mul, sincK_eq_integral]
    · intro n _
      exact Continuous.intervalIntegrable (by fun_prop) _ _
  · intro m _
    exact Continuous.intervalIntegrable (by fun_prop) _ _

/-- at `W = 1/2` the kernel is the identity -/
theorem sincK_half (k : ℤ) : sincK (1 / 2) k = if k = 0 then 1 else 0 := by
  unfold sincK
  by_cases h : k = 0
  · simp [h]
  · rw [if_neg h, if_neg h]
    have : 2 * π * (1 / 2) * (k : ℝ) = k * π := by ring
    rw [this, Real.sin_int_mul_pi]; simp

theorem sincQuad_half (N : ℕ) (v : ℕ → ℝ) : sincQuad (1 / 2) N v = ∑ m ∈ range N, v m * v m := by
  unfold sincQuad
  refine Finset.sum_congr rfl fun m hm => ?_
  simp only [sincK_half]
  have : ∀ n ∈ range N, v m * v n * (if (m : ℤ) - (n : ℤ) = 0 then (1 : ℝ) else 0)
      = if n = m then v m * v m else 0 := by
    intro n _
    by_cases h : n = m
    · subst h; simp
    · have : ¬ ((m : ℤ) - (n : ℤ) = 0) := by omega
      simp [h, this]
  rw [Finset.sum_congr rfl this, Finset.sum_ite_eq' (range N) m]
  simp [hm]

/-- **band energy is non-negative** -/
theorem sincQuad_nonneg (W : ℝ) (hW : 0 ≤ W) (N : ℕ) (v : ℕ → ℝ) : 0 ≤ sincQuad W N v := by
  rw [sincQuad_eq_integral]
  exact intervalIntegral.integral_nonneg (by linarith) fun f _ => specPow_nonneg N v f

/-- **band energy is at most the total energy** (`W ≤ 1/2` = Nyquist) -/
theorem sincQuad_le (W : ℝ) (hW : 0 ≤ W) (hW2 : W ≤ 1 / 2) (N : ℕ) (v : ℕ → ℝ) :
    sincQuad W N v ≤ ∑ m ∈ range N, v m * v m := by
  rw [← sincQuad_half, sincQuad_eq_integral, sincQuad_eq_integral]
  have hi : ∀ a b : ℝ, IntervalIntegrable (specPow N v) MeasureTheory.volume a b :=
    fun a b => (specPow_continuous N v).intervalIntegrable a b
  have h1 := intervalIntegral.integral_add_adjacent_intervals (hi (-(1 / 2)) (-W)) (hi (-W) W)
  have h2 := intervalIntegral.integral_add_adjacent_intervals (hi (-(1 / 2)) W) (hi W (1 / 2))
  have n1 : 0 ≤ ∫ f in (-(1 / 2))..(-W), specPow N v f :=
    intervalIntegral.integral_nonneg (by linarith) fun f _ => specPow_nonneg N v f
  have n2 : 0 ≤ ∫ f in W..(1 / 2), specPow N v f :=
    intervalIntegral.integral_nonneg (by linarith) fun f _ => specPow_nonneg N v f
  have e : (-(1 / 2 : ℝ)) = -(1 / 2) := rfl
  linarith

end Nitime.C07
