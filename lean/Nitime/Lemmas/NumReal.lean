/-
The real/complex reading of the polymorphic numerical base (`Nitime/Model/Num.lean`):
noncomputable instances `RScalar ℝ`, `CScalar ℝ ℂ`, and the bridge lemmas that turn the model's
operations into Mathlib's (`sumRange` = `Finset.sum`, `sqmag` = `Complex.normSq`, …).
Shared by the spectral (C04–C06), coherence and filtering proofs.
-/
import Nitime.Model.Num
import Mathlib.Data.Complex.BigOperators
import Mathlib.Algebra.BigOperators.Intervals
import Mathlib.Analysis.Real.Sqrt
import Mathlib.Tactic.Ring
import Mathlib.Tactic.FieldSimp
import Mathlib.Algebra.BigOperators.Field
import Mathlib.Tactic.Linarith

namespace Nitime.Num
open Finset

noncomputable instance instRScalarReal : RScalar ℝ where
  ofNat n := (n : ℝ)

noncomputable instance instRSqrtReal : RSqrt ℝ where
  sqrt := Real.sqrt

noncomputable instance instCScalarComplex : CScalar ℝ ℂ where
  zero := 0
  conj := starRingEnd ℂ
  ofReal := Complex.ofReal
  re := Complex.re
  im := Complex.im

@[simp] theorem ofNat_real (n : ℕ) : (RScalar.ofNat n : ℝ) = (n : ℝ) := rfl
@[simp] theorem sqrt_real (x : ℝ) : (RSqrt.sqrt x : ℝ) = Real.sqrt x := rfl
@[simp] theorem zero_complex : (CScalar.zero : ℂ) = 0 := rfl
@[simp] theorem conj_complex (z : ℂ) : (CScalar.conj z : ℂ) = (starRingEnd ℂ) z := rfl
@[simp] theorem ofReal_complex (r : ℝ) : (CScalar.ofReal r : ℂ) = (r : ℂ) := rfl
@[simp] theorem re_complex (z : ℂ) : (CScalar.re z : ℝ) = z.re := rfl
@[simp] theorem im_complex (z : ℂ) : (CScalar.im z : ℝ) = z.im := rfl

theorem sumRange_eq {α : Type} [AddCommMonoid α] (z : α) (n : ℕ) (f : ℕ → α) :
    sumRange z n f = z + ∑ i ∈ range n, f i := by
  unfold sumRange
  induction n with
  | zero => simp
  | succ n ih => rw [List.range_succ, List.foldl_append, ih, Finset.sum_range_succ]; simp [add_assoc]

@[simp] theorem rsum_eq (n : ℕ) (f : ℕ → ℝ) : rsum n f = ∑ i ∈ range n, f i := by
  simp [rsum, sumRange_eq]

@[simp] theorem ksum_eq (n : ℕ) (f : ℕ → ℂ) : ksum n f = ∑ i ∈ range n, f i := by
  simp [ksum, sumRange_eq]

@[simp] theorem sqmag_eq (z : ℂ) : sqmag z = Complex.normSq z := by
  simp [sqmag, Complex.mul_conj]

@[simp] theorem kscale_eq (r : ℝ) (z : ℂ) : kscale r z = (r : ℂ) * z := rfl

/-- with twiddles `tw m = ζ ^ m`, `ζ ^ N = 1`, the model DFT is the textbook sum -/
theorem dftAt_eq {N : ℕ} {ζ : ℂ} (hζ : ζ ^ N = 1) (x : ℕ → ℂ) (k : ℕ) :
    dftAt (fun m => ζ ^ m) N x k = ∑ j ∈ range N, x j * ζ ^ (j * k) := by
  simp only [dftAt, ksum_eq]
  refine sum_congr rfl fun j _ => ?_
  rw [pow_mod_eq hζ]
where
  pow_mod_eq {N : ℕ} {ζ : ℂ} (hζ : ζ ^ N = 1) {m : ℕ} : ζ ^ (m % N) = ζ ^ m := by
    conv_rhs => rw [← Nat.mod_add_div m N, pow_add, pow_mul, hζ, one_pow, mul_one]

theorem padded_eq (n : ℕ) (x : ℕ → ℂ) (j : ℕ) : padded n x j = if j < n then x j else 0 := rfl

theorem kmean_eq (n : ℕ) (x : ℕ → ℂ) : kmean n x = ((1 / (n : ℝ) : ℝ) : ℂ) * ∑ j ∈ range n, x j := by
  simp [kmean]

theorem demean_eq (n : ℕ) (x : ℕ → ℂ) (j : ℕ) : demean n x j = x j - kmean n x := rfl

end Nitime.Num
