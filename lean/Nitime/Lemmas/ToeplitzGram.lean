/-
Positive definiteness of the Hermitian Toeplitz matrix of a (biased) sample autocorrelation, and
what it gives the Levinson–Durbin recursion (used by `Props/C10.lean` to close the stability clause).

* `tform r p c = Σ_{k,i ≤ p} c_i·conj(c_k)·r_{k−i}` (`r_{−m} = conj r_m`): the Hermitian form `cᴴ·T·c`
  of the `(p+1)×(p+1)` Toeplitz matrix; `ToepPD r p`: it is positive for every `c ≠ 0`.
* `err_eq_tform`: for a solution of the order-`p` Yule–Walker equations the prediction-error power
  `R(0) − Σ a_k conj R(k)` is `tform` evaluated at the prediction-error filter `[1, −a_1, …, −a_p]`.
* `ld_b_pos_of_pd`, `kap_lt_one_of_pd`: positive-definite forms of the orders `≤ p` ⇒ every error
  power `σ_j` (`j ≤ p`) of `LD.ld` is real and `> 0` (so no divisor vanishes) and every reflection
  coefficient has modulus `< 1`.
* `tform_acorr_eq_gram`: for `r = acorr x N` (biased sample autocorrelation, `(1/N)Σ_m x[m+k]·conj x[m]`)
  the form is the Gram form `(1/N)·Σ_{t<N+p} |Σ_i c_i x[t−i]|²` (`x` zero outside `0..N−1`);
  `gram_pos`: it is `> 0` when `x ≠ 0` and `c ≠ 0` (lowest non-zero indices of the convolution);
  `acorr_toepPD`: hence `ToepPD (acorr x N) p` for EVERY order `p` and every non-zero signal.
-/
import Nitime.Lemmas.SchurCohn
import Mathlib.Algebra.BigOperators.Field

open Finset ComplexConjugate

noncomputable section
namespace LD

variable {r : ℕ → ℂ}

/-- Hermitian Toeplitz form `cᴴ·T·c = Σ_{k,i ≤ p} c_i·conj(c_k)·r_{k−i}` -/
def tform (r : ℕ → ℂ) (p : ℕ) (c : ℕ → ℂ) : ℂ :=
  ∑ k ∈ range (p + 1), ∑ i ∈ range (p + 1), c i * conj (c k) * rr r k i

/-- the `(p+1)×(p+1)` Hermitian Toeplitz matrix of `r_0..r_p` is positive definite -/
def ToepPD (r : ℕ → ℂ) (p : ℕ) : Prop :=
  ∀ c : ℕ → ℂ, (∃ i, i ≤ p ∧ c i ≠ 0) → 0 < (tform r p c).re

/-- the prediction-error filter `[1, −a_1, −a_2, …]` -/
def predErr (a : ℕ → ℂ) : ℕ → ℂ := fun i => if i = 0 then 1 else -a i

lemma sum_range_succ_Icc (p : ℕ) (f : ℕ → ℂ) :
    ∑ i ∈ range (p + 1), f i = f 0 + ∑ i ∈ Icc 1 p, f i := by
  rw [Finset.sum_range_succ', add_comm]
  congr 1
  rw [range_eq_Ico, Finset.sum_Ico_add' f 0 p 1]
  congr 1

/-- a leading principal block of a positive-definite Toeplitz matrix is positive definite -/
theorem toepPD_mono {p j : ℕ} (hj : j ≤ p) (h : ToepPD r p) : ToepPD r j := by
  intro c hc
  obtain ⟨i0, hi0, hci0⟩ := hc
  have hsub : range (j + 1) ⊆ range (p + 1) := range_subset_range.mpr (by omega)
  have key : tform r j c = tform r p (fun i => if i ≤ j then c i else 0) := by
    unfold tform
    rw [← sum_subset hsub]
    · refine sum_congr rfl fun k hk => ?_
      have hk' : k ≤ j := by simp only [mem_range] at hk; omega
      rw [← sum_subset hsub]
      · refine sum_congr rfl fun i hi => ?_
        have hi' : i ≤ j := by simp only [mem_range] at hi; omega
        simp only [if_pos hk', if_pos hi']
      · intro i _ hi
        have hi' : ¬ i ≤ j := by simp only [mem_range] at hi; omega
        simp only [if_neg hi', zero_mul]
    · intro k _ hk
      have hk' : ¬ k ≤ j := by simp only [mem_range] at hk; omega
      refine sum_eq_zero fun i _ => ?_
      simp only [if_neg hk', map_zero, mul_zero, zero_mul]
  rw [key]
  exact h _ ⟨i0, by omega, by simpa [if_pos hi0] using hci0⟩

/-- **σ as a Toeplitz form.** For a solution `a` of the order-`p` Yule–Walker equations the error
power `R(0) − Σ a_k conj R(k)` is the Toeplitz form at the prediction-error filter. -/
theorem err_eq_tform {p : ℕ} {a : ℕ → ℂ} (hyw : YW r p a) :
    Err r p a = tform r p (predErr a) := by
  have inner : ∀ k ∈ range (p + 1),
      ∑ i ∈ range (p + 1), predErr a i * conj (predErr a k) * rr r k i
        = conj (predErr a k) * (if k = 0 then Err r p a else 0) := by
    intro k hk
    simp only [mem_range] at hk
    have hfac : ∑ i ∈ range (p + 1), predErr a i * conj (predErr a k) * rr r k i
        = conj (predErr a k) * ∑ i ∈ range (p + 1), predErr a i * rr r k i := by
      rw [mul_sum]; exact sum_congr rfl fun i _ => by ring
    rw [hfac, sum_range_succ_Icc]
    congr 1
    have hI : ∑ i ∈ Icc 1 p, predErr a i * rr r k i = -∑ i ∈ Icc 1 p, a i * rr r k i := by
      rw [← sum_neg_distrib]
      refine sum_congr rfl fun i hi => ?_
      simp only [mem_Icc] at hi
      have : i ≠ 0 := by omega
      simp [predErr, this]
    rw [hI]
    by_cases hk0 : k = 0
    · subst hk0
      rw [if_pos rfl, Err]
      have : ∀ i ∈ Icc 1 p, a i * rr r 0 i = a i * conj (r i) := by
        intro i hi
        simp only [mem_Icc] at hi
        unfold rr
        rw [if_neg (by omega)]
        simp
      rw [sum_congr rfl this]
      simp [predErr, rr]
      ring
    · rw [if_neg hk0, hyw k (by omega) (by omega)]
      simp [predErr, rr]
  unfold tform
  rw [sum_congr rfl inner, sum_eq_single 0]
  · simp [predErr]
  · intro k _ hk; simp [hk]
  · intro h; simp at h

/-- **σ_j > 0.** Positive-definite Toeplitz forms of the orders `≤ p` ⇒ every prediction-error power
of the recursion up to order `p` is real and strictly positive (in particular non-zero: the
recursion never divides by zero). -/
theorem ld_b_pos_of_pd (h0 : conj (r 0) = r 0) (p : ℕ) (hpd : ∀ j, j ≤ p → ToepPD r j) :
    ∀ j, j ≤ p → conj (ld r j).b = (ld r j).b ∧ 0 < ((ld r j).b).re := by
  intro j
  induction j using Nat.strong_induction_on with
  | _ j ih =>
    intro hj
    have hne : ∀ i, i < j → (ld r i).b ≠ 0 := by
      intro i hi hz
      have := (ih i hi (by omega)).2
      rw [hz] at this
      simp at this
    obtain ⟨hyw, hE, hreal⟩ := ld_correct h0 j hne
    refine ⟨hreal, ?_⟩
    rw [hE, err_eq_tform hyw]
    exact hpd j hj _ ⟨0, by omega, by simp [predErr]⟩

lemma ld_succ_b (p : ℕ) : (ld r (p + 1)).b = (ld r p).b * (1 - kap r p * conj (kap r p)) := by
  simp [ld, step, kap]

/-- **|κ_j| < 1.** From `σ_{j+1} = σ_j·(1 − |κ_{j+1}|²)` with both powers positive. -/
theorem kap_lt_one_of_pd (h0 : conj (r 0) = r 0) (p : ℕ) (hpd : ∀ j, j ≤ p → ToepPD r j) :
    ∀ j, j < p → Complex.normSq (kap r j) < 1 := by
  intro j hj
  obtain ⟨hr1, hp1⟩ := ld_b_pos_of_pd h0 p hpd j (by omega)
  obtain ⟨_, hp2⟩ := ld_b_pos_of_pd h0 p hpd (j + 1) (by omega)
  rw [ld_succ_b, Complex.mul_conj] at hp2
  have hb : (ld r j).b = (((ld r j).b.re : ℝ) : ℂ) := (Complex.conj_eq_iff_re.mp hr1).symm
  have e : ((ld r j).b * (1 - (Complex.normSq (kap r j) : ℂ))).re
      = (ld r j).b.re * (1 - Complex.normSq (kap r j)) := by
    conv_lhs => rw [hb]
    rw [← Complex.ofReal_one, ← Complex.ofReal_sub, ← Complex.ofReal_mul, Complex.ofReal_re]
  rw [e] at hp2
  by_contra hge
  rw [not_lt] at hge
  nlinarith

/-! ### the biased sample autocorrelation: Toeplitz form = Gram form -/

/-- zero-extended shifted sample `x[t−i]` (`0` outside `0..N−1`) -/
def shiftSig (x : ℕ → ℂ) (N t i : ℕ) : ℂ := if i ≤ t ∧ t - i < N then x (t - i) else 0

/-- biased sample autocorrelation `(1/N)·Σ_{m<N−k} x[m+k]·conj x[m]` -/
def acorr (x : ℕ → ℂ) (N k : ℕ) : ℂ := (∑ m ∈ range (N - k), x (m + k) * conj (x m)) / (N : ℂ)

/-- `Σ_t x[t−i]·conj x[t−k]` -/
def lagS (x : ℕ → ℂ) (N p i k : ℕ) : ℂ :=
  ∑ t ∈ range (N + p), shiftSig x N t i * conj (shiftSig x N t k)

/-- output of the filter `c` on the zero-extended signal: `Σ_{i≤p} c_i·x[t−i]` -/
def filt (x : ℕ → ℂ) (N p : ℕ) (c : ℕ → ℂ) (t : ℕ) : ℂ := ∑ i ∈ range (p + 1), c i * shiftSig x N t i

variable {x : ℕ → ℂ} {N p : ℕ}

lemma lagS_eq {i k : ℕ} (hik : i ≤ k) (hk : k ≤ p) :
    lagS x N p i k = ∑ m ∈ range (N - (k - i)), x (m + (k - i)) * conj (x m) := by
  unfold lagS
  have hsub : Ico k (N + i) ⊆ range (N + p) := by
    intro t ht
    simp only [mem_Ico, mem_range] at ht ⊢
    omega
  rw [← sum_subset hsub]
  · rw [sum_Ico_eq_sum_range]
    have e : N + i - k = N - (k - i) := by omega
    rw [e]
    refine sum_congr rfl fun m hm => ?_
    simp only [mem_range] at hm
    have h1 : i ≤ k + m ∧ k + m - i < N := by omega
    have h2 : k ≤ k + m ∧ k + m - k < N := by omega
    have e1 : k + m - i = m + (k - i) := by omega
    have e2 : k + m - k = m := by omega
    unfold shiftSig
    rw [if_pos h1, if_pos h2, e1, e2]
  · intro t ht hnt
    simp only [mem_range] at ht
    simp only [mem_Ico, not_and, not_lt] at hnt
    by_cases h : k ≤ t
    · have hn : ¬ (i ≤ t ∧ t - i < N) := by have := hnt h; omega
      unfold shiftSig
      rw [if_neg hn, zero_mul]
    · have hn : ¬ (k ≤ t ∧ t - k < N) := by omega
      unfold shiftSig
      rw [if_neg hn, map_zero, mul_zero]

lemma lagS_conj (i k : ℕ) : conj (lagS x N p i k) = lagS x N p k i := by
  unfold lagS
  rw [map_sum]
  refine sum_congr rfl fun t _ => ?_
  rw [map_mul, Complex.conj_conj, mul_comm]

/-- entry `(k, i)` of the Toeplitz matrix of the sample autocorrelation is a lagged inner product -/
lemma rr_acorr {i k : ℕ} (hi : i ≤ p) (hk : k ≤ p) :
    rr (acorr x N) k i = lagS x N p i k / (N : ℂ) := by
  unfold rr
  by_cases h : i ≤ k
  · rw [if_pos h, acorr, lagS_eq h hk]
  · rw [if_neg h, acorr, map_div₀, Complex.conj_natCast, ← lagS_eq (p := p) (by omega) hi, lagS_conj]

/-- **Gram identity.** `cᴴ·T·c = (1/N)·Σ_t |Σ_i c_i x[t−i]|²` for the Toeplitz matrix of the biased
sample autocorrelation — for every signal, length, order and coefficient vector. -/
theorem tform_acorr_eq_gram (x : ℕ → ℂ) (N p : ℕ) (c : ℕ → ℂ) :
    tform (acorr x N) p c
      = (((∑ t ∈ range (N + p), Complex.normSq (filt x N p c t)) / (N : ℝ) : ℝ) : ℂ) := by
  have h1 : tform (acorr x N) p c
      = (∑ k ∈ range (p + 1), ∑ i ∈ range (p + 1), c i * conj (c k) * lagS x N p i k) / (N : ℂ) := by
    unfold tform
    rw [sum_div]
    refine sum_congr rfl fun k hk => ?_
    rw [sum_div]
    refine sum_congr rfl fun i hi => ?_
    simp only [mem_range] at hk hi
    rw [rr_acorr (p := p) (by omega) (by omega), mul_div_assoc]
  have h2 : ∑ k ∈ range (p + 1), ∑ i ∈ range (p + 1), c i * conj (c k) * lagS x N p i k
      = ∑ t ∈ range (N + p), filt x N p c t * conj (filt x N p c t) := by
    have hR : ∀ t, filt x N p c t * conj (filt x N p c t)
        = ∑ i ∈ range (p + 1), ∑ k ∈ range (p + 1),
            (c i * shiftSig x N t i) * conj (c k * shiftSig x N t k) := by
      intro t
      unfold filt
      rw [map_sum, sum_mul_sum]
    have hL : ∀ k i, c i * conj (c k) * lagS x N p i k
        = ∑ t ∈ range (N + p), (c i * shiftSig x N t i) * conj (c k * shiftSig x N t k) := by
      intro k i
      unfold lagS
      rw [mul_sum]
      refine sum_congr rfl fun t _ => ?_
      rw [map_mul]; ring
    simp only [hR, hL]
    rw [sum_comm]
    rw [sum_congr rfl fun i _ => sum_comm]
    rw [sum_comm]
  rw [h1, h2]
  simp only [Complex.mul_conj]
  push_cast
  rfl

/-- the convolution of two non-zero finite sequences is non-zero (lowest non-zero indices) -/
theorem gram_pos (x : ℕ → ℂ) (N p : ℕ) (c : ℕ → ℂ)
    (hx : ∃ m, m < N ∧ x m ≠ 0) (hc : ∃ i, i ≤ p ∧ c i ≠ 0) :
    0 < ∑ t ∈ range (N + p), Complex.normSq (filt x N p c t) := by
  classical
  have hm0 := Nat.find_spec hx
  have hi0 := Nat.find_spec hc
  set m0 := Nat.find hx with hm0d
  set i0 := Nat.find hc with hi0d
  have hy : filt x N p c (m0 + i0) = c i0 * x m0 := by
    unfold filt
    rw [sum_eq_single i0]
    · have h : i0 ≤ m0 + i0 ∧ m0 + i0 - i0 < N := by omega
      unfold shiftSig
      rw [if_pos h]
      congr 2
      omega
    · intro i hi hne
      simp only [mem_range] at hi
      by_cases hlt : i < i0
      · have : c i = 0 := by
          by_contra h
          exact Nat.find_min hc hlt ⟨by omega, h⟩
        rw [this, zero_mul]
      · have hgt : i0 < i := by omega
        have : shiftSig x N (m0 + i0) i = 0 := by
          unfold shiftSig
          split_ifs with h
          · by_contra hxne
            exact Nat.find_min hx (m := m0 + i0 - i) (by omega) ⟨h.2, hxne⟩
          · rfl
        rw [this, mul_zero]
    · intro h
      exact absurd (mem_range.mpr (by omega)) h
  have hpos : 0 < Complex.normSq (filt x N p c (m0 + i0)) := by
    rw [hy]
    exact Complex.normSq_pos.mpr (mul_ne_zero hi0.2 hm0.2)
  exact lt_of_lt_of_le hpos
    (single_le_sum (f := fun t => Complex.normSq (filt x N p c t))
      (fun t _ => Complex.normSq_nonneg _) (mem_range.mpr (by omega)))

/-- the Toeplitz form of a sample autocorrelation is never negative -/
theorem tform_acorr_nonneg (x : ℕ → ℂ) (N p : ℕ) (c : ℕ → ℂ) : 0 ≤ (tform (acorr x N) p c).re := by
  rw [tform_acorr_eq_gram, Complex.ofReal_re]
  exact div_nonneg (sum_nonneg fun t _ => Complex.normSq_nonneg _) (Nat.cast_nonneg N)

/-- **positive definite.** The Hermitian Toeplitz matrix of the biased sample autocorrelation of a
non-zero signal is positive definite, at every order. -/
theorem acorr_toepPD (x : ℕ → ℂ) (N : ℕ) (hx : ∃ m, m < N ∧ x m ≠ 0) (p : ℕ) :
    ToepPD (acorr x N) p := by
  intro c hc
  rw [tform_acorr_eq_gram, Complex.ofReal_re]
  have hN : 0 < N := by obtain ⟨m, hm, _⟩ := hx; omega
  exact div_pos (gram_pos x N p c hx hc) (by exact_mod_cast hN)

end LD
