/-
C05 — proofs about the object-history machines of `Nitime/Model/C05Hist.lean`.

`Hist`: along ANY history of reads / resets / re-targetings every vector the caller was handed for
the frequency attribute still holds, at the end, the grid that was current when it was handed out.
`Two`: with several live analyzers, as long as no dict object is held by two analyzers (in
particular when every analyzer was built with `method=None`) every read of analyzer k returns the
vector of class k at ITS OWN input's rate; with a shared caller's dict it does not.
-/
import Nitime.Model.C05Hist
import Mathlib.Tactic.Linarith

namespace Nitime.C05

namespace Hist

/-- the heap only grows, and a cell never changes -/
theorem getElem?_append_of_some {α} {l : List α} {i : Nat} {v : α} (h : l[i]? = some v) (l' : List α) :
    (l ++ l')[i]? = some v := by
  have hi : i < l.length := by
    rcases List.getElem?_eq_some_iff.mp h with ⟨hi, _⟩; exact hi
  rw [List.getElem?_append_left hi]; exact h

/-- invariant: handed-out references and the cached reference point at the right arrays -/
def Inv (s : St) : Prop :=
  (∀ p ∈ s.handed, s.heap[p.1]? = some p.2) ∧ (∀ i, s.cache = some i → s.heap[i]? = some s.grid)

theorem inv_init (g : List Rat) : Inv (init g) := by
  constructor
  · intro p hp; simp [init] at hp
  · intro i hi; simp [init] at hi

theorem fire_spec (s : St) (h : Inv s) :
    Inv (fire s).1 ∧ (fire s).1.heap[(fire s).2]? = some s.grid ∧ (fire s).1.grid = s.grid ∧
      (fire s).1.handed = s.handed := by
  unfold fire
  cases hc : s.cache with
  | some i =>
    simp only
    exact ⟨h, h.2 i hc, trivial, trivial⟩
  | none =>
    simp only
    refine ⟨⟨?_, ?_⟩, ?_, trivial, trivial⟩
    · intro p hp
      exact getElem?_append_of_some (h.1 p hp) _
    · intro i hi
      simp only [Option.some.injEq] at hi
      subst hi
      simp
    · simp

theorem inv_step (s : St) (e : Ev) (h : Inv s) : Inv (step s e) := by
  cases e with
  | readFreq =>
    obtain ⟨h1, h2, h3, h4⟩ := fire_spec s h
    refine ⟨?_, ?_⟩
    · intro p hp
      simp only [step, List.mem_append, List.mem_singleton] at hp
      rcases hp with hp | hp
      · exact h1.1 p hp
      · subst hp; exact h2
    · intro i hi
      exact h1.2 i hi
  | readOther uses val =>
    have key : ∀ s' : St, Inv s' → Inv { s' with heap := s'.heap ++ [val] } := by
      intro s' hs'
      refine ⟨?_, ?_⟩
      · intro p hp; exact getElem?_append_of_some (hs'.1 p hp) _
      · intro i hi; exact getElem?_append_of_some (hs'.2 i hi) _
    cases uses with
    | true => exact key _ (fire_spec s h).1
    | false => exact key _ h
  | reset =>
    refine ⟨h.1, ?_⟩
    intro i hi; simp [step] at hi
  | retarget g =>
    refine ⟨h.1, ?_⟩
    intro i hi; simp [step] at hi

theorem inv_run (evs : List Ev) (s : St) (h : Inv s) : Inv (run s evs) := by
  induction evs generalizing s with
  | nil => exact h
  | cons e es ih => exact ih (step s e) (inv_step s e h)

/-- the grid never changes in a history without re-targeting, and every hand-out is labelled with it -/
def NoRetarget : List Ev → Prop
  | [] => True
  | .retarget _ :: _ => False
  | _ :: es => NoRetarget es

theorem step_grid_of_not_retarget (s : St) (e : Ev) (h : NoRetarget (e :: es)) : (step s e).grid = s.grid := by
  cases e with
  | readFreq => simp only [step]; exact (by unfold fire; cases s.cache <;> rfl)
  | readOther uses val =>
    cases uses
    · rfl
    · simp only [step]; unfold fire; cases s.cache <;> rfl
  | reset => rfl
  | retarget g => exact absurd h (by simp [NoRetarget])

theorem noRetarget_tail {e : Ev} {es : List Ev} (h : NoRetarget (e :: es)) : NoRetarget es := by
  cases e <;> simp_all [NoRetarget]

theorem handed_labels (evs : List Ev) (s : St) (g : List Rat) (hg : s.grid = g)
    (hl : ∀ p ∈ s.handed, p.2 = g) (hn : NoRetarget evs) :
    ∀ p ∈ (run s evs).handed, p.2 = g := by
  induction evs generalizing s with
  | nil => exact hl
  | cons e es ih =>
    have hgrid := step_grid_of_not_retarget (es := es) s e hn
    apply ih (step s e) (hgrid.trans hg) _ (noRetarget_tail hn)
    intro p hp
    cases e with
    | readFreq =>
      simp only [step, List.mem_append, List.mem_singleton] at hp
      rcases hp with hp | hp
      · have : (fire s).1.handed = s.handed := by unfold fire; cases s.cache <;> rfl
        rw [this] at hp; exact hl p hp
      · subst hp; exact hg
    | readOther uses val =>
      have : (step s (.readOther uses val)).handed = s.handed := by
        cases uses
        · rfl
        · simp only [step]; unfold fire; cases s.cache <;> rfl
      rw [this] at hp; exact hl p hp
    | reset => exact hl p hp
    | retarget g' => exact hl p hp

end Hist

namespace Two

variable (spec : Cls → MSpec) (G : Cls → Rat → List Rat) (twoPi : Rat)

/-- read `p = (k, v)` is right: `v` is what analyzer k's class computes at analyzer k's OWN rate -/
def Right (ans : List An) (p : Nat × List Rat) : Prop :=
  ∃ a, ans[p.1]? = some a ∧ p.2 = G a.cls a.rate

theorem Right.mono {ans : List An} {p : Nat × List Rat} (h : Right G ans p) (l : List An) :
    Right G (ans ++ l) p := by
  obtain ⟨a, h1, h2⟩ := h
  exact ⟨a, Hist.getElem?_append_of_some h1 l, h2⟩

theorem mem_of_lookup {β} : ∀ (l : List (Nat × β)) (k : Nat) (v : β), l.lookup k = some v → (k, v) ∈ l := by
  intro l
  induction l with
  | nil => intro k v h; simp at h
  | cons q t ih =>
    intro k v h
    obtain ⟨k', v'⟩ := q
    rw [List.lookup_cons] at h
    by_cases hk : k == k'
    · simp only [hk] at h
      have hk' : k = k' := by simpa using hk
      simp only [Option.some.injEq] at h
      subst hk'; subst h; simp
    · simp only [hk] at h
      exact List.mem_cons_of_mem _ (ih k v h)

theorem getElem?_snoc_cases {α} {l : List α} {x a : α} {i : Nat} (h : (l ++ [x])[i]? = some a) :
    l[i]? = some a ∨ (i = l.length ∧ a = x) := by
  rw [List.getElem?_append] at h
  by_cases hi : i < l.length
  · simp only [hi, if_true] at h; exact Or.inl h
  · simp only [hi, if_false] at h
    right
    have hi' : i - l.length = 0 := by
      by_contra hne
      have : 1 ≤ i - l.length := Nat.one_le_iff_ne_zero.mpr hne
      rw [List.getElem?_eq_none (by simpa using this)] at h
      simp at h
    rw [hi'] at h
    simp only [List.getElem?_cons_zero, Option.some.injEq] at h
    exact ⟨by omega, h.symm⟩

/-- the invariant of a history in which no dict object is held by two analyzers -/
structure Good (s : St) : Prop where
  distinct : ∀ (i j : Nat) (a b : An), s.ans[i]? = some a → s.ans[j]? = some b → a.dict = b.dict → i = j
  bound : ∀ (i : Nat) (a : An), s.ans[i]? = some a → a.dict < s.dicts.length
  fs : ∀ (i : Nat) (a : An), s.ans[i]? = some a → a.cls ≠ Cls.spectral → s.dicts[a.dict]? = some (some a.rate)
  fc : ∀ p ∈ s.fcache, Right G s.ans p
  cc : ∀ p ∈ s.ccache, Right G s.ans p
  out : ∀ p ∈ s.out, Right G s.ans p

theorem good_init : Good G init := by
  constructor <;> intros <;> simp_all [init]

/-- an event keeps the dicts apart: a caller's dict given to a constructor that stores the object itself is held by
no live analyzer, and a caller's dict carries no `'Fs'` entry of another rate -/
def evOk (s : St) : Ev → Prop
  | .new c rate (some d) =>
    ((spec c).keeps = true → ∀ (i : Nat) (a : An), s.ans[i]? = some a → a.dict ≠ d) ∧
      (s.dicts[d]? = some none ∨ s.dicts[d]? = some (some rate))
  | _ => True

def histOk (s : St) : List Ev → Prop
  | [] => True
  | e :: es => evOk spec s e ∧ histOk (step spec G twoPi s e) es

/-- a new dict object `x` (no `'Fs'`, or the input's rate) appended, then the constructor's fill -/
theorem fill_appended (dicts : List (Option Rat)) (x : Option Rat) (rate : Rat) (fill : Bool)
    (hx : x = none ∨ x = some rate) :
    (if fill then fillFs (dicts ++ [x]) dicts.length rate else dicts ++ [x])
      = dicts ++ [if fill then some rate else x] := by
  cases fill
  · simp
  · rcases hx with hx | hx <;> subst hx <;> simp [fillFs, getFs]

theorem set_same {α} {l : List α} {d : Nat} {x : α} (h : l[d]? = some x) : l.set d x = l := by
  apply List.ext_getElem?
  intro j
  rw [List.getElem?_set]
  by_cases hj : d = j
  · subst hj
    obtain ⟨hd, hx⟩ := List.getElem?_eq_some_iff.mp h
    simp [hd, hx]
  · simp [hj]

theorem good_new_append (s : St) (h : Good G s) (dicts' : List (Option Rat)) (x : An)
    (hlen : s.dicts.length ≤ dicts'.length)
    (hkeep : ∀ (i : Nat) (a : An), s.ans[i]? = some a → a.cls ≠ Cls.spectral → dicts'[a.dict]? = some (some a.rate))
    (hfresh : ∀ (i : Nat) (a : An), s.ans[i]? = some a → a.dict ≠ x.dict)
    (hxb : x.dict < dicts'.length)
    (hxf : x.cls ≠ Cls.spectral → dicts'[x.dict]? = some (some x.rate)) :
    Good G { s with dicts := dicts', ans := s.ans ++ [x] } := by
  constructor
  · intro i j a b hi hj hab
    rcases getElem?_snoc_cases hi with hi' | ⟨hi', ha⟩ <;> rcases getElem?_snoc_cases hj with hj' | ⟨hj', hb⟩
    · exact h.distinct i j a b hi' hj' hab
    · rw [hb] at hab; exact absurd hab (hfresh i a hi')
    · rw [ha] at hab; exact absurd hab.symm (hfresh j b hj')
    · omega
  · intro i a hi
    simp only at hi ⊢
    rcases getElem?_snoc_cases hi with hi | ⟨_, ha⟩
    · exact lt_of_lt_of_le (h.bound i a hi) hlen
    · subst ha; exact hxb
  · intro i a hi hc
    simp only at hi ⊢
    rcases getElem?_snoc_cases hi with hi | ⟨_, ha⟩
    · exact hkeep i a hi hc
    · subst ha; exact hxf hc
  · intro p hp; exact (h.fc p hp).mono G _
  · intro p hp; exact (h.cc p hp).mono G _
  · intro p hp; exact (h.out p hp).mono G _

theorem good_step (hfill : ∀ c, c ≠ Cls.spectral → (spec c).ctorFillsFs = true)
    (s : St) (e : Ev) (h : Good G s) (he : evOk spec s e) : Good G (step spec G twoPi s e) := by
  cases e with
  | userDict fs =>
    exact { distinct := h.distinct
            bound := fun i a hi => by
              have := h.bound i a hi
              simp only [step, List.length_append, List.length_singleton]; omega
            fs := fun i a hi hc => Hist.getElem?_append_of_some (h.fs i a hi hc) _
            fc := h.fc, cc := h.cc, out := h.out }
  | new c rate user =>
    -- the constructor ends with a dict of its own (appended) or the caller's object, `'Fs'` = its input's rate
    have appended : ∀ (x : Option Rat), (x = none ∨ x = some rate) →
        Good G { s with dicts := (if (spec c).ctorFillsFs then fillFs (s.dicts ++ [x]) s.dicts.length rate else s.dicts ++ [x]),
                        ans := s.ans ++ [⟨c, s.dicts.length, rate⟩] } := by
      intro x hx
      rw [fill_appended s.dicts x rate _ hx]
      apply good_new_append G s h
      · simp
      · intro i a hi hc; exact Hist.getElem?_append_of_some (h.fs i a hi hc) _
      · intro i a hi; exact Nat.ne_of_lt (h.bound i a hi)
      · simp
      · intro hc
        simp only at hc
        simp [hfill c hc]
    cases user with
    | none =>
      have := appended (if (spec c).defaultHasFs then some rate else none) (by split <;> simp)
      simpa [step] using this
    | some d =>
      obtain ⟨hfree, hslot⟩ := he
      have hd : d < s.dicts.length := by
        rcases hslot with hslot | hslot <;> exact (List.getElem?_eq_some_iff.mp hslot).1
      have hget : (getFs s.dicts d).getD rate = rate := by
        rcases hslot with h' | h' <;> simp [getFs, List.getD_eq_getElem?_getD, h']
      cases hk : (spec c).keeps with
      | false =>
        have hx : getFs s.dicts d = none ∨ getFs s.dicts d = some rate := by
          rcases hslot with h' | h' <;> simp [getFs, List.getD_eq_getElem?_getD, h']
        have := appended (getFs s.dicts d) hx
        simpa [step, hk] using this
      | true =>
        have hst : step spec G twoPi s (.new c rate (some d)) =
            { s with dicts := if (spec c).ctorFillsFs then s.dicts.set d (some rate) else s.dicts,
                     ans := s.ans ++ [⟨c, d, rate⟩] } := by
          simp [step, hk, fillFs, hget]
        rw [hst]
        apply good_new_append G s h
        · split <;> simp
        · intro i a hi hc
          split
          · rw [List.getElem?_set]
            have : d ≠ a.dict := fun e => hfree hk i a hi e.symm
            simp only [this, if_false]; exact h.fs i a hi hc
          · exact h.fs i a hi hc
        · intro i a hi; exact hfree hk i a hi
        · split <;> simp [hd]
        · intro hc
          simp only at hc
          simp [hfill c hc, hd]
  | freq k =>
    simp only [step]
    cases hk : s.ans[k]? with
    | none => exact h
    | some a =>
      simp only
      cases hl : s.fcache.lookup k with
      | some v =>
        simp only
        have hr : Right G s.ans (k, v) := h.fc _ (mem_of_lookup _ _ _ hl)
        exact { distinct := h.distinct, bound := h.bound, fs := h.fs, fc := h.fc, cc := h.cc
                out := fun p hp => by
                  simp only [List.mem_append, List.mem_singleton] at hp
                  rcases hp with hp | hp
                  · exact h.out p hp
                  · subst hp; exact hr }
      | none =>
        simp only
        -- the dicts are not changed, and the rate used is the analyzer's own
        have key : ∀ (dicts' : List (Option Rat)) (fs : Rat), dicts' = s.dicts → fs = a.rate →
            Good G { s with dicts := dicts', fcache := (k, G a.cls fs) :: s.fcache,
                            out := s.out ++ [(k, G a.cls fs)] } := by
          intro dicts' fs h1 h2
          subst h1; subst h2
          have hr : Right G s.ans (k, G a.cls a.rate) := ⟨a, hk, rfl⟩
          exact { distinct := h.distinct, bound := h.bound, fs := h.fs, cc := h.cc
                  fc := fun p hp => by
                    simp only [List.mem_cons] at hp
                    rcases hp with hp | hp
                    · subst hp; exact hr
                    · exact h.fc p hp
                  out := fun p hp => by
                    simp only [List.mem_append, List.mem_singleton] at hp
                    rcases hp with hp | hp
                    · exact h.out p hp
                    · subst hp; exact hr }
        apply key
        · cases hc : a.cls <;> simp only
          · have := h.fs k a hk (by simp [hc])
            simp only [fillFs, getFs, List.getD_eq_getElem?_getD, this, Option.getD_some]
            exact set_same this
          · have := h.fs k a hk (by simp [hc])
            simp only [fillFs, getFs, List.getD_eq_getElem?_getD, this, Option.getD_some]
            exact set_same this
        · cases hc : a.cls <;> simp only
          · have := h.fs k a hk (by simp [hc])
            simp [getFs, List.getD_eq_getElem?_getD, this]
          · have := h.fs k a hk (by simp [hc])
            have h2 : fillFs s.dicts a.dict a.rate = s.dicts := by
              simp only [fillFs, getFs, List.getD_eq_getElem?_getD, this, Option.getD_some]
              exact set_same this
            simp [h2, getFs, List.getD_eq_getElem?_getD, this]
          · have := h.fs k a hk (by simp [hc])
            have h2 : fillFs s.dicts a.dict a.rate = s.dicts := by
              simp only [fillFs, getFs, List.getD_eq_getElem?_getD, this, Option.getD_some]
              exact set_same this
            simp [h2, getFs, List.getD_eq_getElem?_getD, this]
  | cpsd k =>
    simp only [step]
    cases hk : s.ans[k]? with
    | none => exact h
    | some a =>
      simp only
      by_cases hc : a.cls = .spectral
      · simp only [hc, ne_eq, not_true_eq_false, if_false]
        cases hl : s.ccache.lookup k with
        | some v =>
          simp only
          have hr : Right G s.ans (k, v) := h.cc _ (mem_of_lookup _ _ _ hl)
          exact { distinct := h.distinct, bound := h.bound, fs := h.fs, fc := h.fc, cc := h.cc
                  out := fun p hp => by
                    simp only [List.mem_append, List.mem_singleton] at hp
                    rcases hp with hp | hp
                    · exact h.out p hp
                    · subst hp; exact hr }
        | none =>
          simp only
          have hb := h.bound k a hk
          have hv : (getFs (s.dicts.set a.dict (some a.rate)) a.dict).getD twoPi = a.rate := by
            simp [getFs, List.getD_eq_getElem?_getD, hb]
          rw [hv]
          have hr : Right G s.ans (k, G .spectral a.rate) := ⟨a, hk, by simp [hc]⟩
          exact { distinct := h.distinct
                  bound := fun i b hi => by simpa using h.bound i b hi
                  fs := fun i b hi hcb => by
                    rw [List.getElem?_set]
                    have : a.dict ≠ b.dict := by
                      intro e
                      have := h.distinct k i a b hk hi e
                      subst this
                      rw [hk] at hi
                      simp only [Option.some.injEq] at hi
                      subst hi; exact hcb hc
                    simp only [this, if_false]; exact h.fs i b hi hcb
                  fc := h.fc
                  cc := fun p hp => by
                    simp only [List.mem_cons] at hp
                    rcases hp with hp | hp
                    · subst hp; exact hr
                    · exact h.cc p hp
                  out := fun p hp => by
                    simp only [List.mem_append, List.mem_singleton] at hp
                    rcases hp with hp | hp
                    · exact h.out p hp
                    · subst hp; exact hr }
      · simp only [hc, ne_eq, not_false_eq_true, if_true]; exact h

theorem good_run (hfill : ∀ c, c ≠ Cls.spectral → (spec c).ctorFillsFs = true)
    (evs : List Ev) (s : St) (h : Good G s) (hk : histOk spec G twoPi s evs) :
    Good G (run spec G twoPi s evs) := by
  induction evs generalizing s with
  | nil => exact h
  | cons e es ih => exact ih (step spec G twoPi s e) (good_step spec G twoPi hfill s e h hk.1) hk.2

/-- every constructor call of the history has `method=None` -/
def AllNone : List Ev → Prop
  | [] => True
  | .new _ _ (some _) :: _ => False
  | _ :: es => AllNone es

theorem histOk_of_allNone (evs : List Ev) (s : St) (h : AllNone evs) : histOk spec G twoPi s evs := by
  induction evs generalizing s with
  | nil => trivial
  | cons e es ih =>
    cases e with
    | new c rate user =>
      cases user with
      | none => exact ⟨trivial, ih _ h⟩
      | some d => exact absurd h (by simp [AllNone])
    | userDict fs => exact ⟨trivial, ih _ h⟩
    | freq k => exact ⟨trivial, ih _ h⟩
    | cpsd k => exact ⟨trivial, ih _ h⟩

end Two

end Nitime.C05
