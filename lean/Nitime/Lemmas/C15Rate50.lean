/-
C15 — the rate → interval round trip up to 2⁵⁰ ps: half-ulp calculus for the exact binary64 model.

`|rne a − a| ≤ 2^⌊log₂ a⌋ · 2⁻⁵³` (instead of `a · 2⁻⁵³`), exactness on powers of two, and the PAIR lemma: rounding
`y` to `a` and then `1/a` to `b` costs together at most `(3/2 + ε/2)·ε` relative (not `2ε`), because a mantissa
near 1 makes the first rounding coarse and the second fine, and a mantissa near 2 the other way round.
-/
import Nitime.Lemmas.C15Rate

namespace Nitime.C15.Lemmas50
open Nitime Nitime.F64

/-- `ilog2` never undershoots: `a < 2^(ilog2 a + 1)` -/
theorem lt_pow2_ilog2_succ {a : Rat} (ha : 0 < a) : a < pow2 (ilog2 a + 1) := by
  have hub : a < pow2 ((Nat.log2 a.num.toNat : Int) - (Nat.log2 a.den : Int) + 1) := by
    have hn : 0 < a.num := Rat.num_pos.mpr ha
    have hd : a.den ≠ 0 := a.den_nz
    have h2n : (a.num.toNat : Rat) < (2 : Rat) ^ (Nat.log2 a.num.toNat + 1) := by
      exact_mod_cast (Nat.lt_log2_self (n := a.num.toNat))
    have h2d : (2 : Rat) ^ (Nat.log2 a.den) ≤ (a.den : Rat) := by
      exact_mod_cast Nat.log2_self_le hd
    have hnum : (a.num.toNat : Rat) = (a.num : Rat) := by
      have : ((a.num.toNat : Int)) = a.num := Int.toNat_of_nonneg hn.le
      exact_mod_cast this
    have hdpos : (0 : Rat) < a.den := by exact_mod_cast Nat.pos_of_ne_zero hd
    have ha' : (a.num : Rat) / (a.den : Rat) = a := Rat.num_div_den a
    rw [pow2_eq_zpow]
    have e1 : ((Nat.log2 a.num.toNat : Int) - (Nat.log2 a.den : Int) + 1)
        = ((Nat.log2 a.num.toNat + 1 : Nat) : Int) - ((Nat.log2 a.den : Nat) : Int) := by push_cast; ring
    rw [e1, zpow_sub₀ (by norm_num : (2 : Rat) ≠ 0), zpow_natCast, zpow_natCast]
    have hgoal : (a.num : Rat) / (a.den : Rat)
        < (2 : Rat) ^ (Nat.log2 a.num.toNat + 1) / (2 : Rat) ^ (Nat.log2 a.den) := by
      rw [div_lt_div_iff₀ hdpos (by positivity), ← hnum]
      calc (a.num.toNat : Rat) * (2 : Rat) ^ Nat.log2 a.den
          ≤ (a.num.toNat : Rat) * (a.den : Rat) := by
            have : (0 : Rat) ≤ (a.num.toNat : Rat) := by positivity
            gcongr
        _ < (2 : Rat) ^ (Nat.log2 a.num.toNat + 1) * (a.den : Rat) := by gcongr
    calc a = (a.num : Rat) / (a.den : Rat) := ha'.symm
      _ < _ := hgoal
  unfold ilog2
  simp only
  split_ifs with h1 h2
  · exact absurd h2 (not_le.mpr hub)
  · exact not_le.mp h2
  · have := not_le.mp h1
    simpa using this

theorem pow2_lt_pow2 {a b : Int} : pow2 a < pow2 b ↔ a < b := by
  rw [pow2_eq_zpow, pow2_eq_zpow]; exact zpow_lt_zpow_iff_right₀ (by norm_num : (1 : Rat) < 2)

theorem pow2_le_pow2 {a b : Int} : pow2 a ≤ pow2 b ↔ a ≤ b := by
  rw [pow2_eq_zpow, pow2_eq_zpow]; exact zpow_le_zpow_iff_right₀ (by norm_num : (1 : Rat) < 2)

theorem ilog2_lt_of_lt_pow2 {a : Rat} (ha : 0 < a) (e : Int) (h : a < pow2 e) : ilog2 a < e :=
  pow2_lt_pow2.mp (lt_of_le_of_lt (pow2_ilog2_le ha) h)

theorem le_ilog2_of_pow2_le {a : Rat} (ha : 0 < a) (e : Int) (h : pow2 e ≤ a) : e ≤ ilog2 a := by
  have := pow2_lt_pow2.mp (lt_of_le_of_lt h (lt_pow2_ilog2_succ ha)); omega

theorem ilog2_pow2 (e : Int) : ilog2 (pow2 e) = e := by
  have hp := pow2_pos e
  have h1 := le_ilog2_of_pow2_le hp e le_rfl
  have h2 := ilog2_lt_of_lt_pow2 hp (e + 1) (pow2_lt_pow2.mpr (by omega))
  omega

theorem pow2_succ (e : Int) : pow2 (e + 1) = 2 * pow2 e := by
  rw [pow2_add]; have : pow2 1 = 2 := by decide +kernel
  rw [this]; ring

theorem pow2_neg (e : Int) : pow2 (-e) = 1 / pow2 e := by
  rw [pow2_eq_zpow, pow2_eq_zpow, zpow_neg, one_div]

/-- unit round-off -/
def eps : Rat := 1 / 2 ^ 53

theorem pow2_sub53 (e : Int) : pow2 (e - 52) / 2 = pow2 e * eps := by
  rw [show e - 52 = e + (-52) by ring, pow2_add]
  have : pow2 (-52) = 1 / 2 ^ 52 := by decide +kernel
  rw [this, eps]; ring

theorem rne_pos_eq {a : Rat} (ha : 0 < a) :
    rne a = ((rint (a / pow2 (ilog2 a - 52)) : Int) : Rat) * pow2 (ilog2 a - 52) := by
  have h0 : a ≠ 0 := ne_of_gt ha
  have hn : ¬ a < 0 := not_lt.mpr ha.le
  simp only [rne, h0, hn, if_false]

/-- rounding error at most half a unit in the last place: `2^⌊log₂ a⌋ · 2⁻⁵³` -/
theorem rne_half_ulp {a : Rat} (ha : 0 < a) : |rne a - a| ≤ pow2 (ilog2 a) * eps := by
  rw [rne_pos_eq ha, ← pow2_sub53]
  set ulp := pow2 (ilog2 a - 52)
  have hulpos : 0 < ulp := pow2_pos _
  have hr := rint_near (a / ulp)
  have : ((rint (a / ulp) : Int) : Rat) * ulp - a = (((rint (a / ulp) : Int) : Rat) - a / ulp) * ulp := by
    field_simp
  rw [this, abs_mul, abs_of_pos hulpos]
  calc |((rint (a / ulp) : Int) : Rat) - a / ulp| * ulp ≤ (1 / 2) * ulp := by gcongr
    _ = ulp / 2 := by ring

/-- rounding never goes below the binade's lower end -/
theorem rne_ge_pow2 {a : Rat} (ha : 0 < a) : pow2 (ilog2 a) ≤ rne a := by
  rw [rne_pos_eq ha]
  set ulp := pow2 (ilog2 a - 52)
  have hulpos : 0 < ulp := pow2_pos _
  have hp : pow2 (ilog2 a) = 2 ^ 52 * ulp := by
    have : pow2 52 = 2 ^ 52 := by decide +kernel
    rw [← this, ← pow2_add]; congr 1; ring
  have hq : (2 : Rat) ^ 52 ≤ a / ulp := by
    rw [le_div_iff₀ hulpos, ← hp]; exact pow2_ilog2_le ha
  have hr := rint_near (a / ulp)
  have hm : (2 : Int) ^ 52 ≤ rint (a / ulp) := by
    have h1 := (abs_le.mp hr).1
    have h2 : ((2 : Rat) ^ 52 - 1) < ((rint (a / ulp) : Int) : Rat) := by linarith
    have h3 : (((2 : Int) ^ 52 - 1 : Int) : Rat) < ((rint (a / ulp) : Int) : Rat) := by
      have : (((2 : Int) ^ 52 - 1 : Int) : Rat) = (2 : Rat) ^ 52 - 1 := by norm_num
      rw [this]; exact h2
    have := Int.cast_lt.mp h3
    omega
  rw [hp]
  have : ((2 : Rat) ^ 52) ≤ ((rint (a / ulp) : Int) : Rat) := by exact_mod_cast hm
  gcongr

theorem rne_pos {a : Rat} (ha : 0 < a) : 0 < rne a := lt_of_lt_of_le (pow2_pos _) (rne_ge_pow2 ha)

/-- powers of two are binary64 values -/
theorem rne_pow2 (e : Int) : rne (pow2 e) = pow2 e := by
  rw [rne_pos_eq (pow2_pos e), ilog2_pow2]
  have h : pow2 e / pow2 (e - 52) = (((2 : Int) ^ 52 : Int) : Rat) := by
    have : pow2 e = pow2 (e - 52) * pow2 52 := by rw [← pow2_add]; congr 1; ring
    rw [this]
    have h52 : pow2 52 = 2 ^ 52 := by decide +kernel
    rw [h52]; field_simp [(pow2_pos (e - 52)).ne']; push_cast; ring
  rw [h, rint_intCast]
  have : pow2 e = 2 ^ 52 * pow2 (e - 52) := by
    have h52 : pow2 52 = 2 ^ 52 := by decide +kernel
    rw [← h52, ← pow2_add]; congr 1; ring
  rw [this]; push_cast; ring

/-- algebra of the pair lemma: `p ≤ y < 2p`, `|a − y| ≤ pε`, `p ≤ a`, `|b − 1/a| ≤ ε/(2p)` -/
theorem pair_alg (p y a b ε : Rat) (hp : 0 < p) (hy1 : p ≤ y) (hy2 : y < 2 * p) (hε : 0 < ε)
    (ha : |a - y| ≤ p * ε) (hpa : p ≤ a) (hb : |b - 1 / a| ≤ ε / (2 * p)) :
    |a / y - 1| + |a * b - 1| ≤ ε * (3 / 2 + ε / 2) := by
  have hy : 0 < y := lt_of_lt_of_le hp hy1
  have hapos : 0 < a := lt_of_lt_of_le hp hpa
  have h1 : |a / y - 1| ≤ p * ε / y := by
    have e : a / y - 1 = (a - y) / y := by field_simp
    rw [e, abs_div, abs_of_pos hy]
    exact div_le_div_of_nonneg_right ha hy.le
  have h2 : |a * b - 1| ≤ a * (ε / (2 * p)) := by
    have e : a * b - 1 = a * (b - 1 / a) := by field_simp
    rw [e, abs_mul, abs_of_pos hapos]
    exact mul_le_mul_of_nonneg_left hb hapos.le
  have h3 : a ≤ y + p * ε := by have := (abs_le.mp ha).2; linarith
  have h4 : a * (ε / (2 * p)) ≤ (y + p * ε) * (ε / (2 * p)) :=
    mul_le_mul_of_nonneg_right h3 (by positivity)
  have key : p * ε / y + (y + p * ε) * (ε / (2 * p)) ≤ ε * (3 / 2 + ε / 2) := by
    have e : ε * (3 / 2 + ε / 2) - (p * ε / y + (y + p * ε) * (ε / (2 * p)))
        = ε * ((y - p) * (2 * p - y)) / (2 * p * y) := by field_simp; ring
    have : 0 ≤ ε * ((y - p) * (2 * p - y)) / (2 * p * y) := by
      apply div_nonneg _ (by positivity)
      exact mul_nonneg hε.le (mul_nonneg (by linarith) (by linarith))
    linarith
  linarith

/-- **pair lemma**: `a = fl(y)`, `b = fl(1/a)` — the two relative errors add up to at most `(3/2 + ε/2)·ε` -/
theorem pair_rne {y : Rat} (hy : 0 < y) :
    |rne y / y - 1| + |rne y * rne (1 / rne y) - 1| ≤ eps * (3 / 2 + eps / 2) := by
  have hε : 0 < eps := by simp only [eps]; positivity
  have hp := pow2_pos (ilog2 y)
  have hy1 := pow2_ilog2_le hy
  have hy2 : y < 2 * pow2 (ilog2 y) := by rw [← pow2_succ]; exact lt_pow2_ilog2_succ hy
  have ha := rne_half_ulp hy
  have hpa := rne_ge_pow2 hy
  have hapos := rne_pos hy
  refine pair_alg (pow2 (ilog2 y)) y (rne y) (rne (1 / rne y)) eps hp hy1 hy2 hε ha hpa ?_
  rcases eq_or_lt_of_le hpa with heq | hlt
  · -- a = 2^e: 1/a is a power of two, rounded exactly
    rw [← heq, ← pow2_neg, rne_pow2]; simp only [sub_self, abs_zero]; positivity
  · have hinv : 0 < 1 / rne y := by positivity
    have hlt' : 1 / rne y < pow2 (-(ilog2 y)) := by
      rw [pow2_neg]; exact one_div_lt_one_div_of_lt hp hlt
    have hl := ilog2_lt_of_lt_pow2 hinv _ hlt'
    have hle : pow2 (ilog2 (1 / rne y)) ≤ pow2 (-(ilog2 y) - 1) := pow2_le_pow2.mpr (by omega)
    have e : pow2 (-(ilog2 y) - 1) = 1 / (2 * pow2 (ilog2 y)) := by
      have : -(ilog2 y) - 1 = -(ilog2 y + 1) := by ring
      rw [this, pow2_neg, pow2_succ]
    calc |rne (1 / rne y) - 1 / rne y| ≤ pow2 (ilog2 (1 / rne y)) * eps := rne_half_ulp hinv
      _ ≤ 1 / (2 * pow2 (ilog2 y)) * eps := by rw [← e]; gcongr
      _ = eps / (2 * pow2 (ilog2 y)) := by ring

/-- two pairs in a quotient: `A·E/(B·D)` with `|A−1|+|B−1| ≤ σ`, `|D−1|+|E−1| ≤ σ` -/
theorem quad_alg (A B D E σ : Rat) (hσ : 0 ≤ σ) (hσ1 : σ ≤ 1 / 100)
    (h1 : |A - 1| + |B - 1| ≤ σ) (h2 : |D - 1| + |E - 1| ≤ σ) :
    |A * E / (B * D) - 1| ≤ 2 * σ + 6 * σ ^ 2 := by
  have hα := abs_nonneg (A - 1)
  have hβ := abs_nonneg (B - 1)
  have hδ := abs_nonneg (D - 1)
  have hη := abs_nonneg (E - 1)
  have hB : 1 - |B - 1| ≤ B := by have := (abs_le.mp (le_refl |B - 1|)).1; linarith
  have hD : 1 - |D - 1| ≤ D := by have := (abs_le.mp (le_refl |D - 1|)).1; linarith
  have hnum : |A * E - B * D| ≤ |A - 1| + |E - 1| + |A - 1| * |E - 1| + (|B - 1| + |D - 1| + |B - 1| * |D - 1|) := by
    have e : A * E - B * D = ((A - 1) + (E - 1) + (A - 1) * (E - 1)) - ((B - 1) + (D - 1) + (B - 1) * (D - 1)) := by ring
    rw [e]
    refine le_trans (abs_sub _ _) ?_
    have t1 := abs_add_three (A - 1) (E - 1) ((A - 1) * (E - 1))
    have t2 := abs_add_three (B - 1) (D - 1) ((B - 1) * (D - 1))
    rw [abs_mul] at t1 t2
    linarith
  generalize |A - 1| = α at *
  generalize |B - 1| = β at *
  generalize |D - 1| = δ at *
  generalize |E - 1| = η at *
  have hBpos : 0 < B := by linarith
  have hDpos : 0 < D := by linarith
  have hBD : 1 - 2 * σ ≤ B * D := by
    have : (1 - β) * (1 - δ) ≤ B * D := mul_le_mul hB hD (by linarith) hBpos.le
    nlinarith [mul_nonneg hβ hδ]
  have hBDpos : 0 < B * D := mul_pos hBpos hDpos
  have hnum2 : |A * E - B * D| ≤ 2 * σ + σ ^ 2 := by
    have hp : α * η + β * δ ≤ σ ^ 2 := by
      have : (α + β) * (δ + η) ≤ σ * σ := mul_le_mul h1 h2 (by linarith) hσ
      nlinarith [mul_nonneg hα hδ, mul_nonneg hβ hη]
    linarith
  have e : A * E / (B * D) - 1 = (A * E - B * D) / (B * D) := by field_simp
  rw [e, abs_div, abs_of_pos hBDpos, div_le_iff₀ hBDpos]
  have : 2 * σ + σ ^ 2 ≤ (2 * σ + 6 * σ ^ 2) * (1 - 2 * σ) := by nlinarith [mul_nonneg hσ hσ, mul_nonneg (mul_nonneg hσ hσ) hσ]
  have h3 : (2 * σ + 6 * σ ^ 2) * (1 - 2 * σ) ≤ (2 * σ + 6 * σ ^ 2) * (B * D) :=
    mul_le_mul_of_nonneg_left hBD (by positivity)
  linarith

/-- the period that `Frequency.to_period` recovers: for `0 < k < 2⁵⁰` and a unit factor `F` whose `10¹²/F` is a
binary64 value, `rint(fl(fl(1/hz)·10¹²)) = k` where `hz = fl(fl(1/fl(k/F))·(10¹²/F))` -/
theorem period_eq50 (F : Rat) (k : Int) (hF : 0 < F) (hk0 : 0 < k) (hlt : k < 2 ^ 50) :
    rint (rne (rne (1 / rne (rne (1 / rne ((k : Rat) / F)) * (10 ^ 12 / F))) * 10 ^ 12)) = k := by
  have hkpos : (0 : Rat) < k := by exact_mod_cast hk0
  have hkle : (k : Rat) ≤ 2 ^ 50 - 1 := by
    have : k ≤ 2 ^ 50 - 1 := by omega
    exact_mod_cast this
  have hy1 : (0 : Rat) < (k : Rat) / F := by positivity
  have p1 := pair_rne hy1
  have hx := rne_pos hy1
  generalize rne ((k : Rat) / F) = x at *
  have hinv0 : (0 : Rat) < 1 / x := by positivity
  have hinv := rne_pos hinv0
  generalize rne (1 / x) = inv at *
  have hy2 : (0 : Rat) < inv * (10 ^ 12 / F) := by positivity
  have p2 := pair_rne hy2
  have hhz := rne_pos hy2
  generalize rne (inv * (10 ^ 12 / F)) = hz at *
  have hq0 : (0 : Rat) < 1 / hz := by positivity
  have hq := rne_pos hq0
  generalize rne (1 / hz) = q at *
  have hσ0 : (0 : Rat) ≤ eps * (3 / 2 + eps / 2) := by simp only [eps]; positivity
  have hσ1 : eps * (3 / 2 + eps / 2) ≤ 1 / 100 := by simp only [eps]; norm_num
  have p1' : |x / ((k : Rat) / F) - 1| + |x * inv - 1| ≤ eps * (3 / 2 + eps / 2) := p1
  have p2' : |hz / (inv * (10 ^ 12 / F)) - 1| + |hz * q - 1| ≤ eps * (3 / 2 + eps / 2) := p2
  have Q := quad_alg (x / ((k : Rat) / F)) (x * inv) (hz / (inv * (10 ^ 12 / F))) (hz * q) _ hσ0 hσ1 p1' p2'
  have ident : x / ((k : Rat) / F) * (hz * q) / (x * inv * (hz / (inv * (10 ^ 12 / F)))) = q * 10 ^ 12 / k := by
    field_simp
  rw [ident] at Q
  -- |q·10¹² − k| ≤ k·T < 3/8
  have hT : ((2 : Rat) ^ 50 - 1) * (2 * (eps * (3 / 2 + eps / 2)) + 6 * (eps * (3 / 2 + eps / 2)) ^ 2) < 3 / 8 := by
    simp only [eps]; norm_num
  have hTnn : (0 : Rat) ≤ 2 * (eps * (3 / 2 + eps / 2)) + 6 * (eps * (3 / 2 + eps / 2)) ^ 2 := by positivity
  generalize 2 * (eps * (3 / 2 + eps / 2)) + 6 * (eps * (3 / 2 + eps / 2)) ^ 2 = T at *
  have hPk : |q * 10 ^ 12 - k| < 3 / 8 := by
    have e : q * 10 ^ 12 - k = k * (q * 10 ^ 12 / k - 1) := by field_simp
    rw [e, abs_mul, abs_of_pos hkpos]
    calc (k : Rat) * |q * 10 ^ 12 / k - 1| ≤ k * T := mul_le_mul_of_nonneg_left Q hkpos.le
      _ ≤ (2 ^ 50 - 1) * T := mul_le_mul_of_nonneg_right hkle hTnn
      _ < 3 / 8 := hT
  have hPpos : (0 : Rat) < q * 10 ^ 12 := by positivity
  have hPlt : q * 10 ^ 12 < pow2 50 := by
    have h50 : pow2 50 = 2 ^ 50 := by decide +kernel
    have := (abs_lt.mp hPk).2
    rw [h50]; linarith
  have hil := ilog2_lt_of_lt_pow2 hPpos 50 hPlt
  have hulp : |rne (q * 10 ^ 12) - q * 10 ^ 12| ≤ 1 / 16 := by
    calc |rne (q * 10 ^ 12) - q * 10 ^ 12| ≤ pow2 (ilog2 (q * 10 ^ 12)) * eps := rne_half_ulp hPpos
      _ ≤ pow2 49 * eps := by
          have : pow2 (ilog2 (q * 10 ^ 12)) ≤ pow2 49 := pow2_le_pow2.mpr (by omega)
          have he : (0 : Rat) ≤ eps := by simp only [eps]; positivity
          gcongr
      _ = 1 / 16 := by
          have h49 : pow2 49 = 2 ^ 49 := by decide +kernel
          rw [h49, eps]; norm_num
  apply Nitime.C02F.rint_eq_of_near
  have e : rne (q * 10 ^ 12) - (k : Rat) = (rne (q * 10 ^ 12) - q * 10 ^ 12) + (q * 10 ^ 12 - k) := by ring
  rw [e]
  calc |(rne (q * 10 ^ 12) - q * 10 ^ 12) + (q * 10 ^ 12 - k)|
      ≤ |rne (q * 10 ^ 12) - q * 10 ^ 12| + |q * 10 ^ 12 - k| := abs_add_le _ _
    _ < 1 / 2 := by linarith

/-- **round trip up to 2⁵⁰ ps** for every unit factor `F` with `10¹²/F` exactly representable (all of ps … s) -/
theorem roundTrip_eq50 (F : Rat) (k : Int) (hF : 0 < F) (hC : rne (10 ^ 12 / F) = 10 ^ 12 / F)
    (hk0 : 0 < k) (hlt : k < 2 ^ 50) : Nitime.C15.Lemmas.roundTrip F k = k := by
  unfold Nitime.C15.Lemmas.roundTrip Nitime.C15.Lemmas.rtR Nitime.C15.Lemmas.rtX
  have hkpos : (0 : Rat) < k := by exact_mod_cast hk0
  have hkR : (k : Rat) < 2 ^ 50 := by exact_mod_cast hlt
  obtain ⟨kn, hkn⟩ := Int.eq_ofNat_of_zero_le hk0.le
  have hknlt : kn < 2 ^ 53 := by
    have : (kn : Int) < 2 ^ 50 := by rw [← hkn]; exact hlt
    have : kn < 2 ^ 50 := by exact_mod_cast this
    omega
  have hrnek : rne (k : Rat) = k := by
    rw [hkn]; exact_mod_cast Nitime.C02F.rne_natCast kn hknlt
  rw [hrnek, hC, period_eq50 F k hF hk0 hlt, hrnek]
  have hw := Nitime.C02F.rne_chain3 (k : Rat) F hF
  rw [abs_of_pos hkpos, hrnek] at hw
  apply Nitime.C02F.rint_eq_of_near
  calc |rne (rne ((k : Rat) / F) * F) - (k : Rat)| ≤ (k : Rat) * (7 / 2 * (1 / 2 ^ 53)) := hw
    _ < 2 ^ 50 * (7 / 2 * (1 / 2 ^ 53)) := by gcongr
    _ < 1 / 2 := by norm_num

/-- the units up to seconds: `10¹²/c_f` is a power of ten ≤ 10¹², a binary64 value (for m, h, D, W it is not) -/
def SubSecond (u : TimeUnit) : Prop := u = .ps ∨ u = .ns ∨ u = .us ∨ u = .ms ∨ u = .s

theorem cf_exact_quot (u : TimeUnit) (hu : SubSecond u) : rne (10 ^ 12 / cf u) = 10 ^ 12 / cf u := by
  rcases hu with rfl | rfl | rfl | rfl | rfl <;> decide +kernel

end Nitime.C15.Lemmas50
