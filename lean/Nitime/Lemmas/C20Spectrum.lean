/-
C20 — `correlation_spectrum` is a spectral decomposition of the Pearson coefficient: the full
(un-normalised) spectrum sums to `seed_corrcoef`.  Plancherel for the length-N DFT, from the
orthogonality of the powers of a primitive root (`Lemmas/Parseval.lean`).
-/
import Nitime.Model.C20
import Nitime.Lemmas.EvInst
import Nitime.Lemmas.Parseval
import Nitime.Lemmas.C20Real

namespace Nitime.C20
open Finset Complex ComplexConjugate Nitime.Ev

/-- Plancherel: `Σ_k X_k·conj Y_k = N·Σ_j x_j·conj y_j` -/
theorem plancherel {N : ℕ} (hN : 0 < N) {ζ : ℂ} (hζ : IsPrimitiveRoot ζ N) (hc : conj ζ = ζ⁻¹)
    (x y : ℕ → ℂ) :
    ∑ k ∈ range N, (∑ j ∈ range N, x j * ζ ^ (j * k)) * conj (∑ j ∈ range N, y j * ζ ^ (j * k))
      = N * ∑ j ∈ range N, x j * conj (y j) := by
  have hconj : ∀ k, conj (∑ j ∈ range N, y j * ζ ^ (j * k))
      = ∑ j ∈ range N, conj (y j) * (ζ⁻¹) ^ (j * k) := by
    intro k; rw [map_sum]; refine sum_congr rfl fun j _ => ?_
    rw [map_mul, map_pow, hc]
  simp_rw [hconj, sum_mul_sum]
  rw [sum_comm]
  have : ∀ j ∈ range N, ∑ k ∈ range N, ∑ j' ∈ range N,
        x j * ζ ^ (j * k) * (conj (y j') * ζ⁻¹ ^ (j' * k))
      = (N : ℂ) * (x j * conj (y j)) := by
    intro j hj
    rw [sum_comm]
    have : ∀ j' ∈ range N, ∑ k ∈ range N, x j * ζ ^ (j * k) * (conj (y j') * ζ⁻¹ ^ (j' * k))
        = x j * conj (y j') * (if j = j' then (N : ℂ) else 0) := by
      intro j' hj'
      rw [← root_orth hN hζ (mem_range.1 hj) (mem_range.1 hj'), mul_sum]
      refine sum_congr rfl fun k _ => by ring
    rw [sum_congr rfl this]
    simp [mul_ite, sum_ite_eq, hj]; ring
  rw [sum_congr rfl this, mul_sum]

theorem pow_mod_of_pow_eq_one {ζ : ℂ} {N : ℕ} (h : ζ ^ N = 1) (m : ℕ) : ζ ^ (m % N) = ζ ^ m := by
  conv_rhs => rw [← Nat.div_add_mod m N, pow_add, pow_mul, h, one_pow, one_mul]

/-- the DFT of a real sequence as a complex number -/
noncomputable def dft (ζ : ℂ) (N : ℕ) (x : ℕ → ℝ) (k : ℕ) : ℂ := ∑ t ∈ range N, (x t : ℂ) * ζ ^ (t * k)

/-- real form of Plancherel for real sequences -/
theorem plancherel_real {N : ℕ} (hN : 0 < N) {ζ : ℂ} (hζ : IsPrimitiveRoot ζ N) (hc : conj ζ = ζ⁻¹)
    (x y : ℕ → ℝ) :
    ∑ k ∈ range N, ((dft ζ N x k).re * (dft ζ N y k).re + (dft ζ N x k).im * (dft ζ N y k).im)
      = N * ∑ j ∈ range N, x j * y j := by
  have h := congrArg Complex.re (plancherel hN hζ hc (fun j => (x j : ℂ)) (fun j => (y j : ℂ)))
  simp only [Complex.re_sum] at h
  have hl : ∀ k, ((∑ j ∈ range N, (x j : ℂ) * ζ ^ (j * k)) * conj (∑ j ∈ range N, (y j : ℂ) * ζ ^ (j * k))).re
      = (dft ζ N x k).re * (dft ζ N y k).re + (dft ζ N x k).im * (dft ζ N y k).im := by
    intro k
    simp only [dft, Complex.mul_re, Complex.conj_re, Complex.conj_im]
    ring
  simp only [hl] at h
  rw [h]
  have : (∑ j ∈ range N, (x j : ℂ) * conj (y j : ℂ)) = ((∑ j ∈ range N, x j * y j : ℝ) : ℂ) := by
    push_cast
    refine sum_congr rfl fun j _ => by rw [Complex.conj_ofReal]
  rw [this, ← Complex.ofReal_natCast, ← Complex.ofReal_mul, Complex.ofReal_re]

/-- the un-normalised full correlation spectrum sums to the Pearson coefficient -/
theorem corrspec_sum_eq_pearson (a b : List ℝ) (hl : a.length = b.length) (hn : 0 < a.length)
    (ζ : ℂ) (hζ : IsPrimitiveRoot ζ a.length) (hc : conj ζ = ζ⁻¹) :
    ∑ k ∈ range a.length,
        nth (correlationSpectrumFull (fun j => (ζ ^ j).re) (fun j => -(ζ ^ j).im) a b false) k
      = seedCorrcoef1 b a := by
  set N := a.length with hNdef
  have hre : ∀ (x : List ℝ) (k : ℕ),
      (sumRange N fun t => Scalar.mul (nth x t) ((ζ ^ ((k * t) % N)).re)) = (dft ζ N (nth x) k).re := by
    intro x k
    rw [sumRange_eq_r, dft, Complex.re_sum]
    refine sum_congr rfl fun t _ => ?_
    rw [pow_mod_of_pow_eq_one hζ.pow_eq_one, Complex.re_ofReal_mul, mul_comm k t]; rfl
  have him : ∀ (x : List ℝ) (k : ℕ),
      (sumRange N fun t => Scalar.sub (zero : ℝ) (Scalar.mul (nth x t) (-(ζ ^ ((k * t) % N)).im)))
        = (dft ζ N (nth x) k).im := by
    intro x k
    rw [sumRange_eq_r, dft, Complex.im_sum]
    refine sum_congr rfl fun t _ => ?_
    rw [pow_mod_of_pow_eq_one hζ.pow_eq_one, Complex.im_ofReal_mul, mul_comm k t]
    simp
  have hterm : ∀ k ∈ range N,
      nth (correlationSpectrumFull (fun j => (ζ ^ j).re) (fun j => -(ζ ^ j).im) a b false) k
        = ((dft ζ N (nth (removeBias a)) k).re * (dft ζ N (nth (removeBias b)) k).re
            + (dft ζ N (nth (removeBias a)) k).im * (dft ζ N (nth (removeBias b)) k).im)
          / (Real.sqrt (dot (removeBias a) (removeBias a)) * Real.sqrt (dot (removeBias b) (removeBias b)) * N) := by
    intro k hk
    unfold correlationSpectrumFull
    simp only [Bool.false_eq_true, if_false]
    rw [nth_tabulate _ (mem_range.mp hk), ← hNdef, hre, hre, him, him]
    rfl
  rw [sum_congr rfl hterm, ← sum_div, plancherel_real hn hζ hc]
  simp only [seedCorrcoef1, r_div, r_sqrt, r_mul]
  have hdot : dot (removeBias a) (removeBias b) = ∑ j ∈ range N, nth (removeBias a) j * nth (removeBias b) j := by
    simp [dot, sumRange_eq_r, hNdef]
  rw [hdot]
  have hN0 : (N : ℝ) ≠ 0 := by exact_mod_cast hn.ne'
  rw [mul_comm (N : ℝ), mul_div_mul_right _ _ hN0]

/-- the twiddle factor of the code's DFT, `e^{-2πi/N}` -/
noncomputable def twiddle (N : ℕ) : ℂ := (Complex.exp (2 * Real.pi * Complex.I / N))⁻¹

theorem twiddle_primitive {N : ℕ} (hN : N ≠ 0) : IsPrimitiveRoot (twiddle N) N :=
  (Complex.isPrimitiveRoot_exp N hN).inv

theorem twiddle_conj {N : ℕ} (hN : N ≠ 0) : conj (twiddle N) = (twiddle N)⁻¹ := by
  have h1 : ‖twiddle N‖ = 1 := (twiddle_primitive hN).norm'_eq_one hN
  have h0 : twiddle N ≠ 0 := (twiddle_primitive hN).ne_zero hN
  rw [Complex.inv_def, Complex.normSq_eq_norm_sq, h1]; simp

theorem twiddle_pow (N j : ℕ) :
    twiddle N ^ j = Complex.exp (((-(2 * Real.pi * j / N) : ℝ) : ℂ) * Complex.I) := by
  unfold twiddle
  rw [inv_pow, ← Complex.exp_nat_mul, ← Complex.exp_neg]
  congr 1
  push_cast
  ring

theorem twiddle_pow_re (N j : ℕ) : (twiddle N ^ j).re = Real.cos (2 * Real.pi * j / N) := by
  rw [twiddle_pow, Complex.exp_ofReal_mul_I_re, Real.cos_neg]

theorem twiddle_pow_im (N j : ℕ) : -(twiddle N ^ j).im = Real.sin (2 * Real.pi * j / N) := by
  rw [twiddle_pow, Complex.exp_ofReal_mul_I_im, Real.sin_neg, neg_neg]

end Nitime.C20
