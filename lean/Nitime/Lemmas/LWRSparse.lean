/-
Zero reflection matrices in the block Levinson (LWR) recursion, and exact recovery of a pure lag-`s` ("seasonal") model.

* `step_of_delta_zero` — a pass whose reflection numerator `deltaF` vanishes leaves both coefficient sequences and both error
  covariances as they were (no invertibility needed): it is an ORDINARY pass, the recursion goes on.
* `lwr_sparse_A` — if `R(k) = 0` for `0 < k < s` and `R(k) = B·R(k−s)` for `s ≤ k ≤ P` (the covariances of
  `x(t) = B x(t−s) + e(t)`), and `inv` returns a right inverse of `R(0)`, then after EVERY number of passes `p ≤ P` the forward
  coefficients are `A(0) = 1`, `A(s) = −B` (once `p ≥ s`), everything else `0`.  Passes `0..s−2` and `s..P−1` have a vanishing
  numerator; pass `s−1` in between does not (unless `B·R(0) = 0`).  No positive-definiteness and no invertibility of the
  later error covariances is needed: a vanishing numerator makes the inverses irrelevant.
-/
import Nitime.Lemmas.BlockLevinson

open Finset

namespace LWR

variable {M : Type*} [Ring M] [StarRing M] {R : ℤ → M}

/-- a pass with a vanishing reflection numerator changes nothing -/
theorem step_of_delta_zero {p : ℕ} {s : St M} (hAz : ∀ i, p < i → s.A i = 0) (hBz : ∀ i, p < i → s.B i = 0)
    (hd : deltaF R p s = 0) (sfi sbi : M) :
    (∀ i, (step R p s sfi sbi).A i = s.A i) ∧ (∀ j, (step R p s sfi sbi).B j = s.B j) ∧
    (step R p s sfi sbi).sf = s.sf ∧ (step R p s sfi sbi).sb = s.sb := by
  refine ⟨fun i => ?_, fun j => ?_, ?_, ?_⟩
  · simp only [step, hd, zero_mul, sub_zero]
    split_ifs with h
    · rfl
    · exact (hAz i (by omega)).symm
  · simp only [step, hd, star_zero, zero_mul, sub_zero]
    split_ifs with h
    · rfl
    · exact (hBz j (by omega)).symm
  · simp [step, hd]
  · simp [step, hd]

/-- structural facts of the recursion (no invertibility needed) -/
lemma lwr_support (inv : M → M) (p : ℕ) :
    (∀ i, p < i → (lwr R inv p).A i = 0) ∧ (∀ i, p < i → (lwr R inv p).B i = 0) := by
  induction p with
  | zero =>
    constructor <;>
    · intro i hi
      have : i ≠ 0 := by omega
      simp [lwr, init, this]
  | succ p ih =>
    constructor <;>
    · intro i hi
      have : ¬ i ≤ p + 1 := by omega
      simp [lwr, step, this]

/-- unit impulse `A(0) = 1` -/
def unitA (i : ℕ) : M := if i = 0 then 1 else 0

/-- coefficient sequence of the pure lag-`s` model in the recursion's sign convention -/
def sparseA (s : ℕ) (Bm : M) (i : ℕ) : M := if i = 0 then 1 else if i = s then -Bm else 0

section sparse
variable (inv : M → M) (s P : ℕ) (Bm : M)

/-- passes before the season: nothing happens, the state is the initial one -/
lemma lwr_sparse_pre (hzero : ∀ k : ℕ, 1 ≤ k → k < s → R (k : ℤ) = 0) :
    ∀ p, p < s → (∀ i, (lwr R inv p).A i = unitA i) ∧ (∀ i, (lwr R inv p).B i = unitA i) ∧
      (lwr R inv p).sf = R 0 ∧ (lwr R inv p).sb = R 0 := by
  intro p
  induction p with
  | zero => intro _; exact ⟨fun i => rfl, fun i => rfl, rfl, rfl⟩
  | succ p ih =>
    intro hp
    obtain ⟨hA, hB, hsf, hsb⟩ := ih (by omega)
    have hd : deltaF R p (lwr R inv p) = 0 := by
      unfold deltaF
      rw [sum_eq_single 0]
      · rw [hA 0]; simp only [unitA, if_true, one_mul, Nat.cast_zero, sub_zero]
        have := hzero (p + 1) (by omega) hp
        push_cast at this
        exact this
      · intro i _ hi; rw [hA i]; simp [unitA, hi]
      · intro h; simp at h
    obtain ⟨hsA, hsB⟩ := lwr_support (R := R) inv p
    obtain ⟨h1, h2, h3, h4⟩ := step_of_delta_zero hsA hsB hd (inv (lwr R inv p).sf) (inv (lwr R inv p).sb)
    refine ⟨fun i => ?_, fun i => ?_, ?_, ?_⟩
    · show (step R p (lwr R inv p) _ _).A i = _
      rw [h1 i, hA i]
    · show (step R p (lwr R inv p) _ _).B i = _
      rw [h2 i, hB i]
    · show (step R p (lwr R inv p) _ _).sf = _
      rw [h3, hsf]
    · show (step R p (lwr R inv p) _ _).sb = _
      rw [h4, hsb]

/-- **sparse exact recovery (abstract recursion).** -/
theorem lwr_sparse_A (hs : 1 ≤ s)
    (hzero : ∀ k : ℕ, 1 ≤ k → k < s → R (k : ℤ) = 0)
    (hseason : ∀ k : ℕ, s ≤ k → k ≤ P → R (k : ℤ) = Bm * R ((k : ℤ) - s))
    (hinv0 : R 0 * inv (R 0) = 1) :
    ∀ p, s ≤ p → p ≤ P → ∀ i, (lwr R inv p).A i = sparseA s Bm i := by
  intro p hsp
  induction p, hsp using Nat.le_induction with
  | base =>
    intro hsP i
    -- the pass that introduces the season: s = q + 1
    obtain ⟨q, rfl⟩ : ∃ q, s = q + 1 := ⟨s - 1, by omega⟩
    obtain ⟨hA, hB, hsf, hsb⟩ := lwr_sparse_pre (R := R) inv (q + 1) hzero q (by omega)
    have hd : deltaF R q (lwr R inv q) = Bm * R 0 := by
      unfold deltaF
      rw [sum_eq_single 0]
      · rw [hA 0]; simp only [unitA, if_true, one_mul, Nat.cast_zero, sub_zero]
        have := hseason (q + 1) le_rfl hsP
        push_cast at this
        rw [this]; simp
      · intro i _ hi; rw [hA i]; simp [unitA, hi]
      · intro h; simp at h
    show (step R q (lwr R inv q) _ _).A i = _
    simp only [step, hd, hsb, mul_assoc, hinv0, mul_one, hA, hB, unitA, sparseA]
    by_cases h0 : i = 0
    · subst h0; simp
    · by_cases h1 : i = q + 1
      · subst h1; simp
      · by_cases h2 : i ≤ q + 1
        · have : q + 1 - i ≠ 0 := by omega
          simp [h0, h1, h2, this]
        · simp [h0, h1, h2]
  | succ p hsp ih =>
    intro hpP i
    have hA := ih (by omega)
    have hd : deltaF R p (lwr R inv p) = 0 := by
      unfold deltaF
      have hne : (0 : ℕ) ≠ s := by omega
      rw [sum_eq_add 0 s hne]
      · rw [hA 0, hA s]
        have hs0 : s ≠ 0 := by omega
        simp only [sparseA, if_true, hs0, if_false, one_mul, Nat.cast_zero, sub_zero, neg_mul]
        have := hseason (p + 1) (by omega) hpP
        push_cast at this
        rw [this]
        have e : (p : ℤ) + 1 - (s : ℤ) = (p : ℤ) + 1 - s := rfl
        simp
      · intro c _ hc; rw [hA c]; simp [sparseA, hc.1, hc.2]
      · intro h; simp at h
      · intro h; simp at h; omega
    obtain ⟨hsA, hsB⟩ := lwr_support (R := R) inv p
    obtain ⟨h1, _, _, _⟩ := step_of_delta_zero hsA hsB hd (inv (lwr R inv p).sf) (inv (lwr R inv p).sb)
    show (step R p (lwr R inv p) _ _).A i = _
    rw [h1 i, hA i]

end sparse

end LWR
