/-
Transport of the `lwr_recursion` model along a structure-preserving map between two `MatOps`
structures (core Lean only).

`lwr`/`lwrLoop`/`lwrStep` (`Model/C11.lean`) are written once over `MatOps M`.  If `φ : M → M'`
commutes with every operation on the inputs satisfying a predicate `W` that the operations preserve
(`MatHom W φ`; for lists of rows: `W` = "n rows of n entries", `φ` = the matrix of the entries), then
the loop run on `φ ∘ r` is the `φ`-image of the loop run on `r`, and every matrix the loop meets
satisfies `W`.  `Props/C11.lean` uses this with `M = GSq ℂ n` (the driver's text at `K = ℂ`) and
`M' = Matrix (Fin n) (Fin n) ℂ`.
-/
import Nitime.Model.C11

namespace Nitime.C11
open Nitime.AR

section
variable {M M' : Type} [MatOps M] [MatOps M']

/-- `φ` commutes with the operations of `MatOps` on the inputs satisfying `W`, and `W` is preserved -/
structure MatHom (W : M → Prop) (φ : M → M') : Prop where
  add : ∀ a b, W a → W b → W (a +: b) ∧ φ (a +: b) = φ a +: φ b
  sub : ∀ a b, W a → W b → W (a -: b) ∧ φ (a -: b) = φ a -: φ b
  mul : ∀ a b, W a → W b → W (a *: b) ∧ φ (a *: b) = φ a *: φ b
  neg : ∀ a, W a → W (MatOps.neg a) ∧ φ (MatOps.neg a) = MatOps.neg (φ a)
  star : ∀ a, W a → W (MatOps.star a) ∧ φ (MatOps.star a) = MatOps.star (φ a)
  inv : ∀ a, W a → W (MatOps.inv a) ∧ φ (MatOps.inv a) = MatOps.inv (φ a)
  one : W (MatOps.one : M) ∧ φ MatOps.one = MatOps.one
  zero : W (MatOps.zero : M) ∧ φ MatOps.zero = MatOps.zero

variable {W : M → Prop} {φ : M → M'}

theorem MatHom.getD_W (H : MatHom W φ) (l : List M) (hl : ∀ x ∈ l, W x) (i : Nat) :
    W (l.getD i MatOps.zero) := by
  rw [List.getD_eq_getElem?_getD]
  cases h : l[i]? with
  | none => exact H.zero.1
  | some x => exact hl x (List.mem_of_getElem? h)

theorem MatHom.getD_map (H : MatHom W φ) (l : List M) (i : Nat) :
    (l.map φ).getD i MatOps.zero = φ (l.getD i MatOps.zero) := by
  rw [List.getD_eq_getElem?_getD, List.getD_eq_getElem?_getD, List.getElem?_map]
  cases l[i]? with
  | none => exact H.zero.2.symm
  | some x => rfl

theorem MatHom.foldAdd (H : MatHom W φ) (x0 : M) (hx0 : W x0) (n : Nat) (f : Nat → M) (f' : Nat → M')
    (hf : ∀ i, W (f i) ∧ φ (f i) = f' i) :
    W (foldAdd x0 n f) ∧ φ (foldAdd x0 n f) = foldAdd (φ x0) n f' := by
  unfold Nitime.C11.foldAdd
  induction n with
  | zero => exact ⟨hx0, rfl⟩
  | succ n ih =>
    rw [List.range_succ, List.foldl_append, List.foldl_append]
    simp only [List.foldl_cons, List.foldl_nil]
    obtain ⟨w, e⟩ := ih
    obtain ⟨w2, e2⟩ := H.add _ _ w (hf n).1
    exact ⟨w2, by rw [e2, e, (hf n).2]⟩

/-- one pass of the loop commutes with `φ` -/
theorem lwrStep_hom (H : MatHom W φ) (r : Nat → M) (hr : ∀ k, W (r k)) (p : Nat) (s : LWRSt M)
    (ha : ∀ x ∈ s.a, W x) (hb : ∀ x ∈ s.b, W x) (hsf : W s.sigf) (hsb : W s.sigb) :
    (∀ x ∈ (lwrStep r p s).a, W x) ∧ (∀ x ∈ (lwrStep r p s).b, W x) ∧
    W (lwrStep r p s).sigf ∧ W (lwrStep r p s).sigb ∧
    lwrStep (fun k => φ (r k)) p ⟨s.a.map φ, s.b.map φ, φ s.sigf, φ s.sigb⟩
      = ⟨(lwrStep r p s).a.map φ, (lwrStep r p s).b.map φ, φ (lwrStep r p s).sigf, φ (lwrStep r p s).sigb⟩ := by
  -- delta
  have hterm : ∀ i, W (s.a.getD i MatOps.zero *: r (p - i)) ∧
      φ (s.a.getD i MatOps.zero *: r (p - i)) = (s.a.map φ).getD i MatOps.zero *: φ (r (p - i)) := by
    intro i
    obtain ⟨w, e⟩ := H.mul _ _ (H.getD_W s.a ha i) (hr (p - i))
    exact ⟨w, by rw [e, H.getD_map]⟩
  obtain ⟨wd, ed⟩ := H.foldAdd (r (p + 1)) (hr (p + 1)) p _ _ hterm
  generalize hdel : Nitime.C11.foldAdd (r (p + 1)) p (fun i => s.a.getD i MatOps.zero *: r (p - i)) = delta at wd ed
  -- ka, kb
  obtain ⟨wisb, eisb⟩ := H.inv _ hsb
  obtain ⟨wisf, eisf⟩ := H.inv _ hsf
  obtain ⟨wka, eka⟩ := H.mul _ _ wd wisb
  obtain ⟨wsd, esd⟩ := H.star _ wd
  obtain ⟨wkb, ekb⟩ := H.mul _ _ wsd wisf
  generalize hka : delta *: MatOps.inv s.sigb = ka at wka eka
  generalize hkb : MatOps.star delta *: MatOps.inv s.sigf = kb at wkb ekb
  have eka' : φ delta *: MatOps.inv (φ s.sigb) = φ ka := by rw [eka, eisb]
  have ekb' : MatOps.star (φ delta) *: MatOps.inv (φ s.sigf) = φ kb := by rw [ekb, esd, eisf]
  -- the two updated coefficient lists
  have hai : ∀ i, W (s.a.getD i MatOps.zero -: ka *: s.b.getD (p - 1 - i) MatOps.zero) ∧
      φ (s.a.getD i MatOps.zero -: ka *: s.b.getD (p - 1 - i) MatOps.zero)
        = (s.a.map φ).getD i MatOps.zero -: φ ka *: (s.b.map φ).getD (p - 1 - i) MatOps.zero := by
    intro i
    obtain ⟨w1, e1⟩ := H.mul _ _ wka (H.getD_W s.b hb (p - 1 - i))
    obtain ⟨w2, e2⟩ := H.sub _ _ (H.getD_W s.a ha i) w1
    exact ⟨w2, by rw [e2, e1, H.getD_map, H.getD_map]⟩
  have hbi : ∀ i, W (s.b.getD i MatOps.zero -: kb *: s.a.getD (p - 1 - i) MatOps.zero) ∧
      φ (s.b.getD i MatOps.zero -: kb *: s.a.getD (p - 1 - i) MatOps.zero)
        = (s.b.map φ).getD i MatOps.zero -: φ kb *: (s.a.map φ).getD (p - 1 - i) MatOps.zero := by
    intro i
    obtain ⟨w1, e1⟩ := H.mul _ _ wkb (H.getD_W s.a ha (p - 1 - i))
    obtain ⟨w2, e2⟩ := H.sub _ _ (H.getD_W s.b hb i) w1
    exact ⟨w2, by rw [e2, e1, H.getD_map, H.getD_map]⟩
  obtain ⟨wnka, enka⟩ := H.neg _ wka
  obtain ⟨wnkb, enkb⟩ := H.neg _ wkb
  -- the two covariances
  obtain ⟨wkakb, ekakb⟩ := H.mul _ _ wka wkb
  obtain ⟨wkbka, ekbka⟩ := H.mul _ _ wkb wka
  obtain ⟨w1f, e1f⟩ := H.sub _ _ H.one.1 wkakb
  obtain ⟨w1b, e1b⟩ := H.sub _ _ H.one.1 wkbka
  obtain ⟨wsf', esf'⟩ := H.mul _ _ w1f hsf
  obtain ⟨wsb', esb'⟩ := H.mul _ _ w1b hsb
  simp only [lwrStep, hdel, hka, hkb, ← ed, eka', ekb']
  refine ⟨?_, ?_, wsf', wsb', ?_⟩
  · intro x hx
    rcases List.mem_append.mp hx with hx | hx
    · obtain ⟨i, _, rfl⟩ := List.mem_map.mp hx
      exact (hai i).1
    · rw [List.mem_singleton] at hx; subst hx; exact wnka
  · intro x hx
    rcases List.mem_append.mp hx with hx | hx
    · obtain ⟨i, _, rfl⟩ := List.mem_map.mp hx
      exact (hbi i).1
    · rw [List.mem_singleton] at hx; subst hx; exact wnkb
  · congr 1
    · rw [List.map_append, List.map_map]
      congr 1
      · exact List.map_congr_left fun i _ => ((hai i).2).symm
      · simp [enka]
    · rw [List.map_append, List.map_map]
      congr 1
      · exact List.map_congr_left fun i _ => ((hbi i).2).symm
      · simp [enkb]
    · rw [esf', e1f, ekakb, H.one.2]
    · rw [esb', e1b, ekbka, H.one.2]

/-- **the loop commutes with `φ`** and never leaves `W` -/
theorem lwrLoop_hom (H : MatHom W φ) (r : Nat → M) (hr : ∀ k, W (r k)) (p : Nat) :
    (∀ x ∈ (lwrLoop r p).a, W x) ∧ (∀ x ∈ (lwrLoop r p).b, W x) ∧
    W (lwrLoop r p).sigf ∧ W (lwrLoop r p).sigb ∧
    lwrLoop (fun k => φ (r k)) p
      = ⟨(lwrLoop r p).a.map φ, (lwrLoop r p).b.map φ, φ (lwrLoop r p).sigf, φ (lwrLoop r p).sigb⟩ := by
  induction p with
  | zero =>
    refine ⟨?_, ?_, hr 0, hr 0, rfl⟩ <;> intro x hx <;> simp [lwrLoop] at hx
  | succ p ih =>
    obtain ⟨ha, hb, hsf, hsb, e⟩ := ih
    have := lwrStep_hom H r hr p (lwrLoop r p) ha hb hsf hsb
    show (∀ x ∈ (lwrStep r p (lwrLoop r p)).a, W x) ∧ (∀ x ∈ (lwrStep r p (lwrLoop r p)).b, W x) ∧
      W (lwrStep r p (lwrLoop r p)).sigf ∧ W (lwrStep r p (lwrLoop r p)).sigb ∧
      lwrStep (fun k => φ (r k)) p (lwrLoop (fun k => φ (r k)) p) = _
    rw [e]
    exact this

end
end Nitime.C11
