/-
C08 — theorems about the getter object model of `Model/C08Hist.lean`.

`reads_pure`: with `normalize_coherence(..., copy=True)` (the code that exists) EVERY history of `.coherence` /
`.confidence_interval` reads hands out, at every read, the value a fresh analyzer gives — `.coherence` = the coherence,
`.confidence_interval` = a pure function `F (map g coherence)` of it — and every array handed out earlier still holds
that value after all later reads (the chain never writes to its argument).  `inplace_*_counterexample`: with
`copy=False` the array handed out by `.coherence` holds `sqrt(dof)·arctanh(coherence)` after `.confidence_interval` was
read (and a later `.coherence` read returns it).
-/
import Nitime.Model.C08Hist

set_option linter.unusedVariables false
namespace Nitime.C08.Hist
variable {V : Type}

theorem rd_append_lt (h : List (List V)) (v : List V) {a : Nat} (ha : a < h.length) : rd (h ++ [v]) a = rd h a := by
  unfold rd; rw [List.getElem?_append_left ha]

theorem rd_append_len (h : List (List V)) (v : List V) : rd (h ++ [v]) h.length = v := by
  unfold rd; simp

/-- the cached addresses point at cells holding the pure values -/
def Good (g : V → V) (F : List V → List V) (c0 : List V) (s : St V) : Prop :=
  (∀ a, s.coh = some a → a < s.heap.length ∧ rd s.heap a = c0) ∧
  (∀ a, s.ci = some a → a < s.heap.length ∧ rd s.heap a = F (c0.map g))

/-- heap extension: every old cell keeps its contents -/
def Ext (h h' : List (List V)) : Prop := h.length ≤ h'.length ∧ ∀ a, a < h.length → rd h' a = rd h a

theorem Ext.refl (h : List (List V)) : Ext h h := ⟨Nat.le_refl _, fun _ _ => rfl⟩

theorem Ext.trans {h1 h2 h3 : List (List V)} (a : Ext h1 h2) (b : Ext h2 h3) : Ext h1 h3 :=
  ⟨Nat.le_trans a.1 b.1, fun x hx => by rw [b.2 x (Nat.lt_of_lt_of_le hx a.1), a.2 x hx]⟩

theorem ext_append (h : List (List V)) (v : List V) : Ext h (h ++ [v]) :=
  ⟨by simp, fun a ha => rd_append_lt h v ha⟩

theorem good_init (g : V → V) (F : List V → List V) (c0 : List V) : Good g F c0 (St.init : St V) := by
  constructor <;> intro a h <;> simp [St.init] at h

theorem getCoh_good (g : V → V) (F : List V → List V) (c0 : List V) (s : St V) (hs : Good g F c0 s) :
    Good g F c0 (getCoh c0 s).1 ∧ Ext s.heap (getCoh c0 s).1.heap ∧
      (getCoh c0 s).2 < (getCoh c0 s).1.heap.length ∧ rd (getCoh c0 s).1.heap (getCoh c0 s).2 = c0 ∧
      (getCoh c0 s).1.coh = some (getCoh c0 s).2 ∧ (getCoh c0 s).1.ci = s.ci := by
  unfold getCoh
  cases hc : s.coh with
  | some a =>
    have := hs.1 a hc
    exact ⟨hs, Ext.refl _, this.1, this.2, hc, rfl⟩
  | none =>
    refine ⟨⟨?_, ?_⟩, ext_append _ _, by simp, rd_append_len _ _, rfl, rfl⟩
    · intro a ha
      simp only [Option.some.injEq] at ha
      subst ha
      exact ⟨by simp, rd_append_len _ _⟩
    · intro a ha
      have := hs.2 a ha
      exact ⟨by simp; omega, by rw [rd_append_lt _ _ this.1]; exact this.2⟩

theorem getCi_good (g : V → V) (F : List V → List V) (c0 : List V) (s : St V) (hs : Good g F c0 s) :
    Good g F c0 (getCi true g F c0 s).1 ∧ Ext s.heap (getCi true g F c0 s).1.heap ∧
      (getCi true g F c0 s).2 < (getCi true g F c0 s).1.heap.length ∧
      rd (getCi true g F c0 s).1.heap (getCi true g F c0 s).2 = F (c0.map g) := by
  obtain ⟨h1, h2, h3, h4, h5, h6⟩ := getCoh_good g F c0 s hs
  unfold getCi
  split
  · rename_i a hc
    have := hs.2 a hc
    exact ⟨hs, Ext.refl _, this.1, this.2⟩
  · rename_i hc
    generalize (getCoh c0 s).1 = s1 at *
    generalize (getCoh c0 s).2 = a at *
    simp only [normalize, if_true]
    have hx : rd (s1.heap ++ [(rd s1.heap a).map g]) s1.heap.length = c0.map g := by
      rw [rd_append_len, h4]
    refine ⟨⟨?_, ?_⟩, ?_, by simp, ?_⟩
    · intro b hb
      have hb' : s1.coh = some b := hb
      have := h1.1 b hb'
      refine ⟨by simp; omega, ?_⟩
      rw [rd_append_lt _ _ (by simp; omega), rd_append_lt _ _ this.1]
      exact this.2
    · intro b hb
      simp only [Option.some.injEq] at hb
      subst hb
      refine ⟨by simp, ?_⟩
      rw [rd_append_len, hx]
    · exact Ext.trans h2 (Ext.trans (ext_append _ _) (ext_append _ _))
    · rw [rd_append_len, hx]

theorem read_good (g : V → V) (F : List V → List V) (c0 : List V) (s : St V) (hs : Good g F c0 s) (r : Rd) :
    Good g F c0 (read true g F c0 s r).1 ∧ Ext s.heap (read true g F c0 s r).1.heap ∧
      (read true g F c0 s r).2 < (read true g F c0 s r).1.heap.length ∧
      rd (read true g F c0 s r).1.heap (read true g F c0 s r).2 = pureValue g F c0 r := by
  cases r with
  | coherence =>
    obtain ⟨h1, h2, h3, h4, _, _⟩ := getCoh_good g F c0 s hs
    exact ⟨h1, h2, h3, h4⟩
  | confidence_interval => exact getCi_good g F c0 s hs

theorem runReads_good (g : V → V) (F : List V → List V) (c0 : List V) :
    ∀ (rs : List Rd) (s : St V), Good g F c0 s →
      Good g F c0 (runReads true g F c0 s rs).2 ∧ Ext s.heap (runReads true g F c0 s rs).2.heap := by
  intro rs
  induction rs with
  | nil => intro s hs; exact ⟨hs, Ext.refl _⟩
  | cons r rs ih =>
    intro s hs
    obtain ⟨h1, h2, _, _⟩ := read_good g F c0 s hs r
    obtain ⟨i1, i2⟩ := ih _ h1
    exact ⟨i1, Ext.trans h2 i2⟩

/-- **the confidence-interval chain is a pure function of the coherence and never writes to it**: along every history
of reads, what each read hands out is the fresh-analyzer value, and it is still there after all later reads -/
theorem reads_pure (g : V → V) (F : List V → List V) (c0 : List V) :
    ∀ (rs : List Rd) (s : St V), Good g F c0 s →
      ∀ x ∈ (runReads true g F c0 s rs).1,
        x.2.2 = pureValue g F c0 x.1 ∧ rd (runReads true g F c0 s rs).2.heap x.2.1 = x.2.2 := by
  intro rs
  induction rs with
  | nil => intro s _ x hx; simp [runReads] at hx
  | cons r rs ih =>
    intro s hs x hx
    obtain ⟨h1, h2, h3, h4⟩ := read_good g F c0 s hs r
    simp only [runReads, List.mem_cons] at hx
    rcases hx with rfl | hx
    · refine ⟨h4, ?_⟩
      have := (runReads_good g F c0 rs _ h1).2
      exact this.2 _ h3
    · exact ih _ h1 x hx

/-- from a fresh analyzer -/
theorem reads_pure_fresh (g : V → V) (F : List V → List V) (c0 : List V) (rs : List Rd) :
    ∀ x ∈ (runReads true g F c0 St.init rs).1,
      x.2.2 = pureValue g F c0 x.1 ∧ rd (runReads true g F c0 St.init rs).2.heap x.2.1 = x.2.2 :=
  reads_pure g F c0 rs _ (good_init g F c0)

/-- `copy=False`: the array handed out by an EARLIER `.coherence` read holds the transformed values afterwards -/
theorem inplace_kept_counterexample (g : V → V) (F : List V → List V) (c0 : List V) :
    (runReads false g F c0 St.init [Rd.coherence, Rd.confidence_interval]).1.head? = some (Rd.coherence, 0, c0) ∧
    rd (runReads false g F c0 St.init [Rd.coherence, Rd.confidence_interval]).2.heap 0 = c0.map g := by
  simp [runReads, read, getCoh, getCi, normalize, rd, St.init]

/-- `copy=False`: `.coherence` read AFTER `.confidence_interval` returns the transformed values -/
theorem inplace_reread_counterexample (g : V → V) (F : List V → List V) (c0 : List V) :
    (runReads false g F c0 St.init [Rd.confidence_interval, Rd.coherence]).1.getLast? = some (Rd.coherence, 0, c0.map g) := by
  simp [runReads, read, getCoh, getCi, normalize, rd, St.init]

end Nitime.C08.Hist
