/-
C07 — theorems about the memo object model of `Model/C07Hist.lean`.

`memo_correct_iff`: with copies handed out, "the answer of EVERY request in EVERY history (requests, evictions, callers
scribbling on what they were handed) is the recomputed value" holds IF AND ONLY IF the key determines everything the
served result depends on (`Det`: whenever a filed request and a later consulted request share a key, what the filed
value serves is the later request's own result).  Counterexample theorems for the faulty disciplines of the seeded
changes (key forgets `interp_from` with and without a lookup guard; the miss hands out the filed buffer).
-/
import Nitime.Model.C07Hist

set_option linter.unusedSectionVars false
set_option linter.unusedVariables false
namespace Nitime.C07.Hist

section
variable {A R Key : Type} [DecidableEq Key]

/-- the key determines all arguments the served result depends on -/
def Det (D : Discipline A R Key) (f : A → R) : Prop :=
  ∀ a b r, D.guardS a = true → D.guardL b = true → D.key a = D.key b → D.serve b (f a) = some r → r = f b

/-- every filed value is the result of a request that was allowed to file it under that key -/
def Inv (D : Discipline A R Key) (f : A → R) (m : Store Key R) : Prop :=
  ∀ k r, m k = some r → ∃ a, D.guardS a = true ∧ D.key a = k ∧ r = f a

theorem inv_empty (D : Discipline A R Key) (f : A → R) : Inv D f Store.empty := by
  intro k r h; simp [Store.empty] at h

theorem inv_set_none {D : Discipline A R Key} {f : A → R} {m : Store Key R} (h : Inv D f m) (k : Key) :
    Inv D f (m.set k none) := by
  intro k' r hk
  unfold Store.set at hk
  split at hk
  · cases hk
  · exact h k' r hk

theorem inv_set_some {D : Discipline A R Key} {f : A → R} {m : Store Key R} (h : Inv D f m) (a : A)
    (hs : D.guardS a = true) : Inv D f (m.set (D.key a) (some (f a))) := by
  intro k' r hk
  unfold Store.set at hk
  split at hk
  · rename_i heq
    cases hk
    exact ⟨a, hs, heq.symm, rfl⟩
  · exact h k' r hk

theorem hit_sound {D : Discipline A R Key} {f : A → R} (hd : Det D f) {m : Store Key R} (hi : Inv D f m)
    {a : A} {r : R} (h : hit D m a = some r) : r = f a := by
  unfold hit at h
  split at h
  · rename_i hg
    cases hm : m (D.key a) with
    | none => simp [hm] at h
    | some r0 =>
      obtain ⟨a0, hs, hk, hr⟩ := hi _ _ hm
      rw [hm] at h
      simp only [Option.bind_some] at h
      subst hr
      exact hd a0 a r hs hg hk h
  · cases h

theorem answer_sound {D : Discipline A R Key} {f : A → R} (hd : Det D f) {m : Store Key R} (hi : Inv D f m) (a : A) :
    (answer D f m a).1 = f a ∧ Inv D f (answer D f m a).2 := by
  unfold answer
  cases hh : hit D m a with
  | some r => exact ⟨hit_sound hd hi hh, hi⟩
  | none =>
    refine ⟨rfl, ?_⟩
    show Inv D f (if D.guardS a = true then _ else _)
    split
    · rename_i hs; exact inv_set_some hi a hs
    · exact hi

/-- SUFFICIENCY: lookup = recompute for every history, from any store that satisfies the invariant -/
theorem lookup_eq_recompute {D : Discipline A R Key} {f : A → R} (hd : Det D f) (hal : D.alias = false) :
    ∀ (h : List (Ev A R Key)) (m : Store Key R), Inv D f m → run D f m h = h.map (expected f) := by
  intro h
  induction h with
  | nil => intro m _; rfl
  | cons e es ih =>
    intro m hi
    cases e with
    | call a =>
      have := answer_sound hd hi a
      simp only [run, step, List.map_cons, expected, this.1]
      rw [ih _ this.2]
    | evict k =>
      simp only [run, step, List.map_cons, expected]
      rw [ih _ (inv_set_none hi k)]
    | scribble k r =>
      simp [run, step, expected, hal, ih _ hi]

/-- NECESSITY: a key that does not determine the served result is exposed by a history of two requests -/
theorem not_det_exposed {D : Discipline A R Key} {f : A → R} {a b : A} {r : R}
    (hs : D.guardS a = true) (hl : D.guardL b = true) (hk : D.key a = D.key b) (hserve : D.serve b (f a) = some r)
    (hne : r ≠ f b) :
    run D f Store.empty [Ev.call a, Ev.call b] = [some (f a), some r] := by
  have h1 : hit D Store.empty a = none := by
    unfold hit Store.empty; split <;> rfl
  have hstore : (answer D f Store.empty a).2 = (Store.empty : Store Key R).set (D.key a) (some (f a)) := by
    unfold answer; rw [h1]; simp [hs]
  have hans : (answer D f Store.empty a).1 = f a := by unfold answer; rw [h1]
  have h2 : hit D ((Store.empty : Store Key R).set (D.key a) (some (f a))) b = some r := by
    unfold hit Store.set; simp [hl, hk, hserve]
  simp only [run, step, hans, hstore]
  unfold answer; rw [h2]

/-- lookup = recompute for EVERY history (from the empty store) IFF the key determines all arguments the served result
    depends on — for a discipline that hands out copies -/
theorem memo_correct_iff (D : Discipline A R Key) (f : A → R) (hal : D.alias = false) :
    (∀ h : List (Ev A R Key), run D f Store.empty h = h.map (expected f)) ↔ Det D f := by
  constructor
  · intro hall a b r hs hl hk hserve
    refine Classical.byContradiction fun hne => ?_
    have h1 := hall [Ev.call a, Ev.call b]
    rw [not_det_exposed hs hl hk hserve hne] at h1
    simp only [List.map_cons, List.map_nil, expected, List.cons.injEq, Option.some.injEq, and_true, true_and] at h1
    exact hne h1
  · intro hd h
    exact lookup_eq_recompute hd hal h _ (inv_empty D f)

/-- the miss hands out the filed buffer: a caller that overwrites its result poisons the next request — for ANY key -/
theorem alias_exposed {D : Discipline A R Key} {f : A → R} (hal : D.alias = true) {a : A} {r' : R}
    (hs : D.guardS a = true) (hl : D.guardL a = true) (hserve : D.serve a r' = some r') :
    run D f Store.empty [Ev.call a, Ev.scribble (D.key a) r', Ev.call a] = [some (f a), none, some r'] := by
  have h1 : hit D Store.empty a = none := by
    unfold hit Store.empty; split <;> rfl
  have hstore : (answer D f Store.empty a).2 = (Store.empty : Store Key R).set (D.key a) (some (f a)) := by
    unfold answer; rw [h1]; simp [hs]
  have hans : (answer D f Store.empty a).1 = f a := by unfold answer; rw [h1]
  have hm : ((Store.empty : Store Key R).set (D.key a) (some (f a))) (D.key a) = some (f a) := by simp [Store.set]
  have h2 : hit D ((((Store.empty : Store Key R).set (D.key a) (some (f a)))).set (D.key a) (some r')) a = some r' := by
    unfold hit Store.set; simp [hl, hserve]
  simp only [run, step, hans, hstore, hal, hm, if_true]
  unfold answer; rw [h2]

end

/-! ### `dpss_windows` by history cases -/

/-- today's code files nothing: every history of requests / evictions / scribbles is answered by recomputation -/
theorem today_history_independent (f : Req → List Row) (h : List (Ev Req (List Row) Req)) :
    run today f Store.empty h = h.map (expected f) :=
  lookup_eq_recompute (by intro a b r hs; simp [today] at hs) rfl h _ (inv_empty _ _)

/-- a memo keyed on every argument is correct for every history -/
theorem full_key_correct (f : Req → List Row) (h : List (Ev Req (List Row) Req)) :
    run full f Store.empty h = h.map (expected f) := by
  refine lookup_eq_recompute ?_ rfl h _ (inv_empty _ _)
  intro a b r _ _ hk hserve
  simp only [full, id] at hk
  simp only [full, whole, Option.some.injEq] at hserve
  subst hk; exact hserve.symm

/-- C04-8 (key (N, NW, Kmax), no guards): an interpolated request followed by the plain one with the same N, NW, K
    answers the plain request with the interpolated result -/
theorem nnwk_counterexample (f : Req → List Row) (a b : Req) (hN : a.N = b.N) (hW : a.NW = b.NW) (hK : a.K = b.K)
    (hne : f a ≠ f b) :
    run nnwk f Store.empty [Ev.call a, Ev.call b] ≠ ([Ev.call a, Ev.call b] : List (Ev Req (List Row) (Nat × Nat × Nat))).map (expected f) := by
  rw [not_det_exposed (D := nnwk) (r := f a) rfl rfl (by simp [nnwk, hN, hW, hK]) rfl hne]
  simp [expected, hne]

/-- C07-9 (same key, lookup only for plain requests, store in the tail both branches share): same history -/
theorem nnwk9_counterexample (f : Req → List Row) (a b : Req) (hN : a.N = b.N) (hW : a.NW = b.NW) (hK : a.K = b.K)
    (hb : b.M = 0) (hne : f a ≠ f b) :
    run nnwk9 f Store.empty [Ev.call a, Ev.call b] ≠ ([Ev.call a, Ev.call b] : List (Ev Req (List Row) (Nat × Nat × Nat))).map (expected f) := by
  rw [not_det_exposed (D := nnwk9) (r := f a) rfl (by simp [nnwk9, hb]) (by simp [nnwk9, hN, hW, hK]) rfl hne]
  simp [expected, hne]

/-- … and the guard on the lookup does make the discipline correct once the STORE carries the same guard -/
theorem nnwk_guarded_correct (f : Req → List Row) (hf : ∀ a b : Req, a.N = b.N → a.NW = b.NW → a.K = b.K → a.M = 0 → b.M = 0 → f a = f b)
    (h : List (Ev Req (List Row) (Nat × Nat × Nat))) :
    run { nnwk9 with guardS := fun a => a.M == 0 } f Store.empty h = h.map (expected f) := by
  refine lookup_eq_recompute ?_ rfl h _ (inv_empty _ _)
  intro a b r hs hl hk hserve
  simp only [nnwk9, beq_iff_eq] at hs hl
  simp only [nnwk9, Prod.mk.injEq] at hk
  simp only [nnwk9, whole, Option.some.injEq] at hserve
  rw [← hserve]
  exact hf a b hk.1 hk.2.1 hk.2.2 hs hl

/-- C07-7: the prefix-serving memo is correct with copies when the first K rows do not depend on how many were computed … -/
theorem prefix_copy_correct (f : Req → List Row)
    (hlen : ∀ a, (f a).length = a.K)
    (hpre : ∀ a b : Req, a.N = b.N → a.NW = b.NW → a.M = b.M → a.kind = b.kind → b.K ≤ a.K → (f a).take b.K = f b)
    (h : List (Ev Req (List Row) (Nat × Nat × Nat × Nat))) :
    run prefixCopy f Store.empty h = h.map (expected f) := by
  refine lookup_eq_recompute ?_ rfl h _ (inv_empty _ _)
  intro a b r _ _ hk hserve
  simp only [prefixCopy, prefix7, Prod.mk.injEq] at hk
  simp only [prefixCopy, prefix7, prefixServe, hlen] at hserve
  split at hserve
  · rename_i hle
    simp only [Option.some.injEq] at hserve
    rw [← hserve]
    exact hpre a b hk.1 hk.2.1 hk.2.2.1 hk.2.2.2 hle
  · cases hserve

/-- … and wrong as soon as the miss hands out the filed buffers: request, scribble, same request -/
theorem prefix7_counterexample (f : Req → List Row) (a : Req) (r' : List Row) (hlen : r'.length = a.K) (hne : r' ≠ f a) :
    run prefix7 f Store.empty [Ev.call a, Ev.scribble (prefix7.key a) r', Ev.call a]
      ≠ ([Ev.call a, Ev.scribble (prefix7.key a) r', Ev.call a] : List (Ev Req (List Row) (Nat × Nat × Nat × Nat))).map (expected f) := by
  have hsv : prefix7.serve a r' = some r' := by
    show prefixServe a r' = some r'
    unfold prefixServe
    rw [if_pos (by omega), List.take_of_length_le (by omega)]
  rw [alias_exposed (D := prefix7) rfl rfl rfl hsv]
  simp [expected, hne]

/-- non-vacuity on the symbolic results the driver runs: the three faulty disciplines fail on concrete histories, the
    sound ones do not -/
example : run nnwk symbolic Store.empty [Ev.call ⟨64, 400, 8, 32, 1⟩, Ev.call ⟨64, 400, 8, 0, 0⟩]
    ≠ ([Ev.call ⟨64, 400, 8, 32, 1⟩, Ev.call ⟨64, 400, 8, 0, 0⟩] : List (Ev Req (List Row) (Nat × Nat × Nat))).map (expected symbolic) := by decide
example : run nnwk9 symbolic Store.empty [Ev.call ⟨64, 400, 8, 0, 0⟩, Ev.call ⟨64, 400, 8, 32, 1⟩, Ev.call ⟨64, 400, 8, 0, 0⟩]
    ≠ ([Ev.call ⟨64, 400, 8, 0, 0⟩, Ev.call ⟨64, 400, 8, 32, 1⟩, Ev.call ⟨64, 400, 8, 0, 0⟩] : List (Ev Req (List Row) (Nat × Nat × Nat))).map (expected symbolic) := by decide
example : run prefix7 symbolic Store.empty [Ev.call ⟨16, 200, 2, 0, 0⟩, Ev.scribble (16, 200, 0, 0) [⟨0, 0, 0, 0, 7⟩, ⟨0, 0, 0, 0, 7⟩], Ev.call ⟨16, 200, 1, 0, 0⟩]
    ≠ ([Ev.call ⟨16, 200, 2, 0, 0⟩, Ev.scribble (16, 200, 0, 0) [⟨0, 0, 0, 0, 7⟩, ⟨0, 0, 0, 0, 7⟩], Ev.call ⟨16, 200, 1, 0, 0⟩] : List (Ev Req (List Row) (Nat × Nat × Nat × Nat))).map (expected symbolic) := by decide
example : run prefixCopy symbolic Store.empty [Ev.call ⟨16, 200, 2, 0, 0⟩, Ev.scribble (16, 200, 0, 0) [⟨0, 0, 0, 0, 7⟩, ⟨0, 0, 0, 0, 7⟩], Ev.call ⟨16, 200, 1, 0, 0⟩]
    = ([Ev.call ⟨16, 200, 2, 0, 0⟩, Ev.scribble (16, 200, 0, 0) [⟨0, 0, 0, 0, 7⟩, ⟨0, 0, 0, 0, 7⟩], Ev.call ⟨16, 200, 1, 0, 0⟩] : List (Ev Req (List Row) (Nat × Nat × Nat × Nat))).map (expected symbolic) := by decide

end Nitime.C07.Hist
