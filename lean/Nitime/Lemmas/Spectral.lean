/-
Helper lemmas for the spectral properties (C04–C06): real-valued Parseval for the textbook DFT
sum, zero padding keeps the energy, conjugate symmetry of the DFT of a real signal, and the
memo-table identities used to show that the executable `…List` functions are the pointwise
definitions.
-/
import Nitime.Lemmas.NumReal
import Nitime.Lemmas.Parseval
import Nitime.Lemmas.FoldSum

namespace Nitime.Spectral
open Finset Nitime.Num

/-! ### memo tables -/

theorem memoGet_fun {α : Type} (n : ℕ) (f : ℕ → α) : memoGet (memoArr n f) f = f :=
  funext fun i => memoGet_memoArr n f i

theorem memoArr_size {α : Type} (n : ℕ) (f : ℕ → α) : (memoArr n f).size = n := by
  simp [memoArr]

theorem memoArr_get {α : Type} (n : ℕ) (f : ℕ → α) (i : ℕ) (h : i < (memoArr n f).size) :
    (memoArr n f)[i] = f i := by
  simp [memoArr]

theorem memoGet2_fun {α : Type} (m n : ℕ) (F : ℕ → ℕ → α) : memoGet2 (memoArr2 m n F) F = F := by
  funext i k
  unfold memoGet2 memoArr2
  split
  · rename_i h
    rw [memoArr_get, memoGet_memoArr]
  · rfl

theorem memoGet3_fun {α : Type} (m t n : ℕ) (F : ℕ → ℕ → ℕ → α) :
    memoGet3 (memoArr3 m t n F) F = F := by
  funext i s k
  unfold memoGet3 memoArr3
  split
  · rename_i h
    rw [memoArr_get, memoGet2_fun]
  · rfl

/-! ### the textbook DFT sum -/

/-- `Σ_{j<N} x j ζ^{jk}` -/
noncomputable def D (ζ : ℂ) (N : ℕ) (x : ℕ → ℂ) (k : ℕ) : ℂ := ∑ j ∈ range N, x j * ζ ^ (j * k)

variable {N : ℕ} {ζ : ℂ}

/-- Parseval, real-valued form -/
theorem parseval_real (hN : 0 < N) (hζ : IsPrimitiveRoot ζ N) (hc : (starRingEnd ℂ) ζ = ζ⁻¹)
    (x : ℕ → ℂ) :
    ∑ k ∈ range N, Complex.normSq (D ζ N x k) = N * ∑ j ∈ range N, Complex.normSq (x j) := by
  have h := parseval hN hζ hc x
  unfold D
  exact_mod_cast h

/-- zero padding keeps the energy -/
theorem sum_padded {n N : ℕ} (h : n ≤ N) (x : ℕ → ℂ) :
    ∑ j ∈ range N, Complex.normSq (padded n x j) = ∑ j ∈ range n, Complex.normSq (x j) := by
  rw [← Finset.sum_range_add_sum_Ico _ h]
  have h1 : ∑ j ∈ range n, Complex.normSq (padded n x j) = ∑ j ∈ range n, Complex.normSq (x j) := by
    refine sum_congr rfl fun j hj => ?_
    rw [padded_eq, if_pos (mem_range.1 hj)]
  have h2 : ∑ j ∈ Ico n N, Complex.normSq (padded n x j) = 0 := by
    refine sum_eq_zero fun j hj => ?_
    have : ¬ j < n := by have := (mem_Ico.1 hj).1; omega
    rw [padded_eq, if_neg this]; simp
  rw [h1, h2, add_zero]

/-- the DFT of a real signal is conjugate-symmetric -/
theorem D_conj_symm (hN : 0 < N) (hζ : IsPrimitiveRoot ζ N) (hc : (starRingEnd ℂ) ζ = ζ⁻¹)
    (x : ℕ → ℂ) (hx : ∀ j, (starRingEnd ℂ) (x j) = x j) {k : ℕ} (hk : k ≤ N) :
    D ζ N x (N - k) = (starRingEnd ℂ) (D ζ N x k) := by
  have hζ0 : ζ ≠ 0 := hζ.ne_zero hN.ne'
  unfold D
  rw [map_sum]
  refine sum_congr rfl fun j _ => ?_
  rw [map_mul, map_pow, hc, hx]
  congr 1
  have h1 : ζ ^ (j * (N - k)) * ζ ^ (j * k) = 1 := by
    rw [← pow_add, ← Nat.mul_add, Nat.sub_add_cancel hk, mul_comm, pow_mul, hζ.pow_eq_one, one_pow]
  rw [inv_pow]
  exact eq_inv_of_mul_eq_one_left h1

theorem normSq_D_symm (hN : 0 < N) (hζ : IsPrimitiveRoot ζ N) (hc : (starRingEnd ℂ) ζ = ζ⁻¹)
    (x : ℕ → ℂ) (hx : ∀ j, (starRingEnd ℂ) (x j) = x j) {k : ℕ} (hk : k ≤ N) :
    Complex.normSq (D ζ N x (N - k)) = Complex.normSq (D ζ N x k) := by
  rw [D_conj_symm hN hζ hc x hx hk, Complex.normSq_conj]

/-- linearity in the signal -/
theorem D_smul (a : ℂ) (x : ℕ → ℂ) (k : ℕ) : D ζ N (fun j => a * x j) k = a * D ζ N x k := by
  unfold D
  rw [mul_sum]
  exact sum_congr rfl fun j _ => by ring

/-- the model DFT with twiddles `ζ^m` is `D` -/
theorem dftAt_D (hζ : ζ ^ N = 1) (x : ℕ → ℂ) (k : ℕ) : dftAt (fun m => ζ ^ m) N x k = D ζ N x k :=
  dftAt_eq hζ x k

end Nitime.Spectral
