/-
C08 — property theorems.  All statements are about the definitions of `Nitime/Model/CohBase.lean`
read at K = ℂ (`Nitime/Lemmas/CohC.lean`); the very same definitions, read at K = binary64 pairs,
are what `drvC08` runs against nitime.  Inputs are real (window, signals, Fs), embedded by `(↑)`.

  coherencySpec / coherenceSpec        mirror  cohere.coherency_spec / coherence_spec
  coherencyMat / coherenceMat           mirror  the pair loops with conj fill (coherency, coherence,
                                                CoherenceAnalyzer.coherency / .coherence)
  welchBin                              mirrors get_spectra(welch) = mlab.csd(ts[j], ts[i], …)
  coherenceBavg / coherencyBavg         mirror  _coherence_bavg / _coherency_bavg
  phaseMat / delayOf                    mirror  coherency_phase_spectrum, CoherenceAnalyzer.phase,
                                                _coherency_phase_delay, CoherenceAnalyzer.delay
  coherencePartialSpec, partialOf       mirror  coherence_partial_spec and its callers (coherence_partial, CoherenceAnalyzer.coherence_partial)
  mtCoherence                           mirrors MTCoherenceAnalyzer.coherence over mtm_cross_spectrum
-/
import Nitime.Lemmas.CohC
import Nitime.Lemmas.CauchySchwarz
import Mathlib.Analysis.MeanInequalities
import Mathlib.LinearAlgebra.Matrix.Adjugate
import Nitime.Props.C06

open Finset ComplexConjugate
open Nitime.Coh

namespace Nitime.C08.Props

/-! ### coherence = |coherency|², self-coherence, symmetry (frequency-domain layer) -/

/-- |coherency|² = coherence for real positive auto-spectra -/
theorem normSq_coherency_eq_coherence (fxy : ℂ) {p q : ℝ} (hp : 0 < p) (hq : 0 < q) :
    coherenceSpec fxy (p : ℂ) (q : ℂ) = ((Complex.normSq (coherencySpec fxy (p : ℂ) (q : ℂ)) : ℝ) : ℂ) := by
  rw [coherenceSpec_eq, coherencySpec_real fxy hp.le hq.le]
  congr 1
  rw [Complex.normSq_div, Complex.normSq_ofReal, Real.mul_self_sqrt (mul_nonneg hp.le hq.le)]
  simp

/-- a channel is fully coherent with itself -/
theorem self_coherence_one {p : ℝ} (hp : p ≠ 0) : coherenceSpec (p : ℂ) (p : ℂ) (p : ℂ) = 1 := by
  rw [coherenceSpec_eq]
  simp only [Complex.normSq_ofReal, Complex.ofReal_re]
  rw [div_self (mul_ne_zero hp hp)]; simp

theorem self_coherency_one {p : ℝ} (hp : 0 < p) : coherencySpec (p : ℂ) (p : ℂ) (p : ℂ) = 1 := by
  rw [coherencySpec_real _ hp.le hp.le, Real.sqrt_mul_self hp.le]
  exact div_self (by exact_mod_cast hp.ne')

/-- swapping the pair conjugates the coherency (frequency-domain statement: f_yx = conj f_xy) -/
theorem coherencySpec_swap (fxy : ℂ) {p q : ℝ} (hp : 0 ≤ p) (hq : 0 ≤ q) :
    coherencySpec (conj fxy) (q : ℂ) (p : ℂ) = conj (coherencySpec fxy (p : ℂ) (q : ℂ)) := by
  rw [coherencySpec_real _ hq hp, coherencySpec_real _ hp hq, map_div₀, Complex.conj_ofReal, mul_comm]

/-- the coherency matrix produced by the pair loop + conj fill is Hermitian -/
theorem coherency_hermitian (spec : ℕ → ℕ → ℕ → ℂ) (i j k : ℕ)
    (hdiag : ∃ p : ℝ, 0 ≤ p ∧ spec i i k = (p : ℂ)) :
    coherencyMat spec j i k = conj (coherencyMat spec i j k) := by
  unfold coherencyMat
  rcases lt_trichotomy i j with h | h | h
  · simp [h.le, not_le.mpr h]
  · subst h
    obtain ⟨p, hp, e⟩ := hdiag
    simp only [le_refl, if_true, e]
    rw [coherencySpec_real _ hp hp, map_div₀, Complex.conj_ofReal, Complex.conj_ofReal]
  · simp [h.le, not_le.mpr h]

theorem coherence_symmetric (spec : ℕ → ℕ → ℕ → ℂ) (i j k : ℕ) :
    coherenceMat spec j i k = coherenceMat spec i j k := by
  unfold coherenceMat
  rcases lt_trichotomy i j with h | h | h
  · simp [h.le, not_le.mpr h, coherenceSpec_eq]
  · subst h; rfl
  · simp [h.le, not_le.mpr h, coherenceSpec_eq]

/-! ### phase and delay -/

/-- phase spectra are antisymmetric under swapping the pair (away from the branch cut; at
    arg = π numpy's signed zero gives −π for the conjugate, which is not modelled) -/
theorem phase_antisymm (spec : ℕ → ℕ → ℕ → ℂ) (i j k : ℕ) (hij : i < j)
    (hpi : Complex.arg (spec i j k) ≠ Real.pi) :
    phaseMat spec j i k = - phaseMat spec i j k := by
  unfold phaseMat
  simp only [hij, if_true, not_lt.mpr hij.le, if_false, c_arg, c_conj]
  rw [Complex.arg_conj, if_neg hpi]
  push_cast; rfl

theorem delay_antisymm (spec : ℕ → ℕ → ℕ → ℂ) (i j k : ℕ) (f : ℂ) (hij : i < j)
    (hpi : Complex.arg (spec i j k) ≠ Real.pi) :
    delayOf (phaseMat spec j i k) f = - delayOf (phaseMat spec i j k) f := by
  rw [phase_antisymm spec i j k hij hpi]
  unfold delayOf
  simp only [c_div, c_mul]
  ring

/-! ### gain invariance (frequency-domain layer) -/

/-- multiplying channel x by a real a ≠ 0 multiplies f_xy by a and f_xx by a²: the coherency is
    multiplied by a/|a| (= ±1), -/
theorem gain_invariant_coherency (fxy : ℂ) {p q a : ℝ} (hp : 0 ≤ p) (hq : 0 ≤ q) (ha : a ≠ 0) :
    coherencySpec ((a : ℂ) * fxy) ((a ^ 2 * p : ℝ) : ℂ) (q : ℂ)
      = ((a / |a| : ℝ) : ℂ) * coherencySpec fxy (p : ℂ) (q : ℂ) := by
  rw [coherencySpec_real _ (mul_nonneg (sq_nonneg a) hp) hq, coherencySpec_real _ hp hq]
  have h1 : Real.sqrt (a ^ 2 * p * q) = |a| * Real.sqrt (p * q) := by
    rw [mul_assoc, Real.sqrt_mul (sq_nonneg a), Real.sqrt_sq_eq_abs]
  rw [h1]
  have ha' : |a| ≠ 0 := abs_ne_zero.mpr ha
  push_cast
  by_cases hs : ((Real.sqrt (p * q) : ℝ) : ℂ) = 0
  · simp [hs]
  · have : ((|a| : ℝ) : ℂ) ≠ 0 := by exact_mod_cast ha'
    field_simp

/-- … and the coherence is unchanged -/
theorem gain_invariant_coherence (fxy : ℂ) {p q a : ℝ} (ha : a ≠ 0) :
    coherenceSpec ((a : ℂ) * fxy) ((a ^ 2 * p : ℝ) : ℂ) (q : ℂ) = coherenceSpec fxy (p : ℂ) (q : ℂ) := by
  rw [coherenceSpec_eq, coherenceSpec_eq]
  congr 1
  simp only [Complex.normSq_mul, Complex.normSq_ofReal, Complex.ofReal_re]
  by_cases h : p * q = 0
  · rcases mul_eq_zero.mp h with h | h <;> simp [h]
  · have hp : p ≠ 0 := left_ne_zero_of_mul h
    have hq : q ≠ 0 := right_ne_zero_of_mul h
    field_simp

/-! ### the Welch estimate of real signals (time-domain layer) -/

/-- the FFT bin k of the windowed s-th segment of a real signal, as the model computes it -/
noncomputable def F (w x : List ℝ) (N step k s : ℕ) : ℂ :=
  segFft (w.map ((↑) : ℝ → ℂ)) (x.map ((↑) : ℝ → ℂ)) N (s * step) k

/-- Σ window² -/
noncomputable def W (w : List ℝ) (N : ℕ) : ℝ := ∑ j ∈ range N, (w.getD j 0) ^ 2

/-- mlab's one-sided factor as a real number -/
noncomputable def osR (N k : ℕ) : ℝ :=
  if k = 0 then 1 else if N % 2 = 0 ∧ k = N / 2 then 1 else 2

theorem osR_pos (N k : ℕ) : 0 < osR N k := by unfold osR; split_ifs <;> norm_num

theorem oneSided_eq (N k : ℕ) : (oneSided N k : ℂ) = ((osR N k : ℝ) : ℂ) := by
  unfold oneSided osR; split_ifs <;> simp

theorem W_nonneg (w : List ℝ) (N : ℕ) : 0 ≤ W w N := sum_nonneg fun _ _ => sq_nonneg _

theorem sumW2_eq (w : List ℝ) (N : ℕ) : sumW2 (w.map ((↑) : ℝ → ℂ)) N = ((W w N : ℝ) : ℂ) := by
  unfold sumW2 W
  rw [sumRange_eq]; push_cast
  exact sum_congr rfl fun j _ => by rw [getK_map_ofReal, c_mul]; ring

/-- scale of one Welch bin: one-sided factor / (segments · Fs · Σ window²) -/
noncomputable def cW (w : List ℝ) (Fs : ℝ) (N step n k : ℕ) : ℝ :=
  osR N k / (nSeg n N step : ℝ) / Fs / W w N

theorem cW_nonneg (w : List ℝ) {Fs : ℝ} (hFs : 0 ≤ Fs) (N step n k : ℕ) : 0 ≤ cW w Fs N step n k := by
  unfold cW
  exact div_nonneg (div_nonneg (div_nonneg (osR_pos N k).le (Nat.cast_nonneg _)) hFs) (W_nonneg w N)

/-- `welchBin` on real inputs = real scale × Σ_segments X_i · conj X_j -/
theorem welchBin_eq (w xi xj : List ℝ) (Fs : ℝ) (N step k : ℕ) :
    welchBin (w.map ((↑) : ℝ → ℂ)) (Fs : ℂ) N step (xi.map ((↑) : ℝ → ℂ)) (xj.map ((↑) : ℝ → ℂ)) k
      = ((cW w Fs N step xi.length k : ℝ) : ℂ) *
        ∑ s ∈ range (nSeg xi.length N step), F w xi N step k s * conj (F w xj N step k s) := by
  unfold welchBin segMean cW
  simp only [c_div, c_mul, c_conj, c_ofNat, sumRange_eq, sumW2_eq, oneSided_eq, List.length_map]
  push_cast
  unfold F
  ring

theorem sum_mul_conj_eq (n : ℕ) (f : ℕ → ℂ) :
    ∑ s ∈ range n, f s * conj (f s) = ((∑ s ∈ range n, Complex.normSq (f s) : ℝ) : ℂ) := by
  push_cast
  exact sum_congr rfl fun s _ => Complex.mul_conj _

/-- the auto-spectrum is a real number -/
theorem welchBin_self (w x : List ℝ) (Fs : ℝ) (N step k : ℕ) :
    welchBin (w.map ((↑) : ℝ → ℂ)) (Fs : ℂ) N step (x.map ((↑) : ℝ → ℂ)) (x.map ((↑) : ℝ → ℂ)) k
      = ((cW w Fs N step x.length k *
          ∑ s ∈ range (nSeg x.length N step), Complex.normSq (F w x N step k s) : ℝ) : ℂ) := by
  rw [welchBin_eq, sum_mul_conj_eq]; push_cast; rfl

/-- Cauchy–Schwarz over the segments, in `Finset.range` form -/
theorem cs_range (n : ℕ) (a b : ℕ → ℂ) :
    Complex.normSq (∑ s ∈ range n, a s * conj (b s))
      ≤ (∑ s ∈ range n, Complex.normSq (a s)) * (∑ s ∈ range n, Complex.normSq (b s)) := by
  have := coherence_le_one (n := n) (fun s => a s) (fun s => b s)
  rwa [← Finset.sum_range (fun s => a s * conj (b s)), ← Finset.sum_range (fun s => Complex.normSq (a s)),
    ← Finset.sum_range (fun s => Complex.normSq (b s))] at this

/-- **coherence ≤ 1** for the Welch estimate of any two real channels of equal length, any window,
    any NFFT / overlap / number of segments, every bin -/
theorem coherence_le_one (w xi xj : List ℝ) (Fs : ℝ) (N step k : ℕ) (hlen : xj.length = xi.length) :
    (coherenceSpec
      (welchBin (w.map (↑)) (Fs : ℂ) N step (xi.map (↑)) (xj.map (↑)) k)
      (welchBin (w.map (↑)) (Fs : ℂ) N step (xi.map (↑)) (xi.map (↑)) k)
      (welchBin (w.map (↑)) (Fs : ℂ) N step (xj.map (↑)) (xj.map (↑)) k)).re ≤ 1 := by
  rw [coherenceSpec_eq, welchBin_self, welchBin_self, welchBin_eq, hlen]
  simp only [Complex.ofReal_re, Complex.normSq_mul, Complex.normSq_ofReal]
  set c := cW w Fs N step xi.length k
  set L := nSeg xi.length N step
  have hcs := cs_range L (F w xi N step k) (F w xj N step k)
  have hP : 0 ≤ ∑ s ∈ range L, Complex.normSq (F w xi N step k s) := sum_nonneg fun _ _ => Complex.normSq_nonneg _
  have hQ : 0 ≤ ∑ s ∈ range L, Complex.normSq (F w xj N step k s) := sum_nonneg fun _ _ => Complex.normSq_nonneg _
  apply div_le_one_of_le₀
  · calc c * c * Complex.normSq (∑ s ∈ range L, F w xi N step k s * conj (F w xj N step k s))
        ≤ c * c * ((∑ s ∈ range L, Complex.normSq (F w xi N step k s)) *
            (∑ s ∈ range L, Complex.normSq (F w xj N step k s))) :=
          mul_le_mul_of_nonneg_left hcs (mul_self_nonneg c)
      _ = _ := by ring
  · have : c * (∑ s ∈ range L, Complex.normSq (F w xi N step k s)) *
        (c * ∑ s ∈ range L, Complex.normSq (F w xj N step k s))
        = c * c * ((∑ s ∈ range L, Complex.normSq (F w xi N step k s)) *
            (∑ s ∈ range L, Complex.normSq (F w xj N step k s))) := by ring
    rw [this]
    exact mul_nonneg (mul_self_nonneg c) (mul_nonneg hP hQ)

/-- **coherence ≥ 0** -/
theorem coherence_nonneg (w xi xj : List ℝ) (Fs : ℝ) (N step k : ℕ) :
    0 ≤ (coherenceSpec
      (welchBin (w.map (↑)) (Fs : ℂ) N step (xi.map (↑)) (xj.map (↑)) k)
      (welchBin (w.map (↑)) (Fs : ℂ) N step (xi.map (↑)) (xi.map (↑)) k)
      (welchBin (w.map (↑)) (Fs : ℂ) N step (xj.map (↑)) (xj.map (↑)) k)).re := by
  rw [coherenceSpec_eq, welchBin_self, welchBin_self]
  simp only [Complex.ofReal_re]
  apply div_nonneg (Complex.normSq_nonneg _)
  have hP : 0 ≤ ∑ s ∈ range (nSeg xi.length N step), Complex.normSq (F w xi N step k s) :=
    sum_nonneg fun _ _ => Complex.normSq_nonneg _
  have hQ : 0 ≤ ∑ s ∈ range (nSeg xj.length N step), Complex.normSq (F w xj N step k s) :=
    sum_nonneg fun _ _ => Complex.normSq_nonneg _
  by_cases hF : 0 ≤ Fs
  · exact mul_nonneg (mul_nonneg (cW_nonneg w hF ..) hP) (mul_nonneg (cW_nonneg w hF ..) hQ)
  · -- a negative Fs makes both scales non-positive: the product is still ≥ 0
    have hneg : ∀ n, cW w Fs N step n k ≤ 0 := fun n => by
      unfold cW
      exact div_nonpos_of_nonpos_of_nonneg
        (div_nonpos_of_nonneg_of_nonpos (div_nonneg (osR_pos N k).le (Nat.cast_nonneg _)) (not_le.mp hF).le)
        (W_nonneg w N)
    exact mul_nonneg_of_nonpos_of_nonpos (mul_nonpos_of_nonpos_of_nonneg (hneg _) hP)
      (mul_nonpos_of_nonpos_of_nonneg (hneg _) hQ)

/-- the Welch cross-spectrum of the swapped pair is the conjugate -/
theorem welchBin_swap (w xi xj : List ℝ) (Fs : ℝ) (N step k : ℕ) (hlen : xj.length = xi.length) :
    welchBin (w.map (↑)) (Fs : ℂ) N step (xj.map (↑)) (xi.map (↑)) k
      = conj (welchBin (w.map (↑)) (Fs : ℂ) N step (xi.map (↑)) (xj.map (↑)) k) := by
  rw [welchBin_eq, welchBin_eq, hlen, map_mul, Complex.conj_ofReal, map_sum]
  congr 1
  exact sum_congr rfl fun s _ => by rw [map_mul, Complex.conj_conj, mul_comm]

/-- **Hermitian coherency**: computing the pair (j, i) directly gives the conjugate of the pair
    (i, j) — the value the implementation fills in by conjugation is the true one -/
theorem welch_coherency_hermitian (w xi xj : List ℝ) {Fs : ℝ} (hFs : 0 ≤ Fs) (N step k : ℕ)
    (hlen : xj.length = xi.length) :
    coherencySpec
      (welchBin (w.map (↑)) (Fs : ℂ) N step (xj.map (↑)) (xi.map (↑)) k)
      (welchBin (w.map (↑)) (Fs : ℂ) N step (xj.map (↑)) (xj.map (↑)) k)
      (welchBin (w.map (↑)) (Fs : ℂ) N step (xi.map (↑)) (xi.map (↑)) k)
    = conj (coherencySpec
      (welchBin (w.map (↑)) (Fs : ℂ) N step (xi.map (↑)) (xj.map (↑)) k)
      (welchBin (w.map (↑)) (Fs : ℂ) N step (xi.map (↑)) (xi.map (↑)) k)
      (welchBin (w.map (↑)) (Fs : ℂ) N step (xj.map (↑)) (xj.map (↑)) k)) := by
  rw [welchBin_swap w xi xj Fs N step k hlen, welchBin_self, welchBin_self]
  exact coherencySpec_swap _
    (mul_nonneg (cW_nonneg w hFs ..) (sum_nonneg fun _ _ => Complex.normSq_nonneg _))
    (mul_nonneg (cW_nonneg w hFs ..) (sum_nonneg fun _ _ => Complex.normSq_nonneg _))

/-- **self-coherence = 1** on the diagonal of the Welch coherence matrix, whenever the channel has
    power in the bin -/
theorem welch_self_coherence_one (w x : List ℝ) (Fs : ℝ) (N step k : ℕ)
    (h : welchBin (w.map (↑)) (Fs : ℂ) N step (x.map (↑)) (x.map (↑)) k ≠ 0) :
    coherenceSpec
      (welchBin (w.map (↑)) (Fs : ℂ) N step (x.map (↑)) (x.map (↑)) k)
      (welchBin (w.map (↑)) (Fs : ℂ) N step (x.map (↑)) (x.map (↑)) k)
      (welchBin (w.map (↑)) (Fs : ℂ) N step (x.map (↑)) (x.map (↑)) k) = 1 := by
  rw [welchBin_self] at h ⊢
  exact self_coherence_one (by exact_mod_cast h)

/-! ### gain invariance (time-domain layer) -/

theorem getD_map_mul (a : ℝ) (xs : List ℝ) (i : ℕ) : (xs.map (a * ·)).getD i 0 = a * xs.getD i 0 := by
  simp only [List.getD_eq_getElem?_getD, List.getElem?_map]
  cases xs[i]? <;> simp

theorem F_scale (a : ℝ) (w x : List ℝ) (N step k s : ℕ) :
    F w (x.map (a * ·)) N step k s = (a : ℂ) * F w x N step k s := by
  unfold F
  rw [segFft_eq, segFft_eq, mul_sum]
  refine sum_congr rfl fun j _ => ?_
  simp only [getK_map_ofReal, getD_map_mul]
  push_cast; ring

/-- scaling the first channel by a real a scales the cross-spectrum by a -/
theorem welchBin_scale_left (a : ℝ) (w xi xj : List ℝ) (Fs : ℝ) (N step k : ℕ) :
    welchBin (w.map (↑)) (Fs : ℂ) N step ((xi.map (a * ·)).map (↑)) (xj.map (↑)) k
      = (a : ℂ) * welchBin (w.map (↑)) (Fs : ℂ) N step (xi.map (↑)) (xj.map (↑)) k := by
  rw [welchBin_eq, welchBin_eq, List.length_map]
  simp only [F_scale, mul_assoc, ← mul_sum]
  ring

theorem welchBin_scale_both (a : ℝ) (w x : List ℝ) (Fs : ℝ) (N step k : ℕ) :
    welchBin (w.map (↑)) (Fs : ℂ) N step ((x.map (a * ·)).map (↑)) ((x.map (a * ·)).map (↑)) k
      = ((a ^ 2 * (cW w Fs N step x.length k *
          ∑ s ∈ range (nSeg x.length N step), Complex.normSq (F w x N step k s)) : ℝ) : ℂ) := by
  rw [welchBin_self, List.length_map]
  congr 1
  have : ∀ s, Complex.normSq (F w (x.map (a * ·)) N step k s) = a ^ 2 * Complex.normSq (F w x N step k s) :=
    fun s => by rw [F_scale, Complex.normSq_mul, Complex.normSq_ofReal]; ring
  simp only [this, ← mul_sum]; ring

/-- **gain invariance of coherence**: multiply one channel by any real a ≠ 0 (either sign) -/
theorem gain_invariant (a : ℝ) (ha : a ≠ 0) (w xi xj : List ℝ) (Fs : ℝ) (N step k : ℕ) :
    coherenceSpec
      (welchBin (w.map (↑)) (Fs : ℂ) N step ((xi.map (a * ·)).map (↑)) (xj.map (↑)) k)
      (welchBin (w.map (↑)) (Fs : ℂ) N step ((xi.map (a * ·)).map (↑)) ((xi.map (a * ·)).map (↑)) k)
      (welchBin (w.map (↑)) (Fs : ℂ) N step (xj.map (↑)) (xj.map (↑)) k)
    = coherenceSpec
      (welchBin (w.map (↑)) (Fs : ℂ) N step (xi.map (↑)) (xj.map (↑)) k)
      (welchBin (w.map (↑)) (Fs : ℂ) N step (xi.map (↑)) (xi.map (↑)) k)
      (welchBin (w.map (↑)) (Fs : ℂ) N step (xj.map (↑)) (xj.map (↑)) k) := by
  rw [welchBin_scale_left, welchBin_scale_both, welchBin_self w xi, welchBin_self w xj]
  exact gain_invariant_coherence _ ha

/-- **gain and coherency**: the coherency is multiplied by a/|a| — unchanged for a > 0, sign flipped
    for a < 0 -/
theorem gain_coherency (a : ℝ) (ha : a ≠ 0) (w xi xj : List ℝ) {Fs : ℝ} (hFs : 0 ≤ Fs) (N step k : ℕ) :
    coherencySpec
      (welchBin (w.map (↑)) (Fs : ℂ) N step ((xi.map (a * ·)).map (↑)) (xj.map (↑)) k)
      (welchBin (w.map (↑)) (Fs : ℂ) N step ((xi.map (a * ·)).map (↑)) ((xi.map (a * ·)).map (↑)) k)
      (welchBin (w.map (↑)) (Fs : ℂ) N step (xj.map (↑)) (xj.map (↑)) k)
    = ((a / |a| : ℝ) : ℂ) * coherencySpec
      (welchBin (w.map (↑)) (Fs : ℂ) N step (xi.map (↑)) (xj.map (↑)) k)
      (welchBin (w.map (↑)) (Fs : ℂ) N step (xi.map (↑)) (xi.map (↑)) k)
      (welchBin (w.map (↑)) (Fs : ℂ) N step (xj.map (↑)) (xj.map (↑)) k) := by
  rw [welchBin_scale_left, welchBin_scale_both, welchBin_self w xi, welchBin_self w xj]
  exact gain_invariant_coherency _
    (mul_nonneg (cW_nonneg w hFs ..) (sum_nonneg fun _ _ => Complex.normSq_nonneg _))
    (mul_nonneg (cW_nonneg w hFs ..) (sum_nonneg fun _ _ => Complex.normSq_nonneg _)) ha

/-! ### band averages -/

theorem abs_mul_abs (z : ℂ) : ((‖z‖ : ℝ) : ℂ) * ((‖z‖ : ℝ) : ℂ) = ((Complex.normSq z : ℝ) : ℂ) := by
  rw [Complex.normSq_eq_norm_sq]; push_cast; ring

/-- **band-averaged coherence ≤ 1** (`_coherence_bavg`): whenever every bin satisfies the
    Cauchy–Schwarz bound |f_xy|² ≤ f_xx f_yy (as Welch / multitaper spectra do), the band average
    |Σ f_xy|² / (Σ f_xx · Σ f_yy) is ≤ 1 — Cauchy–Schwarz a second time, over the bins -/
theorem coherence_bavg_le_one (fxy : ℕ → ℂ) (p q : ℕ → ℝ) (lb ub : ℕ)
    (hp : ∀ k, 0 ≤ p k) (hq : ∀ k, 0 ≤ q k) (hcs : ∀ k, Complex.normSq (fxy k) ≤ p k * q k) :
    (coherenceBavg fxy (fun k => (p k : ℂ)) (fun k => (q k : ℂ)) lb ub).re ≤ 1 := by
  unfold coherenceBavg
  simp only [c_div, c_mul, c_re, c_abs, abs_mul_abs, sumRange_eq, Complex.ofReal_re]
  rw [← Complex.ofReal_sum, ← Complex.ofReal_sum, ← Complex.ofReal_mul, ← Complex.ofReal_div, Complex.ofReal_re]
  set n := ub - lb
  have hP : 0 ≤ ∑ t ∈ range n, p (lb + t) := sum_nonneg fun _ _ => hp _
  have hQ : 0 ≤ ∑ t ∈ range n, q (lb + t) := sum_nonneg fun _ _ => hq _
  apply div_le_one_of_le₀ _ (mul_nonneg hP hQ)
  have h1 : ‖∑ t ∈ range n, fxy (lb + t)‖ ≤ ∑ t ∈ range n, Real.sqrt (p (lb + t)) * Real.sqrt (q (lb + t)) := by
    refine (norm_sum_le _ _).trans (sum_le_sum fun t _ => ?_)
    rw [← Real.sqrt_mul (hp _), Complex.norm_def]
    exact Real.sqrt_le_sqrt (hcs _)
  have h2 : (∑ t ∈ range n, Real.sqrt (p (lb + t)) * Real.sqrt (q (lb + t))) ^ 2
      ≤ (∑ t ∈ range n, p (lb + t)) * (∑ t ∈ range n, q (lb + t)) := by
    have := Finset.sum_mul_sq_le_sq_mul_sq (range n) (fun t => Real.sqrt (p (lb + t))) (fun t => Real.sqrt (q (lb + t)))
    simpa [Real.sq_sqrt (hp _), Real.sq_sqrt (hq _)] using this
  rw [Complex.normSq_eq_norm_sq]
  exact (pow_le_pow_left₀ (norm_nonneg _) h1 2).trans h2

/-- **band-averaged coherency has magnitude ≤ 1** (`_coherency_bavg`: mean magnitude × unit phasor) -/
theorem coherency_bavg_le_one (fxy fxx fyy : ℕ → ℂ) (lb ub : ℕ)
    (hR : ∀ t, ‖coherencySpec (fxy (lb + t)) (fxx (lb + t)) (fyy (lb + t))‖ ≤ 1) :
    ‖coherencyBavg fxy fxx fyy lb ub‖ ≤ 1 := by
  unfold coherencyBavg
  simp only [c_mul, c_div, c_abs, c_ofNat, sumRange_eq, c_cis]
  rw [norm_mul, mul_comm Complex.I, Complex.norm_exp_ofReal_mul_I, mul_one, ← Complex.ofReal_sum,
    ← Complex.ofReal_natCast, ← Complex.ofReal_div, Complex.norm_real, Real.norm_eq_abs,
    abs_of_nonneg (div_nonneg (sum_nonneg fun _ _ => norm_nonneg _) (Nat.cast_nonneg _))]
  set n := ub - lb
  rcases Nat.eq_zero_or_pos n with h0 | hn
  · simp [h0]
  · rw [div_le_one (by exact_mod_cast hn)]
    calc ∑ t ∈ range n, ‖coherencySpec (fxy (lb + t)) (fxx (lb + t)) (fyy (lb + t))‖
        ≤ ∑ _t ∈ range n, (1 : ℝ) := sum_le_sum fun t _ => hR t
      _ = n := by simp

/-! ### band averages of the Welch estimate itself -/

/-- per-bin Cauchy–Schwarz bound of the Welch spectra in the form the band theorems need -/
theorem welch_cs (w xi xj : List ℝ) {Fs : ℝ} (N step k : ℕ) (hlen : xj.length = xi.length) :
    Complex.normSq (welchBin (w.map (↑)) (Fs : ℂ) N step (xi.map (↑)) (xj.map (↑)) k)
      ≤ (cW w Fs N step xi.length k * ∑ s ∈ range (nSeg xi.length N step), Complex.normSq (F w xi N step k s))
        * (cW w Fs N step xj.length k * ∑ s ∈ range (nSeg xj.length N step), Complex.normSq (F w xj N step k s)) := by
  rw [welchBin_eq, hlen, Complex.normSq_mul, Complex.normSq_ofReal]
  set c := cW w Fs N step xi.length k
  have hcs := cs_range (nSeg xi.length N step) (F w xi N step k) (F w xj N step k)
  calc c * c * Complex.normSq (∑ s ∈ range (nSeg xi.length N step), F w xi N step k s * conj (F w xj N step k s))
      ≤ c * c * ((∑ s ∈ range (nSeg xi.length N step), Complex.normSq (F w xi N step k s)) *
          (∑ s ∈ range (nSeg xi.length N step), Complex.normSq (F w xj N step k s))) :=
        mul_le_mul_of_nonneg_left hcs (mul_self_nonneg c)
    _ = _ := by ring

/-- **band-averaged coherence of the Welch estimate ≤ 1** (`coherence_bavg` on `get_spectra(welch)`),
    every band [lb, ub), every pair of real channels -/
theorem welch_coherence_bavg_le_one (w xi xj : List ℝ) {Fs : ℝ} (hFs : 0 ≤ Fs) (N step lb ub : ℕ)
    (hlen : xj.length = xi.length) :
    (coherenceBavg (fun k => welchBin (w.map (↑)) (Fs : ℂ) N step (xi.map (↑)) (xj.map (↑)) k)
        (fun k => welchBin (w.map (↑)) (Fs : ℂ) N step (xi.map (↑)) (xi.map (↑)) k)
        (fun k => welchBin (w.map (↑)) (Fs : ℂ) N step (xj.map (↑)) (xj.map (↑)) k) lb ub).re ≤ 1 := by
  simp only [welchBin_self]
  exact coherence_bavg_le_one _ _ _ lb ub
    (fun k => mul_nonneg (cW_nonneg w hFs ..) (sum_nonneg fun _ _ => Complex.normSq_nonneg _))
    (fun k => mul_nonneg (cW_nonneg w hFs ..) (sum_nonneg fun _ _ => Complex.normSq_nonneg _))
    (fun k => welch_cs w xi xj N step k hlen)

/-- |coherency| ≤ 1 from the Cauchy–Schwarz bound -/
theorem coherencySpec_norm_le_one (z : ℂ) {p q : ℝ} (hp : 0 ≤ p) (hq : 0 ≤ q) (h : Complex.normSq z ≤ p * q) :
    ‖coherencySpec z (p : ℂ) (q : ℂ)‖ ≤ 1 := by
  rw [coherencySpec_real z hp hq, norm_div, Complex.norm_real, Real.norm_eq_abs,
    abs_of_nonneg (Real.sqrt_nonneg _)]
  apply div_le_one_of_le₀ _ (Real.sqrt_nonneg _)
  rw [Complex.norm_def]
  exact Real.sqrt_le_sqrt h

/-- **band-averaged coherency of the Welch estimate has magnitude ≤ 1** (`coherency_bavg`) -/
theorem welch_coherency_bavg_le_one (w xi xj : List ℝ) {Fs : ℝ} (hFs : 0 ≤ Fs) (N step lb ub : ℕ)
    (hlen : xj.length = xi.length) :
    ‖coherencyBavg (fun k => welchBin (w.map (↑)) (Fs : ℂ) N step (xi.map (↑)) (xj.map (↑)) k)
        (fun k => welchBin (w.map (↑)) (Fs : ℂ) N step (xi.map (↑)) (xi.map (↑)) k)
        (fun k => welchBin (w.map (↑)) (Fs : ℂ) N step (xj.map (↑)) (xj.map (↑)) k) lb ub‖ ≤ 1 := by
  apply coherency_bavg_le_one
  intro t
  simp only [welchBin_self]
  exact coherencySpec_norm_le_one _
    (mul_nonneg (cW_nonneg w hFs ..) (sum_nonneg fun _ _ => Complex.normSq_nonneg _))
    (mul_nonneg (cW_nonneg w hFs ..) (sum_nonneg fun _ _ => Complex.normSq_nonneg _))
    (welch_cs w xi xj N step _ hlen)

/-! ### partial coherence -/

/-- the 3-channel Hermitian spectral matrix of (x, y, r) at one frequency -/
noncomputable def S3 (p q r : ℝ) (sxy sxr syr : ℂ) : Matrix (Fin 3) (Fin 3) ℂ :=
  !![(p : ℂ), sxy, sxr; conj sxy, (q : ℂ), syr; conj sxr, conj syr, (r : ℂ)]

/-- closed form of `coherence_partial_spec` when it is given f_xr and f_ry = conj f_yr -/
theorem partial_closed_form {p q r : ℝ} (hp : 0 < p) (hq : 0 < q) (hr : 0 < r) (sxy sxr syr : ℂ)
    (h1 : Complex.normSq sxr ≠ p * r) (h2 : Complex.normSq syr ≠ q * r) :
    coherencePartialSpec sxy (p : ℂ) (q : ℂ) sxr (conj syr) (r : ℂ)
      = ((Complex.normSq (sxy * (r : ℂ) - sxr * conj syr)
          / ((p * r - Complex.normSq sxr) * (q * r - Complex.normSq syr)) : ℝ) : ℂ) := by
  unfold coherencePartialSpec
  simp only [c_div, c_mul, c_sub, c_ofNat, c_abs, abs_mul_abs, Nat.cast_one]
  rw [coherencySpec_real _ hp.le hr.le, coherencySpec_real _ hq.le hr.le, coherencySpec_real _ hp.le hq.le]
  rw [Real.sqrt_mul hp.le, Real.sqrt_mul hq.le, Real.sqrt_mul hp.le]
  obtain ⟨a, ha, rfl⟩ : ∃ a : ℝ, 0 < a ∧ p = a * a := ⟨Real.sqrt p, Real.sqrt_pos.mpr hp, (Real.mul_self_sqrt hp.le).symm⟩
  obtain ⟨b, hb, rfl⟩ : ∃ b : ℝ, 0 < b ∧ q = b * b := ⟨Real.sqrt q, Real.sqrt_pos.mpr hq, (Real.mul_self_sqrt hq.le).symm⟩
  obtain ⟨c, hc, rfl⟩ : ∃ c : ℝ, 0 < c ∧ r = c * c := ⟨Real.sqrt r, Real.sqrt_pos.mpr hr, (Real.mul_self_sqrt hr.le).symm⟩
  rw [Real.sqrt_mul_self ha.le, Real.sqrt_mul_self hb.le, Real.sqrt_mul_self hc.le]
  have hac : ((a : ℂ)) ≠ 0 := by exact_mod_cast ha.ne'
  have hbc : ((b : ℂ)) ≠ 0 := by exact_mod_cast hb.ne'
  have hcc : ((c : ℂ)) ≠ 0 := by exact_mod_cast hc.ne'
  have e : sxy / ((a * b : ℝ) : ℂ) - sxr / ((a * c : ℝ) : ℂ) * (conj syr / ((b * c : ℝ) : ℂ))
      = (sxy * ((c * c : ℝ) : ℂ) - sxr * conj syr) / ((a * b * (c * c) : ℝ) : ℂ) := by
    push_cast; field_simp
  rw [e]
  simp only [Complex.normSq_div, Complex.normSq_ofReal, Complex.normSq_conj]
  rw [← Complex.ofReal_one, ← Complex.ofReal_sub, ← Complex.ofReal_sub, ← Complex.ofReal_mul, ← Complex.ofReal_div]
  congr 1
  have d1 : a * a * (c * c) - Complex.normSq sxr ≠ 0 := sub_ne_zero.mpr (Ne.symm h1)
  have d2 : b * b * (c * c) - Complex.normSq syr ≠ 0 := sub_ne_zero.mpr (Ne.symm h2)
  have e1 : 1 - Complex.normSq sxr / (a * c * (a * c)) = (a * a * (c * c) - Complex.normSq sxr) / (a * a * (c * c)) := by
    field_simp
  have e2 : 1 - Complex.normSq syr / (b * c * (b * c)) = (b * b * (c * c) - Complex.normSq syr) / (b * b * (c * c)) := by
    field_simp
  rw [e1, e2]
  field_simp

/-- **partial coherence = the inverse-spectral-matrix value**: with G the adjugate of the Hermitian
    3×3 spectral matrix (S⁻¹ = G / det S, and the determinant cancels in the ratio),
    `coherence_partial_spec(f_xy, f_xx, f_yy, f_xr, f_ry, f_rr) = |G_xy|² / (G_xx · G_yy)` -/
theorem partial_eq_inverse {p q r : ℝ} (hp : 0 < p) (hq : 0 < q) (hr : 0 < r) (sxy sxr syr : ℂ)
    (h1 : Complex.normSq sxr ≠ p * r) (h2 : Complex.normSq syr ≠ q * r) :
    coherencePartialSpec sxy (p : ℂ) (q : ℂ) sxr (conj syr) (r : ℂ)
      = ((Complex.normSq ((S3 p q r sxy sxr syr).adjugate 0 1)
          / (((S3 p q r sxy sxr syr).adjugate 0 0).re * ((S3 p q r sxy sxr syr).adjugate 1 1).re) : ℝ) : ℂ) := by
  rw [partial_closed_form hp hq hr sxy sxr syr h1 h2]
  congr 1
  have a01 : (S3 p q r sxy sxr syr).adjugate 0 1 = -(sxy * (r : ℂ) - sxr * conj syr) := by
    simp [S3, Matrix.adjugate_fin_three]; ring
  have a00 : (S3 p q r sxy sxr syr).adjugate 0 0 = ((q * r - Complex.normSq syr : ℝ) : ℂ) := by
    simp [S3, Matrix.adjugate_fin_three, Complex.mul_conj]
  have a11 : (S3 p q r sxy sxr syr).adjugate 1 1 = ((p * r - Complex.normSq sxr : ℝ) : ℂ) := by
    simp [S3, Matrix.adjugate_fin_three, Complex.mul_conj]
  rw [a01, a00, a11, Complex.normSq_neg, Complex.ofReal_re, Complex.ofReal_re]
  congr 1; ring


/-! ### partial coherence ≤ 1 for segment-averaged (Gram) spectra -/

/-- pointwise expansion of the residual products -/
theorem resid_expand (n : ℕ) (a b r : ℕ → ℂ) (α β : ℂ) :
    ∑ s ∈ range n, (a s - α * r s) * conj (b s - β * r s)
      = (∑ s ∈ range n, a s * conj (b s)) - conj β * (∑ s ∈ range n, a s * conj (r s))
        - α * conj (∑ s ∈ range n, b s * conj (r s)) + α * conj β * (∑ s ∈ range n, r s * conj (r s)) := by
  rw [map_sum, mul_sum, mul_sum, mul_sum, ← sum_sub_distrib, ← sum_sub_distrib, ← sum_add_distrib]
  refine sum_congr rfl fun s _ => ?_
  simp only [map_sub, map_mul, Complex.conj_conj]
  ring

/-- the determinant-type inequality behind `partial ≤ 1`: Cauchy–Schwarz for the residuals of x and
    y after regression on r -/
theorem gram_partial_ineq (n : ℕ) (a b r : ℕ → ℂ)
    (hR : 0 < ∑ s ∈ range n, Complex.normSq (r s)) :
    Complex.normSq ((∑ s ∈ range n, a s * conj (b s)) * ((∑ s ∈ range n, Complex.normSq (r s) : ℝ) : ℂ)
        - (∑ s ∈ range n, a s * conj (r s)) * conj (∑ s ∈ range n, b s * conj (r s)))
      ≤ ((∑ s ∈ range n, Complex.normSq (a s)) * (∑ s ∈ range n, Complex.normSq (r s))
            - Complex.normSq (∑ s ∈ range n, a s * conj (r s)))
        * ((∑ s ∈ range n, Complex.normSq (b s)) * (∑ s ∈ range n, Complex.normSq (r s))
            - Complex.normSq (∑ s ∈ range n, b s * conj (r s))) := by
  set R := ∑ s ∈ range n, Complex.normSq (r s)
  set P := ∑ s ∈ range n, Complex.normSq (a s)
  set Q := ∑ s ∈ range n, Complex.normSq (b s)
  set sxy := ∑ s ∈ range n, a s * conj (b s)
  set sxr := ∑ s ∈ range n, a s * conj (r s)
  set syr := ∑ s ∈ range n, b s * conj (r s)
  have hRc : ((R : ℝ) : ℂ) ≠ 0 := by exact_mod_cast hR.ne'
  have hrr : ∑ s ∈ range n, r s * conj (r s) = ((R : ℝ) : ℂ) := sum_mul_conj_eq n r
  have haa : ∑ s ∈ range n, a s * conj (a s) = ((P : ℝ) : ℂ) := sum_mul_conj_eq n a
  have hbb : ∑ s ∈ range n, b s * conj (b s) = ((Q : ℝ) : ℂ) := sum_mul_conj_eq n b
  set α : ℂ := sxr / (R : ℂ)
  set β : ℂ := syr / (R : ℂ)
  have hcs := cs_range n (fun s => a s - α * r s) (fun s => b s - β * r s)
  -- the three residual sums
  have e1 : ∑ s ∈ range n, (a s - α * r s) * conj (b s - β * r s)
      = (sxy * (R : ℂ) - sxr * conj syr) / (R : ℂ) := by
    rw [resid_expand, hrr]
    simp only [α, β, map_div₀, Complex.conj_ofReal]
    field_simp
    ring
  have e2 : ∑ s ∈ range n, Complex.normSq (a s - α * r s) = (P * R - Complex.normSq sxr) / R := by
    have h := resid_expand n a a r α α
    rw [hrr, haa, sum_mul_conj_eq] at h
    have : ((∑ s ∈ range n, Complex.normSq (a s - α * r s) : ℝ) : ℂ)
        = (((P * R - Complex.normSq sxr) / R : ℝ) : ℂ) := by
      rw [h]
      simp only [α, map_div₀, Complex.conj_ofReal]
      push_cast
      rw [← Complex.mul_conj sxr]
      field_simp
      ring
    exact_mod_cast this
  have e3 : ∑ s ∈ range n, Complex.normSq (b s - β * r s) = (Q * R - Complex.normSq syr) / R := by
    have h := resid_expand n b b r β β
    rw [hrr, hbb, sum_mul_conj_eq] at h
    have : ((∑ s ∈ range n, Complex.normSq (b s - β * r s) : ℝ) : ℂ)
        = (((Q * R - Complex.normSq syr) / R : ℝ) : ℂ) := by
      rw [h]
      simp only [β, map_div₀, Complex.conj_ofReal]
      push_cast
      rw [← Complex.mul_conj syr]
      field_simp
      ring
    exact_mod_cast this
  rw [e1, e2, e3, Complex.normSq_div, Complex.normSq_ofReal] at hcs
  have hR2 : 0 < R * R := mul_pos hR hR
  have := mul_le_mul_of_nonneg_right hcs hR2.le
  have hne : R ≠ 0 := hR.ne'
  calc Complex.normSq (sxy * (R : ℂ) - sxr * conj syr)
      = Complex.normSq (sxy * (R : ℂ) - sxr * conj syr) / (R * R) * (R * R) := by field_simp
    _ ≤ (P * R - Complex.normSq sxr) / R * ((Q * R - Complex.normSq syr) / R) * (R * R) := this
    _ = _ := by field_simp

/-- **partial coherence ≤ 1** for spectra that are (a common positive multiple of) sums over
    segments / tapers of X·conj Y — what Welch and multitaper estimates are — with the cross-spectra
    in the orientation the formula needs -/
theorem partial_le_one (n : ℕ) (a b r : ℕ → ℂ) {c : ℝ} (hc : 0 < c)
    (hP : 0 < ∑ s ∈ range n, Complex.normSq (a s)) (hQ : 0 < ∑ s ∈ range n, Complex.normSq (b s))
    (hR : 0 < ∑ s ∈ range n, Complex.normSq (r s))
    (h1 : Complex.normSq (∑ s ∈ range n, a s * conj (r s))
        ≠ (∑ s ∈ range n, Complex.normSq (a s)) * (∑ s ∈ range n, Complex.normSq (r s)))
    (h2 : Complex.normSq (∑ s ∈ range n, b s * conj (r s))
        ≠ (∑ s ∈ range n, Complex.normSq (b s)) * (∑ s ∈ range n, Complex.normSq (r s))) :
    (coherencePartialSpec ((c : ℂ) * ∑ s ∈ range n, a s * conj (b s))
        ((c * ∑ s ∈ range n, Complex.normSq (a s) : ℝ) : ℂ) ((c * ∑ s ∈ range n, Complex.normSq (b s) : ℝ) : ℂ)
        ((c : ℂ) * ∑ s ∈ range n, a s * conj (r s)) (conj ((c : ℂ) * ∑ s ∈ range n, b s * conj (r s)))
        ((c * ∑ s ∈ range n, Complex.normSq (r s) : ℝ) : ℂ)).re ≤ 1 := by
  set R := ∑ s ∈ range n, Complex.normSq (r s)
  set P := ∑ s ∈ range n, Complex.normSq (a s)
  set Q := ∑ s ∈ range n, Complex.normSq (b s)
  set sxy := ∑ s ∈ range n, a s * conj (b s)
  set sxr := ∑ s ∈ range n, a s * conj (r s)
  set syr := ∑ s ∈ range n, b s * conj (r s)
  have hcc : c * c ≠ 0 := (mul_pos hc hc).ne'
  rw [partial_closed_form (mul_pos hc hP) (mul_pos hc hQ) (mul_pos hc hR)]
  · rw [Complex.ofReal_re]
    have hin := gram_partial_ineq n a b r hR
    have hx : 0 ≤ P * R - Complex.normSq sxr := sub_nonneg.mpr (cs_range n a r)
    have hy : 0 ≤ Q * R - Complex.normSq syr := sub_nonneg.mpr (cs_range n b r)
    apply div_le_one_of_le₀
    · have e : (c : ℂ) * sxy * ((c * R : ℝ) : ℂ) - (c : ℂ) * sxr * conj ((c : ℂ) * syr)
          = ((c * c : ℝ) : ℂ) * (sxy * ((R : ℝ) : ℂ) - sxr * conj syr) := by
        simp only [map_mul, Complex.conj_ofReal]; push_cast; ring
      rw [e, Complex.normSq_mul, Complex.normSq_ofReal, Complex.normSq_mul, Complex.normSq_mul,
        Complex.normSq_ofReal]
      calc c * c * (c * c) * Complex.normSq (sxy * ((R : ℝ) : ℂ) - sxr * conj syr)
          ≤ c * c * (c * c) * ((P * R - Complex.normSq sxr) * (Q * R - Complex.normSq syr)) :=
            mul_le_mul_of_nonneg_left hin (by positivity)
        _ = _ := by ring
    · rw [Complex.normSq_mul, Complex.normSq_mul, Complex.normSq_ofReal]
      have : (c * P * (c * R) - c * c * Complex.normSq sxr) * (c * Q * (c * R) - c * c * Complex.normSq syr)
          = c * c * (c * c) * ((P * R - Complex.normSq sxr) * (Q * R - Complex.normSq syr)) := by ring
      rw [this]
      exact mul_nonneg (by positivity) (mul_nonneg hx hy)
  · rw [Complex.normSq_mul, Complex.normSq_ofReal]
    intro h; apply h1
    have : c * c * Complex.normSq sxr = c * c * (P * R) := by rw [h]; ring
    exact mul_left_cancel₀ hcc this
  · rw [Complex.normSq_mul, Complex.normSq_ofReal]
    intro h; apply h2
    have : c * c * Complex.normSq syr = c * c * (Q * R) := by rw [h]; ring
    exact mul_left_cancel₀ hcc this


/-- **partial coherence ≤ 1 for the Welch estimate** of three real channels x, y, r of equal length (every bin,
    any window / NFFT / step), with the cross-spectra as `coherence_partial` passes them: f_xr and
    f_ry = conj f_yr -/
theorem welch_partial_le_one (w xi xj xr : List ℝ) {Fs : ℝ} (hFs : 0 < Fs) (N step k : ℕ) (hW : 0 < W w N)
    (hj : xj.length = xi.length) (hr : xr.length = xi.length)
    (hP : 0 < ∑ s ∈ range (nSeg xi.length N step), Complex.normSq (F w xi N step k s))
    (hQ : 0 < ∑ s ∈ range (nSeg xi.length N step), Complex.normSq (F w xj N step k s))
    (hR : 0 < ∑ s ∈ range (nSeg xi.length N step), Complex.normSq (F w xr N step k s))
    (h1 : Complex.normSq (∑ s ∈ range (nSeg xi.length N step), F w xi N step k s * conj (F w xr N step k s))
        ≠ (∑ s ∈ range (nSeg xi.length N step), Complex.normSq (F w xi N step k s))
          * (∑ s ∈ range (nSeg xi.length N step), Complex.normSq (F w xr N step k s)))
    (h2 : Complex.normSq (∑ s ∈ range (nSeg xi.length N step), F w xj N step k s * conj (F w xr N step k s))
        ≠ (∑ s ∈ range (nSeg xi.length N step), Complex.normSq (F w xj N step k s))
          * (∑ s ∈ range (nSeg xi.length N step), Complex.normSq (F w xr N step k s))) :
    (coherencePartialSpec
      (welchBin (w.map (↑)) (Fs : ℂ) N step (xi.map (↑)) (xj.map (↑)) k)
      (welchBin (w.map (↑)) (Fs : ℂ) N step (xi.map (↑)) (xi.map (↑)) k)
      (welchBin (w.map (↑)) (Fs : ℂ) N step (xj.map (↑)) (xj.map (↑)) k)
      (welchBin (w.map (↑)) (Fs : ℂ) N step (xi.map (↑)) (xr.map (↑)) k)
      (conj (welchBin (w.map (↑)) (Fs : ℂ) N step (xj.map (↑)) (xr.map (↑)) k))
      (welchBin (w.map (↑)) (Fs : ℂ) N step (xr.map (↑)) (xr.map (↑)) k)).re ≤ 1 := by
  have hc : 0 < cW w Fs N step xi.length k := by
    unfold cW
    have : (0 : ℝ) < (nSeg xi.length N step : ℝ) := by
      have : 1 ≤ nSeg xi.length N step := by unfold nSeg; exact Nat.le_add_left 1 _
      exact_mod_cast this
    exact div_pos (div_pos (div_pos (osR_pos N k) this) hFs) hW
  rw [welchBin_self w xi, welchBin_self w xj, welchBin_self w xr, welchBin_eq w xi xj, welchBin_eq w xi xr,
    welchBin_eq w xj xr, hj, hr]
  exact partial_le_one _ _ _ _ hc hP hQ hR h1 h2


/-! ### multitaper coherence (MTCoherenceAnalyzer) -/

theorem mtW2_eq (w : List (List ℂ)) (nt k : ℕ) :
    mtW2 w nt k = ((∑ t ∈ range nt, Complex.normSq (wAt w t k) : ℝ) : ℂ) := by
  unfold mtW2
  rw [sumRange_eq]; push_cast
  exact sum_congr rfl fun t _ => by simp only [c_mul, c_abs, abs_mul_abs]

/-- **multitaper coherence ≤ 1**: Cauchy–Schwarz over the tapers, any weights (fixed or adaptive),
    any bin; the one-sided doubling and the weight normalisations cancel -/
theorem mt_coherence_le_one (N nt : ℕ) (tx ty wx wy : List (List ℂ)) (k : ℕ) :
    (mtCoherence N nt tx ty wx wy k).re ≤ 1 := by
  unfold mtCoherence mtCross mtAuto
  simp only [c_div, c_mul, c_abs, c_re, c_conj, abs_mul_abs, sumRange_eq, mtW2_eq]
  set a : ℕ → ℂ := fun t => wAt wx t k * getK (tx.getD t []) k
  set b : ℕ → ℂ := fun t => wAt wy t k * getK (ty.getD t []) k
  set Dx := ∑ t ∈ range nt, Complex.normSq (wAt wx t k)
  set Dy := ∑ t ∈ range nt, Complex.normSq (wAt wy t k)
  have hDx : 0 ≤ Dx := sum_nonneg fun _ _ => Complex.normSq_nonneg _
  have hDy : 0 ≤ Dy := sum_nonneg fun _ _ => Complex.normSq_nonneg _
  obtain ⟨d, hd, hdbl⟩ : ∃ d : ℝ, 0 < d ∧ (mtDouble N k : ℂ) = (d : ℂ) := by
    unfold mtDouble; split_ifs
    · exact ⟨2, by norm_num, by simp⟩
    · exact ⟨1, by norm_num, by simp⟩
  rw [hdbl, sum_mul_conj_eq nt a, sum_mul_conj_eq nt b, c_sqrt_ofReal hDx, c_sqrt_ofReal hDy]
  set P := ∑ t ∈ range nt, Complex.normSq (a t)
  set Q := ∑ t ∈ range nt, Complex.normSq (b t)
  have hP : 0 ≤ P := sum_nonneg fun _ _ => Complex.normSq_nonneg _
  have hQ : 0 ≤ Q := sum_nonneg fun _ _ => Complex.normSq_nonneg _
  have hcs := cs_range nt a b
  simp only [← Complex.ofReal_div, ← Complex.ofReal_mul, Complex.ofReal_re]
  have hsq : √Dx * √Dy * (√Dx * √Dy) = Dx * Dy := by
    rw [mul_mul_mul_comm, Real.mul_self_sqrt hDx, Real.mul_self_sqrt hDy]
  rw [Complex.normSq_mul, Complex.normSq_div, Complex.normSq_ofReal, Complex.normSq_ofReal, hsq]
  apply div_le_one_of_le₀
  · calc Complex.normSq (∑ t ∈ range nt, a t * conj (b t)) / (Dx * Dy) * (d * d)
        ≤ P * Q / (Dx * Dy) * (d * d) := by
          apply mul_le_mul_of_nonneg_right _ (mul_self_nonneg d)
          exact div_le_div_of_nonneg_right hcs (mul_nonneg hDx hDy)
      _ = P / Dx * d * (Q / Dy * d) := by
          rw [← div_mul_div_comm]; ring
  · exact mul_nonneg (mul_nonneg (div_nonneg hP hDx) hd.le) (mul_nonneg (div_nonneg hQ hDy) hd.le)

/-- **multitaper self-coherence = 1** (intended diagonal of MTCoherenceAnalyzer.coherence) -/
theorem mt_self_coherence_one (N nt : ℕ) (tx wx : List (List ℂ)) (k : ℕ)
    (hD : 0 < ∑ t ∈ range nt, Complex.normSq (wAt wx t k))
    (hP : 0 < ∑ t ∈ range nt, Complex.normSq (wAt wx t k * getK (tx.getD t []) k)) :
    mtCoherence N nt tx tx wx wx k = 1 := by
  unfold mtCoherence mtCross mtAuto
  simp only [c_div, c_mul, c_abs, c_re, c_conj, abs_mul_abs, sumRange_eq, mtW2_eq]
  set a : ℕ → ℂ := fun t => wAt wx t k * getK (tx.getD t []) k
  set Dx := ∑ t ∈ range nt, Complex.normSq (wAt wx t k)
  obtain ⟨d, hd, hdbl⟩ : ∃ d : ℝ, 0 < d ∧ (mtDouble N k : ℂ) = (d : ℂ) := by
    unfold mtDouble; split_ifs
    · exact ⟨2, by norm_num, by simp⟩
    · exact ⟨1, by norm_num, by simp⟩
  rw [hdbl, sum_mul_conj_eq nt a, c_sqrt_ofReal hD.le]
  set P := ∑ t ∈ range nt, Complex.normSq (a t)
  simp only [← Complex.ofReal_div, ← Complex.ofReal_mul, Complex.ofReal_re, Complex.normSq_ofReal]
  rw [Real.mul_self_sqrt hD.le, ← Complex.ofReal_one]
  congr 1
  have h1 : P / Dx * d ≠ 0 := (mul_pos (div_pos hP hD) hd).ne'
  exact div_self (mul_ne_zero h1 h1)

/-! ### coherence ≤ 1 for the estimators of the spectral model (C04/C06), from the data

`coherence(x, csd_method)` applies `coherence_spec` to the matrix `get_spectra` returns.  C06 proves that
the multitaper, periodogram and (completed) Welch matrices of the spectral model are Gram kernels
`c·Σ_t u_i(t)·conj u_j(t)` computed from the time-domain data (tapers / adaptive weights given as data);
Cauchy–Schwarz over t then bounds the coherence of every pair at every bin. -/

/-- coherence of any Gram kernel with non-negative scale is ≤ 1 -/
theorem gram_coherence_le_one {c : ℝ} (hc : 0 ≤ c) (T : ℕ) (u : ℕ → ℕ → ℂ) (i j : ℕ) :
    (coherenceSpec (Nitime.Gram.gramK c T u i j) (Nitime.Gram.gramK c T u i i) (Nitime.Gram.gramK c T u j j)).re ≤ 1 := by
  rw [coherenceSpec_eq, Nitime.Gram.gramK_diag, Nitime.Gram.gramK_diag]
  unfold Nitime.Gram.gramK
  simp only [Complex.ofReal_re, Complex.normSq_mul, Complex.normSq_ofReal]
  have hcs := cs_range T (u i) (u j)
  have hP : 0 ≤ ∑ t ∈ range T, Complex.normSq (u i t) := sum_nonneg fun _ _ => Complex.normSq_nonneg _
  have hQ : 0 ≤ ∑ t ∈ range T, Complex.normSq (u j t) := sum_nonneg fun _ _ => Complex.normSq_nonneg _
  apply div_le_one_of_le₀ _ (mul_nonneg (mul_nonneg hc hP) (mul_nonneg hc hQ))
  calc c * c * Complex.normSq (∑ t ∈ range T, u i t * conj (u j t))
      ≤ c * c * ((∑ t ∈ range T, Complex.normSq (u i t)) * (∑ t ∈ range T, Complex.normSq (u j t))) :=
        mul_le_mul_of_nonneg_left hcs (mul_self_nonneg c)
    _ = _ := by ring

/-- **multitaper coherence ≤ 1 from the data**: `coherence(x, multi_taper_csd)` with the estimator of
    the spectral model (`multiTaperCsdAt`: de-mean, taper, DFT, weight — fixed or adaptive weights given as
    data — pair loop, Hermitian completion), every pair, every bin -/
theorem mt_csd_coherence_le_one {N : ℕ} (tw : ℕ → ℂ) {Fs : ℝ} (hFs : 0 < Fs) (n : ℕ) (os : Bool) (T : ℕ)
    (h : ℕ → ℕ → ℝ) (w : ℕ → ℕ → ℕ → ℝ) (x : ℕ → ℕ → ℂ) (i j k : ℕ) :
    (coherenceSpec (Nitime.C04.multiTaperCsdAt tw Fs n N os T h w x i j k)
        (Nitime.C04.multiTaperCsdAt tw Fs n N os T h w x i i k)
        (Nitime.C04.multiTaperCsdAt tw Fs n N os T h w x j j k)).re ≤ 1 := by
  simp only [Nitime.C06.Props.multiTaperCsd_is_gram]
  exact gram_coherence_le_one (Nitime.C06.Props.mtC_nonneg hFs os k) T _ i j

/-- **periodogram coherence ≤ 1 from the data** (`periodogramCsdAt` of the spectral model) -/
theorem periodogram_csd_coherence_le_one {N : ℕ} (tw : ℕ → ℂ) {Fs : ℝ} (hFs : 0 < Fs) (n : ℕ) (os : Bool)
    (x : ℕ → ℕ → ℂ) (i j k : ℕ) :
    (coherenceSpec (Nitime.C04.periodogramCsdAt tw Fs n N os x i j k)
        (Nitime.C04.periodogramCsdAt tw Fs n N os x i i k)
        (Nitime.C04.periodogramCsdAt tw Fs n N os x j j k)).re ≤ 1 := by
  simp only [Nitime.C06.Props.periodogramCsd_is_gram]
  exact gram_coherence_le_one (Nitime.C06.Props.pcC_nonneg hFs n os k) 1 _ i j

/-- **Welch coherence ≤ 1 for the Welch model of the spectral builder** (`welchCompletedAt`, complex input
    and two-sided output included) — the same statement as `coherence_le_one`, about the other, independently
    written model of `get_spectra(welch)` -/
theorem welch_completed_coherence_le_one {N : ℕ} (tw : ℕ → ℂ) {Fs : ℝ} (hFs : 0 < Fs) (n nov : ℕ) (os : Bool)
    (win : ℕ → ℝ) (x : ℕ → ℕ → ℂ) (i j m : ℕ) :
    (coherenceSpec (Nitime.C06.welchCompletedAt tw Fs n N nov os win x i j m)
        (Nitime.C06.welchCompletedAt tw Fs n N nov os win x i i m)
        (Nitime.C06.welchCompletedAt tw Fs n N nov os win x j j m)).re ≤ 1 := by
  simp only [Nitime.C06.Props.welchCompleted_is_gram]
  exact gram_coherence_le_one (Nitime.C06.Props.wC_nonneg hFs n nov os win m) _ _ i j

/-! ### a witness where all of the x–y coupling comes from the common cause

x = (3/5)·i·r + noise₁, y = (3/5)·i·r + noise₂ (unit-power r and noises): f_xy = 9/25, f_xr = f_yr = (3/5)i.
The partial coherence is 0.  (Before repair 1cdba75 `coherence_partial` passed f_yr where f_ry belongs
and returned 81/64 on these spectra.) -/

/-- semi-filled spectral matrix of the witness (one frequency bin) -/
noncomputable def witness : ℕ → ℕ → ℕ → ℂ := fun i j _ =>
  if i = j then 1 else if i = 0 ∧ j = 1 then 9 / 25 else if j = 2 then (3 / 5 : ℂ) * Complex.I else 0

theorem sqrt_one' : CScalar.sqrt (1 : ℂ) = 1 := by rw [c_sqrt]; simp

theorem partial_on_witness : partialOf witness 0 1 2 0 = 0 := by
  unfold partialOf coherencePartialSpec hermSpec witness coherencySpec
  simp only [c_div, c_mul, c_sub, c_ofNat, c_abs, c_conj, abs_mul_abs]
  norm_num [Complex.normSq_apply, sqrt_one', Complex.conj_ofNat]

/-! ### non-vacuity -/

example : coherenceSpec (1 + Complex.I) ((2 : ℝ) : ℂ) ((3 : ℝ) : ℂ)
    = ((Complex.normSq (coherencySpec (1 + Complex.I) ((2 : ℝ) : ℂ) ((3 : ℝ) : ℂ)) : ℝ) : ℂ) :=
  normSq_coherency_eq_coherence _ (by norm_num) (by norm_num)

/-- two channels of 4 samples, NFFT = 3, step 1 (two segments), a non-constant window -/
example := coherence_le_one [1, 2, 1] [1, -1, 2, 1 / 2] [0, 1, 1, -3] 2 3 1 1 rfl
example := gain_invariant (-3) (by norm_num) [1, 2, 1] [1, -1, 2, 1 / 2] [0, 1, 1, -3] 2 3 1 1
example := welch_coherency_hermitian [1, 2, 1] [1, -1, 2, 1 / 2] [0, 1, 1, -3] (Fs := 2) (by norm_num) 3 1 1 rfl

example := partial_eq_inverse (p := 1) (q := 1) (r := 1) one_pos one_pos one_pos (1 / 2) (1 / 3) (Complex.I / 4)
  (by norm_num [Complex.normSq_apply]) (by norm_num [Complex.normSq_apply])

example : Complex.arg (witness 0 2 0) ≠ Real.pi := by
  unfold witness; norm_num [Complex.arg_eq_pi_iff]

end Nitime.C08.Props
