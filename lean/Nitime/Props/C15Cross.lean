/-
C15 round 5 — theorems about `Model/C15Cross.lean`.

Memo (a process-wide store in front of a design function, shared by all analyzer objects):
* `call_sound`, `run_faithful`      if the KEY DETERMINES THE DESIGN (`key a = key b → design a = design b`) then after ANY history of
    requests by any objects, starting from any sound memo, every answer is the design of its own request.
* `fir_full_key_faithful`           the key (taps, lb, ub, window, RATE) determines `firDesign`: every history is answered right.
* `fir_key_without_rate_counterexample`  key without the rate: band 5–40 Hz at 1000 Hz then at 250 Hz → the second request is
    answered with the first one's design (fractions of Nyquist 10/1000 instead of 10/250).
* `no_rate_right_at_one_rate`       the rate-less key is right as long as all requests share one rate (why one-rate suites never see it).
* `analyzer_modules_keep_no_process_state`  GENERATED: no function of nitime/analysis/*.py writes a module-level name, none carries a
    caching decorator (`codeVouched`) — today's code designs per call (`run` without memo = `map design`).
Concat (runs of different dtypes):
* `round_widen`                     a sample representable in dtype d is representable in every wider dtype.
* `stored_le_join`, `concat_promote_is_append`  np.concatenate (block of the joined dtype) of stored runs = the runs' samples appended,
    for EVERY list of runs and every combination of dtypes.
* `concat_first_counterexample`     block typed like the first run: int16 run then float64 run → 2.5 comes back as 2; real then complex
    → imaginary part dropped.  `concat_first_right_when_first_widest`.
* `concat_builder_pinned`           GENERATED: `concatenate_time_series` hands `np.concatenate(data,-1)` to the constructor and mentions no
    dtype / casting / allocation.
-/
import Nitime.Model.C15Cross

namespace Nitime.C15.Props

open Nitime.C15.Cross

section memo
variable {A K V : Type} [DecidableEq K] (key : A → K) (design : A → V)

theorem call_sound (hkey : ∀ a b, key a = key b → design a = design b) (m : List (K × V)) (hm : Sound key design m) (a : A) :
    (call key design m a).1 = design a ∧ Sound key design (call key design m a).2 := by
  unfold call
  cases h : lookup (key a) m with
  | some v => exact ⟨(hm _ _ h a rfl).symm, hm⟩
  | none =>
    refine ⟨rfl, ?_⟩
    intro k v hl b hb
    simp only [lookup] at hl
    split at hl
    · rename_i hk
      cases hl
      exact hkey b a (hb.trans hk.symm)
    · exact hm k v hl b hb

theorem run_faithful (hkey : ∀ a b, key a = key b → design a = design b) :
    ∀ (as : List A) (m : List (K × V)), Sound key design m → run key design m as = as.map design
  | [], _, _ => rfl
  | a :: as, m, hm => by
    have h := call_sound key design hkey m hm a
    simp only [run, List.map_cons, h.1, run_faithful hkey as _ h.2]

theorem sound_nil : Sound key design ([] : List (K × V)) := by
  intro k v h; simp [lookup] at h

end memo

theorem fir_full_key_faithful (reqs : List FirArgs) : run keyFull firDesign [] reqs = reqs.map firDesign := by
  apply run_faithful
  · intro a b h
    cases a; cases b
    simp only [keyFull, Prod.mk.injEq] at h
    obtain ⟨h1, h2, h3, h4, h5⟩ := h
    subst h1 h2 h3 h4 h5
    rfl
  · exact sound_nil _ _

/-- band 5–40 Hz, 65 taps, first on a 1000 Hz series then on a 250 Hz series -/
theorem fir_key_without_rate_counterexample :
    run keyNoRate firDesign [] [⟨65, 5000, 40000, 0, 1000000⟩, ⟨65, 5000, 40000, 0, 250000⟩]
      ≠ [⟨65, 5000, 40000, 0, 1000000⟩, ⟨65, 5000, 40000, 0, 250000⟩].map firDesign
    ∧ provenance [⟨65, 5000, 40000, 0, 1000000⟩, ⟨65, 5000, 40000, 0, 250000⟩]
        (run keyNoRate firDesign [] [⟨65, 5000, 40000, 0, 1000000⟩, ⟨65, 5000, 40000, 0, 250000⟩]) = [0, 0] := by
  decide

theorem no_rate_right_at_one_rate (rate : Nat) (reqs : List FirArgs) (h : ∀ r ∈ reqs, r.rate = rate) :
    run keyNoRate (fun a => firDesign { a with rate := rate }) [] reqs = reqs.map firDesign := by
  rw [run_faithful]
  · apply List.map_congr_left
    intro a ha
    rw [← h a ha]
  · intro a b hk
    cases a; cases b
    simp only [keyNoRate, Prod.mk.injEq] at hk
    obtain ⟨h1, h2, h3, h4⟩ := hk
    subst h1 h2 h3 h4
    rfl
  · exact sound_nil _ _

theorem analyzer_modules_keep_no_process_state :
    Nitime.Generated.ModuleState.moduleWrites = [] ∧ Nitime.Generated.ModuleState.cacheDecorators = [] ∧ codeVouched = true := by
  decide

example : run keyFull firDesign [] [⟨9, 1, 2, 0, 10⟩, ⟨9, 1, 2, 0, 20⟩] = [(9, 0, (2, 10), (4, 10)), (9, 0, (2, 20), (4, 20))] := by decide

/-! ## runs of different dtypes -/

theorem round_widen (d d' : DT) (v : Val) (hle : d.rank ≤ d'.rank) (h : round d v = v) : round d' v = v := by
  obtain ⟨re, im⟩ := v
  cases d <;> cases d' <;> simp only [DT.rank] at hle <;> simp only [round, Prod.mk.injEq] at h ⊢ <;> first | omega | trivial | (constructor <;> first | omega | trivial)

theorem rank_le_join_left (a b : DT) : a.rank ≤ (DT.join a b).rank := by
  unfold DT.join; split <;> omega

theorem rank_le_join_right (a b : DT) : b.rank ≤ (DT.join a b).rank := by
  unfold DT.join; split <;> omega

theorem stored_le_join : ∀ (runs : List Run), (∀ r ∈ runs, Stored r) → ∀ v ∈ append runs, round (joinAll runs) v = v
  | [], _, v, hv => by simp [append] at hv
  | r :: rs, hs, v, hv => by
    simp only [append, List.flatMap_cons, List.mem_append] at hv
    simp only [joinAll]
    rcases hv with hv | hv
    · exact round_widen r.1 _ v (rank_le_join_left _ _) (hs r (List.mem_cons_self ..) v hv)
    · have := stored_le_join rs (fun r' hr' => hs r' (List.mem_cons_of_mem _ hr')) v hv
      exact round_widen (joinAll rs) _ v (rank_le_join_right _ _) this

/-- np.concatenate of stored runs of ANY dtypes = the samples of the runs appended in time -/
theorem concat_promote_is_append (runs : List Run) (hs : ∀ r ∈ runs, Stored r) : (concatPromote runs).2 = append runs := by
  simp only [concatPromote]
  conv => rhs; rw [← List.map_id (append runs)]
  apply List.map_congr_left
  intro v hv
  exact stored_le_join runs hs v hv

/-- int16 run [1, 2] then float64 run [2.5]; float64 run then complex run -/
theorem concat_first_counterexample :
    (concatFirst [(.i16, [(256, 0), (512, 0)]), (.f64, [(640, 0)])]).2 = [(256, 0), (512, 0), (512, 0)]
    ∧ (concatPromote [(.i16, [(256, 0), (512, 0)]), (.f64, [(640, 0)])]).2 = [(256, 0), (512, 0), (640, 0)]
    ∧ (concatFirst [(.f64, [(3, 0)]), (.c128, [(5, 7)])]).2 = [(3, 0), (5, 0)]
    ∧ (concatFirst [(.f32, [(16, 0)]), (.f64, [(17, 0)])]).2 = [(16, 0), (16, 0)] := by
  decide

theorem concat_first_right_when_first_widest (r : Run) (rs : List Run) (hs : ∀ x ∈ r :: rs, Stored x)
    (hw : joinAll (r :: rs) = r.1) : (concatFirst (r :: rs)).2 = append (r :: rs) := by
  have := concat_promote_is_append (r :: rs) hs
  simp only [concatPromote, hw] at this
  simpa only [concatFirst] using this

theorem concat_builder_pinned :
    Nitime.Generated.ModuleState.concatBuilder = ["np.concatenate(data,-1)"] ∧ Nitime.Generated.ModuleState.concatDtypeMentions = []
      ∧ concatVouched = true := by
  decide

end Nitime.C15.Props
