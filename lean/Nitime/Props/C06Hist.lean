/-
C06 (session 3) — the precomputed-transform branch `periodogram_csd(s, Sk=Sk, normalize=…)` (`periodogramCsdSk`,
`Nitime/Model/C04.lean`): for ANY supplied transform the returned matrix is a rank-one Gram kernel of the rows of `Sk`,
hence Hermitian, positive semidefinite, with the real diagonal `periodogram(s[i], Sk=Sk[i])`, and an entry depends only
on the two rows; along every history of uses of one `Sk` each matrix is the one a fresh call returns
(`Props/C04Hist.lean: skRun_eq_map`, which rests on the write-sets generated from the source).
-/
import Nitime.Props.C06
import Nitime.Props.C04Hist

namespace Nitime.C06.Props
open Finset Nitime.Num Nitime.Spectral Nitime.C04 Nitime.C06 Nitime.Gram Nitime.Generated.SpecIdx
open Nitime.C04.Props
open scoped ComplexOrder

variable {N : ℕ}

/-- the factor at bin `k`: `normalize=True` divides by `Fs·n`, `normalize=False` does not -/
noncomputable def pcCn (Fs : ℝ) (n N : ℕ) (os nm : Bool) (k : ℕ) : ℝ :=
  if nm then pcC Fs n N os k else pcC 1 1 N os k

theorem pcCn_nonneg {Fs : ℝ} (hFs : 0 < Fs) (n : ℕ) (os nm : Bool) (k : ℕ) : 0 ≤ pcCn Fs n N os nm k := by
  unfold pcCn; split_ifs
  · exact pcC_nonneg hFs n os k
  · exact pcC_nonneg one_pos 1 os k

theorem periodogramCsdOf_is_gram (Fs : ℝ) (n : ℕ) (os : Bool) (S : ℕ → ℕ → ℂ) (i j k : ℕ) :
    periodogramCsdOf Fs n N os S i j k = gramK (pcC Fs n N os k) 1 (fun i _ => S i k) i j := by
  unfold periodogramCsdOf
  refine completeHermitian_of_gram _ (pcC Fs n N os) 1 (fun k i _ => S i k) ?_ i j k
  intro i j k
  unfold gramK pcC csdPair csdPairOne
  simp only [Finset.sum_range_one, kscale_eq, conj_complex, ofNat_real, zero_complex,
    periodogram_csd_Fl, periodogram_csd_Fn, Nat.cast_ofNat, Nat.cast_one]
  by_cases hos : os = true
  · simp only [hos, if_true]
    by_cases h0 : k = 0
    · subst h0; simp
    · by_cases h1 : k < (N + 1) / 2
      · simp only [if_neg h0, if_pos h1]; push_cast; ring
      · by_cases h2 : (N + 1) / 2 < N / 2 + 1 ∧ k = N / 2 + 1 - 1
        · simp only [if_neg h0, if_neg h1, if_pos h2]
        · simp only [if_neg h0, if_neg h1, if_neg h2]; simp
  · simp only [hos]; simp

theorem periodogramCsdRaw_is_gram (os : Bool) (S : ℕ → ℕ → ℂ) (i j k : ℕ) :
    periodogramCsdRaw N os S i j k = gramK (pcC 1 1 N os k) 1 (fun i _ => S i k) i j := by
  unfold periodogramCsdRaw
  refine completeHermitian_of_gram _ (pcC 1 1 N os) 1 (fun k i _ => S i k) ?_ i j k
  intro i j k
  unfold gramK pcC csdPair csdPairOne
  simp only [Finset.sum_range_one, kscale_eq, conj_complex, ofNat_real, zero_complex,
    periodogram_csd_Fl, periodogram_csd_Fn, Nat.cast_ofNat, Nat.cast_one]
  by_cases hos : os = true
  · simp only [hos, if_true]
    by_cases h0 : k = 0
    · subst h0; simp
    · by_cases h1 : k < (N + 1) / 2
      · simp only [if_neg h0, if_pos h1]; push_cast; ring
      · by_cases h2 : (N + 1) / 2 < N / 2 + 1 ∧ k = N / 2 + 1 - 1
        · simp only [if_neg h0, if_neg h1, if_pos h2]; simp
        · simp only [if_neg h0, if_neg h1, if_neg h2]; simp
  · simp only [hos]; simp

/-- `completed_is_gram` for the `Sk=` branch: a rank-one Gram kernel of the rows of the SUPPLIED transform -/
theorem periodogramCsdSk_is_gram (Fs : ℝ) (n : ℕ) (os nm : Bool) (Sk : ℕ → ℕ → ℂ) (i j k : ℕ) :
    periodogramCsdSk Fs n N os nm Sk i j k = gramK (pcCn Fs n N os nm k) 1 (fun i _ => Sk i k) i j := by
  unfold periodogramCsdSk pcCn
  cases nm
  · simp only [Bool.false_eq_true, if_false]; exact periodogramCsdRaw_is_gram os Sk i j k
  · simp only [if_true]; exact periodogramCsdOf_is_gram Fs n os Sk i j k

theorem periodogramCsdSk_hermitian (Fs : ℝ) (n : ℕ) (os nm : Bool) (Sk : ℕ → ℕ → ℂ) (i j k : ℕ) :
    periodogramCsdSk Fs n N os nm Sk j i k = (starRingEnd ℂ) (periodogramCsdSk Fs n N os nm Sk i j k) := by
  rw [periodogramCsdSk_is_gram, periodogramCsdSk_is_gram, gramK_hermitian]

theorem periodogramCsdSk_posSemidef {Fs : ℝ} (hFs : 0 < Fs) (n : ℕ) (os nm : Bool) (Sk : ℕ → ℕ → ℂ) (k M : ℕ) :
    (Matrix.of fun (i j : Fin M) => periodogramCsdSk Fs n N os nm Sk i j k).PosSemidef := by
  simp only [periodogramCsdSk_is_gram]
  exact gramK_posSemidef (pcCn_nonneg hFs n os nm k) 1 _ M

/-- a call on a subset / permutation / repetition `Sk[σ]` of the rows returns the corresponding entries -/
theorem periodogramCsdSk_reindex (Fs : ℝ) (n : ℕ) (os nm : Bool) (Sk : ℕ → ℕ → ℂ) (σ : ℕ → ℕ) (i j k : ℕ) :
    periodogramCsdSk Fs n N os nm (fun i => Sk (σ i)) i j k = periodogramCsdSk Fs n N os nm Sk (σ i) (σ j) k := by
  rw [periodogramCsdSk_is_gram, periodogramCsdSk_is_gram]
  exact gramK_congr _ _ (fun t _ => rfl) (fun t _ => rfl)

/-- the diagonal is `periodogram(s[i], Sk=Sk[i])` with the same `sides` / `normalize` -/
theorem periodogramCsdSk_diag (Fs : ℝ) (n : ℕ) (os nm : Bool) (Sk : ℕ → ℕ → ℂ) (i k : ℕ) :
    periodogramCsdSk Fs n N os nm Sk i i k = ((periodogramSk Fs n N os nm (Sk i) k : ℝ) : ℂ) := by
  rw [periodogramCsdSk_is_gram, gramK_diag]
  congr 1
  unfold pcCn pcC periodogramSk periodogramOf periodogramRaw pgOne
  simp only [Finset.sum_range_one, sqmag_eq, ofNat_real, Fl, Fn, periodogram_Fl, periodogram_Fn,
    Nat.cast_ofNat, Nat.cast_zero, Nat.cast_one]
  cases nm <;> by_cases hos : os = true
  · simp only [hos, if_true, Bool.false_eq_true, if_false]
    by_cases h0 : k = 0
    · subst h0; simp
    · simp only [h0, if_false]
      split_ifs <;> ring
  · simp only [hos, if_false, Bool.false_eq_true]; norm_num
  · simp only [hos, if_true]
    by_cases h0 : k = 0
    · subst h0; simp only [if_true]; ring
    · simp only [h0, if_false]
      split_ifs <;> ring
  · simp only [hos, if_false, if_true]; norm_num; ring

/-- the matrix obtained from `periodogram_csd(Sk=…)` after ANY history of uses of the same transform is the matrix a
fresh call returns (list form, as the driver prints it) -/
theorem csd_after_history_eq_fresh (Fs : ℝ) (n M : ℕ) (cplx : Bool) (Sk : ℕ → ℕ → ℂ) (h : List SkCall)
    (sides : String) (nm : Bool) :
    (skRun Fs n N M cplx Sk (h ++ [.csd sides nm])).getLast?
      = some (periodogramCsdSkList Fs n N M (onesidedOf sides cplx) nm Sk) := by
  rw [sk_use_after_history]; rfl

example (Sk : ℕ → ℕ → ℂ) (k : ℕ) :
    (Matrix.of fun (i j : Fin 3) => periodogramCsdSk (2 : ℝ) 5 7 true true Sk i j k).PosSemidef :=
  periodogramCsdSk_posSemidef two_pos 5 true true Sk k 3

end Nitime.C06.Props
