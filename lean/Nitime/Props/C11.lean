/-
C11 — property theorems (the multichannel LWR recursion solves the block Yule–Walker system).

`lwr`, `lwrLoop`, `lwrStep`, `foldAdd` are the definitions of `Nitime/Model/C11.lean`, written over
`MatOps M`; here they are instantiated at an arbitrary star ring `M` with a chosen `inv`
(`ringOps inv`; for `M = Matrix (Fin n) (Fin n) ℂ`, `inv = (·)⁻¹` these are complex square
matrices with conjugate transpose) while the driver runs the same definitions on lists of rows of
complex binary64 with a Gauss–Jordan inverse.  `lwrLoop_spec` shows the model's loop state
(coefficient lists `a`, `b`, `sigf`, `sigb`) is the state of the abstract recursion `LWR.lwr`
proved correct in `Lemmas/BlockLevinson.lean` (`LWR.step_inv`, `LWR.lwr_solves`).

Positive-definiteness of the returned covariance and the existence of every inverse the code takes
are PROVED for all orders from positive-definiteness of the block-Toeplitz covariance matrix
(`lwr_sigma_posDef`, `invOK_of_toeplitzPD`, `toeplitzPD_of_full`).
The driver's Gauss–Jordan `inv` is proved to return a two-sided inverse whenever it returns
(`gjInv_contract`).  The driver's list-of-rows matrix operations (`Model/SqMatK.lean`, `GSq K n`) are
proved to be the `Matrix (Fin n) (Fin n) ℂ` operations on well-shaped inputs, one lemma per operation
(`Lemmas/SqMatBridge.lean`, collected in `gsq_matHom`), so that the recursion run on lists of rows at
`K = ℂ` IS the matrix recursion (`lwrLoop_concrete`) and `lwr_solves` specialises to the executable
text (`lwr_solves_concrete`, with the checkable hypothesis "every elimination succeeds").
`analyzer_retarget_model`: a `GrangerAnalyzer` re-targeted with `set_input` reports the fit of the
input it currently holds, for every history.  Not proved: Float ≈ ℂ.
-/
import Nitime.Model.C11
import Nitime.Lemmas.BlockLevinson
import Nitime.Lemmas.LWRPosDef
import Nitime.Lemmas.GaussJordan
import Mathlib.LinearAlgebra.Matrix.Reindex
import Nitime.Lemmas.ARInst
import Nitime.Props.C10
import Mathlib.LinearAlgebra.Matrix.NonsingularInverse
import Mathlib.LinearAlgebra.Matrix.PosDef
import Nitime.Lemmas.SqMatBridge
import Nitime.Lemmas.LWRTransport
import Nitime.Lemmas.GrangerObj
import Mathlib.Data.Rat.Defs
import Mathlib.Tactic.NormNum

open Finset
open Nitime.AR Nitime.C11

namespace Nitime.C11.Props

section bridge
variable {M : Type} [Ring M] [StarRing M]

/-- the `MatOps` structure of a star ring with a chosen `inv` (for complex square matrices:
`+ - ·`, conjugate transpose, `inv`) -/
@[reducible] def ringOps (inv : M → M) : MatOps M :=
  { add := (· + ·), sub := (· - ·), mul := (· * ·), neg := fun x => -x, star := star, inv := inv,
    one := 1, zero := 0 }

/-- the covariance sequence extended to negative lags: `R(-m) = R(m)ᴴ` -/
def Rext (r : ℕ → M) (m : ℤ) : M := if 0 ≤ m then r m.toNat else star (r (-m).toNat)

lemma Rext_nat (r : ℕ → M) (n : ℕ) : Rext r (n : ℤ) = r n := by simp [Rext]

lemma Rext_neg_nat (r : ℕ → M) (h0 : star (r 0) = r 0) (n : ℕ) : Rext r (-(n : ℤ)) = star (r n) := by
  cases n with
  | zero => simp [Rext, h0]
  | succ n =>
    have : ¬ (0 : ℤ) ≤ -((n + 1 : ℕ) : ℤ) := by push_cast; omega
    simp only [Rext, if_neg this, neg_neg, Int.toNat_natCast]

lemma Rext_star (r : ℕ → M) (h0 : star (r 0) = r 0) (m : ℤ) : star (Rext r m) = Rext r (-m) := by
  obtain ⟨n, rfl | rfl⟩ := m.eq_nat_or_neg
  · rw [Rext_nat, Rext_neg_nat r h0]
  · rw [Rext_neg_nat r h0, neg_neg, Rext_nat, star_star]

variable (inv : M → M) (r : ℕ → M)

@[simp] lemma ro_add (a b : M) : @MatOps.add M (ringOps inv) a b = a + b := rfl
@[simp] lemma ro_sub (a b : M) : @MatOps.sub M (ringOps inv) a b = a - b := rfl
@[simp] lemma ro_mul (a b : M) : @MatOps.mul M (ringOps inv) a b = a * b := rfl
@[simp] lemma ro_neg (a : M) : @MatOps.neg M (ringOps inv) a = -a := rfl
@[simp] lemma ro_star (a : M) : @MatOps.star M (ringOps inv) a = star a := rfl
@[simp] lemma ro_inv (a : M) : @MatOps.inv M (ringOps inv) a = inv a := rfl
@[simp] lemma ro_one : @MatOps.one M (ringOps inv) = 1 := rfl
@[simp] lemma ro_zero : @MatOps.zero M (ringOps inv) = 0 := rfl
lemma Rext_zero : Rext r 0 = r 0 := by simp [Rext]

lemma foldAdd_eq (x0 : M) (n : ℕ) (f : ℕ → M) :
    @foldAdd M (ringOps inv) x0 n f = x0 + ∑ i ∈ range n, f i := by
  unfold foldAdd
  induction n with
  | zero => simp
  | succ n ih =>
    rw [List.range_succ, List.foldl_append, ih, Finset.sum_range_succ]
    simp [add_assoc]

/-- structural facts of the abstract recursion (no invertibility needed) -/
lemma lwr_struct (R : ℤ → M) (p : ℕ) :
    (LWR.lwr R inv p).A 0 = 1 ∧ (LWR.lwr R inv p).B 0 = 1 ∧
    (∀ i, p < i → (LWR.lwr R inv p).A i = 0) ∧ (∀ i, p < i → (LWR.lwr R inv p).B i = 0) := by
  induction p with
  | zero =>
    refine ⟨by simp [LWR.lwr, LWR.init], by simp [LWR.lwr, LWR.init], ?_, ?_⟩ <;>
    · intro i hi
      have : i ≠ 0 := by omega
      simp [LWR.lwr, LWR.init, this]
  | succ p ih =>
    obtain ⟨hA0, hB0, hAz, hBz⟩ := ih
    refine ⟨?_, ?_, ?_, ?_⟩
    · simp [LWR.lwr, LWR.step, hA0, hBz (p + 1) (by omega)]
    · simp [LWR.lwr, LWR.step, hB0, hAz (p + 1) (by omega)]
    · intro i hi
      have : ¬ i ≤ p + 1 := by omega
      simp [LWR.lwr, LWR.step, this]
    · intro i hi
      have : ¬ i ≤ p + 1 := by omega
      simp [LWR.lwr, LWR.step, this]

/-- bridge: the model's loop state (coefficient lists, two covariances) is the state of the
abstract recursion `LWR.lwr` of `Lemmas/BlockLevinson.lean` -/
theorem lwrLoop_spec (p : ℕ) :
    (@lwrLoop M (ringOps inv) r p).a.length = p ∧ (@lwrLoop M (ringOps inv) r p).b.length = p ∧
    (∀ i, i < p → (@lwrLoop M (ringOps inv) r p).a.getD i 0 = (LWR.lwr (Rext r) inv p).A (i + 1)) ∧
    (∀ i, i < p → (@lwrLoop M (ringOps inv) r p).b.getD i 0 = (LWR.lwr (Rext r) inv p).B (i + 1)) ∧
    (@lwrLoop M (ringOps inv) r p).sigf = (LWR.lwr (Rext r) inv p).sf ∧
    (@lwrLoop M (ringOps inv) r p).sigb = (LWR.lwr (Rext r) inv p).sb := by
  induction p with
  | zero =>
    refine ⟨rfl, rfl, fun i hi => by omega, fun i hi => by omega, ?_, ?_⟩ <;>
    simp [lwrLoop, LWR.lwr, LWR.init, Rext_zero]
  | succ p ih =>
    obtain ⟨hla, hlb, ha, hb, hsf, hsb⟩ := ih
    obtain ⟨hA0, hB0, hAz, hBz⟩ := lwr_struct inv (Rext r) p
    set s := @lwrLoop M (ringOps inv) r p with hs
    set t := LWR.lwr (Rext r) inv p with ht
    -- delta
    have hdelta : @foldAdd M (ringOps inv) (r (p + 1)) p (fun i => s.a.getD i 0 * r (p - i))
        = LWR.deltaF (Rext r) p t := by
      rw [foldAdd_eq, LWR.deltaF, Finset.sum_range_succ', hA0, one_mul, add_comm]
      have e0 : Rext r ((p : ℤ) + 1 - ((0 : ℕ) : ℤ)) = r (p + 1) := by
        have : ((p : ℤ) + 1 - ((0 : ℕ) : ℤ)) = ((p + 1 : ℕ) : ℤ) := by push_cast; ring
        rw [this, Rext_nat]
      rw [e0]
      congr 1
      refine sum_congr rfl fun i hi => ?_
      simp only [mem_range] at hi
      rw [ha i hi]
      congr 1
      have : ((p : ℤ) + 1 - ((i + 1 : ℕ) : ℤ)) = ((p - i : ℕ) : ℤ) := by
        push_cast [Nat.cast_sub hi.le]; ring
      rw [this, Rext_nat]
    have hstep : @lwrLoop M (ringOps inv) r (p + 1) = @lwrStep M (ringOps inv) r p s := rfl
    have htstep : LWR.lwr (Rext r) inv (p + 1) = LWR.step (Rext r) p t (inv t.sf) (inv t.sb) := rfl
    rw [hstep, htstep]
    have hka : (@foldAdd M (ringOps inv) (r (p + 1)) p (fun i => s.a.getD i 0 * r (p - i))) * inv s.sigb
        = LWR.deltaF (Rext r) p t * inv t.sb := by rw [hdelta, hsb]
    have hkb : star (@foldAdd M (ringOps inv) (r (p + 1)) p (fun i => s.a.getD i 0 * r (p - i))) * inv s.sigf
        = star (LWR.deltaF (Rext r) p t) * inv t.sf := by rw [hdelta, hsf]
    refine ⟨?_, ?_, ?_, ?_, ?_, ?_⟩
    · simp [lwrStep]
    · simp [lwrStep]
    · intro i hi
      by_cases hlt : i < p
      · have h1 : (@lwrStep M (ringOps inv) r p s).a.getD i 0
            = s.a.getD i 0 - (@foldAdd M (ringOps inv) (r (p + 1)) p (fun i => s.a.getD i 0 * r (p - i)) * inv s.sigb)
                * s.b.getD (p - 1 - i) 0 := by
          simp [lwrStep, List.getD_eq_getElem?_getD, List.getElem?_append, hlt]
        rw [h1, hka, ha i hlt, hb (p - 1 - i) (by omega)]
        have e : p - 1 - i + 1 = p + 1 - (i + 1) := by omega
        have hle : i + 1 ≤ p + 1 := by omega
        simp only [LWR.step, hle, if_true, e]
      · have hi' : i = p := by omega
        subst hi'
        have h1 : (@lwrStep M (ringOps inv) r i s).a.getD i 0
            = -(@foldAdd M (ringOps inv) (r (i + 1)) i (fun j => s.a.getD j 0 * r (i - j)) * inv s.sigb) := by
          simp [lwrStep, List.getD_eq_getElem?_getD, List.getElem?_append, hla]
        rw [h1, hka]
        simp [LWR.step, hAz (i + 1) (by omega), hB0]
    · intro i hi
      by_cases hlt : i < p
      · have h1 : (@lwrStep M (ringOps inv) r p s).b.getD i 0
            = s.b.getD i 0 - (star (@foldAdd M (ringOps inv) (r (p + 1)) p (fun i => s.a.getD i 0 * r (p - i))) * inv s.sigf)
                * s.a.getD (p - 1 - i) 0 := by
          simp [lwrStep, List.getD_eq_getElem?_getD, List.getElem?_append, hlt]
        rw [h1, hkb, hb i hlt, ha (p - 1 - i) (by omega)]
        have e : p - 1 - i + 1 = p + 1 - (i + 1) := by omega
        have hle : i + 1 ≤ p + 1 := by omega
        simp only [LWR.step, hle, if_true, e]
      · have hi' : i = p := by omega
        subst hi'
        have h1 : (@lwrStep M (ringOps inv) r i s).b.getD i 0
            = -(star (@foldAdd M (ringOps inv) (r (i + 1)) i (fun j => s.a.getD j 0 * r (i - j))) * inv s.sigf) := by
          simp [lwrStep, List.getD_eq_getElem?_getD, List.getElem?_append, hlb]
        rw [h1, hkb]
        simp [LWR.step, hBz (i + 1) (by omega), hA0]
    · simp only [lwrStep, ro_sub, ro_mul, ro_one, ro_star, ro_inv, ro_zero]
      rw [hka, hkb, hsf]; rfl
    · simp only [lwrStep, ro_sub, ro_mul, ro_one, ro_star, ro_inv, ro_zero]
      rw [hka, hkb, hsb]; rfl

/-- every covariance `lwr_recursion` inverts in its first `P` passes gets a left inverse from `inv`
(contract of `linalg.inv`; this is what positive-definiteness of the sequence is for) -/
def InvOK (P : ℕ) : Prop :=
  ∀ j, j < P →
    inv (@lwrLoop M (ringOps inv) r j).sigf * (@lwrLoop M (ringOps inv) r j).sigf = 1 ∧
    inv (@lwrLoop M (ringOps inv) r j).sigb * (@lwrLoop M (ringOps inv) r j).sigb = 1

/-- `A(0) = I`, `A(i) = a[i-1]` -/
def coefA (l : List M) (i : ℕ) : M := if i = 0 then 1 else l.getD (i - 1) 0

/-- the number of coefficient matrices returned is the number of lags minus one -/
theorem lwr_length (P : ℕ) : (@lwr M (ringOps inv) r P).1.length = P :=
  (lwrLoop_spec inv r P).1

lemma coefA_eq (P : ℕ) (i : ℕ) (hi : i ≤ P) :
    coefA (@lwr M (ringOps inv) r P).1 i = (LWR.lwr (Rext r) inv P).A i := by
  obtain ⟨_, _, ha, _, _, _⟩ := lwrLoop_spec inv r P
  obtain ⟨hA0, _, _, _⟩ := lwr_struct inv (Rext r) P
  unfold coefA lwr
  by_cases h : i = 0
  · subst h; simp [hA0]
  · rw [if_neg h, ha (i - 1) (by omega)]
    congr 1; omega

/-- **C11 block Yule–Walker.** The coefficient matrices returned by the model of
`lwr_recursion` satisfy `Σ_{i=0..P} A(i)·R(k−i) = 0` for `k = 1..P` with `A(0) = I`,
`R(−m) = R(m)ᴴ`, and the returned covariance is `Σ_i A(i)·R(−i)`. -/
theorem lwr_solves (h0 : star (r 0) = r 0) (P : ℕ) (hinv : InvOK inv r P) :
    (∀ k : ℕ, 1 ≤ k → k ≤ P →
      ∑ i ∈ range (P + 1), coefA (@lwr M (ringOps inv) r P).1 i * Rext r ((k : ℤ) - i) = 0) ∧
    (@lwr M (ringOps inv) r P).2
      = ∑ i ∈ range (P + 1), coefA (@lwr M (ringOps inv) r P).1 i * Rext r (-(i : ℤ)) := by
  have hI : LWR.Inv (Rext r) P (LWR.lwr (Rext r) inv P) := by
    apply LWR.lwr_solves (Rext_star r h0) inv P
    intro j hj
    obtain ⟨_, _, _, _, hsf, hsb⟩ := lwrLoop_spec inv r j
    rw [← hsf, ← hsb]
    exact hinv j hj
  constructor
  · intro k hk1 hkP
    rw [← hI.F k hk1 hkP]
    refine sum_congr rfl fun i hi => ?_
    simp only [mem_range] at hi
    rw [coefA_eq inv r P i (by omega)]
  · have : (@lwr M (ringOps inv) r P).2 = (LWR.lwr (Rext r) inv P).sf := (lwrLoop_spec inv r P).2.2.2.2.1
    rw [this, hI.SF]
    refine sum_congr rfl fun i hi => ?_
    simp only [mem_range] at hi
    rw [coefA_eq inv r P i (by omega)]

/-- **C11 MAR_est_LWR.** `MAR_est_LWR(x, order=P)` returns `P` coefficient matrices; by
`lwr_solves` (with `P` for the order) they solve the order-`P` block system. -/
theorem marEst_order (order : ℕ) :
    (@marEstLWR M (ringOps inv) r order).1.length = order := by
  simp [marEstLWR, marLags, Nitime.Generated.FitModel.marNlags, lwr_length]

theorem marEst_is_lwr (order : ℕ) :
    @marEstLWR M (ringOps inv) r order = @lwr M (ringOps inv) r order := by
  simp [marEstLWR, marLags, Nitime.Generated.FitModel.marNlags]

end bridge

/-! ### covariance helper -/
section cov
open ComplexConjugate

/-- **C11 covariance helper.** `crosscov_vector(x, y)[i,j,k] = (1/(N−k))·Σ_{t<N−k} x_i[t+k]·conj y_j[t]` -/
theorem crosscov_is_lagged_average (x y : ℕ → ℕ → ℂ) (N i j k : ℕ) :
    crosscovEntry x y N i j k
      = (∑ t ∈ range (N - k), x i (t + k) * conj (y j t)) / ((N - k : ℕ) : ℂ) := by
  simp [crosscovEntry, sumRange_eq]

/-- the lag-0 autocovariance matrix is Hermitian (hypothesis `h0` of `lwr_solves`) -/
theorem autocov_zero_hermitian (x : ℕ → ℕ → ℂ) (N i j : ℕ) :
    conj (crosscovEntry x x N j i 0) = crosscovEntry x x N i j 0 := by
  rw [crosscov_is_lagged_average, crosscov_is_lagged_average, map_div₀, map_sum, Complex.conj_natCast]
  congr 1
  refine sum_congr rfl fun t _ => ?_
  simp [mul_comm]

/-- the model's embedding of an integer sample is the integer itself (exact, no rounding) -/
theorem ofIntK_eq (z : ℤ) : (ofIntK z : ℂ) = (z : ℂ) := by
  unfold ofIntK
  split_ifs with h
  · rw [sc_ofNat]
    exact_mod_cast congrArg (Int.cast (R := ℂ)) (Int.toNat_of_nonneg h)
  · rw [sc_neg, sc_ofNat]
    have h' : 0 ≤ -z := by omega
    have := congrArg (Int.cast (R := ℂ)) (Int.toNat_of_nonneg h')
    push_cast at this
    rw [this]; ring

/-- **C11 covariance helper on integer-typed recordings** (int16 / int32 / int64 / uint8 data):
entry `[i,j,k]` is the EXACT rational lagged average `(Σ_{t<N−k} x_i[t+k]·y_j[t]) / (N−k)` of the
integer samples — the integer sum of products divided in the field, nothing truncated. -/
theorem crosscov_int_is_lagged_average (xi yi : ℕ → ℕ → ℤ) (N i j k : ℕ) :
    (crosscovEntryInt xi yi N i j k : ℂ)
      = ((∑ t ∈ range (N - k), xi i (t + k) * yi j t : ℤ) : ℂ) / ((N - k : ℕ) : ℂ) := by
  unfold crosscovEntryInt
  rw [crosscov_is_lagged_average]
  congr 1
  push_cast
  refine sum_congr rfl fun t _ => ?_
  rw [ofIntK_eq, ofIntK_eq]
  simp

/-- counter-model (seeded change C11-8): the output array allocated with
`dtype=np.result_type(x, y)`; for integer recordings the assignment `rxy[..., k] = prod.mean(-1)`
then truncates the lagged average toward zero -/
def crosscovEntryIntTrunc (xi yi : ℕ → ℕ → ℤ) (N i j k : ℕ) : ℤ :=
  (∑ t ∈ range (N - k), xi i (t + k) * yi j t).tdiv ((N - k : ℕ) : ℤ)

/-- an integer-typed output array does NOT hold the lagged average: one channel, samples `1, 2`,
lag 0: the average is `5/2`, the truncated entry is `2`. -/
theorem crosscov_int_output_counterexample :
    ∃ (xi : ℕ → ℕ → ℤ) (N : ℕ),
      ((crosscovEntryIntTrunc xi xi N 0 0 0 : ℤ) : ℂ) ≠ (crosscovEntryInt xi xi N 0 0 0 : ℂ) := by
  refine ⟨fun _ t => if t = 0 then 1 else 2, 2, ?_⟩
  rw [crosscov_int_is_lagged_average]
  have h1 : crosscovEntryIntTrunc (fun _ t => if t = 0 then (1 : ℤ) else 2) (fun _ t => if t = 0 then 1 else 2) 2 0 0 0 = 2 := by
    decide
  have h2 : (∑ t ∈ range (2 - 0), (fun (_ : ℕ) (t : ℕ) => if t = 0 then (1 : ℤ) else 2) 0 (t + 0)
      * (fun (_ : ℕ) (t : ℕ) => if t = 0 then (1 : ℤ) else 2) 0 t) = 5 := by decide
  rw [h1, h2]
  norm_num

/-- non-vacuity of `crosscov_int_is_lagged_average`: samples `1, 2` average to `5/2` -/
example : (crosscovEntryInt (fun _ t => if t = 0 then (1 : ℤ) else 2) (fun _ t => if t = 0 then 1 else 2) 2 0 0 0 : ℂ)
    = 5 / 2 := by
  rw [crosscov_int_is_lagged_average]
  have h2 : (∑ t ∈ range (2 - 0), (fun (_ : ℕ) (t : ℕ) => if t = 0 then (1 : ℤ) else 2) 0 (t + 0)
      * (fun (_ : ℕ) (t : ℕ) => if t = 0 then (1 : ℤ) else 2) 0 t) = 5 := by decide
  rw [h2]; norm_num

end cov

/-! ### simulator -/
section sim
variable {α β : Type}

lemma recur_snoc (step : List α → β → α) (xs : List β) (x : β) :
    recur step (xs ++ [x]) = recur step xs ++ [step (recur step xs) x] := by
  simp [recur, List.foldl_append]

lemma recur_length (step : List α → β → α) (xs : List β) : (recur step xs).length = xs.length := by
  induction xs using List.reverseRecOn with
  | nil => simp [recur]
  | append_singleton xs x ih => rw [recur_snoc]; simp [ih]

/-- sample `n` of the output is `step` applied to the first `n` output samples and input `n` -/
theorem recur_getD (step : List α → β → α) (xs : List β) (d : α) (dx : β) (n : ℕ) (hn : n < xs.length) :
    (recur step xs).getD n d = step ((recur step xs).take n) (xs.getD n dx) := by
  induction xs using List.reverseRecOn with
  | nil => simp at hn
  | append_singleton xs x ih =>
    rw [recur_snoc]
    have hlen := recur_length step xs
    by_cases hlt : n < xs.length
    · have h1 : (recur step xs ++ [step (recur step xs) x]).getD n d = (recur step xs).getD n d := by
        simp [List.getD_eq_getElem?_getD, List.getElem?_append, hlen, hlt]
      have h2 : (recur step xs ++ [step (recur step xs) x]).take n = (recur step xs).take n := by
        rw [List.take_append_of_le_length (by omega)]
      have h3 : (xs ++ [x]).getD n dx = xs.getD n dx := by
        simp [List.getD_eq_getElem?_getD, List.getElem?_append, hlt]
      rw [h1, h2, h3, ih hlt]
    · have hn' : n = xs.length := by simp at hn; omega
      subst hn'
      have h1 : (recur step xs ++ [step (recur step xs) x]).getD xs.length d = step (recur step xs) x := by
        simp [List.getD_eq_getElem?_getD, List.getElem?_append, hlen]
      have h2 : (recur step xs ++ [step (recur step xs) x]).take xs.length = recur step xs := by
        rw [← hlen, List.take_left']
        rfl
      have h3 : (xs ++ [x]).getD xs.length dx = x := by
        simp [List.getD_eq_getElem?_getD, List.getElem?_append]
      rw [h1, h2, h3]

/-- **C11 simulator.** Output sample `n` of `generate_mar` is
`E(n) − a[0]·X(n−1) − … − a[m−1]·X(n−m)`, `m = min(n, P)`, where `X(·)` are the previous output
samples (`mar.take n`) and `E` the returned noise — applied in the loop's order. -/
theorem generateMar_recursion {V C : Type} (sub : V → V → V) (act : C → V → V) (dflt : V) (cdflt : C)
    (a : List C) (nz : List V) (n : ℕ) (hn : n < nz.length) :
    (generateMar sub act dflt cdflt a nz).getD n dflt
      = (List.range (min n a.length)).foldl
          (fun acc j => sub acc (act (a.getD j cdflt)
            (((generateMar sub act dflt cdflt a nz).take n).getD (n - j - 1) dflt)))
          (nz.getD n dflt) := by
  unfold generateMar
  rw [recur_getD _ _ dflt dflt n hn]
  have hl : (List.take n (recur (fun mar e =>
      (List.range (min mar.length a.length)).foldl
        (fun acc j => sub acc (act (a.getD j cdflt) (mar.getD (mar.length - j - 1) dflt))) e) nz)).length = n := by
    rw [List.length_take, recur_length]; omega
  simp only [hl]

/-- the first `n` samples of the output are the output's samples -/
theorem take_getD (l : List α) (d : α) (n m : ℕ) (hm : m < n) : (l.take n).getD m d = l.getD m d := by
  simp [List.getD_eq_getElem?_getD, List.getElem?_take, hm]

end sim

/-! ### order selection in `fit_model` -/
section fit
variable {α : Type} (gt : α → α → Bool) (c : ℕ → α)

/-- loop invariant of `for lag in range(1, max_order)` after the lags `1..n` -/
def FitInv (n : ℕ) (s : FitSt α) : Prop :=
  (s.broke = false ∧ s.lag = some n ∧ s.cOld = some (c n) ∧
      ∀ l, 2 ≤ l → l ≤ n → gt (c l) (c (l - 1)) = false) ∨
  (s.broke = true ∧ ∃ L, s.lag = some L ∧ 1 ≤ L ∧ L + 1 ≤ n ∧ gt (c (L + 1)) (c L) = true ∧
      ∀ l, 2 ≤ l → l ≤ L → gt (c l) (c (l - 1)) = false)

lemma fit_inv (n : ℕ) : FitInv gt c (n + 1) ((List.range' 1 (n + 1)).foldl (fitPass gt c) ⟨none, none, false⟩) := by
  induction n with
  | zero =>
    left
    refine ⟨rfl, rfl, rfl, ?_⟩
    intro l h2 h1; omega
  | succ n ih =>
    rw [List.range'_1_concat, List.foldl_append]
    simp only [List.foldl_cons, List.foldl_nil]
    rcases ih with ⟨hb, hl, hc, hall⟩ | ⟨hb, L, hl, h1, h2, hg, hall⟩
    · set s := (List.range' 1 (n + 1)).foldl (fitPass gt c) ⟨none, none, false⟩
      have e : 1 + (n + 1) = n + 2 := by omega
      rw [e]
      by_cases hgt : gt (c (n + 2)) (c (n + 1)) = true
      · right
        refine ⟨?_, n + 1, ?_, by omega, by omega, hgt, hall⟩
        · simp [fitPass, hb, hc, hgt]
        · simp [fitPass, hb, hc, hgt, hl]
      · left
        have hgt' : gt (c (n + 2)) (c (n + 1)) = false := by simpa using hgt
        refine ⟨?_, ?_, ?_, ?_⟩
        · simp [fitPass, hb, hc, hgt']
        · simp [fitPass, hb, hc, hgt']
        · simp [fitPass, hb, hc, hgt']
        · intro l h2 hle
          by_cases hlast : l = n + 2
          · subst hlast; simpa using hgt'
          · exact hall l h2 (by omega)
    · right
      refine ⟨?_, L, ?_, h1, by omega, hg, hall⟩
      · simp [fitPass, hb]
      · simp [fitPass, hb, hl]

/-- **C11 order semantics of the criterion loop.** If `fit_model` returns (no `ValueError`) the
values of lag `L`, then `L + 1 < max_order`, the criterion rose at the next lag
(`c(L+1) > c(L)`) and never rose before; the reported order `L − 1` is the number of coefficient
matrices (`lwr_length` with `P = L − 1` lags beyond lag 0). -/
theorem fitModel_order_semantics (maxOrder L : ℕ) (h : fitSelect gt c maxOrder = some L) :
    1 ≤ L ∧ L + 1 < maxOrder ∧ gt (c (L + 1)) (c L) = true ∧
    ∀ l, 2 ≤ l → l ≤ L → gt (c l) (c (l - 1)) = false := by
  unfold fitSelect at h
  obtain ⟨n, hn⟩ : ∃ n, maxOrder - 1 = n := ⟨_, rfl⟩
  rw [hn] at h
  cases n with
  | zero => simp at h
  | succ n =>
    have hinv := fit_inv gt c n
    rcases hinv with ⟨hb, _⟩ | ⟨hb, L', hl, h1, h2, hg, hall⟩
    · simp [hb] at h
    · simp only [hb, if_true] at h
      rw [hl] at h
      have : L' = L := by simpa using h
      subst this
      exact ⟨h1, by omega, hg, hall⟩

/-- a fixed order `p` uses lags `0..p` and returns exactly `p` coefficient matrices -/
theorem fitModel_fixed_order {M : Type} [Ring M] [StarRing M] (inv : M → M) (r : ℕ → M) (p : ℕ) :
    (@lwr M (ringOps inv) r ((p + 1) - 1)).1.length = p := by
  rw [lwr_length]; omega

/-- **C11 `fit_model` returns the solution for the order it reports — for EVERY (order, max_order)
pair.**  Whatever `order` (given or `None`) and `max_order` (smaller than, equal to, larger than
`order`, or `None`): if the routine returns, it reports `p` and works from `L` lags with
`L = p + 1` (lags `0..p`), and the number of coefficient matrices `lwr_recursion` returns for those
lags is exactly the reported order `p`. -/
theorem fitModel_reports_its_order {M : Type} [Ring M] [StarRing M] (inv : M → M) (r : ℕ → M)
    (order maxOrder : Option ℕ) (p L : ℕ) (h : fitPlan gt c order maxOrder = some (p, L)) :
    L = p + 1 ∧ (@lwr M (ringOps inv) r (L - 1)).1.length = p := by
  have hL : L = p + 1 := by
    cases order with
    | some q =>
      simp only [fitPlan, Nitime.Generated.FitModel.fixedLags, Option.some.injEq, Prod.mk.injEq] at h
      omega
    | none =>
      cases maxOrder with
      | none => simp [fitPlan] at h
      | some mo =>
        simp only [fitPlan, Option.map_eq_some_iff, Prod.mk.injEq] at h
        obtain ⟨lag, hsel, hp, hl⟩ := h
        have := (fitModel_order_semantics gt c mo lag hsel).1
        omega
  refine ⟨hL, ?_⟩
  rw [lwr_length]; omega

/-- a given order ignores `max_order`: same plan whatever `max_order` is (also `None`, also `≤ order`) -/
theorem fitModel_fixed_ignores_max_order (p : ℕ) (mo mo' : Option ℕ) :
    fitPlan gt c (some p) mo = fitPlan gt c (some p) mo' ∧ fitPlan gt c (some p) mo = some (p, p + 1) :=
  ⟨rfl, rfl⟩

/-- the GENERATED shape of the criterion loop is the one `fitSelect` follows: `for lag in range(1, max_order)`, each
pass requesting exactly `lag` lags of the stacked pair for `lwr_recursion`; and the generated lag counts are
`order + 1` (fixed order, and `MAR_est_LWR`) -/
theorem fitModel_loop_shape :
    Nitime.Generated.FitModel.loopStart = 1 ∧ Nitime.Generated.FitModel.loopStopIsMaxOrder = true ∧
    Nitime.Generated.FitModel.loopLagsIsLag = true ∧
    (∀ p, Nitime.Generated.FitModel.fixedLags p = p + 1) ∧ (∀ p, Nitime.Generated.FitModel.marNlags p = p + 1) :=
  ⟨rfl, rfl, rfl, fun _ => rfl, fun _ => rfl⟩

/-- counter-model (seeded change C11-9): the covariances computed ONCE for `max_order` lags and
sliced `Rxx_all[..., :lag]` per candidate — numpy slicing past the end is silent, so the recursion
sees `min lag max_order` lags while the requested order is still reported -/
def fitPlanShared (order : Option ℕ) (maxOrder : ℕ) : Option (ℕ × ℕ) :=
  match order with
  | some p => some (p, min (p + 1) maxOrder)
  | none => (fitSelect gt c maxOrder).map fun lag => (lag - 1, min lag maxOrder)

/-- the shared-covariance variant violates the clause: `fit_model(x1, x2, order=6, max_order=4)`
reports order 6 and returns 3 coefficient matrices -/
theorem fitModel_shared_cov_counterexample {M : Type} [Ring M] [StarRing M] (inv : M → M) (r : ℕ → M) :
    fitPlanShared gt c (some 6) 4 = some (6, 4) ∧ (@lwr M (ringOps inv) r (4 - 1)).1.length = 3 ∧ (3 : ℕ) ≠ 6 := by
  refine ⟨rfl, ?_, by decide⟩
  rw [lwr_length]

/-- …and agrees with the code wherever the slice stays inside the shared array: a given order with
`order + 1 ≤ max_order`, and every criterion-selected order (the loop stops below `max_order`) -/
theorem fitModel_shared_cov_partial (mo : ℕ) :
    (∀ p, p + 1 ≤ mo → fitPlanShared gt c (some p) mo = fitPlan gt c (some p) (some mo)) ∧
    fitPlanShared gt c none mo = fitPlan gt c none (some mo) := by
  constructor
  · intro p hp
    simp only [fitPlanShared, fitPlan, Nitime.Generated.FitModel.fixedLags, Option.some.injEq, Prod.mk.injEq, true_and]
    omega
  · simp only [fitPlanShared, fitPlan]
    cases hsel : fitSelect gt c mo with
    | none => rfl
    | some lag =>
      have := (fitModel_order_semantics gt c mo lag hsel).2.1
      simp only [Option.map_some, Option.some.injEq, Prod.mk.injEq, true_and]
      omega

end fit


/-! ### equivariance under structure-preserving maps (channel relabelling) -/
section equiv
variable {M M' : Type} [Ring M] [StarRing M] [Ring M'] [StarRing M']

lemma getD_map_hom (φ : M →+* M') (l : List M) (i : ℕ) : (l.map φ).getD i 0 = φ (l.getD i 0) := by
  simp only [List.getD_eq_getElem?_getD, List.getElem?_map]
  cases l[i]? <;> simp

/-- **C11 relabelling.** If `φ` preserves `+ · *ᴴ` and commutes with the inverse (conjugation
`X ↦ Q·X·Qᵀ` by a permutation matrix `Q` is such a map), running the recursion on `φ ∘ r`
gives the `φ`-image of the result on `r`. -/
theorem lwr_equivariant (φ : M →+* M') (hstar : ∀ x, φ (star x) = star (φ x))
    (inv : M → M) (inv' : M' → M') (hinv : ∀ x, φ (inv x) = inv' (φ x)) (r : ℕ → M) (p : ℕ) :
    (@lwrLoop M' (ringOps inv') (fun k => φ (r k)) p).a = (@lwrLoop M (ringOps inv) r p).a.map φ ∧
    (@lwrLoop M' (ringOps inv') (fun k => φ (r k)) p).b = (@lwrLoop M (ringOps inv) r p).b.map φ ∧
    (@lwrLoop M' (ringOps inv') (fun k => φ (r k)) p).sigf = φ (@lwrLoop M (ringOps inv) r p).sigf ∧
    (@lwrLoop M' (ringOps inv') (fun k => φ (r k)) p).sigb = φ (@lwrLoop M (ringOps inv) r p).sigb := by
  induction p with
  | zero => exact ⟨rfl, rfl, rfl, rfl⟩
  | succ p ih =>
    obtain ⟨ha, hb, hsf, hsb⟩ := ih
    set s := @lwrLoop M (ringOps inv) r p with hs
    set s' := @lwrLoop M' (ringOps inv') (fun k => φ (r k)) p with hs'
    have h1 : @lwrLoop M (ringOps inv) r (p + 1) = @lwrStep M (ringOps inv) r p s := rfl
    have h2 : @lwrLoop M' (ringOps inv') (fun k => φ (r k)) (p + 1)
        = @lwrStep M' (ringOps inv') (fun k => φ (r k)) p s' := rfl
    rw [h1, h2]
    have hdelta : @foldAdd M' (ringOps inv') (φ (r (p + 1))) p (fun i => s'.a.getD i 0 * φ (r (p - i)))
        = φ (@foldAdd M (ringOps inv) (r (p + 1)) p (fun i => s.a.getD i 0 * r (p - i))) := by
      rw [foldAdd_eq, foldAdd_eq, map_add, map_sum]
      congr 1
      refine sum_congr rfl fun i _ => ?_
      rw [ha, getD_map_hom, map_mul]
    simp only [lwrStep, ro_add, ro_sub, ro_mul, ro_neg, ro_star, ro_inv, ro_one, ro_zero]
    rw [hdelta, hsf, hsb, ha, hb]
    refine ⟨?_, ?_, ?_, ?_⟩
    · simp only [List.map_append, List.map_map, List.map_cons, List.map_nil]
      congr 1
      · refine List.map_congr_left fun i _ => ?_
        simp only [Function.comp_apply, getD_map_hom, map_sub, map_mul, map_neg, hinv, hstar]
      · simp [hinv]
    · simp only [List.map_append, List.map_map, List.map_cons, List.map_nil]
      congr 1
      · refine List.map_congr_left fun i _ => ?_
        simp only [Function.comp_apply, getD_map_hom, map_sub, map_mul, map_neg, hinv, hstar]
      · simp [hinv, hstar]
    · simp [hinv, hstar]
    · simp [hinv, hstar]

end equiv

/-! ### one channel: the scalar estimator -/
section scalar
open ComplexConjugate Nitime.C10 Nitime.C10.Props

lemma Rext_eq_rr (r : ℕ → ℂ) (k i : ℕ) : Rext r ((k : ℤ) - i) = LD.rr r k i := by
  unfold LD.rr
  by_cases h : i ≤ k
  · rw [if_pos h]
    have : ((k : ℤ) - i) = ((k - i : ℕ) : ℤ) := by push_cast [Nat.cast_sub h]; ring
    rw [this, Rext_nat]
  · rw [if_neg h]
    have hlt : ¬ (0 : ℤ) ≤ (k : ℤ) - i := by omega
    have : (-((k : ℤ) - i)).toNat = i - k := by omega
    simp only [Rext, if_neg hlt, this, Complex.star_def]

/-- **C11 one channel.** With a single channel the recursion returns the negated
Levinson–Durbin coefficients (the documented sign convention `X + Σ a X = E`) and the same
innovation variance. -/
theorem lwr_scalar_is_LD (r : ℕ → ℂ) (h0 : conj (r 0) = r 0) (p : ℕ)
    (hinv : InvOK (fun z : ℂ => z⁻¹) r (p + 1)) (hd : DivisorsOK r p)
    (hdet : (toepMatrix r (p + 1)).det ≠ 0) :
    (∀ i, i < p + 1 →
      (@lwr ℂ (ringOps fun z => z⁻¹) r (p + 1)).1.getD i 0 = -((arLD r (p + 1)).1.getD i 0)) ∧
    (@lwr ℂ (ringOps fun z => z⁻¹) r (p + 1)).2 = (arLD r (p + 1)).2 := by
  have h0' : star (r 0) = r 0 := by rw [Complex.star_def]; exact h0
  obtain ⟨hF, hS⟩ := lwr_solves (fun z : ℂ => z⁻¹) r h0' (p + 1) hinv
  set l := (@lwr ℂ (ringOps fun z => z⁻¹) r (p + 1)).1 with hl
  have hsplit : ∀ f : ℕ → ℂ, ∑ i ∈ range (p + 1 + 1), coefA l i * f i
      = f 0 + ∑ i ∈ range (p + 1), l.getD i 0 * f (i + 1) := by
    intro f
    rw [Finset.sum_range_succ', add_comm]
    simp [coefA]
  -- the negated list solves the Yule–Walker equations
  have hsol : IsSolution r (p + 1) (l.map fun z => -z) := by
    rw [isSolution_iff_YW]
    intro k hk1 hkp
    have := hF k hk1 hkp
    rw [hsplit (fun i => Rext r ((k : ℤ) - i))] at this
    rw [sum_Icc_one]
    have e0 : Rext r ((k : ℤ) - ((0 : ℕ) : ℤ)) = r k := by
      have : ((k : ℤ) - ((0 : ℕ) : ℤ)) = ((k : ℕ) : ℤ) := by simp
      rw [this, Rext_nat]
    rw [e0] at this
    have hneg : ∀ i, coef (l.map fun z => -z) (i + 1) = -(l.getD i 0) := by
      intro i
      simp only [coef, Nat.add_sub_cancel, List.getD_eq_getElem?_getD, List.getElem?_map]
      cases l[i]? <;> simp
    have : ∑ i ∈ range (p + 1), coef (l.map fun z => -z) (i + 1) * LD.rr r k (i + 1)
        = -∑ i ∈ range (p + 1), l.getD i 0 * Rext r ((k : ℤ) - ((i + 1 : ℕ) : ℤ)) := by
      rw [← Finset.sum_neg_distrib]
      refine sum_congr rfl fun i _ => ?_
      rw [hneg, Rext_eq_rr]; ring
    rw [this]
    linear_combination -(1 : ℂ) * ‹r k + _ = 0›
  have huniq := yw_unique hdet hsol ((isSolution_iff_YW _ _).2 (arLD_solves_YW h0 p hd))
  have hcoef : ∀ i, i < p + 1 → l.getD i 0 = -((arLD r (p + 1)).1.getD i 0) := by
    intro i hi
    have := huniq i hi
    have hm : (l.map fun z => -z).getD i 0 = -(l.getD i 0) := by
      simp only [List.getD_eq_getElem?_getD, List.getElem?_map]
      cases l[i]? <;> simp
    rw [hm] at this
    rw [← this, neg_neg]
  refine ⟨hcoef, ?_⟩
  rw [hS, hsplit (fun i => Rext r (-(i : ℤ))), (arLD_sigma h0 p hd).1, sum_Icc_one]
  have e0 : Rext r (-((0 : ℕ) : ℤ)) = r 0 := by simp [Rext]
  rw [e0, sub_eq_add_neg, ← Finset.sum_neg_distrib]
  congr 1
  refine sum_congr rfl fun i hi => ?_
  simp only [mem_range] at hi
  rw [hcoef i hi, Rext_neg_nat r h0', Complex.star_def]
  simp [coef]

end scalar

/-! ### positive definiteness (partial: orders 0 and 1) -/
section pd
variable {n : ℕ}
open ComplexOrder Matrix

/-- order 0: the innovation covariance is `R(0)` -/
theorem lwr_sigma_order0 (r : ℕ → Matrix (Fin n) (Fin n) ℂ) :
    (@lwr _ (ringOps fun X => X⁻¹) r 0).2 = r 0 := rfl

/-- **C11 positive (semi)definiteness, proved up to order 1** (partial clause): if `R(0)` is
positive definite and the 2×2 block-Toeplitz matrix `[[R0, R1], [R1ᴴ, R0]]` is positive
semidefinite, the order-1 innovation covariance `(I − ka·kb)·R0 = R0 − R1·R0⁻¹·R1ᴴ` is
Hermitian positive semidefinite. -/
theorem lwr_sigma_psd_order1 (r : ℕ → Matrix (Fin n) (Fin n) ℂ) (h0 : (r 0).PosDef)
    (hT : (fromBlocks (r 0) (r 1) (r 1)ᴴ (r 0)).PosSemidef) :
    (@lwr _ (ringOps fun X => X⁻¹) r 1).2.PosSemidef := by
  have hu : IsUnit (r 0).det := (Matrix.isUnit_iff_isUnit_det _).mp h0.isUnit
  let _ : Invertible (r 0) := h0.isUnit.invertible
  have hval : (@lwr _ (ringOps fun X => X⁻¹) r 1).2 = r 0 - r 1 * (r 0)⁻¹ * (r 1)ᴴ := by
    show (1 - (r 1 * (r 0)⁻¹) * (star (r 1) * (r 0)⁻¹)) * r 0 = _
    rw [sub_mul, one_mul, Matrix.mul_assoc, Matrix.mul_assoc (star (r 1)), Matrix.nonsing_inv_mul _ hu,
      Matrix.mul_one, Matrix.star_eq_conjTranspose]
  rw [hval]
  exact (Matrix.PosDef.fromBlocks₂₂ (r 0) (r 1) h0).mp hT

end pd

/-! ### positive definiteness, every order -/
section pdall
open ComplexOrder Matrix
variable {n : ℕ}

/-- the two block-Toeplitz quadratic forms of order `m` (`T_{ik} = R(k−i)` and its reversal) -/
def QF (R : ℤ → Matrix (Fin n) (Fin n) ℂ) (m : ℕ) (v : ℕ → Fin n → ℂ) : ℂ :=
  ∑ k ∈ range (m + 1), ∑ i ∈ range (m + 1), star (v i) ⬝ᵥ (R ((k : ℤ) - i) *ᵥ v k)
def QB (R : ℤ → Matrix (Fin n) (Fin n) ℂ) (m : ℕ) (v : ℕ → Fin n → ℂ) : ℂ :=
  ∑ k ∈ range (m + 1), ∑ i ∈ range (m + 1), star (v i) ⬝ᵥ (R ((i : ℤ) - k) *ᵥ v k)

lemma term_expand (A B C : Matrix (Fin n) (Fin n) ℂ) (x : Fin n → ℂ) :
    star x ⬝ᵥ ((A * B * Cᴴ) *ᵥ x) = star (Aᴴ *ᵥ x) ⬝ᵥ (B *ᵥ (Cᴴ *ᵥ x)) := by
  rw [star_mulVec, conjTranspose_conjTranspose, ← mulVec_mulVec, ← mulVec_mulVec, dotProduct_mulVec,
    dotProduct_mulVec, dotProduct_mulVec]

lemma quad_expand (A : ℕ → Matrix (Fin n) (Fin n) ℂ) (T : ℕ → ℕ → Matrix (Fin n) (Fin n) ℂ) (m : ℕ)
    (x : Fin n → ℂ) :
    star x ⬝ᵥ ((∑ k ∈ range (m + 1), ∑ i ∈ range (m + 1), A i * T k i * star (A k)) *ᵥ x)
      = ∑ k ∈ range (m + 1), ∑ i ∈ range (m + 1),
          star ((A i)ᴴ *ᵥ x) ⬝ᵥ (T k i *ᵥ ((A k)ᴴ *ᵥ x)) := by
  rw [Matrix.sum_mulVec, dotProduct_sum]
  refine sum_congr rfl fun k _ => ?_
  rw [Matrix.sum_mulVec, dotProduct_sum]
  refine sum_congr rfl fun i _ => ?_
  rw [Matrix.star_eq_conjTranspose, term_expand]

/-- positive definiteness of the block-Toeplitz covariance of orders `≤ P`, in the form used:
both quadratic forms are positive on every block vector whose leading block is non-zero
(implied by `T_m ≻ 0` for the full block-Toeplitz matrix of order `P`) -/
def ToeplitzPD (R : ℤ → Matrix (Fin n) (Fin n) ℂ) (P : ℕ) : Prop :=
  ∀ m, m ≤ P → ∀ v : ℕ → Fin n → ℂ, v 0 ≠ 0 → 0 < QF R m v ∧ 0 < QB R m v

/-- positive definiteness of the full order-`P` block-Toeplitz covariance matrix
`Γ_{ik} = R(i − k)`, `0 ≤ i, k ≤ P`, as a quadratic form -/
def FullToeplitzPD (R : ℤ → Matrix (Fin n) (Fin n) ℂ) (P : ℕ) : Prop :=
  ∀ v : ℕ → Fin n → ℂ, (∃ i, i ≤ P ∧ v i ≠ 0) → 0 < QB R P v

lemma QB_pad (R : ℤ → Matrix (Fin n) (Fin n) ℂ) {m P : ℕ} (hm : m ≤ P) (v : ℕ → Fin n → ℂ) :
    QB R P (fun i => if i ≤ m then v i else 0) = QB R m v := by
  unfold QB
  have hsub : range (m + 1) ⊆ range (P + 1) := range_subset_range.mpr (by omega)
  rw [← sum_subset hsub]
  · refine sum_congr rfl fun k hk => ?_
    simp only [mem_range] at hk
    rw [← sum_subset hsub]
    · refine sum_congr rfl fun i hi => ?_
      simp only [mem_range] at hi
      dsimp only
      rw [if_pos (by omega), if_pos (by omega)]
    · intro i _ hi
      simp only [mem_range] at hi
      dsimp only
      rw [if_neg (by omega : ¬ i ≤ m)]; simp
  · intro k _ hk
    simp only [mem_range] at hk
    apply sum_eq_zero
    intro i _
    dsimp only
    rw [if_neg (by omega : ¬ k ≤ m)]; simp

lemma QF_reverse (R : ℤ → Matrix (Fin n) (Fin n) ℂ) (m : ℕ) (v : ℕ → Fin n → ℂ) :
    QF R m v = QB R m (fun i => v (m - i)) := by
  unfold QF QB
  rw [← sum_range_reflect]
  refine sum_congr rfl fun k hk => ?_
  simp only [mem_range] at hk
  rw [← sum_range_reflect]
  refine sum_congr rfl fun i hi => ?_
  simp only [mem_range] at hi
  have e1 : m + 1 - 1 - k = m - k := by omega
  have e2 : m + 1 - 1 - i = m - i := by omega
  have e3 : m - (m - k) = k := by omega
  have e4 : m - (m - i) = i := by omega
  simp only [e1, e2, e3, e4]
  congr 3
  push_cast [Nat.cast_sub (by omega : k ≤ m), Nat.cast_sub (by omega : i ≤ m)]
  ring

/-- positive definiteness of the full block-Toeplitz matrix gives everything the recursion needs -/
theorem toeplitzPD_of_full {R : ℤ → Matrix (Fin n) (Fin n) ℂ} {P : ℕ} (h : FullToeplitzPD R P) :
    ToeplitzPD R P := by
  intro m hm v hv
  constructor
  · rw [QF_reverse, ← QB_pad R hm]
    apply h
    refine ⟨m, hm, ?_⟩
    simpa using hv
  · rw [← QB_pad R hm]
    apply h
    refine ⟨0, Nat.zero_le _, ?_⟩
    simpa using hv

lemma sf_posDef {R : ℤ → Matrix (Fin n) (Fin n) ℂ} (hR : ∀ m, star (R m) = R (-m)) {p : ℕ}
    {s : LWR.St (Matrix (Fin n) (Fin n) ℂ)} (h : LWR.Inv R p s)
    (hpd : ∀ v : ℕ → Fin n → ℂ, v 0 ≠ 0 → 0 < QF R p v) : s.sf.PosDef := by
  refine Matrix.PosDef.of_dotProduct_mulVec_pos ?_ fun x hx => ?_
  · exact (LWR.sf_selfadjoint hR h)
  · rw [LWR.sf_quadratic h, quad_expand s.A (fun k i => R ((k : ℤ) - i)) p x]
    have := hpd (fun i => (s.A i)ᴴ *ᵥ x) (by simpa [h.A0] using hx)
    exact this

lemma sb_posDef {R : ℤ → Matrix (Fin n) (Fin n) ℂ} (hR : ∀ m, star (R m) = R (-m)) {p : ℕ}
    {s : LWR.St (Matrix (Fin n) (Fin n) ℂ)} (h : LWR.Inv R p s)
    (hpd : ∀ v : ℕ → Fin n → ℂ, v 0 ≠ 0 → 0 < QB R p v) : s.sb.PosDef := by
  refine Matrix.PosDef.of_dotProduct_mulVec_pos ?_ fun x hx => ?_
  · exact (LWR.sb_selfadjoint hR h)
  · rw [LWR.sb_quadratic h, quad_expand s.B (fun k j => R ((j : ℤ) - k)) p x]
    have := hpd (fun i => (s.B i)ᴴ *ᵥ x) (by simpa [h.B0] using hx)
    exact this

lemma inv_mul_of_posDef {X : Matrix (Fin n) (Fin n) ℂ} (h : X.PosDef) : X⁻¹ * X = 1 :=
  Matrix.nonsing_inv_mul _ ((Matrix.isUnit_iff_isUnit_det _).mp h.isUnit)

/-- **all orders.** With a positive-definite block-Toeplitz covariance the abstract recursion keeps
its invariant and both error covariances are positive definite at every order `j ≤ P`
(so the inverses the code takes exist). -/
theorem lwr_abstract_posDef {R : ℤ → Matrix (Fin n) (Fin n) ℂ} (hR : ∀ m, star (R m) = R (-m)) (P : ℕ)
    (hpd : ToeplitzPD R P) :
    ∀ j, j ≤ P → LWR.Inv R j (LWR.lwr R (fun X => X⁻¹) j) ∧
      (LWR.lwr R (fun X => X⁻¹) j).sf.PosDef ∧ (LWR.lwr R (fun X => X⁻¹) j).sb.PosDef := by
  intro j
  induction j with
  | zero =>
    intro _
    have hI : LWR.Inv R 0 (LWR.lwr R (fun X => X⁻¹) 0) := LWR.init_inv
    exact ⟨hI, sf_posDef hR hI fun v hv => (hpd 0 (Nat.zero_le _) v hv).1,
      sb_posDef hR hI fun v hv => (hpd 0 (Nat.zero_le _) v hv).2⟩
  | succ j ih =>
    intro hj
    obtain ⟨hI, hsf, hsb⟩ := ih (by omega)
    have hI' : LWR.Inv R (j + 1) (LWR.lwr R (fun X => X⁻¹) (j + 1)) :=
      LWR.step_inv hR hI (inv_mul_of_posDef hsf) (inv_mul_of_posDef hsb)
    exact ⟨hI', sf_posDef hR hI' fun v hv => (hpd (j + 1) hj v hv).1,
      sb_posDef hR hI' fun v hv => (hpd (j + 1) hj v hv).2⟩

variable (r : ℕ → Matrix (Fin n) (Fin n) ℂ)

/-- **C11: the hypothesis `InvOK` is discharged by positive definiteness** of the covariance
sequence: every matrix `lwr_recursion` inverts is positive definite, hence invertible. -/
theorem invOK_of_toeplitzPD (h0 : star (r 0) = r 0) (P : ℕ) (hpd : ToeplitzPD (Rext r) P) :
    InvOK (fun X => X⁻¹) r P := by
  intro j hj
  obtain ⟨_, hsf, hsb⟩ := lwr_abstract_posDef (Rext_star r h0) P hpd j (by omega)
  obtain ⟨_, _, _, _, e1, e2⟩ := lwrLoop_spec (fun X : Matrix (Fin n) (Fin n) ℂ => X⁻¹) r j
  rw [e1, e2]
  exact ⟨inv_mul_of_posDef hsf, inv_mul_of_posDef hsb⟩

/-- **C11 innovation covariance is Hermitian positive definite, every order.** -/
theorem lwr_sigma_posDef (h0 : star (r 0) = r 0) (P : ℕ) (hpd : ToeplitzPD (Rext r) P) :
    (@lwr _ (ringOps fun X => X⁻¹) r P).2.PosDef := by
  obtain ⟨_, hsf, _⟩ := lwr_abstract_posDef (Rext_star r h0) P hpd P le_rfl
  have e : (@lwr _ (ringOps fun X => X⁻¹) r P).2 = (LWR.lwr (Rext r) (fun X => X⁻¹) P).sf :=
    (lwrLoop_spec (fun X : Matrix (Fin n) (Fin n) ℂ => X⁻¹) r P).2.2.2.2.1
  rw [e]; exact hsf

/-- hence the block Yule–Walker theorem holds with positive definiteness as its only hypothesis -/
theorem lwr_solves_of_toeplitzPD (h0 : star (r 0) = r 0) (P : ℕ) (hpd : ToeplitzPD (Rext r) P) :
    (∀ k : ℕ, 1 ≤ k → k ≤ P →
      ∑ i ∈ range (P + 1), coefA (@lwr _ (ringOps fun X => X⁻¹) r P).1 i * Rext r ((k : ℤ) - i) = 0) ∧
    (@lwr _ (ringOps fun X => X⁻¹) r P).2
      = ∑ i ∈ range (P + 1), coefA (@lwr _ (ringOps fun X => X⁻¹) r P).1 i * Rext r (-(i : ℤ)) :=
  lwr_solves (fun X => X⁻¹) r h0 P (invOK_of_toeplitzPD r h0 P hpd)

end pdall

/-! ### channel permutations -/
section perm
open Matrix
variable {n : ℕ}

/-- relabelling the channels by the permutation `σ`: `(relabel σ X) i j = X (σ⁻¹ i) (σ⁻¹ j)`,
i.e. `Q·X·Qᵀ` for the permutation matrix `Q` of `σ` -/
def relabel (σ : Equiv.Perm (Fin n)) : Matrix (Fin n) (Fin n) ℂ →+* Matrix (Fin n) (Fin n) ℂ :=
  (reindexAlgEquiv ℂ ℂ σ).toAlgHom.toRingHom

lemma relabel_apply (σ : Equiv.Perm (Fin n)) (X : Matrix (Fin n) (Fin n) ℂ) :
    relabel σ X = reindex σ σ X := rfl

/-- **C11 relabelling the channels permutes the result** (instance of `lwr_equivariant`). -/
theorem lwr_permutation_equivariant (σ : Equiv.Perm (Fin n)) (r : ℕ → Matrix (Fin n) (Fin n) ℂ) (P : ℕ) :
    (@lwr _ (ringOps fun X => X⁻¹) (fun k => relabel σ (r k)) P).1
        = (@lwr _ (ringOps fun X => X⁻¹) r P).1.map (relabel σ) ∧
    (@lwr _ (ringOps fun X => X⁻¹) (fun k => relabel σ (r k)) P).2
        = relabel σ (@lwr _ (ringOps fun X => X⁻¹) r P).2 := by
  have h := lwr_equivariant (relabel σ)
    (fun x => by rw [relabel_apply, relabel_apply, Matrix.star_eq_conjTranspose, Matrix.star_eq_conjTranspose,
                      conjTranspose_reindex])
    (fun X => X⁻¹) (fun X => X⁻¹)
    (fun x => by rw [relabel_apply, relabel_apply, inv_reindex]) r P
  exact ⟨h.1, h.2.2.1⟩

end perm

/-! ### the driver's `inv` -/

/-- **C11 contract of the model's `linalg.inv`.** `Mat.inv n a` of the driver is `GMat.inv? n a`
(zeros when the elimination fails); whenever `GMat.inv?` returns `X` — at `ℂ`, the same generic
definition — `X·A = I` and `A·X = I`: the `InvOK` contract. -/
theorem gjInv_contract (n : ℕ) (a x : List (List ℂ)) (h : Nitime.AR.GMat.inv? n a = some x) :
    Nitime.AR.GMat.toMatrix n x * Nitime.AR.GMat.toMatrix n a = 1 ∧
    Nitime.AR.GMat.toMatrix n a * Nitime.AR.GMat.toMatrix n x = 1 :=
  Nitime.AR.GMat.inv?_left_inverse n a x h

/-! ### the executable text (lists of rows) at `K = ℂ` -/
section concrete
open Matrix Nitime.AR.GMat
variable {n : ℕ}

/-- the `SqMat n` instance of `ARBase.lean` is, operation by operation, the `K = CF` instance of the
generic list-of-rows text the driver runs -/
theorem sqMat_ops_eq (n : ℕ) : (inferInstanceAs (MatOps (SqMat n))) = instMatOpsGSq CF n := rfl

/-- **lists of rows are matrices.** Every `MatOps` operation of `GSq ℂ n` preserves "n rows of n
entries" and commutes with `toMatrix` (one lemma per operation in `Lemmas/SqMatBridge.lean`); the
driver's Gauss–Jordan `inv` becomes the matrix function `invM n`. -/
theorem gsq_matHom (n : ℕ) :
    @MatHom (GSq ℂ n) (Matrix (Fin n) (Fin n) ℂ) (instMatOpsGSq ℂ n) (ringOps (invM n))
      (WF n) (toMatrix n) :=
  @MatHom.mk (GSq ℂ n) (Matrix (Fin n) (Fin n) ℂ) (instMatOpsGSq ℂ n) (ringOps (invM n)) (WF n) (toMatrix n)
    (fun _ _ ha hb => ⟨wf_zipW _ ha hb, toMatrix_madd ha hb⟩)
    (fun _ _ ha hb => ⟨wf_zipW _ ha hb, toMatrix_msub ha hb⟩)
    (fun a b _ _ => ⟨wf_ofFn n _, toMatrix_mmul n a b⟩)
    (fun _ ha => ⟨wf_mneg ha, toMatrix_mneg ha⟩)
    (fun a _ => ⟨wf_ofFn n _, (toMatrix_ctrans n a).trans (Matrix.star_eq_conjTranspose _).symm⟩)
    (fun a ha => ⟨wf_minv n a, toMatrix_minv ha⟩)
    ⟨wf_ofFn n _, toMatrix_ident n⟩
    ⟨wf_ofFn n _, toMatrix_zeros n⟩

/-- **the loop on lists of rows is the loop on matrices**: every matrix `lwr_recursion` meets is
well shaped, and the state reached on `toMatrix ∘ r` is the entrywise image of the state reached by
the executable text on `r`. -/
theorem lwrLoop_concrete (r : ℕ → GSq ℂ n) (hr : ∀ k, WF n (r k)) (p : ℕ) :
    (∀ x ∈ (@lwrLoop _ (instMatOpsGSq ℂ n) r p).a, WF n x) ∧
    (∀ x ∈ (@lwrLoop _ (instMatOpsGSq ℂ n) r p).b, WF n x) ∧
    WF n (@lwrLoop _ (instMatOpsGSq ℂ n) r p).sigf ∧ WF n (@lwrLoop _ (instMatOpsGSq ℂ n) r p).sigb ∧
    @lwrLoop _ (ringOps (invM n)) (fun k => toMatrix n (r k)) p
      = ⟨(@lwrLoop _ (instMatOpsGSq ℂ n) r p).a.map (toMatrix n),
         (@lwrLoop _ (instMatOpsGSq ℂ n) r p).b.map (toMatrix n),
         toMatrix n (@lwrLoop _ (instMatOpsGSq ℂ n) r p).sigf,
         toMatrix n (@lwrLoop _ (instMatOpsGSq ℂ n) r p).sigb⟩ :=
  @lwrLoop_hom (GSq ℂ n) (Matrix (Fin n) (Fin n) ℂ) (instMatOpsGSq ℂ n) (ringOps (invM n))
    (WF n) (toMatrix n) (gsq_matHom n) r hr p

/-- **C11 block Yule–Walker for the executable text.** Run on `n × n` lists of rows of complex
numbers (the same `lwr` over the same `GSq K n` operations the driver executes at complex
binary64), with `R(0)` Hermitian and every Gauss–Jordan elimination the recursion performs
succeeding (`inv?` returns), the returned lists of rows, read as matrices, satisfy
`Σ_{i=0..P} A(i)·R(k−i) = 0` (`k = 1..P`, `A(0) = I`, `R(−m) = R(m)ᴴ`) and the returned covariance is
`Σ_i A(i)·R(−i)`. -/
theorem lwr_solves_concrete (r : ℕ → GSq ℂ n) (hr : ∀ k, WF n (r k))
    (h0 : (toMatrix n (r 0))ᴴ = toMatrix n (r 0)) (P : ℕ)
    (hinv : ∀ j, j < P → (inv? n (@lwrLoop _ (instMatOpsGSq ℂ n) r j).sigf).isSome ∧
                         (inv? n (@lwrLoop _ (instMatOpsGSq ℂ n) r j).sigb).isSome) :
    (∀ k : ℕ, 1 ≤ k → k ≤ P →
      ∑ i ∈ range (P + 1), coefA ((@lwr _ (instMatOpsGSq ℂ n) r P).1.map (toMatrix n)) i
          * Rext (fun m => toMatrix n (r m)) ((k : ℤ) - i) = 0) ∧
    toMatrix n (@lwr _ (instMatOpsGSq ℂ n) r P).2
      = ∑ i ∈ range (P + 1), coefA ((@lwr _ (instMatOpsGSq ℂ n) r P).1.map (toMatrix n)) i
          * Rext (fun m => toMatrix n (r m)) (-(i : ℤ)) := by
  have hOK : InvOK (invM n) (fun m => toMatrix n (r m)) P := by
    intro j hj
    obtain ⟨_, _, wsf, wsb, e⟩ := lwrLoop_concrete r hr j
    rw [e]
    simp only
    rw [← toMatrix_minv wsf, ← toMatrix_minv wsb]
    exact ⟨minv_left_inverse n _ (hinv j hj).1, minv_left_inverse n _ (hinv j hj).2⟩
  have h0' : star (toMatrix n (r 0)) = toMatrix n (r 0) := by
    rw [Matrix.star_eq_conjTranspose]; exact h0
  have hs := lwr_solves (invM n) (fun m => toMatrix n (r m)) h0' P hOK
  have e := (lwrLoop_concrete r hr P).2.2.2.2
  have e1 : (@lwr _ (ringOps (invM n)) (fun m => toMatrix n (r m)) P).1
      = (@lwr _ (instMatOpsGSq ℂ n) r P).1.map (toMatrix n) := by
    unfold lwr; rw [e]
  have e2 : (@lwr _ (ringOps (invM n)) (fun m => toMatrix n (r m)) P).2
      = toMatrix n (@lwr _ (instMatOpsGSq ℂ n) r P).2 := by
    unfold lwr; rw [e]
  rw [e1, e2] at hs
  exact hs

/-- non-vacuity: the white sequence `R = δ·I` of 1×1 lists of rows meets every hypothesis at order 1 -/
example : (inv? 1 (@lwrLoop _ (instMatOpsGSq ℂ 1) (fun k => if k = 0 then ident 1 else zeros 1) 0).sigf).isSome := by
  simp [lwrLoop, inv?, gjReduce, gjStep, pivotRow, augment, isIdentLeft, ident, ofFn, entry, List.range_succ,
    sc_beq]

end concrete

/-! ### round 2 (L8): the covariance stack shared with other consumers -/
section stack
variable {M K : Type} [MatOps M]

omit [MatOps M] in
/-- writing back what was read changes nothing (`setDiag c m (diag c m) = m`) -/
theorem writeBack_read (diag : ℕ → M → K) (setDiag : ℕ → M → K → M) (dflt : K)
    (hlaw : ∀ c m, setDiag c m (diag c m) = m) (r : ℕ → M) (s : SliceCall) :
    writeBack setDiag dflt r s (sliceOf diag r s) = r := by
  funext k
  unfold writeBack sliceOf
  split
  · next hk => simp [List.getD_eq_getElem?_getD, hk, hlaw]
  · rfl

omit [MatOps M] in
/-- **C11 shared covariance stack.** Consumers that only READ the slices they are handed (`post = id`: today's
`AR_est_LD` / `AR_est_YW`, C10 `runCalls_pure`) leave the stack as it was, for every program of calls on any channels
and orders — -/
theorem stack_unchanged_by_readers (diag : ℕ → M → K) (setDiag : ℕ → M → K → M) (dflt : K)
    (hlaw : ∀ c m, setDiag c m (diag c m) = m) (calls : List SliceCall) (r : ℕ → M) :
    runSliceCalls diag setDiag dflt id calls r = r := by
  induction calls generalizing r with
  | nil => rfl
  | cons s ss ih =>
    simp only [runSliceCalls, id]
    rw [writeBack_read diag setDiag dflt hlaw, ih]

/-- — so the block recursion run afterwards returns what it returns on the covariances of the data -/
theorem lwr_after_readers (diag : ℕ → M → K) (setDiag : ℕ → M → K → M) (dflt : K)
    (hlaw : ∀ c m, setDiag c m (diag c m) = m) (calls : List SliceCall) (r : ℕ → M) (P : ℕ) :
    lwrAfterCalls diag setDiag dflt id calls r P = lwr r P := by
  unfold lwrAfterCalls
  rw [stack_unchanged_by_readers diag setDiag dflt hlaw]

/-- the law holds for the driver's lists of rows -/
theorem setDiagL_diagL {K : Type} [Scalar K] (c : ℕ) (m : List (List K)) : setDiagL c m (diagL c m) = m := by
  unfold setDiagL diagL GMat.entry
  by_cases hc : c < m.length
  · have h1 : m.getD c [] = m[c] := by simp [List.getD_eq_getElem?_getD, hc]
    rw [h1]
    by_cases hr : c < m[c].length
    · have h2 : m[c].getD c Scalar.zero = m[c][c] := by simp [List.getD_eq_getElem?_getD, hr]
      rw [h2, List.set_getElem_self, List.set_getElem_self]
    · rw [List.set_eq_of_length_le (l := m[c]) (by omega), List.set_getElem_self]
  · rw [List.set_eq_of_length_le (by omega)]

/-- the driver's instance (lists of rows over any scalar type): op `marp` -/
theorem lwr_after_readers_rows {K : Type} [Scalar K] (n : ℕ) (dflt : K) (calls : List SliceCall) (r : ℕ → GSq K n) (P : ℕ) :
    lwrAfterCalls (M := GSq K n) diagL setDiagL dflt id calls r P = lwr r P :=
  lwr_after_readers (M := GSq K n) diagL setDiagL dflt setDiagL_diagL calls r P

end stack

/-! counter-model (seed C11-11): a consumer that NORMALISES the slice in place (`rxx_m /= rxx_m[0]`).  One channel,
`R = [2, 1]`: the scalar call leaves `[1, 1/2]`; the recursion afterwards reports the innovation variance `3/4`, the data's
is `3/2` (the coefficient `-1/2` is the same: it only depends on the ratios). -/

instance ratMatOps : MatOps ℚ where
  add := (· + ·)
  sub := (· - ·)
  mul := (· * ·)
  neg := fun a => -a
  star := id
  inv := fun a => a⁻¹
  one := 1
  zero := 0

def normalisingPost (l : List ℚ) : List ℚ := l.map fun z => z / l.getD 0 0

def stack21 : ℕ → ℚ := fun k => if k = 0 then 2 else if k = 1 then 1 else 0

theorem shared_stack_inplace_counterexample :
    lwr stack21 1 = ([(-1 / 2 : ℚ)], 3 / 2) ∧
    lwrAfterCalls (M := ℚ) (fun _ m => m) (fun _ _ v => v) 0 normalisingPost [⟨0, 1⟩] stack21 1 = ([(-1 / 2 : ℚ)], 3 / 4) := by
  constructor
  · simp [lwr, lwrLoop, lwrStep, foldAdd, stack21, MatOps.add, MatOps.sub, MatOps.mul, MatOps.neg, MatOps.inv, MatOps.star, MatOps.one]
    norm_num
  · simp [lwrAfterCalls, runSliceCalls, writeBack, sliceOf, normalisingPost, lwr, lwrLoop, lwrStep, foldAdd, stack21,
      MatOps.add, MatOps.sub, MatOps.mul, MatOps.neg, MatOps.inv, MatOps.star, MatOps.one, List.range_succ]
    norm_num


/-! ### `GrangerAnalyzer` re-targeted with `set_input` -/
section analyzer
open Nitime.GrangerObj

/-- **C11 analyzer re-targeted.** For EVERY history of `set_input`s and reads of model-derived
attributes (`order`, `autocov`, `model_coef`, `error_cov` = projections of `_model`) on one
`GrangerAnalyzer`, each read returns `fit_model` of the pairs of the input the analyzer holds at
that moment (`ref`), never of an earlier one. -/
theorem analyzer_retarget_model (crit : String) (order maxo : Option ℕ) (ops : List (Op GIn)) (d : GIn) :
    run (gFit crit order maxo) (fun _ _ => ()) (fun _ => ()) ops
        (construct d : Obj GIn (List Fit) Unit Unit)
      = ref (gFit crit order maxo) (fun _ _ => ()) (fun _ => ()) ops d :=
  run_eq_ref _ _ _ ops d

/-- in particular: whatever was read before, after `set_input(d')` the model is the fit of `d'` -/
theorem analyzer_model_after_set_input (crit : String) (order maxo : Option ℕ) (pre : List (Op GIn))
    (d0 d' : GIn) :
    (run (gFit crit order maxo) (fun _ _ => ()) (fun _ => ())
        (pre ++ [.setInput d', .readModel, .readGC, .readFreqs])
        (construct d0 : Obj GIn (List Fit) Unit Unit)).getD (pre.length + 1) .done
      = .model (gFit crit order maxo d') := by
  rw [read_after_setInput]
  have hl : (ref (gFit crit order maxo) (fun _ _ => ()) (fun _ => ()) pre d0).length = pre.length := by
    generalize d0 = d
    induction pre generalizing d with
    | nil => rfl
    | cons o os ih => cases o <;> simp [ref, ih]
  simp [List.getD_eq_getElem?_getD, List.getElem?_append_right, hl]

/-- non-vacuity: a read, a re-target, a read -/
example (d0 d' : GIn) :
    run (gFit "bic" (some 1) (some 10)) (fun _ _ => ()) (fun _ => ()) [.readModel, .setInput d', .readModel]
        (construct d0 : Obj GIn (List Fit) Unit Unit)
      = [.model (gFit "bic" (some 1) (some 10) d0), .done, .model (gFit "bic" (some 1) (some 10) d')] := by
  rw [analyzer_retarget_model]; rfl

/-- **C11 analyzer after a failed fit (L7).** `_model` fits pair by pair (`runK`, `gFit1` = `fit_model` of one pair,
`keepPartial` generated from the source: no instance attribute written outside `__init__` / `set_input`).  For EVERY
history of reads — including reads that raised `ValueError` after some pairs had been fitted — and `set_input`s, each
read is the per-pair fit of the input held at that moment. -/
theorem analyzer_failure_histories (crit : String) (order maxo : Option ℕ) (ops : List (OpK GIn)) (d : GIn) :
    runK (fun d : GIn => d.ij) (gFit1 crit order maxo) keepPartial ops (constructK d)
      = refK (fun d : GIn => d.ij) (gFit1 crit order maxo) ops d :=
  runK_source_eq_refK _ _ ops d

/-- after any failure history, `set_input(d')` + read = the fit of `d'` only -/
theorem analyzer_retarget_after_failed_fit (crit : String) (order maxo : Option ℕ) (pre : List (OpK GIn)) (d0 d' : GIn) :
    runK (fun d : GIn => d.ij) (gFit1 crit order maxo) keepPartial (pre ++ [.setInput d', .readModel]) (constructK d0)
      = refK (fun d : GIn => d.ij) (gFit1 crit order maxo) pre d0 ++
        [.done, .model (fitList (gFit1 crit order maxo) d' d'.ij)] :=
  retarget_after_failed_fit_is_fresh _ _ pre d0 d'

end analyzer

/-! ### non-vacuity -/

/-- white covariance sequence `R = δ·I` over complex matrices: the inverses exist -/
example (n : ℕ) : InvOK (M := Matrix (Fin n) (Fin n) ℂ) (fun X => X⁻¹) (fun k => if k = 0 then 1 else 0) 1 := by
  intro j hj
  have : j = 0 := by omega
  subst this
  simp [lwrLoop]

example (n : ℕ) : star ((fun k => if k = 0 then (1 : Matrix (Fin n) (Fin n) ℂ) else 0) 0)
    = (fun k => if k = 0 then (1 : Matrix (Fin n) (Fin n) ℂ) else 0) 0 := by simp

/-- a criterion that falls twice and then rises selects lag 2 (order 1) -/
example : fitSelect (fun a b : ℕ => decide (a > b)) (fun l => if l = 1 then 5 else if l = 2 then 3 else 7) 10
    = some 2 := by decide

/-- `fit_model(order=6, max_order=4)`: order 6 reported, 7 lags used (`max_order` ignored);
`fit_model(order=None, max_order=10)` with the criterion above: order 1 reported, 2 lags -/
example : fitPlan (fun a b : ℕ => decide (a > b)) (fun l => if l = 1 then 5 else if l = 2 then 3 else 7) (some 6) (some 4)
    = some (6, 7) := rfl
example : fitPlan (fun a b : ℕ => decide (a > b)) (fun l => if l = 1 then 5 else if l = 2 then 3 else 7) none (some 10)
    = some (1, 2) := by decide

end Nitime.C11.Props
