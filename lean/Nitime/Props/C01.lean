/-
C01 — property theorems for the time-value model (`Nitime.C01`).
Helper lemmas live in `Nitime/Lemmas`; this file holds only the statements that the property
is made of, each with a non-vacuity `example`.
-/
import Nitime.Model.C01
import Nitime.Lemmas.F64
import Nitime.Lemmas.F64Bound

namespace Nitime.C01.Props
open Nitime Nitime.C01 Nitime.Generated

/-- the generated table is the SI table (and `None` means seconds) -/
theorem factor_is_SI :
    factor .ps = 1 ∧ factor .ns = 10^3 ∧ factor .us = 10^6 ∧ factor .ms = 10^9 ∧
    factor .s = 10^12 ∧ factor .m = 60 * 10^12 ∧ factor .h = 3600 * 10^12 ∧
    factor .D = 86400 * 10^12 ∧ factor .W = 604800 * 10^12 ∧ factorNone = factor .s ∧
    extraUnits = [] := by
  decide

/-- every conversion factor is exactly representable in binary64, so the python-int → float
conversion numpy performs before multiplying loses nothing -/
theorem factor_exact_in_f64 (u : TimeUnit) : F64.ofInt (factor u : Int) = (factor u : Rat) := by
  cases u <;> decide +kernel

/-- integers are stored exactly -/
theorem toPs_int_exact (u : TimeUnit) (v : Int) : ((toPs u (.int v) : Int) : Rat) = (v : Rat) * (factor u : Rat) := by
  simp [toPs, toPsF]

/-- floats: nearest picosecond to the binary64 product -/
theorem toPs_flt_nearest_of_product (u : TimeUnit) (x : Rat) :
    |((toPs u (.flt x) : Int) : Rat) - F64.fmul x (factor u : Rat)| ≤ 1 / 2 := by
  simp only [toPs, toPsF, factor_exact_in_f64]
  exact F64.rint_near _

/-- floats, full strength: the stored payload is within half a picosecond plus the binary64
rounding (relative 2⁻⁵³) of the exact product `x · factor` -/
theorem toPs_flt_near (u : TimeUnit) (x : Rat) :
    |((toPs u (.flt x) : Int) : Rat) - x * (factor u : Rat)|
      ≤ 1 / 2 + |x * (factor u : Rat)| * F64.pow2 (-53) := by
  have h1 := toPs_flt_nearest_of_product u x
  have h2 := F64.rne_near (x * (factor u : Rat))
  have : ((toPs u (.flt x) : Int) : Rat) - x * (factor u : Rat)
      = (((toPs u (.flt x) : Int) : Rat) - F64.fmul x (factor u : Rat))
        + (F64.rne (x * (factor u : Rat)) - x * (factor u : Rat)) := by
    simp only [F64.fmul]; ring
  rw [this]
  exact (abs_add_le _ _).trans (add_le_add h1 h2)

/-- floats whose product with the factor is a representable whole number are stored exactly -/
theorem toPs_flt_exact_of_whole (u : TimeUnit) (x : Rat) (k : Int)
    (hk : x * (factor u : Rat) = (k : Rat)) (hr : F64.rne (k : Rat) = (k : Rat)) :
    toPs u (.flt x) = k := by
  simp only [toPs, toPsF, factor_exact_in_f64, F64.fmul, hk, hr]
  exact F64.rint_intCast k

/-- re-wrapping a time object (any requested unit) keeps the instant -/
theorem rewrap_same_instant (u : Option TimeUnit) (t : TVal) :
    (ctorFrom u t).ps = t.ps ∧ (ctorFrom u t).scalar = t.scalar ∧
    (ctorFrom u t).unit = u.getD t.unit := ⟨rfl, rfl, rfl⟩

/-- a list of 0-d time objects keeps every instant, in order; unit = requested or the first's -/
theorem rewrap_list_same_instants (u : Option TimeUnit) (t0 : TVal) (ts : List TVal)
    (h : ∀ t ∈ t0 :: ts, t.scalar = true ∧ ∃ p, t.ps = [p]) :
    ∃ r, ctorFromList u (t0 :: ts) = .ok r ∧ r.unit = u.getD t0.unit ∧
      r.ps = (t0 :: ts).flatMap (·.ps) ∧ r.ps.length = (t0 :: ts).length := by
  have hall : (t0 :: ts).all (fun t => t.scalar) = true := by
    rw [List.all_eq_true]; intro t ht; exact (h t ht).1
  refine ⟨{ ps := (t0 :: ts).flatMap (·.ps), unit := u.getD t0.unit, scalar := false }, ?_, rfl, rfl, ?_⟩
  · simp only [ctorFromList, hall, if_true]
  have : ∀ l : List TVal, (∀ t ∈ l, t.scalar = true ∧ ∃ p, t.ps = [p]) → (l.flatMap (·.ps)).length = l.length := by
    intro l
    induction l with
    | nil => intro _; rfl
    | cons a l ih =>
      intro hl
      obtain ⟨_, p, hp⟩ := hl a (List.mem_cons_self)
      simp only [List.flatMap_cons, List.length_append, hp, List.length_cons, List.length_nil]
      rw [ih (fun t ht => hl t (List.mem_cons_of_mem _ ht))]; omega
  exact this _ h

/-- `convert_unit` relabels only -/
theorem convertUnit_same_instant (t : TVal) (u : TimeUnit) :
    (convertUnit t u).ps = t.ps ∧ (convertUnit t u).unit = u := ⟨rfl, rfl⟩

/-- equal instants written in different units have equal payloads -/
theorem equal_instants_equal_payload (u u' : TimeUnit) (v v' : Int)
    (h : v * (factor u : Int) = v' * (factor u' : Int)) : toPs u (.int v) = toPs u' (.int v') := by
  simpa [toPs, toPsF] using h

/-- e.g. 1 s = 1000 ms = 10^12 ps, 1 W = 7 D, for every integer count -/
theorem unit_ladder (v : Int) :
    toPs .s (.int v) = toPs .ms (.int (1000 * v)) ∧ toPs .s (.int v) = toPs .ps (.int (10^12 * v)) ∧
    toPs .W (.int v) = toPs .D (.int (7 * v)) ∧ toPs .D (.int v) = toPs .h (.int (24 * v)) ∧
    toPs .h (.int v) = toPs .m (.int (60 * v)) ∧ toPs .m (.int v) = toPs .s (.int (60 * v)) := by
  simp only [toPs, toPsF, factor]
  refine ⟨?_, ?_, ?_, ?_, ?_, ?_⟩ <;> push_cast <;> ring

/-- the payload an operand contributes: time objects as they are, bare numbers read in the
time operand's own unit -/
theorem operand_payload (self : TVal) :
    (∀ t, (convertIfNeeded self (.time t)).1 = t.ps) ∧
    (∀ sc xs, (convertIfNeeded self (.bare sc xs)).1 = (asarray xs).map (toPs self.unit)) := by
  refine ⟨fun _ => rfl, fun sc xs => ?_⟩
  simp [convertIfNeeded, ctorNums, factorOpt, toPs]

/-- equal-shape arithmetic is exact integer arithmetic on picoseconds, element by element, and
the result carries the unit of `self` (the left operand when both are time objects) -/
theorem arith_exact (op : ArithOp) (self : TVal) (val : Operand)
    (hlen : self.ps.length = (convertIfNeeded self val).1.length) :
    ∃ r, arith op self val = .ok r ∧ r.unit = self.unit ∧
      r.ps = List.zipWith op.fn self.ps (convertIfNeeded self val).1 := by
  unfold arith broadcast
  rcases h : convertIfNeeded self val with ⟨b, sb⟩
  rw [h] at hlen
  simp [hlen]

/-- a 0-d (or length-1) operand is applied to every element -/
theorem arith_broadcast_scalar (op : ArithOp) (self : TVal) (val : Operand) (y : Int)
    (hy : (convertIfNeeded self val).1 = [y]) (hn : self.ps.length ≠ 1) :
    ∃ r, arith op self val = .ok r ∧ r.unit = self.unit ∧ r.ps = self.ps.map (fun x => op.fn x y) := by
  unfold arith broadcast
  rcases h : convertIfNeeded self val with ⟨b, sb⟩
  rw [h] at hy; subst hy
  have : ¬ self.ps.length = [y].length := by simpa using hn
  rcases hps : self.ps with _ | ⟨x, _ | ⟨x', l⟩⟩
  · simp [hps] at this ⊢
  · simp [hps] at hn
  · simp

theorem arith_fn_spec (a b : Int) :
    ArithOp.add.fn a b = a + b ∧ ArithOp.sub.fn a b = a - b ∧
    ArithOp.radd.fn a b = b + a ∧ ArithOp.rsub.fn a b = b - a := ⟨rfl, rfl, rfl, rfl⟩

/-- comparisons are comparisons of picoseconds -/
theorem compare_exact (op : CmpOp) (self : TVal) (val : Operand)
    (hlen : self.ps.length = (convertIfNeeded self val).1.length) :
    ∃ bs sc, compare op self val = .ok (bs, sc) ∧
      bs = List.zipWith op.fn self.ps (convertIfNeeded self val).1 := by
  unfold compare broadcast
  rcases h : convertIfNeeded self val with ⟨b, sb⟩
  rw [h] at hlen
  simp [hlen]

theorem cmp_fn_spec (a b : Int) :
    (CmpOp.lt.fn a b = true ↔ a < b) ∧ (CmpOp.le.fn a b = true ↔ a ≤ b) ∧
    (CmpOp.gt.fn a b = true ↔ a > b) ∧ (CmpOp.ge.fn a b = true ↔ a ≥ b) ∧
    (CmpOp.eq.fn a b = true ↔ a = b) := by
  simp [CmpOp.fn]

/-- mismatched lengths (neither of length 1) are refused -/
theorem arith_rejects_mismatch (op : ArithOp) (self : TVal) (val : Operand)
    (h1 : self.ps.length ≠ (convertIfNeeded self val).1.length)
    (h2 : self.ps.length ≠ 1) (h3 : (convertIfNeeded self val).1.length ≠ 1) :
    arith op self val = .error .valueError := by
  unfold arith broadcast
  rcases h : convertIfNeeded self val with ⟨b, sb⟩
  rw [h] at h1 h3
  simp only [h1, if_false]
  rcases hps : self.ps with _ | ⟨x, _ | ⟨x', l⟩⟩ <;> rcases hb : b with _ | ⟨y, _ | ⟨y', l'⟩⟩ <;>
    simp_all

/-- reductions -/
theorem reduce_spec (t : TVal) (hne : t.ps ≠ []) :
    (∃ r, reduce .min t = .ok r ∧ r.unit = t.unit ∧ ∃ v, r.ps = [v] ∧ v ∈ t.ps ∧ ∀ x ∈ t.ps, v ≤ x) ∧
    (∃ r, reduce .max t = .ok r ∧ r.unit = t.unit ∧ ∃ v, r.ps = [v] ∧ v ∈ t.ps ∧ ∀ x ∈ t.ps, x ≤ v) ∧
    (∃ r, reduce .sum t = .ok r ∧ r.unit = t.unit ∧ r.ps = [t.ps.sum]) ∧
    (∃ r, reduce .ptp t = .ok r ∧ r.unit = t.unit ∧ r.ps = [listMax t.ps - listMin t.ps]) := by
  have he : t.ps.isEmpty = false := by simpa using hne
  have hr : ∀ op, reduce op t = .ok { ps := [match op with
      | .min => listMin t.ps | .max => listMax t.ps | .sum => listSum t.ps
      | .ptp => listMax t.ps - listMin t.ps], unit := t.unit, scalar := true } := by
    intro op; simp only [reduce, he]; rfl
  refine ⟨⟨_, hr .min, rfl, _, rfl, listMin_mem hne, listMin_le⟩,
          ⟨_, hr .max, rfl, _, rfl, listMax_mem hne, le_listMax⟩,
          ⟨_, hr .sum, rfl, by simp [listSum_eq]⟩,
          ⟨_, hr .ptp, rfl, rfl⟩⟩

/-- inside the property's domain nothing wraps in int64 -/
theorem fits62_no_wrap (a b : Int) (ha : |a| < 2^62) (hb : |b| < 2^62) :
    |a + b| < 2^63 ∧ |a - b| < 2^63 := by
  constructor <;> (rw [abs_lt] at *; omega)

/-! non-vacuity: concrete non-trivial states meeting the hypotheses -/
example : toPs .m (.flt (11/5)) = 132000000000000 := by decide +kernel
example : toPs .s (.int 3) = toPs .ms (.int 3000) := (unit_ladder 3).1 ▸ rfl
example : ∃ r, arith .sub ⟨[5, 7], .ms, false⟩ (.bare true [.int 1]) = .ok r ∧ r.ps = [5 - 1000000000, 7 - 1000000000] :=
  ⟨_, rfl, by decide⟩
example : ((reduce .ptp ⟨[3, -2, 9], .us, false⟩).toOption.map (·.ps)) = some [11] := by decide

end Nitime.C01.Props
