/-
C01 — property theorems for the time-value model (`Nitime.C01`).
Helper lemmas live in `Nitime/Lemmas`; this file holds only the statements that the property
is made of, each with a non-vacuity `example`.
-/
import Nitime.Model.C01
import Nitime.Lemmas.F64
import Nitime.Lemmas.F64Bound
import Nitime.Lemmas.C01Hist

namespace Nitime.C01.Props
open Nitime Nitime.C01 Nitime.Generated

/-- the generated table is the SI table (and `None` means seconds) -/
theorem factor_is_SI :
    factor .ps = 1 ∧ factor .ns = 10^3 ∧ factor .us = 10^6 ∧ factor .ms = 10^9 ∧
    factor .s = 10^12 ∧ factor .m = 60 * 10^12 ∧ factor .h = 3600 * 10^12 ∧
    factor .D = 86400 * 10^12 ∧ factor .W = 604800 * 10^12 ∧ factorNone = factor .s ∧
    extraUnits = [] := by
  decide

/-- every conversion factor is exactly representable in binary64, so the python-int → float
conversion numpy performs before multiplying loses nothing -/
theorem factor_exact_in_f64 (u : TimeUnit) : F64.ofInt (factor u : Int) = (factor u : Rat) := by
  cases u <;> decide +kernel

/-- integers are stored exactly -/
theorem toPs_int_exact (u : TimeUnit) (v : Int) : ((toPs u (.int v) : Int) : Rat) = (v : Rat) * (factor u : Rat) := by
  simp [toPs, toPsF]

/-- floats: nearest picosecond to the binary64 product -/
theorem toPs_flt_nearest_of_product (u : TimeUnit) (x : Rat) :
    |((toPs u (.flt x) : Int) : Rat) - F64.fmul x (factor u : Rat)| ≤ 1 / 2 := by
  simp only [toPs, toPsF, factor_exact_in_f64]
  exact F64.rint_near _

/-- floats, full strength: the stored payload is within half a picosecond plus the binary64
rounding (relative 2⁻⁵³) of the exact product `x · factor` -/
theorem toPs_flt_near (u : TimeUnit) (x : Rat) :
    |((toPs u (.flt x) : Int) : Rat) - x * (factor u : Rat)|
      ≤ 1 / 2 + |x * (factor u : Rat)| * F64.pow2 (-53) := by
  have h1 := toPs_flt_nearest_of_product u x
  have h2 := F64.rne_near (x * (factor u : Rat))
  have : ((toPs u (.flt x) : Int) : Rat) - x * (factor u : Rat)
      = (((toPs u (.flt x) : Int) : Rat) - F64.fmul x (factor u : Rat))
        + (F64.rne (x * (factor u : Rat)) - x * (factor u : Rat)) := by
    simp only [F64.fmul]; ring
  rw [this]
  exact (abs_add_le _ _).trans (add_le_add h1 h2)

/-- floats whose product with the factor is a representable whole number are stored exactly -/
theorem toPs_flt_exact_of_whole (u : TimeUnit) (x : Rat) (k : Int)
    (hk : x * (factor u : Rat) = (k : Rat)) (hr : F64.rne (k : Rat) = (k : Rat)) :
    toPs u (.flt x) = k := by
  simp only [toPs, toPsF, factor_exact_in_f64, F64.fmul, hk, hr]
  exact F64.rint_intCast k

/-- re-wrapping a time object (any requested unit) keeps the instant -/
theorem rewrap_same_instant (u : Option TimeUnit) (t : TVal) :
    (ctorFrom u t).ps = t.ps ∧ (ctorFrom u t).scalar = t.scalar ∧
    (ctorFrom u t).unit = u.getD t.unit := ⟨rfl, rfl, rfl⟩

/-- a list of 0-d time objects keeps every instant, in order; unit = requested or the first's -/
theorem rewrap_list_same_instants (u : Option TimeUnit) (t0 : TVal) (ts : List TVal)
    (h : ∀ t ∈ t0 :: ts, t.scalar = true ∧ ∃ p, t.ps = [p]) :
    ∃ r, ctorFromList u (t0 :: ts) = .ok r ∧ r.unit = u.getD t0.unit ∧
      r.ps = (t0 :: ts).flatMap (·.ps) ∧ r.ps.length = (t0 :: ts).length := by
  have hall : (t0 :: ts).all (fun t => t.scalar) = true := by
    rw [List.all_eq_true]; intro t ht; exact (h t ht).1
  refine ⟨{ ps := (t0 :: ts).flatMap (·.ps), unit := u.getD t0.unit, scalar := false }, ?_, rfl, rfl, ?_⟩
  · simp only [ctorFromList, hall, if_true]
  have : ∀ l : List TVal, (∀ t ∈ l, t.scalar = true ∧ ∃ p, t.ps = [p]) → (l.flatMap (·.ps)).length = l.length := by
    intro l
    induction l with
    | nil => intro _; rfl
    | cons a l ih =>
      intro hl
      obtain ⟨_, p, hp⟩ := hl a (List.mem_cons_self)
      simp only [List.flatMap_cons, List.length_append, hp, List.length_cons, List.length_nil]
      rw [ih (fun t ht => hl t (List.mem_cons_of_mem _ ht))]; omega
  exact this _ h

/-- `convert_unit` relabels only -/
theorem convertUnit_same_instant (t : TVal) (u : TimeUnit) :
    (convertUnit t u).ps = t.ps ∧ (convertUnit t u).unit = u := ⟨rfl, rfl⟩

/-- equal instants written in different units have equal payloads -/
theorem equal_instants_equal_payload (u u' : TimeUnit) (v v' : Int)
    (h : v * (factor u : Int) = v' * (factor u' : Int)) : toPs u (.int v) = toPs u' (.int v') := by
  simpa [toPs, toPsF] using h

/-- e.g. 1 s = 1000 ms = 10^12 ps, 1 W = 7 D, for every integer count -/
theorem unit_ladder (v : Int) :
    toPs .s (.int v) = toPs .ms (.int (1000 * v)) ∧ toPs .s (.int v) = toPs .ps (.int (10^12 * v)) ∧
    toPs .W (.int v) = toPs .D (.int (7 * v)) ∧ toPs .D (.int v) = toPs .h (.int (24 * v)) ∧
    toPs .h (.int v) = toPs .m (.int (60 * v)) ∧ toPs .m (.int v) = toPs .s (.int (60 * v)) := by
  simp only [toPs, toPsF, factor]
  refine ⟨?_, ?_, ?_, ?_, ?_, ?_⟩ <;> push_cast <;> ring

/-- the payload an operand contributes: time objects as they are, bare numbers read in the
time operand's own unit -/
theorem operand_payload (self : TVal) :
    (∀ t, (convertIfNeeded self (.time t)).1 = t.ps) ∧
    (∀ sc xs, (convertIfNeeded self (.bare sc xs)).1 = (asarray xs).map (toPs self.unit)) := by
  refine ⟨fun _ => rfl, fun sc xs => ?_⟩
  simp [convertIfNeeded, ctorNums, factorOpt, toPs]

/-- equal-shape arithmetic is exact integer arithmetic on picoseconds, element by element, and
the result carries the unit of `self` (the left operand when both are time objects) -/
theorem arith_exact (op : ArithOp) (self : TVal) (val : Operand)
    (hlen : self.ps.length = (convertIfNeeded self val).1.length) :
    ∃ r, arith op self val = .ok r ∧ r.unit = self.unit ∧
      r.ps = List.zipWith op.fn self.ps (convertIfNeeded self val).1 := by
  unfold arith broadcast
  rcases h : convertIfNeeded self val with ⟨b, sb⟩
  rw [h] at hlen
  simp [hlen]

/-- a 0-d (or length-1) operand is applied to every element -/
theorem arith_broadcast_scalar (op : ArithOp) (self : TVal) (val : Operand) (y : Int)
    (hy : (convertIfNeeded self val).1 = [y]) (hn : self.ps.length ≠ 1) :
    ∃ r, arith op self val = .ok r ∧ r.unit = self.unit ∧ r.ps = self.ps.map (fun x => op.fn x y) := by
  unfold arith broadcast
  rcases h : convertIfNeeded self val with ⟨b, sb⟩
  rw [h] at hy; subst hy
  have : ¬ self.ps.length = [y].length := by simpa using hn
  rcases hps : self.ps with _ | ⟨x, _ | ⟨x', l⟩⟩
  · simp [hps] at this ⊢
  · simp [hps] at hn
  · simp

theorem arith_fn_spec (a b : Int) :
    ArithOp.add.fn a b = a + b ∧ ArithOp.sub.fn a b = a - b ∧
    ArithOp.radd.fn a b = b + a ∧ ArithOp.rsub.fn a b = b - a := ⟨rfl, rfl, rfl, rfl⟩

/-- comparisons are comparisons of picoseconds -/
theorem compare_exact (op : CmpOp) (self : TVal) (val : Operand)
    (hlen : self.ps.length = (convertIfNeeded self val).1.length) :
    ∃ bs sc, compare op self val = .ok (bs, sc) ∧
      bs = List.zipWith op.fn self.ps (convertIfNeeded self val).1 := by
  unfold compare broadcast
  rcases h : convertIfNeeded self val with ⟨b, sb⟩
  rw [h] at hlen
  simp [hlen]

theorem cmp_fn_spec (a b : Int) :
    (CmpOp.lt.fn a b = true ↔ a < b) ∧ (CmpOp.le.fn a b = true ↔ a ≤ b) ∧
    (CmpOp.gt.fn a b = true ↔ a > b) ∧ (CmpOp.ge.fn a b = true ↔ a ≥ b) ∧
    (CmpOp.eq.fn a b = true ↔ a = b) := by
  simp [CmpOp.fn]

/-- mismatched lengths (neither of length 1) are refused -/
theorem arith_rejects_mismatch (op : ArithOp) (self : TVal) (val : Operand)
    (h1 : self.ps.length ≠ (convertIfNeeded self val).1.length)
    (h2 : self.ps.length ≠ 1) (h3 : (convertIfNeeded self val).1.length ≠ 1) :
    arith op self val = .error .valueError := by
  unfold arith broadcast
  rcases h : convertIfNeeded self val with ⟨b, sb⟩
  rw [h] at h1 h3
  simp only [h1, if_false]
  rcases hps : self.ps with _ | ⟨x, _ | ⟨x', l⟩⟩ <;> rcases hb : b with _ | ⟨y, _ | ⟨y', l'⟩⟩ <;>
    simp_all

/-- reductions -/
theorem reduce_spec (t : TVal) (hne : t.ps ≠ []) :
    (∃ r, reduce .min t = .ok r ∧ r.unit = t.unit ∧ ∃ v, r.ps = [v] ∧ v ∈ t.ps ∧ ∀ x ∈ t.ps, v ≤ x) ∧
    (∃ r, reduce .max t = .ok r ∧ r.unit = t.unit ∧ ∃ v, r.ps = [v] ∧ v ∈ t.ps ∧ ∀ x ∈ t.ps, x ≤ v) ∧
    (∃ r, reduce .sum t = .ok r ∧ r.unit = t.unit ∧ r.ps = [t.ps.sum]) ∧
    (∃ r, reduce .ptp t = .ok r ∧ r.unit = t.unit ∧ r.ps = [listMax t.ps - listMin t.ps]) := by
  have he : t.ps.isEmpty = false := by simpa using hne
  have hr : ∀ op, reduce op t = .ok { ps := [match op with
      | .min => listMin t.ps | .max => listMax t.ps | .sum => listSum t.ps
      | .ptp => listMax t.ps - listMin t.ps], unit := t.unit, scalar := true } := by
    intro op; simp only [reduce, he]; rfl
  refine ⟨⟨_, hr .min, rfl, _, rfl, listMin_mem hne, listMin_le⟩,
          ⟨_, hr .max, rfl, _, rfl, listMax_mem hne, le_listMax⟩,
          ⟨_, hr .sum, rfl, by simp [listSum_eq]⟩,
          ⟨_, hr .ptp, rfl, rfl⟩⟩

/-- inside the property's domain nothing wraps in int64 -/
theorem fits62_no_wrap (a b : Int) (ha : |a| < 2^62) (hb : |b| < 2^62) :
    |a + b| < 2^63 ∧ |a - b| < 2^63 := by
  constructor <;> (rw [abs_lt] at *; omega)

/-! ### live objects: unit label and conversion factor as two attributes (session 3) -/
open Nitime.C01Attr

/-- the attribute discipline GENERATED from today's source (every return path of `TimeArray.__new__` per
(copy, time-object input), `__array_finalize__` of both classes, `convert_unit`) keeps label and factor
together: constructor and `convert_unit` paths write the requested label and the table's factor OF THAT
LABEL, views inherit both, a view of a bare array gets a literal label and its factor -/
theorem generated_discipline_consistent :
    Discipline.current.consistent = true ∧ Discipline.currentUniform.consistent = true := by
  decide

/-- which reductions re-label a freshly constructed result and which hand out an element view (generated) -/
theorem generated_reductions_pinned :
    (["min", "max", "sum", "ptp"].map Generated.C01Ctor.timeArrayReduction = [.relabel, .view, .relabel, .relabel]) ∧
    (["min", "max", "sum", "ptp"].map Generated.C01Ctor.uniformReduction = [.view, .view, .missing, .missing]) ∧
    Generated.C01Ctor.uniformHasConvertUnit = false ∧ Generated.C01Ctor.uniformNew = [⟨.arg, .tableOfLabel⟩] := by
  decide

/-- INVARIANT over operation histories: from a time object whose factor is the factor of its label, every
object made by any sequence of re-wrapping (copy True / False, unit given / None), `convert_unit`, views
(slices, elements, fancy indexing, view casts, copies), views of bare arrays / unpickling, reductions and
arithmetic — under ANY consistent discipline — again has `factor = factor_of(label)` -/
theorem label_factor_consistent (D : Discipline) (hD : D.consistent = true) (o : TObj)
    (h : o.attrs.fac = factor o.attrs.label) (ss : List Step) :
    ∀ o' ∈ trace D o ss, o'.attrs.fac = factor o'.attrs.label :=
  trace_inv hD o h ss

/-- … in particular for today's source, from any constructed value -/
theorem label_factor_consistent_current (src : TVal) (ss : List Step) :
    (∀ o' ∈ trace Discipline.current (TObj.ofTVal src) ss, o'.attrs.fac = factor o'.attrs.label) ∧
    (∀ o' ∈ trace Discipline.currentUniform (TObj.ofTVal src) ss, o'.attrs.fac = factor o'.attrs.label) :=
  ⟨trace_inv generated_discipline_consistent.1 (TObj.ofTVal src) (show (TObj.ofTVal src).attrs.fac = _ from rfl) ss,
   trace_inv generated_discipline_consistent.2 (TObj.ofTVal src) (show (TObj.ofTVal src).attrs.fac = _ from rfl) ss⟩

theorem arith_unit {op : ArithOp} {self : TVal} {val : Operand} {t : TVal} (ha : arith op self val = .ok t) :
    t.unit = self.unit := by
  unfold arith at ha
  generalize convertIfNeeded self val = c at ha
  obtain ⟨b, sb⟩ := c
  simp only at ha
  cases hb : broadcast op.fn self.ps self.scalar b sb with
  | error e => simp [hb] at ha
  | ok r => simp only [hb, Except.ok.injEq] at ha; subst ha; rfl

/-- hence every object of a history reads bare numbers in the unit IT REPORTS: the operators on live
objects are the operators of the value model (`arith`, `compare`: `arith_exact`, `compare_exact`, … apply) -/
theorem history_reads_in_own_unit (D : Discipline) (hD : D.consistent = true) (o : TObj)
    (h : o.attrs.fac = factor o.attrs.label) (ss : List Step) (o' : TObj) (ho' : o' ∈ trace D o ss)
    (val : Operand) :
    convertIfNeededO o' val = convertIfNeeded o'.toTVal val ∧
    (∀ op, (arithO D op o' val).map TObj.toTVal = arith op o'.toTVal val) ∧
    (∀ op, compareO op o' val = compare op o'.toTVal val) := by
  have hi : o'.Inv := trace_inv hD o h ss o' ho'
  have hc := convertIfNeededO_eq o' hi val
  refine ⟨hc, fun op => ?_, fun op => ?_⟩
  · have := stepO_ar hD o' hi op val
    rw [show stepO D o' (.ar op val) = arithO D op o' val from rfl] at this
    rw [this]
    cases ha : arith op o'.toTVal val with
    | error e => rfl
    | ok t =>
      have hu : t.unit = o'.attrs.label := arith_unit ha
      simp only [Except.map, TObj.toTVal, ← hu]
  · simp only [compareO, compare, hc]
    rfl

/-- the steps of a history, described by the value model: re-wrapping = `ctorFrom` (instant kept, unit =
requested or the source's — whatever `copy` is), `convert_unit` = `convertUnit`, reductions = `reduce`,
arithmetic = `arith`; views keep the label and select payload; a stripped view keeps the payload -/
theorem history_steps_follow_value_model (D : Discipline) (hD : D.consistent = true) (o : TObj)
    (h : o.attrs.fac = factor o.attrs.label) :
    (∀ u c, (stepO D o (.wrap u c)).map TObj.toTVal = .ok (ctorFrom u o.toTVal)) ∧
    (∀ u, (stepO D o (.conv u)).map TObj.toTVal = .ok (convertUnit o.toTVal u)) ∧
    (∀ k, ∃ o', stepO D o (.view k) = .ok o' ∧ o'.attrs = o.attrs ∧ (o'.ps, o'.scalar) = k.payload (o.ps, o.scalar)) ∧
    (∃ o', stepO D o .strip = .ok o' ∧ o'.ps = o.ps ∧ o'.scalar = o.scalar) ∧
    (∀ r, (stepO D o (.red r)).map TObj.toTVal = reduce r o.toTVal) ∧
    (∀ op v, (stepO D o (.ar op v)).map TObj.toTVal = arith op o.toTVal v) := by
  refine ⟨fun u c => ?_, fun u => ?_, fun k => ?_, ?_, fun r => ?_, fun op v => ?_⟩
  · rw [stepO_wrap hD]; rfl
  · rw [stepO_conv hD]; rfl
  · exact ⟨_, stepO_view hD o k, rfl, rfl⟩
  · obtain ⟨a, _, e⟩ := stepO_strip hD o
    exact ⟨_, e, rfl, rfl⟩
  · by_cases he : o.ps.isEmpty = true
    · simp [stepO, reduce, he, TObj.toTVal, Except.map]
    · have he0 : o.ps.isEmpty = false := by simpa using he
      rw [stepO_red hD o h r he0]
      simp only [reduce, TObj.toTVal, he0, Bool.false_eq_true, if_false, Except.map]
      cases r <;> rfl
  · have hl := (history_reads_in_own_unit D hD o h [] o (by simp [trace]) v).2.1 op
    simpa [stepO] using hl

/-- the discipline of a `copy=False` fast path that returns `data.view(cls)` after setting only the label -/
def Discipline.fastPath : Discipline :=
  { Discipline.current with
    new := fun c t => if !c && t then [⟨.arg, .unset⟩] else Discipline.current.new c t }

/-- COUNTEREXAMPLE for that discipline: it is not consistent, and `TimeArray(t_ms, time_unit='s', copy=False) + 1`
says seconds but adds 10⁹ ps (one millisecond); today's discipline adds 10¹² ps -/
theorem stale_factor_counterexample :
    Discipline.fastPath.consistent = false ∧
    (let o := lastO Discipline.fastPath ⟨[0, 5], false, ⟨.ms, factor .ms⟩⟩ [.wrap (some .s) false, .view (.item 1)]
     o.attrs.label = .s ∧ o.attrs.fac = 10^9 ∧ o.attrs.fac ≠ factor o.attrs.label ∧
     (arithO Discipline.fastPath .add o (.bare true [.int 1])).toOption.map (·.ps) = some [5 + 10^9]) ∧
    (let o := lastO Discipline.current ⟨[0, 5], false, ⟨.ms, factor .ms⟩⟩ [.wrap (some .s) false, .view (.item 1)]
     o.attrs.label = .s ∧ o.attrs.fac = factor .s ∧
     (arithO Discipline.current .add o (.bare true [.int 1])).toOption.map (·.ps) = some [5 + 10^12]) := by
  decide


/-! ### failure paths (round 2, class L7) -/

/-- GENERATED obligation (`Generated/C01Fail.lean`, re-checked against the current source on every run): in
`convert_unit` no attribute is written before something that can still raise (the table look-up with the argument,
a guarded `raise`), the constructor never writes to its `data` argument, and the only methods that write the two
attributes of `self` are `__array_finalize__` and `convert_unit` -/
theorem generated_failure_paths_atomic :
    FailDiscipline.current.atomicAll = true ∧ FailDiscipline.currentUniform.atomicAll = true ∧
    Generated.C01Fail.timeArrayAttrWriters = ["__array_finalize__", "convert_unit"] ∧
    Generated.C01Fail.uniformAttrWriters = ["__array_finalize__"] := by
  decide

/-- the two generated views of `convert_unit` agree: for every unit name the events write both attributes and do not
raise — label = the argument, factor = the table's factor of it (what the return-path table `convertUnit` says) -/
theorem convert_events_agree_with_path (u : TimeUnit) (st : RawAttrs) :
    execEvents FailDiscipline.current.convertEvents (.unit u) st = (⟨some u, factor u⟩, false) ∧
    (execEvents FailDiscipline.current.convertEvents .bogus st).2 = true := by
  constructor
  · cases u <;> rfl
  · rfl

/-- REFUSED CALLS LEAVE OBJECTS UNCHANGED, for every history.  Under any failure discipline with the generated
side condition (`atomicAll`: no write before a possible raise; the constructor does not touch its argument) and for
covered steps (a refused method is not one of the attribute writers):
 (1) a refused `convert_unit(None | 'bogus' | …)`, a refused constructor call on the object, a refused operator /
     reduction / lookup leaves label AND factor as they were, and the history goes on with the very same object;
 (2) whether a call is refused depends on the argument only;
 (3) any history with refused calls anywhere in it ends with the object the accepted calls alone produce;
 (4) every object of such a history still has `factor = factor_of(label)` — so bare numbers are read in the unit the
     object reports (`history_reads_in_own_unit`), also right after a refusal. -/
theorem refused_steps_leave_objects_unchanged (D : Discipline) (F : FailDiscipline) (hF : F.atomicAll = true) :
    (∀ (o : TObj) (b : BadStep), (HStep.bad b).covered F = true → (stepBad D F o b).refused = true →
      (stepBad D F o b).raw = o.attrs.raw ∧ (stepBad D F o b).next = some o) ∧
    (∀ (a : UnitArg) (st st' : RawAttrs), (execEvents F.convertEvents a st).2 = (execEvents F.convertEvents a st').2) ∧
    (∀ (o : TObj) (hs : List HStep), (∀ h ∈ hs, h.covered F = true) →
      curX D F o hs = cur D o (hs.filterMap (HStep.accepted? F))) ∧
    (D.consistent = true → ∀ (o : TObj), o.attrs.fac = factor o.attrs.label → ∀ (hs : List HStep),
      (∀ h ∈ hs, h.covered F = true) → ∀ o' ∈ traceX D F o hs, o'.attrs.fac = factor o'.attrs.label) :=
  ⟨fun o b hc hr => stepBad_refused D hF o b hc hr,
   fun a st st' => execEvents_raised_indep _ a st st',
   fun o hs hc => curX_eq_cur D hF o hs hc,
   fun hD o h hs hc => traceX_inv hD hF o h hs hc⟩

/-- … for today's source -/
theorem refused_steps_leave_objects_unchanged_current (src : TVal) (hs : List HStep)
    (hc : ∀ h ∈ hs, h.covered FailDiscipline.current = true) :
    curX Discipline.current FailDiscipline.current (TObj.ofTVal src) hs =
      cur Discipline.current (TObj.ofTVal src) (hs.filterMap (HStep.accepted? FailDiscipline.current)) ∧
    ∀ o' ∈ traceX Discipline.current FailDiscipline.current (TObj.ofTVal src) hs, o'.attrs.fac = factor o'.attrs.label :=
  ⟨curX_eq_cur _ generated_failure_paths_atomic.1 _ hs hc,
   traceX_inv generated_discipline_consistent.1 generated_failure_paths_atomic.1 _ (show (TObj.ofTVal src).attrs.fac = _ from rfl) hs hc⟩

/-- validate-after-write (`factor` assigned inside the `try`, `None` refused afterwards, label written last) -/
def FailDiscipline.validateLate : FailDiscipline :=
  { FailDiscipline.current with convertEvents := [.lookup, .writeFactor, .raiseIfNone, .writeLabel] }

/-- label written before the look-up that raises for an invalid unit -/
def FailDiscipline.labelFirst : FailDiscipline :=
  { FailDiscipline.current with convertEvents := [.writeLabel, .lookup, .writeFactor] }

/-- COUNTEREXAMPLES (partial updates).  `validateLate`: not atomic; `t_ms.convert_unit(None)` is refused, the object
still says `ms` but its factor is 10¹² — `t + 1` adds 10¹² ps (a second, not a millisecond).  `labelFirst`: not atomic;
a refused `convert_unit('bogus')` leaves an object whose label names no unit.  With today's events both calls leave
(ms, 10⁹) and `t + 1` adds 10⁹ ps. -/
theorem partial_update_counterexample :
    (let o : TObj := ⟨[0, 5], false, ⟨.ms, factor .ms⟩⟩
     FailDiscipline.validateLate.atomicAll = false ∧
     (let out := stepBad Discipline.current FailDiscipline.validateLate o (.conv .none)
      out.refused = true ∧ out.raw = ⟨some .ms, 10^12⟩ ∧
      (out.next.bind fun o' => (arithO Discipline.current .add o' (.bare true [.int 1])).toOption.map (·.ps)) = some [10^12, 5 + 10^12]) ∧
     FailDiscipline.labelFirst.atomicAll = false ∧
     (let out := stepBad Discipline.current FailDiscipline.labelFirst o (.conv .bogus)
      out.refused = true ∧ out.raw = ⟨none, 10^9⟩ ∧ out.next = none) ∧
     (∀ a ∈ [UnitArg.bogus],
      let out := stepBad Discipline.current FailDiscipline.current o (.conv a)
      out.refused = true ∧ out.raw = ⟨some .ms, 10^9⟩ ∧
      (out.next.bind fun o' => (arithO Discipline.current .add o' (.bare true [.int 1])).toOption.map (·.ps)) = some [10^9, 5 + 10^9])) := by
  decide

/-! ### round 4 (class "L3, sharper"): the comparison FORM of every flag / optional-parameter test is generated and pinned -/
open Nitime.C01Attr in
/-- GENERATED table, pinned (`decide`): the form under which the no-copy branch is taken, the tests of `TimeArray.__new__`
literally, and — literally, in source order — EVERY test in the constructors and methods of the six time classes whose form is
not an identity test with `None`.  A lint-style rewrite (`copy == False` → `not copy`, `t0 is None` → `not t0`) changes the
generated fact and re-opens this obligation; a NEW `is None` test of a new optional parameter does not. -/
theorem generated_flag_forms_pinned :
    Generated.C01Ctor.copyTest = .eqFalse ∧
    Generated.C01Ctor.flagTests.filter (fun t => t.fn == "TimeArray.__new__") =
      [⟨"TimeArray.__new__", "time_unit", .isNone⟩, ⟨"TimeArray.__new__", "copy", .eqFalse⟩,
       ⟨"TimeArray.__new__", "time_unit", .isNone⟩] ∧
    Generated.C01Ctor.flagTests.filter (fun t => !(t.form == .isNone || t.form == .isNotNone)) =
      [⟨"TimeArray.__new__", "copy", .eqFalse⟩, ⟨"UniformTime.index_at", "boolean", .truthy⟩,
       ⟨"Frequency.__new__", "isinstance(f,Frequency)", .eqFalse⟩, ⟨"Events.__init__", "indices", .truthy⟩,
       ⟨"Events.__init__", "indices", .truthy⟩] ∧
    Generated.C01Ctor.flagTests.length ≥ 50 := by
  decide

open Nitime.C01Attr in
/-- what the pinned table MEANS: optional parameters (default `None`) are tested by identity with `None` only — so `0`, `0.0`,
`''`, `[]`, `np.False_` are VALUES, never "not given"; the only other forms are `copy == False`, `isinstance(f, Frequency) == False`
(a plain boolean) and truthiness of the documented booleans `boolean` (index_at) and of `indices` (a list or `None`) -/
theorem generated_flag_forms_documented :
    Generated.C01Ctor.flagTests.all (fun t =>
      t.form == .isNone || t.form == .isNotNone ||
      (t.fn == "TimeArray.__new__" && t.param == "copy" && t.form == .eqFalse) ||
      (t.fn == "Frequency.__new__" && t.param == "isinstance(f,Frequency)" && t.form == .eqFalse) ||
      (t.fn == "UniformTime.index_at" && t.param == "boolean" && t.form == .truthy) ||
      (t.fn == "Events.__init__" && t.param == "indices" && t.form == .truthy)) = true := by
  decide

open Nitime.C01Attr in
/-- the NO-COPY branch of today's constructor is taken exactly for the flag values that ARE EQUAL to `False`
(`False`, `0`, `0.0`, `np.False_` / `np.bool_(0)`); `None`, `''`, `[]`, `True`, `1`, `'False'`, `np.True_` convert -/
theorem copy_flag_meaning (v : FlagVal) :
    Generated.C01Ctor.copyTest.holds v = v.eqFalse ∧
    (v.eqFalse = true ↔ v ∈ [FlagVal.pyFalse, .int0, .float0, .npFalse]) := by
  rw [generated_flag_forms_pinned.1]
  cases v <;> decide

open Nitime.C01Attr in
/-- the VALUE clause for every raw flag value: unless the flag equals `False`, `TimeArray(data, u, copy=v)` IS the value
model's constructor (`ctorNums`: integers exact, floats nearest — `toPs_int_exact`, `toPs_flt_near` apply), whatever the
dtype; a flag equal to `False` takes int64 data as base units (payload unchanged) and refuses anything else; a time object
keeps its instant under every flag; label = requested unit (default s / the source's) and factor = factor of the label always -/
theorem ctor_flag_value_exact (v : FlagVal) (u : Option TimeUnit) :
    (∀ int64 sc xs, v.eqFalse = false →
      ctorFlagCurrent v u (.nums int64 sc xs) = .ok (TObj.ofTVal (ctorNums u sc xs))) ∧
    (∀ sc xs, v.eqFalse = true →
      ctorFlagCurrent v u (.nums true sc xs) = .ok ⟨xs.map Num.raw, sc, ⟨u.getD .s, factor (u.getD .s)⟩⟩ ∧
      ctorFlagCurrent v u (.nums false sc xs) = .error .valueError) ∧
    (∀ t, ctorFlagCurrent v u (.time t) = .ok (TObj.ofTVal (ctorFrom u t))) ∧
    (∀ d o, ctorFlagCurrent v u d = .ok o → o.attrs.fac = factor o.attrs.label) := by
  have hm := (copy_flag_meaning v).1
  refine ⟨?_, ?_, ?_, ?_⟩
  · intro int64 sc xs h
    simp [ctorFlagCurrent, ctorFlag, hm, h]
  · intro sc xs h
    simp [ctorFlagCurrent, ctorFlag, hm, h, TObj.ofTVal]
  · intro t; rfl
  · intro d o h
    cases d with
    | time t => simp [ctorFlagCurrent, ctorFlag] at h; subst h; rfl
    | nums int64 sc xs =>
      simp only [ctorFlagCurrent, ctorFlag] at h
      split at h
      · split at h
        · simp at h; subst h; rfl
        · simp at h
      · simp at h; subst h; rfl

open Nitime.C01Attr in
/-- COUNTEREXAMPLE (the lint rewrite `if not copy:`): the truthiness form agrees with `== False` on `True`, `False`, `0`,
`0.0`, `1`, `np.False_`, `np.True_`, `'False'` — all the suite and ordinary callers use — and differs exactly on `None`, `''`,
`[]`: `TimeArray(np.array([3]), 's', copy=None)` is then 3 PICOSECONDS labelled seconds (today: 3·10¹² ps), and a python int
or a list is refused -/
theorem truthiness_flag_counterexample :
    (∀ v : FlagVal, FlagForm.notTruthy.holds v ≠ FlagForm.eqFalse.holds v ↔ v ∈ [FlagVal.pyNone, .emptyStr, .emptyList]) ∧
    (ctorFlag .notTruthy .pyNone (some .s) (.nums true false [.int 3])).toOption.map (fun o => (o.ps, o.attrs.label)) = some ([3], .s) ∧
    (ctorFlagCurrent .pyNone (some .s) (.nums true false [.int 3])).toOption.map (fun o => (o.ps, o.attrs.label)) = some ([3 * 10^12], .s) ∧
    (ctorFlag .notTruthy .emptyList (some .ms) (.nums false true [.int 3])).toOption = none ∧
    (ctorFlagCurrent .emptyList (some .ms) (.nums false true [.int 3])).toOption.map (·.ps) = some [3 * 10^9] := by
  refine ⟨?_, by decide, by decide, by decide, by decide⟩
  intro v; cases v <;> decide

open Nitime.C01Attr in
/-- for EVERY parameter of the six time classes whose tests are identity tests with `None` (all optional parameters today:
`generated_flag_forms_documented`), EVERY value other than `None` — `0`, `0.0`, `False`, `''`, `[]`, `np.False_`, `1`, `'False'` … —
is read as GIVEN by all of its tests together, and `None` as not given; `boolean` / `indices` (truthiness) are given iff truthy -/
theorem optional_params_given_iff_not_none (v : FlagVal) :
    (∀ t ∈ Generated.C01Ctor.flagTests, (t.form = .isNone ∨ t.form = .isNotNone) →
      paramGiven t.fn t.param v = some (v != .pyNone)) ∧
    (∀ t ∈ Generated.C01Ctor.flagTests, t.form = .truthy → paramGiven t.fn t.param v = some v.truthy) := by
  cases v <;> decide

open Nitime.C01Attr in
/-- COUNTEREXAMPLE: rewrite ONE of the two `t0 is None` tests of a constructor as `not t0` and the explicit start `0` / `0.0` /
`False` / `np.False_` is read as given by one test and as left out by the other; `1` and `None` are read as before -/
theorem mixed_forms_counterexample :
    let tests : List FlagTest := [⟨"C.__init__", "t0", .isNone⟩, ⟨"C.__init__", "t0", .notTruthy⟩]
    (∀ v ∈ [FlagVal.int0, .float0, .pyFalse, .npFalse, .emptyStr, .emptyList], paramGivenIn tests "C.__init__" "t0" v = none) ∧
    (∀ v ∈ [FlagVal.int1, .pyTrue, .npTrue, .strFalse], paramGivenIn tests "C.__init__" "t0" v = some true) ∧
    paramGivenIn tests "C.__init__" "t0" .pyNone = some false := by
  decide

/-! non-vacuity: concrete non-trivial states meeting the hypotheses -/
example : toPs .m (.flt (11/5)) = 132000000000000 := by decide +kernel
example : toPs .s (.int 3) = toPs .ms (.int 3000) := (unit_ladder 3).1 ▸ rfl
example : ∃ r, arith .sub ⟨[5, 7], .ms, false⟩ (.bare true [.int 1]) = .ok r ∧ r.ps = [5 - 1000000000, 7 - 1000000000] :=
  ⟨_, rfl, by decide⟩
example : ((reduce .ptp ⟨[3, -2, 9], .us, false⟩).toOption.map (·.ps)) = some [11] := by decide
example : (trace Discipline.current (TObj.ofTVal ⟨[1, 2, 3], .ms, false⟩)
    [.wrap (some .s) false, .view (.slice 0 3 2), .conv .us, .red .sum, .ar .add (.bare true [.int 2])]).map
      (fun o => (o.ps, o.attrs.label, o.attrs.fac)) =
    [([1, 2, 3], .ms, 10^9), ([1, 2, 3], .s, 10^12), ([1, 3], .s, 10^12), ([1, 3], .us, 10^6), ([4], .us, 10^6),
     ([2000004], .us, 10^6)] := by decide

example : (runX Discipline.current FailDiscipline.current (TObj.ofTVal ⟨[1, 2], .ms, false⟩)
    [.bad (.conv .bogus), .bad (.wrap .bogus), .ok (.conv .us), .bad (.call "max"), .ok (.view (.item 1))]).1 =
    ["T:ms:0:1,2~1000000000", "T:ms:0:1,2~1000000000", "T:ms:0:1,2~1000000000", "T:us:0:1,2~1000000", "T:us:0:1,2~1000000",
     "T:us:1:2~1000000"] := by decide

example : (Nitime.C01Attr.FlagVal.pyNone).eqFalse = false ∧ (Nitime.C01Attr.FlagVal.float0).eqFalse = true := by decide
example : (ctorFlagCurrent .float0 (some .ms) (.nums true false [.int 3, .int 4])).toOption.map (fun o => (o.ps, o.attrs.fac)) =
    some ([3, 4], 10^9) := by decide

end Nitime.C01.Props
