/-
C08 — property theorems for (a) the CACHE PATH of the coherency (`cache_fft` + `cache_to_coherency`,
`SparseCoherenceAnalyzer`, `SeedCoherenceAnalyzer`) judged by C08's own clauses: modulus ≤ 1, Hermitian across the
pair, value 1 of a channel with itself — obtained from C09's `cache_coherency_eq_dense` (the cached coherency IS the
dense Welch coherency, both memory settings, both normalisations) and the Welch theorems of `Props/C08.lean`;
(b) the read histories of `MTCoherenceAnalyzer.coherence` / `.confidence_interval` (object model `Model/C08Hist.lean`):
the confidence-interval / `normalize_coherence` chain is a pure function of the coherence and never writes to it.
Separate file because `Props/C09.lean` imports `Props/C08.lean`.
-/
import Nitime.Props.C09
import Nitime.Lemmas.C08Hist
import Nitime.Model.C08Retarget

open Finset ComplexConjugate
open Nitime.Coh Nitime.C08.Props Nitime.C09.Props

namespace Nitime.C08.CacheProps

/-- **|cache_to_coherency| ≤ 1**: every pair of real channels, every kept bin, any window with energy, both
`prefer_speed_over_memory` settings, both `scale_by_freq` settings, any number of windows -/
theorem cache_coherency_norm_le_one (b sbf : Bool) (w xi xj : List ℝ) {Fs : ℝ} (hFs : 0 < Fs) (N step l t : ℕ)
    (hW : 0 < W w N) (hlen : xj.length = xi.length) :
    ‖cacheCoherency b (w.map (↑)) (normVal (w.map (↑)) (Fs : ℂ) N sbf) N step (xi.map (↑)) (xj.map (↑)) l t‖ ≤ 1 := by
  rw [cache_coherency_eq_dense b sbf w xi xj hFs N step l t hW hlen]
  simp only [welchBin_self]
  exact coherencySpec_norm_le_one _
    (mul_nonneg (cW_nonneg w hFs.le ..) (sum_nonneg fun _ _ => Complex.normSq_nonneg _))
    (mul_nonneg (cW_nonneg w hFs.le ..) (sum_nonneg fun _ _ => Complex.normSq_nonneg _))
    (welch_cs w xi xj N step _ hlen)

/-- **Hermitian on the cache path**: asking for the pair (j, i) gives the conjugate of the pair (i, j) -/
theorem cache_coherency_hermitian (b sbf : Bool) (w xi xj : List ℝ) {Fs : ℝ} (hFs : 0 < Fs) (N step l t : ℕ)
    (hW : 0 < W w N) (hlen : xj.length = xi.length) :
    cacheCoherency b (w.map (↑)) (normVal (w.map (↑)) (Fs : ℂ) N sbf) N step (xj.map (↑)) (xi.map (↑)) l t
      = conj (cacheCoherency b (w.map (↑)) (normVal (w.map (↑)) (Fs : ℂ) N sbf) N step (xi.map (↑)) (xj.map (↑)) l t) := by
  rw [cache_coherency_eq_dense b sbf w xi xj hFs N step l t hW hlen,
    cache_coherency_eq_dense b sbf w xj xi hFs N step l t hW hlen.symm]
  exact welch_coherency_hermitian w xi xj hFs.le N step (l + t) hlen

/-- **a seed row of `SeedCoherenceAnalyzer` has modulus ≤ 1** whatever the other seeds are (one shared target cache) -/
theorem seed_row_norm_le_one (b sbf : Bool) (w : List ℝ) (seeds targets : List (List ℝ)) {Fs : ℝ} (hFs : 0 < Fs)
    (N step l k : ℕ) (hW : 0 < W w N) (s t : ℕ)
    (hlen : (targets.getD t []).length = (seeds.getD s []).length) :
    ‖cacheCoherency b (w.map (↑)) (normVal (w.map (↑)) (Fs : ℂ) N sbf) N step
        ((seeds.getD s []).map (↑)) ((targets.getD t []).map (↑)) l k‖ ≤ 1 :=
  cache_coherency_norm_le_one b sbf w _ _ hFs N step l k hW hlen

/-! ### read histories of the multitaper analyzer -/
open Nitime.C08.Hist

/-- **the confidence-interval chain is a pure function of the coherence (no write to its argument)**: along every
history of `.coherence` / `.confidence_interval` reads of one analyzer, every read hands out the value a fresh
analyzer gives (`.coherence` = the coherence itself, `.confidence_interval` = `F (map g coherence)`), and what was
handed out earlier still holds that value after all later reads.  `g` = `sqrt(dof)·arctanh`, `F` = the rest of the
getter; any value type. -/
theorem confidence_interval_chain_pure {V : Type} (g : V → V) (F : List V → List V) (c0 : List V) (rs : List Rd) :
    ∀ x ∈ (runReads true g F c0 St.init rs).1,
      x.2.2 = pureValue g F c0 x.1 ∧ rd (runReads true g F c0 St.init rs).2.heap x.2.1 = x.2.2 :=
  reads_pure_fresh g F c0 rs

/-- in particular: a coherence in [0, 1] handed out once stays in [0, 1] whatever is read afterwards -/
theorem coherence_stays_bounded (g : ℝ → ℝ) (F : List ℝ → List ℝ) (c0 : List ℝ) (hc : ∀ v ∈ c0, 0 ≤ v ∧ v ≤ 1)
    (rs : List Rd) :
    ∀ x ∈ (runReads true g F c0 St.init rs).1, x.1 = Rd.coherence →
      ∀ v ∈ rd (runReads true g F c0 St.init rs).2.heap x.2.1, 0 ≤ v ∧ v ≤ 1 := by
  intro x hx hk v hv
  obtain ⟨h1, h2⟩ := reads_pure_fresh g F c0 rs x hx
  rw [h2, h1, hk] at hv
  exact hc v hv

/-- the in-place variant (`normalize_coherence(self.coherence, dof, copy=False)`): an array handed out by `.coherence`
holds `g`(coherence) once `.confidence_interval` has been read; a later `.coherence` read returns it -/
theorem confidence_interval_inplace_counterexample {V : Type} (g : V → V) (F : List V → List V) (c0 : List V) :
    rd (runReads false g F c0 St.init [Rd.coherence, Rd.confidence_interval]).2.heap 0 = c0.map g ∧
    (runReads false g F c0 St.init [Rd.confidence_interval, Rd.coherence]).1.getLast? = some (Rd.coherence, 0, c0.map g) :=
  ⟨(inplace_kept_counterexample g F c0).2, inplace_reread_counterexample g F c0⟩

/-- non-vacuity of the counterexample: with `g = (· + 1)` a coherence value 1 becomes 2 > 1 -/
example : rd (runReads false (fun x : Nat => x + 1) id [1] St.init [Rd.coherence, Rd.confidence_interval]).2.heap 0 = [2] := by
  decide

/-! ### the short-input guard of `CoherenceAnalyzer` (class L7: both sides of a guard) -/

/-- **a single Welch window ⇔ (padded) length < 2·NFFT − n_overlap** — the condition under which every coherence value is
1 by construction -/
theorem single_window_iff (n NFFT nov : ℕ) (hov : nov < NFFT) :
    nSeg n NFFT (NFFT - nov) = 1 ↔ paddedLen n NFFT < 2 * NFFT - nov := by
  unfold nSeg
  have hstep : 0 < NFFT - nov := Nat.sub_pos_of_lt hov
  have hp : NFFT ≤ paddedLen n NFFT := by unfold paddedLen; split <;> omega
  constructor
  · intro h
    have h0 : (paddedLen n NFFT - NFFT) / (NFFT - nov) = 0 := by omega
    rcases Nat.div_eq_zero_iff.1 h0 with h1 | h1 <;> omega
  · intro h
    have : (paddedLen n NFFT - NFFT) / (NFFT - nov) = 0 := Nat.div_eq_of_lt (by omega)
    omega

/-- the constructor's warning condition `n < NFFT + n_overlap` is that condition exactly at half overlap (even NFFT) … -/
theorem warning_guard_at_half_overlap (n NFFT : ℕ) (h2 : NFFT % 2 = 0) (hN : 0 < NFFT) (hn : NFFT ≤ n) :
    n < NFFT + NFFT / 2 ↔ nSeg n NFFT (NFFT - NFFT / 2) = 1 := by
  rw [single_window_iff n NFFT (NFFT / 2) (by omega)]
  unfold paddedLen
  split <;> omega

/-- … and NOT for larger overlaps: NFFT = 64, n_overlap = 48, n = 100 satisfies the warning condition but has three
windows (an early exit "coherence = 1" keyed on the warning is wrong there: seeded change C08-10) -/
theorem warning_guard_not_single_window :
    (100 : ℕ) < 64 + 48 ∧ nSeg 100 64 (64 - 48) = 3 := by decide

/-! ### `set_input` with the object already held (class L8) -/
open Nitime.C08.Retarget in
/-- **after `set_input r` every getter answers from the samples `r` holds now**, for every earlier history of in-place
changes, re-targets and reads — also when `r` is the very object the analyzer already held -/
theorem set_input_reads_current_data {D R : Type} (f : D → R) (h : ℕ → D) (a : An R) (pre : List (Ev D)) (r k : ℕ) :
    (run false f h a (pre ++ Ev.setInput r :: reads k)).2.2
      = (run false f h a pre).2.2 ++ none :: List.replicate k (some (f ((run false f h a pre).1 r))) :=
  retarget_reads_current f h a pre r k

open Nitime.C08.Retarget in
/-- keeping the cache when handed the same object: read, change the data in place, `set_input` again, read — stale -/
theorem set_input_skip_same_object_counterexample {D R : Type} (f : D → R) (h : ℕ → D) (r : ℕ) (d' : D) :
    (run true f h ⟨r, none⟩ [Ev.read, Ev.mutate r d', Ev.setInput r, Ev.read]).2.2
      = [some (f (h r)), none, none, some (f (h r))] :=
  skip_same_object_counterexample f h r d'

end Nitime.C08.CacheProps
