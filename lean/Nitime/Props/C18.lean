/-
C18 — property theorems: filtering preserves the mean, the time axis and the pass band.

* Fourier projector: proved for the textbook DFT over ℂ (`dft`, `idft`, `proj`, `ζ` a primitive `N`-th
  root of unity, `ζ = e^{-2πi/N}` for `scipy.fftpack`) and TRANSFERRED to the executable text: the model's
  `fourierProj` / `filteredFourierG` (written over `Model/Num.lean`'s scalar classes) with the ℝ/ℂ instances
  and twiddles `ζ^m` are those objects (`fourierProj_eq_proj`, `fourierProjList_eq`, `filteredFourierG_eq`),
  hence `model_fourier_is_projection / _idempotent / _linear / _mean / _real` are about the definitions the
  driver runs.  Trusted: only the `Float` reading of that text (rounding, `cos/sin` table for `ζ^m`).
* `restoreDC`, `filtfiltWrapper`, `firBandFractions`, `firPlan`, `boxcarFilter`, `shapeAxis`: the
  theorems are about the executable definitions themselves (field-polymorphic).
* PARTIAL: FIR/IIR pass-band / stop-band behaviour depends on `firwin`, `iirdesign`, `filtfilt`
  (external); only linearity-given-linearity and the DC/mean/axis clauses are proved.
-/
import Nitime.Model.C18
import Nitime.Lemmas.Parseval
import Nitime.Lemmas.NumReal
import Nitime.Lemmas.FiltFilt
import Nitime.Lemmas.C18Sess
import Mathlib.Algebra.Order.Field.Basic
import Mathlib.Tactic.Ring
import Mathlib.Tactic.FieldSimp
import Mathlib.Tactic.Linarith
import Mathlib.Data.Real.Basic

set_option linter.unusedSectionVars false
namespace Nitime.C18.Props
open Nitime Nitime.C18 Finset

/-! ### the Fourier-domain filter is an exact projection -/
section fourier
open Complex ComplexConjugate

/-- `fft(x)[k]` -/
noncomputable def dft (ζ : ℂ) (N : ℕ) (x : ℕ → ℂ) (k : ℕ) : ℂ := ∑ j ∈ range N, x j * ζ ^ (j * k)
/-- `ifft(X)[t]` -/
noncomputable def idft (ζ : ℂ) (N : ℕ) (X : ℕ → ℂ) (t : ℕ) : ℂ :=
  (N : ℂ)⁻¹ * ∑ k ∈ range N, X k * ζ⁻¹ ^ (k * t)
/-- null the bins outside `keep`, transform back (before `np.real`) -/
noncomputable def proj (ζ : ℂ) (N : ℕ) (keep : ℕ → Bool) (x : ℕ → ℂ) : ℕ → ℂ :=
  idft ζ N fun k => if keep k then dft ζ N x k else 0

variable {N : ℕ} {ζ : ℂ}

theorem dft_idft (hN : 0 < N) (hζ : IsPrimitiveRoot ζ N) (X : ℕ → ℂ) {k : ℕ} (hk : k < N) :
    dft ζ N (idft ζ N X) k = X k := by
  unfold dft idft
  have h1 : ∀ j ∈ range N, (↑N)⁻¹ * (∑ k' ∈ range N, X k' * ζ⁻¹ ^ (k' * j)) * ζ ^ (j * k)
      = ∑ k' ∈ range N, (↑N)⁻¹ * X k' * (ζ ^ (k * j) * ζ⁻¹ ^ (k' * j)) := by
    intro j _
    rw [mul_assoc, Finset.sum_mul, Finset.mul_sum]
    refine Finset.sum_congr rfl fun k' _ => ?_
    rw [mul_comm j k]; ring
  rw [Finset.sum_congr rfl h1, Finset.sum_comm]
  have h2 : ∀ k' ∈ range N, ∑ j ∈ range N, (↑N)⁻¹ * X k' * (ζ ^ (k * j) * ζ⁻¹ ^ (k' * j))
      = (↑N)⁻¹ * X k' * (if k = k' then (N : ℂ) else 0) := by
    intro k' hk'
    rw [← Finset.mul_sum, root_orth hN hζ hk (mem_range.1 hk')]
  rw [Finset.sum_congr rfl h2]
  simp only [mul_ite, mul_zero, Finset.sum_ite_eq, mem_range, hk, if_true]
  have : (N : ℂ) ≠ 0 := by exact_mod_cast hN.ne'
  field_simp

/-- **exact projection**: after filtering, every kept bin (in-band components, DC) carries the
input's coefficient unchanged and every other bin is exactly zero -/
theorem fourier_is_projection (hN : 0 < N) (hζ : IsPrimitiveRoot ζ N) (keep : ℕ → Bool) (x : ℕ → ℂ)
    {k : ℕ} (hk : k < N) :
    dft ζ N (proj ζ N keep x) k = if keep k then dft ζ N x k else 0 := by
  unfold proj; rw [dft_idft hN hζ _ hk]

/-- filtering twice equals filtering once -/
theorem fourier_idempotent (hN : 0 < N) (hζ : IsPrimitiveRoot ζ N) (keep : ℕ → Bool) (x : ℕ → ℂ) (t : ℕ) :
    proj ζ N keep (proj ζ N keep x) t = proj ζ N keep x t := by
  have h : ∀ k ∈ range N, (if keep k then dft ζ N (proj ζ N keep x) k else 0)
      = (if keep k then dft ζ N x k else 0) := by
    intro k hk
    rw [fourier_is_projection hN hζ keep x (mem_range.1 hk)]
    by_cases h : keep k <;> simp [h]
  show idft ζ N (fun k => if keep k then dft ζ N (proj ζ N keep x) k else 0) t
    = idft ζ N (fun k => if keep k then dft ζ N x k else 0) t
  unfold idft
  congr 1
  refine Finset.sum_congr rfl fun k hk => ?_
  show (if keep k then dft ζ N (proj ζ N keep x) k else 0) * _ = (if keep k then dft ζ N x k else 0) * _
  rw [h k hk]

/-- linear in the data -/
theorem fourier_linear (keep : ℕ → Bool) (a b : ℂ) (x y : ℕ → ℂ) (t : ℕ) :
    proj ζ N keep (fun j => a * x j + b * y j) t = a * proj ζ N keep x t + b * proj ζ N keep y t := by
  have hd : ∀ k, dft ζ N (fun j => a * x j + b * y j) k = a * dft ζ N x k + b * dft ζ N y k := by
    intro k; unfold dft
    rw [Finset.mul_sum, Finset.mul_sum, ← Finset.sum_add_distrib]
    refine Finset.sum_congr rfl fun j _ => by ring
  have hm : ∀ k, (if keep k then a * dft ζ N x k + b * dft ζ N y k else 0)
      = a * (if keep k then dft ζ N x k else 0) + b * (if keep k then dft ζ N y k else 0) := by
    intro k; by_cases h : keep k <;> simp [h]
  unfold proj idft
  simp only [hd, hm, add_mul, Finset.sum_add_distrib, mul_assoc, ← Finset.mul_sum]
  ring

/-- DC is kept, so the sum (hence the mean) of every channel is unchanged -/
theorem fourier_mean (hN : 0 < N) (hζ : IsPrimitiveRoot ζ N) (keep : ℕ → Bool) (h0 : keep 0 = true)
    (x : ℕ → ℂ) : ∑ t ∈ range N, proj ζ N keep x t = ∑ t ∈ range N, x t := by
  have := fourier_is_projection hN hζ keep x hN
  simpa [dft, h0] using this

theorem pow_compl (hN : 0 < N) (hζ : IsPrimitiveRoot ζ N) {k : ℕ} (hk : k ≤ N) (j : ℕ) :
    ζ ^ (j * (N - k)) = ζ⁻¹ ^ (j * k) := by
  have h0 : ζ ≠ 0 := hζ.ne_zero hN.ne'
  have h1 : ζ ^ (j * (N - k)) * ζ ^ (j * k) = 1 := by
    rw [← pow_add, ← Nat.mul_add, Nat.sub_add_cancel hk, mul_comm, pow_mul, hζ.pow_eq_one, one_pow]
  rw [inv_pow]
  exact eq_inv_of_mul_eq_one_left h1

theorem conj_dft (hN : 0 < N) (hζ : IsPrimitiveRoot ζ N) (hc : conj ζ = ζ⁻¹) (x : ℕ → ℂ)
    (hx : ∀ j, conj (x j) = x j) {k : ℕ} (hk : k ≤ N) :
    conj (dft ζ N x k) = dft ζ N x (N - k) := by
  unfold dft
  rw [map_sum]
  refine Finset.sum_congr rfl fun j _ => ?_
  rw [map_mul, map_pow, hc, hx, pow_compl hN hζ hk]

/-- for real data and a mask that treats `k` and `N-k` alike, the inverse transform of the masked
spectrum is real: `np.real(...)` in the code discards rounding residue only -/
theorem fourier_real (hN : 0 < N) (hζ : IsPrimitiveRoot ζ N) (hc : conj ζ = ζ⁻¹) (keep : ℕ → Bool)
    (hk : ∀ k, 0 < k → k < N → keep (N - k) = keep k) (x : ℕ → ℂ) (hx : ∀ j, conj (x j) = x j) (t : ℕ) :
    conj (proj ζ N keep x t) = proj ζ N keep x t := by
  obtain ⟨M, rfl⟩ : ∃ M, N = M + 1 := ⟨N - 1, by omega⟩
  have hcinv : conj ζ⁻¹ = ζ := by rw [map_inv₀, hc, inv_inv]
  set Y : ℕ → ℂ := fun k => if keep k then dft ζ (M + 1) x k else 0 with hY
  have hY0 : conj (Y 0) = Y 0 := by
    simp only [hY]
    by_cases h : keep 0
    · simp only [h, if_true]
      have := conj_dft hN hζ hc x hx (k := 0) (by omega)
      rw [this]
      -- dft at index N equals dft at index 0
      unfold dft
      refine Finset.sum_congr rfl fun j _ => ?_
      rw [Nat.sub_zero, pow_mul', hζ.pow_eq_one, one_pow, Nat.mul_zero, pow_zero]
    · simp [h]
  have hYk : ∀ k, 0 < k → k < M + 1 → conj (Y k) = Y (M + 1 - k) := by
    intro k h1 h2
    simp only [hY, hk k h1 h2]
    by_cases h : keep k
    · simp only [h, if_true]; exact conj_dft hN hζ hc x hx (by omega)
    · simp [h]
  show conj (((M + 1 : ℕ) : ℂ)⁻¹ * ∑ k ∈ range (M + 1), Y k * ζ⁻¹ ^ (k * t))
    = ((M + 1 : ℕ) : ℂ)⁻¹ * ∑ k ∈ range (M + 1), Y k * ζ⁻¹ ^ (k * t)
  rw [map_mul, map_inv₀, Complex.conj_natCast, map_sum]
  congr 1
  have hterm : ∀ k, conj (Y k * ζ⁻¹ ^ (k * t)) = conj (Y k) * ζ ^ (k * t) := by
    intro k; rw [map_mul, map_pow, hcinv]
  simp only [hterm]
  rw [Finset.sum_range_succ', Finset.sum_range_succ' (fun k => Y k * ζ⁻¹ ^ (k * t))]
  congr 1
  · rw [← Finset.sum_range_reflect]
    refine Finset.sum_congr rfl fun j hj => ?_
    have hj' := mem_range.1 hj
    rw [hYk (M - 1 - j + 1) (by omega) (by omega)]
    have e : M + 1 - (M - 1 - j + 1) = j + 1 := by omega
    rw [e]
    congr 1
    have := pow_compl hN hζ (k := j + 1) (by omega) t
    have e2 : M + 1 - (j + 1) = M - 1 - j + 1 := by omega
    rw [e2] at this
    rw [mul_comm (M - 1 - j + 1) t, this, mul_comm]
  · rw [hY0]; simp

end fourier

/-! ### the mask the code builds -/
section mask
variable {K : Type} [LinearOrder K]

/-- a non-DC bin is kept exactly when its grid frequency (entry `min(k, n−k)`) lies in `[lb, ub]` -/
theorem keepBin_spec (grid : ℕ → K) (lb ub : K) (n k : ℕ) (hk : k ≠ 0) :
    keepBin grid lb ub n k = true ↔
      lb ≤ grid (if k ≤ n - k then k else n - k) ∧ grid (if k ≤ n - k then k else n - k) ≤ ub := by
  simp [keepBin, hk, not_lt]

theorem keepBin_dc (grid : ℕ → K) (lb ub : K) (n : ℕ) : keepBin grid lb ub n 0 = true := by
  simp [keepBin]

/-- the mask treats `k` and `n−k` alike — the hypothesis of `fourier_real` -/
theorem keepBin_symm (grid : ℕ → K) (lb ub : K) (n k : ℕ) (h0 : 0 < k) (hk : k < n) :
    keepBin grid lb ub n (n - k) = keepBin grid lb ub n k := by
  have h1 : n - k ≠ 0 := by omega
  have h2 : k ≠ 0 := by omega
  have e : n - (n - k) = k := by omega
  simp only [keepBin, h1, h2, if_false, e]
  by_cases h : k ≤ n - k
  · by_cases h' : n - k ≤ k
    · have : n - k = k := by omega
      simp [this]
    · simp [h, h']
  · have h' : n - k ≤ k := by omega
    simp [h, h']

end mask

section passband
variable {N : ℕ} {ζ : ℂ}

/-- **pass band** (the statement of the property): with the mask the code builds from a frequency
grid, every non-DC component whose grid frequency lies in `[lb, ub]` — and the mean — is unchanged,
every other component is exactly zero, and the result is real for real data -/
theorem fourier_pass_band (hN : 0 < N) (hζ : IsPrimitiveRoot ζ N) (grid : ℕ → ℝ) (lb ub : ℝ) (x : ℕ → ℂ)
    {k : ℕ} (hk : k < N) :
    (k = 0 → dft ζ N (proj ζ N (keepBin grid lb ub N) x) k = dft ζ N x k) ∧
    (k ≠ 0 → lb ≤ grid (if k ≤ N - k then k else N - k) → grid (if k ≤ N - k then k else N - k) ≤ ub →
      dft ζ N (proj ζ N (keepBin grid lb ub N) x) k = dft ζ N x k) ∧
    (k ≠ 0 → (grid (if k ≤ N - k then k else N - k) < lb ∨ ub < grid (if k ≤ N - k then k else N - k)) →
      dft ζ N (proj ζ N (keepBin grid lb ub N) x) k = 0) := by
  rw [fourier_is_projection hN hζ _ x hk]
  refine ⟨fun h => by subst h; simp [keepBin_dc], fun h0 h1 h2 => ?_, fun h0 h => ?_⟩
  · rw [if_pos ((keepBin_spec grid lb ub N k h0).2 ⟨h1, h2⟩)]
  · have : ¬ keepBin grid lb ub N k = true := by
      rw [keepBin_spec grid lb ub N k h0]
      rcases h with h | h
      · exact fun hh => absurd hh.1 (not_le.2 h)
      · exact fun hh => absurd hh.2 (not_le.2 h)
    rw [if_neg this]


end passband

/-! ### the executable text: `fourierProj` of the model IS the masked inverse DFT

`Nitime.C18.fourierProj` / `filteredFourierG` are written over the scalar classes of `Model/Num.lean`;
with the `ℝ`/`ℂ` instances and twiddles `tw m = ζ^m` they are the textbook objects above, so every
theorem of the previous section is a theorem about the model's own definitions (`model_…`).  What
stays trusted is the `Float` reading of the same text (rounding; `cos/sin` for `ζ^m`). -/
section model
open Complex ComplexConjugate Nitime.Num
variable {N : ℕ} {ζ : ℂ}

/-- the tabulated version computes the same list -/
theorem fourierProjList_eq {R K : Type} [RScalar R] [CScalar R K] (tw : ℕ → K) (N : ℕ) (keep : ℕ → Bool)
    (x : ℕ → K) : fourierProjList tw N keep x = (List.range N).map (fourierProj tw N keep x) := by
  have h : memoGet (memoArr N (maskedSpectrum tw N keep x)) (maskedSpectrum tw N keep x)
      = maskedSpectrum tw N keep x := funext (memoGet_memoArr N _)
  unfold fourierProjList fourierProj
  simp only [h]

theorem dftAt_eq_dft (hζ : ζ ^ N = 1) (x : ℕ → ℂ) (k : ℕ) :
    dftAt (fun m => ζ ^ m) N x k = dft ζ N x k := dftAt_eq hζ x k

theorem idftAt_eq_idft (hζ : ζ ^ N = 1) (hc : conj ζ = ζ⁻¹) (X : ℕ → ℂ) (t : ℕ) :
    idftAt (fun m => ζ ^ m) N X t = idft ζ N X t := by
  have hinv : ζ⁻¹ ^ N = 1 := by rw [inv_pow, hζ, inv_one]
  unfold idftAt idft
  rw [kscale_eq, ksum_eq]
  congr 1
  · simp
  · refine Finset.sum_congr rfl fun k _ => ?_
    rw [conj_complex, map_pow, hc, dftAt_eq.pow_mod_eq hinv, mul_comm t k]

theorem fourierProj_eq_proj (hζ : ζ ^ N = 1) (hc : conj ζ = ζ⁻¹) (keep : ℕ → Bool) (x : ℕ → ℂ) :
    fourierProj (fun m => ζ ^ m) N keep x = proj ζ N keep x := by
  funext t
  unfold fourierProj proj
  rw [idftAt_eq_idft hζ hc]
  congr 1
  funext k
  unfold maskedSpectrum
  rw [dftAt_eq_dft hζ]; rfl

variable (hN : 0 < N) (hζ : IsPrimitiveRoot ζ N) (hc : conj ζ = ζ⁻¹)
include hN hζ hc

/-- exact projection, about the model's own `dftAt` / `fourierProj` / `maskedSpectrum` -/
theorem model_fourier_is_projection (keep : ℕ → Bool) (x : ℕ → ℂ) {k : ℕ} (hk : k < N) :
    dftAt (fun m => ζ ^ m) N (fourierProj (fun m => ζ ^ m) N keep x) k
      = maskedSpectrum (fun m => ζ ^ m) N keep x k := by
  rw [fourierProj_eq_proj hζ.pow_eq_one hc, dftAt_eq_dft hζ.pow_eq_one, fourier_is_projection hN hζ keep x hk]
  unfold maskedSpectrum; rw [dftAt_eq_dft hζ.pow_eq_one]; rfl

theorem model_fourier_idempotent (keep : ℕ → Bool) (x : ℕ → ℂ) (t : ℕ) :
    fourierProj (fun m => ζ ^ m) N keep (fourierProj (fun m => ζ ^ m) N keep x) t
      = fourierProj (fun m => ζ ^ m) N keep x t := by
  simp only [fourierProj_eq_proj hζ.pow_eq_one hc]
  exact fourier_idempotent hN hζ keep x t

omit hN hζ in
theorem model_fourier_linear (hζ1 : ζ ^ N = 1) (keep : ℕ → Bool) (a b : ℂ) (x y : ℕ → ℂ) (t : ℕ) :
    fourierProj (fun m => ζ ^ m) N keep (fun j => a * x j + b * y j) t
      = a * fourierProj (fun m => ζ ^ m) N keep x t + b * fourierProj (fun m => ζ ^ m) N keep y t := by
  simp only [fourierProj_eq_proj hζ1 hc]
  exact fourier_linear keep a b x y t

theorem model_fourier_mean (keep : ℕ → Bool) (h0 : keep 0 = true) (x : ℕ → ℂ) :
    ksum N (fourierProj (fun m => ζ ^ m) N keep x) = ksum N x := by
  rw [ksum_eq, ksum_eq, fourierProj_eq_proj hζ.pow_eq_one hc]
  exact fourier_mean hN hζ keep h0 x

/-- for real data and the code's (symmetric) mask the complex output equals its real part: the list
`filteredFourierG` returns loses nothing -/
theorem model_fourier_real (grid : ℕ → ℝ) (lb ub : ℝ) (x : ℕ → ℝ) (t : ℕ) :
    fourierProj (fun m => ζ ^ m) N (keepBin grid lb ub N) (fun j => CScalar.ofReal (x j)) t
      = ((fourierProj (fun m => ζ ^ m) N (keepBin grid lb ub N) (fun j => CScalar.ofReal (x j)) t).re : ℂ) := by
  rw [fourierProj_eq_proj hζ.pow_eq_one hc]
  have := fourier_real hN hζ hc (keepBin grid lb ub N) (fun k h0 hk => keepBin_symm grid lb ub N k h0 hk)
    (fun j => ((x j : ℝ) : ℂ)) (fun j => Complex.conj_ofReal _) t
  exact (Complex.conj_eq_iff_re.1 this).symm

/-- the executable list is the real part of the masked inverse DFT, sample by sample -/
theorem filteredFourierG_eq (keep : ℕ → Bool) (x : ℕ → ℝ) :
    filteredFourierG (K := ℂ) (fun m => ζ ^ m) N keep x
      = (List.range N).map fun t => (proj ζ N keep (fun j => ((x j : ℝ) : ℂ)) t).re := by
  unfold filteredFourierG
  rw [fourierProjList_eq, fourierProj_eq_proj hζ.pow_eq_one hc, List.map_map]
  rfl

end model

/-! ### DC restoration and the filtfilt wrapper -/
section dc
variable {K : Type} [Field K] [CharZero K]

theorem sumL_eq (l : List K) : sumL l = l.sum := by
  unfold sumL
  have : ∀ (l : List K) (a : K), l.foldl (fun acc v => acc + v) a = a + l.sum := by
    intro l; induction l with
    | nil => intro a; simp
    | cons x t ih => intro a; simp [ih, add_assoc]
  rw [this]; simp

theorem sum_map_affine (l : List K) (c : K) : (l.map fun v => v + c).sum = l.sum + l.length * c := by
  induction l with
  | nil => simp
  | cons x t ih => simp [ih]; ring

/-- after `out - mean(out) + dc` the mean IS `dc` -/
theorem restoreDC_mean (dc : K) (y : List K) (hy : y ≠ []) : mean (restoreDC dc y) = dc := by
  have hn : (y.length : K) ≠ 0 := by
    have : y.length ≠ 0 := by simpa using hy
    exact_mod_cast this
  unfold mean restoreDC
  rw [sumL_eq, List.length_map]
  have : (y.map fun v => v - mean y + dc) = y.map fun v => v + (dc - mean y) := by
    apply List.map_congr_left; intro v _; ring
  rw [this, sum_map_affine]
  unfold mean; rw [sumL_eq]
  field_simp; ring

/-- the wrapper keeps the input's mean, whatever the external filter returns (non-empty) -/
theorem filtfilt_wrapper_mean (F : List K → List K) (x : List K) (h : F x ≠ []) :
    mean (filtfiltWrapper F x) = mean x := restoreDC_mean _ _ h

/-- pointwise form of the wrapper on index functions: `W F x i = F x i - mean(F x) + mean x` with
`mean` over the first `n` samples -/
noncomputable def meanFn (n : ℕ) (f : ℕ → K) : K := (∑ i ∈ range n, f i) / n
noncomputable def wrapFn (n : ℕ) (F : (ℕ → K) → ℕ → K) (x : ℕ → K) (i : ℕ) : K :=
  F x i - meanFn n (F x) + meanFn n x

theorem meanFn_linear (n : ℕ) (a b : K) (x y : ℕ → K) :
    meanFn n (fun i => a * x i + b * y i) = a * meanFn n x + b * meanFn n y := by
  unfold meanFn
  rw [Finset.sum_add_distrib, ← Finset.mul_sum, ← Finset.mul_sum]; ring

/-- **linearity of the zero-phase filters**, assuming the external map (`scipy.signal.filtfilt`
with fixed coefficients) is linear: the DC-restoring wrapper is linear too -/
theorem filtfilt_wrapper_linear (n : ℕ) (F : (ℕ → K) → ℕ → K)
    (hF : ∀ (a b : K) (x y : ℕ → K), F (fun i => a * x i + b * y i) = fun i => a * F x i + b * F y i)
    (a b : K) (x y : ℕ → K) (i : ℕ) :
    wrapFn n F (fun i => a * x i + b * y i) i = a * wrapFn n F x i + b * wrapFn n F y i := by
  unfold wrapFn
  rw [hF, meanFn_linear, meanFn_linear]; ring

end dc

/-! ### `scipy.signal.filtfilt` itself (model `Model/FiltFilt.lean`): linear, so the assumption of
`filtfilt_wrapper_linear` is discharged for the modelled algorithm -/
section filtfiltModel
open Nitime.FiltFilt
variable {K : Type} [Field K] [CharZero K]

theorem sum_lin (c : K) (u v : List K) (h : u.length = v.length) :
    (lin c u v).sum = c * u.sum + v.sum := by
  induction u generalizing v with
  | nil => cases v with
    | nil => simp [lin]
    | cons _ _ => simp at h
  | cons p u ih =>
    cases v with
    | nil => simp at h
    | cons q v =>
      rw [lin_cons, List.sum_cons, List.sum_cons, List.sum_cons, ih v (by simpa using h)]; ring

theorem mean_lin (c : K) (u v : List K) (h : u.length = v.length) :
    mean (lin c u v) = c * mean u + mean v := by
  unfold mean
  rw [sumL_eq, sumL_eq, sumL_eq, sum_lin c u v h, lin_length c u v h, ← h]
  ring

/-- the modelled `scipy.signal.filtfilt(b, a, ·)` (odd padding, two direct-form-II-transposed passes
started from `zi`·edge sample, trimming) is **linear in the data** -/
theorem model_filtfilt_linear (b a zi : List K) (p : ℕ) (c : K) (x x' : List K) (h : x.length = x'.length) :
    filtfilt b a zi p (lin c x x') = lin c (filtfilt b a zi p x) (filtfilt b a zi p x') :=
  filtfilt_lin b a zi p c x x' h

/-- … and returns as many samples as it was given (`padlen` samples are available on both sides) -/
theorem model_filtfilt_length (b a zi : List K) (p : ℕ) (x : List K) :
    (filtfilt b a zi p x).length = x.length := by
  unfold filtfilt
  simp only [List.length_take, List.length_drop, List.length_reverse, lfilterZ_length, oddExt_length]
  omega

/-- **`FilterAnalyzer.filtfilt` (hence `fir` and `iir`, stage by stage) is linear in the data**: the
DC-restoring wrapper around the MODELLED `scipy.signal.filtfilt` maps `c·x + x'` to
`c·F(x) + F(x')` — no assumption on the external routine left, only the model of its algorithm
(compared with scipy on every run, op `filtfilt`). -/
theorem filtfilt_analyzer_linear (b a zi : List K) (p : ℕ) (c : K) (x x' : List K) (h : x.length = x'.length) :
    filtfiltWrapper (filtfilt b a zi p) (lin c x x')
      = lin c (filtfiltWrapper (filtfilt b a zi p) x) (filtfiltWrapper (filtfilt b a zi p) x') := by
  unfold filtfiltWrapper restoreDC
  have hl : (filtfilt b a zi p x).length = (filtfilt b a zi p x').length := by
    rw [model_filtfilt_length, model_filtfilt_length, h]
  rw [model_filtfilt_linear b a zi p c x x' h, mean_lin c x x' h, mean_lin c _ _ hl]
  unfold lin
  rw [List.zipWith_map_left, List.zipWith_map_right, List.map_zipWith]
  congr 1
  funext u v
  ring

/-- non-vacuity: a 2-tap moving average run through the model on a rational signal -/
example : filtfilt ([1/2, 1/2] : List Rat) [1, 0] [1/2] 1 [0, 2, 4, 2]
    = [0, 2, 3, 2] := by decide +kernel

end filtfiltModel

/-! ### FIR band edges -/
section fir
variable {K : Type} [Field K] [LinearOrder K] [IsStrictOrderedRing K]

/-- the fractions handed to the design are fractions of the TRUE Nyquist frequency `Fs/2` -/
theorem band_fraction_true_freq (fs lb ub : K) (hfs : 0 < fs) :
    (firBandFractions fs lb (some ub)).1 * (fs / 2) = lb ∧
    (firBandFractions fs lb (some ub)).2 * (fs / 2) = ub ∧
    (firBandFractions fs lb none).2 = 1 := by
  have : fs / 2 ≠ 0 := by positivity
  refine ⟨?_, ?_, rfl⟩ <;> simp only [firBandFractions] <;> field_simp

/-- `fir` refuses exactly the bands that leave `[0, Nyquist]` (given a long enough series), and
otherwise requests a low-pass design iff `ub` is below Nyquist and a high-pass one iff `lb > 0` -/
theorem firPlan_spec (fs lb ub : K) (order n : ℕ) (hfs : 0 < fs) (hn : order + 1 ≤ n * 3) :
    (lb < 0 ∨ fs / 2 < ub → firPlan fs lb (some ub) order n = .error .valueError) ∧
    (0 ≤ lb → ub ≤ fs / 2 → firPlan fs lb (some ub) order n =
      .ok (order + 1, if ub / (fs / 2) < 1 then some (ub / (fs / 2)) else none,
           if 0 < lb / (fs / 2) then some (lb / (fs / 2)) else none)) := by
  have h2 : 0 < fs / 2 := by positivity
  have hl : lb / (fs / 2) < 0 ↔ lb < 0 := by rw [div_lt_iff₀ h2]; simp
  have hu : 1 < ub / (fs / 2) ↔ fs / 2 < ub := by rw [lt_div_iff₀ h2]; simp
  have hn' : ¬ n * 3 < order + 1 := by omega
  constructor
  · intro h
    have : lb / (fs / 2) < 0 ∨ 1 < ub / (fs / 2) := by rcases h with h | h; exact .inl (hl.2 h); exact .inr (hu.2 h)
    simp [firPlan, firBandFractions, this]
  · intro h0 h1
    have : ¬ (lb / (fs / 2) < 0 ∨ 1 < ub / (fs / 2)) := by
      rintro (h | h)
      · exact absurd (hl.1 h) (not_lt.2 h0)
      · exact absurd (hu.1 h) (not_lt.2 h1)
    simp only [firPlan, firBandFractions, this, hn', if_false]
    rfl


/-- **IIR band edges are fractions of the true Nyquist frequency**, branch by branch: band-pass asks
for pass band `[lb, ub]/(Fs/2)`, low-pass (`lb = 0`) for `ub/(Fs/2)`, high-pass (`ub = None`) for `lb/(Fs/2)` -/
theorem iirPlan_spec (fs lb ub : K) (hfs : 0 < fs) :
    (0 < lb → ub < fs / 2 → (iirPlan fs lb (some ub)).map Prod.fst = some [lb / (fs / 2), ub / (fs / 2)] ∧
        lb / (fs / 2) * (fs / 2) = lb ∧ ub / (fs / 2) * (fs / 2) = ub) ∧
    ((iirPlan fs 0 (some ub)).map Prod.fst = some [ub / (fs / 2)]) ∧
    (0 < lb → (iirPlan fs lb none).map Prod.fst = some [lb / (fs / 2)]) := by
  have h2 : 0 < fs / 2 := by positivity
  have hne : fs / 2 ≠ 0 := h2.ne'
  refine ⟨fun hl hu => ?_, ?_, fun hl => ?_⟩
  · have h1 : 0 < lb / (fs / 2) := div_pos hl h2
    have h3 : ub / (fs / 2) < 1 := by rw [div_lt_one h2]; exact hu
    refine ⟨?_, by field_simp, by field_simp⟩
    simp only [iirPlan, firBandFractions, h1, h3, and_self, if_true, Option.map_some]
  · by_cases h : ub / (fs / 2) < 1 <;> simp [iirPlan, firBandFractions, h]
  · have h1 : 0 < lb / (fs / 2) := div_pos hl h2
    have h3 : ¬ lb / (fs / 2) < 0 := not_lt.2 h1.le
    simp [iirPlan, firBandFractions, h1, h3]

end fir

/-! ### boxcar -/
section boxcar
variable {K : Type} [Field K] [CharZero K]

theorem boxLowpass_length (m : ℕ) (hm : 1 ≤ m) (x : List K) : (boxLowpass m x).length = x.length := by
  simp only [boxLowpass, convBox, List.length_take, List.length_drop, List.length_map, List.length_range,
    List.size_toArray, List.length_append, List.length_replicate]
  omega

theorem sum_zip_sub (mu : K) : ∀ (a b : List K), a.length = b.length →
    ((a.zip b).map fun p => p.1 - p.2 + mu).sum = a.sum - b.sum + a.length * mu := by
  intro a
  induction a with
  | nil => intro b h; cases b <;> simp_all
  | cons x t ih =>
    intro b h
    cases b with
    | nil => simp at h
    | cons y u =>
      simp only [List.zip_cons_cons, List.map_cons, List.sum_cons, List.length_cons]
      rw [ih u (by simpa using h)]; push_cast; ring

/-- the high-pass stage `x - lowpass(x) + mean(lowpass(x))` keeps the mean of its input -/
theorem highpass_stage_mean (a b : List K) (h : a.length = b.length) (ha : a ≠ []) :
    mean ((a.zip b).map fun (p : K × K) => p.1 - p.2 + mean b) = mean a := by
  have hn : (a.length : K) ≠ 0 := by
    have : a.length ≠ 0 := by simpa using ha
    exact_mod_cast this
  unfold mean
  rw [sumL_eq, sumL_eq, sumL_eq, List.length_map, List.length_zip, ← h, Nat.min_self, sum_zip_sub _ a b h]
  field_simp; ring

/-- **boxcar keeps the mean**, every band type (low-pass stage followed by DC restoration, then the
mean-keeping high-pass stage) -/
theorem boxcar_mean (mUb : ℕ) (mLb : Option ℕ) (x : List K) (hx : x ≠ []) (h1 : 1 ≤ mUb)
    (h2 : ∀ m, mLb = some m → 1 ≤ m) : mean (boxcarFilter mUb mLb x) = mean x := by
  have hlen : (boxLowpass mUb x) ≠ [] := by
    intro h; have := boxLowpass_length mUb h1 x; rw [h] at this; simp at this; exact hx (List.length_eq_zero_iff.1 this.symm)
  have hx1 : mean (restoreDC (mean x) (boxLowpass mUb x)) = mean x := restoreDC_mean _ _ hlen
  cases mLb with
  | none => simpa [boxcarFilter] using hx1
  | some m =>
    simp only [boxcarFilter]
    have hne : restoreDC (mean x) (boxLowpass mUb x) ≠ [] := by simpa [restoreDC] using hlen
    rw [highpass_stage_mean _ _ (boxLowpass_length m (h2 m rfl) _).symm hne, hx1]

/-- the filter keeps the length of a lane (the shape clause, one lane) -/
theorem boxcarFilter_length (mUb : ℕ) (mLb : Option ℕ) (x : List K) (h1 : 1 ≤ mUb)
    (h2 : ∀ m, mLb = some m → 1 ≤ m) : (boxcarFilter mUb mLb x).length = x.length := by
  have hl : (restoreDC (mean x) (boxLowpass mUb x)).length = x.length := by
    simp [restoreDC, boxLowpass_length mUb h1 x]
  cases mLb with
  | none => simpa [boxcarFilter] using hl
  | some m =>
    simp only [boxcarFilter, List.length_map, List.length_zip, boxLowpass_length m (h2 m rfl), hl, Nat.min_self]

/-- zipping a list with its image under `f` pairs every element with its own image -/
theorem mem_zip_map {α β : Type} (f : α → β) : ∀ (l : List α) (p : α × β), p ∈ l.zip (l.map f) → p.2 = f p.1 := by
  intro l
  induction l with
  | nil => intro p hp; simp at hp
  | cons a t ih =>
    intro p hp
    simp only [List.map_cons, List.zip_cons_cons, List.mem_cons] at hp
    rcases hp with rfl | hp
    · rfl
    · exact ih p hp

/-- **the n-d boxcar filter keeps the shape and every lane's mean** (`boxcar_mean` lifted to the lanes of
`boxcar_filter`'s input: the single lane of a 1-d array, the rows of a 2-d array): whenever `boxcarND` returns, it
returns exactly one filtered lane per input lane, in order, each as long as its input lane and with the same mean.
(Inputs with more than 2 dimensions and `n_iterations = 0` are refused: `boxcarND_refuses`.) -/
theorem boxcarND_lanes (iters mUb : ℕ) (mLb : Option ℕ) (dims : List ℕ) (x : List K) (ls ys : List (List K))
    (hl : boxLanes dims x = .ok ls) (h : boxcarND iters mUb mLb dims x = .ok ys) (h1 : 1 ≤ mUb)
    (h2 : ∀ m, mLb = some m → 1 ≤ m) :
    ys.length = ls.length ∧
      ∀ p ∈ ls.zip ys, p.2.length = p.1.length ∧ (p.1 ≠ [] → mean p.2 = mean p.1) := by
  unfold boxcarND at h
  rw [hl] at h
  simp only at h
  split at h
  · cases h
  · cases h
    refine ⟨by simp, ?_⟩
    intro p hp
    have hp2 := mem_zip_map (boxcarFilter mUb mLb) ls p hp
    rw [hp2]
    exact ⟨boxcarFilter_length mUb mLb p.1 h1 h2, fun hne => boxcar_mean mUb mLb p.1 hne h1 h2⟩

/-- what `boxcar_filter` refuses: data with more than 2 dimensions (and at least one row), and
`n_iterations = 0` whenever there is a lane to filter; 1-d and 2-d data with `n_iterations ≥ 1` are accepted -/
theorem boxcarND_refuses (iters mUb : ℕ) (mLb : Option ℕ) (x : List K) :
    (∀ r a b rest, r ≠ 0 → boxcarND iters mUb mLb (r :: a :: b :: rest) x = .error .valueError) ∧
    (∀ n, boxcarND 0 mUb mLb [n] x = .error .unboundLocal) ∧
    (∀ n, 1 ≤ iters → boxcarND iters mUb mLb [n] x = .ok [boxcarFilter mUb mLb x]) ∧
    (∀ r n, 1 ≤ iters → boxcarND iters mUb mLb [r, n] x = .ok ((chunks n r x).map (boxcarFilter mUb mLb))) := by
  refine ⟨?_, ?_, ?_, ?_⟩
  · intro r a b rest hr; simp [boxcarND, boxLanes, hr]
  · intro n; simp [boxcarND, boxLanes]
  · intro n hi
    have : iters ≠ 0 := by omega
    simp [boxcarND, boxLanes, this]
  · intro r n hi
    have : iters ≠ 0 := by omega
    simp [boxcarND, boxLanes, this]

/-- the rows of a C-ordered `r × n` array: `chunks` returns `r` rows -/
theorem chunks_length {α : Type} (n : ℕ) : ∀ (r : ℕ) (l : List α), (chunks n r l).length = r := by
  intro r
  induction r with
  | zero => intro l; rfl
  | succ r ih => intro l; simp [chunks, ih]

end boxcar

/-- non-vacuity: a 2 × 3 array comes back as 2 rows, row means 1 and 4 kept; 3-d data and 0 iterations are refused -/
example : boxcarND 2 2 none [2, 3] ([0, 0, 3, 3, 4, 5] : List Rat) = .ok [[-1/2, 1, 5/2], [19/6, 25/6, 14/3]] := by decide +kernel
example : boxcarND 2 2 none [2, 1, 3] ([0, 0, 3, 3, 4, 5] : List Rat) = .error .valueError := by decide +kernel
example : boxcarND 0 2 none [2, 3] ([0, 0, 3, 3, 4, 5] : List Rat) = .error .unboundLocal := by decide +kernel

/-- non-vacuity (and the former failing input): `[0, 0, 3]`, boxcar of length 2, keeps mean 1 -/
example : boxcarFilter 2 none ([0, 0, 3] : List Rat) = [-1/2, 1, 5/2] := by decide +kernel

/-! ### output axis -/

/-- a construction site that forwards rate, start time and unit reproduces the input axis
attributes -/
theorem axis_preserved (sh : C15.Shape) (h1 : sh.rate = .field .rate) (h2 : sh.t0 = .field .t0)
    (h3 : sh.unit = .field .unit) : shapeAxis sh = ⟨true, true, true⟩ := by
  simp [shapeAxis, h1, h2, h3]

/-- composing construction sites keeps exactly what every site forwards -/
theorem axis_comp_all (a b : AxisD) : a.comp b = ⟨true, true, true⟩ ↔ a = ⟨true, true, true⟩ ∧ b = ⟨true, true, true⟩ := by
  cases a; cases b; simp [AxisD.comp]; tauto

/-- on the CURRENT source every filtering method forwards rate, start time and unit (decided on the
generated descriptors; re-checked whenever the translator output changes) -/
theorem axis_all_methods :
    ["fir", "iir", "filtered_fourier", "filtered_boxcar"].map methodAxis
      = List.replicate 4 (some ⟨true, true, true⟩) := by decide

/-! ### option handling (decided on the GENERATED tables: an edit of the source re-opens these) -/
open Nitime.Generated in
/-- every optional parameter reaches the external call it is documented for: `fir_win → firwin(window=)`,
`gpass`, `gstop`, `iir_ftype → iirdesign(wp, ws, gpass, gstop, ftype=)`, `boxcar_iterations → boxcar_filter(n_iterations=)` -/
theorem option_flow :
    optionFlow = [some "fir_win", some "gpass", some "gstop", some "iir_ftype", some "boxcar_iterations"] := by decide

open Nitime.Generated in
/-- `ub` is tested against `None` in every method (never by truthiness, so an explicit `0.0` is an edge), the value used
for `None` is the whole band (fraction 1, resp. the Nyquist frequency `Fs/2`), FIR / IIR edges are fractions of the
Nyquist frequency and the boxcar's are fractions of the sampling rate — what `firBandFractions`, `filteredFourier`
and the `boxcar` driver line of the model compute -/
theorem ub_rule_all : C18Opts.ubRule =
    [("fir", "isNotNone", "self.ub / (self.sampling_rate / 2.0)", "1.0"),
     ("iir", "isNotNone", "self.ub / (self.sampling_rate / 2.0)", "1.0"),
     ("filtered_fourier", "isNone", "self.ub", "self.sampling_rate / 2.0"),
     ("filtered_boxcar", "isNotNone", "self.ub / self.sampling_rate", "1.0")] := by decide

open Nitime.Generated in
theorem lb_rule_all : C18Opts.lbRule =
    [("fir", "self.lb / (self.sampling_rate / 2.0)"), ("iir", "self.lb / (self.sampling_rate / 2.0)"),
     ("filtered_fourier", "self.lb"), ("filtered_boxcar", "self.lb / self.sampling_rate")] := by decide

open Nitime.Generated in
/-- `boxcar_filter`: `lb == 0` (any spelling of zero) switches the high-pass stage off; the stages are guarded by the
truthiness of `ub` and of the (possibly `None`) `lb` — the branches of `boxcarFilter` / `boxcarND` -/
theorem boxcar_guards : C18Opts.boxcarTests = ["lb == 0", "one_d", "ub", "lb"] := by decide

open Nitime.Generated in
/-- `filtfilt(b, a, in_ts)`: data, rate, start time and unit ALL come from `in_ts` when one is given (tested against
`None`), otherwise all from the analyzer's own series -/
theorem in_ts_rule : C18Opts.inTsRule =
    [("test", "in_ts is not None"), ("then:data", "in_ts.data"), ("then:Fs", "in_ts.sampling_rate"), ("then:t0", "in_ts.t0"),
     ("then:time_unit", "in_ts.time_unit"), ("else:data", "self._ts.data"), ("else:Fs", "self._ts.sampling_rate"),
     ("else:t0", "self._ts.t0"), ("else:time_unit", "self._ts.time_unit")] := by decide

/-- non-vacuity -/
example : firPlan (10 : Rat) 1 (some 4) 8 40 = .ok (9, some (4/5), some (1/5)) := by decide +kernel
example : firPlan (10 : Rat) 1 (some 6) 8 40 = .error .valueError := by decide +kernel
example : restoreDC (mean ([1, 2, 6] : List Rat)) [0, 5, 1] = [1, 6, 2] := by decide +kernel

/-! ### the analyzer as an object with a history (Model/C18Sess.lean, Lemmas/C18Sess.lean)

State = (input, parameters, stored one-time attributes); operations = assign a parameter / `reset()` / read a one-time
attribute / assign another input.  Discipline of the model (`Sess.step`): `reset()` drops EVERY stored attribute and
nothing else survives on the object; a read computes purely from (input, parameters) and stores. -/
section session
open Sess

/-- for EVERY history of assignments, resets, reads and input changes on one analyzer in which a `reset()` followed the
last assignment (`dirtyAfter false h = false`), each read equals the read on a NEWLY BUILT analyzer with the current
input and parameters — for every getter semantics whose parameter writes (`ub None ↦ Fs/2`) change no getter's value -/
theorem filtered_after_param_history_eq_fresh {I P V : Type} (S : Sem I P V) (hT : TouchInv S) (i0 : I) (p0 : P)
    (h : List (Op I P)) (hd : dirtyAfter false h = false) (m : Meth) :
    let s := (run S (fresh i0 p0) h).1
    (step S s (.read m)).2 = (step S (fresh s.input s.params) (.read m)).2 :=
  read_clean_eq_fresh S hT i0 p0 h hd m

/-- the explicit shape of the protocol: ANY history, then `reset()`, then any further reads, then the read -/
theorem filtered_after_reset_and_reads_eq_fresh {I P V : Type} (S : Sem I P V) (hT : TouchInv S) (i0 : I) (p0 : P)
    (pre reads : List (Op I P)) (hr : ∀ o ∈ reads, ∃ m, o = Op.read m) (m : Meth) :
    let s := (run S (fresh i0 p0) (pre ++ Op.reset :: reads)).1
    (step S s (.read m)).2 = some (S.compute m s.input s.params) := by
  intro s
  have h := read_clean_eq_fresh S hT i0 p0 (pre ++ Op.reset :: reads) (dirtyAfter_reset_reads false pre reads hr) m
  simpa [read_fresh] using h

/-- the invariant behind both: with no assignment pending, every STORED attribute is its getter on the current state -/
theorem stored_attributes_valid {I P V : Type} (S : Sem I P V) (hT : TouchInv S) (i0 : I) (p0 : P)
    (h : List (Op I P)) (hd : dirtyAfter false h = false) : Valid S (run S (fresh i0 p0) h).1 :=
  run_inv S hT h _ false (fun _ => valid_fresh S i0 p0) hd

/-- L7: a call that is refused part-way (`filtfilt(b, a, in_ts)` with coefficients scipy refuses / a bad `in_ts`) leaves the
analyzer exactly as it was; histories containing refused calls are covered by the theorems above (`Op.refused` is an op) -/
theorem refused_call_leaves_state_unchanged {I P V : Type} (S : Sem I P V) (s : St I P V) :
    step S s .refused = (s, none) := refused_leaves_state S s

/-- the executable instance (driver op `session`): the parameter write of `filtered_fourier` (`ub None ↦ Fs/2`, whichever
getter ran) does not change the Fourier filter's value — `TouchInv` for the getter this property's theorems are about
(for the boxcar `ceil(1/(2·1.0)) = ceil(1/(2·((Fs/2)/Fs)))` is a binary64 fact, compared per run by the session op) -/
theorem floatSem_touch_fourier (m' : Meth) (i : Float × List Float) (p : Float × Option Float) :
    floatSem.compute .fourier i (floatSem.touch m' i p) = floatSem.compute .fourier i p := by
  obtain ⟨lb, ub⟩ := p
  cases m' <;> cases ub <;> rfl

/-- HYPOTHESIS NEEDED: a transform kept on the object ACROSS reset() and nulled in place (`cstep`): bins [5,1,2,3], read
with band 1..1, band widened to 1..3, reset(), read → `[5,1,0,0]` (zeros IN band); a new analyzer returns `[5,1,2,3]` -/
theorem cached_spectrum_nulled_in_place_counterexample :
    let h : List (Op (List Int) (Nat × Nat)) := [.read .fourier, .setParam (fun _ => (1, 3)), .reset, .read .fourier]
    (crunWith (cstep binSem) (cfresh [5, 1, 2, 3] (1, 1)) h).2 = [[5, 1, 0, 0], [5, 1, 0, 0]]
    ∧ specCompute binSem [5, 1, 2, 3] (1, 3) = [5, 1, 2, 3]
    ∧ dirtyAfter false h = false :=
  cached_inplace_counterexample

/-- …and why a single read per analyzer or nested (narrowing) bands do not show it -/
theorem cached_spectrum_narrowing_unaffected :
    let h : List (Op (List Int) (Nat × Nat)) := [.read .fourier, .setParam (fun _ => (2, 2)), .reset, .read .fourier]
    (crunWith (cstep binSem) (cfresh [5, 1, 2, 3] (1, 3)) h).2 = [[5, 1, 2, 3], specCompute binSem [5, 1, 2, 3] (2, 2)] :=
  cached_inplace_narrowing_fine

/-- the same memo with the nulling done on a COPY answers like a new analyzer (input unchanged since it was filled) -/
theorem cached_spectrum_masked_copy_eq_fresh {I P C V : Type} (F : SpecSem I P C V) (s : CSt I P C V)
    (hs : ∀ sp, s.spectrum = some sp → sp = F.transform s.input) (m : Meth) :
    (cstepCopy F { s with cache := none } (.read m)).2 = some (specCompute F s.input s.params) :=
  (cstepCopy_read_eq_fresh F s hs m).1

/-- non-vacuity: a disciplined history exists and the machine runs it -/
example : dirtyAfter false ([.read .fourier, .setParam (fun p => (p.1 + 1, p.2)), .reset, .read .boxcar] :
    List (Op Nat (Nat × Nat))) = false := by decide
end session

end Nitime.C18.Props
