/-
C09 — refinement theorems: the FFT-cache model (`cachedSlice`, `normVal`, `cacheCoherency`,
`cachePsd`, `cacheRelPhase`, the seed injection) equals the dense model (`welchBin` +
`coherencySpec` / `coherencyMat`) — for all real inputs of any length, any window, any NFFT / step,
any number of windows ≥ 1, any band offset `lbIdx`, any pair (self, reversed, repeated: a pair list
is just a list of (x_i, x_j) evaluations), both `prefer_speed_over_memory` settings and both
`scale_by_freq` settings.  All definitions are those of `Nitime/Model/CohBase.lean` read at K = ℂ.

  cacheCoherency      mirrors  cache_fft + cache_to_coherency (SparseCoherenceAnalyzer.coherency)
  cachePsd            mirrors  cache_fft + cache_to_psd
  cacheRelPhase       mirrors  cache_to_relative_phase
  rfftFreq            mirrors  utils.get_freqs (the frequency vector of the cache and of both analyzers)
  welchFreq           mirrors  the dense frequency vector (mlab: np.fft.fftfreq)
  cacheDefaultOverlap / denseDefaultOverlap   mirror the two default-overlap expressions
  windowVals (Model/C09Win.lean) with Generated.CacheWin   mirrors `if np.iterable(window): window_vals = … else: window(np.ones(…))`
  getFreqsR / mlabFreqsR (Lemmas/C09FloatBand.lean)   mirror CohBase.getFreqs / C09.mlabFreqs with an abstract rounding
-/
import Nitime.Props.C08
import Nitime.Lemmas.CohBounds
import Nitime.Model.C09Win
import Nitime.Generated.CacheWin
import Nitime.Lemmas.C09FloatBand
import Nitime.Lemmas.C09Out
import Nitime.Generated.CacheOut
import Nitime.Lemmas.CohSession
import Nitime.Generated.SetInput
import Nitime.Lemmas.C09Keys
import Nitime.Generated.CacheKeys

open Finset ComplexConjugate
open Nitime.Coh Nitime.C08.Props Nitime.C09 Nitime.Generated

namespace Nitime.C09.Props

/-! ### small facts -/

theorem nSeg_pos (n N step : ℕ) : 1 ≤ nSeg n N step := by unfold nSeg; exact Nat.le_add_left 1 _

/-- one window: the row itself; several: the mean — in both cases Σ/L -/
theorem winMean_eq (L : ℕ) (hL : 1 ≤ L) (f : ℕ → ℂ) :
    winMean L f = (∑ s ∈ range L, f s) / (L : ℂ) := by
  unfold winMean
  by_cases h : L > 1
  · simp [h, sumRange_eq]
  · have : L = 1 := by omega
    subst this; simp

/-- both memory settings read the same numbers -/
theorem cachedConj_eq (b : Bool) (w : List ℂ) (N step : ℕ) (x : List ℂ) (l s t : ℕ) :
    cachedConj b w N step x l s t = conj (cachedSlice w N step x l s t) := by
  unfold cachedConj; cases b <;> rfl

theorem cachedSlice_eq (w x : List ℝ) (N step l s t : ℕ) :
    cachedSlice (w.map ((↑) : ℝ → ℂ)) N step (x.map ((↑) : ℝ → ℂ)) l s t = F w x N step (l + t) s := rfl

theorem sumAbsW2_eq (w : List ℝ) (N : ℕ) : sumAbsW2 (w.map ((↑) : ℝ → ℂ)) N = ((W w N : ℝ) : ℂ) := by
  unfold sumAbsW2 W
  rw [sumRange_eq]; push_cast
  refine sum_congr rfl fun j _ => ?_
  rw [getK_map_ofReal, c_mul, c_abs, Complex.norm_real, Real.norm_eq_abs, ← Complex.ofReal_mul, abs_mul_abs_self]
  push_cast; ring

/-- `norm_val` as a real number -/
noncomputable def nvR (w : List ℝ) (Fs : ℝ) (N : ℕ) (sbf : Bool) : ℝ :=
  if sbf then W w N * (Fs / 2) else W w N / 2

theorem normVal_eq (w : List ℝ) (Fs : ℝ) (N : ℕ) (sbf : Bool) :
    normVal (w.map ((↑) : ℝ → ℂ)) (Fs : ℂ) N sbf = ((nvR w Fs N sbf : ℝ) : ℂ) := by
  unfold normVal nvR
  cases sbf <;> simp [sumAbsW2_eq]

theorem nvR_pos {w : List ℝ} {Fs : ℝ} {N : ℕ} (hW : 0 < W w N) (hFs : 0 < Fs) (sbf : Bool) :
    0 < nvR w Fs N sbf := by
  unfold nvR; cases sbf <;> simp <;> positivity

theorem cW_pos {w : List ℝ} {Fs : ℝ} {N : ℕ} (hW : 0 < W w N) (hFs : 0 < Fs) (step n k : ℕ) :
    0 < cW w Fs N step n k := by
  unfold cW
  have : (0 : ℝ) < (nSeg n N step : ℝ) := by exact_mod_cast nSeg_pos n N step
  exact div_pos (div_pos (div_pos (osR_pos N k) this) hFs) hW

/-- a common positive factor on the three spectra cancels in the coherency -/
theorem coherencySpec_scale {d p q : ℝ} (hd : 0 < d) (hp : 0 ≤ p) (hq : 0 ≤ q) (z : ℂ) :
    coherencySpec ((d : ℂ) * z) ((d * p : ℝ) : ℂ) ((d * q : ℝ) : ℂ) = coherencySpec z (p : ℂ) (q : ℂ) := by
  rw [coherencySpec_real _ (mul_nonneg hd.le hp) (mul_nonneg hd.le hq), coherencySpec_real _ hp hq]
  have : Real.sqrt (d * p * (d * q)) = d * Real.sqrt (p * q) := by
    rw [show d * p * (d * q) = d ^ 2 * (p * q) by ring, Real.sqrt_mul (sq_nonneg d), Real.sqrt_sq hd.le]
  rw [this]; push_cast
  have hd' : (d : ℂ) ≠ 0 := by exact_mod_cast hd.ne'
  rw [mul_div_mul_left _ _ hd']

/-! ### coherency -/

/-- the cached coherency in closed form: coherency of the raw segment sums -/
theorem cacheCoherency_eq (b : Bool) (w xi xj : List ℝ) {nv : ℝ} (hnv : 0 < nv) (N step l t : ℕ)
    (_hlen : xj.length = xi.length) :
    cacheCoherency b (w.map (↑)) (nv : ℂ) N step (xi.map (↑)) (xj.map (↑)) l t
      = coherencySpec (∑ s ∈ range (nSeg xi.length N step), F w xi N step (l + t) s * conj (F w xj N step (l + t) s))
          ((∑ s ∈ range (nSeg xi.length N step), Complex.normSq (F w xi N step (l + t) s) : ℝ) : ℂ)
          ((∑ s ∈ range (nSeg xi.length N step), Complex.normSq (F w xj N step (l + t) s) : ℝ) : ℂ) := by
  unfold cacheCoherency
  simp only [List.length_map, cachedConj_eq, cachedSlice_eq, winMean_eq _ (nSeg_pos _ _ _), c_div, c_mul]
  set L := nSeg xi.length N step
  have hL : (0 : ℝ) < (L : ℝ) := by exact_mod_cast nSeg_pos xi.length N step
  rw [sum_mul_conj_eq, sum_mul_conj_eq]
  set A := ∑ s ∈ range L, F w xi N step (l + t) s * conj (F w xj N step (l + t) s)
  set P := ∑ s ∈ range L, Complex.normSq (F w xi N step (l + t) s)
  set Q := ∑ s ∈ range L, Complex.normSq (F w xj N step (l + t) s)
  have hP : 0 ≤ P := sum_nonneg fun _ _ => Complex.normSq_nonneg _
  have hQ : 0 ≤ Q := sum_nonneg fun _ _ => Complex.normSq_nonneg _
  have hd : 0 < 1 / (L * nv) := by positivity
  have := coherencySpec_scale hd hP hQ A
  rw [← this]
  unfold coherencySpec
  simp only [c_div, c_mul]
  congr 1
  · push_cast; field_simp
  · congr 1; push_cast; field_simp

/-- **cache_to_coherency = coherency()**: every pair, every band bin, both memory settings, both
    normalisations (the norm cancels), any number of windows ≥ 1 -/
theorem cache_coherency_eq_dense (b sbf : Bool) (w xi xj : List ℝ) {Fs : ℝ} (hFs : 0 < Fs) (N step l t : ℕ)
    (hW : 0 < W w N) (hlen : xj.length = xi.length) :
    cacheCoherency b (w.map (↑)) (normVal (w.map (↑)) (Fs : ℂ) N sbf) N step (xi.map (↑)) (xj.map (↑)) l t
      = coherencySpec
          (welchBin (w.map (↑)) (Fs : ℂ) N step (xi.map (↑)) (xj.map (↑)) (l + t))
          (welchBin (w.map (↑)) (Fs : ℂ) N step (xi.map (↑)) (xi.map (↑)) (l + t))
          (welchBin (w.map (↑)) (Fs : ℂ) N step (xj.map (↑)) (xj.map (↑)) (l + t)) := by
  rw [normVal_eq, cacheCoherency_eq b w xi xj (nvR_pos hW hFs sbf) N step l t hlen,
    welchBin_eq, welchBin_self, welchBin_self, hlen]
  exact (coherencySpec_scale (cW_pos hW hFs step xi.length (l + t))
    (sum_nonneg fun _ _ => Complex.normSq_nonneg _) (sum_nonneg fun _ _ => Complex.normSq_nonneg _) _).symm

/-! ### gains per channel (scale invariance of the cached path, norm constant included) -/

/-- two positive gains: the cross term scales by `a·b`, the auto terms by `a²`, `b²` — the coherency is unchanged -/
theorem coherencySpec_scale_two {a b p q : ℝ} (ha : 0 < a) (hb : 0 < b) (hp : 0 ≤ p) (hq : 0 ≤ q) (z : ℂ) :
    coherencySpec (((a * b : ℝ) : ℂ) * z) ((a ^ 2 * p : ℝ) : ℂ) ((b ^ 2 * q : ℝ) : ℂ) = coherencySpec z (p : ℂ) (q : ℂ) := by
  rw [coherencySpec_real _ (mul_nonneg (sq_nonneg a) hp) (mul_nonneg (sq_nonneg b) hq), coherencySpec_real _ hp hq]
  have : Real.sqrt (a ^ 2 * p * (b ^ 2 * q)) = (a * b) * Real.sqrt (p * q) := by
    rw [show a ^ 2 * p * (b ^ 2 * q) = (a * b) ^ 2 * (p * q) by ring, Real.sqrt_mul (sq_nonneg _),
      Real.sqrt_sq (mul_pos ha hb).le]
  rw [this]; push_cast
  have hd' : ((a : ℂ) * (b : ℂ)) ≠ 0 := by exact_mod_cast (mul_pos ha hb).ne'
  rw [mul_div_mul_left _ _ hd']

/-- **`cache_to_coherency` is invariant under a positive gain per channel AND under the choice of the norm constant**:
channel i recorded with gain `a`, channel j with gain `b`, cached with ANY positive `norm_val` — the value is the one of the
unscaled recording cached with any other positive `norm_val'` (so also: with the constant the code uses, with `1`, i.e. with the
divisions left out).  An identity over ℝ/ℂ: where binary64 overflows (`Pxx·Pyy` beyond 2^1024) is outside this statement and is
decided per run by the correspondence and the dense oracle on data scaled by powers of two (harness `scale-*` scenarios). -/
theorem cache_coherency_scale_invariant (bf : Bool) (w xi xj : List ℝ) {a b nv nv' : ℝ} (ha : 0 < a) (hb : 0 < b)
    (hnv : 0 < nv) (hnv' : 0 < nv') (N step l t : ℕ) (hlen : xj.length = xi.length) :
    cacheCoherency bf (w.map (↑)) (nv : ℂ) N step ((xi.map (a * ·)).map (↑)) ((xj.map (b * ·)).map (↑)) l t
      = cacheCoherency bf (w.map (↑)) (nv' : ℂ) N step (xi.map (↑)) (xj.map (↑)) l t := by
  rw [cacheCoherency_eq bf w (xi.map (a * ·)) (xj.map (b * ·)) hnv N step l t (by simp [hlen]),
    cacheCoherency_eq bf w xi xj hnv' N step l t hlen]
  simp only [List.length_map, F_scale]
  set L := nSeg xi.length N step
  have h1 : ∑ s ∈ range L, (a : ℂ) * F w xi N step (l + t) s * conj ((b : ℂ) * F w xj N step (l + t) s)
      = ((a * b : ℝ) : ℂ) * ∑ s ∈ range L, F w xi N step (l + t) s * conj (F w xj N step (l + t) s) := by
    rw [mul_sum]
    refine sum_congr rfl fun s _ => ?_
    rw [map_mul, Complex.conj_ofReal]; push_cast; ring
  have h2 : ∀ (c : ℝ) (x : List ℝ), ∑ s ∈ range L, Complex.normSq ((c : ℂ) * F w x N step (l + t) s)
      = c ^ 2 * ∑ s ∈ range L, Complex.normSq (F w x N step (l + t) s) := by
    intro c x
    rw [mul_sum]
    refine sum_congr rfl fun s _ => ?_
    rw [Complex.normSq_mul, Complex.normSq_ofReal]; ring
  rw [h1, h2 a xi, h2 b xj]
  exact coherencySpec_scale_two ha hb (sum_nonneg fun _ _ => Complex.normSq_nonneg _)
    (sum_nonneg fun _ _ => Complex.normSq_nonneg _) _

/-- … in particular with the constant `cache_fft` stores (`normVal`, either `scale_by_freq`) on both sides, and against the
dense `coherency()` of the UNSCALED recording -/
theorem cache_coherency_scaled_eq_dense_unscaled (bf sbf : Bool) (w xi xj : List ℝ) {a b Fs : ℝ} (ha : 0 < a) (hb : 0 < b)
    (hFs : 0 < Fs) (N step l t : ℕ) (hW : 0 < W w N) (hlen : xj.length = xi.length) :
    cacheCoherency bf (w.map (↑)) (normVal (w.map (↑)) (Fs : ℂ) N sbf) N step
        ((xi.map (a * ·)).map (↑)) ((xj.map (b * ·)).map (↑)) l t
      = coherencySpec
          (welchBin (w.map (↑)) (Fs : ℂ) N step (xi.map (↑)) (xj.map (↑)) (l + t))
          (welchBin (w.map (↑)) (Fs : ℂ) N step (xi.map (↑)) (xi.map (↑)) (l + t))
          (welchBin (w.map (↑)) (Fs : ℂ) N step (xj.map (↑)) (xj.map (↑)) (l + t)) := by
  rw [← cache_coherency_eq_dense bf sbf w xi xj hFs N step l t hW hlen, normVal_eq]
  exact cache_coherency_scale_invariant bf w xi xj ha hb (nvR_pos hW hFs sbf) (nvR_pos hW hFs sbf) N step l t hlen

/-- the norm constant alone: leaving the `/= norm_val` divisions out (constant 1) is the same number over ℝ/ℂ — the change
of seeded change C09-15 is invisible to every exact statement and shows only where `Pxx·Pyy` leaves the binary64 range -/
theorem cache_coherency_norm_constant_irrelevant (bf sbf : Bool) (w xi xj : List ℝ) {Fs : ℝ} (hFs : 0 < Fs)
    (N step l t : ℕ) (hW : 0 < W w N) (hlen : xj.length = xi.length) :
    cacheCoherency bf (w.map (↑)) (normVal (w.map (↑)) (Fs : ℂ) N sbf) N step (xi.map (↑)) (xj.map (↑)) l t
      = cacheCoherency bf (w.map (↑)) ((1 : ℝ) : ℂ) N step (xi.map (↑)) (xj.map (↑)) l t := by
  rw [normVal_eq, cacheCoherency_eq bf w xi xj (nvR_pos hW hFs sbf) N step l t hlen,
    cacheCoherency_eq bf w xi xj one_pos N step l t hlen]

/-- the memory / speed setting does not change any cached quantity -/
theorem memory_setting_irrelevant (w : List ℂ) (nv : ℂ) (N step : ℕ) (xi xj : List ℂ) (l t : ℕ) :
    cacheCoherency true w nv N step xi xj l t = cacheCoherency false w nv N step xi xj l t
    ∧ cachePsd true w nv N step xi l t = cachePsd false w nv N step xi l t
    ∧ cacheRelPhase true w N step xi xj l t = cacheRelPhase false w N step xi xj l t := by
  refine ⟨?_, ?_, ?_⟩ <;> simp only [cacheCoherency, cachePsd, cacheRelPhase, cachedConj_eq]

/-- **seed rows = dense rows**: SeedCoherenceAnalyzer puts the seed's slices under key −1 and asks
    for the pairs (−1, target); its value for (seed s, target t) is the dense coherency matrix of the
    stacked channels `seeds ++ targets` at (s, |seeds| + t) -/
theorem seed_rows_eq_dense (b sbf : Bool) (w : List ℝ) (seeds targets : List (List ℝ)) {Fs : ℝ} (hFs : 0 < Fs)
    (N step l k : ℕ) (hW : 0 < W w N) (s t : ℕ) (hs : s < seeds.length) (_ht : t < targets.length)
    (hlen : (targets.getD t []).length = (seeds.getD s []).length) :
    cacheCoherency b (w.map (↑)) (normVal (w.map (↑)) (Fs : ℂ) N sbf) N step
        ((seeds.getD s []).map (↑)) ((targets.getD t []).map (↑)) l k
      = coherencyMat (fun i j k' => welchBin (w.map (↑)) (Fs : ℂ) N step
            (((seeds ++ targets).getD i []).map (↑)) (((seeds ++ targets).getD j []).map (↑)) k')
          s (seeds.length + t) (l + k) := by
  rw [cache_coherency_eq_dense b sbf w _ _ hFs N step l k hW hlen]
  unfold coherencyMat
  have h1 : (seeds ++ targets).getD s [] = seeds.getD s [] := by
    simp [List.getD_eq_getElem?_getD, List.getElem?_append_left hs]
  have h2 : (seeds ++ targets).getD (seeds.length + t) [] = targets.getD t [] := by
    simp [List.getD_eq_getElem?_getD, List.getElem?_append_right (Nat.le_add_right _ _)]
  simp only [Nat.le_add_right_of_le (Nat.le_of_lt hs), if_true, h1, h2]

/-! ### power spectra -/

/-- **cache_to_psd = dense PSD** (intended model; scale_by_freq=True) -/
theorem cache_psd_eq_dense (b : Bool) (w x : List ℝ) {Fs : ℝ} (hFs : 0 < Fs) (N step l t : ℕ) (hW : 0 < W w N) :
    cachePsd b (w.map (↑)) (normVal (w.map (↑)) (Fs : ℂ) N true) N step (x.map (↑)) l t
      = welchBin (w.map (↑)) (Fs : ℂ) N step (x.map (↑)) (x.map (↑)) (l + t) := by
  rw [welchBin_eq, normVal_eq]
  unfold cachePsd cW nvR
  simp only [List.length_map, cachedConj_eq, cachedSlice_eq, winMean_eq _ (nSeg_pos _ _ _), c_div, c_mul,
    c_ofNat, oneSided_eq, if_true]
  have hL : ((nSeg x.length N step : ℕ) : ℂ) ≠ 0 := by exact_mod_cast (Nat.pos_iff_ne_zero.mp (nSeg_pos _ _ _))
  have hF : (Fs : ℂ) ≠ 0 := by exact_mod_cast hFs.ne'
  have hWc : ((W w N : ℝ) : ℂ) ≠ 0 := by exact_mod_cast hW.ne'
  push_cast
  field_simp

/-- a gain `a` on the recording multiplies the cached PSD by `a²` (exactly so in binary64 too for powers of two, while nothing
overflows): `cache_to_psd` of the scaled channel = `a²` × the dense PSD of the unscaled channel -/
theorem cache_psd_scaled_eq_gain_sq_dense (b : Bool) (w x : List ℝ) (a : ℝ) {Fs : ℝ} (hFs : 0 < Fs) (N step l t : ℕ) (hW : 0 < W w N) :
    cachePsd b (w.map (↑)) (normVal (w.map (↑)) (Fs : ℂ) N true) N step ((x.map (a * ·)).map (↑)) l t
      = ((a ^ 2 : ℝ) : ℂ) * welchBin (w.map (↑)) (Fs : ℂ) N step (x.map (↑)) (x.map (↑)) (l + t) := by
  rw [cache_psd_eq_dense b w (x.map (a * ·)) hFs N step l t hW, welchBin_scale_both, welchBin_self]
  push_cast; ring

/-- … and with scale_by_freq=False the cached PSD is Fs × the dense density -/
theorem cache_psd_eq_dense_unscaled (b : Bool) (w x : List ℝ) {Fs : ℝ} (hFs : 0 < Fs) (N step l t : ℕ) (hW : 0 < W w N) :
    cachePsd b (w.map (↑)) (normVal (w.map (↑)) (Fs : ℂ) N false) N step (x.map (↑)) l t
      = (Fs : ℂ) * welchBin (w.map (↑)) (Fs : ℂ) N step (x.map (↑)) (x.map (↑)) (l + t) := by
  rw [welchBin_eq, normVal_eq]
  unfold cachePsd cW nvR
  simp only [List.length_map, cachedConj_eq, cachedSlice_eq, winMean_eq _ (nSeg_pos _ _ _), c_div, c_mul,
    c_ofNat, oneSided_eq]
  have hL : ((nSeg x.length N step : ℕ) : ℂ) ≠ 0 := by exact_mod_cast (Nat.pos_iff_ne_zero.mp (nSeg_pos _ _ _))
  have hF : (Fs : ℂ) ≠ 0 := by exact_mod_cast hFs.ne'
  have hWc : ((W w N : ℝ) : ℂ) ≠ 0 := by exact_mod_cast hW.ne'
  push_cast
  field_simp

/-! ### relative phase (single window) -/

/-- **cache_to_relative_phase = angle of the dense cross-spectrum** when there is one window -/
theorem cache_relphase_eq_dense_angle (b : Bool) (w xi xj : List ℝ) {Fs : ℝ} (hFs : 0 < Fs) (N step l t : ℕ)
    (hW : 0 < W w N) (h1 : nSeg xi.length N step = 1) :
    cacheRelPhase b (w.map (↑)) N step (xi.map (↑)) (xj.map (↑)) l t
      = ((Complex.arg (welchBin (w.map (↑)) (Fs : ℂ) N step (xi.map (↑)) (xj.map (↑)) (l + t)) : ℝ) : ℂ) := by
  rw [welchBin_eq, h1]
  unfold cacheRelPhase winMean
  simp only [List.length_map, h1, gt_iff_lt, lt_self_iff_false, if_false, cachedConj_eq, cachedSlice_eq,
    c_arg, c_mul, sum_range_one]
  rw [Complex.arg_real_mul _ (cW_pos hW hFs step xi.length (l + t))]

/-! ### phases with several windows -/

/-- the analysed segment starting at `a`, as a record of its own -/
def segOf (x : List ℝ) (N a : ℕ) : List ℝ := (x.drop a).take N

theorem segOf_getD (x : List ℝ) (N a j : ℕ) (hj : j < N) : (segOf x N a).getD j 0 = x.getD (a + j) 0 := by
  unfold segOf
  simp [List.getD_eq_getElem?_getD, hj, List.getElem?_drop]

theorem nSeg_segOf (x : List ℝ) (N a step : ℕ) : nSeg (segOf x N a).length N step = 1 := by
  have h : (segOf x N a).length ≤ N := by unfold segOf; simp
  unfold nSeg paddedLen
  split_ifs <;> simp <;> omega

/-- the spectrum of the s-th segment taken alone is the s-th cached slice -/
theorem F_segOf (w x : List ℝ) (N step step' k s : ℕ) :
    F w (segOf x N (s * step)) N step' k 0 = F w x N step k s := by
  unfold F
  rw [segFft_eq, segFft_eq]
  refine sum_congr rfl fun j hj => ?_
  rw [getK_map_ofReal, getK_map_ofReal, getK_map_ofReal, Nat.zero_mul, Nat.zero_add, segOf_getD _ _ _ _ (mem_range.mp hj)]

/-- **cache_to_relative_phase with any number of windows** = the mean over the windows of the dense
    single-window phase: window s contributes the angle of the dense cross-spectrum of the two s-th
    segments analysed alone (this is what the docstring's "average of the angles calculated on individual
    windows" means; for one window it is `cache_relphase_eq_dense_angle`) -/
theorem cache_relphase_eq_mean_dense_angles (b : Bool) (w xi xj : List ℝ) {Fs : ℝ} (hFs : 0 < Fs)
    (N step step' l t : ℕ) (hW : 0 < W w N) :
    cacheRelPhase b (w.map (↑)) N step (xi.map (↑)) (xj.map (↑)) l t
      = (∑ s ∈ range (nSeg xi.length N step),
          ((Complex.arg (welchBin (w.map (↑)) (Fs : ℂ) N step'
              ((segOf xi N (s * step)).map (↑)) ((segOf xj N (s * step)).map (↑)) (l + t)) : ℝ) : ℂ))
        / (nSeg xi.length N step : ℂ) := by
  unfold cacheRelPhase
  simp only [List.length_map, cachedConj_eq, cachedSlice_eq, winMean_eq _ (nSeg_pos _ _ _), c_arg, c_mul]
  congr 1
  refine sum_congr rfl fun s _ => ?_
  rw [welchBin_eq, nSeg_segOf, sum_range_one, Complex.arg_real_mul _ (cW_pos hW hFs step' _ (l + t)),
    F_segOf, F_segOf]

/-- **cache_to_phase**: the mean over the windows of the angle of each window's spectrum -/
theorem cache_phase_eq_mean_segment_angles (w x : List ℝ) (N step l t : ℕ) :
    cachePhase (w.map (↑)) N step (x.map (↑)) l t
      = (∑ s ∈ range (nSeg x.length N step), ((Complex.arg (F w x N step (l + t) s) : ℝ) : ℂ))
        / (nSeg x.length N step : ℂ) := by
  unfold cachePhase
  simp only [List.length_map, cachedSlice_eq, winMean_eq _ (nSeg_pos _ _ _), c_arg]

/-! ### frequency vectors and defaults -/

/-- **frequencies agree**, both parities of NFFT: `(np.fft.rfftfreq(NFFT) * Fs)[k] = k·Fs/NFFT`, the dense
    grid (`np.fft.fftfreq(NFFT, 1/Fs)[k]`) -/
theorem cache_freqs_eq_dense (Fs : ℂ) (N k : ℕ) : rfftFreq Fs N k = welchFreq Fs N k := by
  unfold rfftFreq welchFreq
  simp only [c_mul, c_div, c_ofNat]
  ring

/-- **defaults agree**: both paths derive the same default overlap from NFFT -/
theorem defaults_agree (N : ℕ) : cacheDefaultOverlap N = denseDefaultOverlap N := rfl

/-! ### non-vacuity -/

example := cache_coherency_eq_dense true false [1, 2, 1] [1, -1, 2, 1 / 2] [0, 1, 1, -3] (Fs := 2) (by norm_num) 3 1 1 0
  (by norm_num [W, Finset.sum_range_succ]) rfl
example := cache_psd_eq_dense false [1, 2, 1] [1, -1, 2, 1 / 2] (Fs := 2) (by norm_num) 3 1 1 0
  (by norm_num [W, Finset.sum_range_succ])
example : nSeg ([1, -1] : List ℝ).length 3 1 = 1 := by decide
example : nSeg ([1, -1, 2, 1 / 2] : List ℝ).length 3 1 > 1 := by decide


/-! ### the window: given as data or as a function, whatever the dtype of the recording -/

/-- as extracted from the CURRENT source of `cache_fft`: a window given as a sequence is used with the values it holds
(no cast to the dtype of the data), a window function is recognised, and the cached slices are FFTs of
`window_vals * segment` -/
theorem cache_fft_takes_window_as_given :
    CacheWin.arrayConv = .asGiven ∧ CacheWin.funcArg ≠ .unknown ∧ CacheWin.windowedProduct = true := by decide

theorem windowVals_array_as_given {K : Type} (c : Casts K) (one : K) (dt : DType) (N : ℕ) (v : List K) :
    windowVals c one CacheWin.arrayConv CacheWin.funcArg dt N (.arr v) = some v := rfl

theorem zipWith_mul_replicate_one (h : List ℂ) (N : ℕ) (hN : h.length ≤ N) :
    List.zipWith (· * ·) h (List.replicate N (1 : ℂ)) = h := by
  induction h generalizing N with
  | nil => simp
  | cons a t ih =>
    cases N with
    | zero => simp at hN
    | succ n =>
      have : t.length ≤ n := by simpa using hN
      simp [List.replicate_succ, ih n this]

theorem windowVals_mul_function (c : Casts ℂ) (dt : DType) (N : ℕ) (h : List ℂ) (hN : h.length ≤ N) :
    windowVals c 1 CacheWin.arrayConv CacheWin.funcArg dt N (.func (mulWindow (· * ·) h)) = some h := by
  simp [windowVals, CacheWin.funcArg, mulWindow, zipWith_mul_replicate_one h N hN]

/-- the two ways of handing a real window `w` to `cache_fft`: as data (array / list / tuple of any dtype: its values),
or as the function `lambda x: w * x` -/
inductive GivenAs (w : List ℝ) (N : ℕ) : WinArg ℂ → Prop
  | data : GivenAs w N (.arr (w.map (↑)))
  | function (h : w.length ≤ N) : GivenAs w N (.func (mulWindow (· * ·) (w.map (↑))))

theorem windowVals_given (c : Casts ℂ) (dt : DType) (w : List ℝ) (N : ℕ) (wa : WinArg ℂ) (hg : GivenAs w N wa) :
    windowVals c 1 CacheWin.arrayConv CacheWin.funcArg dt N wa = some (w.map (↑)) := by
  cases hg with
  | data => rfl
  | function h => exact windowVals_mul_function c dt N _ (by simpa using h)

/-- **cached coherency = dense coherency for an arbitrary real window, given as data or as a function, for every dtype
class of the recording and whatever numpy's casts do** (the conversion of the window is the one extracted from the source) -/
theorem cache_coherency_eq_dense_any_window_arg (b sbf : Bool) (c : Casts ℂ) (dt : DType) (w xi xj : List ℝ) (wa : WinArg ℂ)
    {Fs : ℝ} (hFs : 0 < Fs) (N step l t : ℕ) (hg : GivenAs w N wa) (hW : 0 < W w N) (hlen : xj.length = xi.length) :
    ∃ wv, windowVals c 1 CacheWin.arrayConv CacheWin.funcArg dt N wa = some wv ∧
      cacheCoherency b wv (normVal wv (Fs : ℂ) N sbf) N step (xi.map (↑)) (xj.map (↑)) l t
        = coherencySpec
            (welchBin (w.map (↑)) (Fs : ℂ) N step (xi.map (↑)) (xj.map (↑)) (l + t))
            (welchBin (w.map (↑)) (Fs : ℂ) N step (xi.map (↑)) (xi.map (↑)) (l + t))
            (welchBin (w.map (↑)) (Fs : ℂ) N step (xj.map (↑)) (xj.map (↑)) (l + t)) :=
  ⟨_, windowVals_given c dt w N wa hg, cache_coherency_eq_dense b sbf w xi xj hFs N step l t hW hlen⟩

theorem cache_psd_eq_dense_any_window_arg (b : Bool) (c : Casts ℂ) (dt : DType) (w x : List ℝ) (wa : WinArg ℂ)
    {Fs : ℝ} (hFs : 0 < Fs) (N step l t : ℕ) (hg : GivenAs w N wa) (hW : 0 < W w N) :
    ∃ wv, windowVals c 1 CacheWin.arrayConv CacheWin.funcArg dt N wa = some wv ∧
      cachePsd b wv (normVal wv (Fs : ℂ) N true) N step (x.map (↑)) l t
        = welchBin (w.map (↑)) (Fs : ℂ) N step (x.map (↑)) (x.map (↑)) (l + t) :=
  ⟨_, windowVals_given c dt w N wa hg, cache_psd_eq_dense b w x hFs N step l t hW⟩

/-- contrast (the change class of seeded change C09-8): a cast of the window to the dtype of an INTEGER recording
truncates the 4-point Hanning taper `[0, 3/4, 3/4, 0]` to zeros -/
theorem cast_to_integer_data_zeroes_taper :
    windowVals (⟨id, fun x => ((Rat.floor x : ℤ) : ℚ)⟩ : Casts ℚ) 1 .castToData .onesOfDataDtype .int 4 (.arr [0, 3 / 4, 3 / 4, 0])
      = some [0, 0, 0, 0] := by decide +kernel

/-! ### band-index selection in binary64 (moved from "correspondence only" to proved: `Lemmas/C09FloatBand.lean`) -/

/-- `cache_fft`'s band indices, computed on the FLOAT vector `utils.get_freqs(Fs, NFFT)` (any monotone rounding with
relative error `u` per operation), are the indices of the exact grid `k·Fs/NFFT` as soon as no band edge lies within the
rounding error of a bin -/
theorem cache_band_indices_float_eq_exact (R : Rounding) {u : ℚ} (hu0 : 0 ≤ u) (hu1 : u ≤ 1) (h : R.relErr u)
    {Fs : ℚ} (hFs : 0 ≤ Fs) (N : ℕ) (lb ub : ℚ)
    (hlb : ∀ k < N / 2 + 1, lb < (1 - u) ^ 3 * ((k : ℚ) * Fs / (N : ℚ)) ∨ (1 + u) ^ 3 * ((k : ℚ) * Fs / (N : ℚ)) < lb)
    (hub : ∀ k < N / 2 + 1, ub < (1 - u) ^ 3 * ((k : ℚ) * Fs / (N : ℚ)) ∨ (1 + u) ^ 3 * ((k : ℚ) * Fs / (N : ℚ)) < ub) :
    gb (getFreqsR R Fs N) lb (some ub) = gb (Nitime.C05.trueOneSided Fs N) lb (some ub) :=
  float_band_eq_exact_band_of_offgrid R hu0 hu1 h hFs N lb ub hlb hub

/-! ## Round 2: aliasing of results (L8 / L6) and refused `set_input` calls (L7) -/

section Aliasing
open Nitime.C09.Out

/-- the four `cache_to_*` functions of the CURRENT source bind what they return to an array / dict they allocate
themselves, fill it with new arrays, and neither write into the cache dict nor hand it to a helper (generated:
`Generated.CacheOut`; an output array kept with the cache — seeded change C09-11 — re-opens this) -/
theorem cache_to_results_are_allocated_per_call :
    CacheOut.coherency = ⟨.fresh, false, true⟩ ∧ CacheOut.relativePhase = ⟨.fresh, false, true⟩ ∧
    CacheOut.psd = ⟨.fresh, false, true⟩ ∧ CacheOut.phase = ⟨.fresh, false, true⟩ := by decide

/-- the discipline the model runs for a function: its output array is kept with the cache unless the source allocates it -/
def keepsOutput (o : CacheOut.OutSpec) : Bool := !(o.alloc == .fresh && !o.writesCache && o.entriesNew)

/-- **results never alias the cache**: along every history of `cache_to_coherency` (resp. relative phase, PSD, phase)
queries of ONE cache — other or equal pair lists, equal or different output shapes — nothing of a result is kept in the
cache, all results are different arrays, and each result held by the caller shows at the END the values it was
computed with (which are the dense values: `cache_coherency_eq_dense`, `cache_psd_eq_dense`, …) -/
theorem results_never_alias_cache (cs : List Call) :
    (∀ o ∈ [CacheOut.coherency, CacheOut.relativePhase, CacheOut.psd, CacheOut.phase],
      (run (keepsOutput o) init cs).kept = [] ∧ (ids (run (keepsOutput o) init cs)).Nodup ∧
      finalViews (run (keepsOutput o) init cs) = cs.map (·.vals)) := by
  intro o ho
  have hk : keepsOutput o = false := by
    obtain ⟨h1, h2, h3, h4⟩ := cache_to_results_are_allocated_per_call
    simp only [List.mem_cons, List.mem_nil_iff, or_false] at ho
    rcases ho with rfl | rfl | rfl | rfl <;> simp [keepsOutput, h1, h2, h3, h4]
  rw [hk]
  exact Out.results_never_alias_cache cs

-- non-vacuity: three queries, two of equal output shape
example : finalViews (run (keepsOutput CacheOut.coherency) init [⟨7, [1, 2]⟩, ⟨7, [5, 6]⟩, ⟨3, [9]⟩]) = [[1, 2], [5, 6], [9]] := by
  decide

end Aliasing

section RefusedSetInput
open Nitime.CohSession

/-- **SparseCoherenceAnalyzer, any session** of accepted / refused `set_input` calls, `reset()`s and reads: the rate the
cache is built with (`method['Fs']`: frequencies, `scale_by_freq` normalisation of the spectra, `delay`) is the rate of
the input ACTUALLY HELD — the last one not refused — or the `'Fs'` the caller fixed.  `G` is any function of that rate
(the generated `set_input` body is the side condition: raises before writes, accepted calls re-target) -/
theorem SparseCoherenceAnalyzer_session_rate_follows_held_input (G : ℚ → List ℚ) (inp : Inp) (userFs : Option ℚ)
    (evs : List Ev) :
    run G SetInput.sparse (init inp userFs) evs = spec G (hasCheck SetInput.sparse) userFs inp evs := by
  refine session_reads_from_init G _ (by decide) ?_ inp userFs evs
  intro new s
  cases hf : s.fsFromInput <;> simp [SetInput.sparse, exec, retarget, pick, hf]

/-- a refused `set_input` leaves input, rate and memoised results of a SparseCoherenceAnalyzer as they were -/
theorem SparseCoherenceAnalyzer_refused_set_input_leaves_state_unchanged (new : Inp) (sv : Option Inp) (s : St)
    (h : (exec true new SetInput.sparse sv s).2 = true) : (exec true new SetInput.sparse sv s).1 = s :=
  refused_exec_unchanged new _ sv s (by decide) h

/-- … and every cached frequency read in such a session is the DENSE frequency `k·Fs/NFFT` at that rate -/
theorem session_cached_frequency_eq_dense (Fs : ℂ) (N k : ℕ) : rfftFreq Fs N k = welchFreq Fs N k :=
  cache_freqs_eq_dense Fs N k

/-- contrast, the order of seeded change C09-10 (swap + refresh `method['Fs']`, check, roll back `self.input` only):
the analyzer built on a 100 Hz series, after a refused 250 Hz one, estimates at 250 Hz -/
theorem swap_check_rollback_counterexample :
    (run (fun fs => [fs]) [.save, .reset, .setInput .new, .writeFs .held, .check] (init ⟨100, 0⟩ none)
      [.setInput ⟨250, 1⟩ true, .readFreq]).map (·.1) = [[250]] ∧
    checksFirst [.save, .reset, .setInput .new, .writeFs .held, .check] = false := by
  decide +kernel

end RefusedSetInput

/-! ### Channel bookkeeping of the cache: every value lies under the key of ITS channel (class "labels attached to the wrong values") -/
section ChannelKeys
open Nitime.C09.Keys Nitime.Generated

/-- the tie: in the CURRENT source `cache_fft` (both dicts), `cache_to_psd` and `cache_to_phase` each take the keys of their dict
and the channel whose value they compute from ONE ordering (one loop variable / one iterable), and the translator recognised
every one of them.  An edit that keys by another ordering than it fills (`dict(zip(sorted(chans), [… for c in chans]))`)
changes `Generated.CacheKeys` and this stops checking. -/
theorem cache_functions_key_and_fill_from_one_ordering :
    ∀ s ∈ CacheKeys.table, s.2.keyOrd = s.2.valOrd ∧ s.2.keyOrd ≠ .unknown := by
  decide

/-- **`cache_to_psd(cache_fft(x, ij), ij)[c]` is the spectrum of channel `c`** — for EVERY pair list (sparse, unsorted, reversed,
repeated, with gaps, largest index first), every number of channels, and WHATEVER order the two channel sets iterate in
(`iterF`, `iterQ`: any lists naming exactly the requested channels): the windows `slices (row c)` of row `c` are stored under
key `c`, and the value under key `c` of the returned dict is `post` of exactly those (`post` = mean of |·|²/norm with the edge
bins halved, `cachePsd`; `cache_psd_eq_dense` then equates it with the dense PSD of channel `c`). -/
theorem cache_psd_keyed_by_channel {R S P} (ij : List (ℕ × ℕ)) (iterF iterQ : List ℕ)
    (hF : ∀ c, c ∈ iterF ↔ c ∈ channels ij) (hQ : ∀ c, c ∈ iterQ ↔ c ∈ channels ij)
    (rows : ℕ → R) (slices : R → S) (post : S → P) (dflt : S) (c : ℕ) (hc : c ∈ channels ij) :
    (cacheThenQuery CacheKeys.fft CacheKeys.psd iterF iterQ ij rows slices post dflt).lookup c
      = some (post (slices (rows c))) :=
  cacheThenQuery_lookup _ _ (by decide) (by decide) iterF iterQ ij hF hQ rows slices post dflt c hc

/-- the same for `cache_to_phase` -/
theorem cache_phase_keyed_by_channel {R S P} (ij : List (ℕ × ℕ)) (iterF iterQ : List ℕ)
    (hF : ∀ c, c ∈ iterF ↔ c ∈ channels ij) (hQ : ∀ c, c ∈ iterQ ↔ c ∈ channels ij)
    (rows : ℕ → R) (slices : R → S) (post : S → P) (dflt : S) (c : ℕ) (hc : c ∈ channels ij) :
    (cacheThenQuery CacheKeys.fft CacheKeys.phase iterF iterQ ij rows slices post dflt).lookup c
      = some (post (slices (rows c))) :=
  cacheThenQuery_lookup _ _ (by decide) (by decide) iterF iterQ ij hF hQ rows slices post dflt c hc

/-- the conjugate windows kept with `prefer_speed_over_memory` sit under the same keys as the windows themselves -/
theorem cache_conj_slices_keyed_by_channel {V} (ij : List (ℕ × ℕ)) (iter : List ℕ) (hI : ∀ c, c ∈ iter ↔ c ∈ channels ij)
    (f : ℕ → V) (c : ℕ) (hc : c ∈ channels ij) :
    (keyed CacheKeys.fftConj iter ij f).lookup c = some (f c) ∧ (keyed CacheKeys.fft iter ij f).lookup c = some (f c) :=
  ⟨keyed_lookup _ (by decide) iter ij hI f c hc, keyed_lookup _ (by decide) iter ij hI f c hc⟩

/-- … and nothing lies under a key that was not requested -/
theorem cache_psd_has_no_other_keys {V} (ij : List (ℕ × ℕ)) (iter : List ℕ) (hI : ∀ c, c ∈ iter ↔ c ∈ channels ij)
    (f : ℕ → V) (c : ℕ) (hc : c ∉ channels ij) : (keyed CacheKeys.psd iter ij f).lookup c = none :=
  keyed_lookup_none _ (by decide) iter ij hI f c hc

/-- non-vacuity: `ij = [(9, 3), (9, 9)]`, the set iterating as 9, 3 -/
example : (cacheThenQuery CacheKeys.fft CacheKeys.psd [9, 3] [3, 9] [(9, 3), (9, 9)] (fun c => c) id id 0).lookup 9 = some 9 := by
  decide

/-- the set-order discipline of seeded change C09-13 (keys `sorted(set)`, values in the set's iteration order), `ij = [(1, 8)]` -/
theorem set_order_discipline_counterexample :
    (keyed ⟨.sorted, .setIter⟩ [8, 1] [(1, 8)] (fun c => c)).lookup 1 = some 8 ∧
    (keyed ⟨.sorted, .setIter⟩ [8, 1] [(1, 8)] (fun c => c)).lookup 8 = some 1 ∧
    -- while on a channel set that iterates in increasing order the same code is right (why ≤ 8 channels never show it)
    (keyed ⟨.sorted, .setIter⟩ [1, 5] [(5, 1)] (fun c => c)).lookup 5 = some 5 :=
  ⟨(sorted_keys_set_order_values_counterexample _).1, (sorted_keys_set_order_values_counterexample _).2, by decide⟩

end ChannelKeys

end Nitime.C09.Props
