/-
C05 — property theorems: every frequency grid the source computes, as re-extracted by
`harness/translate_c05.py` into `Nitime.Generated.Grids`, against the grid the property asks for.

One theorem per site about the GENERATED term:
  `<site>_is_true_grid`    the site's formula is `k·Fs/N` for all `Fs`, all `N`, both parities;
  `<site>_counterexample`  (+ `<site>_partial`) where today's formula is not — the counterexample
                           stops checking the day the source is repaired; flip the site then to
                           `<site>_is_true_grid := intended_…_is_true_grid` (one line, see below).
`pi` is the value of `np.pi`, an arbitrary parameter.  General lemmas: `Nitime/Lemmas/C05Grid.lean`.
-/
import Nitime.Model.C05
import Nitime.Lemmas.C05Grid
import Nitime.Lemmas.C05Hist
import Nitime.Lemmas.Parseval
import Nitime.Lemmas.CohSession
import Nitime.Generated.SetInput

namespace Nitime.C05.Props
open Nitime Nitime.C05 Nitime.Generated

/-! ### the term shapes that occur, evaluated -/

/-- `np.fft.rfftfreq(N) * Fs` -/
def intended_onesided : GridExpr := .mulS (.rfftfreq .n) .fs
/-- `np.linspace(0, Fs, N, endpoint=False)` -/
def intended_twosided : GridExpr := .linspace (.const 0) .fs .n false
/-- `(np.arange(N) - N // 2) * Fs / N` (the axis of `fftshift(fft(x))`) -/
def intended_shifted : GridExpr := .divS (.mulS (.subS (.arange .n) (.floordiv .n (.const 2))) .fs) .n
/-- `np.linspace(0, Fs / 2, n_freqs // 2 + 1, endpoint=False)` (the `freqz` grid, in Hz) -/
def intended_freqz : GridExpr :=
  .linspace (.const 0) (.div .fs (.const 2)) (.add (.floordiv .n (.const 2)) (.const 1)) false
/-- `np.linspace(0, Fs / 2, N // 2 + 1)` — today's one-sided formula at most sites -/
def half_floordiv : GridExpr :=
  .linspace (.const 0) (.div .fs (.const 2)) (.add (.floordiv .n (.const 2)) (.const 1)) true
/-- `np.linspace(0, Fs / 2, int(n / 2 + 1))` — `utils.get_freqs` today -/
def half_int : GridExpr :=
  .linspace (.const 0) (.div .fs (.const 2)) (.int (.add (.div .n (.const 2)) (.const 1))) true

theorem eval_half_floordiv (pi Fs : ℚ) (N : ℕ) :
    eval half_floordiv pi Fs N = linspace 0 (Fs / 2) (N / 2 + 1) true := by
  simp only [eval, half_floordiv, GridExpr.evalEnv, AExpr.evalN, AExpr.eval, count_floordiv]
  norm_num

theorem eval_half_int (pi Fs : ℚ) (N : ℕ) :
    eval half_int pi Fs N = linspace 0 (Fs / 2) (N / 2 + 1) true := by
  simp only [eval, half_int, GridExpr.evalEnv, AExpr.evalN, AExpr.eval, count_int_half]
  norm_num

theorem intended_onesided_is_true_grid (pi Fs : ℚ) (N : ℕ) :
    eval intended_onesided pi Fs N = trueOneSided Fs N := by
  simp only [eval, intended_onesided, GridExpr.evalEnv, AExpr.evalN, AExpr.eval, count_n]
  exact rfftfreq_scaled_is_true Fs N

/-- `np.fft.rfftfreq(int(n)) * Fs` (the repaired `utils.get_freqs`) -/
def intended_onesided_int : GridExpr := .mulS (.rfftfreq (.int .n)) .fs

theorem intended_onesided_int_is_true_grid (pi Fs : ℚ) (N : ℕ) :
    eval intended_onesided_int pi Fs N = trueOneSided Fs N := by
  simp only [eval, intended_onesided_int, GridExpr.evalEnv, AExpr.evalN, AExpr.eval, count_int_n]
  exact rfftfreq_scaled_is_true Fs N

theorem intended_twosided_is_true_grid (pi Fs : ℚ) (N : ℕ) :
    eval intended_twosided pi Fs N = trueTwoSided Fs N := by
  simp only [eval, intended_twosided, GridExpr.evalEnv, AExpr.evalN, AExpr.eval, count_n]
  have := linspace_full_noendpoint_is_true Fs N
  simpa using this

theorem intended_freqz_is_true_grid (pi Fs : ℚ) (N : ℕ) :
    eval intended_freqz pi Fs N = trueFreqz Fs (N / 2 + 1) := by
  simp only [eval, intended_freqz, GridExpr.evalEnv, AExpr.evalN, AExpr.eval, count_floordiv]
  have := linspace_half_noendpoint_is_freqz Fs (N / 2 + 1)
  simpa using this

theorem intended_shifted_is_true_grid (pi Fs : ℚ) (N : ℕ) :
    eval intended_shifted pi Fs N = trueShifted Fs N := by
  simp only [eval, intended_shifted, GridExpr.evalEnv, AExpr.evalN, AExpr.eval, count_n, trueShifted,
    List.map_map]
  apply List.map_congr_left
  intro k _
  have h : ((((N : ℚ) / ((2 : ℤ) : ℚ)).floor : ℤ) : ℚ) = ((N / 2 : ℕ) : ℚ) := by
    have := Rat.floor_natCast_div_natCast N 2
    rw [ratFloor_eq]
    have h2 : ⌊(N : ℚ) / ((2 : ℤ) : ℚ)⌋ = ((N / 2 : ℕ) : ℤ) := by simpa using this
    rw [h2, Int.cast_natCast]
  simp only [Function.comp, h]

/-- the one-sided `linspace(0, Fs/2, N//2+1)` is wrong for EVERY odd `N ≥ 3` (any `Fs ≠ 0`):
its bin 1 is `Fs/(N-1)`, not `Fs/N` -/
theorem linspace_half_wrong_of_odd (Fs : ℚ) (hFs : Fs ≠ 0) (N : ℕ) (hodd : Odd N) (h3 : 3 ≤ N) :
    linspace 0 (Fs / 2) (N / 2 + 1) true ≠ trueOneSided Fs N := by
  obtain ⟨m, rfl⟩ := hodd
  intro h
  rw [linspace_half_eq] at h
  have h1 := congrArg (fun l => l[1]?) h
  have hm : (2 * m + 1) / 2 = m := by omega
  have hm2 : 2 * m / 2 = m := by omega
  have hlen : 1 < m + 1 := by omega
  simp only [trueOneSided, hm, hm2, List.getElem?_map, List.getElem?_range hlen, Option.map_some,
    Option.some.injEq] at h1
  have hmq : (m : ℚ) ≠ 0 := by
    have : 0 < m := by omega
    exact_mod_cast this.ne'
  have h2 : ((2 * m + 1 : ℕ) : ℚ) ≠ 0 := by positivity
  have h3' : ((2 * m : ℕ) : ℚ) ≠ 0 := by push_cast; positivity
  rw [div_eq_div_iff h3' h2] at h1
  push_cast at h1
  have : Fs * (2 * (m : ℚ) + 1) = Fs * (2 * (m : ℚ)) := by linarith
  have := mul_left_cancel₀ hFs this
  linarith

/-! ### sites whose formula is the true grid (all Fs, all N, both parities) -/

theorem periodogram_onesided_is_true_grid (pi Fs : ℚ) (N : ℕ) :
    eval Grids.periodogram_onesided pi Fs N = trueOneSided Fs N :=
  intended_onesided_is_true_grid pi Fs N

theorem periodogram_twosided_is_true_grid (pi Fs : ℚ) (N : ℕ) :
    eval Grids.periodogram_twosided pi Fs N = trueTwoSided Fs N :=
  intended_twosided_is_true_grid pi Fs N

theorem multi_taper_psd_twosided_is_true_grid (pi Fs : ℚ) (N : ℕ) :
    eval Grids.multi_taper_psd_twosided pi Fs N = trueTwoSided Fs N :=
  intended_twosided_is_true_grid pi Fs N

theorem multi_taper_csd_twosided_is_true_grid (pi Fs : ℚ) (N : ℕ) :
    eval Grids.multi_taper_csd_twosided pi Fs N = trueTwoSided Fs N :=
  intended_twosided_is_true_grid pi Fs N

theorem SpectralAnalyzer_periodogram_onesided_is_true_grid (pi Fs : ℚ) (N : ℕ) :
    eval Grids.SpectralAnalyzer_periodogram_onesided pi Fs N = trueOneSided Fs N :=
  intended_onesided_is_true_grid pi Fs N

theorem SpectralAnalyzer_periodogram_twosided_is_true_grid (pi Fs : ℚ) (N : ℕ) :
    eval Grids.SpectralAnalyzer_periodogram_twosided pi Fs N = trueTwoSided Fs N :=
  intended_twosided_is_true_grid pi Fs N

theorem SpectralAnalyzer_spectrum_multi_taper_twosided_is_true_grid (pi Fs : ℚ) (N : ℕ) :
    eval Grids.SpectralAnalyzer_spectrum_multi_taper_twosided pi Fs N = trueTwoSided Fs N :=
  intended_twosided_is_true_grid pi Fs N

example : eval Grids.periodogram_onesided 3 10 5 = [0, 2, 4] := by decide +kernel
example : eval Grids.periodogram_twosided 3 10 4 = [0, 5/2, 5, 15/2] := by decide +kernel

/-! ### sites repaired by the C05 fixes: full theorems (all Fs, all N, both parities) -/

theorem periodogram_csd_onesided_is_true_grid (pi Fs : ℚ) (N : ℕ) :
    eval Grids.periodogram_csd_onesided pi Fs N = trueOneSided Fs N :=
  intended_onesided_is_true_grid pi Fs N

theorem multi_taper_psd_onesided_is_true_grid (pi Fs : ℚ) (N : ℕ) :
    eval Grids.multi_taper_psd_onesided pi Fs N = trueOneSided Fs N :=
  intended_onesided_is_true_grid pi Fs N

theorem multi_taper_csd_onesided_is_true_grid (pi Fs : ℚ) (N : ℕ) :
    eval Grids.multi_taper_csd_onesided pi Fs N = trueOneSided Fs N :=
  intended_onesided_is_true_grid pi Fs N

theorem SpectralAnalyzer_spectrum_multi_taper_onesided_is_true_grid (pi Fs : ℚ) (N : ℕ) :
    eval Grids.SpectralAnalyzer_spectrum_multi_taper_onesided pi Fs N = trueOneSided Fs N :=
  intended_onesided_is_true_grid pi Fs N

theorem MTCoherenceAnalyzer_frequencies_is_true_grid (pi Fs : ℚ) (N : ℕ) :
    eval Grids.MTCoherenceAnalyzer_frequencies pi Fs N = trueOneSided Fs N :=
  intended_onesided_is_true_grid pi Fs N

theorem SNRAnalyzer_mt_frequencies_is_true_grid (pi Fs : ℚ) (N : ℕ) :
    eval Grids.SNRAnalyzer_mt_frequencies pi Fs N = trueOneSided Fs N :=
  intended_onesided_is_true_grid pi Fs N

theorem get_spectra_multi_taper_csd_onesided_is_true_grid (pi Fs : ℚ) (N : ℕ) :
    eval Grids.get_spectra_multi_taper_csd_onesided pi Fs N = trueOneSided Fs N :=
  intended_onesided_is_true_grid pi Fs N

theorem get_spectra_periodogram_csd_onesided_is_true_grid (pi Fs : ℚ) (N : ℕ) :
    eval Grids.get_spectra_periodogram_csd_onesided pi Fs N = trueOneSided Fs N :=
  intended_onesided_is_true_grid pi Fs N

theorem get_freqs_is_true_grid (pi Fs : ℚ) (N : ℕ) :
    eval Grids.get_freqs pi Fs N = trueOneSided Fs N :=
  intended_onesided_int_is_true_grid pi Fs N

theorem cache_fft_is_true_grid (pi Fs : ℚ) (N : ℕ) :
    eval Grids.cache_fft pi Fs N = trueOneSided Fs N :=
  intended_onesided_int_is_true_grid pi Fs N

theorem correlation_spectrum_is_true_grid (pi Fs : ℚ) (N : ℕ) :
    eval Grids.correlation_spectrum pi Fs N = trueOneSided Fs N :=
  intended_onesided_int_is_true_grid pi Fs N

theorem SparseCoherenceAnalyzer_frequencies_is_true_grid (pi Fs : ℚ) (N : ℕ) :
    eval Grids.SparseCoherenceAnalyzer_frequencies pi Fs N = trueOneSided Fs N :=
  intended_onesided_int_is_true_grid pi Fs N

theorem SeedCoherenceAnalyzer_frequencies_is_true_grid (pi Fs : ℚ) (N : ℕ) :
    eval Grids.SeedCoherenceAnalyzer_frequencies pi Fs N = trueOneSided Fs N :=
  intended_onesided_int_is_true_grid pi Fs N

theorem SpectralAnalyzer_spectrum_fourier_real_is_true_grid (pi Fs : ℚ) (N : ℕ) :
    eval Grids.SpectralAnalyzer_spectrum_fourier_real pi Fs N = trueOneSided Fs N :=
  intended_onesided_int_is_true_grid pi Fs N

theorem FilterAnalyzer_filtered_fourier_is_true_grid (pi Fs : ℚ) (N : ℕ) :
    eval Grids.FilterAnalyzer_filtered_fourier pi Fs N = trueOneSided Fs N :=
  intended_onesided_int_is_true_grid pi Fs N

theorem periodogram_csd_twosided_is_true_grid (pi Fs : ℚ) (N : ℕ) :
    eval Grids.periodogram_csd_twosided pi Fs N = trueTwoSided Fs N :=
  intended_twosided_is_true_grid pi Fs N

theorem get_spectra_multi_taper_csd_twosided_is_true_grid (pi Fs : ℚ) (N : ℕ) :
    eval Grids.get_spectra_multi_taper_csd_twosided pi Fs N = trueTwoSided Fs N :=
  intended_twosided_is_true_grid pi Fs N

theorem get_spectra_periodogram_csd_twosided_is_true_grid (pi Fs : ℚ) (N : ℕ) :
    eval Grids.get_spectra_periodogram_csd_twosided pi Fs N = trueTwoSided Fs N :=
  intended_twosided_is_true_grid pi Fs N

theorem SpectralAnalyzer_spectrum_fourier_complex_is_true_grid (pi Fs : ℚ) (N : ℕ) :
    eval Grids.SpectralAnalyzer_spectrum_fourier_complex pi Fs N = trueShifted Fs N :=
  intended_shifted_is_true_grid pi Fs N

theorem GrangerAnalyzer_frequencies_is_true_grid (pi Fs : ℚ) (N : ℕ) :
    eval Grids.GrangerAnalyzer_frequencies pi Fs N = trueFreqz Fs (N / 2 + 1) :=
  intended_freqz_is_true_grid pi Fs N

example : eval Grids.get_freqs 3 10 5 = [0, 2, 4] := by decide +kernel

example : eval Grids.GrangerAnalyzer_frequencies 3 1 4 = [0, 1/6, 1/3] := by decide +kernel

example : eval Grids.SpectralAnalyzer_spectrum_fourier_complex 3 1 4 = [-1/2, -1/4, 0, 1/4] := by decide +kernel

/-! ### the grid is the grid OF THE TRANSFORM ACTUALLY USED

`GridLens.<estimator>` (generated by symbolic execution of the function body) says which length the grid is built
from and which transform the spectral values are read from, as functions of the optional arguments
(`LenEnv`: number of samples, `N=`/`NFFT=`, length of a supplied `Sk=`).  For every combination of them: -/

/-- `periodogram`: the grid length is the number of points of the transform the values are read from -/
theorem periodogram_grid_length_is_transform_length (e : LenEnv) :
    GridLens.periodogram.gridLen.eval e = GridLens.periodogram.transform.len e := by
  rcases e with ⟨d, f, s⟩
  cases s <;> cases f <;> simp [GridLens.periodogram, LenExpr.eval, TrExpr.len, LCond.eval]

theorem periodogram_csd_grid_length_is_transform_length (e : LenEnv) :
    GridLens.periodogram_csd.gridLen.eval e = GridLens.periodogram_csd.transform.len e := by
  rcases e with ⟨d, f, s⟩
  cases s <;> cases f <;> simp [GridLens.periodogram_csd, LenExpr.eval, TrExpr.len, LCond.eval]

theorem multi_taper_psd_grid_length_is_transform_length (e : LenEnv) :
    GridLens.multi_taper_psd.gridLen.eval e = GridLens.multi_taper_psd.transform.len e := by
  rcases e with ⟨d, f, s⟩
  cases s <;> cases f <;> simp [GridLens.multi_taper_psd, LenExpr.eval, TrExpr.len, LCond.eval]

theorem multi_taper_csd_grid_length_is_transform_length (e : LenEnv) :
    GridLens.multi_taper_csd.gridLen.eval e = GridLens.multi_taper_csd.transform.len e := by
  rcases e with ⟨d, f, s⟩
  cases s <;> cases f <;> simp [GridLens.multi_taper_csd, LenExpr.eval, TrExpr.len, LCond.eval]

/-- a supplied transform is the one the values are read from, and the grid has ITS length — whatever the number of
samples and whatever `N=`/`NFFT=` say (a zero-padded `Sk = fft(s, n=L)`, `L ≠ s.shape[-1]`, included) -/
theorem periodogram_supplied_transform_decides (d : ℕ) (f : Option ℕ) (L : ℕ) :
    GridLens.periodogram.transform.usesSupplied ⟨d, f, some L⟩ = true ∧
    GridLens.periodogram.gridLen.eval ⟨d, f, some L⟩ = L := by
  cases f <;> simp [GridLens.periodogram, LenExpr.eval, TrExpr.usesSupplied, LCond.eval]

theorem periodogram_csd_supplied_transform_decides (d : ℕ) (f : Option ℕ) (L : ℕ) :
    GridLens.periodogram_csd.transform.usesSupplied ⟨d, f, some L⟩ = true ∧
    GridLens.periodogram_csd.gridLen.eval ⟨d, f, some L⟩ = L := by
  cases f <;> simp [GridLens.periodogram_csd, LenExpr.eval, TrExpr.usesSupplied, LCond.eval]

/-- without `Sk=`: an `n`-point transform of the data is taken, `n` = the `NFFT=` argument when given, else the
number of samples (`periodogram`: `N=0` counts as not given) -/
theorem periodogram_csd_length_without_transform (d : ℕ) (f : Option ℕ) :
    GridLens.periodogram_csd.gridLen.eval ⟨d, f, none⟩ = f.getD d := by
  cases f <;> simp [GridLens.periodogram_csd, LenExpr.eval, LCond.eval]

theorem periodogram_length_without_transform (d : ℕ) (f : Option ℕ) :
    GridLens.periodogram.gridLen.eval ⟨d, f, none⟩ = (match f with | some (k + 1) => k + 1 | _ => d) := by
  rcases f with _ | _ | k <;> simp [GridLens.periodogram, LenExpr.eval, LCond.eval]

/-- multitaper: `tapered_spectra` never takes fewer points than there are samples -/
theorem multi_taper_length (d : ℕ) (f s : Option ℕ) :
    GridLens.multi_taper_psd.gridLen.eval ⟨d, f, s⟩ = max d (f.getD 0) ∧
    GridLens.multi_taper_csd.gridLen.eval ⟨d, f, s⟩ = max d (f.getD 0) := by
  rcases f with _ | k
  · simp [GridLens.multi_taper_psd, GridLens.multi_taper_csd, LenExpr.eval, LCond.eval]
  · by_cases h : k < d <;>
      simp [GridLens.multi_taper_psd, GridLens.multi_taper_csd, LenExpr.eval, LCond.eval, h] <;> omega

/-- … hence, per site and side: the reported grid is the true grid of the transform actually used -/
theorem periodogram_onesided_is_true_grid_of_used_transform (pi Fs : ℚ) (e : LenEnv) :
    eval Grids.periodogram_onesided pi Fs (GridLens.periodogram.gridLen.eval e)
      = trueOneSided Fs (GridLens.periodogram.transform.len e) := by
  rw [periodogram_onesided_is_true_grid, periodogram_grid_length_is_transform_length]

theorem periodogram_twosided_is_true_grid_of_used_transform (pi Fs : ℚ) (e : LenEnv) :
    eval Grids.periodogram_twosided pi Fs (GridLens.periodogram.gridLen.eval e)
      = trueTwoSided Fs (GridLens.periodogram.transform.len e) := by
  rw [periodogram_twosided_is_true_grid, periodogram_grid_length_is_transform_length]

theorem periodogram_csd_onesided_is_true_grid_of_used_transform (pi Fs : ℚ) (e : LenEnv) :
    eval Grids.periodogram_csd_onesided pi Fs (GridLens.periodogram_csd.gridLen.eval e)
      = trueOneSided Fs (GridLens.periodogram_csd.transform.len e) := by
  rw [periodogram_csd_onesided_is_true_grid, periodogram_csd_grid_length_is_transform_length]

theorem periodogram_csd_twosided_is_true_grid_of_used_transform (pi Fs : ℚ) (e : LenEnv) :
    eval Grids.periodogram_csd_twosided pi Fs (GridLens.periodogram_csd.gridLen.eval e)
      = trueTwoSided Fs (GridLens.periodogram_csd.transform.len e) := by
  rw [periodogram_csd_twosided_is_true_grid, periodogram_csd_grid_length_is_transform_length]

theorem multi_taper_psd_onesided_is_true_grid_of_used_transform (pi Fs : ℚ) (e : LenEnv) :
    eval Grids.multi_taper_psd_onesided pi Fs (GridLens.multi_taper_psd.gridLen.eval e)
      = trueOneSided Fs (GridLens.multi_taper_psd.transform.len e) := by
  rw [multi_taper_psd_onesided_is_true_grid, multi_taper_psd_grid_length_is_transform_length]

theorem multi_taper_psd_twosided_is_true_grid_of_used_transform (pi Fs : ℚ) (e : LenEnv) :
    eval Grids.multi_taper_psd_twosided pi Fs (GridLens.multi_taper_psd.gridLen.eval e)
      = trueTwoSided Fs (GridLens.multi_taper_psd.transform.len e) := by
  rw [multi_taper_psd_twosided_is_true_grid, multi_taper_psd_grid_length_is_transform_length]

theorem multi_taper_csd_onesided_is_true_grid_of_used_transform (pi Fs : ℚ) (e : LenEnv) :
    eval Grids.multi_taper_csd_onesided pi Fs (GridLens.multi_taper_csd.gridLen.eval e)
      = trueOneSided Fs (GridLens.multi_taper_csd.transform.len e) := by
  rw [multi_taper_csd_onesided_is_true_grid, multi_taper_csd_grid_length_is_transform_length]

theorem multi_taper_csd_twosided_is_true_grid_of_used_transform (pi Fs : ℚ) (e : LenEnv) :
    eval Grids.multi_taper_csd_twosided pi Fs (GridLens.multi_taper_csd.gridLen.eval e)
      = trueTwoSided Fs (GridLens.multi_taper_csd.transform.len e) := by
  rw [multi_taper_csd_twosided_is_true_grid, multi_taper_csd_grid_length_is_transform_length]

/-- `get_spectra` hands the entries of the method dict (`Sk`, `NFFT`) on to the estimator (`func(time_series, **mdict)`),
so its grid is the estimator's, for every combination of them -/
theorem get_spectra_periodogram_csd_onesided_is_true_grid_of_used_transform (pi Fs : ℚ) (e : LenEnv) :
    eval Grids.get_spectra_periodogram_csd_onesided pi Fs (GridLens.periodogram_csd.gridLen.eval e)
      = trueOneSided Fs (GridLens.periodogram_csd.transform.len e) := by
  rw [get_spectra_periodogram_csd_onesided_is_true_grid, periodogram_csd_grid_length_is_transform_length]

theorem get_spectra_periodogram_csd_twosided_is_true_grid_of_used_transform (pi Fs : ℚ) (e : LenEnv) :
    eval Grids.get_spectra_periodogram_csd_twosided pi Fs (GridLens.periodogram_csd.gridLen.eval e)
      = trueTwoSided Fs (GridLens.periodogram_csd.transform.len e) := by
  rw [get_spectra_periodogram_csd_twosided_is_true_grid, periodogram_csd_grid_length_is_transform_length]

theorem get_spectra_multi_taper_csd_onesided_is_true_grid_of_used_transform (pi Fs : ℚ) (e : LenEnv) :
    eval Grids.get_spectra_multi_taper_csd_onesided pi Fs (GridLens.multi_taper_csd.gridLen.eval e)
      = trueOneSided Fs (GridLens.multi_taper_csd.transform.len e) := by
  rw [get_spectra_multi_taper_csd_onesided_is_true_grid, multi_taper_csd_grid_length_is_transform_length]

theorem get_spectra_multi_taper_csd_twosided_is_true_grid_of_used_transform (pi Fs : ℚ) (e : LenEnv) :
    eval Grids.get_spectra_multi_taper_csd_twosided pi Fs (GridLens.multi_taper_csd.gridLen.eval e)
      = trueTwoSided Fs (GridLens.multi_taper_csd.transform.len e) := by
  rw [get_spectra_multi_taper_csd_twosided_is_true_grid, multi_taper_csd_grid_length_is_transform_length]

/-- the analyzers that delegate (`tsa.periodogram(data, Fs=…)`, `tsa.multi_taper_psd(data, Fs=…, …)`: no `N=`, `NFFT=`, `Sk=`
— the translator refuses the site otherwise) get the transform of the data itself, `n` points, and its grid -/
theorem SpectralAnalyzer_periodogram_is_true_grid_of_used_transform (pi Fs : ℚ) (n : ℕ) :
    GridLens.periodogram.transform.len ⟨n, none, none⟩ = n ∧
    eval Grids.SpectralAnalyzer_periodogram_onesided pi Fs (GridLens.periodogram.gridLen.eval ⟨n, none, none⟩) = trueOneSided Fs n ∧
    eval Grids.SpectralAnalyzer_periodogram_twosided pi Fs (GridLens.periodogram.gridLen.eval ⟨n, none, none⟩) = trueTwoSided Fs n := by
  have h : GridLens.periodogram.gridLen.eval ⟨n, none, none⟩ = n := by
    simp [GridLens.periodogram, LenExpr.eval, LCond.eval]
  refine ⟨?_, ?_, ?_⟩
  · rw [← periodogram_grid_length_is_transform_length, h]
  · rw [h]; exact SpectralAnalyzer_periodogram_onesided_is_true_grid pi Fs n
  · rw [h]; exact SpectralAnalyzer_periodogram_twosided_is_true_grid pi Fs n

theorem SpectralAnalyzer_spectrum_multi_taper_is_true_grid_of_used_transform (pi Fs : ℚ) (n : ℕ) :
    GridLens.multi_taper_psd.transform.len ⟨n, none, none⟩ = n ∧
    eval Grids.SpectralAnalyzer_spectrum_multi_taper_onesided pi Fs (GridLens.multi_taper_psd.gridLen.eval ⟨n, none, none⟩) = trueOneSided Fs n ∧
    eval Grids.SpectralAnalyzer_spectrum_multi_taper_twosided pi Fs (GridLens.multi_taper_psd.gridLen.eval ⟨n, none, none⟩) = trueTwoSided Fs n := by
  have h : GridLens.multi_taper_psd.gridLen.eval ⟨n, none, none⟩ = n := by
    simp [GridLens.multi_taper_psd, LenExpr.eval, LCond.eval]
  refine ⟨?_, ?_, ?_⟩
  · rw [← multi_taper_psd_grid_length_is_transform_length, h]
  · rw [h]; exact SpectralAnalyzer_spectrum_multi_taper_onesided_is_true_grid pi Fs n
  · rw [h]; exact SpectralAnalyzer_spectrum_multi_taper_twosided_is_true_grid pi Fs n

-- non-vacuity: 100 samples, a supplied 256-point transform, no NFFT: 129 one-sided bins, bin 40 at 156.25 Hz
example : (eval Grids.periodogram_csd_onesided 3 1000 (GridLens.periodogram_csd.gridLen.eval ⟨100, none, some 256⟩)).length = 129
    ∧ (eval Grids.periodogram_csd_onesided 3 1000 (GridLens.periodogram_csd.gridLen.eval ⟨100, none, some 256⟩))[40]? = some (625 / 4) := by
  decide +kernel

/-- contrast (the change class of seeded change C05-9): an estimator that takes the grid length from the data (or from
`NFFT=`) while reading the values from the supplied transform labels bin 40 of a 256-point transform of 100 samples at
1 kHz — 156.25 Hz — as 400 Hz -/
theorem grid_from_data_length_mislabels_supplied_transform :
    let bad : LenSite := ⟨.ite .nfftGiven .nfft .data, GridLens.periodogram_csd.transform⟩
    bad.gridLen.eval ⟨100, none, some 256⟩ = 100 ∧ bad.transform.len ⟨100, none, some 256⟩ = 256 ∧
      (trueOneSided 1000 256)[40]? = some (625 / 4) ∧ (trueOneSided 1000 100)[40]? = some 400 := by
  decide +kernel

/-! ### the frequency vector has ONE ENTRY PER SPECTRAL VALUE it accompanies (length and spacing of the transform really used)

Per generated site: the number of frequencies is the number of bins of the transform the values are read from, for every
combination of samples / `N=` / `NFFT=` / `Sk=` — in particular a multitaper estimator asked for FEWER points than samples
(`tapered_spectra` raises NFFT to N) reports `max(N, NFFT)/2 + 1` frequencies spaced `Fs / max(N, NFFT)`. -/

theorem trueOneSided_length (Fs : ℚ) (N : ℕ) : (trueOneSided Fs N).length = nBins true N := by
  simp [trueOneSided, nBins]

theorem trueTwoSided_length (Fs : ℚ) (N : ℕ) : (trueTwoSided Fs N).length = nBins false N := by
  simp [trueTwoSided, nBins]

theorem periodogram_onesided_frequencies_length_eq_spectrum_length (pi Fs : ℚ) (e : LenEnv) :
    (eval Grids.periodogram_onesided pi Fs (GridLens.periodogram.gridLen.eval e)).length
      = nBins true (GridLens.periodogram.transform.len e) := by
  rw [periodogram_onesided_is_true_grid_of_used_transform, trueOneSided_length]

theorem periodogram_twosided_frequencies_length_eq_spectrum_length (pi Fs : ℚ) (e : LenEnv) :
    (eval Grids.periodogram_twosided pi Fs (GridLens.periodogram.gridLen.eval e)).length
      = nBins false (GridLens.periodogram.transform.len e) := by
  rw [periodogram_twosided_is_true_grid_of_used_transform, trueTwoSided_length]

theorem periodogram_csd_onesided_frequencies_length_eq_spectrum_length (pi Fs : ℚ) (e : LenEnv) :
    (eval Grids.periodogram_csd_onesided pi Fs (GridLens.periodogram_csd.gridLen.eval e)).length
      = nBins true (GridLens.periodogram_csd.transform.len e) := by
  rw [periodogram_csd_onesided_is_true_grid_of_used_transform, trueOneSided_length]

theorem periodogram_csd_twosided_frequencies_length_eq_spectrum_length (pi Fs : ℚ) (e : LenEnv) :
    (eval Grids.periodogram_csd_twosided pi Fs (GridLens.periodogram_csd.gridLen.eval e)).length
      = nBins false (GridLens.periodogram_csd.transform.len e) := by
  rw [periodogram_csd_twosided_is_true_grid_of_used_transform, trueTwoSided_length]

theorem multi_taper_psd_onesided_frequencies_length_eq_spectrum_length (pi Fs : ℚ) (e : LenEnv) :
    (eval Grids.multi_taper_psd_onesided pi Fs (GridLens.multi_taper_psd.gridLen.eval e)).length
      = nBins true (GridLens.multi_taper_psd.transform.len e) := by
  rw [multi_taper_psd_onesided_is_true_grid_of_used_transform, trueOneSided_length]

theorem multi_taper_psd_twosided_frequencies_length_eq_spectrum_length (pi Fs : ℚ) (e : LenEnv) :
    (eval Grids.multi_taper_psd_twosided pi Fs (GridLens.multi_taper_psd.gridLen.eval e)).length
      = nBins false (GridLens.multi_taper_psd.transform.len e) := by
  rw [multi_taper_psd_twosided_is_true_grid_of_used_transform, trueTwoSided_length]

theorem multi_taper_csd_onesided_frequencies_length_eq_spectrum_length (pi Fs : ℚ) (e : LenEnv) :
    (eval Grids.multi_taper_csd_onesided pi Fs (GridLens.multi_taper_csd.gridLen.eval e)).length
      = nBins true (GridLens.multi_taper_csd.transform.len e) := by
  rw [multi_taper_csd_onesided_is_true_grid_of_used_transform, trueOneSided_length]

theorem multi_taper_csd_twosided_frequencies_length_eq_spectrum_length (pi Fs : ℚ) (e : LenEnv) :
    (eval Grids.multi_taper_csd_twosided pi Fs (GridLens.multi_taper_csd.gridLen.eval e)).length
      = nBins false (GridLens.multi_taper_csd.transform.len e) := by
  rw [multi_taper_csd_twosided_is_true_grid_of_used_transform, trueTwoSided_length]

theorem get_spectra_periodogram_csd_onesided_frequencies_length_eq_spectrum_length (pi Fs : ℚ) (e : LenEnv) :
    (eval Grids.get_spectra_periodogram_csd_onesided pi Fs (GridLens.periodogram_csd.gridLen.eval e)).length
      = nBins true (GridLens.periodogram_csd.transform.len e) := by
  rw [get_spectra_periodogram_csd_onesided_is_true_grid_of_used_transform, trueOneSided_length]

theorem get_spectra_periodogram_csd_twosided_frequencies_length_eq_spectrum_length (pi Fs : ℚ) (e : LenEnv) :
    (eval Grids.get_spectra_periodogram_csd_twosided pi Fs (GridLens.periodogram_csd.gridLen.eval e)).length
      = nBins false (GridLens.periodogram_csd.transform.len e) := by
  rw [get_spectra_periodogram_csd_twosided_is_true_grid_of_used_transform, trueTwoSided_length]

theorem get_spectra_multi_taper_csd_onesided_frequencies_length_eq_spectrum_length (pi Fs : ℚ) (e : LenEnv) :
    (eval Grids.get_spectra_multi_taper_csd_onesided pi Fs (GridLens.multi_taper_csd.gridLen.eval e)).length
      = nBins true (GridLens.multi_taper_csd.transform.len e) := by
  rw [get_spectra_multi_taper_csd_onesided_is_true_grid_of_used_transform, trueOneSided_length]

theorem get_spectra_multi_taper_csd_twosided_frequencies_length_eq_spectrum_length (pi Fs : ℚ) (e : LenEnv) :
    (eval Grids.get_spectra_multi_taper_csd_twosided pi Fs (GridLens.multi_taper_csd.gridLen.eval e)).length
      = nBins false (GridLens.multi_taper_csd.transform.len e) := by
  rw [get_spectra_multi_taper_csd_twosided_is_true_grid_of_used_transform, trueTwoSided_length]

/-- multitaper through `get_spectra` with an `NFFT` entry `f`, `d` samples: `max(d, f)/2 + 1` frequencies, entry `k` at
`k·Fs / max(d, f)` — never the `f/2 + 1` entries spaced `Fs/f` of an `f`-point grid when `f < d` -/
theorem multi_taper_frequencies_of_requested_nfft (pi Fs : ℚ) (d f : ℕ) :
    eval Grids.get_spectra_multi_taper_csd_onesided pi Fs (GridLens.multi_taper_csd.gridLen.eval ⟨d, some f, none⟩)
      = trueOneSided Fs (max d f) ∧
    GridLens.multi_taper_csd.transform.len ⟨d, some f, none⟩ = max d f := by
  have h := (multi_taper_length d (some f) none).2
  simp only [Option.getD_some] at h
  refine ⟨?_, ?_⟩
  · rw [get_spectra_multi_taper_csd_onesided_is_true_grid, h]
  · rw [← multi_taper_csd_grid_length_is_transform_length, h]

/-- the generated fact about today's `CoherenceAnalyzer`: `.frequencies` and `.spectrum` are components 0 and 1 of one and
the same call `tsa.get_spectra(self.input.data, method=self.method)` (an edit that computes the vector any other way —
a shortcut from `method['NFFT']` — re-opens this) -/
theorem CoherenceAnalyzer_frequencies_and_spectrum_from_one_call : FreqSrc.CoherenceAnalyzer.oneCall = true := by decide

/-- getters that are the two components of one delegating call report equally many frequencies and bins, whatever the
estimator's `LenSite` and the options, provided the estimator itself builds its grid from its transform's length -/
theorem oneCall_lengths_agree (p : FreqPair) (hp : p.oneCall = true) (ls : LenSite) (alt : LenExpr) (one : Bool) (e : LenEnv)
    (hls : ls.gridLen.eval e = ls.transform.len e) :
    (p.lengths ls alt one e).1 = (p.lengths ls alt one e).2 := by
  rcases p with ⟨fr, sp, dl⟩
  cases fr with
  | other => simp [FreqPair.oneCall] at hp
  | component c i =>
    cases i with
    | zero => simp [FreqPair.lengths, hls]
    | succ i => cases sp <;> simp [FreqPair.oneCall] at hp

/-- `CoherenceAnalyzer`, every estimator it can be given, every `NFFT` entry (smaller than, equal to, larger than the series):
`.frequencies` has one entry per bin of `.spectrum` -/
theorem CoherenceAnalyzer_frequencies_length_eq_spectrum_length (alt : LenExpr) (one : Bool) (d : ℕ) (f : Option ℕ) :
    (FreqSrc.CoherenceAnalyzer.lengths GridLens.multi_taper_csd alt one ⟨d, f, none⟩).1
      = (FreqSrc.CoherenceAnalyzer.lengths GridLens.multi_taper_csd alt one ⟨d, f, none⟩).2 ∧
    (FreqSrc.CoherenceAnalyzer.lengths GridLens.periodogram_csd alt one ⟨d, f, none⟩).1
      = (FreqSrc.CoherenceAnalyzer.lengths GridLens.periodogram_csd alt one ⟨d, f, none⟩).2 :=
  ⟨oneCall_lengths_agree _ CoherenceAnalyzer_frequencies_and_spectrum_from_one_call _ _ _ _ (multi_taper_csd_grid_length_is_transform_length _),
   oneCall_lengths_agree _ CoherenceAnalyzer_frequencies_and_spectrum_from_one_call _ _ _ _ (periodogram_csd_grid_length_is_transform_length _)⟩

-- non-vacuity: 40 samples, multitaper asked for 32 points: 21 frequencies for 21 bins, spaced 1000/40 = 25 Hz
example : (FreqSrc.CoherenceAnalyzer.lengths GridLens.multi_taper_csd (.ite .nfftTruthy .nfft .data) true ⟨40, some 32, none⟩) = (21, 21)
    ∧ (eval Grids.get_spectra_multi_taper_csd_onesided 3 1000 (GridLens.multi_taper_csd.gridLen.eval ⟨40, some 32, none⟩))[1]? = some 25 := by
  decide +kernel

/-- contrast (the change class of seeded change C05-14): a frequency getter that builds its vector from `method['NFFT'] or n`
instead of asking the estimator: 40 samples, multitaper with NFFT = 32 — 17 frequencies spaced 31.25 Hz for 21 bins spaced 25 Hz;
with NFFT absent, equal or larger the shortcut agrees -/
theorem frequencies_from_method_nfft_mislabel_multitaper :
    let bad : FreqPair := ⟨.other, .component 0 1, true⟩
    let alt : LenExpr := .ite .nfftTruthy .nfft .data
    bad.lengths GridLens.multi_taper_csd alt true ⟨40, some 32, none⟩ = (17, 21) ∧
    (trueOneSided 1000 32)[1]? = some (125 / 4) ∧ (trueOneSided 1000 40)[1]? = some 25 ∧
    bad.lengths GridLens.multi_taper_csd alt true ⟨40, none, none⟩ = (21, 21) ∧
    bad.lengths GridLens.multi_taper_csd alt true ⟨40, some 64, none⟩ = (33, 33) ∧
    bad.lengths GridLens.periodogram_csd alt true ⟨40, some 32, none⟩ = (17, 17) := by
  decide +kernel

/-! ### band selection -/

theorem trueOneSided_getElem (Fs : ℚ) (N k : ℕ) (hk : k < (trueOneSided Fs N).length) :
    (trueOneSided Fs N)[k] = (k : ℚ) * Fs / (N : ℚ) := by
  simp [trueOneSided]

theorem trueTwoSided_getElem (Fs : ℚ) (N k : ℕ) (hk : k < (trueTwoSided Fs N).length) :
    (trueTwoSided Fs N)[k] = (k : ℚ) * Fs / (N : ℚ) := by
  simp [trueTwoSided]

/-- on the true grid, `get_bounds` keeps exactly the bins whose frequency lies in `[lb, ub]` -/
theorem bounds_select_band (Fs : ℚ) (hFs : 0 ≤ Fs) (N : ℕ) (lb ub : ℚ) (k : ℕ)
    (hk : k < (trueOneSided Fs N).length) :
    ((getBounds (trueOneSided Fs N) lb (some ub)).1 ≤ k ∧ k < (getBounds (trueOneSided Fs N) lb (some ub)).2)
      ↔ (lb ≤ (k : ℚ) * Fs / (N : ℚ) ∧ (k : ℚ) * Fs / (N : ℚ) ≤ ub) := by
  have hs := trueOneSided_sorted Fs hFs N
  rw [← trueOneSided_getElem Fs N k hk]
  simp only [getBounds]
  rw [searchLeft_le_iff _ hs lb k hk, lt_searchRight_iff _ hs ub k hk]

/-- without an upper bound everything from `lb` up to the Nyquist bin is kept -/
theorem bounds_select_band_no_ub (Fs : ℚ) (hFs : 0 ≤ Fs) (N : ℕ) (lb : ℚ) (k : ℕ)
    (hk : k < (trueOneSided Fs N).length) :
    ((getBounds (trueOneSided Fs N) lb none).1 ≤ k ∧ k < (getBounds (trueOneSided Fs N) lb none).2)
      ↔ lb ≤ (k : ℚ) * Fs / (N : ℚ) := by
  have hs := trueOneSided_sorted Fs hFs N
  rw [← trueOneSided_getElem Fs N k hk]
  simp only [getBounds]
  rw [searchLeft_le_iff _ hs lb k hk]
  exact and_iff_left hk

example : getBounds (trueOneSided 10 5) 2 (some 4) = (1, 3) ∧ sliceBand (trueOneSided 10 5) 2 (some 4) = [2, 4] := by
  decide +kernel

/-- **band selection = filter** on the true one-sided grid (`Fs ≥ 0`): the frequencies
`get_bounds` + slice keep are exactly the `k·Fs/N` with `lb ≤ k·Fs/N ≤ ub`, in order — and nothing
when `lb > ub` -/
theorem band_is_filter_of_true_grid (Fs : ℚ) (hFs : 0 ≤ Fs) (N : ℕ) (lb ub : ℚ) :
    sliceBand (trueOneSided Fs N) lb (some ub)
      = ((List.range (N / 2 + 1)).filter
          (fun (k : ℕ) => lb ≤ (k : ℚ) * Fs / (N : ℚ) ∧ (k : ℚ) * Fs / (N : ℚ) ≤ ub)).map
          (fun (k : ℕ) => (k : ℚ) * Fs / (N : ℚ)) := by
  rw [sliceBand_eq_filter _ (trueOneSided_sorted Fs hFs N)]
  unfold trueOneSided
  rw [List.filter_map]
  rfl

/-- the same without an upper bound -/
theorem band_is_filter_of_true_grid_no_ub (Fs : ℚ) (hFs : 0 ≤ Fs) (N : ℕ) (lb : ℚ) :
    sliceBand (trueOneSided Fs N) lb none
      = ((List.range (N / 2 + 1)).filter (fun (k : ℕ) => lb ≤ (k : ℚ) * Fs / (N : ℚ))).map
          (fun (k : ℕ) => (k : ℚ) * Fs / (N : ℚ)) := by
  rw [sliceBand_none_eq_filter _ (trueOneSided_sorted Fs hFs N)]
  unfold trueOneSided
  rw [List.filter_map]
  rfl

/-- an inverted band (`lb > ub`) selects nothing, on any sorted grid -/
theorem band_empty_of_inverted (f : List ℚ) (hs : f.Pairwise (· ≤ ·)) (lb ub : ℚ) (h : ub < lb) :
    sliceBand f lb (some ub) = [] := by
  rw [sliceBand_eq_filter f hs, List.filter_eq_nil_iff]
  intro x _
  simp only [decide_eq_true_eq, not_and, not_le]
  intro h1
  exact h.trans_le h1

example : sliceBand (trueOneSided 10 5) 3 (some 1) = [] ∧ sliceBand (trueOneSided 10 5) 2 (some 2) = [2] ∧
    sliceBand (trueOneSided 10 5) 7 none = [] := by decide +kernel

/-- `cache_fft(…, lb, ub)` caches the band `[lb_idx, ub_idx)` but returns ALL frequencies next to it;
after the repair (`return freqs[lb_idx:ub_idx], cache`) this becomes
`theorem cache_fft_returns_band : Grids.cache_fft_sliced = some true := rfl` -/
theorem cache_fft_returns_band : Grids.cache_fft_sliced = some true := rfl

/-! ### a sinusoid on bin k0 peaks at bin k0 (and only there) -/

open Finset in
/-- DFT of the on-bin complex exponential `x[j] = ζ^(k0·j)` (ζ a primitive N-th root of unity,
e.g. `exp(2πi/N)`): `N` at `k = k0`, `0` elsewhere; the reported frequency of that bin on the true
grid is `k0·Fs/N` (`trueTwoSided_getElem`) -/
theorem sinusoid_peak_bin {N : ℕ} (hN : 0 < N) {ζ : ℂ} (hζ : IsPrimitiveRoot ζ N)
    {k0 k : ℕ} (hk0 : k0 < N) (hk : k < N) :
    ∑ j ∈ range N, ζ ^ (k0 * j) * (ζ⁻¹) ^ (k * j) = if k0 = k then (N : ℂ) else 0 :=
  root_orth hN hζ hk0 hk

example : IsPrimitiveRoot (-1 : ℂ) 2 := by
  simpa using (IsPrimitiveRoot.neg_one 0 (by norm_num) : IsPrimitiveRoot (-1 : ℂ) 2)

/-! ### read histories of one analyzer: a frequency vector, once handed out, stays the grid -/

/-- along ANY history of reads (of the frequencies, of other results — whether or not their getters read
the frequencies), `reset()`s and re-targetings, every frequency vector the caller was handed still
holds, at the end, the grid that the site's formula gave when it was handed out -/
theorem handed_out_frequency_vectors_stay_true (g : List ℚ) (evs : List Hist.Ev) :
    ∀ p ∈ (Hist.run (Hist.init g) evs).handed, (Hist.run (Hist.init g) evs).heap[p.1]? = some p.2 :=
  (Hist.inv_run evs _ (Hist.inv_init g)).1

/-- without re-targeting: whatever was read in between, in whatever order, before and after, every
handed-out vector (early references and late reads alike) shows the site's grid `g` at the end -/
theorem read_history_views_are_grid (g : List ℚ) (evs : List Hist.Ev) (hn : Hist.NoRetarget evs) :
    ∀ v ∈ Hist.finalViews (Hist.run (Hist.init g) evs), v = g := by
  intro v hv
  simp only [Hist.finalViews, List.mem_map] at hv
  obtain ⟨p, hp, rfl⟩ := hv
  have h1 := handed_out_frequency_vectors_stay_true g evs p hp
  have h2 := Hist.handed_labels evs (Hist.init g) g rfl (by intro q hq; simp [Hist.init] at hq) hn p hp
  rw [List.getD_eq_getElem?_getD, h1, h2]; rfl

/-- one view per read of the frequencies -/
theorem read_history_views_count (g : List ℚ) (evs : List Hist.Ev) :
    (Hist.finalViews (Hist.run (Hist.init g) evs)).length
      = (evs.filter fun e => match e with | .readFreq => true | _ => false).length := by
  have key : ∀ (evs : List Hist.Ev) (s : Hist.St), (Hist.run s evs).handed.length
      = s.handed.length + (evs.filter fun e => match e with | .readFreq => true | _ => false).length := by
    intro evs
    induction evs with
    | nil => intro s; simp [Hist.run]
    | cons e es ih =>
      intro s
      have hstep : (Hist.step s e).handed.length
          = s.handed.length + (match e with | .readFreq => 1 | _ => 0) := by
        cases e with
        | readFreq => simp only [Hist.step, Hist.fire]; cases s.cache <;> simp
        | readOther uses val => cases uses <;> simp only [Hist.step, Hist.fire] <;> cases s.cache <;> simp
        | reset => simp [Hist.step]
        | retarget g' => simp [Hist.step]
      have := ih (Hist.step s e)
      simp only [Hist.run, List.foldl_cons] at this ⊢
      rw [this, hstep]
      cases e <;> simp
      all_goals omega
  simpa [Hist.finalViews, Hist.init] using key evs (Hist.init g)

/-- e.g. a Sparse/SeedCoherenceAnalyzer: its band of the generated `get_freqs` term, after any read history
(`delay`, `coherence`, … before and after), is still the band of the true grid in every vector handed out -/
theorem SparseCoherenceAnalyzer_history_views_are_true_band (pi Fs : ℚ) (N : ℕ) (lb : ℚ) (ub : Option ℚ)
    (evs : List Hist.Ev) (hn : Hist.NoRetarget evs) :
    ∀ v ∈ Hist.finalViews (Hist.run
        (Hist.init (sliceBand (eval Grids.SparseCoherenceAnalyzer_frequencies pi Fs N) lb ub)) evs),
      v = sliceBand (trueOneSided Fs N) lb ub := by
  intro v hv
  rw [read_history_views_are_grid _ evs hn v hv, SparseCoherenceAnalyzer_frequencies_is_true_grid]

theorem SeedCoherenceAnalyzer_history_views_are_true_band (pi Fs : ℚ) (N : ℕ) (lb : ℚ) (ub : Option ℚ)
    (evs : List Hist.Ev) (hn : Hist.NoRetarget evs) :
    ∀ v ∈ Hist.finalViews (Hist.run
        (Hist.init (sliceBand (eval Grids.SeedCoherenceAnalyzer_frequencies pi Fs N) lb ub)) evs),
      v = sliceBand (trueOneSided Fs N) lb ub := by
  intro v hv
  rw [read_history_views_are_grid _ evs hn v hv, SeedCoherenceAnalyzer_frequencies_is_true_grid]

-- non-vacuity: three hand-outs around a `delay`-like read and a reset, all `[0, 2, 4]`
example : Hist.finalViews (Hist.run (Hist.init (trueOneSided 10 5))
    [.readFreq, .readOther true [7], .readFreq, .reset, .readFreq]) = [[0, 2, 4], [0, 2, 4], [0, 2, 4]] := by
  decide +kernel

/-- contrast (the change class "a getter writes through the cached array", seeded change C05-6): one
write through the cached reference and the vector handed out BEFORE it no longer shows the grid -/
theorem alias_write_breaks_handed_out_vector :
    Hist.finalViews (Hist.stepAliasWrite (Hist.step (Hist.init (trueOneSided 10 5)) .readFreq) (-1))
      = [[-1, 2, 4]] := by decide +kernel

/-! ### several live analyzers and their method dicts -/

/-- as extracted from the four constructors: `method=None` builds a new dict there, and the treatment of a caller's
dict was recognised (fails for, e.g., a module-level default dict shared by all analyzers) -/
theorem constructors_build_their_default_dict :
    Methods.recognised = true ∧ ∀ c : Two.Cls, Methods.freshDefault c = true := by
  refine ⟨by decide, fun c => by cases c <;> decide⟩

/-- the three coherence analyzers stamp their own input's rate into the dict they hold, in `__init__` -/
theorem coherence_constructors_fill_fs : ∀ c : Two.Cls, c ≠ .spectral → (Methods.spec c).ctorFillsFs = true := by
  intro c hc; cases c <;> first | decide | exact absurd rfl hc

/-- as long as no dict object is held by two analyzers (a caller's dict that a constructor stores as the object
itself is given to that one constructor only) and a caller's dict pins no other rate, every read of analyzer k —
`.frequencies`, `.psd[0]`, `.cpsd[0]`, in any interleaving with constructions and reads of the others — returns what
k's class computes at the rate of k's OWN input; for every treatment `spec` of the `method` argument -/
theorem own_dict_analyzers_report_own_grid (spec : Two.Cls → Two.MSpec)
    (hfill : ∀ c, c ≠ Two.Cls.spectral → (spec c).ctorFillsFs = true)
    (G : Two.Cls → ℚ → List ℚ) (twoPi : ℚ) (evs : List Two.Ev)
    (h : Two.histOk spec G twoPi Two.init evs) :
    ∀ p ∈ (Two.run spec G twoPi Two.init evs).out,
      ∃ a, (Two.run spec G twoPi Two.init evs).ans[p.1]? = some a ∧ p.2 = G a.cls a.rate :=
  (Two.good_run spec G twoPi hfill evs _ (Two.good_init G) h).out

/-- in particular when every analyzer is built with `method=None` (each constructor allocates its own dict) -/
theorem method_none_analyzers_report_own_grid (spec : Two.Cls → Two.MSpec)
    (hfill : ∀ c, c ≠ Two.Cls.spectral → (spec c).ctorFillsFs = true)
    (G : Two.Cls → ℚ → List ℚ) (twoPi : ℚ) (evs : List Two.Ev) (h : Two.AllNone evs) :
    ∀ p ∈ (Two.run spec G twoPi Two.init evs).out,
      ∃ a, (Two.run spec G twoPi Two.init evs).ans[p.1]? = some a ∧ p.2 = G a.cls a.rate :=
  own_dict_analyzers_report_own_grid spec hfill G twoPi evs (Two.histOk_of_allNone spec G twoPi evs _ h)

/-- … for the constructors as they are in the source today -/
theorem method_none_analyzers_report_own_grid_today (G : Two.Cls → ℚ → List ℚ) (twoPi : ℚ) (evs : List Two.Ev)
    (h : Two.AllNone evs) :
    ∀ p ∈ (Two.run Methods.spec G twoPi Two.init evs).out,
      ∃ a, (Two.run Methods.spec G twoPi Two.init evs).ans[p.1]? = some a ∧ p.2 = G a.cls a.rate :=
  method_none_analyzers_report_own_grid Methods.spec coherence_constructors_fill_fs G twoPi evs h

/-- with the Welch grid: two `method=None` analyzers of any classes on inputs of rates `r0`, `r1` -/
example (c0 c1 : Two.Cls) (r0 r1 : ℚ) (N : ℕ) :
    ((Two.run Methods.spec (fun _ fs => trueOneSided fs N) 6 Two.init
      [.new c0 r0 none, .new c1 r1 none, .freq 1, .freq 0]).out) = [(1, trueOneSided r1 N), (0, trueOneSided r0 N)] := by
  cases c0 <;> cases c1 <;> simp [Two.run, Two.step, Two.init, Two.fillFs, Two.getFs, List.lookup, Methods.spec]

/-- TODAY'S CODE: CoherenceAnalyzer stores the caller's dict itself and writes its input's rate into it -/
theorem CoherenceAnalyzer_keeps_and_stamps_callers_dict :
    (Methods.spec .coherence).keeps = true ∧ (Methods.spec .coherence).ctorFillsFs = true := by decide

/-- … so with one caller's dict given to two CoherenceAnalyzers (the second constructor finds `'Fs'` there and keeps
it) the second analyzer reports the grid of the FIRST input's rate, whatever the grid function -/
theorem shared_user_dict_counterexample (spec : Two.Cls → Two.MSpec)
    (hk : (spec .coherence).keeps = true ∧ (spec .coherence).ctorFillsFs = true)
    (G : Two.Cls → ℚ → List ℚ) (twoPi : ℚ) :
    (Two.run spec G twoPi Two.init
      [.userDict none, .new .coherence 100 (some 0), .new .coherence 250 (some 0), .freq 1]).out
      = [(1, G .coherence 100)] := by
  simp [Two.run, Two.step, Two.init, Two.fillFs, Two.getFs, hk.1, hk.2]

/-- … and that is not the second input's grid: `b.frequencies[-1] = 50` instead of `125` Hz at `NFFT = 64` -/
theorem shared_user_dict_counterexample_grid :
    (trueOneSided 100 64).getLast? = some 50 ∧ (trueOneSided 250 64).getLast? = some 125 := by
  decide +kernel

/-- mixed classes: the caller's dict, once stamped by a CoherenceAnalyzer's constructor, carries that rate into a
SparseCoherenceAnalyzer built with it afterwards — whether that one keeps the object or copies it -/
theorem shared_user_dict_counterexample_mixed (spec : Two.Cls → Two.MSpec)
    (hk : (spec .coherence).keeps = true ∧ (spec .coherence).ctorFillsFs = true)
    (G : Two.Cls → ℚ → List ℚ) (twoPi : ℚ) :
    (Two.run spec G twoPi Two.init
      [.userDict none, .new .coherence 100 (some 0), .new .sparse 250 (some 0), .freq 1]).out
      = [(1, G .sparse 100)] := by
  rcases h1 : (spec .sparse) with ⟨k, f, d⟩
  cases k <;> cases f <;>
    simp [Two.run, Two.step, Two.init, Two.fillFs, Two.getFs, hk.1, hk.2, h1]

/-! ## Failure paths (round 2, class L7): `set_input` calls that are refused, constructors that raise

`Generated.SetInput` holds, for CoherenceAnalyzer and SparseCoherenceAnalyzer, the body of `set_input` as the ORDER of
{possible raise, `reset()`, `self.input = …`, `self.method['Fs'] = …`} read off the current source, and for the
constructors the order of {possible raise, write into `self.method`}.  The session theorems of `Lemmas/CohSession`
need "every possible raise precedes every write" (`checksFirst`) and "an accepted call re-targets" (`Retargets`): both
are proved here about the GENERATED bodies, so an edit that writes `method['Fs']` before a check (seeded change C05-10),
or swaps, checks and rolls back only the input (C09-10), re-opens them. -/
section FailurePaths
open Nitime.CohSession

theorem CoherenceAnalyzer_set_input_checks_before_writes : checksFirst SetInput.coherence = true := by decide

theorem SparseCoherenceAnalyzer_set_input_checks_before_writes : checksFirst SetInput.sparse = true := by decide

theorem CoherenceAnalyzer_set_input_retargets : Retargets SetInput.coherence := by
  intro new s
  cases hf : s.fsFromInput <;> simp [SetInput.coherence, exec, retarget, pick, hf]

theorem SparseCoherenceAnalyzer_set_input_retargets : Retargets SetInput.sparse := by
  intro new s
  cases hf : s.fsFromInput <;> simp [SetInput.sparse, exec, retarget, pick, hf]

/-- a `set_input` that raises leaves input, rate slot and memoised vector as they were (both classes) -/
theorem refused_set_input_leaves_state_unchanged (new : Inp) (sv : Option Inp) (s : St) :
    ((exec true new SetInput.coherence sv s).2 = true → (exec true new SetInput.coherence sv s).1 = s) ∧
    ((exec true new SetInput.sparse sv s).2 = true → (exec true new SetInput.sparse sv s).1 = s) :=
  ⟨refused_exec_unchanged new _ sv s CoherenceAnalyzer_set_input_checks_before_writes,
   refused_exec_unchanged new _ sv s SparseCoherenceAnalyzer_set_input_checks_before_writes⟩

/-- **CoherenceAnalyzer, any session** of accepted / refused `set_input` calls, `reset()`s and reads, from the
constructor on: every `.frequencies` is the class's vector at the rate of the input actually held (or at the `'Fs'` the
caller fixed), and the input held is the last one that was not refused -/
theorem CoherenceAnalyzer_session_frequencies_follow_held_input (G : ℚ → List ℚ) (inp : Inp) (userFs : Option ℚ)
    (evs : List Ev) :
    run G SetInput.coherence (init inp userFs) evs = spec G (hasCheck SetInput.coherence) userFs inp evs :=
  session_reads_from_init G _ CoherenceAnalyzer_set_input_checks_before_writes CoherenceAnalyzer_set_input_retargets inp userFs evs

/-- **SparseCoherenceAnalyzer, any session**: with the generated `get_freqs` term and the band selection, every
`.frequencies` read is the band of the TRUE grid `k·Fs/NFFT` at the rate of the input actually held -/
theorem SparseCoherenceAnalyzer_session_frequencies_are_true_band_of_held_input (pi : ℚ) (N : ℕ) (lb : ℚ) (ub : Option ℚ)
    (inp : Inp) (userFs : Option ℚ) (evs : List Ev) :
    run (fun fs => sliceBand (eval Grids.SparseCoherenceAnalyzer_frequencies pi fs N) lb ub) SetInput.sparse (init inp userFs) evs
      = spec (fun fs => sliceBand (trueOneSided fs N) lb ub) (hasCheck SetInput.sparse) userFs inp evs := by
  rw [session_reads_from_init _ _ SparseCoherenceAnalyzer_set_input_checks_before_writes SparseCoherenceAnalyzer_set_input_retargets]
  congr 1
  funext fs
  rw [SparseCoherenceAnalyzer_frequencies_is_true_grid]

-- non-vacuity: 100 Hz input, a refused 250 Hz one (today's body has no guard: it is accepted), reads before and after
example : run (fun fs => trueOneSided fs 4) SetInput.coherence (init ⟨100, 0⟩ none)
    [.readFreq, .setInput ⟨250, 1⟩ true, .readFreq, .reset, .readFreq]
      = [([0, 25, 50], 0), ([0, 125/2, 125], 1), ([0, 125/2, 125], 1)] := by
  decide +kernel

/-- contrast, the order of seeded change C05-10 (write `method['Fs']`, check, reset + swap): old input, refused axis -/
theorem write_before_check_counterexample :
    run (fun fs => trueOneSided fs 4) [.writeFs .new, .check, .reset, .setInput .new] (init ⟨100, 0⟩ none)
      [.setInput ⟨250, 1⟩ true, .readFreq] = [([0, 125/2, 125], 0)] ∧
    spec (fun fs => trueOneSided fs 4) true none ⟨100, 0⟩ [.setInput ⟨250, 1⟩ true, .readFreq] = [([0, 25, 50], 0)] := by
  decide +kernel

/-- the constructors: every possible raise precedes every write into `self.method` (which is the caller's own dict for
a class that keeps it) -/
theorem constructors_check_before_dict_writes :
    cChecksFirst SetInput.coherenceCtor = true ∧ cChecksFirst SetInput.sparseCtor = true ∧
    cChecksFirst SetInput.seedCtor = true := by decide

/-- a refused CoherenceAnalyzer construction (the class keeps the caller's dict) has not written into that dict -/
theorem CoherenceAnalyzer_refused_ctor_leaves_callers_dict :
    (ctorExec true (Methods.spec .coherence).keeps SetInput.coherenceCtor false).2 = true →
    (ctorExec true (Methods.spec .coherence).keeps SetInput.coherenceCtor false).1 = false :=
  refused_ctor_leaves_callers_dict _ _ _ constructors_check_before_dict_writes.1

end FailurePaths

end Nitime.C05.Props
