/-
C05 — property theorems: every frequency grid the source computes, as re-extracted by
`harness/translate_c05.py` into `Nitime.Generated.Grids`, against the grid the property asks for.

One theorem per site about the GENERATED term:
  `<site>_is_true_grid`    the site's formula is `k·Fs/N` for all `Fs`, all `N`, both parities;
  `<site>_counterexample`  (+ `<site>_partial`) where today's formula is not — the counterexample
                           stops checking the day the source is repaired; flip the site then to
                           `<site>_is_true_grid := intended_…_is_true_grid` (one line, see below).
`pi` is the value of `np.pi`, an arbitrary parameter.  General lemmas: `Nitime/Lemmas/C05Grid.lean`.
-/
import Nitime.Model.C05
import Nitime.Lemmas.C05Grid
import Nitime.Lemmas.Parseval

namespace Nitime.C05.Props
open Nitime Nitime.C05 Nitime.Generated

/-! ### the term shapes that occur, evaluated -/

/-- `np.fft.rfftfreq(N) * Fs` -/
def intended_onesided : GridExpr := .mulS (.rfftfreq .n) .fs
/-- `np.linspace(0, Fs, N, endpoint=False)` -/
def intended_twosided : GridExpr := .linspace (.const 0) .fs .n false
/-- `(np.arange(N) - N // 2) * Fs / N` (the axis of `fftshift(fft(x))`) -/
def intended_shifted : GridExpr := .divS (.mulS (.subS (.arange .n) (.floordiv .n (.const 2))) .fs) .n
/-- `np.linspace(0, Fs / 2, n_freqs // 2 + 1, endpoint=False)` (the `freqz` grid, in Hz) -/
def intended_freqz : GridExpr :=
  .linspace (.const 0) (.div .fs (.const 2)) (.add (.floordiv .n (.const 2)) (.const 1)) false
/-- `np.linspace(0, Fs / 2, N // 2 + 1)` — today's one-sided formula at most sites -/
def half_floordiv : GridExpr :=
  .linspace (.const 0) (.div .fs (.const 2)) (.add (.floordiv .n (.const 2)) (.const 1)) true
/-- `np.linspace(0, Fs / 2, int(n / 2 + 1))` — `utils.get_freqs` today -/
def half_int : GridExpr :=
  .linspace (.const 0) (.div .fs (.const 2)) (.int (.add (.div .n (.const 2)) (.const 1))) true

theorem eval_half_floordiv (pi Fs : ℚ) (N : ℕ) :
    eval half_floordiv pi Fs N = linspace 0 (Fs / 2) (N / 2 + 1) true := by
  simp only [eval, half_floordiv, GridExpr.evalEnv, AExpr.evalN, AExpr.eval, count_floordiv]
  norm_num

theorem eval_half_int (pi Fs : ℚ) (N : ℕ) :
    eval half_int pi Fs N = linspace 0 (Fs / 2) (N / 2 + 1) true := by
  simp only [eval, half_int, GridExpr.evalEnv, AExpr.evalN, AExpr.eval, count_int_half]
  norm_num

theorem intended_onesided_is_true_grid (pi Fs : ℚ) (N : ℕ) :
    eval intended_onesided pi Fs N = trueOneSided Fs N := by
  simp only [eval, intended_onesided, GridExpr.evalEnv, AExpr.evalN, AExpr.eval, count_n]
  exact rfftfreq_scaled_is_true Fs N

theorem intended_twosided_is_true_grid (pi Fs : ℚ) (N : ℕ) :
    eval intended_twosided pi Fs N = trueTwoSided Fs N := by
  simp only [eval, intended_twosided, GridExpr.evalEnv, AExpr.evalN, AExpr.eval, count_n]
  have := linspace_full_noendpoint_is_true Fs N
  simpa using this

theorem intended_freqz_is_true_grid (pi Fs : ℚ) (N : ℕ) :
    eval intended_freqz pi Fs N = trueFreqz Fs (N / 2 + 1) := by
  simp only [eval, intended_freqz, GridExpr.evalEnv, AExpr.evalN, AExpr.eval, count_floordiv]
  have := linspace_half_noendpoint_is_freqz Fs (N / 2 + 1)
  simpa using this

theorem intended_shifted_is_true_grid (pi Fs : ℚ) (N : ℕ) :
    eval intended_shifted pi Fs N = trueShifted Fs N := by
  simp only [eval, intended_shifted, GridExpr.evalEnv, AExpr.evalN, AExpr.eval, count_n, trueShifted,
    List.map_map]
  apply List.map_congr_left
  intro k _
  have h : ((((N : ℚ) / ((2 : ℤ) : ℚ)).floor : ℤ) : ℚ) = ((N / 2 : ℕ) : ℚ) := by
    have := Rat.floor_natCast_div_natCast N 2
    rw [ratFloor_eq]
    have h2 : ⌊(N : ℚ) / ((2 : ℤ) : ℚ)⌋ = ((N / 2 : ℕ) : ℤ) := by simpa using this
    rw [h2, Int.cast_natCast]
  simp only [Function.comp, h]

/-- the one-sided `linspace(0, Fs/2, N//2+1)` is wrong for EVERY odd `N ≥ 3` (any `Fs ≠ 0`):
its bin 1 is `Fs/(N-1)`, not `Fs/N` -/
theorem linspace_half_wrong_of_odd (Fs : ℚ) (hFs : Fs ≠ 0) (N : ℕ) (hodd : Odd N) (h3 : 3 ≤ N) :
    linspace 0 (Fs / 2) (N / 2 + 1) true ≠ trueOneSided Fs N := by
  obtain ⟨m, rfl⟩ := hodd
  intro h
  rw [linspace_half_eq] at h
  have h1 := congrArg (fun l => l[1]?) h
  have hm : (2 * m + 1) / 2 = m := by omega
  have hm2 : 2 * m / 2 = m := by omega
  have hlen : 1 < m + 1 := by omega
  simp only [trueOneSided, hm, hm2, List.getElem?_map, List.getElem?_range hlen, Option.map_some,
    Option.some.injEq] at h1
  have hmq : (m : ℚ) ≠ 0 := by
    have : 0 < m := by omega
    exact_mod_cast this.ne'
  have h2 : ((2 * m + 1 : ℕ) : ℚ) ≠ 0 := by positivity
  have h3' : ((2 * m : ℕ) : ℚ) ≠ 0 := by push_cast; positivity
  rw [div_eq_div_iff h3' h2] at h1
  push_cast at h1
  have : Fs * (2 * (m : ℚ) + 1) = Fs * (2 * (m : ℚ)) := by linarith
  have := mul_left_cancel₀ hFs this
  linarith

/-! ### sites whose formula is the true grid (all Fs, all N, both parities) -/

theorem periodogram_onesided_is_true_grid (pi Fs : ℚ) (N : ℕ) :
    eval Grids.periodogram_onesided pi Fs N = trueOneSided Fs N :=
  intended_onesided_is_true_grid pi Fs N

theorem periodogram_twosided_is_true_grid (pi Fs : ℚ) (N : ℕ) :
    eval Grids.periodogram_twosided pi Fs N = trueTwoSided Fs N :=
  intended_twosided_is_true_grid pi Fs N

theorem multi_taper_psd_twosided_is_true_grid (pi Fs : ℚ) (N : ℕ) :
    eval Grids.multi_taper_psd_twosided pi Fs N = trueTwoSided Fs N :=
  intended_twosided_is_true_grid pi Fs N

theorem multi_taper_csd_twosided_is_true_grid (pi Fs : ℚ) (N : ℕ) :
    eval Grids.multi_taper_csd_twosided pi Fs N = trueTwoSided Fs N :=
  intended_twosided_is_true_grid pi Fs N

theorem SpectralAnalyzer_periodogram_onesided_is_true_grid (pi Fs : ℚ) (N : ℕ) :
    eval Grids.SpectralAnalyzer_periodogram_onesided pi Fs N = trueOneSided Fs N :=
  intended_onesided_is_true_grid pi Fs N

theorem SpectralAnalyzer_periodogram_twosided_is_true_grid (pi Fs : ℚ) (N : ℕ) :
    eval Grids.SpectralAnalyzer_periodogram_twosided pi Fs N = trueTwoSided Fs N :=
  intended_twosided_is_true_grid pi Fs N

theorem SpectralAnalyzer_spectrum_multi_taper_twosided_is_true_grid (pi Fs : ℚ) (N : ℕ) :
    eval Grids.SpectralAnalyzer_spectrum_multi_taper_twosided pi Fs N = trueTwoSided Fs N :=
  intended_twosided_is_true_grid pi Fs N

example : eval Grids.periodogram_onesided 3 10 5 = [0, 2, 4] := by decide +kernel
example : eval Grids.periodogram_twosided 3 10 4 = [0, 5/2, 5, 15/2] := by decide +kernel

/-! ### one-sided sites that today use `linspace(0, Fs/2, N//2+1)`: right for even N only.
After the repair (`np.fft.rfftfreq(N) * Fs`) replace the pair by
`theorem <site>_is_true_grid … := intended_onesided_is_true_grid pi Fs N`. -/

section half
variable (pi Fs : ℚ) (N : ℕ)

theorem periodogram_csd_onesided_partial (h : Even N) :
    eval Grids.periodogram_csd_onesided pi Fs N = trueOneSided Fs N :=
  (eval_half_floordiv pi Fs N).trans (linspace_half_is_true Fs N h)
theorem periodogram_csd_onesided_counterexample :
    eval Grids.periodogram_csd_onesided pi 1 5 ≠ trueOneSided 1 5 := by
  rw [show eval Grids.periodogram_csd_onesided pi 1 5 = _ from eval_half_floordiv pi 1 5]
  exact linspace_half_wrong_of_odd 1 one_ne_zero 5 (by decide) (by norm_num)

theorem multi_taper_psd_onesided_partial (h : Even N) :
    eval Grids.multi_taper_psd_onesided pi Fs N = trueOneSided Fs N :=
  (eval_half_floordiv pi Fs N).trans (linspace_half_is_true Fs N h)
theorem multi_taper_psd_onesided_counterexample :
    eval Grids.multi_taper_psd_onesided pi 1 5 ≠ trueOneSided 1 5 := by
  rw [show eval Grids.multi_taper_psd_onesided pi 1 5 = _ from eval_half_floordiv pi 1 5]
  exact linspace_half_wrong_of_odd 1 one_ne_zero 5 (by decide) (by norm_num)

theorem multi_taper_csd_onesided_partial (h : Even N) :
    eval Grids.multi_taper_csd_onesided pi Fs N = trueOneSided Fs N :=
  (eval_half_floordiv pi Fs N).trans (linspace_half_is_true Fs N h)
theorem multi_taper_csd_onesided_counterexample :
    eval Grids.multi_taper_csd_onesided pi 1 5 ≠ trueOneSided 1 5 := by
  rw [show eval Grids.multi_taper_csd_onesided pi 1 5 = _ from eval_half_floordiv pi 1 5]
  exact linspace_half_wrong_of_odd 1 one_ne_zero 5 (by decide) (by norm_num)

theorem SpectralAnalyzer_spectrum_multi_taper_onesided_partial (h : Even N) :
    eval Grids.SpectralAnalyzer_spectrum_multi_taper_onesided pi Fs N = trueOneSided Fs N :=
  (eval_half_floordiv pi Fs N).trans (linspace_half_is_true Fs N h)
theorem SpectralAnalyzer_spectrum_multi_taper_onesided_counterexample :
    eval Grids.SpectralAnalyzer_spectrum_multi_taper_onesided pi 1 5 ≠ trueOneSided 1 5 := by
  rw [show eval Grids.SpectralAnalyzer_spectrum_multi_taper_onesided pi 1 5 = _ from eval_half_floordiv pi 1 5]
  exact linspace_half_wrong_of_odd 1 one_ne_zero 5 (by decide) (by norm_num)

theorem MTCoherenceAnalyzer_frequencies_partial (h : Even N) :
    eval Grids.MTCoherenceAnalyzer_frequencies pi Fs N = trueOneSided Fs N :=
  (eval_half_floordiv pi Fs N).trans (linspace_half_is_true Fs N h)
theorem MTCoherenceAnalyzer_frequencies_counterexample :
    eval Grids.MTCoherenceAnalyzer_frequencies pi 1 5 ≠ trueOneSided 1 5 := by
  rw [show eval Grids.MTCoherenceAnalyzer_frequencies pi 1 5 = _ from eval_half_floordiv pi 1 5]
  exact linspace_half_wrong_of_odd 1 one_ne_zero 5 (by decide) (by norm_num)

theorem SNRAnalyzer_mt_frequencies_partial (h : Even N) :
    eval Grids.SNRAnalyzer_mt_frequencies pi Fs N = trueOneSided Fs N :=
  (eval_half_floordiv pi Fs N).trans (linspace_half_is_true Fs N h)
theorem SNRAnalyzer_mt_frequencies_counterexample :
    eval Grids.SNRAnalyzer_mt_frequencies pi 1 5 ≠ trueOneSided 1 5 := by
  rw [show eval Grids.SNRAnalyzer_mt_frequencies pi 1 5 = _ from eval_half_floordiv pi 1 5]
  exact linspace_half_wrong_of_odd 1 one_ne_zero 5 (by decide) (by norm_num)

/-! the same through `utils.get_freqs` (`int(n/2+1)` points) -/

theorem get_freqs_partial (h : Even N) : eval Grids.get_freqs pi Fs N = trueOneSided Fs N :=
  (eval_half_int pi Fs N).trans (linspace_half_is_true Fs N h)
theorem get_freqs_counterexample : eval Grids.get_freqs pi 1 5 ≠ trueOneSided 1 5 := by
  rw [show eval Grids.get_freqs pi 1 5 = _ from eval_half_int pi 1 5]
  exact linspace_half_wrong_of_odd 1 one_ne_zero 5 (by decide) (by norm_num)

theorem cache_fft_partial (h : Even N) : eval Grids.cache_fft pi Fs N = trueOneSided Fs N :=
  (eval_half_int pi Fs N).trans (linspace_half_is_true Fs N h)
theorem cache_fft_counterexample : eval Grids.cache_fft pi 1 5 ≠ trueOneSided 1 5 := by
  rw [show eval Grids.cache_fft pi 1 5 = _ from eval_half_int pi 1 5]
  exact linspace_half_wrong_of_odd 1 one_ne_zero 5 (by decide) (by norm_num)

theorem correlation_spectrum_partial (h : Even N) :
    eval Grids.correlation_spectrum pi Fs N = trueOneSided Fs N :=
  (eval_half_int pi Fs N).trans (linspace_half_is_true Fs N h)
theorem correlation_spectrum_counterexample :
    eval Grids.correlation_spectrum pi 1 5 ≠ trueOneSided 1 5 := by
  rw [show eval Grids.correlation_spectrum pi 1 5 = _ from eval_half_int pi 1 5]
  exact linspace_half_wrong_of_odd 1 one_ne_zero 5 (by decide) (by norm_num)

theorem SparseCoherenceAnalyzer_frequencies_partial (h : Even N) :
    eval Grids.SparseCoherenceAnalyzer_frequencies pi Fs N = trueOneSided Fs N :=
  (eval_half_int pi Fs N).trans (linspace_half_is_true Fs N h)
theorem SparseCoherenceAnalyzer_frequencies_counterexample :
    eval Grids.SparseCoherenceAnalyzer_frequencies pi 1 5 ≠ trueOneSided 1 5 := by
  rw [show eval Grids.SparseCoherenceAnalyzer_frequencies pi 1 5 = _ from eval_half_int pi 1 5]
  exact linspace_half_wrong_of_odd 1 one_ne_zero 5 (by decide) (by norm_num)

theorem SeedCoherenceAnalyzer_frequencies_partial (h : Even N) :
    eval Grids.SeedCoherenceAnalyzer_frequencies pi Fs N = trueOneSided Fs N :=
  (eval_half_int pi Fs N).trans (linspace_half_is_true Fs N h)
theorem SeedCoherenceAnalyzer_frequencies_counterexample :
    eval Grids.SeedCoherenceAnalyzer_frequencies pi 1 5 ≠ trueOneSided 1 5 := by
  rw [show eval Grids.SeedCoherenceAnalyzer_frequencies pi 1 5 = _ from eval_half_int pi 1 5]
  exact linspace_half_wrong_of_odd 1 one_ne_zero 5 (by decide) (by norm_num)

theorem SpectralAnalyzer_spectrum_fourier_real_partial (h : Even N) :
    eval Grids.SpectralAnalyzer_spectrum_fourier_real pi Fs N = trueOneSided Fs N :=
  (eval_half_int pi Fs N).trans (linspace_half_is_true Fs N h)
theorem SpectralAnalyzer_spectrum_fourier_real_counterexample :
    eval Grids.SpectralAnalyzer_spectrum_fourier_real pi 1 5 ≠ trueOneSided 1 5 := by
  rw [show eval Grids.SpectralAnalyzer_spectrum_fourier_real pi 1 5 = _ from eval_half_int pi 1 5]
  exact linspace_half_wrong_of_odd 1 one_ne_zero 5 (by decide) (by norm_num)

theorem FilterAnalyzer_filtered_fourier_partial (h : Even N) :
    eval Grids.FilterAnalyzer_filtered_fourier pi Fs N = trueOneSided Fs N :=
  (eval_half_int pi Fs N).trans (linspace_half_is_true Fs N h)
theorem FilterAnalyzer_filtered_fourier_counterexample :
    eval Grids.FilterAnalyzer_filtered_fourier pi 1 5 ≠ trueOneSided 1 5 := by
  rw [show eval Grids.FilterAnalyzer_filtered_fourier pi 1 5 = _ from eval_half_int pi 1 5]
  exact linspace_half_wrong_of_odd 1 one_ne_zero 5 (by decide) (by norm_num)

end half

example : eval Grids.get_freqs 3 10 4 = [0, 5/2, 5] := by decide +kernel
example : eval Grids.get_freqs 3 10 5 = [0, 5/2, 5] ∧ trueOneSided 10 5 = [0, 2, 4] := by decide +kernel

/-! ### `periodogram_csd`, two-sided: `linspace(0, Fs/2, N, endpoint=False)` covers `[0, Fs/2)` -/

theorem periodogram_csd_twosided_partial (pi Fs : ℚ) (N : ℕ) :
    eval Grids.periodogram_csd_twosided pi Fs N = trueTwoSided (Fs / 2) N := by
  simp only [eval, Grids.periodogram_csd_twosided, GridExpr.evalEnv, AExpr.evalN, AExpr.eval, count_n]
  have := linspace_full_noendpoint_is_true (Fs / 2) N
  simpa using this

theorem periodogram_csd_twosided_counterexample (pi : ℚ) :
    eval Grids.periodogram_csd_twosided pi 1 4 ≠ trueTwoSided 1 4 := by
  rw [periodogram_csd_twosided_partial]; decide +kernel

/-! ### `get_spectra`, non-Welch branch: a grid already in Hz goes through `circle_to_hz` again -/

theorem get_spectra_multi_taper_csd_twosided_partial (pi Fs : ℚ) (N : ℕ) :
    eval Grids.get_spectra_multi_taper_csd_twosided pi Fs N
      = (trueTwoSided Fs N).map (fun f => f * Fs / (2 * pi)) := by
  rw [← multi_taper_csd_twosided_is_true_grid pi Fs N]
  simp [eval, Grids.get_spectra_multi_taper_csd_twosided, Grids.multi_taper_csd_twosided,
    GridExpr.evalEnv, AExpr.eval, List.map_map, Function.comp_def]

/-- reported bin 1 is `Fs²/(2πN)` instead of `Fs/N`, whatever value in (3, 4) `np.pi` has -/
theorem get_spectra_multi_taper_csd_twosided_counterexample (pi : ℚ) (h3 : 3 < pi) (h4 : pi < 4) :
    eval Grids.get_spectra_multi_taper_csd_twosided pi 10 4 ≠ trueTwoSided 10 4 := by
  rw [get_spectra_multi_taper_csd_twosided_partial]
  intro h
  have h1 := congrArg (fun l => l[1]?) h
  have hlen : 1 < 4 := by norm_num
  simp only [trueTwoSided, List.map_map, List.getElem?_map, List.getElem?_range hlen, Option.map_some,
    Option.some.injEq, Function.comp] at h1
  have hp : (2 * pi) ≠ 0 := by linarith
  field_simp at h1
  linarith

theorem get_spectra_multi_taper_csd_onesided_partial (pi Fs : ℚ) (N : ℕ) :
    eval Grids.get_spectra_multi_taper_csd_onesided pi Fs N
      = (eval Grids.multi_taper_csd_onesided pi Fs N).map (fun f => f * Fs / (2 * pi)) := by
  simp [eval, Grids.get_spectra_multi_taper_csd_onesided, Grids.multi_taper_csd_onesided,
    GridExpr.evalEnv, List.map_map, Function.comp_def, AExpr.eval]

theorem get_spectra_multi_taper_csd_onesided_counterexample (pi : ℚ) (h3 : 3 < pi) (h4 : pi < 4) :
    eval Grids.get_spectra_multi_taper_csd_onesided pi 10 4 ≠ trueOneSided 10 4 := by
  rw [get_spectra_multi_taper_csd_onesided_partial,
    multi_taper_csd_onesided_partial pi 10 4 (by decide)]
  intro h
  have h1 := congrArg (fun l => l[1]?) h
  have hlen : 1 < 4 / 2 + 1 := by norm_num
  simp only [trueOneSided, List.map_map, List.getElem?_map, List.getElem?_range hlen, Option.map_some,
    Option.some.injEq, Function.comp] at h1
  have hp : (2 * pi) ≠ 0 := by linarith
  field_simp at h1
  linarith

theorem get_spectra_periodogram_csd_onesided_partial (pi Fs : ℚ) (N : ℕ) :
    eval Grids.get_spectra_periodogram_csd_onesided pi Fs N
      = (eval Grids.periodogram_csd_onesided pi Fs N).map (fun f => f * Fs / (2 * pi)) := by
  simp [eval, Grids.get_spectra_periodogram_csd_onesided, Grids.periodogram_csd_onesided,
    GridExpr.evalEnv, List.map_map, Function.comp_def, AExpr.eval]

theorem get_spectra_periodogram_csd_onesided_counterexample (pi : ℚ) (h3 : 3 < pi) (h4 : pi < 4) :
    eval Grids.get_spectra_periodogram_csd_onesided pi 10 4 ≠ trueOneSided 10 4 := by
  rw [get_spectra_periodogram_csd_onesided_partial,
    periodogram_csd_onesided_partial pi 10 4 (by decide)]
  intro h
  have h1 := congrArg (fun l => l[1]?) h
  have hlen : 1 < 4 / 2 + 1 := by norm_num
  simp only [trueOneSided, List.map_map, List.getElem?_map, List.getElem?_range hlen, Option.map_some,
    Option.some.injEq, Function.comp] at h1
  have hp : (2 * pi) ≠ 0 := by linarith
  field_simp at h1
  linarith

theorem get_spectra_periodogram_csd_twosided_partial (pi Fs : ℚ) (N : ℕ) :
    eval Grids.get_spectra_periodogram_csd_twosided pi Fs N
      = (eval Grids.periodogram_csd_twosided pi Fs N).map (fun f => f * Fs / (2 * pi)) := by
  simp [eval, Grids.get_spectra_periodogram_csd_twosided, Grids.periodogram_csd_twosided,
    GridExpr.evalEnv, List.map_map, Function.comp_def, AExpr.eval]

theorem get_spectra_periodogram_csd_twosided_counterexample (pi : ℚ) (h3 : 3 < pi) (h4 : pi < 4) :
    eval Grids.get_spectra_periodogram_csd_twosided pi 10 4 ≠ trueTwoSided 10 4 := by
  rw [get_spectra_periodogram_csd_twosided_partial, periodogram_csd_twosided_partial]
  intro h
  have h1 := congrArg (fun l => l[1]?) h
  have hlen : 1 < 4 := by norm_num
  simp only [trueTwoSided, List.map_map, List.getElem?_map, List.getElem?_range hlen, Option.map_some,
    Option.some.injEq, Function.comp] at h1
  have hp : (2 * pi) ≠ 0 := by linarith
  field_simp at h1
  linarith

/-! ### complex `spectrum_fourier`: `linspace(-Fs/2, Fs/2, N)` is not the axis of `fftshift(fft(x))` -/

theorem SpectralAnalyzer_spectrum_fourier_complex_counterexample (pi : ℚ) :
    eval Grids.SpectralAnalyzer_spectrum_fourier_complex pi 1 4 ≠ trueShifted 1 4 ∧
    eval Grids.SpectralAnalyzer_spectrum_fourier_complex pi 1 5 ≠ trueShifted 1 5 := by
  have e : ∀ N : ℕ, eval Grids.SpectralAnalyzer_spectrum_fourier_complex pi 1 N
      = linspace (-1 / 2) (1 / 2) N true := by
    intro N
    simp [eval, Grids.SpectralAnalyzer_spectrum_fourier_complex, GridExpr.evalEnv, AExpr.evalN,
      AExpr.eval, count_n]
  rw [e, e]; constructor <;> decide +kernel

/-- only the first entry (`-Fs/2`) is right, and only for even N -/
theorem SpectralAnalyzer_spectrum_fourier_complex_partial (pi Fs : ℚ) (N : ℕ) (h : Even N) (hN : 0 < N) :
    (eval Grids.SpectralAnalyzer_spectrum_fourier_complex pi Fs N)[0]? = (trueShifted Fs N)[0]? := by
  obtain ⟨m, rfl⟩ := h
  have hm : (m + m) / 2 = m := by omega
  have hmq : (m : ℚ) ≠ 0 := by
    have : 0 < m := by omega
    exact_mod_cast this.ne'
  simp only [eval, Grids.SpectralAnalyzer_spectrum_fourier_complex, GridExpr.evalEnv, AExpr.evalN,
    AExpr.eval, count_n, linspace, trueShifted, List.getElem?_map, List.getElem?_range hN, hm,
    Option.map_some, Option.some.injEq]
  push_cast
  field_simp
  ring

/-! ### `GrangerAnalyzer.frequencies`: `get_freqs(Fs, n_freqs)` includes the Nyquist point, the
`freqz` grid the causality values are computed on (`n_freqs//2+1` points of `[0, Fs/2)`) does not -/

theorem GrangerAnalyzer_frequencies_counterexample (pi : ℚ) :
    eval Grids.GrangerAnalyzer_frequencies pi 1 4 ≠ trueFreqz 1 (4 / 2 + 1) := by
  rw [show eval Grids.GrangerAnalyzer_frequencies pi 1 4 = _ from eval_half_int pi 1 4]
  decide +kernel

/-- same number of points, same first point; the spacing is `Fs/(2⌊n/2⌋)` instead of `Fs/(2⌊n/2⌋+2)` -/
theorem GrangerAnalyzer_frequencies_partial (pi Fs : ℚ) (N : ℕ) :
    (eval Grids.GrangerAnalyzer_frequencies pi Fs N).length = (trueFreqz Fs (N / 2 + 1)).length ∧
    (eval Grids.GrangerAnalyzer_frequencies pi Fs N)[0]? = (trueFreqz Fs (N / 2 + 1))[0]? := by
  rw [show eval Grids.GrangerAnalyzer_frequencies pi Fs N = _ from eval_half_int pi Fs N]
  have h0 : 0 < N / 2 + 1 := by omega
  simp [linspace, trueFreqz]

example : trueFreqz 1 3 = [0, 1/6, 1/3] ∧ eval Grids.GrangerAnalyzer_frequencies 3 1 4 = [0, 1/4, 1/2] := by
  decide +kernel

/-! ### band selection -/

theorem trueOneSided_getElem (Fs : ℚ) (N k : ℕ) (hk : k < (trueOneSided Fs N).length) :
    (trueOneSided Fs N)[k] = (k : ℚ) * Fs / (N : ℚ) := by
  simp [trueOneSided]

theorem trueTwoSided_getElem (Fs : ℚ) (N k : ℕ) (hk : k < (trueTwoSided Fs N).length) :
    (trueTwoSided Fs N)[k] = (k : ℚ) * Fs / (N : ℚ) := by
  simp [trueTwoSided]

/-- on the true grid, `get_bounds` keeps exactly the bins whose frequency lies in `[lb, ub]` -/
theorem bounds_select_band (Fs : ℚ) (hFs : 0 ≤ Fs) (N : ℕ) (lb ub : ℚ) (k : ℕ)
    (hk : k < (trueOneSided Fs N).length) :
    ((getBounds (trueOneSided Fs N) lb (some ub)).1 ≤ k ∧ k < (getBounds (trueOneSided Fs N) lb (some ub)).2)
      ↔ (lb ≤ (k : ℚ) * Fs / (N : ℚ) ∧ (k : ℚ) * Fs / (N : ℚ) ≤ ub) := by
  have hs := trueOneSided_sorted Fs hFs N
  rw [← trueOneSided_getElem Fs N k hk]
  simp only [getBounds]
  rw [searchLeft_le_iff _ hs lb k hk, lt_searchRight_iff _ hs ub k hk]

/-- without an upper bound everything from `lb` up to the Nyquist bin is kept -/
theorem bounds_select_band_no_ub (Fs : ℚ) (hFs : 0 ≤ Fs) (N : ℕ) (lb : ℚ) (k : ℕ)
    (hk : k < (trueOneSided Fs N).length) :
    ((getBounds (trueOneSided Fs N) lb none).1 ≤ k ∧ k < (getBounds (trueOneSided Fs N) lb none).2)
      ↔ lb ≤ (k : ℚ) * Fs / (N : ℚ) := by
  have hs := trueOneSided_sorted Fs hFs N
  rw [← trueOneSided_getElem Fs N k hk]
  simp only [getBounds]
  rw [searchLeft_le_iff _ hs lb k hk]
  exact and_iff_left hk

example : getBounds (trueOneSided 10 5) 2 (some 4) = (1, 3) ∧ sliceBand (trueOneSided 10 5) 2 (some 4) = [2, 4] := by
  decide +kernel

/-! ### a sinusoid on bin k0 peaks at bin k0 (and only there) -/

open Finset in
/-- DFT of the on-bin complex exponential `x[j] = ζ^(k0·j)` (ζ a primitive N-th root of unity,
e.g. `exp(2πi/N)`): `N` at `k = k0`, `0` elsewhere; the reported frequency of that bin on the true
grid is `k0·Fs/N` (`trueTwoSided_getElem`) -/
theorem sinusoid_peak_bin {N : ℕ} (hN : 0 < N) {ζ : ℂ} (hζ : IsPrimitiveRoot ζ N)
    {k0 k : ℕ} (hk0 : k0 < N) (hk : k < N) :
    ∑ j ∈ range N, ζ ^ (k0 * j) * (ζ⁻¹) ^ (k * j) = if k0 = k then (N : ℂ) else 0 :=
  root_orth hN hζ hk0 hk

example : IsPrimitiveRoot (-1 : ℂ) 2 := by
  simpa using (IsPrimitiveRoot.neg_one 0 (by norm_num) : IsPrimitiveRoot (-1 : ℂ) 2)

end Nitime.C05.Props
