/-
C10 — property theorems (AR estimates solve the Yule–Walker equations).

All statements are about the definitions of `Nitime/Model/C10.lean` (`arLD`, `arYW`, `arPsd`,
`arGenerator`, `autocorrDirect`, `lfilter1`, `toepEntry`) instantiated at `K = ℂ`
(`Lemmas/ARInst.lean`); the driver runs the *same definitions* at `K = CF` (complex binary64).
The Levinson–Durbin induction itself is `Lemmas/LevinsonDurbin.lean` (`LD.ld_correct`);
`ldLoop_spec` shows that the model's loop state (list `w`, lagging `b`, `w_k`) is `LD.ld`.

Stability is proved in full for the computed-autocorrelation path: the Hermitian Toeplitz matrix of the
biased sample autocorrelation is a Gram matrix (`autocorr_toeplitz_psd`), positive definite for every
non-zero signal (`autocorr_toepPD`); positive definite ⇒ every σ_j > 0, every divisor non-zero, every
|κ_j| < 1 (`ld_sigma_pos_of_toeplitz_pd`); all |κ_j| < 1 ⇒ all roots inside the unit circle
(`arLD_stable`); together `arLD_stable_of_signal` (no hypothesis besides "the signal is not
identically zero").  For a user-SUPPLIED `rxx` the same holds under the hypothesis `ToepPD`
(`arLD_stable_of_pd`); a supplied sequence that is not positive definite (e.g. the unbiased estimate)
carries no stability claim.
The model's own `solve` (`GMat.solve`, Gauss–Jordan) is proved to honour the `IsSolution` contract
whenever it returns (`gjSolve_isSolution`, `arYW_gj_eq_arLD`).  Not proved here: Float ≈ ℂ.
-/
import Nitime.Model.C10
import Nitime.Lemmas.ARInst
import Nitime.Lemmas.LevinsonDurbin
import Nitime.Lemmas.SchurCohn
import Nitime.Lemmas.GaussJordan
import Nitime.Lemmas.ToeplitzGram
import Mathlib.LinearAlgebra.Matrix.Nondegenerate
import Mathlib.LinearAlgebra.Matrix.ToLinearEquiv

open Finset ComplexConjugate
open Nitime.AR Nitime.C10

noncomputable section

namespace Nitime.C10.Props

variable {r : ℕ → ℂ}

/-- the coefficient function `a_i = l[i-1]` of a returned coefficient list -/
def coef (l : List ℂ) : ℕ → ℂ := fun i => l.getD (i - 1) 0

lemma sum_Icc_one (p : ℕ) (f : ℕ → ℂ) : ∑ i ∈ Icc 1 p, f i = ∑ i ∈ range p, f (i + 1) := by
  rw [range_eq_Ico, Finset.sum_Ico_add' f 0 p 1]
  congr 1

/-- bridge: the loop state of the model after order `p+1` is the state of `LD.ld` -/
theorem ldLoop_spec (h0 : conj (r 0) = r 0) (p : ℕ) :
    (ldLoop r (p + 1)).w.length = p + 1 ∧
    (∀ i, i < p + 1 → (ldLoop r (p + 1)).w.getD i 0 = (LD.ld r (p + 1)).a (i + 1)) ∧
    (ldLoop r (p + 1)).wk = (LD.ld r (p + 1)).a (p + 1) ∧
    (ldLoop r (p + 1)).b = (LD.ld r p).b := by
  have hr0 : ((r 0).re : ℂ) = r 0 := Complex.conj_eq_iff_re.mp h0
  induction p with
  | zero =>
    have hk : LD.kappa r 1 ⟨fun _ => 0, r 0⟩ = r 1 / r 0 := by
      simp [LD.kappa]
    refine ⟨by simp [ldLoop, ldInit], ?_, ?_, ?_⟩
    · intro i hi
      have : i = 0 := by omega
      subst this
      simp [ldLoop, ldInit, LD.ld, LD.step_a_top, hk, hr0]
    · simp [ldLoop, ldInit, LD.ld, LD.step_a_top, hk, hr0]
    · simp [ldLoop, ldInit, LD.ld, hr0]
  | succ p ih =>
    obtain ⟨hlen, hw, hwk, hb⟩ := ih
    set s := ldLoop r (p + 1) with hs
    have hldb : (LD.ld r (p + 1)).b = (LD.ld r p).b * (1 - (LD.ld r (p + 1)).a (p + 1) * conj ((LD.ld r (p + 1)).a (p + 1))) := by
      simp [LD.ld, LD.step]
    have hb' : s.b * (1 - ((s.wk * conj s.wk).re : ℂ)) = (LD.ld r (p + 1)).b := by
      rw [re_mul_conj, hwk, hb, hldb]
    have hacc : sumRange (p + 2 - 1) (fun i => s.w.getD i 0 * r (p + 2 - 1 - i))
        = ∑ i ∈ Icc 1 (p + 2 - 1), (LD.ld r (p + 1)).a i * r (p + 2 - i) := by
      rw [sumRange_eq, sum_Icc_one]
      refine sum_congr rfl fun i hi => ?_
      simp only [mem_range] at hi
      have e : p + 2 - 1 - i = p + 2 - (i + 1) := by omega
      simp only [e]
      rw [hw i (by omega)]
    have hκ : (ldLoop r (p + 2)).wk = LD.kappa r (p + 2) (LD.ld r (p + 1)) := by
      show (ldStep r (p + 2) s).wk = _
      simp only [ldStep, sc_sub, sc_div, sc_mul, sc_one, sc_re, sc_conj, sc_zero]
      rw [hacc, hb', LD.kappa]
    have hκ' : (LD.ld r (p + 2)).a (p + 2) = LD.kappa r (p + 2) (LD.ld r (p + 1)) := by
      simp [LD.ld, LD.step_a_top]
    refine ⟨?_, ?_, ?_, ?_⟩
    · show (ldStep r (p + 2) s).w.length = _
      simp [ldStep]
    · intro i hi
      show (ldStep r (p + 2) s).w.getD i 0 = _
      have hwk2 : (ldStep r (p + 2) s).wk = LD.kappa r (p + 2) (LD.ld r (p + 1)) := hκ
      by_cases hlt : i < p + 1
      · have h1 : (ldStep r (p + 2) s).w.getD i 0
            = s.w.getD i 0 - (ldStep r (p + 2) s).wk * conj (s.w.getD (p - i) 0) := by
          simp [ldStep, List.getD_eq_getElem?_getD, List.getElem?_append, hlt]
        rw [h1, hwk2, hw i hlt, hw (p - i) (by omega)]
        have e : p - i + 1 = p + 2 - (i + 1) := by omega
        rw [e]
        have := LD.step_a_lt (r := r) (p := p + 2) (LD.ld r (p + 1)) (i := i + 1) (by omega) (by omega) (by omega)
        simpa [LD.ld] using this.symm
      · have hi' : i = p + 1 := by omega
        subst hi'
        have h1 : (ldStep r (p + 2) s).w.getD (p + 1) 0 = (ldStep r (p + 2) s).wk := by
          simp [ldStep, List.getD_eq_getElem?_getD, List.getElem?_append]
        rw [h1, hwk2, hκ']
    · rw [hκ, hκ']
    · show (ldStep r (p + 2) s).b = _
      simp only [ldStep, sc_sub, sc_mul, sc_one, sc_re, sc_conj]
      exact hb'


/-- every number the code divides by up to order `p+1` is non-zero -/
def DivisorsOK (r : ℕ → ℂ) (p : ℕ) : Prop := ∀ j, j < p + 1 → (ldLoop r (j + 1)).b ≠ 0

lemma divisorsOK_ld (h0 : conj (r 0) = r 0) {p : ℕ} (h : DivisorsOK r p) :
    ∀ j, j < p + 1 → (LD.ld r j).b ≠ 0 := by
  intro j hj
  rw [← (ldLoop_spec h0 j).2.2.2]
  exact h j hj

/-- the output of the model's `arLD` is the state of the proved recursion `LD.ld` -/
theorem arLD_is_ld (h0 : conj (r 0) = r 0) (p : ℕ) :
    (∀ i ∈ Icc 1 (p + 1), coef (arLD r (p + 1)).1 i = (LD.ld r (p + 1)).a i) ∧
    (arLD r (p + 1)).2 = (LD.ld r (p + 1)).b := by
  obtain ⟨_, hw, hwk, hb⟩ := ldLoop_spec h0 p
  refine ⟨?_, ?_⟩
  · intro i hi
    simp only [mem_Icc] at hi
    have := hw (i - 1) (by omega)
    have e : i - 1 + 1 = i := by omega
    rw [e] at this
    simpa [coef, arLD] using this
  · simp only [arLD, sc_sub, sc_mul, sc_one, sc_re, sc_conj]
    rw [re_mul_conj, hwk, hb]
    simp [LD.ld, LD.step]

/-- **C10 normal equations.** The coefficients returned by the Levinson–Durbin model satisfy
`r_k = Σ_{i=1..p} a_i r_{k-i}` (k = 1..p, `r_{-m} = conj r_m`). -/
theorem arLD_solves_YW (h0 : conj (r 0) = r 0) (p : ℕ) (hd : DivisorsOK r p) :
    LD.YW r (p + 1) (coef (arLD r (p + 1)).1) := by
  obtain ⟨hyw, _, _⟩ := LD.ld_correct h0 (p + 1) (divisorsOK_ld h0 hd)
  intro k hk1 hkp
  rw [← hyw k hk1 hkp]
  refine sum_congr rfl fun i hi => ?_
  rw [(arLD_is_ld h0 p).1 i hi]

/-- **C10 innovation variance.** `sigma = R(0) − Σ a_k·conj R(k)`, and it is real. -/
theorem arLD_sigma (h0 : conj (r 0) = r 0) (p : ℕ) (hd : DivisorsOK r p) :
    (arLD r (p + 1)).2 = r 0 - ∑ i ∈ Icc 1 (p + 1), coef (arLD r (p + 1)).1 i * conj (r i) ∧
    conj (arLD r (p + 1)).2 = (arLD r (p + 1)).2 := by
  obtain ⟨_, hE, hreal⟩ := LD.ld_correct h0 (p + 1) (divisorsOK_ld h0 hd)
  obtain ⟨ha, hb⟩ := arLD_is_ld h0 p
  rw [hb]
  refine ⟨?_, hreal⟩
  rw [hE, LD.Err]
  congr 1
  refine sum_congr rfl fun i hi => ?_
  rw [ha i hi]

/-- the reflection coefficient of order `j` as the model computes it -/
def kappaM (r : ℕ → ℂ) (j : ℕ) : ℂ := (ldLoop r j).wk

lemma ldLoop_b_prod (p : ℕ) :
    (ldLoop r (p + 1)).b = ((r 0).re : ℂ) * ∏ j ∈ Icc 1 p, ((1 - Complex.normSq (kappaM r j) : ℝ) : ℂ) := by
  induction p with
  | zero => simp [ldLoop, ldInit]
  | succ p ih =>
    show (ldStep r (p + 2) (ldLoop r (p + 1))).b = _
    simp only [ldStep, sc_sub, sc_mul, sc_one, sc_re, sc_conj]
    rw [ih, Finset.prod_Icc_succ_top (by omega), Complex.mul_conj]
    simp [kappaM, mul_assoc]

/-- **C10 error power product.** `sigma = R(0)·Π_{j≤p}(1 − |κ_j|²)` -/
theorem arLD_sigma_prod (p : ℕ) :
    (arLD r (p + 1)).2
      = (((r 0).re * ∏ j ∈ Icc 1 (p + 1), (1 - Complex.normSq (kappaM r j)) : ℝ) : ℂ) := by
  simp only [arLD, sc_sub, sc_mul, sc_one, sc_re, sc_conj]
  rw [ldLoop_b_prod, Finset.prod_Icc_succ_top (by omega), Complex.mul_conj]
  simp [kappaM, mul_assoc]

/-- **C10 positivity (partial form of "stable").** If all reflection coefficients have modulus
below one and `R(0) > 0`, the reported innovation variance is positive. -/
theorem sigma_pos (p : ℕ) (hr : 0 < (r 0).re)
    (hk : ∀ j ∈ Icc 1 (p + 1), Complex.normSq (kappaM r j) < 1) :
    0 < ((arLD r (p + 1)).2).re := by
  rw [arLD_sigma_prod, Complex.ofReal_re]
  apply mul_pos hr
  apply Finset.prod_pos
  intro j hj
  linarith [hk j hj]

/-- **C10 stability.** If every reflection coefficient the model computes has modulus below one,
all zeros of the characteristic polynomial `z^p − Σ a_i z^{p−i}` of the fitted model lie strictly
inside the unit circle (the fitted AR recursion is stable).  Schur–Cohn step-down argument,
`Lemmas/SchurCohn.lean`. -/
theorem arLD_stable (h0 : conj (r 0) = r 0) (p : ℕ)
    (hk : ∀ j ∈ Icc 1 (p + 1), Complex.normSq (kappaM r j) < 1) (z : ℂ) (hz : 1 ≤ Complex.normSq z) :
    z ^ (p + 1) - ∑ i ∈ Icc 1 (p + 1), coef (arLD r (p + 1)).1 i * z ^ (p + 1 - i) ≠ 0 := by
  have hκ : ∀ j, j < p + 1 → Complex.normSq (LD.kap r j) < 1 := by
    intro j hj
    have := hk (j + 1) (by simp only [mem_Icc]; omega)
    rwa [kappaM, (ldLoop_spec h0 j).2.2.1, LD.ld_succ_a_top] at this
  have := (LD.stable_of_kappa_lt_one (r := r) (p + 1) hκ z hz).1
  unfold LD.Pf at this
  intro h
  apply this
  rw [← h]
  congr 1
  refine sum_congr rfl fun i hi => ?_
  rw [(arLD_is_ld h0 p).1 i hi]

/-! ### Toeplitz solve -/

/-- contract of `linalg.solve(T, y)` written with the functions the model fills `T`, `y` with -/
def IsSolution (r : ℕ → ℂ) (p : ℕ) (ak : List ℂ) : Prop :=
  ∀ k, k < p → ∑ i ∈ range p, toepEntry r k i * ak.getD i 0 = r (k + 1)

lemma rr_eq_toep {k i : ℕ} : LD.rr r (k + 1) (i + 1) = toepEntry r k i := by
  unfold LD.rr toepEntry
  by_cases h : i ≤ k
  · have h' : i + 1 ≤ k + 1 := by omega
    rw [if_pos h, if_pos h']; congr 1; omega
  · have h' : ¬ i + 1 ≤ k + 1 := by omega
    rw [if_neg h, if_neg h']; simp only [sc_conj]; congr 2; omega

lemma isSolution_iff_YW (p : ℕ) (ak : List ℂ) : IsSolution r p ak ↔ LD.YW r p (coef ak) := by
  constructor
  · intro h k hk1 hkp
    have := h (k - 1) (by omega)
    have e : k - 1 + 1 = k := by omega
    rw [e] at this
    rw [← this, sum_Icc_one]
    refine sum_congr rfl fun i _ => ?_
    have : LD.rr r k (i + 1) = toepEntry r (k - 1) i := by
      conv_lhs => rw [← e]
      exact rr_eq_toep
    rw [this]; simp [coef, mul_comm]
  · intro h k hk
    rw [← h (k + 1) (by omega) (by omega), sum_Icc_one]
    refine sum_congr rfl fun i _ => ?_
    rw [rr_eq_toep]; simp [coef, mul_comm]

/-- the Hermitian Toeplitz matrix `toeplitz(r[:p])` -/
def toepMatrix (r : ℕ → ℂ) (p : ℕ) : Matrix (Fin p) (Fin p) ℂ :=
  Matrix.of fun k i => toepEntry r k i

/-- **uniqueness**: with a non-singular Toeplitz matrix two solutions coincide -/
theorem yw_unique {p : ℕ} (hdet : (toepMatrix r p).det ≠ 0) {l l' : List ℂ}
    (h : IsSolution r p l) (h' : IsSolution r p l') : ∀ i, i < p → l.getD i 0 = l'.getD i 0 := by
  have key : (toepMatrix r p).mulVec (fun i : Fin p => l.getD i 0)
      = (toepMatrix r p).mulVec (fun i : Fin p => l'.getD i 0) := by
    funext k
    simp only [Matrix.mulVec, dotProduct, toepMatrix, Matrix.of_apply]
    rw [Fin.sum_univ_eq_sum_range (fun i => toepEntry r k i * l.getD i 0) p,
      Fin.sum_univ_eq_sum_range (fun i => toepEntry r k i * l'.getD i 0) p,
      h k k.2, h' k k.2]
  have := Matrix.mulVec_injective_of_det_ne_zero hdet key
  intro i hi
  exact congrFun this ⟨i, hi⟩

/-- **C10 the two estimators agree.** If `solve` honours its contract and `T` is non-singular,
`AR_est_YW` returns the Levinson–Durbin coefficients. -/
theorem arYW_eq_arLD (h0 : conj (r 0) = r 0) (p : ℕ) (hd : DivisorsOK r p)
    (hdet : (toepMatrix r (p + 1)).det ≠ 0)
    (solve : List (List ℂ) → List ℂ → List ℂ)
    (hsolve : IsSolution r (p + 1) (arYW solve r (p + 1)).1) :
    ∀ i, i < p + 1 → (arYW solve r (p + 1)).1.getD i 0 = (arLD r (p + 1)).1.getD i 0 :=
  yw_unique hdet hsolve ((isSolution_iff_YW _ _).2 (arLD_solves_YW h0 p hd))

/-- **C10 exact recovery.** If `r` satisfies the Yule–Walker equations of coefficients `α`
(it is the exact autocovariance of that AR process) and `T` is non-singular, `α` is returned. -/
theorem exact_recovery (h0 : conj (r 0) = r 0) (p : ℕ) (hd : DivisorsOK r p)
    (hdet : (toepMatrix r (p + 1)).det ≠ 0) (α : List ℂ) (hα : LD.YW r (p + 1) (coef α)) :
    ∀ i, i < p + 1 → (arLD r (p + 1)).1.getD i 0 = α.getD i 0 :=
  yw_unique hdet ((isSolution_iff_YW _ _).2 (arLD_solves_YW h0 p hd)) ((isSolution_iff_YW _ _).2 hα)

/-- **C10 `AR_est_YW` variance.** For any solution of the normal equations the variance reported
by `AR_est_YW` is the real part of `R(0) − Σ a_k·conj R(k)`. -/
theorem arYW_sigma (solve : List (List ℂ) → List ℂ → List ℂ) (p : ℕ) :
    (arYW solve r p).2
      = (((r 0 - ∑ i ∈ Icc 1 p, coef (arYW solve r p).1 i * conj (r i)).re : ℝ) : ℂ) := by
  simp only [arYW, sc_sub, sc_mul, sc_re, sc_conj, sc_zero]
  rw [sumRange_eq, sum_Icc_one]
  simp only [Complex.sub_re, Complex.ofReal_sub]
  congr 3
  refine sum_congr rfl fun i _ => ?_
  simp [coef, mul_comm]


/-! ### the model's own solver (Gauss–Jordan) meets the contract -/
section gj
open Nitime.AR.GMat
variable {r : ℕ → ℂ}

lemma toeplitzH_eq_ofFn (p : ℕ) : toeplitzH r p = GMat.ofFn p p (toepEntry r) := rfl

lemma toMatrix_toeplitz (p : ℕ) : GMat.toMatrix p (toeplitzH r p) = toepMatrix r p := by
  ext k i
  simp only [GMat.toMatrix, toepMatrix, Matrix.of_apply, toeplitzH_eq_ofFn]
  rw [GMat.entry_ofFn _ k.2 i.2]

/-- **C10 the model's `solve` honours its contract.** Whenever the Gauss–Jordan model returns
(the elimination ended with the identity), `GMat.solve T y` solves the Yule–Walker system. -/
theorem gjSolve_isSolution (p : ℕ) (X : List (List ℂ)) (h : GMat.inv? p (toeplitzH r p) = some X) :
    IsSolution r p (arYW GMat.solve r p).1 ∧ (toepMatrix r p).det ≠ 0 := by
  obtain ⟨hl, hr⟩ := GMat.inv?_left_inverse p _ X h
  rw [toMatrix_toeplitz] at hl hr
  have hdet : (toepMatrix r p).det ≠ 0 := by
    intro h0
    have := congrArg Matrix.det hr
    rw [Matrix.det_mul, h0, zero_mul, Matrix.det_one] at this
    exact zero_ne_one this
  refine ⟨?_, hdet⟩
  have hy : ((List.range p).map fun k => r (k + 1)).length = p := by simp
  have hsol : (arYW GMat.solve r p).1 = GMat.mulVec p X ((List.range p).map fun k => r (k + 1)) := by
    simp only [arYW, GMat.solve, hy, h]
  intro k hk
  rw [hsol]
  have hget : ∀ i, i < p → (GMat.mulVec p X ((List.range p).map fun k => r (k + 1))).getD i 0
      = ∑ l ∈ range p, GMat.entry X i l * r (l + 1) := by
    intro i hi
    simp only [GMat.mulVec, List.getD_eq_getElem?_getD, List.getElem?_map, List.getElem?_range hi,
      Option.map_some, Option.getD_some, sumRange_eq, sc_mul, sc_zero]
    refine sum_congr rfl fun l hl => ?_
    simp only [mem_range] at hl
    simp [List.getElem?_range hl]
  rw [sum_congr rfl fun i hi => by rw [hget i (mem_range.mp hi)]]
  -- Σ_i T k i Σ_l X i l y_l = Σ_l (T X) k l y_l = y_k
  have hTX : ∀ l, l < p → ∑ i ∈ range p, toepEntry r k i * GMat.entry X i l = if k = l then 1 else 0 := by
    intro l hl
    have := congrFun (congrFun hr ⟨k, hk⟩) ⟨l, hl⟩
    simp only [Matrix.mul_apply, Matrix.one_apply, toepMatrix, GMat.toMatrix, Matrix.of_apply, Fin.mk.injEq] at this
    rw [← this, Fin.sum_univ_eq_sum_range (fun i => toepEntry r k i * GMat.entry X i l) p]
  simp_rw [mul_sum]
  rw [sum_comm]
  have : ∀ l ∈ range p, ∑ i ∈ range p, toepEntry r k i * (GMat.entry X i l * r (l + 1))
      = (if k = l then 1 else 0) * r (l + 1) := by
    intro l hl
    rw [← hTX l (mem_range.mp hl), sum_mul]
    refine sum_congr rfl fun i _ => by ring
  rw [sum_congr rfl this]
  simp [hk]

/-- **C10 the two estimators agree — with the model's own solver, no contract assumed.** -/
theorem arYW_gj_eq_arLD (h0 : conj (r 0) = r 0) (p : ℕ) (hd : DivisorsOK r p)
    (X : List (List ℂ)) (h : GMat.inv? (p + 1) (toeplitzH r (p + 1)) = some X) :
    ∀ i, i < p + 1 → (arYW GMat.solve r (p + 1)).1.getD i 0 = (arLD r (p + 1)).1.getD i 0 :=
  arYW_eq_arLD h0 p hd (gjSolve_isSolution (p + 1) X h).2 GMat.solve (gjSolve_isSolution (p + 1) X h).1

end gj

/-! ### autocorrelation -/

/-- `autocorr(x)[k] = (1/n)·Σ_m x[m+k]·conj x[m]` -/
theorem autocorr_is_lagged_sum (x : ℕ → ℂ) (n k : ℕ) :
    autocorrDirect x n k = (∑ m ∈ range (n - k), x (m + k) * conj (x m)) / (n : ℂ) := by
  simp [autocorrDirect, sumRange_eq]

/-- the lag-0 term of the computed autocorrelation is real (the hypothesis `h0` above) -/
theorem autocorr_zero_real (x : ℕ → ℂ) (n : ℕ) :
    conj (autocorrDirect x n 0) = autocorrDirect x n 0 := by
  rw [autocorr_is_lagged_sum, map_div₀, map_sum, Complex.conj_natCast]
  congr 1
  refine sum_congr rfl fun m _ => ?_
  simp [mul_comm]

/-! ### AR_psd -/

lemma getD_map_neg (l : List ℂ) (j : ℕ) : (l.map Scalar.neg).getD j 0 = -(l.getD j 0) := by
  simp only [List.getD_eq_getElem?_getD, List.getElem?_map]
  cases l[j]? <;> simp

/-- the denominator polynomial `np.r_[1, -ak]` evaluated at `z` is `1 − Σ_j a_j z^j` -/
lemma polyEval_one_neg (ak : List ℂ) (z : ℂ) :
    polyEval (Scalar.one :: ak.map Scalar.neg) z = 1 - ∑ j ∈ range ak.length, ak.getD j 0 * z ^ (j + 1) := by
  rw [polyEval_eq]
  simp only [List.length_cons, List.length_map]
  rw [Finset.sum_range_succ']
  simp only [List.getD_cons_succ, List.getD_cons_zero, getD_map_neg, sc_one, pow_zero, mul_one]
  rw [sub_eq_add_neg, add_comm, ← Finset.sum_neg_distrib]
  congr 1
  refine sum_congr rfl fun j _ => by ring

/-- **C10 model spectrum.** On grid point `k` (frequency `ω_k = gridOmega …`), `AR_psd` returns
`σ / |1 − Σ_j a_j e^{−iω_k j}|²`, doubled when one-sided. -/
theorem arPsd_formula (incl : Bool) (ak : List ℂ) (σ : ℂ) (hσ : 0 ≤ σ.re) (nFreqs : ℕ) (onesided : Bool) (k : ℕ)
    (hk : k < realN nFreqs onesided) :
    (arPsd incl ak σ nFreqs onesided).getD k 0
      = (((if onesided then 2 else 1) * (σ.re / Complex.normSq
          (1 - ∑ j ∈ range ak.length, ak.getD j 0 *
            Complex.exp (-(Complex.I * (gridOmegaI incl (!onesided) k (realN nFreqs onesided) : ℂ))) ^ (j + 1))) : ℝ) : ℂ) := by
  set z := Complex.exp (-(Complex.I * (gridOmegaI incl (!onesided) k (realN nFreqs onesided) : ℂ))) with hz
  set A := 1 - ∑ j ∈ range ak.length, ak.getD j 0 * z ^ (j + 1) with hA
  have hs : ((Real.sqrt σ.re : ℝ) : ℂ) * conj ((Real.sqrt σ.re : ℝ) : ℂ) = (σ.re : ℂ) := by
    rw [Complex.conj_ofReal, ← Complex.ofReal_mul, Real.mul_self_sqrt hσ]
  have hb : polyEval [Scalar.sqrtRe σ] z = ((Real.sqrt σ.re : ℝ) : ℂ) := by
    simp [polyEval_eq]
  have hval : ∀ h : ℂ, h = ((Real.sqrt σ.re : ℝ) : ℂ) / A →
      (((h * conj h).re : ℝ) : ℂ) = ((σ.re / Complex.normSq A : ℝ) : ℂ) := by
    intro h hh
    rw [hh, map_div₀, div_mul_div_comm, hs, Complex.mul_conj, ← Complex.ofReal_div, Complex.ofReal_re]
  have hget : (arPsd incl ak σ nFreqs onesided).getD k 0
      = (let h := polyEval [Scalar.sqrtRe σ] z / polyEval (Scalar.one :: ak.map Scalar.neg) z
         let p := (((h * conj h).re : ℝ) : ℂ)
         if onesided then (2 : ℂ) * p else p) := by
    simp only [arPsd, freqz, List.map_map, List.getD_eq_getElem?_getD, List.getElem?_map,
      List.getElem?_range hk, Option.map_some, Option.getD_some, Function.comp, gridPhasor_eq,
      sc_mul, sc_div, sc_re, sc_conj, sc_ofNat, Nat.cast_ofNat, ← hz]
  rw [hget]
  simp only [hb, polyEval_one_neg, ← hA]
  rw [hval _ rfl]
  cases onesided <;> simp

/-- the point count `freq_response` requests (generated from the source) is the documented one -/
theorem realN_spec (nFreqs : ℕ) (onesided : Bool) :
    realN nFreqs onesided = if onesided then nFreqs / 2 + 1 else nFreqs := rfl

/-- `freq_response` passes `whole = (sides != 'onesided')` (generated from the source) -/
theorem whole_spec : Nitime.Generated.FreqResponse.wholeIsNotOnesided = true := rfl

/-! ### ar_generator -/

lemma lfilter1_snoc (b0 : ℂ) (a v : List ℂ) (x : ℂ) :
    lfilter1 b0 a (v ++ [x]) = lfilter1 b0 a v ++
      [b0 * x - ∑ k ∈ range (min (lfilter1 b0 a v).length (a.length - 1)),
        a.getD (k + 1) 0 * (lfilter1 b0 a v).getD ((lfilter1 b0 a v).length - 1 - k) 0] := by
  simp [lfilter1, List.foldl_append, sumRange_eq]

lemma lfilter1_length (b0 : ℂ) (a v : List ℂ) : (lfilter1 b0 a v).length = v.length := by
  induction v using List.reverseRecOn with
  | nil => simp [lfilter1]
  | append_singleton v x ih => rw [lfilter1_snoc]; simp [ih]

/-- `lfilter([b0], a, v)` obeys its direct-form recursion at every sample -/
theorem lfilter1_recursion (b0 : ℂ) (a v : List ℂ) (n : ℕ) (hn : n < v.length) :
    (lfilter1 b0 a v).getD n 0 = b0 * v.getD n 0
      - ∑ k ∈ range (min n (a.length - 1)), a.getD (k + 1) 0 * (lfilter1 b0 a v).getD (n - 1 - k) 0 := by
  induction v using List.reverseRecOn with
  | nil => simp at hn
  | append_singleton v x ih =>
    rw [lfilter1_snoc]
    have hlen := lfilter1_length b0 a v
    set u := lfilter1 b0 a v with hu
    by_cases hlt : n < v.length
    · have h1 : ∀ m, m < v.length → (u ++ [b0 * x - ∑ k ∈ range (min u.length (a.length - 1)),
          a.getD (k + 1) 0 * u.getD (u.length - 1 - k) 0]).getD m 0 = u.getD m 0 := by
        intro m hm
        simp [List.getD_eq_getElem?_getD, List.getElem?_append, hlen, hm]
      rw [h1 n hlt, ih hlt]
      have h2 : (v ++ [x]).getD n 0 = v.getD n 0 := by
        simp [List.getD_eq_getElem?_getD, List.getElem?_append, hlt]
      rw [h2]
      congr 1
      refine sum_congr rfl fun k hk => ?_
      simp only [mem_range] at hk
      by_cases hn0 : n = 0
      · subst hn0; simp at hk
      · rw [h1 (n - 1 - k) (by omega)]
    · have hn' : n = v.length := by simp at hn; omega
      subst hn'
      have h1 : ∀ m, m < v.length → (u ++ [b0 * x - ∑ k ∈ range (min u.length (a.length - 1)),
          a.getD (k + 1) 0 * u.getD (u.length - 1 - k) 0]).getD m 0 = u.getD m 0 := by
        intro m hm
        simp [List.getD_eq_getElem?_getD, List.getElem?_append, hlen, hm]
      have h3 : (u ++ [b0 * x - ∑ k ∈ range (min u.length (a.length - 1)),
          a.getD (k + 1) 0 * u.getD (u.length - 1 - k) 0]).getD v.length 0
          = b0 * x - ∑ k ∈ range (min u.length (a.length - 1)),
            a.getD (k + 1) 0 * u.getD (u.length - 1 - k) 0 := by
        simp [List.getD_eq_getElem?_getD, List.getElem?_append, hlen]
      rw [h3, hlen]
      have h2 : (v ++ [x]).getD v.length 0 = x := by
        simp [List.getD_eq_getElem?_getD, List.getElem?_append]
      rw [h2]
      congr 1
      refine sum_congr rfl fun k hk => ?_
      simp only [mem_range] at hk
      by_cases hn0 : v.length = 0
      · rw [hn0] at hk; simp at hk
      · have h1' := h1 (v.length - 1 - k) (by omega)
        rw [hlen] at h1'
        rw [h1']

/-- **C10 simulator.** For every returned index `m ≥ P` (P = number of coefficients) the
output of `ar_generator` satisfies `u[m] = Σ_{k<P} coefs[k]·u[m−1−k] + sqrt(σ)·v[m]` on the
returned (transient-dropped) arrays. -/
theorem generator_recursion (σ : ℂ) (coefs v : List ℂ) (drop m : ℕ)
    (hm : coefs.length ≤ m) (hmv : drop + m < v.length) :
    (arGenerator σ coefs drop v).1.getD m 0
      = ∑ k ∈ range coefs.length, coefs.getD k 0 * (arGenerator σ coefs drop v).1.getD (m - 1 - k) 0
        + ((Real.sqrt σ.re : ℝ) : ℂ) * (arGenerator σ coefs drop v).2.getD m 0 := by
  have hdrop : ∀ (l : List ℂ) (j : ℕ), (l.drop drop).getD j 0 = l.getD (drop + j) 0 := by
    intro l j; simp [List.getD_eq_getElem?_getD]
  simp only [arGenerator, hdrop]
  rw [lfilter1_recursion _ _ _ _ hmv]
  have hmin : min (drop + m) ((Scalar.one :: coefs.map Scalar.neg).length - 1) = coefs.length := by
    simp; omega
  rw [hmin, sc_sqrtRe, sub_eq_add_neg, add_comm, ← Finset.sum_neg_distrib]
  congr 1
  refine sum_congr rfl fun k hk => ?_
  simp only [mem_range] at hk
  have e : drop + m - 1 - k = drop + (m - 1 - k) := by omega
  rw [e]
  simp only [List.getD_cons_succ, getD_map_neg]
  ring

/-! ### stability: Toeplitz form = Gram form ⇒ positive definite ⇒ σ_j > 0, |κ_j| < 1 ⇒ stable -/

lemma rr_eq_toepEntry (r : ℕ → ℂ) (k i : ℕ) : LD.rr r k i = toepEntry r k i := rfl

/-- bridge: the model's `toepForm` at `ℂ` is the Hermitian form `LD.tform` -/
lemma toepForm_eq (r : ℕ → ℂ) (p : ℕ) (c : ℕ → ℂ) : toepForm r p c = LD.tform r p c := by
  unfold toepForm LD.tform
  rw [sumRange_eq]
  refine sum_congr rfl fun k _ => ?_
  rw [sumRange_eq]
  refine sum_congr rfl fun i _ => ?_
  simp only [sc_mul, sc_conj, rr_eq_toepEntry]

lemma shiftSig_eq (x : ℕ → ℂ) (n t i : ℕ) : shiftSig x n t i = LD.shiftSig x n t i := rfl

lemma filtOut_eq (x : ℕ → ℂ) (n p : ℕ) (c : ℕ → ℂ) (t : ℕ) : filtOut x n p c t = LD.filt x n p c t := by
  unfold filtOut LD.filt
  rw [sumRange_eq]
  refine sum_congr rfl fun i _ => ?_
  simp only [sc_mul, shiftSig_eq]

/-- bridge: the model's `gramForm` at `ℂ` is `(1/n)·Σ_t |Σ_i c_i x[t−i]|²` -/
lemma gramForm_eq (x : ℕ → ℂ) (n p : ℕ) (c : ℕ → ℂ) :
    gramForm x n p c = (((∑ t ∈ range (n + p), Complex.normSq (LD.filt x n p c t)) / (n : ℝ) : ℝ) : ℂ) := by
  unfold gramForm
  rw [sumRange_eq]
  simp only [sc_div, sc_re, sc_mul, sc_conj, sc_ofNat, filtOut_eq, Complex.mul_conj, Complex.ofReal_re]
  push_cast
  rfl

lemma autocorr_eq_acorr (x : ℕ → ℂ) (N : ℕ) : (fun k => autocorrDirect x N k) = LD.acorr x N :=
  funext fun k => autocorr_is_lagged_sum x N k

/-- positive definiteness of `toeplitz(r[:p+1])`, stated with the model's `toepForm` -/
def ToepPD (r : ℕ → ℂ) (p : ℕ) : Prop :=
  ∀ c : ℕ → ℂ, (∃ i, i ≤ p ∧ c i ≠ 0) → 0 < (toepForm r p c).re

lemma toepPD_iff (r : ℕ → ℂ) (p : ℕ) : ToepPD r p ↔ LD.ToepPD r p := by
  unfold ToepPD LD.ToepPD
  simp only [toepForm_eq]

/-- **C10 Toeplitz form = Gram form (`autocorr_toeplitz_psd`).** For the biased sample autocorrelation
the code uses (`utils.autocorr`: `r_k = (1/N)·Σ_m x[m+k]·conj x[m]`), for EVERY signal, length, order
and coefficient vector: `cᴴ·toeplitz(r[:p+1])·c = (1/N)·Σ_{t<N+p} |Σ_{i≤p} c_i·x[t−i]|²` (x zero outside
`0..N−1`); it is therefore `≥ 0`, and `> 0` as soon as neither `x` nor `c` vanishes identically. -/
theorem autocorr_toeplitz_psd (x : ℕ → ℂ) (N p : ℕ) (c : ℕ → ℂ) :
    toepForm (fun k => autocorrDirect x N k) p c = gramForm x N p c ∧
    0 ≤ (toepForm (fun k => autocorrDirect x N k) p c).re ∧
    ((∃ m, m < N ∧ x m ≠ 0) → (∃ i, i ≤ p ∧ c i ≠ 0) →
      0 < (toepForm (fun k => autocorrDirect x N k) p c).re) := by
  rw [toepForm_eq, gramForm_eq, autocorr_eq_acorr]
  exact ⟨LD.tform_acorr_eq_gram x N p c, LD.tform_acorr_nonneg x N p c,
    fun hx hc => LD.acorr_toepPD x N hx p c hc⟩

/-- the Toeplitz matrix of the computed autocorrelation of a non-zero signal is positive definite,
at every order (also orders beyond the signal length) -/
theorem autocorr_toepPD (x : ℕ → ℂ) (N : ℕ) (hx : ∃ m, m < N ∧ x m ≠ 0) (p : ℕ) :
    ToepPD (fun k => autocorrDirect x N k) p :=
  fun c hc => (autocorr_toeplitz_psd x N p c).2.2 hx hc

lemma toepPD_le {p j : ℕ} (hj : j ≤ p) (h : ToepPD r p) : ToepPD r j :=
  (toepPD_iff r j).2 (LD.toepPD_mono hj ((toepPD_iff r p).1 h))

lemma predErrFilter_eq (l : List ℂ) : predErrFilter l = LD.predErr (coef l) := by
  funext i
  simp [predErrFilter, LD.predErr, coef]

/-- **C10 positive definite ⇒ σ_j > 0, divisors ≠ 0, |κ_j| < 1 (`ld_sigma_pos_of_toeplitz_pd`).**
If `toeplitz(r[:p+2])` is positive definite (then so are all its leading blocks), the order-`(p+1)`
run of `AR_est_LD` never divides by zero (`DivisorsOK` is discharged), the error power reported at
every intermediate order `1..p+1` is strictly positive, and every reflection coefficient has
modulus `< 1`. -/
theorem ld_sigma_pos_of_toeplitz_pd (h0 : conj (r 0) = r 0) (p : ℕ) (hpd : ToepPD r (p + 1)) :
    DivisorsOK r p ∧
    (∀ j ∈ Icc 1 (p + 1), 0 < ((arLD r j).2).re) ∧
    (∀ j ∈ Icc 1 (p + 1), Complex.normSq (kappaM r j) < 1) := by
  have hpd' : ∀ j, j ≤ p + 1 → LD.ToepPD r j := fun j hj => (toepPD_iff r j).1 (toepPD_le hj hpd)
  have hb := LD.ld_b_pos_of_pd h0 (p + 1) hpd'
  refine ⟨?_, ?_, ?_⟩
  · intro j hj
    rw [(ldLoop_spec h0 j).2.2.2]
    intro hz
    have := (hb j (by omega)).2
    rw [hz] at this
    simp at this
  · intro j hj
    simp only [mem_Icc] at hj
    obtain ⟨q, rfl⟩ : ∃ q, j = q + 1 := ⟨j - 1, by omega⟩
    rw [(arLD_is_ld h0 q).2]
    exact (hb (q + 1) (by omega)).2
  · intro j hj
    simp only [mem_Icc] at hj
    obtain ⟨q, rfl⟩ : ∃ q, j = q + 1 := ⟨j - 1, by omega⟩
    have := LD.kap_lt_one_of_pd h0 (p + 1) hpd' q (by omega)
    rwa [kappaM, (ldLoop_spec h0 q).2.2.1, LD.ld_succ_a_top]

/-- **C10 σ is the Toeplitz form at the prediction-error filter.**
`sigma = cᴴ·toeplitz(r[:p+2])·c` with `c = [1, −a_1, …, −a_{p+1}]`. -/
theorem arLD_sigma_is_form (h0 : conj (r 0) = r 0) (p : ℕ) (hd : DivisorsOK r p) :
    (arLD r (p + 1)).2 = toepForm r (p + 1) (predErrFilter (arLD r (p + 1)).1) := by
  rw [toepForm_eq, predErrFilter_eq, ← LD.err_eq_tform (arLD_solves_YW h0 p hd), (arLD_sigma h0 p hd).1]
  rfl

/-- **C10 stability from a positive-definite autocorrelation (supplied `rxx`).** If
`toeplitz(r[:p+2])` is positive definite and `r_0` is real, `AR_est_LD(·, p+1, rxx=r)` solves the
Yule–Walker equations, reports `σ = R(0) − Σ a_k conj R(k)`, real and `> 0`, and the fitted model is
stable: every zero of `z^{p+1} − Σ a_i z^{p+1−i}` lies strictly inside the unit circle.  No
hypothesis about divisors or reflection coefficients is left. -/
theorem arLD_stable_of_pd (h0 : conj (r 0) = r 0) (p : ℕ) (hpd : ToepPD r (p + 1)) :
    LD.YW r (p + 1) (coef (arLD r (p + 1)).1) ∧
    (arLD r (p + 1)).2 = r 0 - ∑ i ∈ Icc 1 (p + 1), coef (arLD r (p + 1)).1 i * conj (r i) ∧
    conj (arLD r (p + 1)).2 = (arLD r (p + 1)).2 ∧
    0 < ((arLD r (p + 1)).2).re ∧
    ∀ z : ℂ, 1 ≤ Complex.normSq z →
      z ^ (p + 1) - ∑ i ∈ Icc 1 (p + 1), coef (arLD r (p + 1)).1 i * z ^ (p + 1 - i) ≠ 0 := by
  obtain ⟨hd, hs, hk⟩ := ld_sigma_pos_of_toeplitz_pd h0 p hpd
  exact ⟨arLD_solves_YW h0 p hd, (arLD_sigma h0 p hd).1, (arLD_sigma h0 p hd).2,
    hs (p + 1) (by simp only [mem_Icc]; omega), fun z hz => arLD_stable h0 p hk z hz⟩

/-- **C10 stability, computed-autocorrelation path (`arLD_stable_of_signal`).** For EVERY signal `x`
of length `N` that is not identically zero and EVERY order `p+1 ≥ 1`, `AR_est_LD(x, p+1)` (which uses
the biased `utils.autocorr`) never divides by zero, solves the Yule–Walker equations of the data,
reports a real `σ = R(0) − Σ a_k conj R(k) > 0`, and returns a STABLE model (all roots strictly
inside the unit circle). -/
theorem arLD_stable_of_signal (x : ℕ → ℂ) (N : ℕ) (hx : ∃ m, m < N ∧ x m ≠ 0) (p : ℕ) :
    DivisorsOK (fun k => autocorrDirect x N k) p ∧
    LD.YW (fun k => autocorrDirect x N k) (p + 1) (coef (arLD (fun k => autocorrDirect x N k) (p + 1)).1) ∧
    (arLD (fun k => autocorrDirect x N k) (p + 1)).2
      = autocorrDirect x N 0 - ∑ i ∈ Icc 1 (p + 1),
          coef (arLD (fun k => autocorrDirect x N k) (p + 1)).1 i * conj (autocorrDirect x N i) ∧
    conj (arLD (fun k => autocorrDirect x N k) (p + 1)).2 = (arLD (fun k => autocorrDirect x N k) (p + 1)).2 ∧
    0 < ((arLD (fun k => autocorrDirect x N k) (p + 1)).2).re ∧
    ∀ z : ℂ, 1 ≤ Complex.normSq z →
      z ^ (p + 1) - ∑ i ∈ Icc 1 (p + 1),
        coef (arLD (fun k => autocorrDirect x N k) (p + 1)).1 i * z ^ (p + 1 - i) ≠ 0 := by
  have h0 : conj ((fun k => autocorrDirect x N k) 0) = (fun k => autocorrDirect x N k) 0 :=
    autocorr_zero_real x N
  have hpd := autocorr_toepPD x N hx (p + 1)
  exact ⟨(ld_sigma_pos_of_toeplitz_pd h0 p hpd).1, arLD_stable_of_pd h0 p hpd⟩

/-- positive definite ⇒ non-singular: `det toeplitz(r[:p+1]) ≠ 0` -/
theorem toepMatrix_det_ne_zero_of_pd {p : ℕ} (hpd : ToepPD r p) : (toepMatrix r (p + 1)).det ≠ 0 := by
  intro hdet
  obtain ⟨v, hv, hTv⟩ := Matrix.exists_mulVec_eq_zero_iff.mpr hdet
  set c : ℕ → ℂ := fun i => if h : i < p + 1 then v ⟨i, h⟩ else 0 with hc
  have hcv : ∀ i : Fin (p + 1), c i = v i := fun i => by
    simp only [hc, dif_pos i.2]
  have hne : ∃ i, i ≤ p ∧ c i ≠ 0 := by
    by_contra hall
    apply hv
    funext i
    by_contra hi
    exact hall ⟨i, by have := i.2; omega, by rwa [hcv i]⟩
  have hz : toepForm r p c = 0 := by
    rw [toepForm_eq]
    unfold LD.tform
    refine sum_eq_zero fun k hk => ?_
    simp only [mem_range] at hk
    have hrow : ∑ i ∈ range (p + 1), toepEntry r k i * c i = 0 := by
      have := congrFun hTv ⟨k, hk⟩
      simp only [Matrix.mulVec, dotProduct, toepMatrix, Matrix.of_apply, Pi.zero_apply] at this
      rw [← this, ← Fin.sum_univ_eq_sum_range (fun i => toepEntry r k i * c i) (p + 1)]
      refine sum_congr rfl fun i _ => ?_
      rw [hcv i]
    calc ∑ i ∈ range (p + 1), c i * conj (c k) * LD.rr r k i
        = conj (c k) * ∑ i ∈ range (p + 1), toepEntry r k i * c i := by
          rw [mul_sum]
          refine sum_congr rfl fun i _ => ?_
          rw [rr_eq_toepEntry]; ring
      _ = 0 := by rw [hrow, mul_zero]
  have := hpd c hne
  rw [hz] at this
  simp at this

/-- **C10 the two estimators agree, positive-definite case.** With a positive-definite
`toeplitz(r[:p+2])` neither `DivisorsOK` nor `det ≠ 0` needs to be assumed. -/
theorem arYW_eq_arLD_of_pd (h0 : conj (r 0) = r 0) (p : ℕ) (hpd : ToepPD r (p + 1))
    (solve : List (List ℂ) → List ℂ → List ℂ)
    (hsolve : IsSolution r (p + 1) (arYW solve r (p + 1)).1) :
    ∀ i, i < p + 1 → (arYW solve r (p + 1)).1.getD i 0 = (arLD r (p + 1)).1.getD i 0 :=
  arYW_eq_arLD h0 p (ld_sigma_pos_of_toeplitz_pd h0 p hpd).1
    (toepMatrix_det_ne_zero_of_pd (toepPD_le (by omega) hpd)) solve hsolve

/-- **C10 the two estimators agree on every non-zero signal** (computed autocorrelation), for any
`solve` that honours `T·a = y`; so `AR_est_YW`'s model is the stable one of `arLD_stable_of_signal`. -/
theorem arYW_eq_arLD_of_signal (x : ℕ → ℂ) (N : ℕ) (hx : ∃ m, m < N ∧ x m ≠ 0) (p : ℕ)
    (solve : List (List ℂ) → List ℂ → List ℂ)
    (hsolve : IsSolution (fun k => autocorrDirect x N k) (p + 1)
      (arYW solve (fun k => autocorrDirect x N k) (p + 1)).1) :
    ∀ i, i < p + 1 → (arYW solve (fun k => autocorrDirect x N k) (p + 1)).1.getD i 0
      = (arLD (fun k => autocorrDirect x N k) (p + 1)).1.getD i 0 :=
  arYW_eq_arLD_of_pd (autocorr_zero_real x N) p (autocorr_toepPD x N hx (p + 1)) solve hsolve

/-! ### the covariance helper with its keyword arguments -/

/-- `autocorr(x)` is `crosscov(x, x, debias=False, normalize=True)` -/
theorem autocovOpt_plain (x : ℕ → ℂ) (n k : ℕ) : autocovOpt false true x n k = autocorrDirect x n k := by
  simp [autocovOpt, autocorrDirect]

/-- **helper options.** `autocov` / `autocorr` with `debias`, `normalize`: the lagged sum of the (optionally)
mean-removed signal, (optionally) divided by `n` -/
theorem autocovOpt_formula (debias normalize : Bool) (x : ℕ → ℂ) (n k : ℕ) :
    autocovOpt debias normalize x n k
      = (∑ t ∈ range (n - k),
            (x (t + k) - (if debias then (∑ i ∈ range n, x i) / (n : ℂ) else 0))
              * conj (x t - (if debias then (∑ i ∈ range n, x i) / (n : ℂ) else 0)))
          / (if normalize then (n : ℂ) else 1) := by
  cases debias <;> cases normalize <;> simp [autocovOpt, meanSig, sumRange_eq]

/-- `all_lags=True`: entry `n−1+k` is lag `k`, entry `n−1−k` is its conjugate (lag `−k`) -/
theorem autocovAllLags_hermitian (debias normalize : Bool) (x : ℕ → ℂ) (n k : ℕ) (hk : k ≤ n - 1) (hk0 : 0 < k) :
    autocovAllLags debias normalize x n (n - 1 + k) = autocovOpt debias normalize x n k ∧
    autocovAllLags debias normalize x n (n - 1 - k) = conj (autocovOpt debias normalize x n k) := by
  constructor
  · have h : n - 1 ≤ n - 1 + k := by omega
    simp [autocovAllLags, h]
  · have h : ¬ n - 1 ≤ n - 1 - k := by omega
    have e : n - 1 - (n - 1 - k) = k := by omega
    simp [autocovAllLags, h, e]

/-! ### one `rxx` array handed to several estimator calls -/
section store

/-- the code's calls only read the array: any program returns, call by call, what that estimator returns on the
ORIGINAL array, and the array is unchanged afterwards -/
theorem runCalls_pure (solve : List (List ℂ) → List ℂ → List ℂ) (p : ℕ) (cs : List EstCall) (a : List ℂ) :
    runCalls solve p cs a = (cs.map fun c => callOut solve p c a, a) := by
  unfold runCalls
  induction cs with
  | nil => rfl
  | cons c cs ih => simp [runCallsWith, callPost, ih]

/-- **round 2 (L7): refused calls.** Any program of estimator calls with their own orders on ONE array — some of them refused
because the order exceeds the sequence (the code raises part-way) — returns, call by call, the outcome of that call on the ORIGINAL
array (`none` exactly for the refused ones), and the array is unchanged afterwards: a refused call leaves nothing behind and the
next successful call answers as on a fresh array. -/
theorem refused_calls_leave_array_unchanged (solve : List (List ℂ) → List ℂ → List ℂ) (cs : List (EstCall × ℕ)) (a : List ℂ) :
    runCallsE solve cs a = (cs.map fun c => callOutE solve c.1 c.2 a, a) := by
  induction cs with
  | nil => rfl
  | cons c cs ih => obtain ⟨c, p⟩ := c; simp [runCallsE, callPost, ih]

/-- a call is refused exactly when the sequence is too short for its order -/
theorem callOutE_none_iff (solve : List (List ℂ) → List ℂ → List ℂ) (c : EstCall) (p : ℕ) (a : List ℂ) :
    callOutE solve c p a = none ↔ a.length < p + 1 := by
  unfold callOutE; split <;> simp_all

/-- non-vacuity: a refused call between two accepted ones -/
example (solve : List (List ℂ) → List ℂ → List ℂ) :
    runCallsE solve [(.LD, 1), (.YW, 5), (.LD, 1)] [2, 1] =
      ([some (callOut solve 1 .LD [2, 1]), none, some (callOut solve 1 .LD [2, 1])], [2, 1]) := by
  rw [refused_calls_leave_array_unchanged]; simp [callOutE]

/-- the innovation variance `AR_est_YW` reports equals the one `AR_est_LD` reports (positive-definite sequence) -/
theorem arYW_sigma_eq_arLD {r : ℕ → ℂ} (h0 : conj (r 0) = r 0) (p : ℕ) (hpd : ToepPD r (p + 1))
    (solve : List (List ℂ) → List ℂ → List ℂ)
    (hsolve : IsSolution r (p + 1) (arYW solve r (p + 1)).1) :
    (arYW solve r (p + 1)).2 = (arLD r (p + 1)).2 := by
  have hco := arYW_eq_arLD_of_pd h0 p hpd solve hsolve
  obtain ⟨_, hs, hreal, _, _⟩ := arLD_stable_of_pd h0 p hpd
  rw [arYW_sigma]
  have hsum : ∑ i ∈ Icc 1 (p + 1), coef (arYW solve r (p + 1)).1 i * conj (r i)
      = ∑ i ∈ Icc 1 (p + 1), coef (arLD r (p + 1)).1 i * conj (r i) := by
    refine sum_congr rfl fun i hi => ?_
    have hi' := mem_Icc.mp hi
    have : coef (arYW solve r (p + 1)).1 i = coef (arLD r (p + 1)).1 i := by
      unfold coef
      exact hco (i - 1) (by omega)
    rw [this]
  rw [hsum, ← hs]
  -- a complex number equal to its conjugate is its real part
  have him : ((arLD r (p + 1)).2).im = 0 := by
    have := congrArg Complex.im hreal
    simp only [Complex.conj_im] at this
    linarith
  exact Complex.ext (by simp) (by simp [him])

/-- **C10 reuse of one autocorrelation array.** Hand the SAME array to `AR_est_LD` and `AR_est_YW` in any order,
any number of times (`rxx` positive definite, `solve` honouring `T·a = y`): every call of the program reports the
same innovation variance — the one `AR_est_LD` reports on the original array — and the array is left as it was. -/
theorem reuse_rxx_same_sigma (a : List ℂ) (h0 : conj (arrFn a 0) = arrFn a 0) (p : ℕ)
    (hpd : ToepPD (arrFn a) (p + 1)) (solve : List (List ℂ) → List ℂ → List ℂ)
    (hsolve : IsSolution (arrFn a) (p + 1) (arYW solve (arrFn a) (p + 1)).1) (cs : List EstCall) :
    (∀ out ∈ (runCalls solve (p + 1) cs a).1, out.2 = (arLD (arrFn a) (p + 1)).2) ∧
    (runCalls solve (p + 1) cs a).2 = a := by
  rw [runCalls_pure]
  refine ⟨?_, rfl⟩
  intro out hout
  simp only [List.mem_map] at hout
  obtain ⟨c, _, rfl⟩ := hout
  cases c with
  | LD => rfl
  | YW => exact arYW_sigma_eq_arLD h0 p hpd solve hsolve

/-- counter-model (seeded change C10-8): `AR_est_LD` normalises the view of the caller's array in place
(`rxx_m /= rxx_m[0]`), `AR_est_YW` is unchanged -/
noncomputable def callPostNormalising : EstCall → List ℂ → List ℂ
  | .LD, a => a.map fun z => z / a.getD 0 0
  | .YW, a => a

/-- `linalg.solve` for a 1×1 system -/
noncomputable def solve1 (T : List (List ℂ)) (y : List ℂ) : List ℂ := [y.getD 0 0 / (T.getD 0 []).getD 0 0]

/-- with the in-place normalisation the program `AR_est_LD(rxx); AR_est_YW(rxx)` on `rxx = [2, 1]` reports
`σ = 3/2` and then `σ = 3/4`: the second call sees `[1, 1/2]` -/
theorem reuse_rxx_inplace_counterexample :
    ((runCallsWith callPostNormalising solve1 1 [.LD, .YW] [2, 1]).1.map Prod.snd) = [3 / 2, 3 / 4] ∧
    (runCallsWith callPostNormalising solve1 1 [.LD, .YW] [2, 1]).2 = [1, 1 / 2] := by
  constructor
  · simp only [runCallsWith, callOut, callPostNormalising, arLD, ldLoop, ldInit, arYW, toeplitzH, toepEntry, arrFn,
      solve1, List.map, sumRange, List.range_succ, List.range_zero]
    simp
    constructor <;> (apply Complex.ext <;> norm_num)
  · simp [runCallsWith, callPostNormalising]

end store

/-! ### non-vacuity -/

/-- white noise `r = δ`: the divisors are non-zero, the hypotheses of the theorems are met -/
example : DivisorsOK (fun k => if k = 0 then (1 : ℂ) else 0) 0 := by
  intro j hj
  have : j = 0 := by omega
  subst this
  simp [ldLoop, ldInit]

example : IsSolution (fun k => if k = 0 then (1 : ℂ) else 0) 1 [0] := by
  intro k hk
  have : k = 0 := by omega
  subst this
  simp [toepEntry]

example : conj ((fun k => if k = 0 then (1 : ℂ) else 0) 0) = (fun k => if k = 0 then (1 : ℂ) else 0) 0 := by
  simp

/-- the unit impulse is a non-zero signal: `arLD_stable_of_signal` applies (white noise, `r = δ/1`) -/
example : ∃ m, m < 1 ∧ (fun k => if k = 0 then (1 : ℂ) else 0) m ≠ 0 := ⟨0, by omega, by simp⟩

/-- `ToepPD` is satisfiable: the identity matrix (`r = δ`) at order 0 -/
example : ToepPD (fun k => if k = 0 then (1 : ℂ) else 0) 0 := by
  intro c hc
  obtain ⟨i, hi, hci⟩ := hc
  have : i = 0 := by omega
  subst this
  rw [toepForm_eq]
  have : LD.tform (fun k => if k = 0 then (1 : ℂ) else 0) 0 c = c 0 * conj (c 0) := by
    simp [LD.tform, LD.rr]
  rw [this, Complex.mul_conj, Complex.ofReal_re]
  exact Complex.normSq_pos.mpr hci

end Nitime.C10.Props
