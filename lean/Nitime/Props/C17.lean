/-
C17 — property theorems: a uniform axis stays self-consistent through every history.

All statements are about the executable model `Nitime.C17` (Model/C17.lean) at configuration
`fixed` (the repaired behaviour); the `…_counterexample` theorems are about configuration
`current` (the unrepaired source) and exhibit, on a concrete history, the clause each recorded
defect breaks.
-/
import Nitime.Model.C17
import Nitime.Lemmas.C17

namespace Nitime.C17.Props
open Nitime Nitime.C17 Nitime.C17.Lemmas

/-- the attributes of `ax` (looked up in the object store) describe its samples exactly:
`t0` = first instant and `Δ` = common difference (`samples = [t0 + i·Δ | i < n]`),
`duration = n·Δ`, and the rate is the binary64 value the source computes from `Δ`
(`Frequency(1.0/(float(Δ)/factor))`, in some unit's arithmetic) -/
def AxisOK (store : List Int) (ax : Axis) : Prop :=
  ax.t0 < store.length ∧ ax.dt < store.length ∧ ax.dur < store.length ∧
  ax.samples = affine (sget store ax.t0) (sget store ax.dt) ax.samples.length ∧
  sget store ax.dur = (ax.samples.length : Int) * sget store ax.dt ∧
  (sget store ax.dt ≠ 0 → ∃ u, ax.rate = rateOf u (sget store ax.dt))

/-- the invariant: the axis operated on, and every original of an earlier copy, is described by
its own attributes -/
def Inv (s : State) : Prop := AxisOK s.store s.cur ∧ ∀ a ∈ s.kept, AxisOK s.store a

/-! ### frame: the store only grows -/
theorem axisOK_append {store : List Int} {ax : Axis} (l : List Int) (h : AxisOK store ax) :
    AxisOK (store ++ l) ax := by
  obtain ⟨h0, h1, h2, hs, hd, hr⟩ := h
  have e0 := sget_append store l _ h0
  have e1 := sget_append store l _ h1
  have e2 := sget_append store l _ h2
  refine ⟨?_, ?_, ?_, ?_, ?_, ?_⟩
  · simp; omega
  · simp; omega
  · simp; omega
  · rw [e0, e1]; exact hs
  · rw [e1, e2]; exact hd
  · rw [e1]; exact hr

theorem setSampling_spec (store samples : List Int) (u : TimeUnit) (r : Rat) (t0 dt : Int) :
    (setSampling store samples u r t0 dt).1 = store ++ [t0, dt, (samples.length : Int) * dt] ∧
    (setSampling store samples u r t0 dt).2.samples = samples ∧
    (setSampling store samples u r t0 dt).2.unit = u ∧
    sget (setSampling store samples u r t0 dt).1 (setSampling store samples u r t0 dt).2.t0 = t0 ∧
    sget (setSampling store samples u r t0 dt).1 (setSampling store samples u r t0 dt).2.dt = dt ∧
    sget (setSampling store samples u r t0 dt).1 (setSampling store samples u r t0 dt).2.dur
      = (samples.length : Int) * dt := by
  simp only [setSampling]
  exact ⟨rfl, rfl, rfl, sget_new0 _ _ _ _, sget_new1 _ _ _ _, sget_new2 _ _ _ _⟩

theorem setSampling_ok (store samples : List Int) (u : TimeUnit) (r : Rat) (t0 dt : Int)
    (hs : samples = affine t0 dt samples.length) :
    AxisOK (setSampling store samples u r t0 dt).1 (setSampling store samples u r t0 dt).2 := by
  obtain ⟨e1, e2, _, e4, e5, e6⟩ := setSampling_spec store samples u r t0 dt
  refine ⟨?_, ?_, ?_, ?_, ?_, ?_⟩
  · simp [setSampling]
  · simp [setSampling]
  · simp [setSampling]
  · rw [e4, e5, e2]; exact hs
  · rw [e5, e6, e2]
  · rw [e5]
    intro hdt
    refine ⟨u, ?_⟩
    simp [setSampling, hdt]

/-- replacing the current axis by a freshly described one keeps the invariant -/
theorem inv_setSampling {s : State} (h : Inv s) (samples : List Int) (u : TimeUnit) (r : Rat)
    (t0 dt : Int) (hs : samples = affine t0 dt samples.length) (kept : List Axis)
    (hk : ∀ a ∈ kept, a = s.cur ∨ a ∈ s.kept) :
    Inv { store := (setSampling s.store samples u r t0 dt).1,
          cur := (setSampling s.store samples u r t0 dt).2, kept := kept } := by
  refine ⟨setSampling_ok _ _ _ _ _ _ hs, ?_⟩
  intro a ha
  rw [(setSampling_spec s.store samples u r t0 dt).1]
  rcases hk a ha with rfl | hm
  · exact axisOK_append _ h.1
  · exact axisOK_append _ (h.2 a hm)

/-! ### the samples each operation produces are again affine -/
theorem shift_samples (t0 dt c : Int) (n : Nat) :
    (affine t0 dt n).map (· + c) = affine (t0 + c) dt n :=
  affine_map _ _ _ _ _ _ (fun i _ => by ring)

theorem ramp_samples (t0 dt v0 d sgn : Int) (n : Nat) :
    List.zipWith (fun x v => x + sgn * v) (affine t0 dt n) (affine v0 d n)
      = affine (t0 + sgn * v0) (dt + sgn * d) n :=
  affine_zipWith _ _ _ _ _ _ _ _ (fun i _ => by ring)

theorem mul_samples (t0 dt k : Int) (n : Nat) :
    (affine t0 dt n).map (· * k) = affine (t0 * k) (dt * k) n :=
  affine_map _ _ _ _ _ _ (fun i _ => by ring)

theorem div_samples (t0 dt k : Int) (n : Nat) (hk : k ≠ 0) (h0 : t0 % k = 0) (h1 : dt % k = 0) :
    (affine t0 dt n).map (· / k) = affine (t0 / k) (dt / k) n := by
  apply affine_map
  intro i _
  obtain ⟨a, rfl⟩ := Int.dvd_of_emod_eq_zero h0
  obtain ⟨b, rfl⟩ := Int.dvd_of_emod_eq_zero h1
  have e : k * a + (i : Int) * (k * b) = k * (a + (i : Int) * b) := by ring
  rw [e, Int.mul_ediv_cancel_left _ hk, Int.mul_ediv_cancel_left _ hk, Int.mul_ediv_cancel_left _ hk]

end Nitime.C17.Props
