/-
C17 — property theorems: a uniform axis stays self-consistent through every history.

All statements are about the executable model `Nitime.C17` (Model/C17.lean) at configuration
`fixed` (the repaired behaviour); the `…_counterexample` theorems are about configuration
`current` (the unrepaired source) and exhibit, on a concrete history, the clause each recorded
defect breaks.
-/
import Nitime.Model.C17
import Nitime.Lemmas.C17
import Nitime.Generated.C17Ops
import Nitime.Lemmas.C17Rate
import Nitime.Lemmas.C17Check

namespace Nitime.C17.Props
open Nitime Nitime.C17 Nitime.C17.Lemmas

/-- the attributes of `ax` (looked up in the object store) describe its samples exactly:
`t0` = first instant and `Δ` = common difference (`samples = [t0 + i·Δ | i < n]`),
`duration = n·Δ`, and the rate is the binary64 value the source computes from `Δ`
(`Frequency(1.0/(float(Δ)/factor))`, in some unit's arithmetic) -/
def AxisOK (store : List Int) (ax : Axis) : Prop :=
  ax.t0 < store.length ∧ ax.dt < store.length ∧ ax.dur < store.length ∧
  ax.samples = affine (sget store ax.t0) (sget store ax.dt) ax.samples.length ∧
  sget store ax.dur = (ax.samples.length : Int) * sget store ax.dt ∧
  (sget store ax.dt ≠ 0 → ∃ u, ax.rate = rateOf u (sget store ax.dt))

/-- the invariant: the axis operated on, and every original of an earlier copy, is described by
its own attributes -/
def Inv (s : State) : Prop := AxisOK s.store s.cur ∧ ∀ a ∈ s.kept, AxisOK s.store a

/-! ### frame: the store only grows -/
theorem axisOK_append {store : List Int} {ax : Axis} (l : List Int) (h : AxisOK store ax) :
    AxisOK (store ++ l) ax := by
  obtain ⟨h0, h1, h2, hs, hd, hr⟩ := h
  have e0 := sget_append store l _ h0
  have e1 := sget_append store l _ h1
  have e2 := sget_append store l _ h2
  refine ⟨?_, ?_, ?_, ?_, ?_, ?_⟩
  · rw [List.length_append]; exact Nat.lt_of_lt_of_le h0 (Nat.le_add_right _ _)
  · rw [List.length_append]; exact Nat.lt_of_lt_of_le h1 (Nat.le_add_right _ _)
  · rw [List.length_append]; exact Nat.lt_of_lt_of_le h2 (Nat.le_add_right _ _)
  · rw [e0, e1]; exact hs
  · rw [e1, e2]; exact hd
  · rw [e1]; exact hr

theorem setSampling_spec (store samples : List Int) (u : TimeUnit) (r : Rat) (t0 dt : Int) :
    (setSampling store samples u r t0 dt).1 = store ++ [t0, dt, (samples.length : Int) * dt] ∧
    (setSampling store samples u r t0 dt).2.samples = samples ∧
    (setSampling store samples u r t0 dt).2.unit = u ∧
    sget (setSampling store samples u r t0 dt).1 (setSampling store samples u r t0 dt).2.t0 = t0 ∧
    sget (setSampling store samples u r t0 dt).1 (setSampling store samples u r t0 dt).2.dt = dt ∧
    sget (setSampling store samples u r t0 dt).1 (setSampling store samples u r t0 dt).2.dur
      = (samples.length : Int) * dt := by
  refine ⟨rfl, rfl, rfl, ?_, ?_, ?_⟩
  · exact sget_new0 _ _ _ _
  · exact sget_new1 _ _ _ _
  · exact sget_new2 _ _ _ _

theorem setSampling_ok (store samples : List Int) (u : TimeUnit) (r : Rat) (t0 dt : Int)
    (hs : samples = affine t0 dt samples.length) :
    AxisOK (setSampling store samples u r t0 dt).1 (setSampling store samples u r t0 dt).2 := by
  obtain ⟨e1, e2, _, e4, e5, e6⟩ := setSampling_spec store samples u r t0 dt
  refine ⟨?_, ?_, ?_, ?_, ?_, ?_⟩
  · simp [setSampling]
  · simp [setSampling]
  · simp [setSampling]
  · rw [e4, e5, e2]; exact hs
  · rw [e5, e6, e2]
  · rw [e5]
    intro hdt
    refine ⟨u, ?_⟩
    simp [setSampling, hdt]

/-- replacing the current axis by a freshly described one keeps the invariant -/
theorem inv_setSampling {s : State} (h : Inv s) (samples : List Int) (u : TimeUnit) (r : Rat)
    (t0 dt : Int) (hs : samples = affine t0 dt samples.length) (kept : List Axis)
    (hk : ∀ a ∈ kept, a = s.cur ∨ a ∈ s.kept) :
    Inv { store := (setSampling s.store samples u r t0 dt).1,
          cur := (setSampling s.store samples u r t0 dt).2, kept := kept } := by
  refine ⟨setSampling_ok _ _ _ _ _ _ hs, ?_⟩
  intro a ha
  rw [(setSampling_spec s.store samples u r t0 dt).1]
  rcases hk a ha with rfl | hm
  · exact axisOK_append _ h.1
  · exact axisOK_append _ (h.2 a hm)

/-! ### the samples each operation produces are again affine -/
theorem shift_samples (t0 dt c : Int) (n : Nat) :
    (affine t0 dt n).map (· + c) = affine (t0 + c) dt n :=
  affine_map _ _ _ _ _ _ (fun i _ => by ring)

theorem ramp_samples (t0 dt v0 d sgn : Int) (n : Nat) :
    List.zipWith (fun x v => x + sgn * v) (affine t0 dt n) (affine v0 d n)
      = affine (t0 + sgn * v0) (dt + sgn * d) n :=
  affine_zipWith _ _ _ _ _ _ _ _ (fun i _ => by ring)

theorem mul_samples (t0 dt k : Int) (n : Nat) :
    (affine t0 dt n).map (· * k) = affine (t0 * k) (dt * k) n :=
  affine_map _ _ _ _ _ _ (fun i _ => by ring)

theorem div_samples (t0 dt k : Int) (n : Nat) (hk : k ≠ 0) (h0 : t0 % k = 0) (h1 : dt % k = 0) :
    (affine t0 dt n).map (· / k) = affine (t0 / k) (dt / k) n := by
  apply affine_map
  intro i _
  obtain ⟨a, rfl⟩ := Int.dvd_of_emod_eq_zero h0
  obtain ⟨b, rfl⟩ := Int.dvd_of_emod_eq_zero h1
  have e : k * a + (i : Int) * (k * b) = k * (a + (i : Int) * b) := by ring
  rw [e, Int.mul_ediv_cancel_left _ hk, Int.mul_ediv_cancel_left _ hk, Int.mul_ediv_cancel_left _ hk]


/-! ### one step: invariant, refinement, rejection — proved together per operation -/

/-- frame: attribute objects are never overwritten (the store only grows) and the originals of
earlier copies stay in the state -/
def Frame (s s' : State) : Prop :=
  (∃ l, s'.store = s.store ++ l) ∧ ∀ a ∈ s.kept, a ∈ s'.kept

theorem frame_refl (s : State) : Frame s s := ⟨⟨[], by simp⟩, fun _ ha => ha⟩

/-- what one step must satisfy -/
def StepOK (s : State) (op : Op) (r : State × Option Err) : Prop :=
  Inv r.1 ∧ abs r.1 = absStep (abs s) op ∧ (r.2 ≠ none → r.1 = s) ∧ Frame s r.1

theorem abs_unit (s : State) : (abs s).unit = s.cur.unit := rfl
theorem abs_n (s : State) : (abs s).n = s.cur.samples.length := rfl

/-- shifts and ramps, repaired behaviour -/
theorem shiftOp_fixed_spec (s : State) (h : Inv s) (sgn : Int) (vals : Option (List Int)) (v0 d : Int)
    (hv : ∀ vs, vals = some vs → vs = affine v0 d vs.length) (hd : vals = none → d = 0) :
    Inv (shiftOp fixed s sgn vals v0 d).1 ∧
    ((shiftOp fixed s sgn vals v0 d).2 = none →
      abs (shiftOp fixed s sgn vals v0 d).1
        = { abs s with t0 := (abs s).t0 + sgn * v0, dt := (abs s).dt + sgn * d }) ∧
    ((shiftOp fixed s sgn vals v0 d).2 ≠ none → (shiftOp fixed s sgn vals v0 d).1 = s) ∧
    ((shiftOp fixed s sgn vals v0 d).2 = none ↔
      (∀ vs, vals = some vs → vs.length = s.cur.samples.length) ∧
      collapses (sget s.store s.cur.dt) (sgn * d) = false) ∧
    Frame s (shiftOp fixed s sgn vals v0 d).1 := by
  obtain ⟨hcur, hkept⟩ := h
  have hsam := hcur.2.2.2.1
  cases vals with
  | none =>
    have hd0 : d = 0 := hd rfl
    subst hd0
    have hcz : collapses (sget s.store s.cur.dt) (sgn * 0) = false := by simp [collapses]
    have hs : s.cur.samples.map (· + sgn * v0)
        = affine (sget s.store s.cur.t0 + sgn * v0) (sget s.store s.cur.dt + sgn * 0)
            (s.cur.samples.map (· + sgn * v0)).length := by
      rw [List.length_map]
      conv_lhs => rw [hsam]
      rw [shift_samples]; simp
    have hI := inv_setSampling ⟨hcur, hkept⟩ _ s.cur.unit s.cur.rate _ _ hs s.kept (fun a ha => Or.inr ha)
    have hspec := setSampling_spec s.store (s.cur.samples.map (· + sgn * v0)) s.cur.unit s.cur.rate
      (sget s.store s.cur.t0 + sgn * v0) (sget s.store s.cur.dt + sgn * 0)
    simp only [shiftOp, fixed, Bool.false_eq_true, if_false, if_true, hcz]
    refine ⟨hI, ?_, ?_, ?_, ⟨⟨_, hspec.1⟩, fun a ha => ha⟩⟩
    · intro _
      simp only [abs]
      rw [hspec.2.2.2.1, hspec.2.2.2.2.1, hspec.2.1, hspec.2.2.1, List.length_map]
    · intro hne; exact absurd rfl hne
    · simp
  | some vs =>
    have hvs := hv vs rfl
    by_cases hfit : vs.length = s.cur.samples.length
    · have hb : (vs.length == s.cur.samples.length) = true := by simpa using hfit
      cases hcol : collapses (sget s.store s.cur.dt) (sgn * d) with
      | true =>
        simp only [shiftOp, fixed, Bool.false_eq_true, if_false, hb, if_true, hcol]
        refine ⟨⟨hcur, hkept⟩, ?_, ?_, ?_, frame_refl s⟩
        · intro hn; cases hn
        · intro _; trivial
        · constructor
          · intro hn; cases hn
          · intro hall; exact absurd hall.2 (by simp)
      | false =>
        have hs : List.zipWith (fun x v => x + sgn * v) s.cur.samples vs
            = affine (sget s.store s.cur.t0 + sgn * v0) (sget s.store s.cur.dt + sgn * d)
                (List.zipWith (fun x v => x + sgn * v) s.cur.samples vs).length := by
          rw [List.length_zipWith, hfit, Nat.min_self]
          conv_lhs => rw [hsam, hvs, hfit]
          exact ramp_samples _ _ _ _ _ _
        have hI := inv_setSampling ⟨hcur, hkept⟩ _ s.cur.unit s.cur.rate _ _ hs s.kept (fun a ha => Or.inr ha)
        have hspec := setSampling_spec s.store (List.zipWith (fun x v => x + sgn * v) s.cur.samples vs)
          s.cur.unit s.cur.rate (sget s.store s.cur.t0 + sgn * v0) (sget s.store s.cur.dt + sgn * d)
        simp only [shiftOp, fixed, Bool.false_eq_true, if_false, hb, if_true, hcol]
        refine ⟨hI, ?_, ?_, ?_, ⟨⟨_, hspec.1⟩, fun a ha => ha⟩⟩
        · intro _
          simp only [abs]
          rw [hspec.2.2.2.1, hspec.2.2.2.2.1, hspec.2.1, hspec.2.2.1, List.length_zipWith, hfit, Nat.min_self]
        · intro hne; exact absurd rfl hne
        · constructor
          · intro _; exact ⟨fun vs' hvs' => by cases hvs'; exact hfit, trivial⟩
          · intro _; trivial
    · have hb : (vs.length == s.cur.samples.length) = false := by simpa using hfit
      simp only [shiftOp, fixed, Bool.false_eq_true, if_false, hb]
      refine ⟨⟨hcur, hkept⟩, ?_, ?_, ?_, frame_refl s⟩
      · intro hn; cases hn
      · intro _; trivial
      · constructor
        · intro hn; cases hn
        · intro hall; exact absurd (hall.1 vs rfl) hfit

theorem abs_ext {a b : Abs} (h0 : a.t0 = b.t0) (h1 : a.dt = b.dt) (h2 : a.n = b.n) (h3 : a.unit = b.unit) :
    a = b := by
  cases a; cases b; simp_all

/-- a fresh triple of attribute objects with the values of the parent's -/
theorem fresh_attrs_ok {store : List Int} {ax : Axis} (h : AxisOK store ax) (samples : List Int)
    (u : TimeUnit) (hs : samples = affine (sget store ax.t0) (sget store ax.dt) samples.length)
    (hd : sget store ax.dur = (samples.length : Int) * sget store ax.dt) :
    AxisOK (store ++ [sget store ax.t0, sget store ax.dt, sget store ax.dur])
      { samples := samples, unit := u, t0 := store.length, dt := store.length + 1,
        dur := store.length + 2, rate := ax.rate } := by
  refine ⟨?_, ?_, ?_, ?_, ?_, ?_⟩
  · simp
  · simp
  · simp
  · show samples = affine (sget _ store.length) (sget _ (store.length + 1)) samples.length
    rw [sget_new0, sget_new1]; exact hs
  · show sget _ (store.length + 2) = (samples.length : Int) * sget _ (store.length + 1)
    rw [sget_new2, sget_new1]; exact hd
  · show sget _ (store.length + 1) ≠ 0 → ∃ u', ax.rate = rateOf u' (sget _ (store.length + 1))
    rw [sget_new1]; exact h.2.2.2.2.2

/-- a 1-d operand of two or more elements (uniformity check, length check, collapse check) -/
theorem rampOp_ok (s : State) (h : Inv s) (sgn : Int) (al : Bool) (x y : Int) (rest : List Int) :
    Inv (rampOp fixed s sgn al (x :: y :: rest)).1 ∧
    abs (rampOp fixed s sgn al (x :: y :: rest)).1 = absRamp (abs s) sgn (x :: y :: rest) ∧
    ((rampOp fixed s sgn al (x :: y :: rest)).2 ≠ none → (rampOp fixed s sgn al (x :: y :: rest)).1 = s) ∧
    Frame s (rampOp fixed s sgn al (x :: y :: rest)).1 := by
  cases hr : rampStep (x :: y :: rest) with
  | error e =>
    have : rampOp fixed s sgn al (x :: y :: rest) = (s, some e) := by simp only [rampOp, hr]
    rw [this]
    refine ⟨h, ?_, fun _ => rfl, frame_refl s⟩
    simp only [absRamp, hr]
  | ok d =>
    have : rampOp fixed s sgn al (x :: y :: rest)
        = shiftOp fixed s sgn (some (x :: y :: rest)) ((x :: y :: rest).headD 0) d := by
      simp only [rampOp, hr, fixed, Bool.false_and, Bool.false_eq_true, if_false]
    rw [this]
    have hro := rampStep_ok hr
    have hsp := shiftOp_fixed_spec s h sgn (some (x :: y :: rest)) ((x :: y :: rest).headD 0) d
      (by intro vs hvs; cases hvs; exact hro.1) (by intro hn; cases hn)
    refine ⟨hsp.1, ?_, hsp.2.2.1, hsp.2.2.2.2⟩
    by_cases hfit : (x :: y :: rest).length = s.cur.samples.length
    · cases hcol : collapses (sget s.store s.cur.dt) (sgn * d) with
      | false =>
        have hnone := hsp.2.2.2.1.mpr ⟨(by intro vs hvs; cases hvs; exact hfit), hcol⟩
        rw [hsp.2.1 hnone]
        have hcol' : collapses (abs s).dt (sgn * d) = false := hcol
        have hfit' : (x :: y :: rest).length = (abs s).n := hfit
        simp only [absRamp, hr, hfit', if_true, hcol', Bool.false_eq_true, if_false]
      | true =>
        have hsome : (shiftOp fixed s sgn (some (x :: y :: rest)) ((x :: y :: rest).headD 0) d).2 ≠ none := by
          intro hn
          have := (hsp.2.2.2.1.mp hn).2
          rw [hcol] at this
          cases this
        rw [hsp.2.2.1 hsome]
        have hcol' : collapses (abs s).dt (sgn * d) = true := hcol
        have hfit' : (x :: y :: rest).length = (abs s).n := hfit
        simp only [absRamp, hr, hfit', if_true, hcol']
    · have hsome : (shiftOp fixed s sgn (some (x :: y :: rest)) ((x :: y :: rest).headD 0) d).2 ≠ none := by
        intro hn; exact hfit ((hsp.2.2.2.1.mp hn).1 _ rfl)
      rw [hsp.2.2.1 hsome]
      have hfit' : ¬ (x :: y :: rest).length = (abs s).n := hfit
      simp only [absRamp, hr, hfit', if_false]

/-- any 1-d operand: empty (refused), one element (a shift), two or more (`rampOp_ok`) -/
theorem rampDispatch_ok (s : State) (h : Inv s) (sgn : Int) (al : Bool) (vals : List Int) :
    Inv (rampDispatch fixed s sgn al vals).1 ∧
    abs (rampDispatch fixed s sgn al vals).1 = absRamp (abs s) sgn vals ∧
    ((rampDispatch fixed s sgn al vals).2 ≠ none → (rampDispatch fixed s sgn al vals).1 = s) ∧
    Frame s (rampDispatch fixed s sgn al vals).1 := by
  match vals with
  | [] => exact ⟨h, rfl, fun _ => rfl, frame_refl s⟩
  | [v] =>
    have hsp := shiftOp_fixed_spec s h sgn none v 0 (by intro vs hvs; cases hvs) (fun _ => rfl)
    have hnone : (shiftOp fixed s sgn none v 0).2 = none :=
      hsp.2.2.2.1.mpr ⟨(by intro vs hvs; cases hvs), (by simp [collapses])⟩
    refine ⟨hsp.1, ?_, hsp.2.2.1, hsp.2.2.2.2⟩
    show abs (shiftOp fixed s sgn none v 0).1 = _
    rw [hsp.2.1 hnone]
    apply abs_ext <;> simp [absRamp]
  | x :: y :: rest => exact rampOp_ok s h sgn al x y rest

theorem abs_samples {s : State} (h : Inv s) : absSamples (abs s) = s.cur.samples := h.1.2.2.2.1.symm

theorem step_ok (s : State) (h : Inv s) (op : Op) : StepOK s op (step fixed s op) := by
  have hcur := h.1
  have hsam := hcur.2.2.2.1
  cases op with
  | addS v =>
    have hsp := shiftOp_fixed_spec s h 1 none (convScalar s.cur.unit v) 0 (by intro vs hvs; cases hvs) (fun _ => rfl)
    have hnone : (shiftOp fixed s 1 none (convScalar s.cur.unit v) 0).2 = none :=
      hsp.2.2.2.1.mpr ⟨(by intro vs hvs; cases hvs), (by simp [collapses])⟩
    refine ⟨hsp.1, ?_, hsp.2.2.1, hsp.2.2.2.2⟩
    show abs (shiftOp fixed s 1 none (convScalar s.cur.unit v) 0).1 = _
    rw [hsp.2.1 hnone]
    apply abs_ext <;> simp [absStep, abs_unit]
  | subS v =>
    have hsp := shiftOp_fixed_spec s h (-1) none (convScalar s.cur.unit v) 0 (by intro vs hvs; cases hvs) (fun _ => rfl)
    have hnone : (shiftOp fixed s (-1) none (convScalar s.cur.unit v) 0).2 = none :=
      hsp.2.2.2.1.mpr ⟨(by intro vs hvs; cases hvs), (by simp [collapses])⟩
    refine ⟨hsp.1, ?_, hsp.2.2.1, hsp.2.2.2.2⟩
    show abs (shiftOp fixed s (-1) none (convScalar s.cur.unit v) 0).1 = _
    rw [hsp.2.1 hnone]
    apply abs_ext <;> simp [absStep, abs_unit] <;> ring
  | addR r =>
    have hd := rampDispatch_ok s h 1 r.aliased (convRamp s.cur.unit s.cur.samples r)
    refine ⟨hd.1, ?_, hd.2.2.1, hd.2.2.2⟩
    show abs (rampDispatch fixed s 1 r.aliased (convRamp s.cur.unit s.cur.samples r)).1
      = absRamp (abs s) 1 (convRamp (abs s).unit (absSamples (abs s)) r)
    rw [abs_samples h, abs_unit]; exact hd.2.1
  | subR r =>
    have hd := rampDispatch_ok s h (-1) r.aliased (convRamp s.cur.unit s.cur.samples r)
    refine ⟨hd.1, ?_, hd.2.2.1, hd.2.2.2⟩
    show abs (rampDispatch fixed s (-1) r.aliased (convRamp s.cur.unit s.cur.samples r)).1
      = absRamp (abs s) (-1) (convRamp (abs s).unit (absSamples (abs s)) r)
    rw [abs_samples h, abs_unit]; exact hd.2.1
  | mul k =>
    by_cases hk : k = 0
    · have : step fixed s (.mul k) = (s, some .valueError) := by
        simp only [step, fixed, Bool.false_eq_true, if_false, hk, if_true]
      rw [this]
      refine ⟨h, ?_, fun _ => rfl, frame_refl s⟩
      simp only [absStep, hk, if_true]
    · have hs : s.cur.samples.map (· * k)
          = affine (sget s.store s.cur.t0 * k) (sget s.store s.cur.dt * k) (s.cur.samples.map (· * k)).length := by
        rw [List.length_map]
        conv_lhs => rw [hsam]
        exact mul_samples _ _ _ _
      have hI := inv_setSampling h _ s.cur.unit s.cur.rate _ _ hs s.kept (fun a ha => Or.inr ha)
      have hspec := setSampling_spec s.store (s.cur.samples.map (· * k)) s.cur.unit s.cur.rate
        (sget s.store s.cur.t0 * k) (sget s.store s.cur.dt * k)
      have : step fixed s (.mul k) =
          ({ s with store := (setSampling s.store (s.cur.samples.map (· * k)) s.cur.unit s.cur.rate
                (sget s.store s.cur.t0 * k) (sget s.store s.cur.dt * k)).1,
                    cur := (setSampling s.store (s.cur.samples.map (· * k)) s.cur.unit s.cur.rate
                (sget s.store s.cur.t0 * k) (sget s.store s.cur.dt * k)).2 }, none) := by
        simp only [step, fixed, Bool.false_eq_true, if_false, hk]
      rw [this]
      refine ⟨hI, ?_, fun hne => absurd rfl hne, ⟨⟨_, hspec.1⟩, fun a ha => ha⟩⟩
      simp only [absStep, hk, if_false]
      apply abs_ext
      · exact hspec.2.2.2.1
      · exact hspec.2.2.2.2.1
      · simp only [abs]; rw [hspec.2.1, List.length_map]
      · exact hspec.2.2.1
  | div k =>
    by_cases hk : k = 0 ∨ sget s.store s.cur.t0 % k ≠ 0 ∨ sget s.store s.cur.dt % k ≠ 0
    · have : step fixed s (.div k) = (s, some .valueError) := by
        simp only [step, fixed, Bool.false_eq_true, if_false, hk, if_true]
      rw [this]
      refine ⟨h, ?_, fun _ => rfl, frame_refl s⟩
      have hk' : k = 0 ∨ (abs s).t0 % k ≠ 0 ∨ (abs s).dt % k ≠ 0 := hk
      simp only [absStep, hk', if_true]
    · have hk0 : k ≠ 0 := fun e => hk (Or.inl e)
      have h0 : sget s.store s.cur.t0 % k = 0 := by
        by_contra hne; exact hk (Or.inr (Or.inl hne))
      have h1 : sget s.store s.cur.dt % k = 0 := by
        by_contra hne; exact hk (Or.inr (Or.inr hne))
      have hs : s.cur.samples.map (· / k)
          = affine (sget s.store s.cur.t0 / k) (sget s.store s.cur.dt / k) (s.cur.samples.map (· / k)).length := by
        rw [List.length_map]
        conv_lhs => rw [hsam]
        exact div_samples _ _ _ _ hk0 h0 h1
      have hI := inv_setSampling h _ s.cur.unit s.cur.rate _ _ hs s.kept (fun a ha => Or.inr ha)
      have hspec := setSampling_spec s.store (s.cur.samples.map (· / k)) s.cur.unit s.cur.rate
        (sget s.store s.cur.t0 / k) (sget s.store s.cur.dt / k)
      have : step fixed s (.div k) =
          ({ s with store := (setSampling s.store (s.cur.samples.map (· / k)) s.cur.unit s.cur.rate
                (sget s.store s.cur.t0 / k) (sget s.store s.cur.dt / k)).1,
                    cur := (setSampling s.store (s.cur.samples.map (· / k)) s.cur.unit s.cur.rate
                (sget s.store s.cur.t0 / k) (sget s.store s.cur.dt / k)).2 }, none) := by
        simp only [step, fixed, Bool.false_eq_true, if_false, hk]
      rw [this]
      refine ⟨hI, ?_, fun hne => absurd rfl hne, ⟨⟨_, hspec.1⟩, fun a ha => ha⟩⟩
      have hk' : ¬ (k = 0 ∨ (abs s).t0 % k ≠ 0 ∨ (abs s).dt % k ≠ 0) := hk
      simp only [absStep, hk', if_false]
      apply abs_ext
      · exact hspec.2.2.2.1
      · exact hspec.2.2.2.2.1
      · simp only [abs]; rw [hspec.2.1, List.length_map]
      · exact hspec.2.2.1
  | slice a b c =>
    by_cases hc : c = 0
    · have : step fixed s (.slice a b c) = (s, some .valueError) := by
        simp only [step, hc, if_true]
      rw [this]
      refine ⟨h, ?_, fun _ => rfl, frame_refl s⟩
      simp only [absStep, hc, if_true]
    · have hrange := sliceIndices_range s.cur.samples.length a b c hc
      have hs : sliceSamples s.cur.samples (sliceIndices s.cur.samples.length a b c).1 c (sliceIndices s.cur.samples.length a b c).2.2
          = affine (sget s.store s.cur.t0 + (sliceIndices s.cur.samples.length a b c).1 * sget s.store s.cur.dt)
              (sget s.store s.cur.dt * c)
              (sliceSamples s.cur.samples (sliceIndices s.cur.samples.length a b c).1 c (sliceIndices s.cur.samples.length a b c).2.2).length := by
        rw [sliceSamples_length]
        conv_lhs => rw [hsam]
        simp only [affine_length]
        exact sliceSamples_affine _ _ _ _ _ _ hrange
      have hI := inv_setSampling h _ s.cur.unit s.cur.rate _ _ hs (s.cur :: s.kept)
        (fun a ha => by rcases List.mem_cons.mp ha with rfl | hm; exact Or.inl rfl; exact Or.inr hm)
      have hspec := setSampling_spec s.store
        (sliceSamples s.cur.samples (sliceIndices s.cur.samples.length a b c).1 c (sliceIndices s.cur.samples.length a b c).2.2) s.cur.unit s.cur.rate
        (sget s.store s.cur.t0 + (sliceIndices s.cur.samples.length a b c).1 * sget s.store s.cur.dt) (sget s.store s.cur.dt * c)
      have : step fixed s (.slice a b c) =
          ({ store := (setSampling s.store
                (sliceSamples s.cur.samples (sliceIndices s.cur.samples.length a b c).1 c (sliceIndices s.cur.samples.length a b c).2.2) s.cur.unit s.cur.rate
                (sget s.store s.cur.t0 + (sliceIndices s.cur.samples.length a b c).1 * sget s.store s.cur.dt) (sget s.store s.cur.dt * c)).1,
                    cur := (setSampling s.store
                (sliceSamples s.cur.samples (sliceIndices s.cur.samples.length a b c).1 c (sliceIndices s.cur.samples.length a b c).2.2) s.cur.unit s.cur.rate
                (sget s.store s.cur.t0 + (sliceIndices s.cur.samples.length a b c).1 * sget s.store s.cur.dt) (sget s.store s.cur.dt * c)).2,
             kept := s.cur :: s.kept }, none) := by
        simp only [step, fixed, Bool.false_eq_true, if_false, hc]
      rw [this]
      refine ⟨hI, ?_, fun hne => absurd rfl hne, ⟨⟨_, hspec.1⟩, fun a ha => List.mem_cons_of_mem _ ha⟩⟩
      simp only [absStep, hc, if_false]
      apply abs_ext
      · exact hspec.2.2.2.1
      · exact hspec.2.2.2.2.1
      · simp only [abs]; rw [hspec.2.1, sliceSamples_length]
      · exact hspec.2.2.1
  | copy =>
    have : step fixed s .copy =
        ({ store := s.store ++ [sget s.store s.cur.t0, sget s.store s.cur.dt, sget s.store s.cur.dur],
           cur := { samples := s.cur.samples, unit := s.cur.unit, t0 := s.store.length,
                    dt := s.store.length + 1, dur := s.store.length + 2, rate := s.cur.rate },
           kept := s.cur :: s.kept }, none) := by
      simp only [step, inheritAttrs, fixed, Bool.false_eq_true, if_false]
    rw [this]
    refine ⟨⟨fresh_attrs_ok hcur s.cur.samples s.cur.unit hsam hcur.2.2.2.2.1, ?_⟩, ?_, fun hne => absurd rfl hne, ⟨⟨_, rfl⟩, fun a ha => List.mem_cons_of_mem _ ha⟩⟩
    · intro a ha
      rcases List.mem_cons.mp ha with rfl | hm
      · exact axisOK_append _ hcur
      · exact axisOK_append _ (h.2 a hm)
    · simp only [absStep]
      apply abs_ext
      · exact sget_new0 _ _ _ _
      · exact sget_new1 _ _ _ _
      · rfl
      · rfl
  | convert u =>
    have hlen : (affine (sget s.store s.cur.t0) (sget s.store s.cur.dt) s.cur.samples.length).length
        = s.cur.samples.length := affine_length _ _ _
    refine ⟨⟨?_, ?_⟩, ?_, fun hne => absurd rfl hne, ⟨⟨_, rfl⟩, fun a ha => List.mem_cons_of_mem _ ha⟩⟩
    · show AxisOK (s.store ++ [sget s.store s.cur.t0, sget s.store s.cur.dt,
          (s.cur.samples.length : Int) * sget s.store s.cur.dt])
        { samples := affine (sget s.store s.cur.t0) (sget s.store s.cur.dt) s.cur.samples.length,
          unit := u, t0 := s.store.length, dt := s.store.length + 1, dur := s.store.length + 2,
          rate := s.cur.rate }
      rw [← hcur.2.2.2.2.1]
      exact fresh_attrs_ok hcur _ u (by rw [hlen]) (by rw [hlen]; exact hcur.2.2.2.2.1)
    · intro a ha
      show AxisOK (s.store ++ _) a
      rcases List.mem_cons.mp ha with rfl | hm
      · exact axisOK_append _ hcur
      · exact axisOK_append _ (h.2 a hm)
    · show abs { store := s.store ++ [sget s.store s.cur.t0, sget s.store s.cur.dt,
          (s.cur.samples.length : Int) * sget s.store s.cur.dt], cur := _, kept := _ } = _
      simp only [absStep]
      apply abs_ext
      · exact sget_new0 _ _ _ _
      · exact sget_new1 _ _ _ _
      · exact hlen
      · rfl
  | setitem => exact ⟨h, rfl, fun _ => rfl, frame_refl s⟩


/-! ## The property theorems -/

/-- a freshly built axis satisfies the invariant -/
theorem init_inv (u : TimeUnit) (t0 dt : Int) (n : Nat) : Inv (initState u t0 dt n) := by
  refine ⟨⟨by simp [initState], by simp [initState], by simp [initState], ?_, ?_, ?_⟩, by simp [initState]⟩
  · simp [initState, sget, affine_length]
  · simp [initState, sget, affine_length]
  · intro _; exact ⟨u, by simp [initState, sget]⟩

/-- `step_inv`: every operation of the alphabet — accepted or refused — keeps the invariant -/
theorem step_inv {s : State} (h : Inv s) (op : Op) : Inv (step fixed s op).1 := (step_ok s h op).1

/-- `run_inv`: after ANY sequence of operations the attributes still describe the samples -/
theorem run_inv (ops : List Op) : ∀ {s : State}, Inv s → Inv (run fixed ops s) := by
  induction ops with
  | nil => intro s h; exact h
  | cons op rest ih => intro s h; exact ih (step_inv h op)

/-- `abs_commutes`: the concrete step refines the abstract `(t0, Δ, n, unit)` step -/
theorem abs_commutes {s : State} (h : Inv s) (op : Op) :
    abs (step fixed s op).1 = absStep (abs s) op := (step_ok s h op).2.1

/-- under the invariant the stored samples are exactly those of the abstract state -/
theorem samples_described {s : State} (h : Inv s) : s.cur.samples = absSamples (abs s) := h.1.2.2.2.1

/-- refinement along whole histories: attributes AND samples follow the abstract machine -/
theorem run_refines (ops : List Op) : ∀ {s : State}, Inv s →
    abs (run fixed ops s) = ops.foldl absStep (abs s) ∧
    (run fixed ops s).cur.samples = absSamples (ops.foldl absStep (abs s)) := by
  induction ops with
  | nil => intro s h; exact ⟨rfl, samples_described h⟩
  | cons op rest ih =>
    intro s h
    have := ih (step_inv h op)
    rw [abs_commutes h op] at this
    exact this

/-- the duration and the rate after any history, spelled out -/
theorem run_duration_rate (ops : List Op) {s : State} (h : Inv s) :
    let s' := run fixed ops s
    sget s'.store s'.cur.dur = (s'.cur.samples.length : Int) * sget s'.store s'.cur.dt ∧
    (sget s'.store s'.cur.dt ≠ 0 → ∃ u, s'.cur.rate = rateOf u (sget s'.store s'.cur.dt)) :=
  ⟨(run_inv ops h).1.2.2.2.2.1, (run_inv ops h).1.2.2.2.2.2⟩

/-- `rejected_ops_leave_unchanged`: an operation that raises leaves the whole state — samples,
attributes, originals of copies — exactly as it was -/
theorem rejected_ops_leave_unchanged {s : State} (h : Inv s) (op : Op)
    (hr : (step fixed s op).2 ≠ none) : (step fixed s op).1 = s := (step_ok s h op).2.2.1 hr

/-- element assignment is always refused -/
theorem setitem_rejected (s : State) : step fixed s .setitem = (s, some .valueError) := rfl

theorem two_of_diff {vals : List Int} {d : Int} {ds : List Int} (h : diff vals = d :: ds) :
    ∃ x y rest, vals = x :: y :: rest := by
  match vals, h with
  | [], h => simp [diff] at h
  | [_], h => simp [diff] at h
  | x :: y :: rest, _ => exact ⟨x, y, rest, rfl⟩

/-- adding or subtracting a 1-d operand whose increments are not constant is refused (ValueError) -/
theorem nonuniform_rejected (s : State) (r : Ramp) (d : Int) (ds : List Int)
    (hd : diff (convRamp s.cur.unit s.cur.samples r) = d :: ds) (hne : ∃ x ∈ ds, x ≠ d) :
    step fixed s (.addR r) = (s, some .valueError) ∧ step fixed s (.subR r) = (s, some .valueError) := by
  have hr := rampStep_nonuniform hd hne
  obtain ⟨x, y, rest, hv⟩ := two_of_diff hd
  constructor <;> simp only [step, hv, rampDispatch, fixed, Bool.false_eq_true, if_false, rampOp] <;>
    rw [hv] at hr <;> simp only [hr]

/-- a uniform 1-d operand (two or more elements) of the wrong length is refused and nothing changes -/
theorem wrong_length_rejected (s : State) (r : Ramp) (d : Int)
    (hr : rampStep (convRamp s.cur.unit s.cur.samples r) = .ok d)
    (hl : (convRamp s.cur.unit s.cur.samples r).length ≠ s.cur.samples.length) :
    step fixed s (.addR r) = (s, some .valueError) ∧ step fixed s (.subR r) = (s, some .valueError) := by
  have h2 := (rampStep_ok hr).2
  match hv : convRamp s.cur.unit s.cur.samples r, h2 with
  | x :: y :: rest, _ =>
    rw [hv] at hr hl
    have hb : ((x :: y :: rest).length == s.cur.samples.length) = false := by simpa using hl
    constructor <;>
      simp only [step, hv, rampDispatch, rampOp, hr, shiftOp, fixed, Bool.false_eq_true, if_false, hb,
        Bool.false_and]

/-- the operand may be the axis itself (or a view of it): the result is that of adding its values -/
theorem aliased_operand_by_value (s : State) :
    step fixed s (.addR .self) = step fixed s (.addR (.time s.cur.samples)) ∧
    step fixed s (.subR .self) = step fixed s (.subR (.time s.cur.samples)) := by
  constructor <;> simp [step, convRamp, rampDispatch, rampOp, fixed, Ramp.aliased]

/-- a 1-d operand with one element acts as the scalar shift by that element; an empty one is refused -/
theorem one_element_operand_is_shift (s : State) (v : Int) :
    step fixed s (.addR (.time [v])) = step fixed s (.addS (.time v)) ∧
    step fixed s (.subR (.time [v])) = step fixed s (.subS (.time v)) ∧
    step fixed s (.addR (.time [])) = (s, some .valueError) := by
  refine ⟨rfl, rfl, rfl⟩

/-- which operations are accepted: scalar shifts, copies, relabelling always; scaling by k ≠ 0;
division when it is exact; slices with a non-zero step -/
theorem accepted_ops (s : State) :
    (∀ v, (step fixed s (.addS v)).2 = none) ∧ (∀ v, (step fixed s (.subS v)).2 = none) ∧
    (∀ k, k ≠ 0 → (step fixed s (.mul k)).2 = none) ∧
    (∀ k, k ≠ 0 → sget s.store s.cur.t0 % k = 0 → sget s.store s.cur.dt % k = 0 → (step fixed s (.div k)).2 = none) ∧
    (∀ a b c, c ≠ 0 → (step fixed s (.slice a b c)).2 = none) ∧
    (step fixed s .copy).2 = none ∧ (∀ u, (step fixed s (.convert u)).2 = none) := by
  refine ⟨?_, ?_, ?_, ?_, ?_, rfl, fun _ => rfl⟩
  · intro v; simp [step, shiftOp, fixed, collapses]
  · intro v; simp [step, shiftOp, fixed, collapses]
  · intro k hk; simp [step, fixed, hk]
  · intro k hk h0 h1; simp [step, fixed, hk, h0, h1]
  · intro a b c hc; simp [step, fixed, hc]

/-- `lookup_after_ops` (state form): when the invariant holds and Δ ≠ 0 — increasing or decreasing
axis — looking up the i-th sample returns position i -/
theorem lookup_of_inv {s : State} (h : Inv s) (hdt : sget s.store s.cur.dt ≠ 0) (i : Nat)
    (hi : i < s.cur.samples.length) :
    indexAt fixed s.store s.cur (s.cur.samples.getD i 0) = .ok (i : Int) := by
  obtain ⟨_, _, _, hsam, hdur, _⟩ := h.1
  have hget : s.cur.samples.getD i 0 = sget s.store s.cur.t0 + (i : Int) * sget s.store s.cur.dt := by
    rw [hsam]; exact affine_getD _ _ _ _ hi
  rw [hget]
  have hi' : (i : Int) < (s.cur.samples.length : Int) := by exact_mod_cast hi
  have hsub : sget s.store s.cur.t0 + (i : Int) * sget s.store s.cur.dt - sget s.store s.cur.t0
      = (i : Int) * sget s.store s.cur.dt := by ring
  have hq : Int.fdiv ((i : Int) * sget s.store s.cur.dt) (sget s.store s.cur.dt) = (i : Int) := by
    rw [Int.fdiv_eq_ediv_of_dvd (Dvd.intro_left _ rfl)]
    exact Int.mul_ediv_cancel _ hdt
  simp only [indexAt, fixed, Bool.false_or, hdur]
  rcases lt_or_gt_of_ne hdt with hneg | hpos
  · -- decreasing axis: the span is (t0 + nΔ, t0]
    have hnp : ¬ (0 < sget s.store s.cur.dt) := by omega
    have h1 : (i : Int) * sget s.store s.cur.dt ≤ 0 :=
      Int.mul_nonpos_of_nonneg_of_nonpos (Int.natCast_nonneg i) (le_of_lt hneg)
    have h2 : (s.cur.samples.length : Int) * sget s.store s.cur.dt < (i : Int) * sget s.store s.cur.dt :=
      Int.mul_lt_mul_of_neg_right hi' hneg
    have hin : ¬ (sget s.store s.cur.t0 + (i : Int) * sget s.store s.cur.dt > sget s.store s.cur.t0 ∨
        sget s.store s.cur.t0 + (i : Int) * sget s.store s.cur.dt
          ≤ sget s.store s.cur.t0 + (s.cur.samples.length : Int) * sget s.store s.cur.dt) := by omega
    simp only [hnp, decide_false, Bool.false_eq_true, if_false, hin, hsub, hq]
  · have h1 : 0 ≤ (i : Int) * sget s.store s.cur.dt := Int.mul_nonneg (Int.natCast_nonneg i) (le_of_lt hpos)
    have h2 : (i : Int) * sget s.store s.cur.dt < (s.cur.samples.length : Int) * sget s.store s.cur.dt :=
      Int.mul_lt_mul_of_pos_right hi' hpos
    have hin : ¬ (sget s.store s.cur.t0 + (i : Int) * sget s.store s.cur.dt < sget s.store s.cur.t0 ∨
        sget s.store s.cur.t0 + (i : Int) * sget s.store s.cur.dt
          ≥ sget s.store s.cur.t0 + (s.cur.samples.length : Int) * sget s.store s.cur.dt) := by omega
    simp only [hpos, decide_true, if_true, hin, decide_false, Bool.false_eq_true, if_false, hsub, hq]

/-- an instant outside the span the axis covers is refused: before the first sample or at/after
`t0 + n·Δ` on an increasing axis, after the first sample or at/before `t0 + n·Δ` on a decreasing one -/
theorem lookup_refuses_outside {s : State} (h : Inv s) (t : Int) :
    (0 < sget s.store s.cur.dt →
      (t < sget s.store s.cur.t0 ∨ t ≥ sget s.store s.cur.t0 + (s.cur.samples.length : Int) * sget s.store s.cur.dt) →
      indexAt fixed s.store s.cur t = .error .valueError) ∧
    (sget s.store s.cur.dt < 0 →
      (t > sget s.store s.cur.t0 ∨ t ≤ sget s.store s.cur.t0 + (s.cur.samples.length : Int) * sget s.store s.cur.dt) →
      indexAt fixed s.store s.cur t = .error .valueError) := by
  have hdur := h.1.2.2.2.2.1
  constructor
  · intro hpos ht
    simp only [indexAt, fixed, Bool.false_or, hdur, hpos, decide_true, if_true, ht]
  · intro hneg ht
    have hnp : ¬ (0 < sget s.store s.cur.dt) := by omega
    simp only [indexAt, fixed, Bool.false_or, hdur, hnp, decide_false, Bool.false_eq_true, if_false, ht, decide_true,
      if_true]

/-- the originals of earlier copies are untouched by any operation on the current axis: they stay
in the state and every attribute object they point to keeps its value (samples, unit and rate
are stored by value in the `Axis` record itself) -/
theorem originals_untouched {s : State} (h : Inv s) (op : Op) (a : Axis) (ha : a ∈ s.kept) :
    a ∈ (step fixed s op).1.kept ∧
    sget (step fixed s op).1.store a.t0 = sget s.store a.t0 ∧
    sget (step fixed s op).1.store a.dt = sget s.store a.dt ∧
    sget (step fixed s op).1.store a.dur = sget s.store a.dur := by
  obtain ⟨⟨l, hl⟩, hk⟩ := (step_ok s h op).2.2.2
  obtain ⟨h0, h1, h2, _⟩ := h.2 a ha
  refine ⟨hk a ha, ?_, ?_, ?_⟩ <;> rw [hl] <;> apply sget_append <;> assumption

/-- a slice owns its samples: its parent stays in the state, so `originals_untouched` applies to it
(no operation on the slice can change the parent's attribute objects; its samples are held by value) -/
theorem slice_keeps_parent (s : State) (a b : Option Int) (c : Int) (hc : c ≠ 0) :
    (step fixed s (.slice a b c)).1.kept = s.cur :: s.kept := by
  simp only [step, fixed, Bool.false_eq_true, if_false, hc]

/-- a copy owns its attribute objects: none of its ids is an id of the original, and the original
is kept unchanged (`copy_shares_nothing_mutable`, axis part) -/
theorem copy_fresh_objects {s : State} (h : Inv s) :
    let s' := (step fixed s .copy).1
    s'.kept = s.cur :: s.kept ∧ s'.cur.samples = s.cur.samples ∧
    s.cur.t0 < s'.cur.t0 ∧ s.cur.dt < s'.cur.t0 ∧ s.cur.dur < s'.cur.t0 ∧
    s'.cur.t0 < s'.cur.dt ∧ s'.cur.dt < s'.cur.dur := by
  obtain ⟨h0, h1, h2, _⟩ := h.1
  exact ⟨rfl, rfl, h0, h1, h2, Nat.lt_succ_self _, Nat.lt_succ_self _⟩

/-! ### the sampling interval never becomes zero, so the rate always describes it -/
theorem collapses_false_ne {dt dd : Int} (h : collapses dt dd = false) (hdt : dt ≠ 0) : dt + dd ≠ 0 := by
  simp only [collapses, Bool.and_eq_false_iff, bne_eq_false_iff_eq, beq_eq_false_iff_ne] at h
  rcases h with h | h
  · subst h; simpa using hdt
  · exact h

theorem absRamp_dt_ne_zero (a : Abs) (sgn : Int) (vals : List Int) (h : a.dt ≠ 0) :
    (absRamp a sgn vals).dt ≠ 0 := by
  match vals with
  | [] => exact h
  | [v] => exact h
  | x :: y :: rest =>
    simp only [absRamp]
    split
    · split_ifs with h1 h2
      · exact h
      · exact collapses_false_ne (by simpa using h2) h
      · exact h
    · exact h

theorem absStep_dt_ne_zero (a : Abs) (op : Op) (h : a.dt ≠ 0) : (absStep a op).dt ≠ 0 := by
  cases op with
  | addS v => exact h
  | subS v => exact h
  | addR r => exact absRamp_dt_ne_zero _ _ _ h
  | subR r => exact absRamp_dt_ne_zero _ _ _ h
  | mul k =>
    simp only [absStep]
    split_ifs with hk
    · exact h
    · exact Int.mul_ne_zero h hk
  | div k =>
    simp only [absStep]
    split_ifs with hk
    · exact h
    · have hk0 : k ≠ 0 := fun e => hk (Or.inl e)
      have h1 : a.dt % k = 0 := by
        by_contra hne; exact hk (Or.inr (Or.inr hne))
      show a.dt / k ≠ 0
      intro h0
      obtain ⟨b, hb⟩ := Int.dvd_of_emod_eq_zero h1
      rw [hb, Int.mul_ediv_cancel_left _ hk0] at h0
      apply h
      rw [hb, h0, Int.mul_zero]
  | slice x y c =>
    simp only [absStep]
    split_ifs with hc
    · exact h
    · exact Int.mul_ne_zero h hc
  | copy => exact h
  | convert u => exact h
  | setitem => exact h

/-- after any history from an axis with Δ ≠ 0 the interval is still non-zero … -/
theorem run_interval_nonzero (ops : List Op) : ∀ {s : State}, Inv s → sget s.store s.cur.dt ≠ 0 →
    sget (run fixed ops s).store (run fixed ops s).cur.dt ≠ 0 := by
  induction ops with
  | nil => intro s _ h0; exact h0
  | cons op rest ih =>
    intro s h h0
    apply ih (step_inv h op)
    have := abs_commutes h op
    have h1 : (abs (step fixed s op).1).dt ≠ 0 := by
      rw [this]; exact absStep_dt_ne_zero _ _ h0
    exact h1

/-- … hence the rate attribute is always the binary64 value the source computes from Δ -/
theorem run_rate_describes (ops : List Op) {s : State} (h : Inv s) (h0 : sget s.store s.cur.dt ≠ 0) :
    ∃ u, (run fixed ops s).cur.rate = rateOf u (sget (run fixed ops s).store (run fixed ops s).cur.dt) :=
  (run_inv ops h).1.2.2.2.2.2 (run_interval_nonzero ops h h0)

/-- `lookup_after_ops`: after ANY history, on an increasing or a decreasing axis (reversed slice,
scaling by a negative number), `index_at(axis[i]) = i` for every position -/
theorem lookup_after_ops (ops : List Op) {s : State} (h : Inv s) (h0 : sget s.store s.cur.dt ≠ 0) (i : Nat)
    (hi : i < (run fixed ops s).cur.samples.length) :
    indexAt fixed (run fixed ops s).store (run fixed ops s).cur ((run fixed ops s).cur.samples.getD i 0)
      = .ok (i : Int) :=
  lookup_of_inv (run_inv ops h) (run_interval_nonzero ops h h0) i hi

/-- **the sampling rate describes the samples numerically**: after ANY history from an axis with
Δ ≠ 0 the `sampling_rate` attribute is within 6·2⁻⁵³ relative (3 ulp: five binary64 roundings of
the source's formula) of the exact 10¹²/Δ Hz -/
theorem run_rate_within_3ulp (ops : List Op) {s : State} (h : Inv s) (h0 : sget s.store s.cur.dt ≠ 0) :
    |(run fixed ops s).cur.rate - 1000000000000 / ((sget (run fixed ops s).store (run fixed ops s).cur.dt : Int) : Rat)|
      ≤ |1000000000000 / ((sget (run fixed ops s).store (run fixed ops s).cur.dt : Int) : Rat)| * (6 * Rate.eps) := by
  obtain ⟨u, hu⟩ := run_rate_describes ops h h0
  rw [hu]
  exact Rate.rateOf_near u _ (run_interval_nonzero ops h h0)

/-- a ramp whose step cancels the interval is refused and nothing changes -/
theorem collapse_rejected (s : State) (r : Ramp) (d : Int)
    (hr : rampStep (convRamp s.cur.unit s.cur.samples r) = .ok d)
    (hl : (convRamp s.cur.unit s.cur.samples r).length = s.cur.samples.length) (hd : d ≠ 0) :
    (sget s.store s.cur.dt + d = 0 → step fixed s (.addR r) = (s, some .valueError)) ∧
    (sget s.store s.cur.dt - d = 0 → step fixed s (.subR r) = (s, some .valueError)) := by
  have h2 := (rampStep_ok hr).2
  match hv : convRamp s.cur.unit s.cur.samples r, h2 with
  | x :: y :: rest, _ =>
    rw [hv] at hr hl
    have hb : ((x :: y :: rest).length == s.cur.samples.length) = true := by simpa using hl
    constructor
    · intro h0
      have hc : collapses (sget s.store s.cur.dt) (1 * d) = true := by
        simp [collapses, hd, h0]
      simp only [step, hv, rampDispatch, rampOp, hr, shiftOp, fixed, Bool.false_eq_true, if_false, hb, if_true, hc,
        Bool.false_and]
    · intro h0
      have hc : collapses (sget s.store s.cur.dt) (-1 * d) = true := by
        simp only [collapses, Bool.and_eq_true, bne_iff_ne, beq_iff_eq]
        constructor <;> omega
      simp only [step, hv, rampDispatch, rampOp, hr, shiftOp, fixed, Bool.false_eq_true, if_false, hb, if_true, hc,
        Bool.false_and]

/-! ### the uniformity check as an exact integer predicate, for operands of every type -/

/-- what `_convert_and_check_uniformity` hands back for an accepted 1-d operand: its values — the
SAMPLES, whatever the type of the operand and whatever attributes it carries — and their exact
common difference -/
theorem check_ok_spec (u : TimeUnit) (self : List Int) (r : Ramp) (vs : List Int) (d : Int)
    (h : checkOperand u self r = .ok (vs, d)) :
    vs = convRamp u self r ∧ vs ≠ [] ∧ vs = affine (vs.headD 0) d vs.length := by
  unfold checkOperand at h
  split at h
  · cases h
  · rename_i v hv
    injection h with h
    injection h with h1 h2
    subst h1 h2
    exact ⟨hv.symm, by simp, by simp [affine_succ]⟩
  · rename_i x y rest hv
    cases hr : rampStep (x :: y :: rest) with
    | error e => rw [hr] at h; cases h
    | ok d' =>
      rw [hr] at h
      injection h with h
      injection h with h1 h2
      subst h1 h2
      exact ⟨hv.symm, by simp, (rampStep_ok hr).1⟩

/-- **accepted ⇔ exactly uniform**: the check accepts a 1-d operand iff it is not empty and its
values are an affine list — no tolerance, no trust in the operand's type -/
theorem check_accepts_iff_uniform (u : TimeUnit) (self : List Int) (r : Ramp) :
    (∃ p, checkOperand u self r = .ok p) ↔
      (convRamp u self r ≠ [] ∧
        ∃ c d, convRamp u self r = affine c d (convRamp u self r).length) := by
  unfold checkOperand
  split
  · rename_i hv
    simp [hv]
  · rename_i v hv
    rw [hv]
    refine ⟨fun _ => ⟨by simp, v, 0, by simp [affine_succ]⟩, fun _ => ⟨_, rfl⟩⟩
  · rename_i x y rest hv
    rw [hv]
    constructor
    · rintro ⟨p, hp⟩
      cases hr : rampStep (x :: y :: rest) with
      | error e => rw [hr] at hp; cases hp
      | ok d => exact ⟨by simp, _, d, (rampStep_ok hr).1⟩
    · rintro ⟨_, c, d, hcd⟩
      have h2 : 2 ≤ (x :: y :: rest).length := by simp
      have := rampStep_affine c d _ h2
      rw [← hcd] at this
      exact ⟨_, by rw [this]; rfl⟩

/-- the type of the operand and the attributes it carries play no role: a `UniformTime`-typed operand
is judged, added and subtracted by its samples -/
theorem typed_operand_by_samples (s : State) (c : Int) (ps : List Int) :
    checkOperand s.cur.unit s.cur.samples (.typed c ps) = checkOperand s.cur.unit s.cur.samples (.time ps) ∧
    step fixed s (.addR (.typed c ps)) = step fixed s (.addR (.time ps)) ∧
    step fixed s (.subR (.typed c ps)) = step fixed s (.subR (.time ps)) := ⟨rfl, rfl, rfl⟩

/-- `step` runs exactly this check: refused by the check ⇒ the operation is refused with that error
and nothing changes -/
theorem step_refuses_what_check_refuses (s : State) (r : Ramp) (e : Err)
    (h : checkOperand s.cur.unit s.cur.samples r = .error e) :
    step fixed s (.addR r) = (s, some e) ∧ step fixed s (.subR r) = (s, some e) := by
  unfold checkOperand at h
  split at h
  · rename_i hv
    injection h with h
    subst h
    constructor <;> simp only [step, hv, rampDispatch, fixed, Bool.false_eq_true, if_false]
  · cases h
  · rename_i x y rest hv
    cases hr : rampStep (x :: y :: rest) with
    | ok d => rw [hr] at h; cases h
    | error e' =>
      rw [hr] at h
      injection h with h
      subst h
      constructor <;> simp only [step, hv, rampDispatch, fixed, Bool.false_eq_true, if_false, rampOp, hr]

/-- a 1-d operand of two or more elements is accepted by `+=` (`sgn = 1`) / `-=` (`sgn = -1`) iff it
is EXACTLY uniform, has the length of the axis and does not cancel the sampling interval -/
theorem ramp_accepted_iff {s : State} (h : Inv s) (sgn : Int) (al : Bool) (vals : List Int)
    (h2 : 2 ≤ vals.length) :
    (rampDispatch fixed s sgn al vals).2 = none ↔
      ∃ d, vals = affine (vals.headD 0) d vals.length ∧ vals.length = s.cur.samples.length ∧
        collapses (sget s.store s.cur.dt) (sgn * d) = false := by
  match vals, h2 with
  | x :: y :: rest, h2 =>
    have hdisp : rampDispatch fixed s sgn al (x :: y :: rest) = rampOp fixed s sgn al (x :: y :: rest) := by
      simp only [rampDispatch, fixed, Bool.false_eq_true, if_false]
    rw [hdisp]
    cases hr : rampStep (x :: y :: rest) with
    | error e =>
      have : rampOp fixed s sgn al (x :: y :: rest) = (s, some e) := by simp only [rampOp, hr]
      rw [this]
      constructor
      · intro hn; cases hn
      · rintro ⟨d, hd, _, _⟩
        have := (rampStep_ok_iff _ d).mpr ⟨h2, hd⟩
        rw [hr] at this
        cases this
    | ok d =>
      have : rampOp fixed s sgn al (x :: y :: rest)
          = shiftOp fixed s sgn (some (x :: y :: rest)) ((x :: y :: rest).headD 0) d := by
        simp only [rampOp, hr, fixed, Bool.false_and, Bool.false_eq_true, if_false]
      rw [this]
      have hro := rampStep_ok hr
      have hsp := shiftOp_fixed_spec s h sgn (some (x :: y :: rest)) ((x :: y :: rest).headD 0) d
        (by intro vs hvs; cases hvs; exact hro.1) (by intro hn; cases hn)
      rw [hsp.2.2.2.1]
      constructor
      · rintro ⟨hl, hc⟩
        exact ⟨d, hro.1, hl _ rfl, hc⟩
      · rintro ⟨d', hd', hl, hc⟩
        have h' := (rampStep_ok_iff _ d').mpr ⟨h2, hd'⟩
        rw [hr] at h'
        injection h' with h'
        subst h'
        exact ⟨fun vs hvs => by cases hvs; exact hl, hc⟩

/-- why the check must be exact: whatever attributes one would write, the sum / difference of a
uniform axis and a NON-uniform operand of the same length is described by no `(t0, Δ)` -/
theorem nonuniform_operand_never_describable {s : State} (h : Inv s) (sgn : Int) (hs : sgn = 1 ∨ sgn = -1)
    (vals : List Int) (hl : vals.length = s.cur.samples.length)
    (hne : ¬ ∃ c d, vals = affine c d vals.length) :
    ¬ ∃ a b, List.zipWith (fun x v => x + sgn * v) s.cur.samples vals = affine a b s.cur.samples.length := by
  rintro ⟨a, b, hab⟩
  apply hne
  have hsam := h.1.2.2.2.1
  rw [hsam] at hab
  simp only [affine_length] at hab
  rw [← hl] at hab
  exact (zip_uniform_iff _ _ sgn hs vals).mp ⟨a, b, hab⟩

/-- VARIANT check with numpy's `isclose` tolerance: a ramp of ANY step `d`, |d| ≥ 10⁵ ps, with its
last element off by 1 ps is taken for uniform — the exact check refuses it -/
theorem tolerant_check_accepts_off_by_one (x d : Int) (hd : 100000 ≤ d.natAbs) :
    rampStepTol [x, x + d, x + 2 * d + 1] = .ok d ∧
    rampStep [x, x + d, x + 2 * d + 1] = .error .valueError := by
  have e1 : x + d - x = d := by omega
  have e2 : x + 2 * d + 1 - (x + d) = d + 1 := by omega
  have e3 : d + 1 - d = 1 := by omega
  constructor
  · simp only [rampStepTol, diff, e1, e2, e3, List.all_cons, List.all_nil, Bool.and_true]
    rw [if_pos]
    simp only [decide_eq_true_eq]
    show (1 : Int).natAbs * 100000000 ≤ 1 + 1000 * d.natAbs
    simp only [Int.natAbs_one]
    omega
  · simp only [rampStep, diff, e1, e2, List.all_cons, List.all_nil, Bool.and_true]
    rw [if_neg]
    simp only [beq_iff_eq]
    omega

/-- the instance of the seeded change: `[5, 1000006, 2000005]` ps -/
theorem tolerant_check_counterexample :
    rampStepTol [5, 1000006, 2000005] = .ok 1000001 ∧
    rampStep [5, 1000006, 2000005] = .error .valueError ∧
    (step fixed (initState .ps 0 2 3) (.addR (.time [5, 1000006, 2000005]))).2 = some .valueError := by decide

/-- VARIANT check that trusts the type: any `UniformTime`-typed operand of two or more elements is
accepted with the interval its attribute claims, whatever its samples -/
theorem trusting_check_accepts_anything (c : Int) (ps : List Int) (h : 2 ≤ ps.length) :
    rampStepTrusting (.typed c ps) ps = .ok c := by
  simp only [rampStepTrusting]
  rw [if_neg (by omega)]

/-- `u[[0,1,2,4,5,7]]` of the axis 1,3,…,15 (claimed interval 2): trusted by the variant, refused by
the check of the code, and the operation leaves the axis as it was -/
theorem trusting_check_counterexample :
    rampStepTrusting (.typed 2 [1, 3, 5, 9, 11, 15]) [1, 3, 5, 9, 11, 15] = .ok 2 ∧
    rampStep [1, 3, 5, 9, 11, 15] = .error .valueError ∧
    step fixed (initState .ps 0 3 6) (.addR (.typed 2 [1, 3, 5, 9, 11, 15]))
      = (initState .ps 0 3 6, some .valueError) :=
  ⟨by decide, by decide, (step_refuses_what_check_refuses (initState .ps 0 3 6) _ _ (by decide)).1⟩

/-! ### static tie: the op table of the model is the one the source states (translator artefact
`Generated/C17Ops.lean`, regenerated from nitime/timeseries.py on every run) -/
open Nitime.Generated.C17Ops in
/-- each conjunct pins one branch of `step fixed` / `indexAt fixed` to the text of the source:
`inheritAttrs` (attribute list, copied objects), `.setitem` (always refused), `.mul` (k = 0 refused
first), `.div` (the three refusal conditions), `shiftOp`/`rampOp` (convert+check → refuse collapse →
read the shift → numpy's operation → `_set_sampling`, for `+=` and `-=`), `rampDispatch` (one
element = shift), `indexAt` (both orientations).  A source edit that changes any of them makes this
theorem fail on the next run.  (`sliceCopies` joins the list once repair C17-13 is in the source.) -/
theorem static_op_table :
    finalizeAttrs = ["t0", "sampling_rate", "sampling_interval", "duration"] ∧ finalizeCopies = true ∧
    setitemAlwaysRaises = true ∧ imulRefusesZero = true ∧
    idivGuards = ["val == 0", "int(self.t0) % val", "int(self.sampling_interval) % val"] ∧
    iaddOrder = ["_convert_and_check_uniformity", "_refuse_collapse", "read-shift", "numpy-op", "_set_sampling"] ∧
    isubOrder = iaddOrder ∧ oneElementIsShift = true ∧ lookupBothOrientations = true ∧ sliceCopies = true ∧
    -- `checkOperand` / `rampStep`: the interval change of a 1-d operand is `dv[0]` of `np.diff(val)` and
    -- nothing else (no attribute of the operand besides dtype / astype / ndim is read, no branch on its
    -- type), and the breaks test is the exact `!=`
    checkOperandAttrs = ["astype", "dtype", "ndim"] ∧ checkHasattr = ["_conversion_factor", "ndim"] ∧
    checkIsinstance = [] ∧ checkDiffExpr = "np.diff(val)" ∧ checkBreaksExpr = "np.where(dv != dv[0])" ∧
    checkIntervalSources = ["0", "dv[0]"] := by decide

/-! ### non-vacuity -/
/-- a concrete history through every kind of operation (ms axis, t0 = 1 ms, Δ = 2 ms, n = 4) -/
def exampleOps : List Op :=
  [.addS (.int 3), .subR (.time [0, 1000000000, 2000000000, 3000000000]), .mul 2, .div 2,
   .slice (some 1) (some 4) 2, .copy, .addR (.ints [0, 1]), .convert .s, .setitem,
   .addR (.ints [0, 1, 3])]

example : Inv (run fixed exampleOps (initState .ms 1000000000 2000000000 4)) :=
  run_inv _ (init_inv _ _ _ _)

example : abs (run fixed exampleOps (initState .ms 1000000000 2000000000 4))
    = ⟨5000000000, 3000000000, 2, .s⟩ := by
  rw [(run_refines exampleOps (init_inv _ _ _ _)).1]
  decide

/-! ### the unrepaired source (`current`) breaks the invariant — one witness per recorded defect.
Initial axis: unit ps, t0 = 1, Δ = 2, n = 4 (samples 1,3,5,7). -/
def ax0 : State := initState .ps 1 2 4

/-- `+= 3` leaves `t0` at 1 while the first sample is 4 -/
theorem current_iadd_scalar_counterexample :
    let s := (step current ax0 (.addS (.int 3))).1
    sget s.store s.cur.t0 = 1 ∧ s.cur.samples = [4, 6, 8, 10] := by decide

/-- `-= ramp(step 1)` makes the samples 1,2,3,4 but the interval 3 (added instead of subtracted) -/
theorem current_isub_ramp_counterexample :
    let s := (step current ax0 (.subR (.ints [0, 1, 2, 3]))).1
    sget s.store s.cur.dt = 3 ∧ s.cur.samples = [1, 2, 3, 4] := by decide

/-- `+= ramp` leaves the duration at 8 although 4 samples are now 3 apart -/
theorem current_iadd_ramp_duration_counterexample :
    let s := (step current ax0 (.addR (.ints [0, 1, 2, 3]))).1
    sget s.store s.cur.dt = 3 ∧ sget s.store s.cur.dur = 8 ∧ s.cur.samples = [1, 4, 7, 10] := by decide

/-- `*= 2` leaves `t0` = 1 and duration = 8 while the samples are 2,6,10,14 -/
theorem current_imul_counterexample :
    let s := (step current ax0 (.mul 2)).1
    sget s.store s.cur.t0 = 1 ∧ sget s.store s.cur.dur = 8 ∧ sget s.store s.cur.dt = 4 ∧
    s.cur.samples = [2, 6, 10, 14] := by decide

/-- `/= 1` raises (AttributeError: `ndarray.__idiv__` does not exist) although it is exact -/
theorem current_idiv_counterexample :
    (step current ax0 (.div 1)).2 = some .attributeError ∧ (step fixed ax0 (.div 1)).2 = none := by decide

/-- the slice `[1:4:2]` holds 3,7 but reports t0 = 1, Δ = 2, duration 8 -/
theorem current_slice_counterexample :
    let s := (step current ax0 (.slice (some 1) (some 4) 2)).1
    s.cur.samples = [3, 7] ∧ sget s.store s.cur.t0 = 1 ∧ sget s.store s.cur.dt = 2 ∧
    sget s.store s.cur.dur = 8 := by decide

/-- `c = axis.copy(); c += ramp` changes the ORIGINAL's interval (shared attribute object) -/
theorem current_copy_shares_counterexample :
    let s := (run current [.copy, .addR (.ints [0, 1, 2, 3])] ax0)
    s.kept.map (fun a => (a.samples, sget s.store a.dt)) = [([1, 3, 5, 7], 3)] := by decide

/-- the unrepaired source accepts a ramp that cancels the interval: 4 coinciding samples, Δ = 0 -/
theorem current_collapse_counterexample :
    let r := step current ax0 (.subR (.ints [0, -2, -4, -6]))
    r.2 = some .zeroDivisionError ∧ sget r.1.store r.1.cur.dt = 0 := by decide

/-- a refused `+=` (uniform operand of the wrong length) has already changed the interval -/
theorem current_failed_op_counterexample :
    let r := step current ax0 (.addR (.ints [0, 1]))
    r.2 = some .valueError ∧ sget r.1.store r.1.cur.dt = 3 ∧ r.1.cur.samples = [1, 3, 5, 7] := by decide

/-- lookups go wrong after `+= 3` in the unrepaired model: the last sample is refused -/
theorem current_lookup_counterexample :
    let s := (step current ax0 (.addS (.int 3))).1
    indexAt current s.store s.cur 10 = .error .valueError ∧ indexAt current s.store s.cur 4 = .ok 1 := by decide

/-! ### /repo after the first eight repairs (`head8`) still broke three clauses -/
/-- `t += t` (the operand is the axis itself): samples 2,6,10,14 but t0 = 3 (the shift was read
after the in-place addition: 1 + 2·1) -/
theorem head8_aliased_counterexample :
    let s := (step head8 ax0 (.addR .self)).1
    s.cur.samples = [2, 6, 10, 14] ∧ sget s.store s.cur.t0 = 3 ∧
    sget (step fixed ax0 (.addR .self)).1.store (step fixed ax0 (.addR .self)).1.cur.t0 = 2 := by decide

/-- a 1-d operand with one element died in `dv[0]` (IndexError) instead of shifting -/
theorem head8_one_element_counterexample :
    (step head8 ax0 (.addR (.ints [5]))).2 = some .indexError ∧
    (step fixed ax0 (.addR (.ints [5]))).1.cur.samples = [6, 8, 10, 12] := by decide

/-- on the reversed axis `[::-1]` (7,5,3,1; Δ = −2) every lookup was refused -/
theorem head8_negative_interval_counterexample :
    let s := (step head8 ax0 (.slice none none (-1))).1
    s.cur.samples = [7, 5, 3, 1] ∧ sget s.store s.cur.dt = -2 ∧
    indexAt head8 s.store s.cur 5 = .error .valueError ∧ indexAt fixed s.store s.cur 5 = .ok 1 := by decide

end Nitime.C17.Props
