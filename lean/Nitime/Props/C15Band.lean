/-
C15 — theorems about the band selection of `FilterAnalyzer.filtered_fourier` (`Model/C15Band.lean`) and the generated
facts on the product sums of `CorrelationAnalyzer` (`Generated/BandSelect.lean`).

* `count_le`, `lt_count_iff`, `count_le_iff`   for a DOWN-CLOSED predicate (what `g k < v` and `g k ≤ v` are on a sorted
    grid) the count of the first n indices is the boundary: `k < count p n ↔ p k`.
* `range_select_eq_closed_band`   EVERY sorted grid over a linear order, every n, k < n, every lb, ub: the index range
    `[searchsorted(g, lb, 'left'), searchsorted(g, ub, 'right'))` contains k  ⇔  `lb ≤ g k ∧ g k ≤ ub`.
* `where_select_eq_closed_band`   today's form (null where `f < lb` or `f > ub`) keeps exactly the closed band;
  `where_eq_range`                both forms agree on every sorted grid.
* `right_side_at_lb_drops_bin_on_edge`   `side='right'` for lb keeps k ⇔ `lb < g k`: a bin ON lb is dropped (general), and
  `right_side_at_lb_counterexample` a concrete grid.
* `fourier_band_selection_pinned`  GENERATED: `filtered_fourier` contains exactly the two strict comparisons the model follows.
* `xcorr_sums_are_direct`          GENERATED: every product-summing call of correlation.py is `numpy.correlate(x, y, mode='full')`
    (the direct sum; no method switch), `xcorr_sites_enumerated`: there are two (xcorr, xcorr_norm).
-/
import Nitime.Model.C15Band
import Mathlib.Data.Nat.Basic

namespace Nitime.C15.Props

open Nitime.C15.Band

theorem count_le (p : Nat → Bool) : ∀ n, count p n ≤ n
  | 0 => Nat.le_refl 0
  | n + 1 => by
    have h := count_le p n
    simp only [count]
    split <;> omega

/-- for a down-closed predicate, the count is the boundary index -/
theorem lt_count_iff (p : Nat → Bool) (hdown : ∀ i j, i ≤ j → p j = true → p i = true) :
    ∀ n k, k < n → (k < count p n ↔ p k = true) := by
  intro n
  induction n with
  | zero => intro k hk; omega
  | succ n ih =>
    intro k hk
    simp only [count]
    by_cases hn : p n = true
    · have hall : ∀ i, i ≤ n → p i = true := fun i hi => hdown i n hi hn
      have hcn : count p n = n := by
        have h1 := count_le p n
        rcases Nat.eq_zero_or_pos n with h0 | hpos
        · omega
        · have := (ih (n - 1) (by omega)).mpr (hall (n - 1) (by omega))
          omega
      rw [hcn, if_pos hn]
      constructor
      · intro _; exact hall k (by omega)
      · intro _; omega
    · have hnf : p n = false := by
        cases h : p n with
        | true => exact absurd h hn
        | false => rfl
      rw [hnf]
      simp only [Bool.false_eq_true, if_false, Nat.add_zero]
      rcases Nat.lt_or_ge k n with h | h
      · exact ih k h
      · have hkn : k = n := by omega
        subst hkn
        have := count_le p k
        constructor
        · intro h'; omega
        · intro h'; rw [hnf] at h'; cases h'

theorem count_le_iff (p : Nat → Bool) (hdown : ∀ i j, i ≤ j → p j = true → p i = true) (n k : Nat) (hk : k < n) :
    count p n ≤ k ↔ p k = false := by
  have h := lt_count_iff p hdown n k hk
  constructor
  · intro hc
    cases hp : p k with
    | false => rfl
    | true => have := h.mpr hp; omega
  · intro hp
    by_cases hc : k < count p n
    · have := h.mp hc; rw [hp] at this; cases this
    · omega

section Sorted
variable {α : Type} [LinearOrder α]

/-- `searchsorted` with the order's own comparisons -/
def ss (side : Side) (g : Nat → α) (n : Nat) (v : α) : Nat :=
  searchsorted (fun a b => decide (a < b)) (fun a b => decide (a ≤ b)) side g n v

/-- the closed band as an index range on a sorted grid: left side for lb, right side for ub -/
theorem range_select_eq_closed_band (g : Nat → α) (hg : ∀ i j, i ≤ j → g i ≤ g j) (n k : Nat) (hk : k < n) (lb ub : α) :
    keepByRange (ss .left g n lb) (ss .right g n ub) k = true ↔ (lb ≤ g k ∧ g k ≤ ub) := by
  have hL := count_le_iff (fun k => decide (g k < lb))
    (fun i j hij h => by simp only [decide_eq_true_eq] at h ⊢; exact lt_of_le_of_lt (hg i j hij) h) n k hk
  have hR := lt_count_iff (fun k => decide (g k ≤ ub))
    (fun i j hij h => by simp only [decide_eq_true_eq] at h ⊢; exact le_trans (hg i j hij) h) n k hk
  simp only [decide_eq_false_iff_not, not_lt] at hL
  simp only [decide_eq_true_eq] at hR
  unfold keepByRange ss searchsorted
  rw [Bool.and_eq_true]
  exact and_congr (decide_eq_true_iff.trans hL) (decide_eq_true_iff.trans hR)

/-- today's form: null where `f < lb` or `f > ub` -/
theorem where_select_eq_closed_band (lb ub f : α) :
    keepByPred (fun a b => decide (a < b)) lb ub f = true ↔ (lb ≤ f ∧ f ≤ ub) := by
  simp [keepByPred, not_lt]

theorem where_eq_range (g : Nat → α) (hg : ∀ i j, i ≤ j → g i ≤ g j) (n k : Nat) (hk : k < n) (lb ub : α) :
    keepByPred (fun a b => decide (a < b)) lb ub (g k) = keepByRange (ss .left g n lb) (ss .right g n ub) k := by
  rw [Bool.eq_iff_iff, where_select_eq_closed_band, range_select_eq_closed_band g hg n k hk]

/-- `side='right'` for the LOWER edge keeps k iff `lb < g k`: a bin lying ON lb is dropped -/
theorem right_side_at_lb_drops_bin_on_edge (g : Nat → α) (hg : ∀ i j, i ≤ j → g i ≤ g j) (n k : Nat) (hk : k < n) (lb ub : α) :
    keepByRange (ss .right g n lb) (ss .right g n ub) k = true ↔ (lb < g k ∧ g k ≤ ub) := by
  have hL := count_le_iff (fun k => decide (g k ≤ lb))
    (fun i j hij h => by simp only [decide_eq_true_eq] at h ⊢; exact le_trans (hg i j hij) h) n k hk
  have hR := lt_count_iff (fun k => decide (g k ≤ ub))
    (fun i j hij h => by simp only [decide_eq_true_eq] at h ⊢; exact le_trans (hg i j hij) h) n k hk
  simp only [decide_eq_false_iff_not, not_le] at hL
  simp only [decide_eq_true_eq] at hR
  unfold keepByRange ss searchsorted
  rw [Bool.and_eq_true]
  exact and_congr (decide_eq_true_iff.trans hL) (decide_eq_true_iff.trans hR)

end Sorted

/-- grid 0,1,2,3 with lb = 1, ub = 2: the closed band keeps bin 1, the right/right range form drops it -/
theorem right_side_at_lb_counterexample :
    keepByRange (ss .right (fun k : Nat => k) 4 1) (ss .right (fun k : Nat => k) 4 2) 1 = false
    ∧ keepByRange (ss .left (fun k : Nat => k) 4 1) (ss .right (fun k : Nat => k) 4 2) 1 = true
    ∧ keepByPred (fun a b : Nat => decide (a < b)) 1 2 1 = true := by decide

/-- non-vacuity: a sorted grid with repeated values, edges on grid values -/
example : (List.range 5).map (fun k => keepByRange (ss .left (fun k : Nat => k / 2) 5 1) (ss .right (fun k : Nat => k / 2) 5 1) k)
    = [false, false, true, true, false] := by decide

/-- GENERATED: the selection inside `filtered_fourier` is the pair of strict comparisons the model follows -/
theorem fourier_band_selection_pinned : Nitime.Generated.BandSelect.fourierSelectors = pinnedSelectors := by decide

theorem band_code_vouched : codeVouched = true := by decide

/-- GENERATED: every product-summing call of correlation.py is the direct sum `numpy.correlate(x, y, mode='full')` -/
theorem xcorr_sums_are_direct :
    Nitime.Generated.BandSelect.correlateCalls.all (fun c => c.2.1 == "numpy.correlate" && c.2.2.1 == 2 && c.2.2.2 == "mode='full'") = true := by
  decide

theorem xcorr_sites_enumerated :
    Nitime.Generated.BandSelect.correlateCalls.map (·.1) = ["CorrelationAnalyzer.xcorr.0", "CorrelationAnalyzer.xcorr_norm.0"] := by decide

end Nitime.C15.Props
