/-
C16 — property theorems: operations never corrupt their operands, copies or inputs.

Statements are about the object-store model `Nitime.C16` (Model/C16.lean).  "Unchanged" always
means: the returned store equals the store passed in (every caller-owned array bit for bit).
The axis part of `copy_shares_nothing_mutable` (views / copies of a `UniformTime` own their
attribute objects; operations on a copy never reach the original) is proved in Props/C17
(`copy_fresh_objects`, `originals_untouched`) and re-exported here.
-/
import Nitime.Model.C16
import Nitime.Props.C17

namespace Nitime.C16.Props
open Nitime Nitime.C16

/-! ### operand conversion sites -/

/-- without the in-place flag no operand kind is touched by the conversion -/
theorem convertOperand_pure (st : Store) (f : Int) (v : Operand) :
    (convertOperand false st f v).1 = st := by
  cases v <;> simp [convertOperand]

/-- the values read do not depend on the flag (only the side effect does) -/
theorem convertOperand_values (b : Bool) (st : Store) (f : Int) (v : Operand) :
    (convertOperand b st f v).2 = (convertOperand false st f v).2 := by
  cases v <;> simp [convertOperand]

/-- `binop_preserves_operands`: `+ - r+ r- < <= > >= ==` on a time object leave every operand
kind (python scalar, list, int64 array, time object) — and every other caller-owned array —
unchanged, whether the operation succeeds or raises.  Holds for every configuration in which
`_convert_if_needed` is repaired, in particular for the source as it stands. -/
theorem binop_preserves_operands (cfg : Cfg) (h : cfg.binopInPlace = false) (st : Store)
    (self : C01.TVal) (op : BinOp) (v : Operand) : (binop cfg st self op v).1 = st := by
  simp only [binop, h]
  exact convertOperand_pure st _ v

theorem binop_current (st : Store) (self : C01.TVal) (op : BinOp) (v : Operand) :
    (binop current st self op v).1 = st := binop_preserves_operands current rfl st self op v

/-- the result of the operator is the C01 result (so C01's exactness theorems apply to it) -/
theorem binop_result_is_C01 (cfg : Cfg) (st : Store) (self : C01.TVal) (o : C01.ArithOp) (v : Operand)
    (t : C01.TVal) (h : C01.arith o self (toC01 st v) = .ok t) :
    (binop cfg st self (.ar o) v).2 = .time t := by
  simp only [binop, h]

/-- `failed_call_preserves_args`, element assignment: `t[a:b] = val` leaves `val` (and every other
array) unchanged on every path — success, shape mismatch, key out of range -/
theorem setItem_preserves_operand (st : Store) (self : C01.TVal) (a b : Nat) (v : Operand) :
    (setItem fixed st self a b v).1 = st := by
  have hst : ∀ cfg : Cfg, (setItem cfg st self a b v).1
      = (convertOperand cfg.setitemInPlace st (C17.factorOf self.unit) v).1 := by
    intro cfg
    simp only [setItem]
    split_ifs <;> rfl
  rw [hst]
  exact convertOperand_pure st _ v

/-- `failed_call_preserves_args`, uniformity check: the operand of `UniformTime += / -=` is
unchanged whether the check passes, refuses (non-uniform increments: ValueError) or cannot
index; an empty operand is refused, a one-element operand is a shift) -/
theorem checkUniform_preserves_operand (st : Store) (u : TimeUnit) (v : Operand) :
    (checkUniform fixed st u v).1 = st := by
  have hst : ∀ cfg : Cfg, (checkUniform cfg st u v).1
      = (convertOperand cfg.uniformInPlace st (C17.factorOf u) v).1 := by
    intro cfg
    simp only [checkUniform]
    split_ifs
    · rfl
    · split <;> rfl
  rw [hst]
  exact convertOperand_pure st _ v

/-- the source as it stands has this repair too -/
theorem checkUniform_current (st : Store) (u : TimeUnit) (v : Operand) :
    (checkUniform current st u v).1 = st := checkUniform_preserves_operand st u v

/-- what `checkUniform` answers for a 1-d int64 operand: an empty operand is refused, a one-element operand is a
shift (step 0), and from two elements on it is the C17 uniformity check `rampStep` of the scaled values -/
theorem checkUniform_result (st : Store) (u : TimeUnit) (id : Nat) :
    (checkUniform fixed st u (.arr64 id)).2 =
      (match (aget st id).map (· * C17.factorOf u) with
        | [] => .error .valueError
        | [_] => .ok 0
        | vals => C17.rampStep vals) := by
  simp only [checkUniform, fixed, convertOperand, Bool.false_eq_true, if_false]
  generalize (aget st id).map (· * C17.factorOf u) = vals
  rcases vals with _ | ⟨a, _ | ⟨b, l⟩⟩ <;> rfl

/-! ### `periodogram_csd` -/

/-- `csd_shape_restored_on_error` (and on success, and for non-contiguous input): the input's
shape and layout are as they were at every exit of the repaired routine -/
theorem csd_shape_restored_on_error (s : ArrMeta) (f : Fail) : (csd fixed s f).1 = s := by
  simp only [csd, fixed, Bool.false_eq_true, if_false]
  split_ifs <;> rfl

/-- the repaired routine raises only where the computation itself fails -/
theorem csd_fixed_outcome (s : ArrMeta) (f : Fail) :
    (csd fixed s f).2 = (if f = .compute then some .valueError else none) := by
  simp only [csd, fixed, Bool.false_eq_true, if_false]
  split_ifs <;> rfl

/-- the unrepaired routine does restore the shape when nothing raises … -/
theorem csd_current_partial (s : ArrMeta) : (csd current s .none).1 = s := by
  simp only [csd, current, if_true]
  split_ifs <;> first | rfl | contradiction

/-- … but leaves the caller's array flattened when the middle step raises -/
theorem csd_current_counterexample :
    csd current ⟨[2, 3, 8], true⟩ .compute = (⟨[6, 8], true⟩, some .valueError) ∧
    csd current ⟨[8], true⟩ .compute = (⟨[1, 8], true⟩, some .valueError) := by decide

/-- … and refuses non-contiguous 3-d input outright -/
theorem csd_current_noncontiguous_counterexample :
    (csd current ⟨[2, 3, 8], false⟩ .none).2 = some .attributeError ∧
    (csd fixed ⟨[2, 3, 8], false⟩ .none).2 = none := by decide

/-! ### time series -/
theorem aget_append_left (st l : Store) (i : Nat) (h : i < st.length) : aget (st ++ l) i = aget st i := by
  simp [aget, List.getD, List.getElem?_append_left h]

theorem aget_set_ne (st : Store) (i j : Nat) (v : List Int) (h : i ≠ j) : aget (st.set i v) j = aget st j := by
  simp [aget, List.getD, List.getElem?_set_ne h]

/-- `copy_shares_nothing_mutable` (series part): the copy's four objects are new (ids beyond the
old store), pairwise distinct, hold equal contents, and nothing that existed is modified -/
theorem seriesCopy_fresh (st : Store) (s : Series) :
    (∀ i ∈ (seriesCopy st s).2.ids, st.length ≤ i) ∧
    (seriesCopy st s).2.ids.Nodup ∧
    (∀ i, i < st.length → aget (seriesCopy st s).1 i = aget st i) ∧
    aget (seriesCopy st s).1 (seriesCopy st s).2.data = aget st s.data ∧
    aget (seriesCopy st s).1 (seriesCopy st s).2.t0 = aget st s.t0 ∧
    aget (seriesCopy st s).1 (seriesCopy st s).2.dt = aget st s.dt := by
  refine ⟨?_, ?_, ?_, ?_, ?_, ?_⟩
  · intro i hi
    simp [seriesCopy, Series.ids] at hi
    omega
  · simp [seriesCopy, Series.ids]
  · intro i hi; exact aget_append_left _ _ _ hi
  · simp [seriesCopy, aget, List.getD]
  · simp [seriesCopy, aget, List.getD]
  · simp [seriesCopy, aget, List.getD]

/-- any in-place operation on the copy leaves every object of the original (and every other
pre-existing array, e.g. the operand) unchanged -/
theorem copy_then_inplace_preserves_original (st : Store) (s : Series) (f : Int → Int → Int)
    (other : Nat) (i : Nat) (hi : i < st.length) :
    aget (seriesInplace (seriesCopy st s).1 f (seriesCopy st s).2 other) i = aget st i := by
  have hne : (seriesCopy st s).2.data ≠ i := by
    simp only [seriesCopy]; omega
  simp only [seriesInplace]
  rw [aget_set_ne _ _ _ _ hne]
  exact aget_append_left _ _ _ hi

/-- `series_arith_preserves`: `a + b`, `a - b`, `a * b`, `a / b` leave both operands (every
pre-existing object) unchanged; the result lives in new objects -/
theorem series_arith_preserves (st : Store) (f : Int → Int → Int) (s : Series) (other : Nat) :
    (∀ i, i < st.length → aget (seriesArith st f s other).1 i = aget st i) ∧
    (∀ i ∈ (seriesArith st f s other).2.ids, st.length ≤ i) := by
  constructor
  · intro i hi
    simp only [seriesArith, seriesCopy]
    rw [aget_append_left _ _ _ (by simp; omega)]
    exact aget_append_left _ _ _ hi
  · intro i hi
    simp [seriesArith, seriesCopy, Series.ids] at hi
    omega

/-- and the result's data is the element-wise operation on the operands' data -/
theorem series_arith_value (st : Store) (f : Int → Int → Int) (s : Series) (other : Nat)
    (ho : other < st.length) :
    aget (seriesArith st f s other).1 (seriesArith st f s other).2.data
      = List.zipWith f (aget st s.data) (aget st other) := by
  have h2 := aget_append_left st
    [aget st s.data, aget st s.t0, aget st s.dt, aget st s.info, timeContent st s] other ho
  simp only [seriesArith, seriesCopy]
  simp only [aget, List.getD] at h2 ⊢
  simp [h2]

/-- `series_arith_shares_nothing`: in BOTH lazily-initialised states of the operand (`.time` never
read: `s.time = none`; already read: `s.time = some i`), every object of the result of a copy or of
`+ - * /` — data, t0, interval, metadata AND its time axis — is new: its id lies beyond the old
store, so it is none of the operand's objects, and overwriting any of them (any in-place change
of the result) leaves every pre-existing object, the operand's cached axis included, unchanged -/
theorem series_arith_shares_nothing (st : Store) (f : Int → Int → Int) (s : Series) (other : Nat) :
    (∀ j ∈ (seriesCopy st s).2.ids, st.length ≤ j) ∧
    (∀ j ∈ (seriesArith st f s other).2.ids, st.length ≤ j) ∧
    ((seriesArith st f s other).2.time.isSome ∧ (seriesCopy st s).2.time.isSome) ∧
    (∀ j ∈ (seriesArith st f s other).2.ids, ∀ (v : List Int) (i : Nat), i < st.length →
      aget ((seriesArith st f s other).1.set j v) i = aget st i) := by
  refine ⟨(seriesCopy_fresh st s).1, (series_arith_preserves st f s other).2, ⟨rfl, rfl⟩, ?_⟩
  intro j hj v i hi
  have hge := (series_arith_preserves st f s other).2 j hj
  rw [aget_set_ne _ _ _ _ (by omega)]
  exact (series_arith_preserves st f s other).1 i hi

/-- the same statement spelled out for an operand whose `.time` HAS been read: the cached axis
object `i` of the operand is not the result's, and survives any change of the result -/
theorem series_time_read_not_shared (st : Store) (f : Int → Int → Int) (s : Series) (other i : Nat)
    (hs : s.time = some i) (hi : i < st.length) :
    (seriesArith st f s other).2.time ≠ some i ∧ (seriesCopy st s).2.time ≠ some i ∧
    aget (seriesCopy st s).1 ((seriesCopy st s).2.time.getD 0) = aget st i := by
  refine ⟨?_, ?_, ?_⟩
  · simp only [seriesArith, seriesCopy]; intro h; injection h with h; omega
  · simp only [seriesCopy]; intro h; injection h with h; omega
  · simp [seriesCopy, timeContent, hs, aget, List.getD]

/-- an in-place series operation writes the series' own data buffer and nothing else -/
theorem series_inplace_frame (st : Store) (f : Int → Int → Int) (s : Series) (other : Nat) (i : Nat)
    (h : i ≠ s.data) : aget (seriesInplace st f s other) i = aget st i :=
  aget_set_ne _ _ _ _ (Ne.symm h)

/-- `copy_shares_nothing_mutable`, axis part (from C17): a copy of an axis owns its attribute
objects and operations on it leave the original's objects as they were -/
theorem copy_shares_nothing_mutable_axis {s : C17.State} (h : C17.Props.Inv s) :
    (let s' := (C17.step C17.fixed s .copy).1
     s'.kept = s.cur :: s.kept ∧ s.cur.t0 < s'.cur.t0 ∧ s.cur.dt < s'.cur.t0 ∧ s.cur.dur < s'.cur.t0) ∧
    (∀ (op : C17.Op) (a : C17.Axis), a ∈ s.kept →
      C17.sget (C17.step C17.fixed s op).1.store a.t0 = C17.sget s.store a.t0 ∧
      C17.sget (C17.step C17.fixed s op).1.store a.dt = C17.sget s.store a.dt ∧
      C17.sget (C17.step C17.fixed s op).1.store a.dur = C17.sget s.store a.dur) := by
  refine ⟨?_, ?_⟩
  · have := C17.Props.copy_fresh_objects h
    exact ⟨this.1, this.2.2.1, this.2.2.2.1, this.2.2.2.2.1⟩
  · intro op a ha
    exact (C17.Props.originals_untouched h op a ha).2

/-! ### the unrepaired sites -/
/-- `t[0:2] = arr` with `t` in ns multiplies the caller's array by 1000 -/
theorem setItem_current_counterexample :
    (setItem current [[1, 2]] ⟨[0, 0, 0], .ns, false⟩ 0 2 (.arr64 0)).1 = [[1000, 2000]] ∧
    (setItem fixed [[1, 2]] ⟨[0, 0, 0], .ns, false⟩ 0 2 (.arr64 0)) = ([[1, 2]], some [1000, 2000, 0]) := by
  decide

/-- before the repair a non-uniform operand was scaled and then refused -/
theorem checkUniform_before_counterexample :
    checkUniform beforeFirstRepair [[0, 1, 3]] .ns (.arr64 0) = ([[0, 1000, 3000]], .error .valueError) ∧
    checkUniform fixed [[0, 1, 3]] .ns (.arr64 0) = ([[0, 1, 3]], .error .valueError) := by
  decide

/-- before commit 38397b6 `t + arr` scaled `arr` -/
theorem binop_before_counterexample :
    (binop beforeFirstRepair [[1, 2]] ⟨[5, 5], .ns, false⟩ (.ar .add) (.arr64 0)).1 = [[1000, 2000]] := by
  decide

/-! ### non-vacuity -/
example : (binop current [[1, 2], [7]] ⟨[5, 5], .ns, false⟩ (.ar .add) (.arr64 0))
    = ([[1, 2], [7]], .time ⟨[1005, 2005], .ns, false⟩) := by decide

example : (seriesArith [[1, 2], [0], [1], [7], [10, 20]] (· + ·) ⟨0, 1, 2, 3, none⟩ 4).1.getD 10 [] = [11, 22] := by
  decide

end Nitime.C16.Props
