/-
C16 — property theorems: operations never corrupt their operands, copies or inputs.

Statements are about the object-store model `Nitime.C16` (Model/C16.lean).  "Unchanged" always
means: the returned store equals the store passed in (every caller-owned array bit for bit).
The axis part of `copy_shares_nothing_mutable` (views / copies of a `UniformTime` own their
attribute objects; operations on a copy never reach the original) is proved in Props/C17
(`copy_fresh_objects`, `originals_untouched`) and re-exported here.
-/
import Nitime.Model.C16
import Nitime.Props.C17
import Nitime.Lemmas.C16Memo
import Nitime.Lemmas.C16Copy
import Nitime.Generated.C16CopyPath

namespace Nitime.C16.Props
open Nitime Nitime.C16

/-! ### operand conversion sites -/

/-- without the in-place flag no operand kind is touched by the conversion -/
theorem convertOperand_pure (st : Store) (f : Int) (v : Operand) :
    (convertOperand false st f v).1 = st := by
  cases v <;> simp [convertOperand]

/-- the values read do not depend on the flag (only the side effect does) — for an int32 array as
long as the scaled values fit into int32 (the unrepaired in-place product wrapped inside the buffer) -/
theorem convertOperand_values (b : Bool) (st : Store) (f : Int) (v : Operand)
    (h32 : ∀ id, v = .arr32 id → ∀ e ∈ aget st id, wrap32 (e * f) = e * f) :
    (convertOperand b st f v).2 = (convertOperand false st f v).2 := by
  cases v with
  | arr32 id =>
    cases b
    · rfl
    · have : (aget st id).map (wrap32 ∘ fun x => x * f) = (aget st id).map (· * f) :=
        List.map_congr_left fun e he => h32 id rfl e he
      simp [convertOperand, this]
  | _ => simp [convertOperand]

/-- `binop_preserves_operands`: `+ - r+ r- < <= > >= ==` on a time object leave every operand
kind (python scalar, list, int64 array, time object) — and every other caller-owned array —
unchanged, whether the operation succeeds or raises.  Holds for every configuration in which
`_convert_if_needed` is repaired, in particular for the source as it stands. -/
theorem binop_preserves_operands (cfg : Cfg) (h : cfg.binopInPlace = false) (st : Store)
    (self : C01.TVal) (op : BinOp) (v : Operand) : (binop cfg st self op v).1 = st := by
  simp only [binop, h]
  exact convertOperand_pure st _ v

theorem binop_current (st : Store) (self : C01.TVal) (op : BinOp) (v : Operand) :
    (binop current st self op v).1 = st := binop_preserves_operands current rfl st self op v

/-- the result of the operator is the C01 result (so C01's exactness theorems apply to it) -/
theorem binop_result_is_C01 (cfg : Cfg) (st : Store) (self : C01.TVal) (o : C01.ArithOp) (v : Operand)
    (t : C01.TVal) (h : C01.arith o self (toC01 st v) = .ok t) :
    (binop cfg st self (.ar o) v).2 = .time t := by
  simp only [binop, h]

/-- `failed_call_preserves_args`, element assignment: `t[a:b] = val` leaves `val` (and every other
array) unchanged on every path — success, shape mismatch, key out of range -/
theorem setItem_preserves_operand (st : Store) (self : C01.TVal) (a b : Nat) (v : Operand) :
    (setItem fixed st self a b v).1 = st := by
  have hst : ∀ cfg : Cfg, (setItem cfg st self a b v).1
      = (convertOperand cfg.setitemInPlace st (C17.factorOf self.unit) v).1 := by
    intro cfg
    simp only [setItem]
    split_ifs <;> rfl
  rw [hst]
  exact convertOperand_pure st _ v

/-- `failed_call_preserves_args`, uniformity check: the operand of `UniformTime += / -=` is
unchanged whether the check passes, refuses (non-uniform increments: ValueError) or cannot
index; an empty operand is refused, a one-element operand is a shift) -/
theorem checkUniform_preserves_operand (st : Store) (u : TimeUnit) (v : Operand) :
    (checkUniform fixed st u v).1 = st := by
  have hst : ∀ cfg : Cfg, (checkUniform cfg st u v).1
      = (convertOperand cfg.uniformInPlace st (C17.factorOf u) v).1 := by
    intro cfg
    cases v <;> simp only [checkUniform] <;> (try split_ifs) <;> (try rfl) <;> (split <;> rfl)
  rw [hst]
  exact convertOperand_pure st _ v

/-- the source as it stands has this repair too -/
theorem checkUniform_current (st : Store) (u : TimeUnit) (v : Operand) :
    (checkUniform current st u v).1 = st := checkUniform_preserves_operand st u v

/-- what `checkUniform` answers for a 1-d int64 operand: an empty operand is refused, a one-element operand is a
shift (step 0), and from two elements on it is the C17 uniformity check `rampStep` of the scaled values -/
theorem checkUniform_result (st : Store) (u : TimeUnit) (id : Nat) :
    (checkUniform fixed st u (.arr64 id)).2 =
      (match (aget st id).map (· * C17.factorOf u) with
        | [] => .error .valueError
        | [_] => .ok 0
        | vals => C17.rampStep vals) := by
  simp only [checkUniform, fixed, convertOperand, Bool.false_eq_true, if_false]
  generalize (aget st id).map (· * C17.factorOf u) = vals
  rcases vals with _ | ⟨a, _ | ⟨b, l⟩⟩ <;> rfl

/-- the same for a float64 operand: scaled in binary64 without rounding, differences compared as
floats (so `[0.0, 0.1, 0.2, 0.3]` hours is uniform or not exactly as numpy sees it) -/
theorem checkUniform_result_float64 (st : Store) (u : TimeUnit) (id : Nat) :
    (checkUniform fixed st u (.arrF id)).2 =
      (match (aget st id).map (f64Scale (C17.factorOf u)) with
        | [] => .error .valueError
        | [_] => .ok 0
        | prods => rampStepQ prods) := rfl

/-! ### `periodogram_csd` -/

/-- `csd_shape_restored_on_error` (and on success, and for non-contiguous input): the input's
shape and layout are as they were at every exit of the repaired routine -/
theorem csd_shape_restored_on_error (s : ArrMeta) (f : Fail) : (csd fixed s f).1 = s := by
  simp only [csd, fixed, Bool.false_eq_true, if_false]
  split_ifs <;> rfl

/-- the repaired routine raises only where the computation itself fails -/
theorem csd_fixed_outcome (s : ArrMeta) (f : Fail) :
    (csd fixed s f).2 = (if f = .compute then some .valueError else none) := by
  simp only [csd, fixed, Bool.false_eq_true, if_false]
  split_ifs <;> rfl

/-- the unrepaired routine does restore the shape when nothing raises … -/
theorem csd_current_partial (s : ArrMeta) : (csd current s .none).1 = s := by
  simp only [csd, current, if_true]
  split_ifs <;> first | rfl | contradiction

/-- … but leaves the caller's array flattened when the middle step raises -/
theorem csd_current_counterexample :
    csd current ⟨[2, 3, 8], true⟩ .compute = (⟨[6, 8], true⟩, some .valueError) ∧
    csd current ⟨[8], true⟩ .compute = (⟨[1, 8], true⟩, some .valueError) := by decide

/-- … and refuses non-contiguous 3-d input outright -/
theorem csd_current_noncontiguous_counterexample :
    (csd current ⟨[2, 3, 8], false⟩ .none).2 = some .attributeError ∧
    (csd fixed ⟨[2, 3, 8], false⟩ .none).2 = none := by decide

/-! ### time series -/
theorem aget_append_left (st l : Store) (i : Nat) (h : i < st.length) : aget (st ++ l) i = aget st i := by
  simp [aget, List.getD, List.getElem?_append_left h]

theorem aget_set_ne (st : Store) (i j : Nat) (v : List Int) (h : i ≠ j) : aget (st.set i v) j = aget st j := by
  simp [aget, List.getD, List.getElem?_set_ne h]

/-- `copy_shares_nothing_mutable` (series part): the copy's four objects are new (ids beyond the
old store), pairwise distinct, hold equal contents, and nothing that existed is modified -/
theorem seriesCopy_fresh (st : Store) (s : Series) :
    (∀ i ∈ (seriesCopy st s).2.ids, st.length ≤ i) ∧
    (seriesCopy st s).2.ids.Nodup ∧
    (∀ i, i < st.length → aget (seriesCopy st s).1 i = aget st i) ∧
    aget (seriesCopy st s).1 (seriesCopy st s).2.data = aget st s.data ∧
    aget (seriesCopy st s).1 (seriesCopy st s).2.t0 = aget st s.t0 ∧
    aget (seriesCopy st s).1 (seriesCopy st s).2.dt = aget st s.dt := by
  refine ⟨?_, ?_, ?_, ?_, ?_, ?_⟩
  · intro i hi
    simp [seriesCopy, Series.ids] at hi
    omega
  · simp [seriesCopy, Series.ids]
  · intro i hi; exact aget_append_left _ _ _ hi
  · simp [seriesCopy, aget, List.getD]
  · simp [seriesCopy, aget, List.getD]
  · simp [seriesCopy, aget, List.getD]

/-- any in-place operation on the copy leaves every object of the original (and every other
pre-existing array, e.g. the operand) unchanged -/
theorem copy_then_inplace_preserves_original (st : Store) (s : Series) (f : Int → Int → Int)
    (other : Nat) (i : Nat) (hi : i < st.length) :
    aget (seriesInplace (seriesCopy st s).1 f (seriesCopy st s).2 other) i = aget st i := by
  have hne : (seriesCopy st s).2.data ≠ i := by
    simp only [seriesCopy]; omega
  simp only [seriesInplace]
  rw [aget_set_ne _ _ _ _ hne]
  exact aget_append_left _ _ _ hi

/-- `series_arith_preserves`: `a + b`, `a - b`, `a * b`, `a / b` leave both operands (every
pre-existing object) unchanged; the result lives in new objects -/
theorem series_arith_preserves (st : Store) (f : Int → Int → Int) (s : Series) (other : Nat) :
    (∀ i, i < st.length → aget (seriesArith st f s other).1 i = aget st i) ∧
    (∀ i ∈ (seriesArith st f s other).2.ids, st.length ≤ i) := by
  constructor
  · intro i hi
    simp only [seriesArith, seriesCopy]
    rw [aget_append_left _ _ _ (by simp; omega)]
    exact aget_append_left _ _ _ hi
  · intro i hi
    simp [seriesArith, seriesCopy, Series.ids] at hi
    omega

/-- and the result's data is the element-wise operation on the operands' data -/
theorem series_arith_value (st : Store) (f : Int → Int → Int) (s : Series) (other : Nat)
    (ho : other < st.length) :
    aget (seriesArith st f s other).1 (seriesArith st f s other).2.data
      = List.zipWith f (aget st s.data) (aget st other) := by
  have h2 := aget_append_left st
    [aget st s.data, aget st s.t0, aget st s.dt, aget st s.info, timeContent st s] other ho
  simp only [seriesArith, seriesCopy]
  simp only [aget, List.getD] at h2 ⊢
  simp [h2]

/-- `series_arith_shares_nothing`: in BOTH lazily-initialised states of the operand (`.time` never
read: `s.time = none`; already read: `s.time = some i`), every object of the result of a copy or of
`+ - * /` — data, t0, interval, metadata AND its time axis — is new: its id lies beyond the old
store, so it is none of the operand's objects, and overwriting any of them (any in-place change
of the result) leaves every pre-existing object, the operand's cached axis included, unchanged -/
theorem series_arith_shares_nothing (st : Store) (f : Int → Int → Int) (s : Series) (other : Nat) :
    (∀ j ∈ (seriesCopy st s).2.ids, st.length ≤ j) ∧
    (∀ j ∈ (seriesArith st f s other).2.ids, st.length ≤ j) ∧
    ((seriesArith st f s other).2.time.isSome ∧ (seriesCopy st s).2.time.isSome) ∧
    (∀ j ∈ (seriesArith st f s other).2.ids, ∀ (v : List Int) (i : Nat), i < st.length →
      aget ((seriesArith st f s other).1.set j v) i = aget st i) := by
  refine ⟨(seriesCopy_fresh st s).1, (series_arith_preserves st f s other).2, ⟨rfl, rfl⟩, ?_⟩
  intro j hj v i hi
  have hge := (series_arith_preserves st f s other).2 j hj
  rw [aget_set_ne _ _ _ _ (by omega)]
  exact (series_arith_preserves st f s other).1 i hi

/-- the same statement spelled out for an operand whose `.time` HAS been read: the cached axis
object `i` of the operand is not the result's, and survives any change of the result -/
theorem series_time_read_not_shared (st : Store) (f : Int → Int → Int) (s : Series) (other i : Nat)
    (hs : s.time = some i) (hi : i < st.length) :
    (seriesArith st f s other).2.time ≠ some i ∧ (seriesCopy st s).2.time ≠ some i ∧
    aget (seriesCopy st s).1 ((seriesCopy st s).2.time.getD 0) = aget st i := by
  refine ⟨?_, ?_, ?_⟩
  · simp only [seriesArith, seriesCopy]; intro h; injection h with h; omega
  · simp only [seriesCopy]; intro h; injection h with h; omega
  · simp [seriesCopy, timeContent, hs, aget, List.getD]

/-- an in-place series operation writes the series' own data buffer and nothing else -/
theorem series_inplace_frame (st : Store) (f : Int → Int → Int) (s : Series) (other : Nat) (i : Nat)
    (h : i ≠ s.data) : aget (seriesInplace st f s other) i = aget st i :=
  aget_set_ne _ _ _ _ (Ne.symm h)

/-- `copy_shares_nothing_mutable`, axis part (from C17): a copy of an axis owns its attribute
objects and operations on it leave the original's objects as they were -/
theorem copy_shares_nothing_mutable_axis {s : C17.State} (h : C17.Props.Inv s) :
    (let s' := (C17.step C17.fixed s .copy).1
     s'.kept = s.cur :: s.kept ∧ s.cur.t0 < s'.cur.t0 ∧ s.cur.dt < s'.cur.t0 ∧ s.cur.dur < s'.cur.t0) ∧
    (∀ (op : C17.Op) (a : C17.Axis), a ∈ s.kept →
      C17.sget (C17.step C17.fixed s op).1.store a.t0 = C17.sget s.store a.t0 ∧
      C17.sget (C17.step C17.fixed s op).1.store a.dt = C17.sget s.store a.dt ∧
      C17.sget (C17.step C17.fixed s op).1.store a.dur = C17.sget s.store a.dur) := by
  refine ⟨?_, ?_⟩
  · have := C17.Props.copy_fresh_objects h
    exact ⟨this.1, this.2.2.1, this.2.2.2.1, this.2.2.2.2.1⟩
  · intro op a ha
    exact (C17.Props.originals_untouched h op a ha).2

/-! ### operand dtypes: int32 and float64 arrays (`_convert_if_needed` after 38397b6)

`binop_preserves_operands`, `setItem_preserves_operand` and `checkUniform_preserves_operand` above
quantify over every `Operand`, hence over the int32 and float64 array kinds too; the statements
below spell the dtype dispatch out. -/

/-- the dispatch `issubclass(val.dtype.type, np.integer)`: an int32 array goes through the same
branch as an int64 array (`astype(int64) * factor`, no wrap-around inside int32) … -/
theorem convert_int32_as_int64 (st : Store) (f : Int) (id : Nat) :
    (convertOperand false st f (.arr32 id)).2 = (convertOperand false st f (.arr64 id)).2 := rfl

/-- … and a float64 array through `(val * factor).round().astype(int64)`, element by element the
C01 conversion of a bare float (so C01's nearest-picosecond theorems apply to the values read) -/
theorem convert_float64_as_C01 (st : Store) (f : Nat) (id : Nat) :
    (convertOperand false st (f : Int) (.arrF id)).2
      = ((aget st id).map (fun b => C01.toPsF f (.flt (f64Of b))), false) := by
  simp [convertOperand, f64Scale, C01.toPsF, Function.comp_def]

/-- `binop_preserves_operands` for the int32 / float64 operand kinds, success or error, every
operator: the caller's buffer (elements resp. IEEE bit patterns) and every other array are unchanged -/
theorem binop_preserves_int32_float64 (cfg : Cfg) (h : cfg.binopInPlace = false) (st : Store)
    (self : C01.TVal) (op : BinOp) (id : Nat) :
    (binop cfg st self op (.arr32 id)).1 = st ∧ (binop cfg st self op (.arrF id)).1 = st :=
  ⟨binop_preserves_operands cfg h st self op _, binop_preserves_operands cfg h st self op _⟩

/-- the same for element assignment and for the operand of `UniformTime += / -=` -/
theorem setItem_checkUniform_preserve_int32_float64 (st : Store) (self : C01.TVal) (a b : Nat)
    (u : TimeUnit) (id : Nat) :
    (setItem fixed st self a b (.arr32 id)).1 = st ∧ (setItem fixed st self a b (.arrF id)).1 = st ∧
    (checkUniform fixed st u (.arr32 id)).1 = st ∧ (checkUniform fixed st u (.arrF id)).1 = st :=
  ⟨setItem_preserves_operand _ _ _ _ _, setItem_preserves_operand _ _ _ _ _,
   checkUniform_preserves_operand _ _ _, checkUniform_preserves_operand _ _ _⟩

/-- the result of an operator with an int32 operand is the result with the same values as int64 -/
theorem binop_int32_result (cfg : Cfg) (st : Store) (self : C01.TVal) (op : BinOp) (id : Nat) :
    (binop cfg st self op (.arr32 id)).2 = (binop cfg st self op (.arr64 id)).2 := rfl

/-- before commit 38397b6 `t + arr` scaled an int32 operand inside its buffer (wrapping at 2^31:
3 000 000 × 1000 = 3·10⁹ ↦ −1 294 967 296) and left the products in a float64 operand
(1.5 ↦ 1500.0, bit patterns 0x3FF8… ↦ 0x4097 7000 …) -/
theorem binop_before_dtype_counterexample :
    (binop beforeFirstRepair [[1, 3000000]] ⟨[5, 5], .ns, false⟩ (.ar .add) (.arr32 0)).1
      = [[1000, -1294967296]] ∧
    (binop beforeFirstRepair [[0x3FF8000000000000]] ⟨[5], .ns, false⟩ (.ar .add) (.arrF 0)).1
      = [[0x4097700000000000]] ∧
    (binop fixed [[0x3FF8000000000000]] ⟨[5], .ns, false⟩ (.ar .add) (.arrF 0))
      = ([[0x3FF8000000000000]], .time ⟨[1505], .ns, false⟩) := by
  refine ⟨by decide +kernel, by decide +kernel, by decide +kernel⟩

/-! ### `remove_bias` / `crosscov`: the preprocessing chain never writes to an argument buffer -/

/-- `st'` extends `st`: nothing that existed was modified (new buffers may have been appended) -/
def Ext (st st' : QStore) : Prop :=
  st.length ≤ st'.length ∧ ∀ i, i < st.length → qget st' i = qget st i

theorem Ext.refl (st : QStore) : Ext st st := ⟨Nat.le_refl _, fun _ _ => rfl⟩

theorem Ext.trans {a b c : QStore} (h1 : Ext a b) (h2 : Ext b c) : Ext a c :=
  ⟨Nat.le_trans h1.1 h2.1, fun i hi => (h2.2 i (Nat.lt_of_lt_of_le hi h1.1)).trans (h1.2 i hi)⟩

theorem Ext.append (st l : QStore) : Ext st (st ++ l) :=
  ⟨by simp, fun i hi => by simp [qget, List.getD, List.getElem?_append_left hi]⟩

/-- overwriting a buffer that did not exist in `st` keeps `st` intact -/
theorem Ext.set_new {st st' : QStore} (h : Ext st st') (j : Nat) (hj : st.length ≤ j) (v : List Rat) :
    Ext st (st'.set j v) :=
  ⟨by simpa using h.1, fun i hi => by
    have hne : j ≠ i := by omega
    simpa [qget, List.getD, List.getElem?_set_ne hne] using h.2 i hi⟩

/-- `remove_bias` never writes: whatever it returns (new array or, with the short cut, its argument),
every existing buffer is as it was — this is why the short cut alone is harmless -/
theorem removeBias_ext (cfg : ChainCfg) (st : QStore) (x : Nat) : Ext st (removeBias cfg st x).1 := by
  simp only [removeBias]
  split_ifs
  · exact Ext.refl st
  · exact Ext.append st _

/-- without the short cut the result of `remove_bias` is a new buffer -/
theorem removeBias_fresh (cfg : ChainCfg) (h : cfg.rbReturnsArg = false) (st : QStore) (x : Nat) :
    (removeBias cfg st x).2 = st.length ∧ (removeBias cfg st x).1 = st ++ [(qget st x).map (· - qmean (qget st x))] := by
  simp [removeBias, h]

/-- with it, a centred signal comes back as the very buffer that was passed in -/
theorem removeBias_shortcut_aliases (st : QStore) (x : Nat) (h : qmean (qget st x) = 0) :
    removeBias ⟨true, false⟩ st x = (st, x) := by
  simp [removeBias, h]

theorem debiasStep_ext (cfg : ChainCfg) (st : QStore) (x : Nat) (d : Bool) : Ext st (debiasStep cfg st x d).1 := by
  cases d
  · exact Ext.refl st
  · exact removeBias_ext cfg st x

theorem debiasStep_fresh (cfg : ChainCfg) (h : cfg.rbReturnsArg = false) (st : QStore) (x : Nat) :
    (debiasStep cfg st x true).2 = st.length := (removeBias_fresh cfg h st x).1

/-- the in-place division of the de-meaned `x` leaves the caller's buffers alone as long as the
de-meaned `x` is a buffer of its own (id beyond the caller's store) -/
theorem normInXStep_ext {st0 st : QStore} (h : Ext st0 st) (inX : Bool) (x1 n : Nat)
    (hx : inX = true → st0.length ≤ x1) : Ext st0 (normInXStep inX st x1 n) := by
  cases inX
  · exact h
  · exact Ext.set_new h x1 (hx rfl) _

theorem convStep_ext (st : QStore) (x1 y1 n : Nat) (d : Bool) : Ext st (convStep st x1 y1 n d) :=
  Ext.append st _

/-- **the chain never writes to an argument buffer**: for every configuration in which NOT BOTH
short cuts are present (`remove_bias` handing back its argument, `crosscov` dividing the
de-meaned `x` in place) — in particular for each short cut alone — `crosscov(x, y, …)` leaves every
buffer of the caller (x, y and anything else) exactly as it was, for all inputs, all flag
combinations, whether it returns or raises, and its result lives in a new buffer -/
theorem crosscov_preserves_args (cfg : ChainCfg) (h : cfg.rbReturnsArg = false ∨ cfg.normalizeInX = false)
    (st : QStore) (x y : Nat) (allLags debias normalize : Bool) :
    Ext st (crosscov cfg st x y allLags debias normalize).1 ∧
    ∀ r v, (crosscov cfg st x y allLags debias normalize).2 = some (r, v) → st.length ≤ r := by
  unfold crosscov
  by_cases hl : (qget st x).length ≠ (qget st y).length
  · rw [if_pos hl]
    exact ⟨Ext.refl st, fun _ _ h => by cases h⟩
  · rw [if_neg hl]
    have e1 := debiasStep_ext cfg st x debias
    have e2 := Ext.trans e1 (debiasStep_ext cfg (debiasStep cfg st x debias).1 y debias)
    have e3 : Ext st (normInXStep (cfg.normalizeInX && debias && normalize)
        (debiasStep cfg (debiasStep cfg st x debias).1 y debias).1 (debiasStep cfg st x debias).2
        (qget st x).length) := by
      apply normInXStep_ext e2
      intro hin
      simp only [Bool.and_eq_true] at hin
      obtain ⟨⟨hn, hd⟩, -⟩ := hin
      rcases h with h | h
      · subst hd
        rw [debiasStep_fresh cfg h]
      · rw [h] at hn; cases hn
    refine ⟨Ext.trans e3 (convStep_ext _ _ _ _ _), ?_⟩
    intro r v hr
    simp only [Option.some.injEq, Prod.mk.injEq] at hr
    rw [← hr.1]
    exact e3.1

/-- the source as it stands (switches read off the translator's alias table): `remove_bias` returns a
fresh array and `crosscov` writes to nothing that may be an argument; both routines are in the table -/
theorem source_chain_safe :
    (sourceChain.rbReturnsArg = false ∨ sourceChain.normalizeInX = false) ∧
    known "utils" "remove_bias" = true ∧ known "utils" "crosscov" = true := by decide +kernel

theorem source_chain_is_fixed : sourceChain = chainFixed := by decide +kernel

/-- … hence `crosscov` as written leaves its arguments unchanged -/
theorem crosscov_source_preserves_args (st : QStore) (x y : Nat) (allLags debias normalize : Bool) :
    Ext st (crosscov sourceChain st x y allLags debias normalize).1 :=
  (crosscov_preserves_args sourceChain source_chain_safe.1 st x y allLags debias normalize).1

/-- both short cuts together: `crosscov(x, y)` with a centred `x` divides the caller's `x` by N
(and the answer of a second identical call is different) -/
theorem crosscov_both_shortcuts_counterexample :
    (crosscov ⟨true, true⟩ [[1, -1], [3, -3]] 0 1 false true true).1.getD 0 [] = [1/2, -1/2] ∧
    (crosscov chainFixed [[1, -1], [3, -3]] 0 1 false true true).1.take 2 = [[1, -1], [3, -3]] ∧
    (crosscov ⟨true, true⟩ [[1, -1], [3, -3]] 0 1 false true true).2.map (·.2) = some [3, -3/2] ∧
    (crosscov ⟨true, true⟩ [[1/2, -1/2], [3, -3]] 0 1 false true true).2.map (·.2) = some [3/2, -3/4] := by
  refine ⟨by decide +kernel, by decide +kernel, by decide +kernel, by decide +kernel⟩

/-- a second identical call sees the same inputs: with the arguments preserved, the store restricted
to the caller's buffers after the first call is the store before it -/
theorem crosscov_second_call_sees_same_inputs (cfg : ChainCfg)
    (h : cfg.rbReturnsArg = false ∨ cfg.normalizeInX = false) (st : QStore) (x y : Nat)
    (hx : x < st.length) (hy : y < st.length) (a d n : Bool) :
    qget (crosscov cfg st x y a d n).1 x = qget st x ∧ qget (crosscov cfg st x y a d n).1 y = qget st y :=
  ⟨(crosscov_preserves_args cfg h st x y a d n).1.2 x hx, (crosscov_preserves_args cfg h st x y a d n).1.2 y hy⟩

/-! ### the alias table of the source: no in-place statement reaches an argument

`Generated.C16Alias.writes` lists EVERY in-place statement (augmented assignment, subscript / slice /
attribute assignment, `out=`, mutating method, call of a routine that writes to a parameter) of the
anchor files with the parameters its target may alias.  Routines documented to work in place
(property: "entry points that are not documented as in-place") are named here with the parameter
they may write to. -/
open Generated.C16Alias in
/-- (module, function, parameter) documented / designed to be modified in place:
`normalize_coherence(x, dof, copy=True)` ("copy: Copy or return inplace modified x"),
`normal_coherence_to_unit(y, dof, out=None)` (writes `y` only when `out` is given),
`unwrap_phases(a)` ("Changes consecutive jumps …": works on `a`), `fill_diagonal(a, val)` (numpy's
in-place routine), `tridi_inverse_iteration(…, x0=None)` (the optional start vector is the work array) -/
def inPlaceByContract : List (String × String × String) :=
  [("utils", "normalize_coherence", "x"), ("utils", "normal_coherence_to_unit", "y"),
   ("utils", "unwrap_phases", "a"), ("utils", "fill_diagonal", "a"), ("utils", "tridi_inverse_iteration", "x0")]

/-- methods by which an object changes ITSELF (`ts += x`, `ts[i] = v`): a write to what the object was built around
(`self.data`, bound to the constructor's argument) is the documented meaning of these operators -/
def inPlaceOperators : List String :=
  ["__iadd__", "__isub__", "__imul__", "__idiv__", "__itruediv__", "__ifloordiv__", "__imod__", "__ipow__",
   "__setitem__", "__delitem__"]

/-- (module, function, alias) — the RECORDED FINDING, derived by the analysis (not listed by the translator):
`CoherenceAnalyzer.__init__` keeps the caller's `method` dict (`self.method = method`) and fills defaults into it
(lines `self.method['Fs'] = …`, `['NFFT']`, `['n_overlap']`), and `set_input` — ANOTHER method — writes `self.method['Fs']`
through the attribute bound in the constructor.  Pinned by the repo's test_CoherenceAnalyzer (known finding
`entry/CoherenceAnalyzer*/method-dict/argument-mutated/+Fs*`). -/
def recordedFinding : List (String × String × String) :=
  [("analysis.coherence", "CoherenceAnalyzer.__init__", "method"),
   ("analysis.coherence", "CoherenceAnalyzer.set_input", "CoherenceAnalyzer.__init__:method")]

/-- (module, function, alias) where the may-alias analysis is coarser than numpy: `b = rxx_m[0].real; b *= …` in
`AR_est_LD` (an ELEMENT of the 1-d autocorrelation sequence is an immutable numpy scalar: `*=` rebinds `b`);
`event_trig = data[idx + offset]; event_trig -= event_trig[0]` in `EventRelatedAnalyzer.eta/ets` (indexing with an
integer ARRAY copies).  Both are exercised on every run by the snapshot sweep (`AR_est_LD/rxx`, `EventRelatedAnalyzer*`). -/
def aliasCoarse : List (String × String × String) :=
  [("algorithms.autoregressive", "AR_est_LD", "rxx"),
   ("analysis.event_related", "EventRelatedAnalyzer.eta", "EventRelatedAnalyzer.__init__:time_series"),
   ("analysis.event_related", "EventRelatedAnalyzer.ets", "EventRelatedAnalyzer.__init__:time_series")]

open Generated.C16Alias in
def aliasExcused (w : Write) (p : String) : Bool :=
  inPlaceByContract.contains (w.module, w.func, p) || recordedFinding.contains (w.module, w.func, p) ||
  aliasCoarse.contains (w.module, w.func, p)

open Generated.C16Alias in
/-- own parameters: only the listed exceptions; constructor arguments reached through `self.<attr>` (flows between
methods of one class): the listed exceptions, or the method is one of the object's own in-place operators -/
def writeOk (w : Write) : Bool :=
  (w.argAliases.all fun p => aliasExcused w p) &&
  (w.ctorAliases.all fun p => inPlaceOperators.contains w.method || aliasExcused w p)

open Generated.C16Alias in
/-- **no write through an argument alias**: every file of the entry-point registry parsed, and every in-place
statement in them targets a fresh object (or `self`) — where "argument" includes the arguments of the CONSTRUCTOR
(or of any other method) that the object keeps in an attribute and another method later writes through —
except in the five routines that work in place by contract, the object's own in-place operators, the recorded
`method`-dict finding and two places where the analysis is coarser than numpy.  A change that makes a routine keep
working on (or hand back and later write to) the caller's buffer — `x = np.asarray(x); x /= N`, a conditional
`return x` followed by an in-place step in the caller, `Sk_loc = Sk.reshape(…); Sk_loc /= …`, `s.shape = …`,
`self.data = data` in `__init__` and `self.data -= m` in an output method — falsifies this. -/
theorem no_write_through_argument_alias : parsed = true ∧ writes.all writeOk = true := by
  decide +kernel

open Generated.C16Alias in
/-- the `method`-dict finding is DERIVED from the source by the inter-method flow (`self.method = method` in
`__init__`, which then fills defaults into it), and only `CoherenceAnalyzer.__init__` has it (`set_input` rebinds a new dict since 8563e2b): in the repaired
analyzers (`SpectralAnalyzer`, `SparseCoherenceAnalyzer`, `SeedCoherenceAnalyzer`: `self.method = dict(method)`)
no write reaches a constructor argument -/
theorem method_dict_finding_derived :
    -- since repo fix 8563e2b `set_input` REBINDS `self.method = dict(self.method, Fs=…)`: no write through the attribute any more
    ((writes.filter fun w => w.func == "CoherenceAnalyzer.set_input").map fun w => (w.kind, w.target, w.ctorAliases))
      = [("setattr", "self.method", [])] ∧
    ((writes.filter fun w => w.func == "CoherenceAnalyzer.__init__" && !w.argAliases.isEmpty).map fun w => w.argAliases)
      = [["method"], ["method"], ["method"]] ∧
    (writes.all fun w => !(w.ctorAliases.any fun p => p.endsWith ":method")) = true := by
  decide +kernel

/-! ### results are fresh objects

`Generated.C16Alias.fns` carries, for every function / method, what its RETURN VALUE may alias: its own parameters
(`returnsAlias`), arguments of the constructor / other methods kept in `self.<attr>` (`returnsCtorArg`), module-level or
class-level objects such as caches (`returnsGlobal`). -/
/-- (module, function, alias): public routines that hand back (a view of) an argument BY DESIGN, and places where the
analysis is coarser than numpy:
* in place by contract, returning the array they worked on: `normalize_coherence`, `normal_coherence_to_unit`,
  `tridi_inverse_iteration`, `unwrap_phases`;
* `ar_generator(…, v=)` returns the noise it was given next to the generated signal; `zero_pad` returns its input when
  there is nothing to pad; `multi_intersect([a])` returns `a.ravel()`;
* numpy-like views by design: `TimeArray.__new__(data, copy=False)`, `__array_wrap__`, `TimeSeries[key]`, `.at`, `.during`,
  `from_time_and_data`, `Events[key]`;
* coarse: `AR_est_LD` (`b` is a numpy scalar), `cache_fft` / `SparseCoherenceAnalyzer.cache` / `SeedCoherenceAnalyzer.target_cache`
  (the cache dict holds NUMBERS read from the `method` dict: Fs, NFFT), `TimeArray.ptp(*args)`, `EventRelatedAnalyzer.et_data`
  (integer-array indexing copies). -/
def mayReturnArgument : List (String × String × String) :=
  [("utils", "ar_generator", "coefs"), ("utils", "ar_generator", "v"), ("utils", "normalize_coherence", "x"),
   ("utils", "normal_coherence_to_unit", "y"), ("utils", "tridi_inverse_iteration", "x0"), ("utils", "unwrap_phases", "a"),
   ("utils", "multi_intersect", "input"), ("utils", "zero_pad", "time_series"),
   ("algorithms.autoregressive", "AR_est_LD", "rxx"), ("algorithms.cohere", "cache_fft", "method"),
   ("timeseries", "TimeArray.__new__", "data"), ("timeseries", "TimeArray.__array_wrap__", "out_arr"),
   ("timeseries", "TimeArray.ptp", "args"), ("timeseries", "TimeArray.ptp", "kwargs"),
   ("timeseries", "UniformTime.__array_wrap__", "out_arr"),
   ("timeseries", "TimeSeriesBase.__getitem__", "key"), ("timeseries", "TimeSeriesBase.__getitem__", "TimeSeriesBase.__init__:data"),
   ("timeseries", "TimeSeries.from_time_and_data", "data"), ("timeseries", "TimeSeries.from_time_and_data", "time"),
   ("timeseries", "TimeSeries.at", "TimeSeriesBase.__init__:data"), ("timeseries", "TimeSeries.during", "TimeSeriesBase.__init__:data"),
   ("timeseries", "Events.__getitem__", "Events.__init__:data"), ("timeseries", "Events.__getitem__", "Events.__init__:time"),
   ("analysis.coherence", "SparseCoherenceAnalyzer.cache", "SparseCoherenceAnalyzer.__init__:method"),
   ("analysis.coherence", "SeedCoherenceAnalyzer.target_cache", "SeedCoherenceAnalyzer.__init__:method"),
   ("analysis.event_related", "EventRelatedAnalyzer.et_data", "EventRelatedAnalyzer.__init__:time_series")]

open Generated.C16Alias in
def fnFresh (g : Fn) : Bool :=
  !g.isPublic ||
  (((g.returnsAlias.filter fun p => p != "self" && p != "cls") ++ g.returnsCtorArg ++ g.returnsGlobal).all fun p =>
    mayReturnArgument.contains (g.module, g.func, p))

open Generated.C16Alias in
/-- **results are fresh**: no public function or method of the registry's files returns an object that may be (or be
a view of, or hold) one of its arguments, an argument its object was constructed with, or a module-level / class-level
object (a cache, a table), except the listed by-design cases.  An edit that returns a cache's own buffer
(`return _memo[key]`), the input itself on a "nothing to do" path (`return x`), or a view of an argument
(`return ts.TimeSeries(self.input.data, …)`) re-opens this obligation at translation time. -/
theorem results_are_fresh : parsed = true ∧ fns.all fnFresh = true := by
  decide +kernel

open Generated.C16Alias in
/-- today no routine hands out a module-level or class-level object at all, and every analyzer output method
(`analysis.*`) is fresh with respect to the analyzer's input series -/
theorem no_global_handed_out :
    (fns.all fun g => g.returnsGlobal.isEmpty) = true ∧
    (fns.all fun g => !(g.isPublic && g.module.startsWith "analysis.") ||
        (g.returnsCtorArg.all fun p => !(p.endsWith ":input" || p.endsWith "time_series") ||
            mayReturnArgument.contains (g.module, g.func, p))) = true := by
  decide +kernel

open Generated.C16Alias in
/-- the routines whose summaries the chain model relies on return fresh arrays and write to no
parameter: `remove_bias`, `crosscov`, `crosscorr`, `autocov`, `autocorr`, `fftconvolve`,
`_convert_if_needed`, `_convert_and_check_uniformity`, `periodogram_csd`, `boxcar_filter` -/
theorem anchor_routines_pure :
    (fns.filter fun g => (g.module, g.func) ∈
        [("utils", "remove_bias"), ("utils", "crosscov"), ("utils", "crosscorr"), ("utils", "autocov"),
         ("utils", "autocorr"), ("utils", "fftconvolve"), ("timeseries", "TimeArray._convert_if_needed"),
         ("timeseries", "UniformTime._convert_and_check_uniformity"),
         ("algorithms.spectral", "periodogram_csd"), ("algorithms.filter", "boxcar_filter")]).map
      (fun g => (g.func, g.returnsAlias, g.writesParams))
    = [("remove_bias", [], []), ("crosscov", [], []), ("crosscorr", [], []), ("autocov", [], []),
       ("autocorr", [], []), ("fftconvolve", [], []), ("periodogram_csd", [], []), ("boxcar_filter", [], []),
       ("TimeArray._convert_if_needed", ["val"], []),
       ("UniformTime._convert_and_check_uniformity", ["val"], [])] := by
  decide +kernel

open Generated.C16Alias in
/-- **no state survives between calls**: no in-place statement of the registry's files targets a module-level or
class-level object (a cache dict, a shared default `method` dict, a per-class list) — neither directly nor through
`self.<attr>` bound to such an object.  An edit that introduces a memo (`_cache[key] = …`) or fills defaults into a
shared dict re-opens this obligation; whether the memo is then harmless is what `handed_out_copies_history` is about
and what the harness's sandwich decides on the real code. -/
theorem no_module_state_written : (writes.all fun w => w.globalAliases.isEmpty) = true := by
  decide +kernel

/-! ### process histories: what a routine may remember between calls (class statement, `Lemmas/C16Memo.lean`) -/
/-- a routine that answers repeated calls from a module-level memo is indistinguishable from recomputing — in every
history of calls and of in-place changes the caller makes to what it was handed — provided it hands out COPIES -/
theorem handed_out_copies_history (f : Nat → List Int) (h : List Memo.Step) :
    Memo.run f true ⟨[], [], []⟩ h = Memo.spec f h := Memo.memo_copy_out_from_start f h

/-- … and not if it hands out the remembered buffer itself (`call 3; overwrite; call 3` answers [9, 9]) -/
theorem handed_out_buffer_counterexample :
    Memo.run (fun k => [Int.ofNat k, 1]) false ⟨[], [], []⟩ [.call 3, .scribble 0 [9, 9], .call 3] = [[3, 1], [9, 9]] ∧
    Memo.spec (fun k => [Int.ofNat k, 1]) [.call 3, .scribble 0 [9, 9], .call 3] = [[3, 1], [3, 1]] :=
  ⟨Memo.memo_hands_out_buffer_counterexample.1, Memo.memo_hands_out_buffer_counterexample.2.1⟩

/-! ## Round 2 (L7 failure paths, L8 aliasing): copy / arithmetic with the metadata as a nested container graph

Model: `Model/C16Copy.lean` (heap of mutable containers; slots = immutable value / uncopyable handle / reference; `deepCopy` total
with `Except`; `seriesCopy` / `seriesArith` for the discipline of the source (`strict`) and for the VARIANT with a handler that
substitutes a shallow copy).  Proofs: `Lemmas/C16Copy.lean`.  Tie: `Generated/C16CopyPath.lean` (handlers and the copy path read
off the source by `harness/translate_c16.py: gen_c16copypath`), correspondence lines `seriescopy`. -/

open Generated.C16CopyPath in
/-- functions on the copy path of a series: `copy()` and the operators that start from it -/
def copyPathFunctions : List String :=
  ["TimeSeries.copy", "TimeSeriesBase.copy", "TimeSeriesBase.__add__", "TimeSeriesBase.__sub__", "TimeSeriesBase.__mul__",
   "TimeSeriesBase.__div__", "TimeSeriesBase.__truediv__", "TimeSeries.__add__", "TimeSeries.__sub__", "TimeSeries.__mul__",
   "TimeSeries.__div__", "TimeSeries.__truediv__"]

open Generated.C16CopyPath in
/-- the discipline of the SOURCE, read off the generated table: `strict` iff the metadata of the copy can only come from
`copy.deepcopy` and no `except` clause on the copy path completes normally -/
def sourceDiscipline : Copy.Discipline :=
  if copyMetadataSources == ["copy.deepcopy"] &&
     (handlers.all fun hd => hd.reraises || !copyPathFunctions.contains hd.func) then .strict else .shallowFallback

open Generated.C16CopyPath in
/-- **the copy path has no fallback** (generated table): `TimeSeries.copy` builds `TimeSeries(data=self.data.copy(),
time=self.time.copy(), …, metadata=copy.deepcopy(self.metadata))` — every name that can reach `metadata=` followed through every
assignment of the function, handlers included —, each of `+ - * /` returns exactly the object made by `self.copy()`, and no handler in
these functions swallows an exception.  A `try: … except …: metadata = copy.copy(self.metadata)` (or `dict(self.metadata)`, or
`return self`) around any of it falsifies this. -/
theorem copy_path_has_no_fallback :
    parsed = true ∧ copyFound = true ∧ copyMetadataSources = ["copy.deepcopy"] ∧ copyDataSources = ["self.data.copy"] ∧
    copyTimeSources = ["self.time.copy"] ∧ operators.length = 5 ∧
    (operators.all fun o => o.2.1 == ["self.copy"] && o.2.2) = true ∧
    (handlers.all fun hd => hd.reraises || !copyPathFunctions.contains hd.func) = true ∧
    sourceDiscipline = .strict := by
  decide +kernel

/-- (module, function, exceptions) of the handlers that complete normally BY DESIGN, each reading only or producing fresh objects:
the optional cython import (defines the python `tridisolve`), the exactly singular shift in `tridi_inverse_iteration` (a flag; it
works on its own arrays), the numpy version probe, `get_time_unit` of a non-iterable (returns None), and `UniformTime + - r-` with a
non-uniform operand (the result is an ordinary `TimeArray(self) ± val`: new objects) -/
def swallowingHandlersAllowed : List (String × String × List String) :=
  [("utils", "<module>", ["ImportError"]), ("utils", "tridi_inverse_iteration", ["ZeroDivisionError"]),
   ("timeseries", "<module>", ["Exception"]), ("timeseries", "get_time_unit", ["TypeError"]),
   ("timeseries", "UniformTime.__add__", ["ValueError"]), ("timeseries", "UniformTime.__sub__", ["ValueError"]),
   ("timeseries", "UniformTime.__rsub__", ["ValueError"])]

open Generated.C16CopyPath in
/-- **no other routine swallows an exception and carries on with a substitute**: the handlers of the 18 registry files that do not
re-raise are exactly the seven listed ones.  A new "catch and fall back" anywhere in these files re-opens this obligation. -/
theorem swallowing_handlers_pinned :
    ((handlers.filter fun hd => !hd.reraises).map fun hd => (hd.module, hd.func, hd.catches)) = swallowingHandlersAllowed := by
  decide +kernel

open Copy in
/-- **copy shares nothing mutable — for EVERY outcome of the deep copy of the metadata** (discipline of the source).
(ii) the deep copy raises (an uncopyable handle is reachable: `copy_raises_iff_handle_reachable`) ⇒ `copy()` raises and the heap is
what it was — never a substitute; (i) it succeeds ⇒ the heap only grew (no pre-existing object modified), every container
reachable from the copy's metadata, data and time is NEW (id ≥ old heap size), the value of the metadata graph, the data and the
axis are equal to the operand's, and ANY in-place write to a new object — in particular to every object reachable from the copy —
leaves every old object and the value of every old graph unchanged. -/
theorem copy_shares_nothing_mutable (fuel : Nat) (h : Heap) (hc : Closed h) (s : GSeries)
    (hs : s.data < h.length ∧ s.time < h.length ∧ s.info < h.length)
    (hflat : Flat (obj h s.data) ∧ Flat (obj h s.time)) :
    match Copy.seriesCopy sourceDiscipline fuel h s with
    | (h', .error _) => h' = h ∧ ∃ e, deepCopy fuel h s.info = .error e
    | (h', .ok c) =>
        (∃ e, h' = h ++ e) ∧
        (∀ g, ∀ j ∈ reach g h' c.info ++ reach g h' c.data ++ reach g h' c.time, h.length ≤ j) ∧
        (∀ g, unfold g h' c.info = unfold g h s.info) ∧ obj h' c.data = obj h s.data ∧ obj h' c.time = obj h s.time ∧
        (∀ j o, h.length ≤ j → ∀ g i, i < h.length →
          unfold g (write h' j o) i = unfold g h i ∧ obj (write h' j o) i = obj h i) := by
  rw [copy_path_has_no_fallback.2.2.2.2.2.2.2.2]
  exact copy_shares_nothing_mutable_graph fuel h hc s hs hflat

open Copy in
/-- the same through `+ - * /` (`out = self.copy(); out.data = out.data.__op__(other)`), any element-wise `f`: refused — metadata
not deep-copyable, or a shape numpy refuses AFTER the copy was made — ⇒ the heap is what it was; returned ⇒ as for `copy()` -/
theorem series_arith_shares_nothing_mutable (fuel : Nat) (f : Int → Int → Int) (h : Heap) (hc : Closed h) (s : GSeries)
    (other : Nat) (hs : s.data < h.length ∧ s.time < h.length ∧ s.info < h.length)
    (hflat : Flat (obj h s.data) ∧ Flat (obj h s.time)) :
    match Copy.seriesArith sourceDiscipline fuel f h s other with
    | (h', .error _) => h' = h
    | (h', .ok c) =>
        (∃ e, h' = h ++ e) ∧
        (∀ g, ∀ j ∈ reach g h' c.info ++ reach g h' c.data ++ reach g h' c.time, h.length ≤ j) ∧
        (∀ g, unfold g h' c.info = unfold g h s.info) ∧ obj h' c.time = obj h s.time ∧
        (∀ j o, h.length ≤ j → ∀ g i, i < h.length →
          unfold g (write h' j o) i = unfold g h i ∧ obj (write h' j o) i = obj h i) := by
  rw [copy_path_has_no_fallback.2.2.2.2.2.2.2.2]
  exact arith_shares_nothing_mutable_graph fuel f h hc s other hs hflat

open Copy in
/-- **when `copy()` is refused**: on acyclic metadata (depth ≤ fuel) `copy()` raises `TypeError` iff an uncopyable handle (lock,
generator, open file, object whose `__deepcopy__` raises) is reachable from the metadata — at the top level or nested at any depth —,
and returns iff none is -/
theorem copy_raises_iff_handle_reachable (fuel : Nat) (h : Heap) (hc : Closed h) (s : GSeries) (hs : s.info < h.length)
    (hd : depthLE fuel h s.info = true) :
    ((Copy.seriesCopy sourceDiscipline fuel h s).2 = .error .typeError ↔ reachesHandle fuel h s.info = true) ∧
    ((∃ c, (Copy.seriesCopy sourceDiscipline fuel h s).2 = .ok c) ↔ reachesHandle fuel h s.info = false) := by
  rw [copy_path_has_no_fallback.2.2.2.2.2.2.2.2]
  exact strict_copy_raises_iff_handle fuel h hc s hs hd

open Copy in
/-- a refused `copy()` leaves the heap as it was (failure clause), and is refused exactly when the deep copy is -/
theorem refused_copy_leaves_heap (fuel : Nat) (h : Heap) (s : GSeries) (e : Err) :
    ((Copy.seriesCopy .strict fuel h s).2 = .error e ↔ deepCopy fuel h s.info = .error e) ∧
    (deepCopy fuel h s.info = .error e → Copy.seriesCopy .strict fuel h s = (h, .error e)) :=
  ⟨strict_copy_raises_iff fuel h s e, seriesCopy_strict_error fuel h s e⟩

open Copy in
/-- the fallback VARIANT (handler substitutes `copy.copy(self.metadata)` / `dict(self.metadata)`): whenever the deep copy raises it
RETURNS a series whose metadata object holds the operand's own slots — every nested container is shared -/
theorem fallback_variant_shares_nested (fuel : Nat) (h : Heap) (s : GSeries) (e : Err) (he : deepCopy fuel h s.info = .error e) :
    ∃ h' c, Copy.seriesCopy .shallowFallback fuel h s = (h', .ok c) ∧ obj h' c.info = obj h s.info ∧ c.info = h.length :=
  fallback_returns_shared_slots fuel h s e he

open Copy in
/-- … concretely: metadata `{lock, tags: [1, 2]}`.  The source refuses (heap unchanged); the variant returns a new dict that reaches
the operand's list (object 2), and the write `c.metadata['tags'][:] = [9]` changes the value of the ORIGINAL's metadata graph -/
theorem fallback_variant_counterexample :
    let h : Heap := [[.val 1], [.val 0], [.val 1, .val 2], [.handle 0, .ref 2]]
    Copy.seriesCopy .strict 5 h ⟨0, 1, 3⟩ = (h, .error .typeError) ∧
    ∃ h' c, Copy.seriesCopy .shallowFallback 5 h ⟨0, 1, 3⟩ = (h', .ok c) ∧ 2 ∈ reach 2 h' c.info ∧ c.info ≠ 3 ∧
      unfold 3 (write h' 2 [.val 9]) 3 ≠ unfold 3 h 3 :=
  shallow_fallback_counterexample

open Copy in
example : (Copy.seriesCopy sourceDiscipline 4 [[.val 1], [.val 0], [.val 1, .val 2], [.val 7, .ref 2]] ⟨0, 1, 3⟩).1.length = 8 := by
  decide +kernel


/-! ### the unrepaired sites -/
/-- `t[0:2] = arr` with `t` in ns multiplies the caller's array by 1000 -/
theorem setItem_current_counterexample :
    (setItem current [[1, 2]] ⟨[0, 0, 0], .ns, false⟩ 0 2 (.arr64 0)).1 = [[1000, 2000]] ∧
    (setItem fixed [[1, 2]] ⟨[0, 0, 0], .ns, false⟩ 0 2 (.arr64 0)) = ([[1, 2]], some [1000, 2000, 0]) := by
  decide

/-- before the repair a non-uniform operand was scaled and then refused -/
theorem checkUniform_before_counterexample :
    checkUniform beforeFirstRepair [[0, 1, 3]] .ns (.arr64 0) = ([[0, 1000, 3000]], .error .valueError) ∧
    checkUniform fixed [[0, 1, 3]] .ns (.arr64 0) = ([[0, 1, 3]], .error .valueError) := by
  decide

/-- before commit 38397b6 `t + arr` scaled `arr` -/
theorem binop_before_counterexample :
    (binop beforeFirstRepair [[1, 2]] ⟨[5, 5], .ns, false⟩ (.ar .add) (.arr64 0)).1 = [[1000, 2000]] := by
  decide

/-! ### non-vacuity -/
example : (binop current [[1, 2], [7]] ⟨[5, 5], .ns, false⟩ (.ar .add) (.arr64 0))
    = ([[1, 2], [7]], .time ⟨[1005, 2005], .ns, false⟩) := by decide

example : (crosscov chainFixed [[1, -1, 2, -2], [3, 1, -3, -1]] 0 1 false true true).2.map (·.2)
    = some [-1/2, 5/4, 1, -3/2] := by decide +kernel

example : (seriesArith [[1, 2], [0], [1], [7], [10, 20]] (· + ·) ⟨0, 1, 2, 3, none⟩ 4).1.getD 10 [] = [11, 22] := by
  decide

end Nitime.C16.Props
