/-
C13 — analyzer results do not depend on the order in which they are asked for.

Model: the `OneTime` machine (Model/OneTime.lean): `OneTimeProperty.__get__` with the getters'
bodies uninterpreted (`Sem`), run on the per-class effect tables that harness/translate_c13.py
regenerates from the source (Generated/Analyzers.lean).

General theorems (every table, every `Sem`, every history, every configuration):
  order_independent, order_independent_value, computed_once_memo, computed_once_count,
  construct_computes_nothing, reads_preserve_input, reads_preserve_results.
Generated side condition, decided per class over ALL configurations of its flags:
  <class>_noInterference.
The three defects found (in-place unwrap of the cached phase; in-place insertion into the cached
target dictionaries; `method['Fs']` filled only by a getter) are repaired in the repo; the regenerated
tables of those classes now satisfy the side condition.  `inplace_rewrite_*` / `late_fill_*` show on
edits of the generated tables that the side condition refutes exactly such effects (non-vacuity).
FilterAnalyzer with `ub=None` remains `_partial` + `_counterexample` (benign by value, see there).
-/
import Nitime.Lemmas.OneTime
import Nitime.Lemmas.Sessions
import Nitime.Generated.Analyzers

namespace Nitime.C13.Props
open Nitime.OneTime Nitime.Generated

variable {V I : Type}

/-! ### general theorems -/

/-- Whatever was read before (successfully or not), in whatever order, a read has the outcome it has
    on a freshly built object when the result is read first: the same value, or an exception
    (`none`) exactly when the fresh read raises. -/
theorem order_independent (spec : Spec) (present : List Nat) (sem : Sem V I) (dv : List Nat)
    (cp : Nat → Option V) (x : I) (hN : NoInterference spec present)
    (hp : ∀ p ∈ present, ((construct sem dv cp x).params p).isSome = true)
    (h : List Nat) (g : Nat) :
    (read spec sem g (run spec sem h (construct sem dv cp x))).2
      = (read spec sem g (construct sem dv cp x)).2 := by
  have i0 := construct_inv spec sem dv cp x present hp
  have ih := run_inv spec sem _ x present hN h _ i0
  unfold OneTime.read
  rw [(readF_correct spec sem _ x present hN (g + 1) g _ (Nat.lt_succ_self g) ih).2,
      (readF_correct spec sem _ x present hN (g + 1) g _ (Nat.lt_succ_self g) i0).2]

/-- VALUE-LEVEL version.  Suppose the getters see their parameters only up to a normalisation `norm`
    (e.g. `None` and the default it stands for are the same to them) and every fill-if-missing write
    of a `benign` slot stores a value that is canonically the missing one (`Blind`).  Then such
    writes may hit slots that `__init__` left empty and that other getters read: the outcome of every
    read is still that of a fresh object.  (`FilterAnalyzer` with `ub=None`: `filtered_fourier`
    stores the Nyquist frequency in `ub`, which the other filters take for `None` anyway.) -/
theorem order_independent_upto (norm : Nat → Option V → Option V) (benign : List Nat)
    (spec : Spec) (present : List Nat) (sem : Sem V I) (dv : List Nat)
    (cp : Nat → Option V) (x : I) (hN : NoInterference spec (present ++ benign))
    (hB : Blind spec sem norm benign)
    (hp : ∀ p ∈ present, ((construct sem dv cp x).params p).isSome = true)
    (h : List Nat) (g : Nat) :
    (read spec sem g (run spec sem h (construct sem dv cp x))).2
      = (read spec sem g (construct sem dv cp x)).2 := by
  have i0 : InvN norm spec sem (construct sem dv cp x).params x present (construct sem dv cp x) :=
    ⟨rfl, fun _ _ _ _ => rfl, fun g v h => by simp [construct] at h, hp⟩
  have ih := run_invN norm benign spec sem _ x present hN hB h _ i0
  unfold OneTime.read
  rw [(readF_correctN norm benign spec sem _ x present hN hB (g + 1) g _ (Nat.lt_succ_self g) ih).2,
      (readF_correctN norm benign spec sem _ x present hN hB (g + 1) g _ (Nat.lt_succ_self g) i0).2]

/-- … and that outcome is the function `ideal` of the input and the constructor parameters only. -/
theorem order_independent_value (spec : Spec) (present : List Nat) (sem : Sem V I) (dv : List Nat)
    (cp : Nat → Option V) (x : I) (hN : NoInterference spec present)
    (hp : ∀ p ∈ present, ((construct sem dv cp x).params p).isSome = true)
    (h : List Nat) (g : Nat) :
    (read spec sem g (run spec sem h (construct sem dv cp x))).2
      = ideal spec sem (construct sem dv cp x).params x g := by
  have i0 := construct_inv spec sem dv cp x present hp
  have ih := run_inv spec sem _ x present hN h _ i0
  exact (readF_correct spec sem _ x present hN (g + 1) g _ (Nat.lt_succ_self g) ih).2

/-- A read that raises does not memoise (the next read runs the getter again) … -/
theorem raising_read_stores_nothing (spec : Spec) (sem : Sem V I) (hS : Sorted spec) (g : Nat)
    (s : St V I) (h : (read spec sem g s).2 = none) : (read spec sem g s).1.cache g = none :=
  failed_read_stores_nothing spec sem hS g s h

/-- … and, when everything it reads is stored already, leaves the object exactly as it was
    (any table; in general only the reads of its dependencies have happened). -/
theorem raising_read_changes_nothing (spec : Spec) (sem : Sem V I) (g : Nat) (s : St V I)
    (hdeps : ∀ d ∈ (eff spec g).deps, (s.cache d).isSome = true)
    (h : (read spec sem g s).2 = none) : (read spec sem g s).1 = s :=
  failed_read_changes_nothing spec sem g s hdeps h

/-- A getter raises after a history exactly when it raises on a fresh object. -/
theorem raising_is_order_independent (spec : Spec) (present : List Nat) (sem : Sem V I)
    (dv : List Nat) (cp : Nat → Option V) (x : I) (hN : NoInterference spec present)
    (hp : ∀ p ∈ present, ((construct sem dv cp x).params p).isSome = true)
    (h : List Nat) (g : Nat) :
    (read spec sem g (run spec sem h (construct sem dv cp x))).2 = none ↔
      (read spec sem g (construct sem dv cp x)).2 = none := by
  rw [order_independent spec present sem dv cp x hN hp h g]

/-- Interference is observable (one step, every `Sem`): an in-place rewrite listed in the table
    changes the result already handed out whenever the rewrite is not the identity on it. -/
theorem interference_observable_clobber (spec : Spec) (sem : Sem V I) (hS : Sorted spec) (g k : Nat)
    (s : St V I) (v : V) (hk : s.cache k = some v) (hg : s.cache g = none)
    (hkg : k ∈ (eff spec g).clobbers)
    (hdeps : ∀ d ∈ (eff spec g).deps, (s.cache d).isSome = true)
    (hnr : ∀ dvs, sem.raises g dvs ((eff spec g).reads.map s.params)
      (inputArg (eff spec g) s.input) = false)
    (hC : sem.C g k v ≠ v) :
    (read spec sem g s).1.cache k ≠ s.cache k ∧
    (read spec sem k (read spec sem g s).1).2 ≠ (read spec sem k s).2 := by
  obtain ⟨a, b⟩ := clobber_observable spec sem hS g k s v hk hg hkg hdeps hnr
  refine ⟨by rw [a, hk]; simpa using hC, ?_⟩
  rw [b]
  have : (read spec sem k s).2 = some v := by unfold OneTime.read readF; simp [hk]
  rw [this]; simpa using hC

/-- A second read returns the stored value and changes nothing (no recomputation): any table. -/
theorem computed_once_memo (spec : Spec) (sem : Sem V I) (g : Nat) (s : St V I) (v : V)
    (h : (read spec sem g s).2 = some v) :
    read spec sem g (read spec sem g s).1 = ((read spec sem g s).1, some v) := by
  have hs := readF_stores spec sem (g + 1) g s v h
  unfold OneTime.read at hs ⊢
  generalize (readF spec sem (g + 1) g s).1 = s' at hs
  simp [readF, hs]

def CountInv (s : St V I) : Prop := ∀ g, s.count g = if (s.cache g).isSome then 1 else 0

theorem fire_countInv (sem : Sem V I) (e : Eff) (g : Nat) (dvs : List V) (pvs : List (Option V))
    (v : V) (s : St V I) (hs : CountInv s) (hg : s.cache g = none) :
    CountInv (fire sem e g dvs pvs v s) := by
  intro k
  by_cases hk : k = g
  · subst hk
    have := hs k
    rw [hg] at this
    simp [fire, this]
  · have := hs k
    simp only [fire, hk, if_false]
    split
    · rw [this]; cases s.cache k <;> simp
    · exact this

/-- Along every history from construction each getter runs at most once, and exactly the cached
    ones have run (dependency-ordered tables; in-place rewrites allowed). -/
theorem computed_once_count (spec : Spec) (sem : Sem V I) (hS : Sorted spec) (dv : List Nat)
    (cp : Nat → Option V) (x : I) (h : List Nat) (g : Nat) :
    (run spec sem h (construct sem dv cp x)).count g ≤ 1 ∧
    ((run spec sem h (construct sem dv cp x)).count g = 1 ↔
      ((run spec sem h (construct sem dv cp x)).cache g).isSome = true) := by
  have inv : CountInv (run spec sem h (construct sem dv cp x)) :=
    run_preserves spec sem CountInv
      (fun g s hs => readF_preserves spec sem hS CountInv
        (fun g dvs pvs v s hs hg => fire_countInv sem _ g dvs pvs v s hs hg) (g + 1) g s hs)
      h _ (fun g => by simp [construct])
  have := inv g
  cases hc : ((run spec sem h (construct sem dv cp x)).cache g) <;> simp [hc] at this ⊢ <;> omega

/-- Building an object computes nothing. -/
theorem construct_computes_nothing (sem : Sem V I) (dv : List Nat) (cp : Nat → Option V) (x : I)
    (g : Nat) : (construct sem dv cp x).cache g = none ∧ (construct sem dv cp x).count g = 0 :=
  ⟨rfl, rfl⟩

/-- Reads never alter the input … -/
theorem reads_preserve_input (spec : Spec) (sem : Sem V I) (hS : Sorted spec) (hC : NoClobber spec)
    (h : List Nat) (s : St V I) : (run spec sem h s).input = s.input :=
  run_preserves spec sem (fun s' => s'.input = s.input)
    (fun g s' hs' => readF_preserves spec sem hS (fun s' => s'.input = s.input)
      (fun g dvs pvs v s1 h1 _ => by simp [fire, hC.input g, h1]) (g + 1) g s' hs') h s rfl

/-- … nor a result already handed out. -/
theorem reads_preserve_results (spec : Spec) (sem : Sem V I) (hS : Sorted spec) (hC : NoClobber spec)
    (h : List Nat) (s : St V I) (k : Nat) (v : V) (hk : s.cache k = some v) :
    (run spec sem h s).cache k = some v :=
  run_preserves spec sem (fun s' => s'.cache k = some v)
    (fun g s' hs' => readF_preserves spec sem hS (fun s' => s'.cache k = some v)
      (fun g dvs pvs w s1 h1 hg => by
        have hne : k ≠ g := by intro e; subst e; rw [hg] at h1; simp at h1
        simp [fire, hne, hC.cache g, h1]) (g + 1) g s' hs') h s hk

/-! ### the generated tables -/

/-- the side condition holds for every configuration of the class's flags -/
def okAll (sp : AnalyzerSpec) : Prop :=
  ∀ cfg ∈ allCfgs sp.flagNames.length, noInterferenceB (sp.resolve cfg) (sp.present cfg) = true

instance (sp : AnalyzerSpec) : Decidable (okAll sp) := by unfold okAll; infer_instance

theorem noInterference_of_okAll {sp : AnalyzerSpec} (h : okAll sp) (cfg : List Nat)
    (hc : cfg ∈ allCfgs sp.flagNames.length) : NoInterference (sp.resolve cfg) (sp.present cfg) :=
  noInterference_of_B (h cfg hc)

theorem BaseAnalyzer_noInterference : okAll spec_BaseAnalyzer := by decide
theorem MTCoherenceAnalyzer_noInterference : okAll spec_MTCoherenceAnalyzer := by decide
theorem SparseCoherenceAnalyzer_noInterference : okAll spec_SparseCoherenceAnalyzer := by decide
theorem SpectralAnalyzer_noInterference : okAll spec_SpectralAnalyzer := by decide
theorem HilbertAnalyzer_noInterference : okAll spec_HilbertAnalyzer := by decide
theorem MorletWaveletAnalyzer_noInterference : okAll spec_MorletWaveletAnalyzer := by decide
theorem CorrelationAnalyzer_noInterference : okAll spec_CorrelationAnalyzer := by decide
theorem SeedCorrelationAnalyzer_noInterference : okAll spec_SeedCorrelationAnalyzer := by decide
theorem GrangerAnalyzer_noInterference : okAll spec_GrangerAnalyzer := by decide
theorem SNRAnalyzer_noInterference : okAll spec_SNRAnalyzer := by decide
theorem NormalizationAnalyzer_noInterference : okAll spec_NormalizationAnalyzer := by decide
theorem EventRelatedAnalyzer_noInterference : okAll spec_EventRelatedAnalyzer := by decide
theorem Epochs_noInterference : okAll spec_Epochs := by decide
/-- `TimeSeries.time` (the one-time attribute of the series themselves) -/
theorem TimeSeries_noInterference : okAll spec_TimeSeries := by decide

/-! #### FilterAnalyzer: `filtered_fourier` fills `ub` when it is None, and the other filters read
`ub`.  With `ub` given the side condition holds; with `ub=None` it does not (the readers treat None
and the Nyquist frequency alike, which an uninterpreted `F` cannot know): that configuration is
decided only by the per-run enumeration. -/
theorem FilterAnalyzer_partial :
    ∀ cfg ∈ allCfgs spec_FilterAnalyzer.flagNames.length, ¬ cfg.contains f_FilterAnalyzer_none_ub →
      noInterferenceB (spec_FilterAnalyzer.resolve cfg) (spec_FilterAnalyzer.present cfg) = true := by
  decide

/-- value level: with `ub` declared benign (see `order_independent_upto`) every configuration of
    FilterAnalyzer — `ub=None` included — satisfies the side condition.  What remains assumed, and is
    monitored on every run by the fresh-object oracle, is `Blind` for the real getters: `fir`, `iir`,
    `filtered_boxcar` treat `ub=None` as the Nyquist frequency, which is what `filtered_fourier` stores. -/
theorem FilterAnalyzer_noInterference_upto_ub :
    ∀ cfg ∈ allCfgs spec_FilterAnalyzer.flagNames.length,
      noInterferenceB (spec_FilterAnalyzer.resolve cfg)
        (spec_FilterAnalyzer.present cfg ++ [s_FilterAnalyzer_ub]) = true := by decide

theorem FilterAnalyzer_ubNone_counterexample :
    noInterferenceB (spec_FilterAnalyzer.resolve [f_FilterAnalyzer_none_ub])
      (spec_FilterAnalyzer.present [f_FilterAnalyzer_none_ub]) = false := by decide

/-! #### CoherenceAnalyzer, SeedCoherenceAnalyzer — repaired (findings C13
CoherenceAnalyzer/phase/rewritten-by-reading/delay, SeedCoherenceAnalyzer/target_cache/…,
SeedCoherenceAnalyzer/*/differs-from-fresh/after/target_cache; repo commits 7c8710e, 674b88e,
8f82d24).  The regenerated tables satisfy the side condition in every configuration. -/
theorem CoherenceAnalyzer_noInterference : okAll spec_CoherenceAnalyzer := by decide
theorem SeedCoherenceAnalyzer_noInterference : okAll spec_SeedCoherenceAnalyzer := by decide

/-- a semantics over numbers on which the effects are visible -/
def numSem : Sem Nat Nat :=
  { F := fun g dvs pvs x => 1000 * (g + 1) + dvs.sum + (pvs.map (fun o => o.getD 7)).sum + x.getD 0
    raises := fun _ _ _ _ => false
    W := fun g p _ _ _ => 50 + g + p
    C := fun _ _ v => v + 1
    CI := fun _ x => x + 1
    D := fun p x => p + x }

/-- The side condition is not idle: put the in-place unwrap of `phase` by `delay` (the defect that
    was repaired) back into the generated table and it is refuted … -/
theorem inplace_rewrite_refutes_side_condition :
    ∀ cfg ∈ allCfgs spec_CoherenceAnalyzer.flagNames.length,
      noInterferenceB ((spec_CoherenceAnalyzer.addClobber g_CoherenceAnalyzer_delay
        g_CoherenceAnalyzer_phase none).resolve cfg) (spec_CoherenceAnalyzer.present cfg) = false := by
  decide

/-- … and on that table the order of reads matters (concrete run of the machine): `phase` read
    after `delay` is not the `phase` a fresh object returns. -/
theorem inplace_rewrite_order_matters :
    let spec := (spec_CoherenceAnalyzer.addClobber g_CoherenceAnalyzer_delay
      g_CoherenceAnalyzer_phase none).resolve []
    let s0 := construct numSem [] (fun p => some p) 3
    (read spec numSem g_CoherenceAnalyzer_phase
        (run spec numSem [g_CoherenceAnalyzer_delay] s0)).2
      ≠ (read spec numSem g_CoherenceAnalyzer_phase s0).2 := by decide

/-- likewise a fill-if-missing write of a slot that `__init__` does not fill (what
    `SeedCoherenceAnalyzer.frequencies` did to `method['Fs']`): refuted when the slot is not
    guaranteed, fine when it is -/
theorem late_fill_refutes_side_condition :
    ∀ cfg ∈ allCfgs spec_SeedCoherenceAnalyzer.flagNames.length,
      noInterferenceB (spec_SeedCoherenceAnalyzer.resolve cfg) [] = false ∧
      noInterferenceB (spec_SeedCoherenceAnalyzer.resolve cfg) [s_SeedCoherenceAnalyzer_method_Fs] = true := by
  decide

/-- every generated table lists the getters in dependency order (so `read`'s budget suffices) -/
theorem all_tables_sorted :
    ∀ sp ∈ allSpecs, ∀ cfg ∈ allCfgs sp.flagNames.length, sortedB (sp.resolve cfg) = true := by decide

/-! ### non-vacuity -/

/-- the hypotheses of `order_independent` are met by a real table with a non-trivial history, and
    the conclusion is a non-trivial equation of the machine -/
example :
    (read (spec_GrangerAnalyzer.resolve []) numSem g_GrangerAnalyzer_causality_xy
        (run (spec_GrangerAnalyzer.resolve []) numSem
          [g_GrangerAnalyzer_spectral_matrix, g_GrangerAnalyzer_order]
          (construct numSem [] (fun p => some p) 3))).2
      = (read (spec_GrangerAnalyzer.resolve []) numSem g_GrangerAnalyzer_causality_xy
          (construct numSem [] (fun p => some p) 3)).2 :=
  order_independent _ (spec_GrangerAnalyzer.present []) numSem [] _ 3
    (noInterference_of_okAll GrangerAnalyzer_noInterference [] (by decide)) (by decide) _ _

example : (read (spec_GrangerAnalyzer.resolve []) numSem g_GrangerAnalyzer_causality_xy
    (construct numSem [] (fun p => some p) 3)).2 ≠ none := by decide

/-- a semantics in which GrangerAnalyzer's `_model` raises: every result that needs it raises, before
    and after any history; `frequencies` does not -/
def numSemR : Sem Nat Nat := { numSem with raises := fun g _ _ _ => g == g_GrangerAnalyzer__model }

example :
    let spec := spec_GrangerAnalyzer.resolve []
    let s0 := construct numSemR [] (fun p => some p) 3
    (read spec numSemR g_GrangerAnalyzer_causality_xy s0).2 = none ∧
    (read spec numSemR g_GrangerAnalyzer_causality_xy
      (run spec numSemR [g_GrangerAnalyzer_frequencies, g_GrangerAnalyzer_order] s0)).2 = none ∧
    (read spec numSemR g_GrangerAnalyzer_causality_xy s0).1.cache g_GrangerAnalyzer__model = none ∧
    (read spec numSemR g_GrangerAnalyzer_frequencies
      (run spec numSemR [g_GrangerAnalyzer_causality_xy] s0)).2 ≠ none := by decide


/-! ### PROCESS-level sessions: several live objects of base / derived / sibling / user classes
(Model/Sessions.lean, Lemmas/Sessions.lean).  The only state outside the objects that the one-time
machinery can have is (a) a class-level table of one-time names used by `reset`, (b) process-level
objects that constructors bind slots to.  Both are GENERATED from the current source. -/

open Nitime.OneTime.Sessions

/-- GENERATED side condition: `ResetMixin.reset` obtains the names it deletes in a safe way (today:
    it walks the class dictionaries of the MRO on every call; a table cached on the class and found
    with `getattr(cls, …)` — seed C13-9 — makes this `decide` fail at translation time) -/
theorem reset_name_source_safe : resetNameSource.safe = true := by decide

/-- GENERATED side condition: no constructor binds a slot that is later written into to a module-level /
    class-level object or to a mutable default argument (`self.method = default_method if method is None
    else …` — seed C13-7 — makes this fail) -/
theorem ctor_state_is_per_object : ∀ sp ∈ allSpecs, sp.processBound = [] := by decide

/-- INSTANCES ARE INDEPENDENT (today's `reset`): after ANY session — objects of any classes of any
    hierarchy constructed, read, reset, re-targeted in any order — every object is in the state that its
    own operations alone produce.  Hypothesis `hn`: no object is built with a slot bound to a
    process-level cell (what `ctor_state_is_per_object` says of `method=None`; a caller who hands ONE
    dict to two constructors that keep it is outside — see `shared_dict_interferes`). -/
theorem instances_independent (h : Hier) (sem : Sem V I) (ops : List (SOp V I)) (hn : NewUnbound ops)
    (o : Nat) : (srun resetNameSource h sem ops Proc.empty).obj o = objRun h sem o ops none :=
  session_proj reset_name_source_safe h sem ops Proc.empty (tablesOK_empty h)
    (by intro o ob hob; cases hob) hn o

/-- ORDER INDEPENDENCE IN A PROCESS.  Object `o` is constructed somewhere in the session and then only
    read (reads `l`, in any order, repeated or not); anything may happen to any other object before, in
    between and after.  Then a further read of `g` on `o` returns what a freshly built object returns
    when `g` is read first. -/
theorem session_order_independent (h : Hier) (sem : Sem V I) (spec : Spec) (present dv : List Nat)
    (cp : Nat → Option V) (x : I) (hN : NoInterference spec present)
    (hp : ∀ p ∈ present, ((construct sem dv cp x).params p).isSome = true)
    (ops : List (SOp V I)) (hn : NewUnbound ops) (o c : Nat) (l : List Nat) (g : Nat)
    (hproj : ops.filter (touches o) =
      SOp.new o { cls := c, spec := spec, st := construct sem dv cp x } ::
        l.map (fun g => SOp.on o (Op.read g))) :
    ∃ ob, (srun resetNameSource h sem ops Proc.empty).obj o = some ob ∧
      (read ob.spec sem g ob.st).2 = (read spec sem g (construct sem dv cp x)).2 := by
  refine ⟨_, session_reads_state reset_name_source_safe h sem ops hn o _ l hproj, ?_⟩
  exact order_independent spec present sem dv cp x hN hp l g

/-- the class-level tables: for a safe source every table left on a class by any session is the exact
    name list of that class (so `reset` clears exactly the fired attributes of the object's class and
    its ancestors — `namesFor_safe`) -/
theorem reset_clears_exactly_own_and_inherited (src : NameSource) (hs : src.safe = true) (h : Hier)
    (t : Tables) (ht : TablesOK h t) (c : Nat) (s : St V I) (k : Nat) :
    (reset (namesFor src h t c).1 s).cache k = (if k ∈ h.allNames c then none else s.cache k) := by
  rw [(namesFor_safe hs h t ht c).1]
  simp [reset]

/-! #### counterexamples: a table found through the parent lookup; a shared process-level dict -/

/-- class 0 = a base class owning the one-time name 0; class 1 derives from it and owns name 1 -/
def cexHier : Hier := { mro := fun c => if c = 1 then [1, 0] else [c], own := fun c => [c] }
def cexSpec : Spec := [{ usesInput := true }, { usesInput := true }]
def cexObj (c x : Nat) : Obj Nat Nat :=
  { cls := c, spec := cexSpec, st := construct numSem [] (fun p => some p) x }

/-- a base-class instance is reset first; then a derived instance is read and re-targeted -/
def ancestorFirst : List (SOp Nat Nat) :=
  [.new 0 (cexObj 0 3), .on 0 .reset, .new 1 (cexObj 1 3), .on 1 (.read 1),
   .on 1 (.retarget [] [] (fun _ => none) 500)]

/-- the same with the derived instance reset once before the base instance -/
def derivedFirst : List (SOp Nat Nat) :=
  [.new 1 (cexObj 1 3), .on 1 .reset, .new 0 (cexObj 0 3), .on 0 .reset, .on 1 (.read 1),
   .on 1 (.retarget [] [] (fun _ => none) 500)]

def readAfter (src : NameSource) (ops : List (SOp Nat Nat)) : Option (Option Nat) :=
  ((srun src cexHier numSem ops Proc.empty).obj 1).map fun ob => (read ob.spec numSem 1 ob.st).2

def freshRead : Option (Option Nat) :=
  some (read cexSpec numSem 1 (construct numSem [] (fun p => some p) 500)).2

/-- COUNTEREXAMPLE (seed C13-9 / C14-8): with a class-level table found through the parent lookup the
    derived object keeps its stale result after `set_input` in the ancestor-first session … -/
theorem inherited_table_ancestor_first_stale : readAfter .inheritedTable ancestorFirst ≠ freshRead := by
  decide

/-- … but not when the derived class happened to be reset first (why a single-class test never sees it),
    and never with a table looked up in the class's own dictionary or recomputed per call -/
theorem inherited_table_derived_first_fine : readAfter .inheritedTable derivedFirst = freshRead := by decide
theorem own_table_ancestor_first_fine : readAfter .ownTable ancestorFirst = freshRead := by decide
theorem walk_per_call_ancestor_first_fine : readAfter .walkPerCall ancestorFirst = freshRead := by decide
theorem inherited_table_not_safe : NameSource.inheritedTable.safe = false ∧ NameSource.unknown.safe = false :=
  ⟨rfl, rfl⟩

/-- one getter that reads slot 0 and fills it when missing (`method['Fs'] = method.get('Fs', rate)`) -/
def cellSpec : Spec := [{ reads := [0], dwrites := [0], usesInput := true }]
def cellObj (x : Nat) (b : List (Nat × Nat)) : Obj Nat Nat :=
  { cls := 0, spec := cellSpec, st := construct numSem [] (fun _ => none) x, bound := b }

def twoReads (b : List (Nat × Nat)) : Option (Option Nat) :=
  ((srun .walkPerCall cexHier numSem
      [.new 0 (cellObj 3 b), .new 1 (cellObj 4 b), .on 0 (.read 0), .on 1 (.read 0)] Proc.empty).obj 1).map
    fun ob => ob.st.cache 0

/-- COUNTEREXAMPLE (seed C13-7; the recorded finding for ONE user dict kept by two constructors): two
    analyzers whose slot lives in the same process-level dict — the second one's result is computed from
    what the first one wrote; with per-object dicts it is the fresh value -/
theorem shared_dict_interferes :
    twoReads [(0, 0)] ≠ some ((read cellSpec numSem 0 (construct numSem [] (fun _ => none) 4)).1.cache 0) ∧
    twoReads [] = some ((read cellSpec numSem 0 (construct numSem [] (fun _ => none) 4)).1.cache 0) := by
  decide

def grObj : Obj Nat Nat :=
  { cls := 2, spec := spec_GrangerAnalyzer.resolve [], st := construct numSem [] (fun p => some p) 3 }

/-- non-vacuity of `session_order_independent`: a three-object session of a real table -/
example :
    ∃ ob, (srun resetNameSource cexHier numSem
        [.new 7 (cexObj 0 9), .new 0 grObj,
         .on 7 .reset, .on 0 (.read g_GrangerAnalyzer_order), .new 5 (cexObj 1 4), .on 5 (.read 1),
         .on 0 (.read g_GrangerAnalyzer_spectral_matrix), .on 5 (.retarget [] [] (fun _ => none) 8)]
        Proc.empty).obj 0 = some ob ∧
      (read ob.spec numSem g_GrangerAnalyzer_causality_xy ob.st).2
        = (read (spec_GrangerAnalyzer.resolve []) numSem g_GrangerAnalyzer_causality_xy
            (construct numSem [] (fun p => some p) 3)).2 :=
  session_order_independent cexHier numSem _ (spec_GrangerAnalyzer.present []) [] _ 3
    (noInterference_of_okAll GrangerAnalyzer_noInterference [] (by decide)) (by decide) _
    (by intro o ob hm; simp at hm; rcases hm with ⟨_, rfl⟩ | ⟨_, rfl⟩ | ⟨_, rfl⟩ <;> rfl) 0 2
    [g_GrangerAnalyzer_order, g_GrangerAnalyzer_spectral_matrix] _ (by rfl)

end Nitime.C13.Props
