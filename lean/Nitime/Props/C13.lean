/-
C13 — analyzer results do not depend on the order in which they are asked for.

Model: the `OneTime` machine (Model/OneTime.lean): `OneTimeProperty.__get__` with the getters'
bodies uninterpreted (`Sem`), run on the per-class effect tables that harness/translate_c13.py
regenerates from the source (Generated/Analyzers.lean).

General theorems (every table, every `Sem`, every history, every configuration):
  order_independent, order_independent_value, computed_once_memo, computed_once_count,
  construct_computes_nothing, reads_preserve_input, reads_preserve_results.
Generated side condition, decided per class over ALL configurations of its flags:
  <class>_noInterference.
Where today's code interferes (recorded findings; `proposed_fixes/C13-*`), the statements are about
edits of the generated table so that they hold before and after the repair:
  `…_intended` (table without the offending effect satisfies the side condition),
  `…_counterexample` (table with the effect does not; plus a concrete run of the machine on which
  the order matters), `…_partial` (the untouched generated table, configurations that avoid the
  effect), `…_table_is_intended_or_current` (the generated table is one of the two).
-/
import Nitime.Lemmas.OneTime
import Nitime.Generated.Analyzers

namespace Nitime.C13.Props
open Nitime.OneTime Nitime.Generated

variable {V I : Type}

/-! ### general theorems -/

/-- Whatever was read before, in whatever order, a read returns what a freshly built object
    returns when the result is read first. -/
theorem order_independent (spec : Spec) (present : List Nat) (sem : Sem V I) (dv : List Nat)
    (cp : Nat → Option V) (x : I) (hN : NoInterference spec present)
    (hp : ∀ p ∈ present, ((construct sem dv cp x).params p).isSome = true)
    (h : List Nat) (g : Nat) :
    (read spec sem g (run spec sem h (construct sem dv cp x))).2
      = (read spec sem g (construct sem dv cp x)).2 := by
  have i0 := construct_inv spec sem dv cp x present hp
  have ih := run_inv spec sem _ x present hN h _ i0
  unfold OneTime.read
  rw [(readF_correct spec sem _ x present hN (g + 1) g _ (Nat.lt_succ_self g) ih).2,
      (readF_correct spec sem _ x present hN (g + 1) g _ (Nat.lt_succ_self g) i0).2]

/-- … and that value is the function `ideal` of the input and the constructor parameters only. -/
theorem order_independent_value (spec : Spec) (present : List Nat) (sem : Sem V I) (dv : List Nat)
    (cp : Nat → Option V) (x : I) (hN : NoInterference spec present)
    (hp : ∀ p ∈ present, ((construct sem dv cp x).params p).isSome = true)
    (h : List Nat) (g : Nat) :
    (read spec sem g (run spec sem h (construct sem dv cp x))).2
      = some (ideal spec sem (construct sem dv cp x).params x g) := by
  have i0 := construct_inv spec sem dv cp x present hp
  have ih := run_inv spec sem _ x present hN h _ i0
  exact (readF_correct spec sem _ x present hN (g + 1) g _ (Nat.lt_succ_self g) ih).2

/-- A second read returns the stored value and changes nothing (no recomputation): any table. -/
theorem computed_once_memo (spec : Spec) (sem : Sem V I) (g : Nat) (s : St V I) (v : V)
    (h : (read spec sem g s).2 = some v) :
    read spec sem g (read spec sem g s).1 = ((read spec sem g s).1, some v) := by
  have hs := readF_stores spec sem (g + 1) g s v h
  unfold OneTime.read at hs ⊢
  generalize (readF spec sem (g + 1) g s).1 = s' at hs
  simp [readF, hs]

def CountInv (s : St V I) : Prop := ∀ g, s.count g = if (s.cache g).isSome then 1 else 0

theorem fire_countInv (sem : Sem V I) (e : Eff) (g : Nat) (dvs : List V) (pvs : List (Option V))
    (v : V) (s : St V I) (hs : CountInv s) (hg : s.cache g = none) :
    CountInv (fire sem e g dvs pvs v s) := by
  intro k
  by_cases hk : k = g
  · subst hk
    have := hs k
    rw [hg] at this
    simp [fire, this]
  · have := hs k
    simp only [fire, hk, if_false]
    split
    · rw [this]; cases s.cache k <;> simp
    · exact this

/-- Along every history from construction each getter runs at most once, and exactly the cached
    ones have run (dependency-ordered tables; in-place rewrites allowed). -/
theorem computed_once_count (spec : Spec) (sem : Sem V I) (hS : Sorted spec) (dv : List Nat)
    (cp : Nat → Option V) (x : I) (h : List Nat) (g : Nat) :
    (run spec sem h (construct sem dv cp x)).count g ≤ 1 ∧
    ((run spec sem h (construct sem dv cp x)).count g = 1 ↔
      ((run spec sem h (construct sem dv cp x)).cache g).isSome = true) := by
  have inv : CountInv (run spec sem h (construct sem dv cp x)) :=
    run_preserves spec sem CountInv
      (fun g s hs => readF_preserves spec sem hS CountInv
        (fun g dvs pvs v s hs hg => fire_countInv sem _ g dvs pvs v s hs hg) (g + 1) g s hs)
      h _ (fun g => by simp [construct])
  have := inv g
  cases hc : ((run spec sem h (construct sem dv cp x)).cache g) <;> simp [hc] at this ⊢ <;> omega

/-- Building an object computes nothing. -/
theorem construct_computes_nothing (sem : Sem V I) (dv : List Nat) (cp : Nat → Option V) (x : I)
    (g : Nat) : (construct sem dv cp x).cache g = none ∧ (construct sem dv cp x).count g = 0 :=
  ⟨rfl, rfl⟩

/-- Reads never alter the input … -/
theorem reads_preserve_input (spec : Spec) (sem : Sem V I) (hS : Sorted spec) (hC : NoClobber spec)
    (h : List Nat) (s : St V I) : (run spec sem h s).input = s.input :=
  run_preserves spec sem (fun s' => s'.input = s.input)
    (fun g s' hs' => readF_preserves spec sem hS (fun s' => s'.input = s.input)
      (fun g dvs pvs v s1 h1 _ => by simp [fire, hC.input g, h1]) (g + 1) g s' hs') h s rfl

/-- … nor a result already handed out. -/
theorem reads_preserve_results (spec : Spec) (sem : Sem V I) (hS : Sorted spec) (hC : NoClobber spec)
    (h : List Nat) (s : St V I) (k : Nat) (v : V) (hk : s.cache k = some v) :
    (run spec sem h s).cache k = some v :=
  run_preserves spec sem (fun s' => s'.cache k = some v)
    (fun g s' hs' => readF_preserves spec sem hS (fun s' => s'.cache k = some v)
      (fun g dvs pvs w s1 h1 hg => by
        have hne : k ≠ g := by intro e; subst e; rw [hg] at h1; simp at h1
        simp [fire, hne, hC.cache g, h1]) (g + 1) g s' hs') h s hk

/-! ### the generated tables -/

/-- the side condition holds for every configuration of the class's flags -/
def okAll (sp : AnalyzerSpec) : Prop :=
  ∀ cfg ∈ allCfgs sp.flagNames.length, noInterferenceB (sp.resolve cfg) (sp.present cfg) = true

instance (sp : AnalyzerSpec) : Decidable (okAll sp) := by unfold okAll; infer_instance

theorem noInterference_of_okAll {sp : AnalyzerSpec} (h : okAll sp) (cfg : List Nat)
    (hc : cfg ∈ allCfgs sp.flagNames.length) : NoInterference (sp.resolve cfg) (sp.present cfg) :=
  noInterference_of_B (h cfg hc)

theorem BaseAnalyzer_noInterference : okAll spec_BaseAnalyzer := by decide
theorem MTCoherenceAnalyzer_noInterference : okAll spec_MTCoherenceAnalyzer := by decide
theorem SparseCoherenceAnalyzer_noInterference : okAll spec_SparseCoherenceAnalyzer := by decide
theorem SpectralAnalyzer_noInterference : okAll spec_SpectralAnalyzer := by decide
theorem HilbertAnalyzer_noInterference : okAll spec_HilbertAnalyzer := by decide
theorem MorletWaveletAnalyzer_noInterference : okAll spec_MorletWaveletAnalyzer := by decide
theorem CorrelationAnalyzer_noInterference : okAll spec_CorrelationAnalyzer := by decide
theorem SeedCorrelationAnalyzer_noInterference : okAll spec_SeedCorrelationAnalyzer := by decide
theorem GrangerAnalyzer_noInterference : okAll spec_GrangerAnalyzer := by decide
theorem SNRAnalyzer_noInterference : okAll spec_SNRAnalyzer := by decide
theorem NormalizationAnalyzer_noInterference : okAll spec_NormalizationAnalyzer := by decide
theorem EventRelatedAnalyzer_noInterference : okAll spec_EventRelatedAnalyzer := by decide
theorem Epochs_noInterference : okAll spec_Epochs := by decide

/-! #### FilterAnalyzer: `filtered_fourier` fills `ub` when it is None, and the other filters read
`ub`.  With `ub` given the side condition holds; with `ub=None` it does not (the readers treat None
and the Nyquist frequency alike, which an uninterpreted `F` cannot know): that configuration is
decided only by the per-run enumeration. -/
theorem FilterAnalyzer_partial :
    ∀ cfg ∈ allCfgs spec_FilterAnalyzer.flagNames.length, ¬ cfg.contains f_FilterAnalyzer_none_ub →
      noInterferenceB (spec_FilterAnalyzer.resolve cfg) (spec_FilterAnalyzer.present cfg) = true := by
  decide

theorem FilterAnalyzer_ubNone_counterexample :
    noInterferenceB (spec_FilterAnalyzer.resolve [f_FilterAnalyzer_none_ub])
      (spec_FilterAnalyzer.present [f_FilterAnalyzer_none_ub]) = false := by decide

/-! #### CoherenceAnalyzer: `delay` unwraps (a view of) the cached `phase` in place when
`unwrap_phases=True` (finding C13 CoherenceAnalyzer/phase/rewritten-by-reading/delay). -/
def coherenceIntended : AnalyzerSpec :=
  spec_CoherenceAnalyzer.strip g_CoherenceAnalyzer_delay [g_CoherenceAnalyzer_phase] []
def coherenceCurrent : AnalyzerSpec :=
  spec_CoherenceAnalyzer.addClobber g_CoherenceAnalyzer_delay g_CoherenceAnalyzer_phase
    (some (f_CoherenceAnalyzer_truthy__unwrap_phases, true))

theorem CoherenceAnalyzer_intended : okAll coherenceIntended := by decide

theorem CoherenceAnalyzer_partial :
    ∀ cfg ∈ allCfgs spec_CoherenceAnalyzer.flagNames.length,
      ¬ cfg.contains f_CoherenceAnalyzer_truthy__unwrap_phases →
      noInterferenceB (spec_CoherenceAnalyzer.resolve cfg) (spec_CoherenceAnalyzer.present cfg) = true := by
  decide

theorem CoherenceAnalyzer_unwrap_counterexample :
    ∀ cfg ∈ allCfgs coherenceCurrent.flagNames.length,
      cfg.contains f_CoherenceAnalyzer_truthy__unwrap_phases →
      noInterferenceB (coherenceCurrent.resolve cfg) (coherenceCurrent.present cfg) = false := by
  decide

theorem CoherenceAnalyzer_table_is_intended_or_current :
    ∀ cfg ∈ allCfgs spec_CoherenceAnalyzer.flagNames.length,
      spec_CoherenceAnalyzer.resolve cfg = coherenceIntended.resolve cfg ∨
      spec_CoherenceAnalyzer.resolve cfg = coherenceCurrent.resolve cfg := by decide

/-- a semantics over numbers on which the effects are visible -/
def numSem : Sem Nat Nat :=
  { F := fun g dvs pvs x => 1000 * (g + 1) + dvs.sum + (pvs.map (fun o => o.getD 7)).sum + x.getD 0
    W := fun g p _ _ _ => 50 + g + p
    C := fun _ _ v => v + 1
    CI := fun _ x => x + 1
    D := fun p x => p + x }

/-- On the table with the in-place unwrap the order matters: `phase` read after `delay` is not the
    `phase` a fresh object returns (concrete run of the machine). -/
theorem CoherenceAnalyzer_unwrap_order_matters :
    let spec := coherenceCurrent.resolve [f_CoherenceAnalyzer_truthy__unwrap_phases]
    let s0 := construct numSem [] (fun p => some p) 3
    (read spec numSem g_CoherenceAnalyzer_phase
        (run spec numSem [g_CoherenceAnalyzer_delay] s0)).2
      ≠ (read spec numSem g_CoherenceAnalyzer_phase s0).2 := by decide

/-! #### SeedCoherenceAnalyzer: `coherency` inserts the seed's FFT slices into the cached
`target_cache` dictionary, and `method['Fs']` is filled only by `frequencies`, after which
`target_cache` computes something else (findings C13 SeedCoherenceAnalyzer/…). -/
def seedIntended : AnalyzerSpec :=
  spec_SeedCoherenceAnalyzer.strip g_SeedCoherenceAnalyzer_coherency
    [g_SeedCoherenceAnalyzer_target_cache] []
def seedCurrent : AnalyzerSpec :=
  spec_SeedCoherenceAnalyzer.addClobber g_SeedCoherenceAnalyzer_coherency
    g_SeedCoherenceAnalyzer_target_cache none

/-- with `method['Fs']` present after `__init__` and without the in-place insertion: no interference -/
theorem SeedCoherenceAnalyzer_intended :
    ∀ cfg ∈ allCfgs seedIntended.flagNames.length,
      noInterferenceB (seedIntended.resolve cfg) [s_SeedCoherenceAnalyzer_method_Fs] = true := by decide

theorem SeedCoherenceAnalyzer_clobber_counterexample :
    ∀ cfg ∈ allCfgs seedCurrent.flagNames.length,
      noInterferenceB (seedCurrent.resolve cfg) [s_SeedCoherenceAnalyzer_method_Fs] = false := by decide

/-- `method['Fs']` not guaranteed by `__init__`: the fill by `frequencies` interferes with the readers -/
theorem SeedCoherenceAnalyzer_fs_counterexample :
    ∀ cfg ∈ allCfgs seedIntended.flagNames.length,
      noInterferenceB (seedIntended.resolve cfg) [] = false := by decide

theorem SeedCoherenceAnalyzer_table_is_intended_or_current :
    ∀ cfg ∈ allCfgs spec_SeedCoherenceAnalyzer.flagNames.length,
      spec_SeedCoherenceAnalyzer.resolve cfg = seedIntended.resolve cfg ∨
      spec_SeedCoherenceAnalyzer.resolve cfg = seedCurrent.resolve cfg := by decide

theorem SeedCoherenceAnalyzer_order_matters :
    let spec := seedCurrent.resolve []
    let s0 := construct numSem [] (fun p => if p = s_SeedCoherenceAnalyzer_method_Fs then none else some p) 3
    (read spec numSem g_SeedCoherenceAnalyzer_target_cache
        (run spec numSem [g_SeedCoherenceAnalyzer_frequencies] s0)).2
      ≠ (read spec numSem g_SeedCoherenceAnalyzer_target_cache s0).2 := by decide

/-- every generated table lists the getters in dependency order (so `read`'s budget suffices) -/
theorem all_tables_sorted :
    ∀ sp ∈ allSpecs, ∀ cfg ∈ allCfgs sp.flagNames.length, sortedB (sp.resolve cfg) = true := by decide

/-! ### non-vacuity -/

/-- the hypotheses of `order_independent` are met by a real table with a non-trivial history, and
    the conclusion is a non-trivial equation of the machine -/
example :
    (read (spec_GrangerAnalyzer.resolve []) numSem g_GrangerAnalyzer_causality_xy
        (run (spec_GrangerAnalyzer.resolve []) numSem
          [g_GrangerAnalyzer_spectral_matrix, g_GrangerAnalyzer_order]
          (construct numSem [] (fun p => some p) 3))).2
      = (read (spec_GrangerAnalyzer.resolve []) numSem g_GrangerAnalyzer_causality_xy
          (construct numSem [] (fun p => some p) 3)).2 :=
  order_independent _ (spec_GrangerAnalyzer.present []) numSem [] _ 3
    (noInterference_of_okAll GrangerAnalyzer_noInterference [] (by decide)) (by decide) _ _

example : (read (spec_GrangerAnalyzer.resolve []) numSem g_GrangerAnalyzer_causality_xy
    (construct numSem [] (fun p => some p) 3)).2 ≠ none := by decide

end Nitime.C13.Props
