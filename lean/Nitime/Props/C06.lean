/-
C06 — property theorems for the cross-spectral matrices of the spectral model
(`Nitime/Model/C04.lean`, `Nitime/Model/C06.lean`), read at `R = ℝ`, `K = ℂ`.

Central statements: every matrix the estimators return is a Gram kernel
`gramK c T u i j = c · Σ_t u i t · conj (u j t)` of per-channel vectors (`…_is_gram`), although
the source only computes the lower (or, for Welch, upper) triangle and completes it.  Hermitian
symmetry, positive semidefiniteness (Mathlib `Matrix.PosSemidef`), the real diagonal equal to the
single-channel estimator, and the independence of an entry from bystander channels (subset /
permutation / flattening invariance) follow.
-/
import Nitime.Model.C06
import Nitime.Lemmas.Gram
import Nitime.Props.C04

namespace Nitime.C06.Props
open Finset Nitime.Num Nitime.Spectral Nitime.C04 Nitime.C06 Nitime.Gram Nitime.Generated.SpecIdx
open Nitime.C04.Props
open scoped ComplexOrder

variable {N : ℕ}

/-! ### the completion of a triangle of a Hermitian kernel is the kernel -/

/-- `csd_pairs.transpose(1,0,2).conj() + csd_pairs` with the diagonal halved gives back a
Hermitian kernel `P` from its lower triangle -/
theorem completeHermitian_of_hermitian (P : ℕ → ℕ → ℕ → ℂ)
    (hP : ∀ i j k, P j i k = (starRingEnd ℂ) (P i j k)) (i j k : ℕ) :
    completeHermitian (lowerPairs P) i j k = P i j k := by
  unfold completeHermitian lowerPairs
  simp only [conj_complex, zero_complex, kscale_eq, ofNat_real]
  rcases Nat.lt_trichotomy i j with h | h | h
  · have h1 : ¬ j ≤ i := by omega
    have h2 : i ≤ j := by omega
    have h3 : i ≠ j := by omega
    simp only [h1, h2, h3, if_true, if_false, add_zero, hP i j k, Complex.conj_conj]
  · subst h
    have hr := hP i i k
    simp only [le_refl, if_true]
    rw [← hr]; push_cast; ring
  · have h1 : j ≤ i := by omega
    have h2 : ¬ i ≤ j := by omega
    have h3 : i ≠ j := by omega
    simp only [h1, h2, h3, if_true, if_false, map_zero, zero_add]

/-- whatever is in the triangle, the completed array is Hermitian -/
theorem completeHermitian_hermitian (L : ℕ → ℕ → ℕ → ℂ) (i j k : ℕ) :
    completeHermitian L j i k = (starRingEnd ℂ) (completeHermitian L i j k) := by
  unfold completeHermitian
  simp only [conj_complex, kscale_eq, ofNat_real]
  by_cases h : i = j
  · subst h
    simp only [if_true, map_mul, map_add, Complex.conj_conj, Complex.conj_ofReal]; ring
  · have h' : j ≠ i := fun e => h e.symm
    simp only [h, h', if_false, map_add, Complex.conj_conj]; ring

/-- the same for the upper-triangle convention of `get_spectra` (Welch) -/
theorem completeUpper_of_hermitian (P : ℕ → ℕ → ℕ → ℂ)
    (hP : ∀ i j k, P j i k = (starRingEnd ℂ) (P i j k)) (i j k : ℕ) :
    completeUpper (fun i j k => if i ≤ j then P i j k else 0) i j k = P i j k := by
  unfold completeUpper
  by_cases h : i ≤ j
  · simp [h]
  · have h2 : j ≤ i := by omega
    simp only [h, h2, if_true, if_false, conj_complex, hP i j k, Complex.conj_conj]

/-! ### multitaper cross-spectral matrix -/

/-- per-channel vector of the multitaper Gram structure at bin `k`: the tapered spectra of channel
`i`, each weighted by `w_{i,t}(k) / (Σ_t w_{i,t}(k)²)^½` -/
noncomputable def mtU (tw : ℕ → ℂ) (n N T : ℕ) (h : ℕ → ℕ → ℝ) (w : ℕ → ℕ → ℕ → ℝ)
    (x : ℕ → ℕ → ℂ) (k i t : ℕ) : ℂ :=
  ((w i t k / Real.sqrt (∑ s ∈ range T, w i s k * w i s k) : ℝ) : ℂ) * taperedSpec tw N n (h t) (x i) k

/-- the positive factor: one-sided doubling over `Fs` -/
noncomputable def mtC (Fs : ℝ) (N : ℕ) (os : Bool) (k : ℕ) : ℝ :=
  (if os = true ∧ 1 ≤ k ∧ k < (N + 1) / 2 then 2 else 1) / Fs

theorem mtC_nonneg {Fs : ℝ} (hFs : 0 < Fs) (os : Bool) (k : ℕ) : 0 ≤ mtC Fs N os k := by
  unfold mtC; split_ifs <;> positivity

/-- `mtm_cross_spectrum` with a pair of weights, divided by `Fs`, is a Gram kernel -/
theorem mtmCross_gram (tw : ℕ → ℂ) (Fs : ℝ) (n : ℕ) (os : Bool) (T : ℕ) (h : ℕ → ℕ → ℝ)
    (w : ℕ → ℕ → ℕ → ℝ) (x : ℕ → ℕ → ℂ) (i j k : ℕ) :
    ((1 / Fs : ℝ) : ℂ) * mtmCross N os T (w i) (w j)
        (fun t => taperedSpec tw N n (h t) (x i)) (fun t => taperedSpec tw N n (h t) (x j)) k
      = gramK (mtC Fs N os k) T (mtU tw n N T h w x k) i j := by
  unfold mtmCross gramK mtC mtU dblIf
  simp only [rsum_eq, ksum_eq, kscale_eq, conj_complex, ofNat_real, sqrt_real, mtm_Fl, Nat.cast_ofNat,
    Nat.cast_one]
  split_ifs
  · rw [Finset.mul_sum, Finset.mul_sum, Finset.mul_sum, Finset.mul_sum]
    refine sum_congr rfl fun t _ => ?_
    simp only [map_mul, Complex.conj_ofReal]
    push_cast; ring
  · rw [Finset.mul_sum, Finset.mul_sum, Finset.mul_sum]
    refine sum_congr rfl fun t _ => ?_
    simp only [map_mul, Complex.conj_ofReal]
    push_cast; ring

/-- `completed_is_gram` (multitaper): entry `(i, j)` of `multi_taper_csd` — for ALL `i, j`, not
only the computed triangle — is `c(k)·⟨u_i(k), u_j(k)⟩` -/
theorem multiTaperCsd_is_gram (tw : ℕ → ℂ) (Fs : ℝ) (n : ℕ) (os : Bool) (T : ℕ) (h : ℕ → ℕ → ℝ)
    (w : ℕ → ℕ → ℕ → ℝ) (x : ℕ → ℕ → ℂ) (i j k : ℕ) :
    multiTaperCsdAt tw Fs n N os T h w x i j k
      = gramK (mtC Fs N os k) T (mtU tw n N T h w x k) i j := by
  unfold multiTaperCsdAt multiTaperCsdOf
  set P : ℕ → ℕ → ℕ → ℂ := fun i j k => mtmCross N os T (w i) (w j)
    (fun t => taperedSpec tw N n (h t) (x i)) (fun t => taperedSpec tw N n (h t) (x j)) k with hPdef
  have hg : ∀ i j k, ((1 / Fs : ℝ) : ℂ) * P i j k = gramK (mtC Fs N os k) T (mtU tw n N T h w x k) i j :=
    fun i j k => mtmCross_gram tw Fs n os T h w x i j k
  by_cases hFs : Fs = 0
  · -- degenerate `Fs = 0`: both sides vanish
    have : ∀ i j k, gramK (mtC Fs N os k) T (mtU tw n N T h w x k) i j = 0 := by
      intro i j k; rw [← hg]; simp [hFs]
    rw [this]; simp [kscale_eq, hFs]
  · have hP : ∀ i j k, P j i k = (starRingEnd ℂ) (P i j k) := by
      intro i j k
      have hne : ((1 / Fs : ℝ) : ℂ) ≠ 0 := by
        rw [Ne, Complex.ofReal_eq_zero]; exact one_div_ne_zero hFs
      apply mul_left_cancel₀ hne
      rw [hg j i k, gramK_hermitian, ← hg i j k, map_mul, Complex.conj_ofReal]
    rw [kscale_eq, ofNat_real, completeHermitian_of_hermitian P hP, ← hg]; norm_num

/-- `csd_hermitian` / `swap_conj`: swapping the two channels conjugates the entry -/
theorem multiTaperCsd_hermitian (tw : ℕ → ℂ) (Fs : ℝ) (n : ℕ) (os : Bool) (T : ℕ) (h : ℕ → ℕ → ℝ)
    (w : ℕ → ℕ → ℕ → ℝ) (x : ℕ → ℕ → ℂ) (i j k : ℕ) :
    multiTaperCsdAt tw Fs n N os T h w x j i k
      = (starRingEnd ℂ) (multiTaperCsdAt tw Fs n N os T h w x i j k) := by
  rw [multiTaperCsd_is_gram, multiTaperCsd_is_gram, gramK_hermitian]

/-- `csd_posSemidef`: every `M × M` section of the multitaper cross-spectral matrix at a bin is
positive semidefinite (`Fs > 0`; any real weights, fixed or adaptive) -/
theorem multiTaperCsd_posSemidef (tw : ℕ → ℂ) {Fs : ℝ} (hFs : 0 < Fs) (n : ℕ) (os : Bool) (T : ℕ)
    (h : ℕ → ℕ → ℝ) (w : ℕ → ℕ → ℕ → ℝ) (x : ℕ → ℕ → ℂ) (k M : ℕ) :
    (Matrix.of fun (i j : Fin M) => multiTaperCsdAt tw Fs n N os T h w x i j k).PosSemidef := by
  simp only [multiTaperCsd_is_gram]
  exact gramK_posSemidef (mtC_nonneg hFs os k) T _ M

/-- `entry_depends_on_pair` as re-indexing invariance: computing the matrix of the channels
`x ∘ σ` (any selection, permutation, repetition or flattening of channels) gives at `(i, j)` the
entry `(σ i, σ j)` of the matrix of `x` — bystander channels do not matter -/
theorem multiTaperCsd_reindex (tw : ℕ → ℂ) (Fs : ℝ) (n : ℕ) (os : Bool) (T : ℕ) (h : ℕ → ℕ → ℝ)
    (w : ℕ → ℕ → ℕ → ℝ) (x : ℕ → ℕ → ℂ) (σ : ℕ → ℕ) (i j k : ℕ) :
    multiTaperCsdAt tw Fs n N os T h (fun i => w (σ i)) (fun i => x (σ i)) i j k
      = multiTaperCsdAt tw Fs n N os T h w x (σ i) (σ j) k := by
  rw [multiTaperCsd_is_gram, multiTaperCsd_is_gram]
  exact gramK_congr _ _ (fun t _ => rfl) (fun t _ => rfl)

/-- `diag_real_eq_psd`: the diagonal entry is the (real) `multi_taper_psd` of that channel with the
same tapers and weights -/
theorem multiTaperCsd_diag (tw : ℕ → ℂ) (Fs : ℝ) (n : ℕ) (os : Bool) (T : ℕ) (h : ℕ → ℕ → ℝ)
    (w : ℕ → ℕ → ℕ → ℝ) (x : ℕ → ℕ → ℂ) (i k : ℕ) :
    multiTaperCsdAt tw Fs n N os T h w x i i k
      = ((multiTaperPsdAt tw Fs n N os T h (w i) (x i) k : ℝ) : ℂ) := by
  rw [multiTaperCsd_is_gram, gramK_diag]
  congr 1
  have ha : 0 ≤ ∑ s ∈ range T, w i s k * w i s k := sum_nonneg fun s _ => mul_self_nonneg _
  have hu : ∀ t, Complex.normSq (mtU tw n N T h w x k i t)
      = w i t k * w i t k / (∑ s ∈ range T, w i s k * w i s k)
          * Complex.normSq (taperedSpec tw N n (h t) (x i) k) := by
    intro t
    unfold mtU
    rw [Complex.normSq_mul, Complex.normSq_ofReal, div_mul_div_comm, Real.mul_self_sqrt ha]
  simp only [hu]
  unfold multiTaperPsdAt multiTaperPsdOf
  rw [mtmAuto_eq]
  unfold mtC dblIf
  simp only [mtm_Fl, Finset.sum_div]
  have e : ∀ t, w i t k * w i t k / (∑ s ∈ range T, w i s k * w i s k)
        * Complex.normSq (taperedSpec tw N n (h t) (x i) k)
      = w i t k * w i t k * Complex.normSq (taperedSpec tw N n (h t) (x i) k)
        / (∑ s ∈ range T, w i s k * w i s k) := fun t => by ring
  simp only [e]
  split_ifs <;> ring

/-! ### all-pairs periodogram -/

/-- the factor of `periodogram_csd` at bin `k` (one-sided: the source's three-branch assembly) -/
noncomputable def pcC (Fs : ℝ) (n N : ℕ) (os : Bool) (k : ℕ) : ℝ :=
  (if os = true then
      (if k = 0 then 1 else if k < (N + 1) / 2 then 2
        else if (N + 1) / 2 < N / 2 + 1 ∧ k = N / 2 + 1 - 1 then 1 else 0)
    else 1) / (Fs * n)

theorem pcC_nonneg {Fs : ℝ} (hFs : 0 < Fs) (n : ℕ) (os : Bool) (k : ℕ) : 0 ≤ pcC Fs n N os k := by
  unfold pcC; split_ifs <;> positivity

theorem completeHermitian_of_gram (P : ℕ → ℕ → ℕ → ℂ) (c : ℕ → ℝ) (T : ℕ) (u : ℕ → ℕ → ℕ → ℂ)
    (hP : ∀ i j k, P i j k = gramK (c k) T (u k) i j) (i j k : ℕ) :
    completeHermitian (lowerPairs P) i j k = gramK (c k) T (u k) i j := by
  rw [completeHermitian_of_hermitian P (fun i j k => by rw [hP, hP, gramK_hermitian]), hP]

/-- `completed_is_gram` (periodogram): a rank-one Gram kernel of the channel spectra -/
theorem periodogramCsd_is_gram (tw : ℕ → ℂ) (Fs : ℝ) (n : ℕ) (os : Bool) (x : ℕ → ℕ → ℂ)
    (i j k : ℕ) :
    periodogramCsdAt tw Fs n N os x i j k
      = gramK (pcC Fs n N os k) 1 (fun i _ => spec tw N n (x i) k) i j := by
  unfold periodogramCsdAt periodogramCsdOf
  refine completeHermitian_of_gram _ (pcC Fs n N os) 1 (fun k i _ => spec tw N n (x i) k) ?_ i j k
  intro i j k
  unfold gramK pcC csdPair csdPairOne
  simp only [Finset.sum_range_one, kscale_eq, conj_complex, ofNat_real, zero_complex,
    periodogram_csd_Fl, periodogram_csd_Fn, Nat.cast_ofNat, Nat.cast_one]
  by_cases hos : os = true
  · simp only [hos, if_true]
    by_cases h0 : k = 0
    · subst h0; simp
    · by_cases h1 : k < (N + 1) / 2
      · simp only [if_neg h0, if_pos h1]; push_cast; ring
      · by_cases h2 : (N + 1) / 2 < N / 2 + 1 ∧ k = N / 2 + 1 - 1
        · simp only [if_neg h0, if_neg h1, if_pos h2]
        · simp only [if_neg h0, if_neg h1, if_neg h2]; simp
  · simp only [hos]; simp

theorem periodogramCsd_hermitian (tw : ℕ → ℂ) (Fs : ℝ) (n : ℕ) (os : Bool) (x : ℕ → ℕ → ℂ)
    (i j k : ℕ) :
    periodogramCsdAt tw Fs n N os x j i k
      = (starRingEnd ℂ) (periodogramCsdAt tw Fs n N os x i j k) := by
  rw [periodogramCsd_is_gram, periodogramCsd_is_gram, gramK_hermitian]

theorem periodogramCsd_posSemidef (tw : ℕ → ℂ) {Fs : ℝ} (hFs : 0 < Fs) (n : ℕ) (os : Bool)
    (x : ℕ → ℕ → ℂ) (k M : ℕ) :
    (Matrix.of fun (i j : Fin M) => periodogramCsdAt tw Fs n N os x i j k).PosSemidef := by
  simp only [periodogramCsd_is_gram]
  exact gramK_posSemidef (pcC_nonneg hFs n os k) 1 _ M

theorem periodogramCsd_reindex (tw : ℕ → ℂ) (Fs : ℝ) (n : ℕ) (os : Bool) (x : ℕ → ℕ → ℂ)
    (σ : ℕ → ℕ) (i j k : ℕ) :
    periodogramCsdAt tw Fs n N os (fun i => x (σ i)) i j k
      = periodogramCsdAt tw Fs n N os x (σ i) (σ j) k := by
  rw [periodogramCsd_is_gram, periodogramCsd_is_gram]
  exact gramK_congr _ _ (fun t _ => rfl) (fun t _ => rfl)

/-- `diag_real_eq_psd` (periodogram): the diagonal is `periodogram` of that channel (this is the
INTENDED normalisation `Fs·n`; today's source divides the matrix by `Fs·NFFT`) -/
theorem periodogramCsd_diag (tw : ℕ → ℂ) (Fs : ℝ) (n : ℕ) (os : Bool) (x : ℕ → ℕ → ℂ) (i k : ℕ) :
    periodogramCsdAt tw Fs n N os x i i k = ((periodogramAt tw Fs n N os (x i) k : ℝ) : ℂ) := by
  rw [periodogramCsd_is_gram, gramK_diag]
  congr 1
  unfold pcC periodogramAt periodogramOf pgOne
  simp only [Finset.sum_range_one, sqmag_eq, ofNat_real, Fl, Fn, periodogram_Fl, periodogram_Fn,
    Nat.cast_ofNat, Nat.cast_zero]
  by_cases hos : os = true
  · simp only [hos, if_true]
    by_cases h0 : k = 0
    · subst h0; simp only [if_true]; ring
    · simp only [h0, if_false]
      split_ifs <;> ring
  · simp only [hos, if_false]; norm_num; ring

/-- `periodogramCsd_diag_parseval` (C04 clause): the auto-densities on the diagonal of
`periodogram_csd` integrate to the mean power of that channel (two-sided; intended normalisation) -/
theorem periodogramCsd_diag_parseval_twosided {ζ : ℂ} (hN : 0 < N) (hζ : IsPrimitiveRoot ζ N)
    (hc : (starRingEnd ℂ) ζ = ζ⁻¹) {n : ℕ} (hn : 0 < n) (hnN : n ≤ N) {Fs : ℝ} (hFs : Fs ≠ 0)
    (x : ℕ → ℕ → ℂ) (i : ℕ) :
    ∑ k ∈ range N, (periodogramCsdAt (tw ζ) Fs n N false x i i k).re * (Fs / N)
      = (∑ j ∈ range n, Complex.normSq (x i j)) / n := by
  simp only [periodogramCsd_diag, Complex.ofReal_re]
  simpa [outLen] using periodogram_parseval_twosided hN hζ hc hn hnN hFs (x i)

/-- one-sided, real channel -/
theorem periodogramCsd_diag_parseval_onesided {ζ : ℂ} (hN : 0 < N) (hζ : IsPrimitiveRoot ζ N)
    (hc : (starRingEnd ℂ) ζ = ζ⁻¹) {n : ℕ} (hn : 0 < n) (hnN : n ≤ N) {Fs : ℝ} (hFs : Fs ≠ 0)
    (x : ℕ → ℕ → ℂ) (i : ℕ) (hx : ∀ j, (starRingEnd ℂ) (x i j) = x i j) :
    ∑ k ∈ range (periodogram_csd_Fn N), (periodogramCsdAt (tw ζ) Fs n N true x i i k).re * (Fs / N)
      = (∑ j ∈ range n, Complex.normSq (x i j)) / n := by
  simp only [periodogramCsd_diag, Complex.ofReal_re]
  simpa [outLen] using periodogram_parseval_onesided hN hζ hc hn hnN hFs (x i) hx

/-! ### Welch (`get_spectra`): the completed upper-triangular array -/

noncomputable def wC (Fs : ℝ) (n N nov : ℕ) (os : Bool) (win : ℕ → ℝ) (m : ℕ) : ℝ :=
  (if os = true ∧ 1 ≤ welchBin N os m ∧ welchBin N os m < (N + 1) / 2 then 2 else 1)
    / ((welchSegs n N nov : ℝ) * (Fs * ∑ j ∈ range N, win j * win j))

theorem wC_nonneg {Fs : ℝ} (hFs : 0 < Fs) (n nov : ℕ) (os : Bool) (win : ℕ → ℝ) (m : ℕ) :
    0 ≤ wC Fs n N nov os win m := by
  unfold wC
  have : 0 ≤ ∑ j ∈ range N, win j * win j := sum_nonneg fun j _ => mul_self_nonneg _
  split_ifs <;> positivity

/-- `completed_is_gram` (Welch): the Hermitian completion of what `get_spectra` returns is the
Gram kernel of the windowed segment spectra (entry `[i][j]`, `i ≤ j`, is `csd(x_j, x_i)`) -/
theorem welchCompleted_is_gram (tw : ℕ → ℂ) (Fs : ℝ) (n nov : ℕ) (os : Bool) (win : ℕ → ℝ)
    (x : ℕ → ℕ → ℂ) (i j m : ℕ) :
    welchCompletedAt tw Fs n N nov os win x i j m
      = gramK (wC Fs n N nov os win m) (welchSegs n N nov)
          (fun i s => segSpec tw N n nov win (x i) s (welchBin N os m)) i j := by
  set P : ℕ → ℕ → ℕ → ℂ := fun i j m => welchCsdOf Fs n N nov os win
    (segSpec tw N n nov win (x j)) (segSpec tw N n nov win (x i)) m with hPdef
  have hW : welchSpectraAt tw Fs n N nov os win x = fun i j m => if i ≤ j then P i j m else 0 := by
    funext i j m; rfl
  have hg : ∀ i j m, P i j m = gramK (wC Fs n N nov os win m) (welchSegs n N nov)
      (fun i s => segSpec tw N n nov win (x i) s (welchBin N os m)) i j := by
    intro i j m
    simp only [hPdef]
    unfold welchCsdOf gramK wC dblIf
    simp only [rsum_eq, ksum_eq, kscale_eq, conj_complex, ofNat_real, mtm_Fl, Nat.cast_ofNat, Nat.cast_one]
    have hsum : ∑ s ∈ range (welchSegs n N nov),
          (starRingEnd ℂ) (segSpec tw N n nov win (x j) s (welchBin N os m))
            * segSpec tw N n nov win (x i) s (welchBin N os m)
        = ∑ s ∈ range (welchSegs n N nov), segSpec tw N n nov win (x i) s (welchBin N os m)
            * (starRingEnd ℂ) (segSpec tw N n nov win (x j) s (welchBin N os m)) :=
      sum_congr rfl fun s _ => mul_comm _ _
    rw [hsum]
    split_ifs <;> push_cast <;> ring
  unfold welchCompletedAt
  rw [hW, completeUpper_of_hermitian P (fun i j m => by rw [hg, hg, gramK_hermitian]), hg]

theorem welchCompleted_hermitian (tw : ℕ → ℂ) (Fs : ℝ) (n nov : ℕ) (os : Bool) (win : ℕ → ℝ)
    (x : ℕ → ℕ → ℂ) (i j m : ℕ) :
    welchCompletedAt tw Fs n N nov os win x j i m
      = (starRingEnd ℂ) (welchCompletedAt tw Fs n N nov os win x i j m) := by
  rw [welchCompleted_is_gram, welchCompleted_is_gram, gramK_hermitian]

theorem welchCompleted_posSemidef (tw : ℕ → ℂ) {Fs : ℝ} (hFs : 0 < Fs) (n nov : ℕ) (os : Bool)
    (win : ℕ → ℝ) (x : ℕ → ℕ → ℂ) (m M : ℕ) :
    (Matrix.of fun (i j : Fin M) => welchCompletedAt tw Fs n N nov os win x i j m).PosSemidef := by
  simp only [welchCompleted_is_gram]
  exact gramK_posSemidef (wC_nonneg hFs n nov os win m) _ _ M

theorem welchCompleted_reindex (tw : ℕ → ℂ) (Fs : ℝ) (n nov : ℕ) (os : Bool) (win : ℕ → ℝ)
    (x : ℕ → ℕ → ℂ) (σ : ℕ → ℕ) (i j m : ℕ) :
    welchCompletedAt tw Fs n N nov os win (fun i => x (σ i)) i j m
      = welchCompletedAt tw Fs n N nov os win x (σ i) (σ j) m := by
  rw [welchCompleted_is_gram, welchCompleted_is_gram]
  exact gramK_congr _ _ (fun t _ => rfl) (fun t _ => rfl)

/-- the diagonal of the Welch matrix is real and is the single-channel `csd(x_i, x_i)` -/
theorem welchCompleted_diag (tw : ℕ → ℂ) (Fs : ℝ) (n nov : ℕ) (os : Bool) (win : ℕ → ℝ)
    (x : ℕ → ℕ → ℂ) (i m : ℕ) :
    welchCompletedAt tw Fs n N nov os win x i i m = welchCsdAt tw Fs n N nov os win (x i) (x i) m
    ∧ (welchCompletedAt tw Fs n N nov os win x i i m).im = 0 := by
  constructor
  · unfold welchCompletedAt completeUpper welchSpectraAt welchSpectraOf welchCsdAt
    simp
  · rw [welchCompleted_is_gram, gramK_diag, Complex.ofReal_im]

/-! ### `scale_sq` for the matrices -/

/-- scaling every channel by `a` multiplies the whole `periodogram_csd` matrix by `|a|²` -/
theorem periodogramCsd_scale_sq (tw : ℕ → ℂ) (Fs : ℝ) (n : ℕ) (os : Bool) (a : ℂ) (x : ℕ → ℕ → ℂ)
    (i j k : ℕ) :
    periodogramCsdAt tw Fs n N os (fun i j => a * x i j) i j k
      = (Complex.normSq a : ℂ) * periodogramCsdAt tw Fs n N os x i j k := by
  rw [periodogramCsd_is_gram, periodogramCsd_is_gram, ← gramK_smul]
  exact gramK_congr _ _ (fun t _ => spec_smul tw n a (x i) k) (fun t _ => spec_smul tw n a (x j) k)

/-- the same for `multi_taper_csd` (same tapers and weights) -/
theorem multiTaperCsd_scale_sq (tw : ℕ → ℂ) (Fs : ℝ) (n : ℕ) (os : Bool) (T : ℕ) (h : ℕ → ℕ → ℝ)
    (w : ℕ → ℕ → ℕ → ℝ) (a : ℂ) (x : ℕ → ℕ → ℂ) (i j k : ℕ) :
    multiTaperCsdAt tw Fs n N os T h w (fun i j => a * x i j) i j k
      = (Complex.normSq a : ℂ) * multiTaperCsdAt tw Fs n N os T h w x i j k := by
  rw [multiTaperCsd_is_gram, multiTaperCsd_is_gram, ← gramK_smul]
  refine gramK_congr _ _ (fun t _ => ?_) (fun t _ => ?_) <;>
  · unfold mtU; rw [taperedSpec_smul]; ring

/-- and for the completed Welch matrix -/
theorem welchCompleted_scale_sq (tw : ℕ → ℂ) (Fs : ℝ) (n nov : ℕ) (os : Bool) (win : ℕ → ℝ) (a : ℂ)
    (x : ℕ → ℕ → ℂ) (i j m : ℕ) :
    welchCompletedAt tw Fs n N nov os win (fun i j => a * x i j) i j m
      = (Complex.normSq a : ℂ) * welchCompletedAt tw Fs n N nov os win x i j m := by
  rw [welchCompleted_is_gram, welchCompleted_is_gram, ← gramK_smul]
  exact gramK_congr _ _ (fun s _ => segSpec_smul tw n nov win a (x i) s _)
    (fun s _ => segSpec_smul tw n nov win a (x j) s _)

/-! ### `entry_depends_on_pair` and its explicit corollaries (subset / superset / permutation / flattening)

All are instances of `…_reindex` (selection `σ`) or `…_pair` (two inputs that agree on the pair). -/

/-- the entry `(i, j)` is determined by channels `i` and `j` (data and weights) alone -/
theorem multiTaperCsd_pair (tw : ℕ → ℂ) (Fs : ℝ) (n : ℕ) (os : Bool) (T : ℕ) (h : ℕ → ℕ → ℝ)
    {w w' : ℕ → ℕ → ℕ → ℝ} {x x' : ℕ → ℕ → ℂ} {i j i' j' : ℕ}
    (hi : x i = x' i') (hj : x j = x' j') (hwi : w i = w' i') (hwj : w j = w' j') (k : ℕ) :
    multiTaperCsdAt tw Fs n N os T h w x i j k = multiTaperCsdAt tw Fs n N os T h w' x' i' j' k := by
  rw [multiTaperCsd_is_gram, multiTaperCsd_is_gram]
  refine gramK_congr _ _ (fun t _ => ?_) (fun t _ => ?_) <;> unfold mtU
  · rw [hi, hwi]
  · rw [hj, hwj]

theorem periodogramCsd_pair (tw : ℕ → ℂ) (Fs : ℝ) (n : ℕ) (os : Bool) {x x' : ℕ → ℕ → ℂ}
    {i j i' j' : ℕ} (hi : x i = x' i') (hj : x j = x' j') (k : ℕ) :
    periodogramCsdAt tw Fs n N os x i j k = periodogramCsdAt tw Fs n N os x' i' j' k := by
  rw [periodogramCsd_is_gram, periodogramCsd_is_gram]
  exact gramK_congr _ _ (fun t _ => by rw [hi]) (fun t _ => by rw [hj])

theorem welchCompleted_pair (tw : ℕ → ℂ) (Fs : ℝ) (n nov : ℕ) (os : Bool) (win : ℕ → ℝ)
    {x x' : ℕ → ℕ → ℂ} {i j i' j' : ℕ} (hi : x i = x' i') (hj : x j = x' j') (m : ℕ) :
    welchCompletedAt tw Fs n N nov os win x i j m = welchCompletedAt tw Fs n N nov os win x' i' j' m := by
  rw [welchCompleted_is_gram, welchCompleted_is_gram]
  exact gramK_congr _ _ (fun t _ => by rw [hi]) (fun t _ => by rw [hj])

/-- removing channel `d`: the channels `i ↦ if i < d then i else i + 1` -/
def dropChan (d : ℕ) (i : ℕ) : ℕ := if i < d then i else i + 1

/-- `subset_invariant`: after removing channel `d` the entries of the remaining pairs are unchanged -/
theorem multiTaperCsd_subset_invariant (tw : ℕ → ℂ) (Fs : ℝ) (n : ℕ) (os : Bool) (T : ℕ)
    (h : ℕ → ℕ → ℝ) (w : ℕ → ℕ → ℕ → ℝ) (x : ℕ → ℕ → ℂ) (d i j k : ℕ) :
    multiTaperCsdAt tw Fs n N os T h (fun i => w (dropChan d i)) (fun i => x (dropChan d i)) i j k
      = multiTaperCsdAt tw Fs n N os T h w x (dropChan d i) (dropChan d j) k :=
  multiTaperCsd_reindex tw Fs n os T h w x (dropChan d) i j k

theorem periodogramCsd_subset_invariant (tw : ℕ → ℂ) (Fs : ℝ) (n : ℕ) (os : Bool) (x : ℕ → ℕ → ℂ)
    (d i j k : ℕ) :
    periodogramCsdAt tw Fs n N os (fun i => x (dropChan d i)) i j k
      = periodogramCsdAt tw Fs n N os x (dropChan d i) (dropChan d j) k :=
  periodogramCsd_reindex tw Fs n os x (dropChan d) i j k

theorem welchCompleted_subset_invariant (tw : ℕ → ℂ) (Fs : ℝ) (n nov : ℕ) (os : Bool) (win : ℕ → ℝ)
    (x : ℕ → ℕ → ℂ) (d i j m : ℕ) :
    welchCompletedAt tw Fs n N nov os win (fun i => x (dropChan d i)) i j m
      = welchCompletedAt tw Fs n N nov os win x (dropChan d i) (dropChan d j) m :=
  welchCompleted_reindex tw Fs n nov os win x (dropChan d) i j m

/-- `superset_invariant`: channels added at positions `≥ M` do not change the entries among the
first `M` channels -/
theorem multiTaperCsd_superset_invariant (tw : ℕ → ℂ) (Fs : ℝ) (n : ℕ) (os : Bool) (T : ℕ)
    (h : ℕ → ℕ → ℝ) {w w' : ℕ → ℕ → ℕ → ℝ} {x x' : ℕ → ℕ → ℂ} {M : ℕ}
    (hx : ∀ i < M, x' i = x i) (hw : ∀ i < M, w' i = w i) {i j : ℕ} (hi : i < M) (hj : j < M) (k : ℕ) :
    multiTaperCsdAt tw Fs n N os T h w' x' i j k = multiTaperCsdAt tw Fs n N os T h w x i j k :=
  multiTaperCsd_pair tw Fs n os T h (hx i hi) (hx j hj) (hw i hi) (hw j hj) k

theorem periodogramCsd_superset_invariant (tw : ℕ → ℂ) (Fs : ℝ) (n : ℕ) (os : Bool)
    {x x' : ℕ → ℕ → ℂ} {M : ℕ} (hx : ∀ i < M, x' i = x i) {i j : ℕ} (hi : i < M) (hj : j < M) (k : ℕ) :
    periodogramCsdAt tw Fs n N os x' i j k = periodogramCsdAt tw Fs n N os x i j k :=
  periodogramCsd_pair tw Fs n os (hx i hi) (hx j hj) k

theorem welchCompleted_superset_invariant (tw : ℕ → ℂ) (Fs : ℝ) (n nov : ℕ) (os : Bool)
    (win : ℕ → ℝ) {x x' : ℕ → ℕ → ℂ} {M : ℕ} (hx : ∀ i < M, x' i = x i) {i j : ℕ} (hi : i < M)
    (hj : j < M) (m : ℕ) :
    welchCompletedAt tw Fs n N nov os win x' i j m = welchCompletedAt tw Fs n N nov os win x i j m :=
  welchCompleted_pair tw Fs n nov os win (hx i hi) (hx j hj) m

/-- `permutation_equivariant`: permuting the channels by `σ` permutes rows and columns by `σ` -/
theorem multiTaperCsd_permutation_equivariant (tw : ℕ → ℂ) (Fs : ℝ) (n : ℕ) (os : Bool) (T : ℕ)
    (h : ℕ → ℕ → ℝ) (w : ℕ → ℕ → ℕ → ℝ) (x : ℕ → ℕ → ℂ) (σ : Equiv.Perm ℕ) (i j k : ℕ) :
    multiTaperCsdAt tw Fs n N os T h (fun i => w (σ i)) (fun i => x (σ i)) i j k
      = multiTaperCsdAt tw Fs n N os T h w x (σ i) (σ j) k :=
  multiTaperCsd_reindex tw Fs n os T h w x σ i j k

theorem periodogramCsd_permutation_equivariant (tw : ℕ → ℂ) (Fs : ℝ) (n : ℕ) (os : Bool)
    (x : ℕ → ℕ → ℂ) (σ : Equiv.Perm ℕ) (i j k : ℕ) :
    periodogramCsdAt tw Fs n N os (fun i => x (σ i)) i j k
      = periodogramCsdAt tw Fs n N os x (σ i) (σ j) k :=
  periodogramCsd_reindex tw Fs n os x σ i j k

theorem welchCompleted_permutation_equivariant (tw : ℕ → ℂ) (Fs : ℝ) (n nov : ℕ) (os : Bool)
    (win : ℕ → ℝ) (x : ℕ → ℕ → ℂ) (σ : Equiv.Perm ℕ) (i j m : ℕ) :
    welchCompletedAt tw Fs n N nov os win (fun i => x (σ i)) i j m
      = welchCompletedAt tw Fs n N nov os win x (σ i) (σ j) m :=
  welchCompleted_reindex tw Fs n nov os win x σ i j m

/-- `flatten_invariant`: for an `(a, b, n)` array `y` flattened in C order to `a·b` channels
(`c ↦ y (c / b) (c % b)`, what `s.reshape(-1, n)` does), the entry for the flat channels
`p·b + q`, `p'·b + q'` (`q, q' < b`) is the entry `(0, 1)` of the two-channel input
`[y p q, y p' q']`: leading dimensions only label the channels -/
theorem multiTaperCsd_flatten_invariant (tw : ℕ → ℂ) (Fs : ℝ) (n : ℕ) (os : Bool) (T : ℕ)
    (h : ℕ → ℕ → ℝ) (w : ℕ → ℕ → ℕ → ℕ → ℝ) (y : ℕ → ℕ → ℕ → ℂ) {b : ℕ} {p q p' q' : ℕ}
    (hq : q < b) (hq' : q' < b) (k : ℕ) :
    multiTaperCsdAt tw Fs n N os T h (fun c => w (c / b) (c % b)) (fun c => y (c / b) (c % b))
        (p * b + q) (p' * b + q') k
      = multiTaperCsdAt tw Fs n N os T h (fun c => if c = 0 then w p q else w p' q')
          (fun c => if c = 0 then y p q else y p' q') 0 1 k := by
  have e1 : (p * b + q) / b = p ∧ (p * b + q) % b = q := by
    constructor
    · rw [Nat.add_comm, Nat.add_mul_div_right _ _ (by omega), Nat.div_eq_of_lt hq, Nat.zero_add]
    · rw [Nat.add_comm, Nat.add_mul_mod_self_right, Nat.mod_eq_of_lt hq]
  have e2 : (p' * b + q') / b = p' ∧ (p' * b + q') % b = q' := by
    constructor
    · rw [Nat.add_comm, Nat.add_mul_div_right _ _ (by omega), Nat.div_eq_of_lt hq', Nat.zero_add]
    · rw [Nat.add_comm, Nat.add_mul_mod_self_right, Nat.mod_eq_of_lt hq']
  apply multiTaperCsd_pair <;> simp [e1, e2]

theorem periodogramCsd_flatten_invariant (tw : ℕ → ℂ) (Fs : ℝ) (n : ℕ) (os : Bool)
    (y : ℕ → ℕ → ℕ → ℂ) {b : ℕ} {p q p' q' : ℕ} (hq : q < b) (hq' : q' < b) (k : ℕ) :
    periodogramCsdAt tw Fs n N os (fun c => y (c / b) (c % b)) (p * b + q) (p' * b + q') k
      = periodogramCsdAt tw Fs n N os (fun c => if c = 0 then y p q else y p' q') 0 1 k := by
  have e1 : (p * b + q) / b = p ∧ (p * b + q) % b = q := by
    constructor
    · rw [Nat.add_comm, Nat.add_mul_div_right _ _ (by omega), Nat.div_eq_of_lt hq, Nat.zero_add]
    · rw [Nat.add_comm, Nat.add_mul_mod_self_right, Nat.mod_eq_of_lt hq]
  have e2 : (p' * b + q') / b = p' ∧ (p' * b + q') % b = q' := by
    constructor
    · rw [Nat.add_comm, Nat.add_mul_div_right _ _ (by omega), Nat.div_eq_of_lt hq', Nat.zero_add]
    · rw [Nat.add_comm, Nat.add_mul_mod_self_right, Nat.mod_eq_of_lt hq']
  apply periodogramCsd_pair <;> simp [e1, e2]

/-! ### executable = pointwise, and non-vacuity -/

theorem welchCompletedList_eq {R K : Type} [RScalar R] [CScalar R K] (tw : ℕ → K) (Fs : R)
    (n N nov M : ℕ) (os : Bool) (win : ℕ → R) (x : ℕ → ℕ → K) :
    welchCompletedList tw Fs n N nov M os win x
      = matList M (outLen N os) (welchCompletedAt tw Fs n N nov os win x) := by
  simp only [welchCompletedList, memoGet3_fun]; rfl

/-- a 2-channel instance: permuting the channels permutes the matrix (entry (0,1) of the swapped
input is entry (1,0) of the original, i.e. the conjugate of its entry (0,1)) -/
example (tw : ℕ → ℂ) (x : ℕ → ℕ → ℂ) (k : ℕ) :
    multiTaperCsdAt tw 2 8 8 true 2 (fun _ _ => 1) (fun _ _ _ => 1) (fun i => x (1 - i)) 0 1 k
      = (starRingEnd ℂ) (multiTaperCsdAt tw 2 8 8 true 2 (fun _ _ => 1) (fun _ _ _ => 1) x 0 1 k) := by
  rw [multiTaperCsd_reindex tw 2 8 true 2 (fun _ _ => 1) (fun _ _ _ => 1) x (fun i => 1 - i) 0 1 k,
    ← multiTaperCsd_hermitian]

end Nitime.C06.Props
