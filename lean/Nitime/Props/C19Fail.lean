/-
C19 — round 2 (classes L7 failure paths / L8 aliasing): theorems about the refused reads, the per-channel loop and the
range of the entries of XᵀX (model `Nitime.C19`: `readE`, `readsE`, `Obj.read`, `Obj.reads`, `loopChannels`, `firstRefused`,
`firLoop`, `gram`, `wrapInt`, `gramWrap` — the definitions the driver runs for the ops `seqf`, `firloop`, `gramdiag`).

* `failed_read_leaves_object_unchanged` — a read whose outcome is a refusal leaves the WHOLE object (inputs and cache) as it
  was; `read_keeps_inputs` — no read, refused or not, ever changes what the constructor stored (every getter, every history).
* `reads_after_failures_are_fresh` — after ANY history of reads, refused or not, every read returns the fresh getter value of
  the inputs (a refusal is the fresh outcome too), and the cache holds successful fresh values only (nothing partial).
* `loop_stops_at_first_refused`, `loop_ok_iff_all_ok`, `loop_matches_find` — the per-channel loop returns the error of the
  FIRST refused channel, succeeds iff every channel does (then with every channel's own value, in order), and is the
  `find? isErr` form that `seriesOut` uses; `seriesOut_fir_is_the_loop` — the FIR branch of `seriesOut` (what the driver runs) IS that loop.
* `gram_diag_counts` — the diagonal entry of XᵀX for column (type t, lag l) is the NUMBER of occurrences of t whose row l lies
  inside the recording: it is not bounded by the entries' range {−1,0,1}; `wrapInt_exact_iff_small` + `gram_wrap_counterexample`
  — an 8-bit element type is exact below 128 occurrences and gives −128 at 128.
* generated (`Generated/C19Guards.lean`, from event_related.py / utils.py / algorithms/event_related.py):
  `no_value_guards_in_estimators`, `no_tolerance_calls_in_estimators`, `design_matrix_dtype_wide`.
-/
import Nitime.Model.C19
import Nitime.Props.C19
import Nitime.Generated.C19Guards
import Mathlib.Tactic.NormNum
import Mathlib.Tactic.Linarith

namespace Nitime.C19.Props
open Nitime.C19 Finset

/-! ### refused reads -/

/-- every cached entry is the getter's value, and a successful one -/
def CacheOkE (value : String → String) (cache : List (String × String)) : Prop :=
  ∀ w v, cache.lookup w = some v → v = value w ∧ isRefusal v = false

theorem readE_spec (value : String → String) (cache : List (String × String)) (w : String)
    (h : CacheOkE value cache) :
    (readE value cache w).1 = value w ∧ CacheOkE value (readE value cache w).2 := by
  unfold readE
  cases hl : cache.lookup w with
  | some v => exact ⟨(h w v hl).1, h⟩
  | none =>
    by_cases hr : isRefusal (value w) = true
    · rw [if_pos hr]; exact ⟨rfl, h⟩
    · rw [if_neg hr]
      refine ⟨rfl, ?_⟩
      intro w' v' hv'
      simp only [List.lookup_cons] at hv'
      split at hv'
      · rename_i heq
        have e : w' = w := by simpa using heq
        have e2 : v' = value w := by simpa using hv'.symm
        subst e; subst e2
        exact ⟨rfl, by simpa using hr⟩
      · exact h w' v' hv'

/-- a refused read stores nothing: the cache after it IS the cache before it -/
theorem readE_refused_cache (value : String → String) (cache : List (String × String)) (w : String)
    (hr : isRefusal (readE value cache w).1 = true) : (readE value cache w).2 = cache := by
  unfold readE at hr ⊢
  cases hl : cache.lookup w with
  | some v => rfl
  | none =>
    simp only [hl] at hr
    by_cases h : isRefusal (value w) = true
    · rw [if_pos h]
    · rw [if_neg h] at hr; exact absurd hr h

/-- **failed_read_leaves_object_unchanged**: a read that is refused (any getter, any state the object is in) leaves the
object — stored inputs AND cache — exactly as it was -/
theorem failed_read_leaves_object_unchanged (o : Obj) (w : String)
    (hr : isRefusal (o.read w).1 = true) : (o.read w).2 = o := by
  unfold Obj.read at hr ⊢
  have := readE_refused_cache (getterValue o.kind o.inputs) o.cache w hr
  simp only [this]

/-- no read ever changes what the constructor stored -/
theorem read_keeps_inputs (o : Obj) (w : String) :
    (o.read w).2.inputs = o.inputs ∧ (o.read w).2.kind = o.kind := ⟨rfl, rfl⟩

theorem reads_keep_inputs (ws : List String) : ∀ o : Obj,
    (o.reads ws).2.inputs = o.inputs ∧ (o.reads ws).2.kind = o.kind := by
  induction ws with
  | nil => intro o; exact ⟨rfl, rfl⟩
  | cons w ws ih =>
    intro o
    unfold Obj.reads
    obtain ⟨h1, h2⟩ := ih (o.read w).2
    exact ⟨h1.trans (read_keeps_inputs o w).1, h2.trans (read_keeps_inputs o w).2⟩

theorem readsE_fresh (value : String → String) (ws : List String) :
    ∀ cache, CacheOkE value cache →
      (readsE value cache ws).1 = ws.map value ∧ CacheOkE value (readsE value cache ws).2 := by
  induction ws with
  | nil => intro cache h; exact ⟨rfl, h⟩
  | cons w ws ih =>
    intro cache h
    obtain ⟨h1, h2⟩ := readE_spec value cache w h
    obtain ⟨h3, h4⟩ := ih _ h2
    unfold readsE
    simp only [List.map_cons]
    exact ⟨by rw [h1, h3], h4⟩

/-- the object-level reads are `readsE` on the object's cache -/
theorem Obj.reads_eq (ws : List String) : ∀ o : Obj,
    (o.reads ws).1 = (readsE (getterValue o.kind o.inputs) o.cache ws).1 ∧
    (o.reads ws).2.cache = (readsE (getterValue o.kind o.inputs) o.cache ws).2 := by
  induction ws with
  | nil => intro o; exact ⟨rfl, rfl⟩
  | cons w ws ih =>
    intro o
    unfold Obj.reads readsE
    obtain ⟨h1, h2⟩ := ih (o.read w).2
    have e : (o.read w).2.cache = (readE (getterValue o.kind o.inputs) o.cache w).2 := rfl
    have e1 : (o.read w).1 = (readE (getterValue o.kind o.inputs) o.cache w).1 := rfl
    have ek : (o.read w).2.kind = o.kind := rfl
    have ei : (o.read w).2.inputs = o.inputs := rfl
    rw [ek, ei, e] at h1 h2
    exact ⟨by simp only [h1, e1], h2⟩

/-- **reads_after_failures_are_fresh**: on an object whose cache is consistent (a new analyzer: empty), after ANY history of
reads — refused or not, in any order, any getter repeated — every read returns the fresh getter value of the stored inputs, the
inputs are those the constructor stored, and the cache holds fresh SUCCESSFUL values only -/
theorem reads_after_failures_are_fresh (o : Obj) (h : CacheOkE (getterValue o.kind o.inputs) o.cache) (ws : List String) :
    (o.reads ws).1 = ws.map (getterValue o.kind o.inputs) ∧ (o.reads ws).2.inputs = o.inputs ∧
    CacheOkE (getterValue o.kind o.inputs) (o.reads ws).2.cache := by
  obtain ⟨h1, h2⟩ := Obj.reads_eq ws o
  obtain ⟨h3, h4⟩ := readsE_fresh _ ws o.cache h
  exact ⟨h1.trans h3, (reads_keep_inputs ws o).1, by rw [h2]; exact h4⟩

/-- a new analyzer -/
theorem new_analyzer_reads_fresh (kind : String) (j : Job) (ws : List String) :
    (Obj.reads ⟨kind, j, []⟩ ws).1 = ws.map (getterValue kind j) :=
  (reads_after_failures_are_fresh ⟨kind, j, []⟩ (by intro w v h; simp at h) ws).1

/-- the refusing model and the plain one-time cache of `readsC` return the same values (a refusal is a pure function of the
inputs, so storing it or not is invisible) -/
theorem seqf_eq_seq (kind : String) (j : Job) (ws : List String) :
    (Obj.reads ⟨kind, j, []⟩ ws).1 = (readsC (getterValue kind j) [] ws).1 := by
  rw [new_analyzer_reads_fresh, analyzer_reads_fresh]

-- non-vacuity: a value function with a refusing getter; the refused read is repeated, stores nothing, the others are cached
example (value : String → String) (h1 : isRefusal (value "fir") = true) (h2 : isRefusal (value "eta") = false) :
    readsE value [] ["fir", "eta", "fir", "eta"] = ([value "fir", value "eta", value "fir", value "eta"], [("eta", value "eta")]) := by
  simp [readsE, readE, h1, h2, List.lookup]

/-! ### the per-channel loop -/

theorem loop_stops_at_first_refused {β : Type} (f : ℕ → Except String β) (chs : List ℕ) (k : ℕ)
    (h : firstRefused f chs = some k) : ∃ e, f k = .error e ∧ loopChannels f chs = .error e ∧ k ∈ chs := by
  induction chs with
  | nil => simp [firstRefused] at h
  | cons ch chs ih =>
    unfold firstRefused at h
    unfold loopChannels
    cases hf : f ch with
    | error e =>
      simp only [hf] at h
      have : ch = k := by simpa using h
      subst this
      exact ⟨e, hf, rfl, by simp⟩
    | ok v =>
      simp only [hf] at h
      obtain ⟨e, h1, h2, h3⟩ := ih h
      refine ⟨e, h1, ?_, by simp [h3]⟩
      simp only [h2]

/-- the channels before the first refused one all succeeded (their results are dropped with the loop) -/
theorem before_first_refused_ok {β : Type} (f : ℕ → Except String β) (chs : List ℕ) (k : ℕ)
    (h : firstRefused f chs = some k) :
    ∃ pre post, chs = pre ++ k :: post ∧ ∀ c ∈ pre, ∃ v, f c = .ok v := by
  induction chs with
  | nil => simp [firstRefused] at h
  | cons ch chs ih =>
    unfold firstRefused at h
    cases hf : f ch with
    | error e =>
      simp only [hf] at h
      have : ch = k := by simpa using h
      subst this
      exact ⟨[], chs, rfl, by simp⟩
    | ok v =>
      simp only [hf] at h
      obtain ⟨pre, post, e, hp⟩ := ih h
      refine ⟨ch :: pre, post, by simp [e], ?_⟩
      intro c hc
      rcases List.mem_cons.mp hc with rfl | hc
      · exact ⟨v, hf⟩
      · exact hp c hc

theorem loop_ok_iff_all_ok {β : Type} (f : ℕ → Except String β) (chs : List ℕ) (vs : List β) :
    loopChannels f chs = .ok vs ↔ chs.map f = vs.map .ok := by
  induction chs generalizing vs with
  | nil =>
    unfold loopChannels
    cases vs <;> simp
  | cons ch chs ih =>
    unfold loopChannels
    cases hf : f ch with
    | error e =>
      cases vs <;> simp [hf]
    | ok v =>
      cases hl : loopChannels f chs with
      | error e =>
        simp only [List.map_cons, hf]
        constructor
        · intro h; cases h
        · intro h
          cases vs with
          | nil => simp at h
          | cons v' vs' =>
            simp only [List.map_cons, List.cons.injEq] at h
            have := (ih vs').mpr h.2
            rw [hl] at this; cases this
      | ok vs0 =>
        simp only [List.map_cons, hf]
        constructor
        · intro h
          have e : v :: vs0 = vs := by simpa using h
          subst e
          simp only [List.map_cons, List.cons.injEq, true_and]
          exact (ih vs0).mp hl
        · intro h
          cases vs with
          | nil => simp at h
          | cons v' vs' =>
            simp only [List.map_cons, List.cons.injEq] at h
            have e1 : v = v' := by simpa using h.1
            have := (ih vs').mpr h.2
            rw [hl] at this
            have e2 : vs0 = vs' := by simpa using this
            rw [e1, e2]

theorem firstRefused_none_iff {β : Type} (f : ℕ → Except String β) (chs : List ℕ) :
    firstRefused f chs = none ↔ ∃ vs, loopChannels f chs = .ok vs := by
  induction chs with
  | nil => simp [firstRefused, loopChannels]
  | cons ch chs ih =>
    unfold firstRefused loopChannels
    cases hf : f ch with
    | error e => simp
    | ok v =>
      simp only
      rw [ih]
      constructor
      · rintro ⟨vs, h⟩; exact ⟨v :: vs, by simp [h]⟩
      · rintro ⟨vs, h⟩
        cases hl : loopChannels f chs with
        | error e => simp [hl] at h
        | ok vs0 => exact ⟨vs0, rfl⟩

/-- the loop is the `find? isErr` form used by `seriesOut` for FIR: same error, or no error and the same values -/
theorem loop_matches_find (f : ℕ → Except String (List ℚ)) (chs : List ℕ) :
    match loopChannels f chs with
    | .error e => (chs.map f).find? isErr = some (.error e)
    | .ok vs => (chs.map f).find? isErr = none ∧ (chs.map f).flatMap okVal = vs.flatten := by
  induction chs with
  | nil => simp [loopChannels]
  | cons ch chs ih =>
    unfold loopChannels
    cases hf : f ch with
    | error e => simp [hf, isErr]
    | ok v =>
      cases hl : loopChannels f chs with
      | error e =>
        rw [hl] at ih
        simp only [List.map_cons, hf]
        rw [List.find?_cons_of_neg (by simp [isErr])]
        exact ih
      | ok vs0 =>
        rw [hl] at ih
        simp only [List.map_cons, hf]
        rw [List.find?_cons_of_neg (by simp [isErr])]
        refine ⟨ih.1, ?_⟩
        simp only [List.flatMap_cons, List.flatten_cons, okVal, ih.2]

/-- **seriesOut_fir_is_the_loop** (glue, moved from "exercised by the correspondence only"): the FIR branch of `seriesOut` — what the
driver runs — IS the per-channel loop: it returns the error of the FIRST refused channel, else every channel's own coefficients -/
theorem seriesOut_fir_is_the_loop (cur : Bool) (j : Job) (hw : j.what = "fir") (hoff : ¬ j.off < 0)
    (hT : (List.range (max j.nch 1)).any (fun ch => (typesOf j ch).length != (typesOf j 0).length) = false) :
    seriesOut cur j =
      match firLoop cur j with
      | .error e => .error e
      | .ok vs => .ok ⟨[max j.nch 1, (typesOf j 0).length, j.L], vs.flatten.map showRatAsFloat⟩ := by
  have key := loop_matches_find
    (fun ch => firChannel cur (nPadOf j) (evOf j ch) (dataOf j ch) j.off.toNat j.L) (List.range (max j.nch 1))
  unfold seriesOut firLoop
  simp only [hoff, if_false, hT, hw, if_true, Bool.false_eq_true]
  cases hl : loopChannels (fun ch => firChannel cur (nPadOf j) (evOf j ch) (dataOf j ch) j.off.toNat j.L)
      (List.range (max j.nch 1)) with
  | error e =>
    rw [hl] at key
    simp only [key]
  | ok vs =>
    rw [hl] at key
    simp only [key.1, key.2]
-- non-vacuity: channel 2 of 4 is refused; channels 0, 1 had succeeded
example : loopChannels (fun ch => if ch = 2 then .error "err ValueError" else .ok ch) [0, 1, 2, 3] = .error "err ValueError"
    ∧ firstRefused (fun ch => if ch = 2 then (.error "err ValueError" : Except String ℕ) else .ok ch) [0, 1, 2, 3] = some 2 := by
  decide

/-! ### entries of XᵀX are counts -/

/-- **gram_diag_counts**: the diagonal entry of XᵀX for column c = (type t = types[c / L], lag l = c % L) of the design
matrix is the NUMBER of rows r < n that carry an occurrence of t at r − l — the occurrences of t whose l-th window row lies in
the recording; for both sign conventions.  (It grows with the recording; the entries −1, 0, 1 do not bound it.) -/
theorem gram_diag_counts (cur : Bool) (ev : ℕ → ℤ) (types : List ℤ) (L n c : ℕ) :
    gram n (designEntry cur ev types L) c c =
      (((List.range n).filter fun r =>
          decide (c % L ≤ r ∧ ev (r - c % L) = types.getD (c / L) 0 ∧ types.getD (c / L) 0 ≠ 0)).length : ℤ) := by
  unfold gram sumRangeI
  induction (List.range n) with
  | nil => simp
  | cons r rs ih =>
    simp only [List.map_cons, List.sum_cons, ih, List.filter_cons]
    by_cases h : c % L ≤ r ∧ ev (r - c % L) = types.getD (c / L) 0 ∧ types.getD (c / L) 0 ≠ 0
    · have hs : sgn cur (types.getD (c / L) 0) * sgn cur (types.getD (c / L) 0) = 1 := by
        have hne := h.2.2
        unfold sgn
        split_ifs <;> omega
      simp only [designEntry, h, and_self, ne_eq, not_false_eq_true, if_true, decide_true, List.length_cons, hs]
      push_cast; ring
    · simp only [designEntry, h, if_false, decide_false, mul_zero, zero_add]
      simp

/-- the count: occurrences k of t with k + l < n, i.e. rows l .. n−1 -/
theorem gram_diag_counts_shift (cur : Bool) (ev : ℕ → ℤ) (types : List ℤ) (L n c : ℕ) (hl : c % L ≤ n)
    (ht : types.getD (c / L) 0 ≠ 0) :
    gram n (designEntry cur ev types L) c c =
      (((List.range (n - c % L)).filter fun k => decide (ev k = types.getD (c / L) 0)).length : ℤ) := by
  rw [gram_diag_counts]
  congr 1
  have e : n = c % L + (n - c % L) := by omega
  conv_lhs => rw [e, List.range_add, List.filter_append, List.length_append]
  have z : ((List.range (c % L)).filter fun r =>
      decide (c % L ≤ r ∧ ev (r - c % L) = types.getD (c / L) 0 ∧ types.getD (c / L) 0 ≠ 0)) = [] := by
    rw [List.filter_eq_nil_iff]
    intro r hr
    have : r < c % L := List.mem_range.mp hr
    simp; omega
  rw [z, List.length_nil, zero_add, List.filter_map, List.length_map]
  congr 1
  apply List.filter_congr
  intro k _
  simp
  intro _
  simpa using ht

/-- two's-complement wrap-around is the identity exactly on the representable range -/
theorem wrapInt_exact_iff_small (bits : ℕ) (hb : 0 < bits) (v : ℤ) (h0 : 0 ≤ v) :
    wrapInt bits v = v ↔ v < 2 ^ (bits - 1) := by
  unfold wrapInt
  have hb' : bits ≠ 0 := by omega
  simp only [hb', if_false]
  have hp : (2 : ℤ) ^ bits = 2 * 2 ^ (bits - 1) := by
    have : bits = (bits - 1) + 1 := by omega
    conv_lhs => rw [this, pow_succ]
    ring
  have hpos : (0 : ℤ) < 2 ^ (bits - 1) := by positivity
  constructor
  · intro h
    by_contra hge
    have h1 : (v + 2 ^ (bits - 1)) % (2 ^ bits : ℤ) < 2 ^ bits := Int.emod_lt_of_pos _ (by positivity)
    rw [hp] at h1
    have : (v + 2 ^ (bits - 1)) % (2 ^ bits : ℤ) = v + 2 ^ (bits - 1) := by linarith
    rw [hp] at this
    linarith
  · intro h
    rw [Int.emod_eq_of_lt (by linarith) (by rw [hp]; linarith)]
    ring

/-- **gram_wrap_counterexample**: 128 occurrences of one code (every sample of a 128-sample series, response length 1): the
exact diagonal entry of XᵀX is 128, an int8 product gives −128 — while 127 occurrences are still exact -/
theorem gram_wrap_counterexample :
    gram 128 (designEntry true (fun _ => 1) [1] 1) 0 0 = 128 ∧
    gramWrap 8 128 (designEntry true (fun _ => 1) [1] 1) 0 0 = -128 ∧
    gramWrap 8 127 (designEntry true (fun _ => 1) [1] 1) 0 0 = 127 := by
  refine ⟨?_, ?_, ?_⟩
  · rw [gram_diag_counts]; simp
  · unfold gramWrap wrapInt; rw [gram_diag_counts]; simp
  · unfold gramWrap wrapInt; rw [gram_diag_counts]; simp

/-! ### generated from the source: guards, tolerances, element types (`Generated/C19Guards.lean`) -/

/-- no `if` / conditional expression / assertion of the anchored estimator code tests a DATA VALUE (they test types, shapes
and the option flags only): there is no amplitude-dependent early exit, whatever the scale of a channel -/
theorem no_value_guards_in_estimators : (Generated.C19Guards.guards.filter (·.2.2)).map (·.1) = [] := by decide

/-- no tolerance-based comparison or rounding call (`allclose`, `isclose`, `round`, `around`, `clip`, `nan_to_num`, `finfo`) -/
theorem no_tolerance_calls_in_estimators : Generated.C19Guards.toleranceCalls = [] := by decide

/-- every explicit element type in the anchored code is one of the wide ones; `fir_design_matrix` and `fir` name none (float64) -/
theorem design_matrix_dtype_wide :
    (Generated.C19Guards.dtypes.all fun d => Generated.C19Guards.wideDtypes.contains d.2) = true ∧
    (Generated.C19Guards.dtypes.filter fun d => d.1 == "fir_design_matrix" || d.1 == "fir") = [] := by decide

/-- the reviewed list of guards: an added or changed test re-opens this obligation -/
theorem guards_are_the_reviewed_ones :
    Generated.C19Guards.guards.map (fun g => (g.1, g.2.1)) =
      [("__init__", "isinstance(events, ts.TimeSeries)"), ("__init__", "len(events.shape) == 1 and len(s) > 1"),
       ("__init__", "time_series.data.ndim - 1 > 0"), ("__init__", "isinstance(events, ts.Events)"),
       ("__init__", "time_series.data.ndim - 1 > 0"),
       ("eta", "self._is_ts"), ("eta", "isinstance(self.data, list)"), ("eta", "self._correct_baseline"), ("eta", "self._correct_baseline"),
       ("ets", "self._is_ts"), ("ets", "isinstance(self.data, list)"), ("ets", "self._correct_baseline"), ("ets", "self._correct_baseline")] := by
  decide

end Nitime.C19.Props
