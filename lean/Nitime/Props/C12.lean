/-
C12 — property theorems (Granger causality spectra obey the spectral decomposition identities).

All statements are about the definitions of `Nitime/Model/C12.lean` (`polyA`, `transferOfA`,
`transferAt`, `spectralAt`, `coherenceAt`, `interdepArgAt`, `grangerAt`, `dict2arr`, `defaultIJ`)
instantiated at `K = ℂ` (`Lemmas/ARInst.lean`); the driver runs the same definitions at complex
binary64.  The logarithm is `Real.log` of the real part of the emitted ratio (the driver applies
`Float.log` to the same ratio).  `Lemmas/Granger.lean` supplies the log algebra.

Hypotheses of `decomposition` / non-negativity are exactly the conditions under which the code's
logarithms are finite: the auto components, `Sxx`, `Syy` and `det S` are positive.
The analyzer's frequency axis clause (`GrangerAnalyzer.frequencies` includes Nyquist, freqz's grid
does not) belongs to C05 and is not claimed here.
-/
import Nitime.Model.C12
import Nitime.Lemmas.ARInst
import Nitime.Lemmas.Granger
import Nitime.Lemmas.GrangerObj
import Mathlib.LinearAlgebra.Matrix.PosDef
import Mathlib.LinearAlgebra.Matrix.Notation

open ComplexConjugate ComplexOrder
open Nitime.AR Nitime.C12

noncomputable section
namespace Nitime.C12.Props

/-- a model 2×2 array as a Mathlib matrix -/
def toMat (m : M2 ℂ) : Matrix (Fin 2) (Fin 2) ℂ := !![m.m00, m.m01; m.m10, m.m11]

/-- a real symmetric innovation covariance `[[σ, υ], [υ, γ]]` -/
def covR (σ υ γ : ℝ) : M2 ℂ := ⟨(σ : ℂ), (υ : ℂ), (υ : ℂ), (γ : ℂ)⟩

/-- **C12 inverse relation.** `H(ω)·A(ω) = I = A(ω)·H(ω)` wherever `det A(ω) ≠ 0`. -/
theorem H_mul_A (A : M2 ℂ) (hdet : A.m00 * A.m11 - A.m01 * A.m10 ≠ 0) :
    toMat (transferOfA A) * toMat A = 1 ∧ toMat A * toMat (transferOfA A) = 1 := by
  obtain ⟨d, hd⟩ : ∃ d, d = A.m00 * A.m11 - A.m01 * A.m10 := ⟨_, rfl⟩
  rw [← hd] at hdet
  have hT : transferOfA A = ⟨A.m11 / d, -A.m01 / d, -A.m10 / d, A.m00 / d⟩ := by
    simp [transferOfA, hd]
  rw [hT]
  constructor <;>
  · ext i j
    fin_cases i <;> fin_cases j <;>
    · simp [toMat, Matrix.mul_apply, Fin.sum_univ_two]
      field_simp
      try (rw [hd]; ring)

/-- **C12 spectral matrix.** `spectral_matrix_xy(H, Σ) = H·Σ·Hᴴ` -/
theorem S_eq_HCovHH (H cov : M2 ℂ) :
    toMat (spectralAt H cov) = toMat H * toMat cov * (toMat H).conjTranspose := by
  ext i j
  fin_cases i <;> fin_cases j <;>
  · simp [toMat, spectralAt, Matrix.mul_apply, Fin.sum_univ_two, Matrix.conjTranspose_apply]
    ring

/-- **C12 Hermitian positive semidefinite.** -/
theorem S_hermitian_psd (H cov : M2 ℂ) (hcov : (toMat cov).PosSemidef) :
    (toMat (spectralAt H cov)).PosSemidef := by
  rw [S_eq_HCovHH]
  exact hcov.mul_mul_conjTranspose_same _


/-! ### the normalising transformations of `granger_causality_xy` -/

lemma re_real_mul_conj (s : ℝ) (z : ℂ) :
    ((((s : ℂ) * z * conj z).re : ℝ) : ℂ) = (s : ℂ) * z * conj z := by
  rw [mul_assoc, Complex.mul_conj, ← Complex.ofReal_mul, Complex.ofReal_re]

variable (H : M2 ℂ) (σ υ γ : ℝ)

/-- `Hxx_hat`, `Hyy_hat` -/
def HxxHat : ℂ := H.m00 + ((υ : ℂ) / (σ : ℂ)) * H.m01
def HyyHat : ℂ := H.m11 + ((υ : ℂ) / (γ : ℂ)) * H.m10

/-- the real numbers behind `xx_auto_component`, `yy_auto_component`, `Sxx`, `Syy` -/
def axR : ℝ := σ * Complex.normSq (HxxHat H σ υ)
def ayR : ℝ := γ * Complex.normSq (HyyHat H υ γ)
def SxxR : ℝ := axR H σ υ + (γ - υ * υ / σ) * Complex.normSq H.m01
def SyyR : ℝ := ayR H υ γ + (σ - υ * υ / γ) * Complex.normSq H.m10

lemma gc_xxAuto : (grangerAt H (covR σ υ γ)).xxAuto = ((axR H σ υ : ℝ) : ℂ) := by
  simp only [grangerAt, covR, sc_add, sc_mul, sc_div, sc_conj, sc_re, axR, HxxHat]
  rw [mul_assoc, Complex.mul_conj, ← Complex.ofReal_mul, Complex.ofReal_re]

lemma gc_yyAuto : (grangerAt H (covR σ υ γ)).yyAuto = ((ayR H υ γ : ℝ) : ℂ) := by
  simp only [grangerAt, covR, sc_add, sc_mul, sc_div, sc_conj, sc_re, ayR, HyyHat]
  rw [mul_assoc, Complex.mul_conj, ← Complex.ofReal_mul, Complex.ofReal_re]

lemma gc_Sxx : (grangerAt H (covR σ υ γ)).S.m00 = ((SxxR H σ υ γ : ℝ) : ℂ) := by
  have h := gc_xxAuto H σ υ γ
  simp only [grangerAt, covR, sc_add, sc_sub, sc_mul, sc_div, sc_conj, sc_re] at h ⊢
  rw [h, SxxR, mul_assoc (_ - _), Complex.mul_conj]
  push_cast; ring

lemma gc_Syy : (grangerAt H (covR σ υ γ)).S.m11 = ((SyyR H σ υ γ : ℝ) : ℂ) := by
  have h := gc_yyAuto H σ υ γ
  simp only [grangerAt, covR, sc_add, sc_sub, sc_mul, sc_div, sc_conj, sc_re] at h ⊢
  rw [h, SyyR, mul_assoc (_ - _), Complex.mul_conj]
  push_cast; ring

lemma gc_rY2X : (grangerAt H (covR σ υ γ)).rY2X = ((SxxR H σ υ γ / axR H σ υ : ℝ) : ℂ) := by
  have h1 := gc_xxAuto H σ υ γ
  have h2 := gc_Sxx H σ υ γ
  simp only [grangerAt, covR, sc_add, sc_sub, sc_mul, sc_div, sc_conj, sc_re] at h1 h2 ⊢
  rw [h2, h1, Complex.ofReal_re, Complex.ofReal_div]

lemma gc_rX2Y : (grangerAt H (covR σ υ γ)).rX2Y = ((SyyR H σ υ γ / ayR H υ γ : ℝ) : ℂ) := by
  have h1 := gc_yyAuto H σ υ γ
  have h2 := gc_Syy H σ υ γ
  simp only [grangerAt, covR, sc_add, sc_sub, sc_mul, sc_div, sc_conj, sc_re] at h1 h2 ⊢
  rw [h2, h1, Complex.ofReal_re, Complex.ofReal_div]

/-- **C12 one spectral matrix.** The matrix returned by `granger_causality_xy` is the one
`spectral_matrix_xy` computes from the same transfer function and covariance. -/
theorem S_same_both_routines (hσ : σ ≠ 0) (hγ : γ ≠ 0) :
    toMat (grangerAt H (covR σ υ γ)).S = toMat (spectralAt H (covR σ υ γ)) := by
  have hσ' : (σ : ℂ) ≠ 0 := by exact_mod_cast hσ
  have hγ' : (γ : ℂ) ≠ 0 := by exact_mod_cast hγ
  have h1 := gc_xxAuto H σ υ γ
  have h2 := gc_yyAuto H σ υ γ
  simp only [grangerAt, covR, sc_add, sc_sub, sc_mul, sc_div, sc_conj, sc_re] at h1 h2
  ext i j
  fin_cases i <;> fin_cases j <;>
  · simp only [toMat, grangerAt, spectralAt, covR, sc_add, sc_sub, sc_mul, sc_div, sc_conj, sc_re]
    simp only [h1, h2, axR, ayR, HxxHat, HyyHat]
    simp [Complex.normSq_eq_conj_mul_self]
    field_simp
    ring

/-- **C12 non-negativity (y→x).** -/
theorem causality_y2x_nonneg (hσ : 0 < σ) (hpd : 0 ≤ σ * γ - υ * υ) (hH : HxxHat H σ υ ≠ 0) :
    0 ≤ Real.log ((grangerAt H (covR σ υ γ)).rY2X).re := by
  rw [gc_rY2X, Complex.ofReal_re, SxxR]
  have hax : 0 < axR H σ υ := mul_pos hσ (Complex.normSq_pos.mpr hH)
  have hg2 : 0 ≤ γ - υ * υ / σ := by
    have : γ - υ * υ / σ = (σ * γ - υ * υ) / σ := by field_simp
    rw [this]; exact div_nonneg hpd hσ.le
  exact causality_nonneg _ _ hax (mul_nonneg hg2 (Complex.normSq_nonneg _))

/-- **C12 non-negativity (x→y).** -/
theorem causality_x2y_nonneg (hγ : 0 < γ) (hpd : 0 ≤ σ * γ - υ * υ) (hH : HyyHat H υ γ ≠ 0) :
    0 ≤ Real.log ((grangerAt H (covR σ υ γ)).rX2Y).re := by
  rw [gc_rX2Y, Complex.ofReal_re, SyyR]
  have hay : 0 < ayR H υ γ := mul_pos hγ (Complex.normSq_pos.mpr hH)
  have hg2 : 0 ≤ σ - υ * υ / γ := by
    have : σ - υ * υ / γ = (σ * γ - υ * υ) / γ := by field_simp
    rw [this]; exact div_nonneg hpd hγ.le
  exact causality_nonneg _ _ hay (mul_nonneg hg2 (Complex.normSq_nonneg _))

/-- rescaling the innovation covariance leaves the "hatted" transfer functions alone (`υ/σ`, `υ/γ` are ratios) -/
lemma HxxHat_scale (t : ℝ) (ht : t ≠ 0) : HxxHat H (t * σ) (t * υ) = HxxHat H σ υ := by
  unfold HxxHat
  have : ((t * υ : ℝ) : ℂ) / ((t * σ : ℝ) : ℂ) = (υ : ℂ) / (σ : ℂ) := by
    push_cast; exact mul_div_mul_left _ _ (by exact_mod_cast ht)
  rw [this]

lemma HyyHat_scale (t : ℝ) (ht : t ≠ 0) : HyyHat H (t * υ) (t * γ) = HyyHat H υ γ := by
  unfold HyyHat
  have : ((t * υ : ℝ) : ℂ) / ((t * γ : ℝ) : ℂ) = (υ : ℂ) / (γ : ℂ) := by
    push_cast; exact mul_div_mul_left _ _ (by exact_mod_cast ht)
  rw [this]

/-- **C12 scale invariance.** The directional causality spectra are homogeneous of degree 0 in the innovation
covariance: `Σ ↦ t·Σ` (`t ≠ 0`; amplitudes of the data 1e-150 … 1e150) leaves both ratios — hence `f_{y→x}` and
`f_{x→y}` — unchanged, with no threshold anywhere in the formula. -/
theorem causality_scale_invariant (t : ℝ) (ht : t ≠ 0) :
    (grangerAt H (covR (t * σ) (t * υ) (t * γ))).rY2X = (grangerAt H (covR σ υ γ)).rY2X ∧
    (grangerAt H (covR (t * σ) (t * υ) (t * γ))).rX2Y = (grangerAt H (covR σ υ γ)).rX2Y := by
  have e1 : t * γ - t * υ * (t * υ) / (t * σ) = t * (γ - υ * υ / σ) := by
    have : t * υ * (t * υ) / (t * σ) = t * (υ * υ / σ) := by
      rw [show t * υ * (t * υ) = t * (t * (υ * υ)) by ring, mul_div_mul_left _ _ ht]; ring
    rw [this]; ring
  have e2 : t * σ - t * υ * (t * υ) / (t * γ) = t * (σ - υ * υ / γ) := by
    have : t * υ * (t * υ) / (t * γ) = t * (υ * υ / γ) := by
      rw [show t * υ * (t * υ) = t * (t * (υ * υ)) by ring, mul_div_mul_left _ _ ht]; ring
    rw [this]; ring
  constructor
  · rw [gc_rY2X, gc_rY2X]
    congr 1
    unfold SxxR axR
    rw [HxxHat_scale H σ υ t ht, e1,
      show t * σ * Complex.normSq (HxxHat H σ υ) + t * (γ - υ * υ / σ) * Complex.normSq H.m01
        = t * (σ * Complex.normSq (HxxHat H σ υ) + (γ - υ * υ / σ) * Complex.normSq H.m01) by ring,
      mul_assoc, mul_div_mul_left _ _ ht]
  · rw [gc_rX2Y, gc_rX2Y]
    congr 1
    unfold SyyR ayR
    rw [HyyHat_scale H υ γ t ht, e2,
      show t * γ * Complex.normSq (HyyHat H υ γ) + t * (σ - υ * υ / γ) * Complex.normSq H.m10
        = t * (γ * Complex.normSq (HyyHat H υ γ) + (σ - υ * υ / γ) * Complex.normSq H.m10) by ring,
      mul_assoc, mul_div_mul_left _ _ ht]

/-- **C12 decomposition.** `f_{x→y} + f_{y→x} + f_{x·y} = −log(1 − coherence)`, with the
coherence computed by `coherence_from_spectral` from the returned spectral matrix. -/
theorem decomposition (hax : 0 < axR H σ υ) (hay : 0 < ayR H υ γ)
    (hSxx : 0 < SxxR H σ υ γ) (hSyy : 0 < SyyR H σ υ γ)
    (hdet : 0 < SxxR H σ υ γ * SyyR H σ υ γ
        - ((grangerAt H (covR σ υ γ)).S.m01 * (grangerAt H (covR σ υ γ)).S.m10).re) :
    Real.log ((grangerAt H (covR σ υ γ)).rX2Y).re + Real.log ((grangerAt H (covR σ υ γ)).rY2X).re
      + Real.log ((grangerAt H (covR σ υ γ)).rXY).re
    = - Real.log (interdepArgAt (grangerAt H (covR σ υ γ)).S).re := by
  set G := grangerAt H (covR σ υ γ) with hG
  set c := (G.S.m01 * G.S.m10).re with hc
  have e1 : G.rX2Y.re = SyyR H σ υ γ / ayR H υ γ := by rw [hG, gc_rX2Y, Complex.ofReal_re]
  have e2 : G.rY2X.re = SxxR H σ υ γ / axR H σ υ := by rw [hG, gc_rY2X, Complex.ofReal_re]
  have e3 : G.rXY.re = axR H σ υ * ayR H υ γ / (SxxR H σ υ γ * SyyR H σ υ γ - c) := by
    have : G.rXY = G.xxAuto * G.yyAuto / (((G.S.m00 * G.S.m11 - G.S.m01 * G.S.m10).re : ℝ) : ℂ) := rfl
    rw [this, hG, gc_xxAuto, gc_yyAuto, gc_Sxx, gc_Syy, ← hG]
    have : ((SxxR H σ υ γ : ℂ) * (SyyR H σ υ γ : ℂ) - G.S.m01 * G.S.m10).re
        = SxxR H σ υ γ * SyyR H σ υ γ - c := by
      rw [Complex.sub_re, ← Complex.ofReal_mul, Complex.ofReal_re]
    rw [this, ← Complex.ofReal_mul, ← Complex.ofReal_div, Complex.ofReal_re]
  have e4 : (interdepArgAt G.S).re = 1 - c / (SxxR H σ υ γ * SyyR H σ υ γ) := by
    have : interdepArgAt G.S = 1 - ((c : ℝ) : ℂ) / ((G.S.m00.re : ℝ) : ℂ) / ((G.S.m11.re : ℝ) : ℂ) := rfl
    rw [this, hG, gc_Sxx, gc_Syy, Complex.ofReal_re, Complex.ofReal_re, ← Complex.ofReal_div,
      ← Complex.ofReal_div, Complex.sub_re, Complex.one_re, Complex.ofReal_re, div_div]
  rw [e1, e2, e3, e4, add_comm (Real.log (SyyR H σ υ γ / ayR H υ γ))]
  exact _root_.decomposition _ _ _ _ c hax hay hSxx hSyy hdet


/-! ### the coefficient polynomial -/

lemma polyEval_cons (x : ℂ) (l : List ℂ) (z : ℂ) :
    polyEval (x :: l) z = x + ∑ j ∈ Finset.range l.length, l.getD j 0 * z ^ (j + 1) := by
  rw [polyEval_eq]
  simp only [List.length_cons]
  rw [Finset.sum_range_succ', add_comm]
  simp

/-- `A(ω) = I + Σ_k a[k]·z^k` entrywise (`z = e^{-iω}`) -/
theorem polyA_formula (c : Coefs ℂ) (z : ℂ) :
    (polyA c z).m00 = 1 + ∑ j ∈ Finset.range c.c00.length, c.c00.getD j 0 * z ^ (j + 1) ∧
    (polyA c z).m01 = 0 + ∑ j ∈ Finset.range c.c01.length, c.c01.getD j 0 * z ^ (j + 1) ∧
    (polyA c z).m10 = 0 + ∑ j ∈ Finset.range c.c10.length, c.c10.getD j 0 * z ^ (j + 1) ∧
    (polyA c z).m11 = 1 + ∑ j ∈ Finset.range c.c11.length, c.c11.getD j 0 * z ^ (j + 1) :=
  ⟨polyEval_cons _ _ _, polyEval_cons _ _ _, polyEval_cons _ _ _, polyEval_cons _ _ _⟩

/-- **C12 the transfer function inverts the coefficient polynomial at every frequency.** -/
theorem transfer_inverts (c : Coefs ℂ) (z : ℂ)
    (hdet : (polyA c z).m00 * (polyA c z).m11 - (polyA c z).m01 * (polyA c z).m10 ≠ 0) :
    toMat (transferAt c z) * toMat (polyA c z) = 1 ∧ toMat (polyA c z) * toMat (transferAt c z) = 1 :=
  H_mul_A _ hdet

/-! ### relabelling the channels -/

lemma polyA_swap (c : Coefs ℂ) (z : ℂ) : polyA c.swap z = (polyA c z).swap := rfl

lemma transferOfA_swap (A : M2 ℂ) : transferOfA A.swap = (transferOfA A).swap := by
  simp only [transferOfA, M2.swap, sc_mul, sc_sub, sc_div, sc_neg, M2.mk.injEq]
  have : A.m11 * A.m00 - A.m10 * A.m01 = A.m00 * A.m11 - A.m01 * A.m10 := by ring
  rw [this]; exact ⟨rfl, rfl, rfl, rfl⟩

/-- relabelling the channels relabels the transfer function -/
theorem transfer_swap (c : Coefs ℂ) (z : ℂ) : transferAt c.swap z = (transferAt c z).swap := by
  simp only [transferAt, polyA_swap, transferOfA_swap]

lemma covR_swap : (covR σ υ γ).swap = covR γ υ σ := rfl

/-- **C12 relabelling swaps the directions** (and keeps the instantaneous term). -/
theorem relabel_swaps (hσ : σ ≠ 0) (hγ : γ ≠ 0) :
    (grangerAt H.swap (covR γ υ σ)).rX2Y = (grangerAt H (covR σ υ γ)).rY2X ∧
    (grangerAt H.swap (covR γ υ σ)).rY2X = (grangerAt H (covR σ υ γ)).rX2Y ∧
    (grangerAt H.swap (covR γ υ σ)).rXY = (grangerAt H (covR σ υ γ)).rXY := by
  refine ⟨rfl, rfl, ?_⟩
  have hs1 := S_same_both_routines H.swap γ υ σ hγ hσ
  have hs2 := S_same_both_routines H σ υ γ hσ hγ
  have hsp : toMat (spectralAt H.swap (covR γ υ σ)) = toMat (spectralAt H (covR σ υ γ)).swap := by
    ext i j
    fin_cases i <;> fin_cases j <;>
    · simp [toMat, spectralAt, M2.swap, covR]
      ring
  have e : ∀ (m m' : M2 ℂ), toMat m = toMat m' → m = m' := by
    intro m m' h
    have h00 := congrFun (congrFun h 0) 0
    have h01 := congrFun (congrFun h 0) 1
    have h10 := congrFun (congrFun h 1) 0
    have h11 := congrFun (congrFun h 1) 1
    simp [toMat] at h00 h01 h10 h11
    cases m; cases m'; simp_all
  have hS : (grangerAt H.swap (covR γ υ σ)).S = ((grangerAt H (covR σ υ γ)).S).swap := by
    apply e
    rw [hs1, hsp, ← e _ _ hs2]
  have h1 : (grangerAt H.swap (covR γ υ σ)).xxAuto = (grangerAt H (covR σ υ γ)).yyAuto := rfl
  have h2 : (grangerAt H.swap (covR γ υ σ)).yyAuto = (grangerAt H (covR σ υ γ)).xxAuto := rfl
  have hx : ∀ (G : GC ℂ), G = grangerAt H.swap (covR γ υ σ) ∨ G = grangerAt H (covR σ υ γ) →
      G.rXY = G.xxAuto * G.yyAuto / (((G.S.m00 * G.S.m11 - G.S.m01 * G.S.m10).re : ℝ) : ℂ) := by
    intro G hG; rcases hG with rfl | rfl <;> rfl
  rw [hx _ (Or.inl rfl), hx _ (Or.inr rfl), hS, h1, h2]
  simp only [M2.swap]
  rw [mul_comm ((grangerAt H (covR σ υ γ)).yyAuto), mul_comm ((grangerAt H (covR σ υ γ)).S.m11),
    mul_comm ((grangerAt H (covR σ υ γ)).S.m10)]

/-! ### no coupling, no causality -/

lemma polyEval_zero_cons_zeros (l : List ℂ) (hz : ∀ x ∈ l, x = 0) (z : ℂ) :
    polyEval (Scalar.zero :: l) z = 0 := by
  rw [polyEval_eq]
  apply Finset.sum_eq_zero
  intro j _
  have : (Scalar.zero :: l).getD j 0 = 0 := by
    cases j with
    | zero => simp
    | succ j =>
      rw [List.getD_cons_succ, List.getD_eq_getElem?_getD]
      cases h : l[j]? with
      | none => rfl
      | some x => exact hz x (List.mem_of_getElem? h)
  rw [this, zero_mul]

/-- **C12 no cross-coupling ⇒ zero causality.** If every `a[k][0,1]` is zero (y does not enter
the x equation) then `H_xy = 0` and `f_{y→x} = log 1 = 0` at every frequency. -/
theorem no_coupling_zero (c : Coefs ℂ) (hz : ∀ x ∈ c.c01, x = 0) (z : ℂ)
    (hauto : (grangerAt (transferAt c z) (covR σ υ γ)).xxAuto ≠ 0) :
    (transferAt c z).m01 = 0 ∧
    Real.log ((grangerAt (transferAt c z) (covR σ υ γ)).rY2X).re = 0 := by
  have h01 : (transferAt c z).m01 = 0 := by
    have hb : polyEval (Scalar.zero :: c.c01) z = 0 := polyEval_zero_cons_zeros _ hz z
    simp only [transferAt, transferOfA, polyA, hb, sc_neg, sc_div, neg_zero, zero_div]
  refine ⟨h01, ?_⟩
  have hr : (grangerAt (transferAt c z) (covR σ υ γ)).rY2X = 1 := by
    have hx := gc_xxAuto (transferAt c z) σ υ γ
    have hS := gc_Sxx (transferAt c z) σ υ γ
    have : SxxR (transferAt c z) σ υ γ = axR (transferAt c z) σ υ := by
      simp [SxxR, h01]
    rw [gc_rY2X, this, div_self]
    · simp
    · intro h0; apply hauto; rw [hx, h0]; simp
  rw [hr]; simp

/-! ### analyzer bookkeeping -/

/-- **C12 analyzer places pairs.** After `_dict2arr`, entry `[i, j]` holds the pairwise function
result for `(i, j)` exactly when `(i, j)` was requested, and NaN (`none`) otherwise —
whatever the order (and multiplicity) of the `ij` list. -/
theorem analyzer_places_pairs {α : Type} (ij : List (ℕ × ℕ)) (val : ℕ × ℕ → α) (q : ℕ × ℕ) :
    dict2arr ij val q = if q ∈ ij then some (val q) else none := by
  unfold dict2arr
  induction ij using List.reverseRecOn with
  | nil => simp
  | append_singleton l p ih =>
    rw [List.foldl_append]
    simp only [List.foldl_cons, List.foldl_nil, List.mem_append, List.mem_singleton]
    by_cases hqp : q = p
    · subst hqp; simp
    · simp [hqp, ih]

/-- the default pair list is exactly the pairs `i < j < n` -/
theorem defaultIJ_mem (n : ℕ) (q : ℕ × ℕ) : q ∈ defaultIJ n ↔ q.1 < q.2 ∧ q.2 < n := by
  obtain ⟨i, j⟩ := q
  simp only [defaultIJ, List.mem_flatMap, List.mem_range, List.mem_map, Prod.mk.injEq]
  constructor
  · rintro ⟨row, hrow, col, hcol, rfl, rfl⟩; exact ⟨hcol, hrow⟩
  · rintro ⟨h1, h2⟩; exact ⟨j, h2, i, h1, rfl, rfl⟩

/-- **C12 analyzer frequency axis.** `GrangerAnalyzer.frequencies[k] = Fs·ω_k/(2π)` for the grid
`ω_k = π k/n` (`n = n_freqs//2 + 1`) on which `granger_causality_xy` evaluates the spectra (the
grid without Nyquist, `Generated.FreqResponse.includeNyquist = false`). -/
theorem analyzer_freq_axis (Fs : ℝ) (n k : ℕ) :
    (analyzerFreq (Fs : ℂ) n k : ℂ) = ((Fs * gridOmega false k n / (2 * Real.pi) : ℝ) : ℂ) := by
  simp only [analyzerFreq, sc_mul, sc_div, sc_ofNat, gridOmega]
  have hpi : (Real.pi : ℂ) ≠ 0 := by exact_mod_cast Real.pi_ne_zero
  push_cast
  by_cases hn : (n : ℂ) = 0
  · simp [hn]
  · field_simp

/-- the analyzer axis is the spectral grid exactly when `freq_response` does not ask for Nyquist -/
theorem analyzer_grid_flag : Nitime.Generated.FreqResponse.includeNyquist = false := rfl

/-! ### the analyzer re-targeted with `set_input` -/
section retarget
open Nitime.GrangerObj

/-- **C12 analyzer re-targeted.** For EVERY history of `set_input`s and reads on one
`GrangerAnalyzer` (model of `Model/GrangerObj.lean`: `_model`, `_granger_causality`, `frequencies`
stored on first read, all dropped by `set_input`), every causality array read is `anaArrays` — the
pairwise spectra placed by `_dict2arr` — of the fitted models of the input held AT THAT MOMENT, and
every frequency axis is the axis of that input's sampling rate. -/
theorem analyzer_retarget_spectra (nf : ℕ) (ops : List (Op AIn)) (d : AIn) :
    run AIn.fitted (fun d ps => anaArrays d.nproc nf ps) (analyzerAxis nf) ops
        (construct d)
      = ref AIn.fitted (fun d ps => anaArrays d.nproc nf ps) (analyzerAxis nf) ops d :=
  run_eq_ref _ _ _ ops d

/-- in particular, whatever was read before: after `set_input(d')` the spectra and the axis are those of `d'` -/
theorem analyzer_spectra_after_set_input (nf : ℕ) (pre : List (Op AIn)) (d0 d' : AIn) :
    run AIn.fitted (fun d ps => anaArrays d.nproc nf ps) (analyzerAxis nf)
        (pre ++ [.setInput d', .readModel, .readGC, .readFreqs]) (construct d0)
      = ref AIn.fitted (fun d ps => anaArrays d.nproc nf ps) (analyzerAxis nf) pre d0 ++
        [.done, .model d'.fitted, .gc (d'.fitted.map (anaArrays d'.nproc nf)), .freqs (analyzerAxis nf d')] :=
  read_after_setInput _ _ _ pre d0 d'

/-- non-vacuity: read, re-target, read -/
example (nf : ℕ) (d0 d' : AIn) :
    run AIn.fitted (fun d ps => anaArrays d.nproc nf ps) (analyzerAxis nf)
        [.readGC, .setInput d', .readGC] (construct d0)
      = [.gc (d0.fitted.map (anaArrays d0.nproc nf)), .done, .gc (d'.fitted.map (anaArrays d'.nproc nf))] := by
  rw [analyzer_retarget_spectra]; rfl

/-- **L7: a failed read leaves nothing behind.** The first input's fitting raises (`ok = false`): the read raises;
after `set_input(d')` every array and the axis are those of `d'` alone -/
theorem analyzer_spectra_after_failed_fit (nf : ℕ) (d0 d' : AIn) (h0 : d0.ok = false) :
    run AIn.fitted (fun d ps => anaArrays d.nproc nf ps) (analyzerAxis nf)
        [.readGC, .readModel, .setInput d', .readGC, .readFreqs] (construct d0)
      = [.gc none, .model none, .done, .gc (d'.fitted.map (anaArrays d'.nproc nf)), .freqs (analyzerAxis nf d')] := by
  rw [analyzer_retarget_spectra]
  simp [ref, AIn.fitted, h0]

end retarget

/-! ### L8: two of the four response arrays may be ONE object (`Model/C12.lean`: `Roles`, `storeOf`, `transferShared`) -/

section sharing

lemma obj_storeOf (c : Coefs ℂ) (z : ℂ) (i : ℕ) (hi : i < 4) :
    obj (storeOf c z) i = polyEval (polyOf c i) z := by
  unfold obj storeOf
  have h4 : i = 0 ∨ i = 1 ∨ i = 2 ∨ i = 3 := by omega
  rcases h4 with rfl | rfl | rfl | rfl <;> rfl

/-- **C12 sharing.** Whichever of the four response arrays are one object — any binding a coefficient-keyed memo can
produce: names bound to objects evaluated from EQUAL coefficient rows — the value `transfer_function_xy` computes by
READING them is the transfer function of the coefficients. -/
theorem transfer_function_value_independent_of_sharing (r : Roles) (c : Coefs ℂ) (z : ℂ) (hv : r.Valid c) :
    transferShared r (storeOf c z) = transferAt c z := by
  obtain ⟨⟨ha, hb, hc, hd⟩, ea, eb, ec, ed⟩ := hv
  unfold transferShared transferAt polyA
  rw [obj_storeOf c z _ ha, obj_storeOf c z _ hb, obj_storeOf c z _ hc, obj_storeOf c z _ hd, ea, eb, ec, ed]
  rfl

/-- the old contract (four distinct fresh arrays): the in-place discipline computes the same values -/
theorem transfer_inplace_distinct_objects (c : Coefs ℂ) (z : ℂ) :
    transferSharedInplace ⟨0, 1, 2, 3⟩ (storeOf c z) = transferAt c z := by
  simp [transferSharedInplace, negateObj, obj, storeOf, transferAt, transferOfA, polyA, polyOf, List.range, List.range.loop]

/-- **counter-model (seed C12-11).** `bw is cw` (reciprocal coupling served by one array): negating "both" in place
negates the one object twice; the off-diagonal of `H` comes out with the wrong sign. Store: `aw = 2`, `bw = cw = 1`
(object 1), `dw = 1`, so `det = 1` and `H = [[1, -1], [-1, 2]]`. -/
theorem transfer_inplace_negation_counterexample :
    (transferShared ⟨0, 1, 1, 3⟩ ([2, 1, 1, 1] : List ℂ)).m01 = -1 ∧
    (transferSharedInplace ⟨0, 1, 1, 3⟩ ([2, 1, 1, 1] : List ℂ)).m01 = 1 ∧
    transferSharedInplace ⟨0, 1, 1, 3⟩ ([2, 1, 1, 1] : List ℂ) ≠ transferShared ⟨0, 1, 1, 3⟩ [2, 1, 1, 1] := by
  have h1 : (transferShared ⟨0, 1, 1, 3⟩ ([2, 1, 1, 1] : List ℂ)).m01 = -1 := by
    simp [transferShared, transferOfA, obj]; norm_num
  have h2 : (transferSharedInplace ⟨0, 1, 1, 3⟩ ([2, 1, 1, 1] : List ℂ)).m01 = 1 := by
    simp [transferSharedInplace, negateObj, obj]; norm_num
  refine ⟨h1, h2, fun h => ?_⟩
  have := congrArg M2.m01 h
  rw [h1, h2] at this
  norm_num at this

/-- in general: with `bw is cw` the in-place discipline returns `+bw/det` where the code's value is `-bw/det` -/
theorem transfer_inplace_shared_offdiag (s : List ℂ) (ra rb rd : ℕ) (hb : rb < s.length) :
    (transferSharedInplace ⟨ra, rb, rb, rd⟩ s).m01 = -(transferShared ⟨ra, rb, rb, rd⟩ s).m01 := by
  simp [transferSharedInplace, transferShared, transferOfA, negateObj, obj, List.getD_eq_getElem?_getD, hb, neg_div]

/-- non-vacuity of `Valid` beyond the identity binding: reciprocal coupling, `cw` bound to `bw`'s object -/
example (p q s : List ℂ) : (⟨0, 1, 1, 3⟩ : Roles).Valid (⟨p, q, q, s⟩ : Coefs ℂ) :=
  ⟨⟨by decide, by decide, by decide, by decide⟩, rfl, rfl, rfl, rfl⟩

end sharing

/-! ### non-vacuity: `H = I`, `Σ = I` meets every hypothesis -/

example : 0 < axR ⟨1, 0, 0, 1⟩ 1 0 ∧ 0 < ayR ⟨1, 0, 0, 1⟩ 0 1 ∧
    0 < SxxR ⟨1, 0, 0, 1⟩ 1 0 1 ∧ 0 < SyyR ⟨1, 0, 0, 1⟩ 1 0 1 := by
  simp [axR, ayR, SxxR, SyyR, HxxHat, HyyHat]

example : HxxHat ⟨1, 0, 0, 1⟩ 1 0 ≠ 0 := by simp [HxxHat]

example : (toMat (covR 1 0 1)).PosSemidef := by
  have : toMat (covR 1 0 1) = 1 := by
    ext i j; fin_cases i <;> fin_cases j <;> simp [toMat, covR]
  rw [this]; exact Matrix.PosSemidef.one

end Nitime.C12.Props
