/-
C15 — property theorems for the axis/unit plumbing of analyzers and readers (`Nitime.C15`).

The construction sites themselves are GENERATED (`Nitime.Generated.SeriesCalls`, one `SeriesCall`
per `ts.TimeSeries(...)` call in the source); the general theorems say what a site of a given shape
returns, the per-site theorems (`site_…`, by `decide` on the generated record) say which shape each
site has today: the faithful one (`exact` / `byRate`), a lag / offset axis, or a recorded defective
shape.  A source change that alters a site re-opens its theorem.
-/
import Nitime.Model.C15
import Nitime.Lemmas.C15
import Nitime.Lemmas.C15Rate
import Nitime.Lemmas.C15Rate50
import Nitime.Lemmas.C15Reader
import Nitime.Generated.TransformCalls

namespace Nitime.C15.Props
open Nitime Nitime.C15
open Nitime.Generated.SeriesCalls

/-! ### sampling rate in Hz -/

/-- Fs depends on the interval in picoseconds only, never on the display unit -/
theorem rateHz_unit_free (a : Axis) (u : TimeUnit) : rateHz { a with unit := u } = rateHz a := rfl

/-- a 1 ms interval is 1000 Hz in every unit (and at any start time / length) -/
theorem rateHz_one_ms (t0 : Int) (n : Nat) (u : TimeUnit) :
    rateHz { t0 := t0, dt := 10 ^ 9, n := n, unit := u } = 1000 := by
  simp only [rateHz]; norm_num

/-- Fs · Δ = 10¹² ps: `rateHz` is the reciprocal of the interval in seconds -/
theorem rateHz_mul_interval (a : Axis) (h : a.dt ≠ 0) : rateHz a * (a.dt : Rat) = 10 ^ 12 := by
  have : (a.dt : Rat) ≠ 0 := by exact_mod_cast h
  simp only [rateHz]; field_simp

/-- the binary64 value the constructor stores for a 1 ms interval is exactly 1000.0 for a series
expressed in s, ms, us or ns (in 'ps' the three roundings leave 1000.0000000000001: one ulp) -/
theorem rateOfInterval_one_ms :
    rateOfInterval .s (10 ^ 9) = 1000 ∧ rateOfInterval .ms (10 ^ 9) = 1000 ∧
    rateOfInterval .us (10 ^ 9) = 1000 ∧ rateOfInterval .ns (10 ^ 9) = 1000 ∧
    rateOfInterval .ps (10 ^ 9) = 1000 + 1 / 2 ^ 43 := by
  refine ⟨?_, ?_, ?_, ?_, ?_⟩ <;> decide +kernel

/-- **the stored rate is the rate in Hz**: for every unit and every positive interval the binary64
`sampling_rate` the constructor derives from a time-object interval (three divisions, one product,
each rounded) is within 12 unit round-offs (12·2⁻⁵³ < 2⁻⁴⁹ relative) of 10¹²/Δ_ps -/
theorem rateOfInterval_near_rateHz (u : TimeUnit) (a : Axis) (h : 0 < a.dt) :
    |rateOfInterval u a.dt - rateHz a| ≤ 12 * (1 / 2 ^ 53) * |rateHz a| := by
  have hf : 0 < cf u := by cases u <;> decide +kernel
  exact C15.Lemmas.rate_near (cf u) hf a.dt h

example : rateHz { t0 := 5, dt := 813270000, n := 64, unit := .ms } = 100000000 / 81327 := by
  simp only [rateHz]; norm_num

/-! ### what reaches the algorithm layer as sampling rate (GENERATED `FsBinding` sites) -/

/-- **fs_delivered_is_rateHz**: at a site fed from the input's rate (no caller override) the algorithm
receives the series' stored rate, which for a series whose rate the constructor computed from its interval is
within 12·2⁻⁵³ relative of `rateHz` = 10¹²/Δ_ps — a quantity in which the time unit does not occur -/
theorem fs_delivered_is_rateHz (b : FsSrc) (hb : b ≠ .other) (src : Series)
    (hfs : src.fs = rateOfInterval src.ax.unit src.ax.dt) (h0 : 0 < src.ax.dt) :
    ∃ fs, fsDelivered b src none = some fs ∧ fs = src.fs ∧
      |fs - rateHz src.ax| ≤ 12 * (1 / 2 ^ 53) * |rateHz src.ax| ∧
      ∀ u, rateHz { src.ax with unit := u } = rateHz src.ax := by
  refine ⟨src.fs, ?_, rfl, ?_, fun _ => rfl⟩
  · cases b <;> simp_all [fsDelivered]
  · rw [hfs]; exact rateOfInterval_near_rateHz _ _ h0

/-- a caller-supplied `method['Fs']` is honoured exactly where the code documents the override, and nowhere else -/
theorem fs_user_override (src : Series) (f : Rat) :
    fsDelivered .userOrInput src (some f) = some f ∧ fsDelivered .inputRate src (some f) = some src.fs := ⟨rfl, rfl⟩

/-- a site whose rate does not come from the input delivers nothing the theorem can vouch for -/
theorem fs_other_not_vouched (src : Series) (user : Option Rat) : fsDelivered .other src user = none := rfl

/-- **every generated Fs site takes its rate from the input series** (46 sites today: keyword `Fs=` /
`sampling_rate=` of algorithm calls, method-dict entries and stores, `get_freqs` arguments, arithmetic uses);
a getter that recomputes the rate any other way (e.g. from the interval in its display unit) fails this -/
theorem fs_sites_all_from_input :
    ∀ b ∈ Nitime.Generated.FsBindings.all, b.src ≠ .other := by decide

/-- the sites exist (non-vacuity) and the direct-rate ones outnumber the overridable ones -/
theorem fs_sites_nonempty :
    0 < (Nitime.Generated.FsBindings.all.filter (fun b => b.src = .inputRate)).length ∧
    0 < (Nitime.Generated.FsBindings.all.filter (fun b => b.src = .userOrInput)).length := by decide

/-! ### shapes of construction sites -/

/-- forwards the interval (exact), the start and the unit -/
def exact : Shape := ⟨.field .interval, .absent, .field .t0, .field .unit⟩
/-- forwards the rate (interval re-derived through binary64), the start and the unit -/
def byRate : Shape := ⟨.absent, .field .rate, .field .t0, .field .unit⟩

/-- **forwarded_axis_eq_input**: a site that forwards interval, t0 and unit returns the input's axis -/
theorem forwarded_axis_eq_input (src : Series) (p : Params) :
    outputAxis exact src p src.ax.n = .ok src.ax := rfl

/-- … and more generally with any number of output samples only `n` changes -/
theorem forwarded_axis_eq_input_n (src : Series) (p : Params) (nOut : Nat) :
    outputAxis exact src p nOut = .ok { src.ax with n := nOut } := rfl

/-- forwarding the rate instead of the interval returns the input's axis exactly when the rate
re-quantises to the input's interval -/
theorem forwarded_by_rate_axis_eq_input (src : Series) (p : Params) :
    outputAxis byRate src p src.ax.n = .ok src.ax ↔ quantise src.ax.unit src.fs = src.ax.dt := by
  obtain ⟨⟨t0, dt, n, u⟩, fs⟩ := src
  simp [outputAxis, outputSeries, byRate, argInterval, argRate, argT0, argUnit, mkSeries, Except.map, bind,
    Except.bind]

/-- **rate → interval round trip, general**: for EVERY unit and every whole interval 0 < Δ < 2⁴⁹ ps
(≈ 9.4 minutes) the interval the constructor re-derives from the rate it stored for Δ is Δ again:
`TimeArray(Frequency(rate_of(Δ)).to_period() / c_f, unit) = Δ` (eight roundings, two `rint`s; bridge over
C02's `hz_core`, `period_core`, `rne_chain3` in `Lemmas/C15Rate.lean`) -/
theorem rate_roundtrip (u : TimeUnit) (ps : Int) (h0 : 0 < ps) (hlt : ps < 2 ^ 49) :
    quantise u (rateOfInterval u ps) = ps := by
  rw [C15.Lemmas.quantise_rateOfInterval]
  exact C15.Lemmas.roundTrip_eq (cf u) ps (C15.Lemmas.cf_pos u) h0 hlt

/-- hence a rate-forwarding site returns the input's axis for every input whose stored rate is the one
the constructor computed for its interval (interval given as a time object, or as the decimal number
nearest to Δ/c_f), 0 < Δ < 2⁴⁹ ps — no example restriction; applies again to outputs fed into further
rate-forwarding sites, because rate, interval and unit are unchanged -/
theorem forwarded_by_rate_axis_eq_input_general (src : Series) (p : Params)
    (hfs : src.fs = rateOfInterval src.ax.unit src.ax.dt) (h0 : 0 < src.ax.dt) (hlt : src.ax.dt < 2 ^ 49) :
    outputAxis byRate src p src.ax.n = .ok src.ax ∧
    (outputSeries byRate src p src.ax.n).map (·.fs) = .ok src.fs := by
  refine ⟨(forwarded_by_rate_axis_eq_input src p).mpr (by rw [hfs]; exact rate_roundtrip _ _ h0 hlt), ?_⟩
  obtain ⟨⟨t0, dt, n, u⟩, fs⟩ := src
  simp [outputSeries, byRate, argInterval, argRate, argT0, argUnit, mkSeries, Except.map, bind, Except.bind]

/-- **rate → interval round trip up to 2⁵⁰ ps** (≈ 18.8 minutes; twice the range of `rate_roundtrip`) for the units
ps, ns, us, ms, s — those whose `10¹²/c_f` is itself a binary64 value, so that the stored rate costs two PAIRS of
roundings `fl(y)`, `fl(1/fl(y))`.  A pair costs `(3/2 + ε/2)·ε` relative, not `2ε` (`Lemmas50.pair_rne`: half-ulp
bound `|fl(a) − a| ≤ 2^⌊log₂ a⌋·2⁻⁵³`, exactness on powers of two), the recovered period is below 2⁵⁰ and therefore
rounded with absolute error ≤ 1/16, total < 3/8 + 1/16 < 1/2 ps.  The bound is essentially the chain's own:
`rate_roundtrip_fails_above_2_50` exhibits failures 3.4 % above it. -/
theorem rate_roundtrip50 (u : TimeUnit) (hu : C15.Lemmas50.SubSecond u) (ps : Int) (h0 : 0 < ps) (hlt : ps < 2 ^ 50) :
    quantise u (rateOfInterval u ps) = ps := by
  rw [C15.Lemmas.quantise_rateOfInterval]
  exact C15.Lemmas50.roundTrip_eq50 (cf u) ps (C15.Lemmas.cf_pos u) (C15.Lemmas50.cf_exact_quot u hu) h0 hlt

/-- a rate-forwarding site returns the input's axis and rate for every input in ps…s whose stored rate is the
constructor's, 0 < Δ < 2⁵⁰ ps -/
theorem forwarded_by_rate_axis_eq_input_general50 (src : Series) (p : Params)
    (hu : C15.Lemmas50.SubSecond src.ax.unit)
    (hfs : src.fs = rateOfInterval src.ax.unit src.ax.dt) (h0 : 0 < src.ax.dt) (hlt : src.ax.dt < 2 ^ 50) :
    outputAxis byRate src p src.ax.n = .ok src.ax ∧
    (outputSeries byRate src p src.ax.n).map (·.fs) = .ok src.fs := by
  refine ⟨(forwarded_by_rate_axis_eq_input src p).mpr (by rw [hfs]; exact rate_roundtrip50 _ hu _ h0 hlt), ?_⟩
  obtain ⟨⟨t0, dt, n, u⟩, fs⟩ := src
  simp [outputSeries, byRate, argInterval, argRate, argT0, argUnit, mkSeries, Except.map, bind, Except.bind]

/-- **where the round trip fails**: the smallest failing intervals found (random search of ~10¹⁰ intervals per unit
above 2⁵⁰ = 1 125 899 906 842 624 ps; none exists below by `rate_roundtrip50`): in ns, us, ms the interval comes back
1 ps off from about 1.034·2⁵⁰ ps (≈ 19.4 min) on, in ps from 1.416·2⁵⁰, in s from 2.572·2⁵⁰ (≈ 48 min) -/
theorem rate_roundtrip_fails_above_2_50 :
    quantise .ns (rateOfInterval .ns 1164356337866151) ≠ 1164356337866151 ∧
    quantise .us (rateOfInterval .us 1168597812801211) ≠ 1168597812801211 ∧
    quantise .ms (rateOfInterval .ms 1173539304823849) ≠ 1173539304823849 ∧
    quantise .ps (rateOfInterval .ps 1593752456449873) ≠ 1593752456449873 ∧
    quantise .s (rateOfInterval .s 2896346326069847) ≠ 2896346326069847 := by
  refine ⟨?_, ?_, ?_, ?_, ?_⟩ <;> decide +kernel

/-- instances on the intervals that came back one picosecond short while `to_period` truncated -/
theorem rate_roundtrip_examples :
    quantise .s (rateOfInterval .s 813270000000) = 813270000000 ∧
    quantise .ms (rateOfInterval .ms 2300000000) = 2300000000 ∧
    quantise .us (rateOfInterval .us 1700000) = 1700000 :=
  ⟨rate_roundtrip _ _ (by norm_num) (by norm_num), rate_roundtrip _ _ (by norm_num) (by norm_num),
   rate_roundtrip _ _ (by norm_num) (by norm_num)⟩

/-- NOT proved (`_partial` gap): intervals ≥ 2⁵⁰ ps in ps…s (where the chain really fails from 1.035·2⁵⁰ on, see
`rate_roundtrip_fails_above_2_50`), ≥ 2⁴⁹ ps in m, h, D, W (`10¹²/c_f` is rounded there), and a rate forwarded WITHOUT
the unit from a series whose unit is not seconds, where the
re-derivation runs with the factor of 's' while the rate was computed with the series' factor — there the
statement is checked per run only; one instance: -/
theorem rate_roundtrip_cross_unit_partial :
    quantise .s (rateOfInterval .ms 2300000000) = 2300000000 := by decide +kernel

/-- with the truncating `to_period` (before f90f922) a 0.81327 s interval came back as 813269999999 ps -/
theorem rate_roundtrip_trunc_counterexample :
    psOfFloat .s (F64.fdiv (F64.ofInt (toPeriodTrunc (rateOfInterval .s 813270000000))) (cf .s)) = 813269999999 := by
  decide +kernel

/-- a site that does not pass `t0` starts its output at 0, whatever the input's start -/
theorem dropped_t0_starts_at_zero (sh : Shape) (h : sh.t0 = .absent) (src : Series) (p : Params) (nOut : Nat)
    (out : Series) (ho : outputSeries sh src p nOut = .ok out) : out.ax.t0 = 0 :=
  C15.Lemmas.t0_of_absent sh h src p nOut out ho

/-- a site that does not pass `time_unit` returns seconds, whatever the input's unit -/
theorem dropped_unit_is_seconds (sh : Shape) (h : sh.unit = .absent) (src : Series) (p : Params) (nOut : Nat)
    (out : Series) (ho : outputSeries sh src p nOut = .ok out) : out.ax.unit = .s :=
  C15.Lemmas.unit_of_absent sh h src p nOut out ho

/-- hence: a t0-dropping site fails `axis = input axis` on every input that does not start at 0 -/
theorem dropped_t0_counterexample (sh : Shape) (h : sh.t0 = .absent) (src : Series) (p : Params)
    (h0 : src.ax.t0 ≠ 0) : outputAxis sh src p src.ax.n ≠ .ok src.ax := by
  intro he
  cases ho : outputSeries sh src p src.ax.n with
  | error e => simp [outputAxis, ho, Except.map] at he
  | ok out =>
    have := dropped_t0_starts_at_zero sh h src p _ out ho
    simp [outputAxis, ho, Except.map] at he
    rw [he] at this; exact h0 this

/-- … and a unit-dropping site on every input that is not expressed in seconds -/
theorem dropped_unit_counterexample (sh : Shape) (h : sh.unit = .absent) (src : Series) (p : Params)
    (hu : src.ax.unit ≠ .s) : outputAxis sh src p src.ax.n ≠ .ok src.ax := by
  intro he
  cases ho : outputSeries sh src p src.ax.n with
  | error e => simp [outputAxis, ho, Except.map] at he
  | ok out =>
    have := dropped_unit_is_seconds sh h src p _ out ho
    simp [outputAxis, ho, Except.map] at he
    rw [he] at this; exact hu this

/-! ### lag axes (correlation) -/

/-- lag axis of the full cross-correlation of two length-n signals: 2n−1 samples -/
def lagShape (s : Sym) (u : Arg) : Shape := ⟨.field .interval, .absent, .scaled true s, u⟩

/-- **xcorr_zero_lag_at_zero** (intended labelling, t0 = −Δ·(n−1)): the true zero-lag sample (index
n−1 of the 2n−1 lags) is labelled 0, sample k is labelled (k−(n−1))·Δ, and the axis is symmetric -/
theorem xcorr_zero_lag_at_zero (src : Series) (p : Params) (u : Arg) (out : Series) (hn : 0 < src.ax.n)
    (ho : outputSeries (lagShape .nMinus1 u) src p (2 * src.ax.n - 1) = .ok out) :
    out.ax.dt = src.ax.dt ∧ timeAt out.ax (src.ax.n - 1) = 0 ∧
    (∀ k : Nat, timeAt out.ax k = ((k : Int) - ((src.ax.n : Int) - 1)) * src.ax.dt) ∧
    timeAt out.ax 0 = - timeAt out.ax (out.ax.n - 1) :=
  C15.Lemmas.lag_intended src p u out hn ho

/-- the labelling as coded today (t0 = −Δ·n): the zero-lag sample n−1 is labelled −Δ, time 0 sits on
index n, and the axis is not symmetric — the counterexample to the clause for every Δ ≠ 0 -/
theorem xcorr_zero_lag_current_counterexample (src : Series) (p : Params) (u : Arg) (out : Series)
    (hn : 0 < src.ax.n) (hd : src.ax.dt ≠ 0)
    (ho : outputSeries (lagShape .n u) src p (2 * src.ax.n - 1) = .ok out) :
    timeAt out.ax (src.ax.n - 1) = - src.ax.dt ∧ timeAt out.ax (src.ax.n - 1) ≠ 0 ∧
    timeAt out.ax src.ax.n = 0 :=
  C15.Lemmas.lag_current src p u out hn hd ho

example : outputAxis (lagShape .nMinus1 .absent) ⟨⟨5, 10, 4, .ms⟩, 100⟩ {} 7 = .ok ⟨-30, 10, 7, .s⟩ := by decide

/-! ### offset axes (event-locked outputs) -/

def offsetShape : Shape := ⟨.field .interval, .absent, .scaled false .offset, .field .unit⟩

/-- **eta_axis_starts_at_offset**: an event-locked output keeps interval and unit, starts at
offset·Δ, and its k-th sample is labelled (offset+k)·Δ -/
theorem eta_axis_starts_at_offset (src : Series) (p : Params) (nOut : Nat) :
    ∃ out, outputSeries offsetShape src p nOut = .ok out ∧
      out.ax.dt = src.ax.dt ∧ out.ax.unit = src.ax.unit ∧ out.ax.n = nOut ∧
      out.ax.t0 = p.offset * src.ax.dt ∧
      ∀ k : Nat, timeAt out.ax k = (p.offset + k) * src.ax.dt := by
  refine ⟨_, rfl, rfl, rfl, rfl, ?_, ?_⟩
  · simp [symVal]
  · intro k; simp [timeAt, symVal]; ring

example : outputAxis offsetShape ⟨⟨7, 10, 100, .ms⟩, 100⟩ { offset := -3, lenEt := 5 } 5 = .ok ⟨-30, 10, 5, .ms⟩ := by
  decide

/-! ### concatenation and voxel selection -/

/-- **concat_is_append**: channel c of the concatenation is the runs' channel-c data one after the
other; its length is the sum of the runs' lengths -/
theorem concat_is_append {α} (d : List (List α)) (rest : List (List (List α))) (c : Nat) (hc : c < d.length) :
    (concatData (d :: rest)).length = d.length ∧
    (concatData (d :: rest)).getD c [] = ((d :: rest).map fun b => b.getD c []).flatten ∧
    ((concatData (d :: rest)).getD c []).length = (((d :: rest).map fun b => (b.getD c []).length)).sum :=
  C15.Lemmas.concat_spec d rest c hc

/-- two runs: sample i of the result comes from the first run for i < n₁ and from the second after -/
theorem concat_two_index {α} [Inhabited α] (a b : List (List α)) (c : Nat) (hc : c < a.length) (i : Nat) :
    ((concatData [a, b]).getD c [])[i]! =
      if i < (a.getD c []).length then (a.getD c [])[i]! else (b.getD c [])[i - (a.getD c []).length]! :=
  C15.Lemmas.concat_two a b c hc i

/-- the series returned by `concatenate_time_series` for a site of the shape found in the source
(interval from the last run): interval of the last run, as many samples as the data -/
theorem concat_axis {α} (ss : List (Series × List (List α))) (last : Series × List (List α))
    (hl : ss.getLast? = some last) :
    ∃ out, concatenate ss ⟨.field .interval, .absent, .absent, .absent⟩ = .ok out ∧
      out.1.ax.dt = last.1.ax.dt ∧ out.2 = concatData (ss.map (·.2)) ∧
      out.1.ax.n = ((concatData (ss.map (·.2))).getD 0 []).length := by
  simp only [concatenate, hl]
  exact ⟨_, rfl, rfl, rfl, rfl⟩

example : concatData [[[1, 2], [3, 4]], [[5], [6]]] = [[1, 2, 5], [3, 4, 6]] := by decide

/-- **coords_select_voxels**: one row per coordinate triple, row i is the full time course of voxel
(c0[i], c1[i], c2[i]), sample t being the volume entry at C-order position ((x·Y+y)·Z+z)·T+t -/
theorem coords_select_voxels {α} [Inhabited α] (v : Vol α) (c0 c1 c2 : List Nat) :
    (selectVoxels v c0 c1 c2).length = c0.length ∧
    ∀ i (hi : i < c0.length),
      (selectVoxels v c0 c1 c2)[i]'(by simp [selectVoxels, hi]) = v.voxel (c0.getD i 0) (c1.getD i 0) (c2.getD i 0) ∧
      (v.voxel (c0.getD i 0) (c1.getD i 0) (c2.getD i 0)).length = v.T ∧
      ∀ t (ht : t < v.T), (v.voxel (c0.getD i 0) (c1.getD i 0) (c2.getD i 0))[t]'(by simp [Vol.voxel, ht]) =
        v.flat[(((c0.getD i 0) * v.Y + (c1.getD i 0)) * v.Z + (c2.getD i 0)) * v.T + t]! := by
  refine ⟨by simp [selectVoxels], fun i hi => ⟨by simp [selectVoxels], by simp [Vol.voxel], fun t ht => by simp [Vol.voxel]⟩⟩

example : selectVoxels ⟨2, 2, 2, 2, #[0, 1, 2, 3, 4, 5, 6, 7, 8, 9, 10, 11, 12, 13, 14, 15]⟩ [0, 1] [1, 1] [0, 1]
    = [[4, 5], [14, 15]] := by decide

/-! ### the construction sites found in the source today (by `decide` on the generated records) -/

/-- the generated list is exactly these sites: a new or vanished `TimeSeries(...)` call re-opens this -/
theorem sites_enumerated :
    all.map (·.key) =
      ["FilterAnalyzer.filtfilt.0", "FilterAnalyzer.fir.0", "FilterAnalyzer.filtered_fourier.0",
       "FilterAnalyzer.filtered_boxcar.0",
       "HilbertAnalyzer.analytic.0", "HilbertAnalyzer.amplitude.0", "HilbertAnalyzer.phase.0",
       "HilbertAnalyzer.real.0", "HilbertAnalyzer.imag.0",
       "MorletWaveletAnalyzer.analytic.0", "MorletWaveletAnalyzer.amplitude.0", "MorletWaveletAnalyzer.phase.0",
       "MorletWaveletAnalyzer.real.0", "MorletWaveletAnalyzer.imag.0",
       "CorrelationAnalyzer.xcorr.0", "CorrelationAnalyzer.xcorr_norm.0",
       "NormalizationAnalyzer.percent_change.0", "NormalizationAnalyzer.z_score.0",
       "signal_noise.0", "signal_noise.1",
       "EventRelatedAnalyzer.FIR.0", "EventRelatedAnalyzer.xcorr_eta.0", "EventRelatedAnalyzer.et_data.0",
       "EventRelatedAnalyzer.eta.0", "EventRelatedAnalyzer.ets.0",
       "_tseries_from_nifti_helper.0", "concatenate_time_series.0"] := by
  decide

/-- faithful: interval (or rate), t0 and unit all forwarded from the source series -/
def Faithful (sh : Shape) : Prop := sh = exact ∨ sh = byRate
instance (sh : Shape) : Decidable (Faithful sh) := by unfold Faithful; infer_instance

/-- FilterAnalyzer: `filtfilt` (→ `iir`), the intermediate series of `fir`, `filtered_fourier`,
`filtered_boxcar` all forward rate, t0, unit (fir's unit since repo 82d8cdf) -/
theorem site_filter_forwarding :
    Faithful FilterAnalyzer_filtfilt_0.shape ∧ Faithful FilterAnalyzer_filtered_fourier_0.shape ∧
    Faithful FilterAnalyzer_filtered_boxcar_0.shape ∧ Faithful FilterAnalyzer_fir_0.shape := by decide

/-- NormalizationAnalyzer: both outputs faithful (t0 since repo a2d69d0) -/
theorem site_normalization :
    Faithful NormalizationAnalyzer_percent_change_0.shape ∧ Faithful NormalizationAnalyzer_z_score_0.shape := by
  decide

/-- HilbertAnalyzer: all five outputs faithful (repo 8e7c670) -/
theorem site_hilbert :
    ∀ c ∈ [HilbertAnalyzer_analytic_0, HilbertAnalyzer_amplitude_0, HilbertAnalyzer_phase_0,
           HilbertAnalyzer_real_0, HilbertAnalyzer_imag_0], Faithful c.shape := by decide

/-- MorletWaveletAnalyzer: all five outputs faithful (repo 7445a9e) -/
theorem site_wavelet :
    ∀ c ∈ [MorletWaveletAnalyzer_analytic_0, MorletWaveletAnalyzer_amplitude_0, MorletWaveletAnalyzer_phase_0,
           MorletWaveletAnalyzer_real_0, MorletWaveletAnalyzer_imag_0], Faithful c.shape := by
  decide

/-- SNR `signal_noise`: both series faithful (repo 6780c75) -/
theorem site_snr :
    ∀ c ∈ [signal_noise_0, signal_noise_1], Faithful c.shape := by decide

/-- CorrelationAnalyzer: lag axis with the exact interval, zero lag at time zero (t0 = −Δ·(n−1), repo
8b4ced3) and the input's unit (repo 875d565) -/
theorem site_xcorr :
    ∀ c ∈ [CorrelationAnalyzer_xcorr_0, CorrelationAnalyzer_xcorr_norm_0],
      c.shape = lagShape .nMinus1 (.field .unit) := by decide

/-- EventRelatedAnalyzer `et_data`, `eta`, `ets`: offset axes with the exact interval -/
theorem site_event_related_eta :
    ∀ c ∈ [EventRelatedAnalyzer_et_data_0, EventRelatedAnalyzer_eta_0, EventRelatedAnalyzer_ets_0],
      c.shape = offsetShape := by decide

/-- EventRelatedAnalyzer `FIR`: offset axis, interval exact or (today) re-derived from the rate;
`xcorr_eta`: starts at −len_et·Δ -/
theorem site_event_related_fir :
    (EventRelatedAnalyzer_FIR_0.shape = offsetShape ∨
      EventRelatedAnalyzer_FIR_0.shape = ⟨.absent, .field .rate, .scaled false .offset, .field .unit⟩) ∧
    (EventRelatedAnalyzer_xcorr_eta_0.shape = ⟨.field .interval, .absent, .scaled true .lenEt, .field .unit⟩ ∨
      EventRelatedAnalyzer_xcorr_eta_0.shape = ⟨.absent, .field .rate, .scaled true .lenEt, .field .unit⟩) := by decide

/-- the file reader's helper takes the caller's TR as interval; `concatenate_time_series` forwards the
interval of the last run -/
theorem site_reader :
    _tseries_from_nifti_helper_0.shape = ⟨.param, .absent, .absent, .absent⟩ ∧
    concatenate_time_series_0.shape = ⟨.field .interval, .absent, .absent, .absent⟩ := by decide

/-- the reader's series has TR as its interval: a time object is kept to the picosecond, a bare number
is read in seconds and rounded to the nearest picosecond of its binary64 product with 10¹² -/
theorem reader_interval_is_TR (src : Series) (n : Nat) :
    (∀ ps u, (outputAxis ⟨.param, .absent, .absent, .absent⟩ src { tr := some (.time ps u) } n)
        = .ok ⟨0, ps, n, .s⟩) ∧
    (∀ x, (outputAxis ⟨.param, .absent, .absent, .absent⟩ src { tr := some (.num x) } n)
        = .ok ⟨0, F64.rint (F64.fmul x (10 ^ 12)), n, .s⟩) := by
  refine ⟨fun ps u => rfl, fun x => ?_⟩
  have h : cf .s = 10 ^ 12 := by decide +kernel
  simp [outputAxis, outputSeries, argInterval, argRate, argT0, argUnit, mkSeries, Except.map, bind, Except.bind,
    psOfFloat, h]

/-! ### the reader over HISTORIES: read → modify the returned series in place → read again (`Model/C15Reader.lean`)

Object identity is part of the model: every returned series' `.data` lives in a heap buffer, the caller may
overwrite any buffer it was handed, and the reader may or may not keep hidden state between calls. -/
open Nitime.C15.Reader in
/-- **every read of every history returns the disk**: for the code as it is (`im = load(f)` per call, generated
`ReaderLoads`), after ANY sequence of reads (single file / lists of files, with or without coordinates) and in-place
writes into ANY series handed out before, a read returns exactly the voxel data on disk at the requested coordinates,
runs appended in time — `expected` is a function of the initial disk alone -/
theorem reader_faithful_after_any_history {α} (disk : List (File α)) (ops : List (Op α))
    (fs : List Nat) (single : Bool) (c : Option Coords) :
    lastData (read .freshLoad (run .freshLoad (init disk) ops) fs single c) = expected disk fs single c := by
  rw [read_faithful, run_disk]; rfl

open Nitime.C15.Reader in
/-- … in fact from any state whatsoever (arbitrary heap contents and results) -/
theorem reader_faithful_any_state {α} (st : St α) (fs : List Nat) (single : Bool) (c : Option Coords) :
    lastData (read .freshLoad st fs single c) = expected st.disk fs single c := read_faithful st fs single c

open Nitime.C15.Reader in
/-- **no two series ever handed out share memory**, and each lives in an existing buffer -/
theorem reader_results_never_alias {α} (disk : List (File α)) (ops : List (Op α)) :
    (run .freshLoad (init disk) ops).results.Nodup ∧
    ∀ id ∈ (run .freshLoad (init disk) ops).results, id < (run .freshLoad (init disk) ops).heap.length :=
  let h := wf_run ops (init disk) (wf_init disk); ⟨h.2, h.1⟩

open Nitime.C15.Reader in
/-- **a live series changes only through its own modification**: in every reachable state, a further read (of
anything) or a write into ANOTHER series leaves the data of series j as it was; a write into j sets it -/
theorem reader_live_results_stable {α} (disk : List (File α)) (ops : List (Op α)) (op : Op α) (j : Nat)
    (hj : j < (run .freshLoad (init disk) ops).results.length) (hop : ∀ r b, op = .write r b → r ≠ j) :
    dataOf (step .freshLoad (run .freshLoad (init disk) ops) op) j = dataOf (run .freshLoad (init disk) ops) j ∧
    ∀ b, dataOf (write (run .freshLoad (init disk) ops) j b) j = b :=
  ⟨live_stable _ (wf_run ops _ (wf_init disk)) op j hj hop, fun b => write_own _ (wf_run ops _ (wf_init disk)) j hj b⟩

open Nitime.C15.Reader in
/-- a reader that KEEPS IMAGE OBJECTS between calls (a nibabel image hands out the array it cached) violates all
three: whole volume → overwrite it → ROI of the same file returns the overwritten values, two whole-volume series
share one buffer, and writing into one changes the other -/
theorem reader_keepImages_counterexample :
    let disk : List (File Nat) := [⟨1, 2, [[1, 2, 3], [4, 5, 6]]⟩]
    let roi : Coords := ⟨[0], [0], [1]⟩
    let h1 : List (Op Nat) := [.read [0] true none, .write 0 [[0, 0, 0], [0, 0, 0]]]
    expected disk [0] true (some roi) = [[4, 5, 6]] ∧
    lastData (read .keepImages (run .keepImages (init disk) h1) [0] true (some roi)) = [[0, 0, 0]] ∧
    lastData (read .freshLoad (run .freshLoad (init disk) h1) [0] true (some roi)) = [[4, 5, 6]] ∧
    (run .keepImages (init disk) [.read [0] true none, .read [0] true none]).results = [0, 0] ∧
    dataOf (run .keepImages (init disk) [.read [0] true none, .read [0] true none, .write 0 [[9, 9, 9], [9, 9, 9]]]) 1
      = [[9, 9, 9], [9, 9, 9]] := by
  decide

open Nitime.Generated.ReaderLoads in
/-- **the reader as coded today is the `freshLoad` variant**: every `get_fdata()` of `nitime/fmri/io.py` is called on
an image bound by `im = load(<file>)` (nibabel's `load`, not rebound) in the same function, the reader functions carry
no decorator, and the module binds no name to a mutable container or call result (GENERATED; an image cache, a
memoising decorator or a module-level store re-opens this) -/
theorem reader_sites_fresh :
    Nitime.Generated.ReaderLoads.all ≠ [] ∧ (∀ s ∈ Nitime.Generated.ReaderLoads.all, s.src = .freshLoad) ∧
    moduleState = [] ∧ decorators = [] ∧ Nitime.C15.Reader.codeSrc = .freshLoad := by decide

example : Reader.expected [(⟨1, 2, [[1, 2], [3, 4]]⟩ : Reader.File Nat), ⟨1, 2, [[5], [6]]⟩] [0, 1] false
    (some ⟨[0, 0], [0, 0], [1, 0]⟩) = [[3, 4, 6], [1, 2, 5]] := by decide

/-- the reader accepts exactly the documented `normalize` / `filter['method']` values; everything else is refused -/
theorem reader_options_refused (nrm meth : String) :
    Reader.optionsOk nrm meth = true ↔
      (nrm = "-" ∨ nrm = "percent" ∨ nrm = "zscore") ∧
      (meth = "-" ∨ meth = "boxcar" ∨ meth = "fourier" ∨ meth = "fir" ∨ meth = "iir") := by
  simp [Reader.optionsOk, or_assoc]

/-! ### transforms work on exactly the samples of the series (every length, not only 2-3-5-smooth ones) -/

/-- **no analyzer hands a transform LENGTH to an FFT-type call** (`fft`, `ifft`, `rfft`, `hilbert`, … found through
local aliases; GENERATED `TransformCalls`, 6 sites today): each transforms the N samples it is given, so the result is
the algorithm's for EVERY N.  A call padded to `next_fast_len(N)` (identical for 2-3-5-smooth N, different for primes,
999, 301, …) re-opens this; data fidelity itself is judged per run on stratified lengths -/
theorem transforms_on_series_length :
    Nitime.Generated.TransformCalls.all ≠ [] ∧
    ∀ c ∈ Nitime.Generated.TransformCalls.all, c.lengthArg = false := by decide

end Nitime.C15.Props
