/-
C04 / C06 (round 4, class L9) — block-wise processing equals the un-blocked computation exactly when the per-block
index ranges are shifted by the block start / when the blocks cover every row.  Definitions: `Model/C04Block.lean`
(`blockFoldLo`, `loOffset`, `loUnshifted`, `rowsBlockwise`, `blocksCeil`, `blocksFloor`, `rowsPerBlock`); the un-blocked
one-sided assembly is `Nitime.Num.foldWith`, which `pgOne_eq_fold` / `onesided_is_fold` / `multitaper_onesided_is_fold`
(`Props/C04.lean`) tie to the estimators.
-/
import Nitime.Model.C04Block
import Mathlib.Data.Real.Basic
import Mathlib.Tactic.Linarith
import Mathlib.Tactic.NormNum

namespace Nitime.C04.Props
open Nitime.Num Nitime.C04

/-! ### the frequency axis in consecutive blocks -/

theorem block_start_le (b k : ℕ) : k / b * b ≤ k := Nat.div_mul_le_self k b

/-- the doubling applied per block with the lower bound shifted by the block start IS the un-blocked fold
(every value type, every doubling map, every block size — also `b = 0`, one block) -/
theorem fold_blockwise_offset {α : Type} (dbl : α → α) (N b : ℕ) (p : ℕ → α) (k : ℕ) :
    blockFoldLo dbl N b loOffset p k = foldWith dbl N p k := by
  unfold blockFoldLo foldWith loOffset
  have hle := block_start_le b k
  generalize k / b * b = f0 at hle ⊢
  by_cases hk : k = 0
  · subst hk
    have : f0 = 0 := by omega
    subst this
    simp
  · by_cases h2 : k < (N + 1) / 2
    · have : (1 - f0 ≤ k - f0 ∧ k - f0 < (N + 1) / 2 - f0) := by omega
      simp only [if_pos this, if_neg hk, if_pos h2]
    · have : ¬ (1 - f0 ≤ k - f0 ∧ k - f0 < (N + 1) / 2 - f0) := by omega
      simp only [if_neg this, if_neg hk, if_neg h2]

/-- **block decomposition of the fold**: a block-wise doubling with local lower bounds `lo` reproduces the un-blocked
one-sided assembly for every two-sided density iff, inside the duplicated band, every block's lower bound excludes
exactly what the bound offset by the block start excludes (i.e. only bin 0) -/
theorem fold_blockwise_eq (N b : ℕ) (lo : ℕ → ℕ) :
    (∀ (p : ℕ → ℝ) (k : ℕ), blockFoldLo (fun v => 2 * v) N b lo p k = foldWith (fun v => 2 * v) N p k) ↔
    (∀ k, k < (N + 1) / 2 → (lo (k / b * b) ≤ k - k / b * b ↔ loOffset (k / b * b) ≤ k - k / b * b)) := by
  constructor
  · intro h k hk
    have e := h (fun _ => 1) k
    rw [← fold_blockwise_offset (fun v : ℝ => 2 * v) N b (fun _ => 1) k] at e
    unfold blockFoldLo at e
    have hle := block_start_le b k
    generalize k / b * b = f0 at hle e ⊢
    have hl : k - f0 < (N + 1) / 2 - f0 := by omega
    by_cases h1 : lo f0 ≤ k - f0 <;> by_cases h2 : loOffset f0 ≤ k - f0
    · exact ⟨fun _ => h2, fun _ => h1⟩
    · simp [h1, h2, hl] at e
    · simp [h1, h2, hl] at e
    · exact ⟨fun a => absurd a h1, fun a => absurd a h2⟩
  · intro h p k
    rw [← fold_blockwise_offset (fun v : ℝ => 2 * v) N b p k]
    unfold blockFoldLo
    have hle := block_start_le b k
    by_cases hk : k < (N + 1) / 2
    · have := h k hk
      simp only [this]
    · generalize k / b * b = f0 at hle ⊢
      have : ¬ (k - f0 < (N + 1) / 2 - f0) := by omega
      simp [this]

/-- the un-shifted lower bound (`blk[..., 1 : Fl - f0] *= 2`) is NOT the fold: for every block size `b ≥ 1`, at
`N = 2b + 2` the first bin of the second block (bin `b`, inside the duplicated band `1 … b`) is left un-doubled -/
theorem fold_blockwise_unshifted_counterexample (b : ℕ) (hb : 1 ≤ b) :
    blockFoldLo (fun v : ℝ => 2 * v) (2 * b + 2) b loUnshifted (fun _ => 1) b = 1 ∧
    foldWith (fun v : ℝ => 2 * v) (2 * b + 2) (fun _ => 1) b = 2 := by
  have hbb : b / b = 1 := Nat.div_self hb
  have hF : (2 * b + 2 + 1) / 2 = b + 1 := by omega
  constructor
  · unfold blockFoldLo loUnshifted
    simp [hbb]
  · unfold foldWith
    have : b ≠ 0 := by omega
    simp [this, hF]

/-- … and why no call with at most `b` duplicated bins sees it: with the whole duplicated band in the first block the
un-shifted bound is the fold -/
theorem fold_blockwise_unshifted_partial {α : Type} (dbl : α → α) (N b : ℕ) (hN : (N + 1) / 2 ≤ b) (p : ℕ → α) (k : ℕ) :
    blockFoldLo dbl N b loUnshifted p k = foldWith dbl N p k := by
  rw [← fold_blockwise_offset dbl N b p k]
  unfold blockFoldLo loUnshifted loOffset
  by_cases hk : k < b
  · have : k / b = 0 := Nat.div_eq_of_lt hk
    simp [this]
  · have hle := block_start_le b k
    generalize k / b * b = f0 at hle ⊢
    have : ¬ (k - f0 < (N + 1) / 2 - f0) := by omega
    simp [this]

example : blockFoldList (fun v : Nat => 2 * v) 10 2 loOffset (fun k => k + 1) = [1, 4, 6, 8, 10, 6] := by decide
example : blockFoldList (fun v : Nat => 2 * v) 10 2 loUnshifted (fun k => k + 1) = [1, 4, 3, 8, 5, 6] := by decide
example : blockFoldList (fun v : Nat => 2 * v) 10 2 loOffset (fun k => k + 1) =
    (List.range 6).map (foldWith (fun v : Nat => 2 * v) 10 (fun k => k + 1)) := by decide

/-! ### the channel axis in blocks of `rows` rows -/

theorem rowsPerBlock_pos (cap M K NFFT : ℕ) : 0 < rowsPerBlock cap M K NFFT := by
  unfold rowsPerBlock; omega

theorem lt_blocksCeil {M rows i : ℕ} (hr : 0 < rows) (hi : i < M) : i / rows < blocksCeil M rows := by
  unfold blocksCeil
  rw [Nat.div_lt_iff_lt_mul hr]
  have h1 := Nat.div_add_mod (M + rows - 1) rows
  have h2 := Nat.mod_lt (M + rows - 1) hr
  rw [Nat.mul_comm] at h1
  omega

/-- `⌈M / rows⌉` blocks of `rows` rows fill every row: the block-wise result is the un-blocked one, whatever the
allocation held -/
theorem tapered_rows_blockwise_covers_all_rows {β : Type} (M rows : ℕ) (hr : 0 < rows) (f init : ℕ → β) :
    ∀ i, i < M → rowsBlockwise rows (blocksCeil M rows) f init i = f i := by
  intro i hi
  unfold rowsBlockwise
  simp [lt_blocksCeil hr hi]

theorem rowsFilled_ceil (M rows : ℕ) (hr : 0 < rows) : rowsFilled M rows (blocksCeil M rows) = List.range M := by
  unfold rowsFilled
  rw [List.filter_eq_self]
  intro i hi
  simpa using lt_blocksCeil hr (List.mem_range.mp hi)

/-- `M // rows` blocks fill every row iff `rows` divides `M` -/
theorem tapered_rows_floor_blocks_iff (M rows : ℕ) (hr : 0 < rows) :
    (∀ i, i < M → i / rows < blocksFloor M rows) ↔ rows ∣ M := by
  unfold blocksFloor
  constructor
  · intro h
    rcases Nat.eq_zero_or_pos M with h0 | h0
    · subst h0; exact dvd_zero _
    · have h1 := h (M - 1) (by omega)
      rw [Nat.div_lt_iff_lt_mul hr] at h1
      have h2 := Nat.div_mul_le_self M rows
      have h3 := Nat.div_add_mod M rows
      rw [Nat.mul_comm] at h3
      exact Nat.dvd_of_mod_eq_zero (by omega)
  · rintro ⟨c, rfl⟩ i hi
    rw [Nat.mul_div_cancel_left c hr]
    exact Nat.div_lt_of_lt_mul hi

/-- when `rows ∤ M`, row `(M // rows)·rows < M` keeps what the allocation held -/
theorem tapered_rows_floor_blocks_counterexample {β : Type} (M rows : ℕ) (hr : 0 < rows) (h : ¬ rows ∣ M) (f init : ℕ → β) :
    ∃ i, i < M ∧ rowsBlockwise rows (blocksFloor M rows) f init i = init i := by
  refine ⟨M / rows * rows, ?_, ?_⟩
  · have h3 := Nat.div_add_mod M rows
    rw [Nat.mul_comm] at h3
    have : M % rows ≠ 0 := fun e => h (Nat.dvd_of_mod_eq_zero e)
    omega
  · unfold rowsBlockwise blocksFloor
    simp [Nat.mul_div_cancel _ hr]

/-- the instance of C04-14's demo: 3 channels, 7 tapers, NFFT = 2^14 under a cap of 2^18 values: 2 rows per block,
`3 // 2 = 1` block fills rows 0, 1 only; `⌈3 / 2⌉ = 2` blocks fill all -/
example : rowsPerBlock (2 ^ 18) 3 7 (2 ^ 14) = 2 ∧ rowsFilled 3 2 (blocksFloor 3 2) = [0, 1] ∧
    rowsFilled 3 2 (blocksCeil 3 2) = [0, 1, 2] := by decide

end Nitime.C04.Props
