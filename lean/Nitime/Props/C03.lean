/-
C03 — property theorems for the time-indexing model (`Nitime.C03`).
Helper lemmas about the numpy primitives live in `Nitime/Lemmas/C03.lean`.

Where today's code violates a clause the model has two variants: the theorem is proved for the
intended one (`UAxis.indexAt`, `UAxis.sliceDuring`, `sliceDuring`), a `_counterexample` shows the
violation for the variant that follows today's code (`…Current`), and a `_partial` theorem states
what today's code does satisfy.
-/
import Nitime.Model.C03
import Nitime.Lemmas.C03
import Mathlib.Tactic.Linarith
import Mathlib.Tactic.Ring

namespace Nitime.C03.Props
open Nitime Nitime.C03 Nitime.C03.UAxis

/-! ### uniform axis: `index_at` -/

private theorem sample_bounds (a : UAxis) (hdt : 0 < a.dt) (i : Nat) (hi : i < a.n) :
    a.t0 ≤ a.sample i ∧ a.sample (i + 1) ≤ a.stop := by
  unfold sample stop
  have h1 : (0 : Int) ≤ (i : Int) * a.dt := mul_nonneg (by omega) hdt.le
  have h2 : ((i + 1 : Nat) : Int) * a.dt ≤ (a.n : Int) * a.dt :=
    mul_le_mul_of_nonneg_right (by omega) hdt.le
  constructor <;> linarith

private theorem indexAt_single (a : UAxis) (t : Int) (h1 : a.t0 ≤ t) (h2 : t < a.stop) :
    a.indexAt [t] = .ok [a.bin t] := by
  have h1' : ¬ t < a.t0 := by omega
  have h2' : ¬ a.stop ≤ t := by omega
  simp [indexAt, indexAtWith, C01.listMin, C01.listMax, h1', h2']

private theorem bin_eq (a : UAxis) (hdt : 0 < a.dt) (i : Nat) (t : Int)
    (h1 : a.sample i ≤ t) (h2 : t < a.sample (i + 1)) : a.bin t = (i : Int) := by
  unfold sample at h1 h2
  unfold bin
  rw [Int.fdiv_eq_ediv_of_nonneg _ hdt.le]
  apply le_antisymm
  · have : (t - a.t0) / a.dt < (i : Int) + 1 := by
      apply (Int.ediv_lt_iff_lt_mul hdt).mpr
      push_cast at h2; linarith
    omega
  · apply (Int.le_ediv_iff_mul_le hdt).mpr
    linarith

/-- an instant anywhere inside the bin of sample `i` maps to `i` -/
theorem indexAt_bin (a : UAxis) (hdt : 0 < a.dt) (i : Nat) (hi : i < a.n) (t : Int)
    (h1 : a.sample i ≤ t) (h2 : t < a.sample (i + 1)) : a.indexAt [t] = .ok [(i : Int)] := by
  obtain ⟨hlo, hhi⟩ := sample_bounds a hdt i hi
  rw [indexAt_single a t (by linarith) (by linarith), bin_eq a hdt i t h1 h2]

/-- looking up the time of sample `i` returns `i` -/
theorem indexAt_sample (a : UAxis) (hdt : 0 < a.dt) (i : Nat) (hi : i < a.n) :
    a.indexAt [a.sample i] = .ok [(i : Int)] := by
  apply indexAt_bin a hdt i hi _ le_rfl
  unfold sample; push_cast; linarith

/-- instants outside the covered range `[t0, t0 + n·dt)` are refused -/
theorem indexAt_refuses_outside (a : UAxis) (t : Int) (h : t < a.t0 ∨ a.stop ≤ t) :
    a.indexAt [t] = .error .valueError := by
  simp [indexAt, indexAtWith, C01.listMin, C01.listMax, h]

private theorem foldl_min_spec (xs : List Int) (x : Int) :
    let m := xs.foldl (fun a b => if b < a then b else a) x
    m ∈ x :: xs ∧ ∀ y ∈ x :: xs, m ≤ y := by
  induction xs generalizing x with
  | nil => simp
  | cons z zs ih =>
    simp only [List.foldl_cons]
    obtain ⟨h1, h2⟩ := ih (if z < x then z else x)
    constructor
    · rcases List.mem_cons.mp h1 with h | h
      · rw [h]; by_cases hz : z < x <;> simp [hz]
      · simp [h]
    · intro y hy
      have hm := h2 (if z < x then z else x) (by simp)
      have hw : (if z < x then z else x) ≤ x ∧ (if z < x then z else x) ≤ z := by
        split <;> constructor <;> omega
      rcases List.mem_cons.mp hy with h | h
      · subst h; exact le_trans hm hw.1
      · rcases List.mem_cons.mp h with h | h
        · subst h; exact le_trans hm hw.2
        · exact h2 y (by simp [h])

private theorem foldl_max_spec (xs : List Int) (x : Int) :
    let m := xs.foldl (fun a b => if a < b then b else a) x
    m ∈ x :: xs ∧ ∀ y ∈ x :: xs, y ≤ m := by
  induction xs generalizing x with
  | nil => simp
  | cons z zs ih =>
    simp only [List.foldl_cons]
    obtain ⟨h1, h2⟩ := ih (if x < z then z else x)
    constructor
    · rcases List.mem_cons.mp h1 with h | h
      · rw [h]; by_cases hz : x < z <;> simp [hz]
      · simp [h]
    · intro y hy
      have hm := h2 (if x < z then z else x) (by simp)
      have hw : x ≤ (if x < z then z else x) ∧ z ≤ (if x < z then z else x) := by
        split <;> constructor <;> omega
      rcases List.mem_cons.mp hy with h | h
      · subst h; exact le_trans hw.1 hm
      · rcases List.mem_cons.mp h with h | h
        · subst h; exact le_trans hw.2 hm
        · exact h2 y (by simp [h])

/-- array queries: accepted iff every instant lies in the covered range, and then each maps to
its own bin -/
theorem indexAt_list (a : UAxis) (ts : List Int) (hne : ts ≠ []) :
    (a.indexAt ts = .ok (ts.map a.bin) ↔ ∀ t ∈ ts, a.t0 ≤ t ∧ t < a.stop) ∧
    (a.indexAt ts = .error .valueError ↔ ∃ t ∈ ts, t < a.t0 ∨ a.stop ≤ t) := by
  cases ts with
  | nil => exact absurd rfl hne
  | cons x xs =>
    obtain ⟨hmin1, hmin2⟩ := foldl_min_spec xs x
    obtain ⟨hmax1, hmax2⟩ := foldl_max_spec xs x
    by_cases hbad : List.foldl (fun a b => if b < a then b else a) x xs < a.t0 ∨
        List.foldl (fun a b => if a < b then b else a) x xs ≥ a.stop
    · have e : a.indexAt (x :: xs) = .error .valueError := by
        simp only [indexAt, indexAtWith, C01.listMin, C01.listMax, List.isEmpty_cons,
          Bool.false_eq_true, if_false, hbad, if_true]
      rw [e]
      have hex : ∃ t ∈ x :: xs, t < a.t0 ∨ a.stop ≤ t := by
        rcases hbad with h | h
        · exact ⟨_, hmin1, Or.inl h⟩
        · exact ⟨_, hmax1, Or.inr h⟩
      refine ⟨⟨fun h => (by cases h), fun h => ?_⟩, ⟨fun _ => hex, fun _ => rfl⟩⟩
      obtain ⟨t, ht, hor⟩ := hex
      have := h t ht; omega
    · have e : a.indexAt (x :: xs) = .ok ((x :: xs).map a.bin) := by
        simp only [indexAt, indexAtWith, C01.listMin, C01.listMax, List.isEmpty_cons,
          Bool.false_eq_true, if_false, hbad]
      rw [e]
      have hall : ∀ t ∈ x :: xs, a.t0 ≤ t ∧ t < a.stop := by
        intro t ht
        have h1 := hmin2 t ht
        have h2 := hmax2 t ht
        constructor <;> omega
      refine ⟨⟨fun _ => hall, fun _ => rfl⟩, ⟨fun h => (by cases h), fun h => ?_⟩⟩
      obtain ⟨t, ht, hor⟩ := h
      have := hall t ht; omega
example : (⟨-3, 2, 5, 10, .ms⟩ : UAxis).indexAt [0, 6, -3] = .ok [1, 4, 0] := by decide

/-- `boolean=True`: the mask is true exactly at the bins of the queried instants -/
theorem indexAtBool_spec (a : UAxis) (ts : List Int) (m : List Bool) (h : a.indexAtBool ts = .ok m) :
    m.length = a.n ∧ ∀ i, i < a.n → (m.getD i false = true ↔ ∃ t ∈ ts, a.bin t = (i : Int)) := by
  unfold indexAtBool at h
  cases hi : a.indexAt ts with
  | error e => rw [hi] at h; cases h
  | ok idx =>
    rw [hi] at h
    have hidx : idx = ts.map a.bin := by
      unfold indexAt indexAtWith at hi
      split at hi
      · cases hi
      · split at hi
        · cases hi
        · cases hi; rfl
    cases h
    refine ⟨by simp, fun i hin => ?_⟩
    simp [List.getD_eq_getElem?_getD, hin, hidx]

example : (⟨-3, 2, 5, 10, .ms⟩ : UAxis).indexAtBool [0, 1] = .ok [false, true, true, false, false] := by decide
example : (⟨-3, 2, 5, 10, .ms⟩ : UAxis).indexAt [0] = .ok [1] := by decide
example : (⟨-3, 2, 5, 10, .ms⟩ : UAxis).indexAt [7] = .error .valueError := by decide

/-- today's range check uses the reported duration; it agrees with the intended one exactly when
the reported duration is `n·dt` -/
theorem indexAtCurrent_partial (a : UAxis) (h : a.dur = (a.n : Int) * a.dt) (ts : List Int) :
    a.indexAtCurrent ts = a.indexAt ts := by
  simp [indexAtCurrent, indexAt, stop, h]

/-- duration-only axes (`duration=10, sampling_interval=3`): an instant inside the last bin is
refused by today's code -/
theorem indexAtCurrent_counterexample :
    ∃ (a : UAxis) (t : Int), 0 < a.dt ∧ a.sample 3 ≤ t ∧ t < a.sample 4 ∧ 3 < a.n ∧
      a.indexAtCurrent [t] = .error .valueError ∧ a.indexAt [t] = .ok [3] :=
  ⟨⟨0, 3, 4, 10, .s⟩, 11, by decide⟩

/-! ### uniform axis: `slice_during` -/

private theorem edgeIn_spec (a : UAxis) (hdt : 0 < a.dt) (s : Int) (h1 : a.t0 ≤ s) (i : Nat) :
    i < a.edgeIn s ↔ a.sample i < s := by
  unfold edgeIn sample bin
  rw [Int.fdiv_eq_ediv_of_nonneg _ hdt.le]
  have hq0 : 0 ≤ (s - a.t0) / a.dt := Int.ediv_nonneg (by omega) hdt.le
  have hq1 : (s - a.t0) / a.dt * a.dt ≤ s - a.t0 := Int.ediv_mul_le _ (by omega)
  have hq2 : s - a.t0 < ((s - a.t0) / a.dt + 1) * a.dt := Int.lt_ediv_add_one_mul_self _ hdt
  generalize (s - a.t0) / a.dt = q at hq0 hq1 hq2
  by_cases hgt : s > a.t0 + q * a.dt
  · simp only [hgt, if_true]
    constructor
    · intro h
      have : (i : Int) ≤ q := by omega
      have : (i : Int) * a.dt ≤ q * a.dt := mul_le_mul_of_nonneg_right this hdt.le
      linarith
    · intro h
      have : (i : Int) * a.dt < (q + 1) * a.dt := by linarith
      have : (i : Int) < q + 1 := lt_of_mul_lt_mul_right this hdt.le
      omega
  · simp only [hgt, if_false]
    constructor
    · intro h
      have : (i : Int) + 1 ≤ q := by omega
      have : ((i : Int) + 1) * a.dt ≤ q * a.dt := mul_le_mul_of_nonneg_right this hdt.le
      nlinarith
    · intro h
      have : (i : Int) * a.dt < q * a.dt := by linarith
      have : (i : Int) < q := lt_of_mul_lt_mul_right this hdt.le
      omega

/-- the clipped edge of an epoch boundary `s`: the samples before it are exactly those earlier than `s` -/
theorem edge_spec (a : UAxis) (hdt : 0 < a.dt) (s : Int) (i : Nat) (hi : i < a.n) :
    i < a.edge s ↔ a.sample i < s := by
  obtain ⟨hlo, hhi⟩ := sample_bounds a hdt i hi
  have hstep : a.sample i < a.sample (i + 1) := by unfold sample; push_cast; linarith
  unfold edge
  by_cases h1 : s < a.t0
  · simp only [h1, if_true]; constructor
    · intro h; omega
    · intro h; linarith
  · by_cases h2 : s ≥ a.stop
    · simp only [h1, h2, if_true, if_false]; constructor
      · intro _; linarith
      · intro _; exact hi
    · simp only [h1, h2, if_false]
      exact edgeIn_spec a hdt s (by omega) i

theorem edge_le (a : UAxis) (hdt : 0 < a.dt) (s : Int) : a.edge s ≤ a.n := by
  unfold edge
  by_cases h1 : s < a.t0
  · simp [h1]
  · by_cases h2 : s ≥ a.stop
    · simp [h1, h2]
    · simp only [h1, h2, if_false]
      by_contra hc
      have := (edgeIn_spec a hdt s (by omega) a.n).mp (by omega)
      unfold sample at this; unfold stop at h2; omega

theorem mem_slicePos (lo hi i : Nat) : i ∈ slicePos lo hi ↔ lo ≤ i ∧ i < hi := by
  simp only [slicePos, List.mem_range'_1]; omega

theorem slicePos_sorted (lo hi : Nat) : (slicePos lo hi).Pairwise (· < ·) :=
  List.pairwise_lt_range'

/-- INTENDED `UniformTime.slice_during`: position `i` is selected iff it exists and
`start ≤ t_i < stop` — for every epoch, including ones between samples, partly or wholly outside -/
theorem sliceDuring_spec_uniform (a : UAxis) (hdt : 0 < a.dt) (start stop : Int) (i : Nat) :
    i ∈ slicePos (a.sliceDuring start stop).1 (a.sliceDuring start stop).2 ↔
      i < a.n ∧ start ≤ a.sample i ∧ a.sample i < stop := by
  rw [mem_slicePos]
  simp only [UAxis.sliceDuring]
  constructor
  · rintro ⟨h1, h2⟩
    have hn : i < a.n := lt_of_lt_of_le h2 (edge_le a hdt stop)
    refine ⟨hn, ?_, (edge_spec a hdt stop i hn).mp h2⟩
    by_contra hc
    have := (edge_spec a hdt start i hn).mpr (by omega)
    omega
  · rintro ⟨hn, h1, h2⟩
    refine ⟨?_, (edge_spec a hdt stop i hn).mpr h2⟩
    by_contra hc
    have := (edge_spec a hdt start i hn).mp (by omega)
    omega

example : (⟨-3, 2, 5, 10, .ms⟩ : UAxis).sliceDuring (-4) 8 = (0, 5) := by decide
example : (⟨-3, 2, 5, 10, .ms⟩ : UAxis).sliceDuring (-2) (-2) = (1, 1) := by decide

/-- today's code refuses an epoch that reaches the end of the axis although samples satisfy
`start ≤ t < stop` -/
theorem sliceDuringCurrent_counterexample_uniform :
    ∃ (a : UAxis) (start stop : Int), 0 < a.dt ∧ a.dur = (a.n : Int) * a.dt ∧
      a.sliceDuringCurrent start stop = .error .valueError ∧ a.sliceDuring start stop = (0, 5) :=
  ⟨⟨-3, 2, 5, 10, .ms⟩, -3, 7, by decide⟩

/-- what today's code does satisfy: epochs whose two edges lie inside the axis -/
theorem sliceDuringCurrent_partial_uniform (a : UAxis) (hd : a.dur = (a.n : Int) * a.dt)
    (start stop : Int) (h1 : a.t0 ≤ start) (h2 : start < a.stop) (h3 : a.t0 ≤ stop) (h4 : stop < a.stop) :
    a.sliceDuringCurrent start stop = .ok (a.sliceDuring start stop) := by
  have e1 : a.edge start = a.edgeIn start := by
    simp [edge, show ¬ start < a.t0 by omega, show ¬ a.stop ≤ start by omega]
  have e2 : a.edge stop = a.edgeIn stop := by
    simp [edge, show ¬ stop < a.t0 by omega, show ¬ a.stop ≤ stop by omega]
  simp only [UAxis.sliceDuringCurrent, indexAtCurrent_partial a hd, indexAt_single a start h1 h2,
    indexAt_single a stop h3 h4, UAxis.sliceDuring, e1, e2]

/-! ### arbitrary time arrays: closest / before / after -/

/-- `mode='closest'`: exactly the positions within the tolerance -/
theorem closest_spec (ts : List Int) (t tol : Int) (i : Nat) :
    i ∈ indexClosest ts t tol ↔ i < ts.length ∧ |ts.getD i 0 - t| ≤ tol := by
  unfold indexClosest
  rw [mem_whereIdx]
  simp only [decide_eq_true_eq, Int.natCast_natAbs]

theorem closest_sorted (ts : List Int) (t tol : Int) : (indexClosest ts t tol).Pairwise (· < ·) :=
  whereIdx_sorted _ _

/-- `mode='before'`: empty iff no time is `≤ t`; otherwise a position holding the latest time
`≤ t`, and the first such position -/
theorem before_spec (ts : List Int) (t : Int) :
    (indexBefore ts t = none ↔ ∀ i, i < ts.length → t < ts.getD i 0) ∧
    (∀ j, indexBefore ts t = some j →
      j < ts.length ∧ ts.getD j 0 ≤ t ∧
      (∀ i, i < ts.length → ts.getD i 0 ≤ t → ts.getD i 0 ≤ ts.getD j 0) ∧
      (∀ i, i < j → ts.getD i 0 ≤ t → ts.getD i 0 < ts.getD j 0)) := by
  unfold indexBefore
  constructor
  · rw [pickMax_none, List.eq_nil_iff_forall_not_mem]
    constructor
    · intro h i hi
      by_contra hc
      exact h i ((mem_whereIdx _ _ _).mpr ⟨hi, decide_eq_true (by omega)⟩)
    · intro h i hi
      obtain ⟨h1, h2⟩ := (mem_whereIdx _ _ _).mp hi
      have := h i h1
      have h2' : ts.getD i 0 ≤ t := of_decide_eq_true h2
      omega
  · intro j hj
    obtain ⟨hm, hmax, hfirst⟩ := pickMax_some ts _ (whereIdx_sorted _ _) j hj
    obtain ⟨h1, h2⟩ := (mem_whereIdx _ _ _).mp hm
    refine ⟨h1, of_decide_eq_true h2, ?_, ?_⟩
    · intro i hi hle
      exact hmax i ((mem_whereIdx _ _ _).mpr ⟨hi, decide_eq_true hle⟩)
    · intro i hij hle
      exact hfirst i ((mem_whereIdx _ _ _).mpr ⟨by omega, decide_eq_true hle⟩) hij

/-- `mode='after'`: empty iff no time is `≥ t`; otherwise a position holding the earliest time
`≥ t`, and the first such position -/
theorem after_spec (ts : List Int) (t : Int) :
    (indexAfter ts t = none ↔ ∀ i, i < ts.length → ts.getD i 0 < t) ∧
    (∀ j, indexAfter ts t = some j →
      j < ts.length ∧ t ≤ ts.getD j 0 ∧
      (∀ i, i < ts.length → t ≤ ts.getD i 0 → ts.getD j 0 ≤ ts.getD i 0) ∧
      (∀ i, i < j → t ≤ ts.getD i 0 → ts.getD j 0 < ts.getD i 0)) := by
  unfold indexAfter
  constructor
  · rw [pickMin_none, List.eq_nil_iff_forall_not_mem]
    constructor
    · intro h i hi
      by_contra hc
      exact h i ((mem_whereIdx _ _ _).mpr ⟨hi, decide_eq_true (by omega)⟩)
    · intro h i hi
      obtain ⟨h1, h2⟩ := (mem_whereIdx _ _ _).mp hi
      have := h i h1
      have h2' : t ≤ ts.getD i 0 := of_decide_eq_true h2
      omega
  · intro j hj
    obtain ⟨hm, hmin, hfirst⟩ := pickMin_some ts _ (whereIdx_sorted _ _) j hj
    obtain ⟨h1, h2⟩ := (mem_whereIdx _ _ _).mp hm
    refine ⟨h1, of_decide_eq_true h2, ?_, ?_⟩
    · intro i hi hle
      exact hmin i ((mem_whereIdx _ _ _).mpr ⟨hi, decide_eq_true hle⟩)
    · intro i hij hle
      exact hfirst i ((mem_whereIdx _ _ _).mpr ⟨by omega, decide_eq_true hle⟩) hij

example : indexClosest [5, 1, 4, 5] 5 1 = [0, 2, 3] := by decide
example : indexBefore [5, 1, 4, 4] 4 = some 2 ∧ indexBefore [5, 6] 4 = none := by decide
example : indexAfter [5, 1, 4, 5, 9] 5 = some 0 ∧ indexAfter [5, 6] 7 = none := by decide

/-! ### time-sorted arrays: `slice_during` -/

private theorem sorted_getD {ts : List Int} (hs : ts.Pairwise (· ≤ ·)) {i j : Nat} (hij : i ≤ j)
    (hj : j < ts.length) : ts.getD i 0 ≤ ts.getD j 0 := by
  have hi : i < ts.length := by omega
  simp only [List.getD_eq_getElem?_getD, List.getElem?_eq_getElem hi, List.getElem?_eq_getElem hj,
    Option.getD_some]
  rcases Nat.lt_or_eq_of_le hij with h | h
  · exact (List.pairwise_iff_getElem.mp hs) i j hi hj h
  · subst h; exact le_rfl

private theorem strict_getD {ts : List Int} (hs : ts.Pairwise (· < ·)) {i j : Nat} (hij : i < j)
    (hj : j < ts.length) : ts.getD i 0 < ts.getD j 0 := by
  have hi : i < ts.length := by omega
  simp only [List.getD_eq_getElem?_getD, List.getElem?_eq_getElem hi, List.getElem?_eq_getElem hj,
    Option.getD_some]
  exact (List.pairwise_iff_getElem.mp hs) i j hi hj hij

/-- what the stop edge must do when `stop > self[j]`: go past every sample equal to `self[j]` -/
def GoodBump (bump : List Int → Nat → Nat) (ts : List Int) : Prop :=
  ∀ j, j < ts.length →
    (∀ i, i < ts.length → i < bump ts j → ts.getD i 0 ≤ ts.getD j 0) ∧
    (∀ i, i < ts.length → ts.getD i 0 = ts.getD j 0 → i < bump ts j) ∧ bump ts j ≤ ts.length

theorem sliceDuringWith_spec (bump : List Int → Nat → Nat) (ts : List Int) (hs : ts.Pairwise (· ≤ ·))
    (hb : GoodBump bump ts) (start stop : Int) (i : Nat) :
    i ∈ slicePos (sliceDuringWith bump ts start stop).1 (sliceDuringWith bump ts start stop).2 ↔
      i < ts.length ∧ start ≤ ts.getD i 0 ∧ ts.getD i 0 < stop := by
  rw [mem_slicePos]
  obtain ⟨hbn, hbs⟩ := before_spec ts stop
  obtain ⟨han, has⟩ := after_spec ts start
  unfold sliceDuringWith
  cases hA : indexAfter ts start with
  | none =>
    have hall := han.mp hA
    simp only []
    constructor
    · intro h; omega
    · rintro ⟨h1, h2, _⟩; have := hall i h1; omega
  | some ia =>
    cases hB : indexBefore ts stop with
    | none =>
      have hall := hbn.mp hB
      simp only []
      constructor
      · intro h; omega
      · rintro ⟨h1, _, h3⟩; have := hall i h1; omega
    | some jb =>
      obtain ⟨ha1, ha2, ha3, ha4⟩ := has ia hA
      obtain ⟨hb1, hb2, hb3, hb4⟩ := hbs jb hB
      obtain ⟨g1, g2, g3⟩ := hb jb hb1
      have hnot : ¬ start > ts.getD ia 0 := by omega
      simp only [hnot, if_false]
      -- the start edge: i ≥ ia ↔ start ≤ ts[i]
      have hstart : ∀ k, k < ts.length → (ia ≤ k ↔ start ≤ ts.getD k 0) := by
        intro k hk
        constructor
        · intro h; have := sorted_getD hs h hk; omega
        · intro h
          by_contra hc
          have h1 := ha4 k (by omega) h
          have h2 := sorted_getD hs (show k ≤ ia by omega) ha1
          omega
      by_cases hgt : stop > ts.getD jb 0
      · simp only [hgt, if_true]
        constructor
        · rintro ⟨h1, h2⟩
          have hi : i < ts.length := by omega
          have := g1 i hi h2
          exact ⟨hi, (hstart i hi).mp h1, by omega⟩
        · rintro ⟨hi, h1, h2⟩
          refine ⟨(hstart i hi).mpr h1, ?_⟩
          have hle := hb3 i hi (by omega)
          by_cases hlt : i ≤ jb
          · have := g2 jb hb1 rfl; omega
          · have := sorted_getD hs (show jb ≤ i by omega) hi
            exact g2 i hi (by omega)
      · simp only [hgt, if_false]
        have heq : ts.getD jb 0 = stop := by omega
        constructor
        · rintro ⟨h1, h2⟩
          have hi : i < ts.length := by omega
          have hle := sorted_getD hs (show i ≤ jb by omega) hb1
          have := hb4 i h2 (by omega)
          exact ⟨hi, (hstart i hi).mp h1, by omega⟩
        · rintro ⟨hi, h1, h2⟩
          refine ⟨(hstart i hi).mpr h1, ?_⟩
          by_contra hc
          have := sorted_getD hs (show jb ≤ i by omega) hi
          omega

private theorem goodBump_intended (ts : List Int) (hs : ts.Pairwise (· ≤ ·)) :
    GoodBump (fun ts j => afterLastEq ts (ts.getD j 0)) ts := by
  intro j hj
  dsimp only
  obtain ⟨h0, hlen, hval, hall⟩ := afterLastEq_spec ts (ts.getD j 0) j hj rfl
  refine ⟨?_, ?_, hlen⟩
  · intro i _ hlt
    have := sorted_getD hs (show i ≤ afterLastEq ts (ts.getD j 0) - 1 by omega) (by omega)
    omega
  · intro i hi he; exact hall i hi he

private theorem goodBump_current (ts : List Int) (hs : ts.Pairwise (· < ·)) :
    GoodBump (fun _ j => j + 1) ts := by
  intro j hj
  dsimp only
  have hs' : ts.Pairwise (· ≤ ·) := hs.imp (fun h => le_of_lt h)
  refine ⟨?_, ?_, by omega⟩
  · intro i _ hlt; exact sorted_getD hs' (by omega) hj
  · intro i hi he
    by_contra hc
    have := strict_getD hs (show j < i by omega) hi
    omega

/-- INTENDED `TimeArray.slice_during` on a time-sorted array (repeated instants allowed): position
`i` is selected iff `start ≤ t_i < stop` -/
theorem sliceDuring_spec_sorted (ts : List Int) (hs : ts.Pairwise (· ≤ ·)) (start stop : Int) (i : Nat) :
    i ∈ slicePos (sliceDuring ts start stop).1 (sliceDuring ts start stop).2 ↔
      i < ts.length ∧ start ≤ ts.getD i 0 ∧ ts.getD i 0 < stop :=
  sliceDuringWith_spec _ ts hs (goodBump_intended ts hs) start stop i

/-- today's code under-selects when the last instant before the stop is repeated -/
theorem sliceDuringCurrent_counterexample_sorted :
    ∃ (ts : List Int) (start stop : Int), ts.Pairwise (· ≤ ·) ∧
      start ≤ ts.getD 1 0 ∧ ts.getD 1 0 < stop ∧
      1 ∉ slicePos (sliceDuringCurrent ts start stop).1 (sliceDuringCurrent ts start stop).2 ∧
      sliceDuring ts start stop = (0, 2) :=
  ⟨[2, 2, 4], 2, 3, by decide⟩

/-- the repair is also right when the stop coincides with a repeated sample -/
example : sliceDuring [1, 2, 2, 3] 1 2 = (0, 1) ∧ sliceDuring [1, 2, 2, 3] 2 3 = (1, 3) := by decide

/-- what today's code does satisfy: strictly increasing arrays -/
theorem sliceDuringCurrent_partial_sorted (ts : List Int) (hs : ts.Pairwise (· < ·)) (start stop : Int) (i : Nat) :
    i ∈ slicePos (sliceDuringCurrent ts start stop).1 (sliceDuringCurrent ts start stop).2 ↔
      i < ts.length ∧ start ≤ ts.getD i 0 ∧ ts.getD i 0 < stop :=
  sliceDuringWith_spec _ ts (hs.imp (fun h => le_of_lt h)) (goodBump_current ts hs) start stop i

/-! ### epochs -/

/-- `Epochs(t0=…, offset=…, duration=…)` with 0-d time objects: `start = t0 − offset`,
`stop = start + duration`, and the offset is kept for the result's time axis -/
theorem epochs_t0_offset_duration (u : Option TimeUnit) (a o d : Int) (ua uo ud : TimeUnit) :
    Epochs.mk' u (some (.time ⟨[a], ua, true⟩)) none (some (.time ⟨[o], uo, true⟩)) none (some (.time ⟨[d], ud, true⟩))
      = .ok ⟨[a - o], [a - o + d], true, o, u.getD ua⟩ := by
  simp [Epochs.mk', toTime, C01.ctorFrom, bc, C01.broadcast, bind, Except.bind, pure, Except.pure]

/-- `Epochs(start=…, stop=…)` with 0-d time objects -/
theorem epochs_start_stop (u : Option TimeUnit) (a b : Int) (ua ub : TimeUnit) :
    Epochs.mk' u none (some (.time ⟨[b], ub, true⟩)) none (some (.time ⟨[a], ua, true⟩)) none
      = .ok ⟨[a], [b], true, 0, u.getD ua⟩ := by
  simp [Epochs.mk', toTime, C01.ctorFrom, C01.ctorNums, C01.asarray, C01.toPsF, bind, Except.bind, pure, Except.pure]

/-- neither `t0` nor `start`: refused -/
theorem epochs_rejects_no_start (u : Option TimeUnit) (off dur stop : Arg) :
    Epochs.mk' u none stop off none dur = .error .valueError := by
  simp [Epochs.mk', bind, Except.bind, throw, throwThe, MonadExceptOf.throw]

/-! ### data selected = data stored at those positions -/

/-- fancy / slice indexing returns, in order, the stored values at exactly the given positions -/
theorem sel_spec (row : List Int) (pos : List Nat) :
    (sel row pos).length = pos.length ∧
    ∀ k, k < pos.length → (sel row pos).getD k 0 = row.getD (pos.getD k 0) 0 :=
  ⟨sel_length row pos, fun k hk => sel_getD row pos k hk⟩

/-- `TimeSeries.at(t)` for a scalar instant: every row contributes the value stored at the bin of `t` -/
theorem series_at_positions (s : Series) (hdt : 0 < s.axis.dt) (i : Nat) (hi : i < s.axis.n) (t : Int)
    (h1 : s.axis.sample i ≤ t) (h2 : t < s.axis.sample (i + 1)) :
    s.at [t] = .ok (s.data.map fun row => [row.getD i 0]) := by
  simp [Series.at, indexAt_bin s.axis hdt i hi t h1 h2, sel]

/-- `TimeSeries.during(e)` for one epoch: every row contributes the values stored at exactly the
positions `i` with `start ≤ t_i < stop`, in increasing order -/
theorem select_data_positions (s : Series) (hdt : 0 < s.axis.dt) (start stop : Int) :
    ∃ pos : List Nat, s.block start stop = s.data.map (fun row => sel row pos) ∧
      pos.Pairwise (· < ·) ∧
      ∀ i, i ∈ pos ↔ i < s.axis.n ∧ start ≤ s.axis.sample i ∧ s.axis.sample i < stop :=
  ⟨slicePos (s.axis.sliceDuring start stop).1 (s.axis.sliceDuring start stop).2, rfl,
    slicePos_sorted _ _, fun i => sliceDuring_spec_uniform s.axis hdt start stop i⟩

/-- event collections: times and every data array are selected at the same positions, which for an
epoch key on time-sorted events are exactly those with `start ≤ t_i < stop` -/
theorem events_select_positions (ev : Events) (hs : ev.time.Pairwise (· ≤ ·)) (e : Epochs) (r : Events)
    (h : ev.getEpoch e = .ok r) :
    ∃ pos : List Nat, r.time = sel ev.time pos ∧ r.data = ev.data.map (fun v => sel v pos) ∧
      r.unit = ev.unit ∧
      ∀ i, i ∈ pos ↔ i < ev.time.length ∧ e.starts.headD 0 ≤ ev.time.getD i 0 ∧ ev.time.getD i 0 < e.stops.headD 0 := by
  unfold Events.getEpoch at h
  by_cases hsc : e.scalar
  · simp only [hsc, Bool.not_true, Bool.false_eq_true, if_false] at h
    refine ⟨slicePos (sliceDuring ev.time (e.starts.headD 0) (e.stops.headD 0)).1
      (sliceDuring ev.time (e.starts.headD 0) (e.stops.headD 0)).2, ?_, ?_, ?_,
      fun i => sliceDuring_spec_sorted ev.time hs _ _ i⟩ <;>
    · cases h; rfl
  · simp [hsc] at h

/-- the series returned by `during` starts at the epoch's offset and keeps the unit -/
theorem during_t0_is_offset (s : Series) (e : Epochs) (r : SeriesOut) (h : s.during e = .ok r) :
    r.t0 = e.offset ∧ r.unit = s.axis.unit := by
  unfold Series.during at h
  split at h
  · cases h; exact ⟨rfl, rfl⟩
  · split at h
    · cases h
    · split at h
      · cases h
      · dsimp only at h
        split at h
        · cases h; exact ⟨rfl, rfl⟩
        · cases h

/-- array epochs are accepted only when all durations are equal, and then there is one block per epoch -/
theorem array_epochs_equal_duration (s : Series) (e : Epochs) (r : SeriesOut) (hsc : e.scalar = false)
    (h : s.during e = .ok r) :
    allEq (List.zipWith (fun a b => b - a) e.starts e.stops) = true ∧
    r.blocks = List.zipWith (fun a b => s.block a b) e.starts e.stops := by
  unfold Series.during at h
  simp only [hsc, Bool.false_eq_true, if_false] at h
  split at h
  · cases h
  · split at h
    · cases h
    · split at h
      · cases h
        rename_i h2 _
        exact ⟨by simpa using h2, rfl⟩
      · cases h

/-- element-wise `closest` for a query array as long as the time array -/
theorem closest2_spec (ts tq : List Int) (tol : Int) (i : Nat) :
    i ∈ indexClosest2 ts tq tol ↔ i < ts.length ∧ |ts.getD i 0 - tq.getD i 0| ≤ tol := by
  simp [indexClosest2, whereIdx2, List.mem_filter, List.mem_range]

/-- python integer keys: `0 ≤ k < n` names position `k`, `−n ≤ k < 0` names `n + k`, anything else is refused -/
theorem normKey_spec (n : Nat) (k : Int) :
    (0 ≤ k → k < n → normKey n k = .ok k.toNat) ∧
    (k < 0 → -(n : Int) ≤ k → normKey n k = .ok (k + n).toNat ∧ (k + n).toNat < n) ∧
    (k ≥ n ∨ k < -(n : Int) → normKey n k = .error .indexError) := by
  refine ⟨fun h1 h2 => by simp [normKey, h1, h2], fun h1 h2 => ⟨?_, by omega⟩, fun h => ?_⟩
  · have : ¬ (0 ≤ k ∧ k < n) := by omega
    simp [normKey, this, h1, h2]
  · have h1 : ¬ (0 ≤ k ∧ k < n) := by omega
    have h2 : ¬ (k < 0 ∧ -(n : Int) ≤ k) := by omega
    simp [normKey, h1, h2]

/-- `TimeSeries.during` with a scalar epoch returns the one block of `select_data_positions` -/
theorem series_during_scalar (s : Series) (e : Epochs) (h : e.scalar = true) :
    s.during e = .ok ⟨s.axis.unit, e.offset, [s.block (e.starts.headD 0) (e.stops.headD 0)]⟩ := by
  simp [Series.during, h]

/-- `TimeSeries[k]` for an integer key: every row's value at that position -/
theorem series_getInt_positions (s : Series) (k : Int) (h1 : 0 ≤ k) (h2 : k < s.axis.n) :
    s.getInt k = .ok (s.data.map fun row => row.getD k.toNat 0) := by
  simp [Series.getInt, (normKey_spec s.axis.n k).1 h1 h2]

/-- `Events[float]`: times and every data array are selected at exactly the positions within one
clock tick of the key -/
theorem events_getFloat_positions (ev : Events) (t : Int) :
    ∃ pos : List Nat, (ev.getFloat t).time = sel ev.time pos ∧
      (ev.getFloat t).data = ev.data.map (fun v => sel v pos) ∧ (ev.getFloat t).unit = ev.unit ∧
      ∀ i, i ∈ pos ↔ i < ev.time.length ∧ |ev.time.getD i 0 - t| ≤ 1 :=
  ⟨indexClosest ev.time t 1, rfl, rfl, rfl, fun i => closest_spec ev.time t 1 i⟩

/-- `Events[k]`: the k-th time and the k-th entry of every data array -/
theorem events_getInt_positions (ev : Events) (k : Int) (h1 : 0 ≤ k) (h2 : k < ev.time.length) :
    ev.getInt k = .ok ⟨[ev.time.getD k.toNat 0], ev.unit, ev.data.map fun v => [v.getD k.toNat 0]⟩ := by
  simp [Events.getInt, (normKey_spec ev.time.length k).1 h1 h2, Events.select, sel]
example : (Series.during ⟨⟨-3, 2, 5, 10, .ms⟩, [[0, 1, 2, 3, 4], [5, 6, 7, 8, 9]]⟩
    ⟨[-1], [3], true, 2, .ms⟩) = .ok ⟨.ms, 2, [[[1, 2], [6, 7]]]⟩ := by decide

end Nitime.C03.Props
